(* proofs/RefSched4.v — predicate soundness for P_C11 (Preds2.v), part 3: clause 1104 (no pose of an entity is
   relayed to an observer after the entity's deletion was relayed to it).
   [Rd]: every entity the predicate has recorded as "deletion told to observer d" (u_deleted, current episode of d)
   is absent from d's session and its id is at most the session's entity counter - so it can never come back
   (entity ids are handed out by incrementing the counter), and a pose relay, which only concerns entities that
   exist, never names it.  Then the full theorem: the model's own traces pass P_C11, all clauses. *)
From stdpp Require Import relations sorting.
From hagall Require Import Model Spec Obs Preds Preds2.
From hagall.proofs Require Import BaseLemmas Relay Inv Session Local Trans WF Mono Reach PC02 PC06 PC07 PC11 PC18 Own
  Refine Refine2 Refine3 Refine4 Refine5 RefComp RefComp2 RefComp3 RefComp4 RefSched RefSched2 RefSched3.
From Coq Require Import Lia.

(* ================= the fold over the deliveries of one event ================= *)
Definition c11_dstep (i : nat) : c11st * list violation → delivery → c11st * list violation :=
  λ acc d, let '(s, vs) := acc in
    let seen := default ∅ (u_deleted s !! fst d) in
    match snd d with
    | MPoseB _ eid _ => (s, vs ++ okv i (bool_decide (eid ∉ seen)) 1104 [zn (fst d); zn eid])
    | MEntityDeleteB _ eid => ({| u_last := u_last s; u_expect := u_expect s;
                                  u_deleted := <[fst d := seen ∪ {[eid]}]> (u_deleted s) |}, vs)
    | _ => (s, vs)
    end.
Lemma c11_deliveries_fold i s outs : c11_deliveries i s outs = fold_left (c11_dstep i) outs (s, []).
Proof. reflexivity. Qed.

Definition is_poseb (m : msg) : bool := match m with MPoseB _ _ _ => true | _ => false end.
Definition is_delb (m : msg) : bool := match m with MEntityDeleteB _ _ => true | _ => false end.
Lemma is_poseb_exc m : exc m = false → is_poseb m = false.
Proof. by destruct m. Qed.

(* no pose relay among the deliveries: nothing to report *)
Lemma c11_deliveries_noposes i s outs : qs is_poseb outs → (c11_deliveries i s outs).2 = [].
Proof.
  rewrite c11_deliveries_fold. intros H.
  assert (G : ∀ acc, acc.2 = [] → (fold_left (c11_dstep i) outs acc).2 = []).
  { induction H as [|[c m] l Hm _ IH]; intros [s0 vs] Hacc; [done|]. cbn [fold_left]. apply IH.
    unfold c11_dstep. simpl in *. destruct m; try done. }
  by apply G.
Qed.
(* only pose relays, none of a deleted entity: nothing to report, nothing recorded *)
Lemma c11_deliveries_poses i s outs :
  Forall (λ d : delivery, ∃ ots eid ps, snd d = MPoseB ots eid ps ∧ eid ∉ default ∅ (u_deleted s !! fst d)) outs →
  c11_deliveries i s outs = (s, []).
Proof.
  rewrite c11_deliveries_fold. induction 1 as [|[c m] l (ots&eid&ps&Hm&Hn) _ IH]; [done|]. cbn [fold_left].
  simpl in *. subst m. rewrite bool_decide_eq_true_2 by done. exact IH.
Qed.
(* what is recorded was recorded before, or is a deletion delivered in this event *)
Lemma c11_deliveries_deleted i s outs d eid :
  eid ∈ default ∅ (u_deleted (c11_deliveries i s outs).1 !! d) →
  eid ∈ default ∅ (u_deleted s !! d) ∨ ∃ ots, (d, MEntityDeleteB ots eid) ∈ outs.
Proof.
  rewrite c11_deliveries_fold.
  assert (G : ∀ acc, eid ∈ default ∅ (u_deleted (fold_left (c11_dstep i) outs acc).1 !! d) →
                     eid ∈ default ∅ (u_deleted acc.1 !! d) ∨ ∃ ots, (d, MEntityDeleteB ots eid) ∈ outs).
  { induction outs as [|[c m] l IH]; intros [s0 vs] H; [by left|]. cbn [fold_left] in H.
    apply IH in H as [H|(ots&H)]; [|right; exists ots; by right].
    unfold c11_dstep in H. cbn [fst snd] in *. destruct m; try (by left).
    cbn [fst u_deleted] in H. destruct (decide (c = d)) as [->|Hne].
    - rewrite lookup_insert in H. simpl in H. apply elem_of_union in H as [H|H]; [by left|].
      apply elem_of_singleton in H as ->. right. exists ots. by left.
    - rewrite lookup_insert_ne in H by done. by left. }
  apply G.
Qed.

(* the predicate's u_deleted after an event *)
Lemma P_C11_event_deleted cfg i sp sp' s e :
  u_deleted (P_C11_event cfg i sp sp' s e).1 = u_deleted (c11_reset sp sp' e (c11_deliveries i s (ev_outs e)).1).
Proof.
  unfold P_C11_event, c11_reset. destruct (c11_deliveries i s (ev_outs e)) as [s1 v1]. cbn [fst].
  set (s1' := match actor e with
              | Some c => if negb (mem_changed sp sp' e c) then s1
                          else {| u_last := u_last s1; u_expect := u_expect s1; u_deleted := delete c (u_deleted s1) |}
              | None => s1 end).
  destruct (ev_op e) as [c|c r|c hint|sid|c|]; try done.
  - destruct r; try done. by destruct (ev_verdict e).
  - destruct (ev_req e) as [[]|]; destruct (ev_verdict e); done.
Qed.

(* ================= one transition of a session that keeps a member ================= *)
(* an absent entity id below the counter stays absent; the counter grows *)
Definition keeps (SS SS' : session) : Prop :=
  s_egen SS ≤ s_egen SS' ∧ ∀ e, s_ents SS !! e = None → e ≤ s_egen SS → s_ents SS' !! e = None.
Lemma keeps_refl SS : keeps SS SS.
Proof. split; [lia|done]. Qed.
Lemma keeps_stable SS SS' : stable SS SS' → keeps SS SS'.
Proof.
  intros St. split; [apply (sb_egen _ _ St)|]. intros e He Hle.
  destruct (s_ents SS' !! e) as [x|] eqn:E; [|done]. exfalso.
  pose proof (sb_new_ent _ _ St e He ltac:(by rewrite E)). lia.
Qed.

Definition trans1 (cfg : config) (SS SS' : session) : Prop := SS' = SS ∨ sess_trans cfg (Some SS) (Some SS').
Lemma chain1_inv cfg SS SS' : sess_chain cfg 1 (Some SS) (Some SS') → trans1 cfg SS SS'.
Proof.
  intros (m&Hm&Hn). destruct m as [|[|m]]; [| |lia].
  - left. inversion Hn. done.
  - right. by apply nsteps_once_inv.
Qed.
Lemma trans1_keeps cfg k SS SS' : k + 1 < two32 → wf cfg k SS → trans1 cfg SS SS' → keeps SS SS'.
Proof. intros Hk W [->|T]; [apply keeps_refl|]. apply keeps_stable. by eapply stable_trans. Qed.

(* ================= where a relayed deletion comes from ================= *)
Definition nodel (l : list delivery) : Prop := Forall (λ d : delivery, is_delb (snd d) = false) l.
Lemma nodel_elem l x o eid : nodel l → (x, MEntityDeleteB o eid) ∉ l.
Proof. unfold nodel. intros H Hin. rewrite Forall_forall in H. by specialize (H _ Hin). Qed.
Lemma nodel_app l1 l2 : nodel l1 → nodel l2 → nodel (l1 ++ l2).
Proof. apply Forall_app_2. Qed.
Lemma nodel_broadcast SS p m : is_delb m = false → nodel (broadcast SS p m).
Proof. apply (Forall_broadcast (λ m, is_delb m = false)). Qed.
Lemma nodel_broadcast_to SS p ids m : is_delb m = false → nodel (broadcast_to SS p ids m).
Proof. apply (Forall_broadcast_to (λ m, is_delb m = false)). Qed.
Ltac nd := repeat first
  [ apply Forall_nil_2
  | apply Forall_cons_2; [reflexivity|]
  | apply nodel_app
  | apply nodel_broadcast; reflexivity
  | apply nodel_broadcast_to; reflexivity ].

Lemma nodel_module_join cfg c SS : nodel (module_join_msgs cfg c SS).
Proof. unfold module_join_msgs. destruct (cfg_vikja cfg), (cfg_odal cfg); unfold nodel; nd. Qed.
Lemma nodel_enter cfg st c rid n ots : nodel (enter cfg st c rid n ots).1.2.
Proof.
  unfold enter. destruct (sessions st !! n) as [SS|]; [|constructor]. cbn [fst snd].
  apply Forall_cons_2; [done|]. apply nodel_app; [destruct (flag_on cfg F_SESSION_STATE); unfold nodel; nd|].
  apply nodel_app; [|apply nodel_module_join]. destruct (flag_on cfg F_JOIN_B); [constructor|]. by apply nodel_broadcast.
Qed.
Lemma handle_joined_nodel cfg st c cn sid p SS r hint st' o v :
  is_join r = false → (∀ rid eid ots, r ≠ REntityDelete rid eid ots) →
  handle_joined cfg st c cn sid p SS r hint = (st', o, v) → nodel o.
Proof.
  intros Hj Hd H. destruct r; try discriminate Hj; simpl in H.
  all: try (unfold on_ping, send_ping in H; repeat case_match; simplify_eq; unfold nodel; nd; fail).
  by destruct (Hd rid eid ots).
Qed.
Lemma handle_unjoined_nodel cfg st c cn r hint st' o v :
  is_join r = false → handle_unjoined cfg st c cn r hint = (st', o, v) → nodel o.
Proof.
  intros Hj H. destruct r; try discriminate Hj; simpl in H.
  all: repeat case_match; simplify_eq; unfold nodel; nd.
Qed.

Lemma remove_doomed_elem cfg p l SS x m :
  (x, m) ∈ (remove_doomed cfg p l SS).2 →
  ∃ eid q, eid ∈ l ∧ m = MEntityDeleteB 0 eid ∧ s_parts SS !! q = Some x ∧ q ≠ p.
Proof.
  revert SS. induction l as [|e l IH]; intros SS; simpl; [by intros ?%elem_of_nil|].
  specialize (IH (set_ents (delete e) (set_store (store_delete_entity e) SS))).
  destruct (remove_doomed cfg p l _) as [S2 o2]. simpl in *. intros [H|H]%elem_of_app.
  - destruct (flag_on cfg F_ENTITY_DELETE_B); [by apply elem_of_nil in H|].
    apply broadcast_spec in H as (->&q&Hq&Hne). exists e, q. repeat split; try done. by left.
  - destruct (IH H) as (eid&q&Hin&->&Hq&Hne). exists eid, q. repeat split; try done. by right.
Qed.

(* the recipient of a deletion relayed by a departure is another member of the leaver's session, the entity
   existed there, and is gone from what the departure leaves behind *)
Inductive del_source (st st' : state) (c x eid : N) : Prop :=
| Build_del_source (sid p q : N) (SS SS' : session) :
    cur_of st c = Some (sid, p) → sessions st !! sid = Some SS → s_parts SS !! q = Some x → q ≠ p →
    is_Some (s_ents SS !! eid) → sessions st' !! sid = Some SS' → s_ents SS' !! eid = None →
    del_source st st' c x eid.

Lemma leave_deletes cfg st c x o eid :
  inv st → (x, MEntityDeleteB o eid) ∈ (leave cfg st c).2 → del_source st (leave cfg st c).1 c x eid.
Proof.
  intros I Hin. destruct (cur_of st c) as [[sid p]|] eqn:Hcur0.
  2:{ rewrite (proj2 (leave_not_joined cfg st c Hcur0)) in Hin. by apply elem_of_nil in Hin. }
  pose proof Hcur0 as Hcur. unfold cur_of in Hcur. destruct (conns st !! c) as [cn|] eqn:Hc; [|done]. simpl in Hcur.
  destruct (live_session _ _ (inv_live _ I _ _ _ Hcur0)) as [SS HS].
  assert (Hout : ∃ q, s_parts SS !! q = Some x ∧ q ≠ p ∧ removed (c_own cn) SS eid).
  { unfold leave in Hin. rewrite Hc, Hcur, HS in Hin.
    set (S2 := set_store (store_set_subs (fmap (λ s : gset N, s ∖ {[p]}))) (module_disconnect cfg (c_own cn) SS)) in *.
    pose proof (remove_doomed_elem cfg p (doomed S2 (c_own cn)) S2 x (MEntityDeleteB o eid)) as Hel.
    destruct (remove_doomed cfg p (doomed S2 (c_own cn)) S2) as [S3 o1]. cbn [fst snd] in *.
    apply elem_of_app in Hin as [Hin|Hin].
    - destruct (Hel Hin) as (e&q&He&[= -> ->]&Hq&Hne). exists q. split; [|split; [done|]].
      + unfold S2 in Hq. simpl in Hq. by rewrite module_disconnect_parts in Hq.
      + by apply (removed_doomed cfg p).
    - destruct (flag_on cfg F_LEAVE_B); [by apply elem_of_nil in Hin|]. by apply broadcast_spec in Hin as [? _]. }
  destruct Hout as (q&Hq&Hne&Hrem).
  destruct (left_fields cfg c p (c_own cn) SS) as (F1&_&_&_&_&Fp&_).
  eapply (Build_del_source st _ c x eid sid p q SS (left_session cfg c p (c_own cn) SS)); try done.
  - by destruct Hrem as (_&ent&->&_).
  - rewrite (leave_unfold _ _ _ _ _ _ _ Hc Hcur HS). cbv zeta. rewrite decide_False.
    + simpl. by rewrite lookup_insert.
    + rewrite Fp. intros He. assert (Hl : delete p (s_parts SS) !! q = Some x) by (by rewrite lookup_delete_ne).
      by rewrite He, lookup_empty in Hl.
  - rewrite F1. by rewrite bool_decide_eq_true_2.
Qed.

Lemma del_source_ext st st1 st' c x eid :
  (∀ sid, sessions st' !! sid = sessions st1 !! sid) → del_source st st1 c x eid → del_source st st' c x eid.
Proof. intros H [sid p q SS SS' D1 D2 D3 D4 D5 D6 D7]. eapply Build_del_source; try done. by rewrite H. Qed.

Lemma join_deletes cfg st c cn rid s ots hint st' outs v x o eid :
  inv st → nowrap st → conns st !! c = Some cn → Model.join cfg st c rid s ots hint = (st', outs, v) →
  (x, MEntityDeleteB o eid) ∈ outs → del_source st st' c x eid.
Proof.
  intros I W Hc. unfold Model.join. rewrite Hc. destruct (already_joined cn s) eqn:Haj.
  { intros [= <- <- <-] Hin. exfalso. apply elem_of_cons in Hin as [[= ? ?]|Hin].
    revert Hin. apply nodel_elem. destruct (c_cur cn) as [[cur p0]|]; [|constructor].
    destruct (sessions st !! cur); [apply nodel_module_join|constructor]. }
  pose proof (leave_deletes cfg st c x o eid I) as HL. pose proof (inv_leave cfg st c I) as I1.
  pose proof (leave_nowrap cfg st c I W) as W1.
  destruct (leave cfg st c) as [st1 o1]. cbn [fst snd] in *.
  assert (Hother : ∀ n, sessions st1 !! n = None ∨ (∀ p, c_cur cn = Some (n, p) → False) →
    (x, MEntityDeleteB o eid) ∈ o1 → ∀ st3, (∀ sid, sid ≠ n → sessions st3 !! sid = sessions st1 !! sid) → del_source st st3 c x eid).
  { intros n Hn Hin st3 H3. destruct (HL Hin) as [sid p q SS SS' D1 D2 D3 D4 D5 D6 D7].
    eapply (Build_del_source st st3 c x eid sid p q SS SS'); try done. rewrite H3; [done|]. intros ->.
    destruct Hn as [Hn|Hn]; [congruence|]. apply (Hn p). unfold cur_of in D1. rewrite Hc in D1. done. }
  destruct s as [|n|k].
  - destruct (create_session hint st1) as [n st2] eqn:Hcr.
    destruct (create_session_proj _ _ _ _ I1 W1 Hcr) as (Hfresh&_).
    destruct (create_sessions _ _ _ _ Hcr) as [E2 _].
    assert (HS2 : sessions st2 !! n = Some (session0 (next_uuid st1 + 1))) by (rewrite E2; by rewrite lookup_insert).
    pose proof (enter_sessions cfg st2 c rid n ots _ HS2) as E3. pose proof (nodel_enter cfg st2 c rid n ots) as Hnd.
    destruct (enter cfg st2 c rid n ots) as [[st3 o2] v2]. cbn [fst snd] in *. intros [= <- <- <-] [Hin|Hin]%elem_of_app.
    + eapply (Hother n); [|done|].
      * left. unfold parts_of in Hfresh. by destruct (sessions st1 !! n).
      * intros sid Hne. rewrite E3, E2. by rewrite !lookup_insert_ne.
    + by apply nodel_elem in Hin.
  - destruct (sessions st1 !! n) as [SS|] eqn:HS.
    + pose proof (enter_sessions cfg st1 c rid n ots _ HS) as E3. pose proof (nodel_enter cfg st1 c rid n ots) as Hnd.
      destruct (enter cfg st1 c rid n ots) as [[st3 o2] v2]. cbn [fst snd] in *. intros [= <- <- <-] [Hin|Hin]%elem_of_app.
      * eapply (Hother n); [|done|].
        -- right. intros p Hcur. unfold already_joined in Haj. rewrite Hcur in Haj. by rewrite bool_decide_eq_true_2 in Haj.
        -- intros sid Hne. rewrite E3. by rewrite lookup_insert_ne.
      * by apply nodel_elem in Hin.
    + intros [= <- <- <-] [Hin|Hin]%elem_of_app; [by apply HL|]. apply elem_of_list_singleton in Hin. done.
  - intros [= <- <- <-] [Hin|Hin]%elem_of_app; [by apply HL|]. apply elem_of_list_singleton in Hin. done.
Qed.

Lemma handle_deletes cfg st c cn r hint st' outs v x o eid :
  inv st → nowrap st → conns st !! c = Some cn → handle cfg st c r hint = (st', outs, v) →
  (x, MEntityDeleteB o eid) ∈ outs → v = VOk ∧ del_source st st' c x eid.
Proof.
  intros I W Hc Eh Hin. unfold handle in Eh. rewrite Hc in Eh.
  assert (Hjoin : ∀ rid s ots, Model.join cfg st c rid s ots hint = (st', outs, v) → v = VOk ∧ del_source st st' c x eid).
  { intros rid s ots Ej. split; [|by eapply join_deletes].
    pose proof (join_verdict cfg st c cn rid s ots hint Hc) as Hv. by rewrite Ej in Hv. }
  destruct (c_cur cn) as [[sid p]|] eqn:Hcur.
  - destruct (sessions st !! sid) as [SS|] eqn:HS; [|injection Eh as <- <- <-; by apply elem_of_nil in Hin].
    destruct (is_join r) eqn:Hj. { destruct r; try discriminate Hj. by eapply Hjoin. }
    destruct r; try (exfalso; revert Hin; apply nodel_elem; eapply handle_joined_nodel; [exact Hj| |exact Eh]; done).
    simpl in Eh. destruct (s_ents SS !! eid0) as [ent|] eqn:He.
    2:{ injection Eh as <- <- <-. apply elem_of_list_singleton in Hin. done. }
    destruct (negb (e_owner ent =? p)).
    { injection Eh as <- <- <-. apply elem_of_list_singleton in Hin. done. }
    injection Eh as <- <- <-. split; [done|]. apply elem_of_cons in Hin as [[= ? ?]|Hin].
    destruct (flag_on cfg F_ENTITY_DELETE_B); [by apply elem_of_nil in Hin|].
    apply broadcast_spec in Hin as ([= <- <-]&q&Hq&Hne). simpl in Hq.
    set (S1 := set_ents (delete eid) (set_store (store_delete_entity eid) SS)).
    destruct (cleanup_modules_fields cfg eid S1) as (_&_&_&_&_&Hents&_).
    apply (Build_del_source st _ c x eid sid p q SS (cleanup_modules cfg eid S1));
      [unfold cur_of; by rewrite Hc|done|done|done|by rewrite He|simpl; by rewrite lookup_insert|].
    rewrite Hents. simpl. by rewrite lookup_delete.
  - destruct (is_join r) eqn:Hj. { destruct r; try discriminate Hj. by eapply Hjoin. }
    exfalso. revert Hin. apply nodel_elem. by eapply handle_unjoined_nodel.
Qed.

Lemma del_source_src st0 st st' c x eid :
  cur_of st0 c = cur_of st c → sessions st0 = sessions st → del_source st0 st' c x eid → del_source st st' c x eid.
Proof. intros H1 H2 [sid p q SS SS' D1 D2 D3 D4 D5 D6 D7]. eapply Build_del_source; try done; congruence. Qed.

Lemma disconnect_deletes cfg st c x o eid :
  inv st → (x, MEntityDeleteB o eid) ∈ (disconnect cfg st c).2 → del_source st (disconnect cfg st c).1 c x eid.
Proof.
  intros I Hin. destruct (disconnect_is_leave cfg st c) as [E1 E2]. rewrite E1 in Hin.
  eapply del_source_ext; [|by apply (leave_deletes cfg st c x o eid)]. intros sid. by rewrite E2.
Qed.

(* every relayed deletion of a step has such a source, with the acting connection as the leaver / deleter *)
Lemma step_deletes cfg st o k x od eid :
  inv st → bounded k st → k + 1 < two32 →
  (x, MEntityDeleteB od eid) ∈ (step cfg st o).1.2 →
  ∃ c, actor (ev_of st o (step cfg st o)) = Some c ∧ del_source st (step cfg st o).1.1 c x eid.
Proof.
  intros I B Hk. pose proof (bounded_nowrap _ _ B Hk) as W.
  destruct o as [c|c r|c hint|sid|c|]; unfold ev_of, actor; cbn [step ev_op].
  - destruct (conns st !! c); by intros ?%elem_of_nil.
  - unfold dispatch. destruct (conns st !! c) as [cn|] eqn:Hc; [|by intros ?%elem_of_nil].
    destruct (c_open cn); [|by intros ?%elem_of_nil]. cbn [negb].
    destruct r; try (by intros ?%elem_of_nil). destruct (ty =? 14); [|by intros ?%elem_of_nil].
    pose proof (disconnect_deletes cfg st c x od eid I) as HD. destruct (disconnect cfg st c) as [st1 o1]. cbn [fst snd] in *.
    intros Hin. exists c. split; [done|by apply HD].
  - destruct (conns st !! c) as [cn|] eqn:Hc; [|by intros ?%elem_of_nil].
    destruct (c_open cn) eqn:Ho; [|by intros ?%elem_of_nil]. cbn [negb].
    destruct (c_queue cn) as [|r q] eqn:Hq; [by intros ?%elem_of_nil|].
    set (st0 := upd_conn c (set_queue q) st).
    assert (Hs0 : same_mem st st0) by (apply same_mem_upd_conn; by intros []).
    assert (I0 : inv st0) by by eapply inv_same_mem.
    assert (B0 : bounded k st0) by by eapply bounded_same_mem.
    assert (W0 : nowrap st0) by by eapply bounded_nowrap.
    assert (Hc0 : conns st0 !! c = Some (set_queue q cn)) by (unfold st0; by rewrite conns_upd_conn_eq, Hc).
    assert (Hcur0 : cur_of st0 c = cur_of st c) by (by destruct Hs0 as (H1&_)).
    assert (Ho0 : open_of st0 c = Some true).
    { destruct Hs0 as (_&H2&_). rewrite H2. unfold open_of. by rewrite Hc; simpl; rewrite Ho. }
    pose proof (handle_deletes cfg st0 c (set_queue q cn) r hint) as HD.
    destruct (handle_inv cfg st0 c r hint k I0 B0 Hk Ho0) as [I1 _].
    destruct (handle cfg st0 c r hint) as [[st1 o1] v] eqn:Eh. cbn [fst snd] in *.
    assert (Hok : (x, MEntityDeleteB od eid) ∈ o1 → v = VOk ∧ del_source st st1 c x eid).
    { intros Hin. destruct (HD st1 o1 v x od eid I0 W0 Hc0 eq_refl Hin) as [Hv D]. split; [done|].
      by eapply del_source_src. }
    destruct v; cbn [fst snd]; try (intros Hin; exists c; split; [done|]; by apply Hok).
    pose proof (disconnect_deletes cfg st1 c x od eid I1) as HD2.
    destruct (disconnect cfg st1 c) as [st2 o2]. cbn [fst snd] in *.
    intros [Hin|Hin]%elem_of_app; [by destruct (Hok Hin)|].
    exists c. split; [done|].
    assert (Hj : is_join r = false).
    { destruct (is_join r) eqn:Hj; [|done]. exfalso. destruct r; try discriminate Hj.
      unfold handle in Eh. rewrite Hc0 in Eh. pose proof (join_verdict cfg st0 c _ rid sid ots hint Hc0) as Hv.
      destruct (c_cur (set_queue q cn)) as [[s0 p0]|].
      - destruct (sessions st0 !! s0); [|done]. simpl in Eh. by rewrite Eh in Hv.
      - simpl in Eh. by rewrite Eh in Hv. }
    destruct (handle_err_same cfg st0 c r hint st1 o1 Hj Eh) as [E1 E2].
    eapply (del_source_src st1); [| |by apply HD2].
    + unfold cur_of. rewrite E2. exact Hcur0.
    + rewrite E1. done.
  - by intros ?%elem_of_nil.
  - destruct (conns st !! c) as [cn|] eqn:Hc; [|by intros ?%elem_of_nil].
    destruct (c_open cn); [|by intros ?%elem_of_nil]. cbn [negb].
    pose proof (disconnect_deletes cfg st c x od eid I) as HD. destruct (disconnect cfg st c) as [st1 o1]. cbn [fst snd] in *.
    intros Hin. exists c. split; [done|by apply HD].
  - cbn [fst snd]. by intros [=]%elem_of_list_singleton.
Qed.

(* ================= the session of a member that stays: at most one transition per step ================= *)
Lemma leave_sessions_other cfg st c sid :
  inv st → (∀ p, cur_of st c ≠ Some (sid, p)) → sessions (leave cfg st c).1 !! sid = sessions st !! sid.
Proof.
  intros I Hn. destruct (leave_sessions cfg st c I) as [(cn&s&p&SS&Hc&Hcur&HS&Hp&E)|[_ E]]; [|by rewrite E].
  assert (s ≠ sid). { intros ->. apply (Hn p). unfold cur_of. by rewrite Hc. }
  rewrite E. case_decide; [by rewrite lookup_delete_ne|by rewrite lookup_insert_ne].
Qed.

Lemma join_trans1 cfg st c cn rid s ots hint st' outs v d sid q SS SS' :
  inv st → nowrap st → conns st !! c = Some cn → Model.join cfg st c rid s ots hint = (st', outs, v) →
  cur_of st d = Some (sid, q) → cur_of st' d = Some (sid, q) → (d = c → join_resp c outs = None) →
  sessions st !! sid = Some SS → sessions st' !! sid = Some SS' → trans1 cfg SS SS'.
Proof.
  intros I W Hc Ej Hd Hd' Hrj HS HS'.
  destruct (decide (d = c)) as [->|Hne].
  { destruct (join_outcomes cfg st c cn rid s ots hint st' outs v Hc Ej) as [-> _ _|T _|n p r u _ Hjr].
    - left. congruence.
    - exfalso. unfold cur_of in Hd'. destruct (conns st' !! c) as [cn'|] eqn:Hc'; [|done].
      destruct (ctrans_inv _ _ _ _ _ T Hc') as (cn0&_&Hcv). apply cv_eq in Hcv as (_&Hcur&_).
      unfold at_conn in Hcur. rewrite decide_True in Hcur by done. simpl in *. congruence.
    - rewrite (Hrj eq_refl) in Hjr. done. }
  unfold Model.join in Ej. rewrite Hc in Ej. destruct (already_joined cn s) eqn:Haj.
  { injection Ej as <- _ _. left. congruence. }
  pose proof (leave_chain cfg st c sid I) as H1. pose proof (inv_leave cfg st c I) as I1.
  pose proof (leave_nowrap cfg st c I W) as W1.
  pose proof (leave_sessions_other cfg st c sid I) as Hoth.
  assert (Hd1 : cur_of (leave cfg st c).1 d = Some (sid, q)).
  { destruct (cur_of st c) as [[s0 p0]|] eqn:Hcc.
    - rewrite (lp_cur _ _ _ _ _ (leave_projections cfg st c s0 p0 I Hcc)). by rewrite decide_False.
    - by rewrite (proj1 (leave_not_joined cfg st c Hcc)). }
  destruct (leave cfg st c) as [st1 o1]. cbn [fst snd] in *.
  destruct (live_session _ _ (inv_live _ I1 _ _ _ Hd1)) as [SS1 HS1].
  rewrite HS, HS1 in H1. apply chain1_inv in H1.
  destruct s as [|n|k].
  - destruct (create_session hint st1) as [n st2] eqn:Hcr.
    destruct (create_session_proj _ _ _ _ I1 W1 Hcr) as (Hfresh&_).
    destruct (create_sessions _ _ _ _ Hcr) as [E2 _].
    assert (HS2 : sessions st2 !! n = Some (session0 (next_uuid st1 + 1))) by (rewrite E2; by rewrite lookup_insert).
    pose proof (enter_sessions cfg st2 c rid n ots _ HS2) as E3.
    destruct (enter cfg st2 c rid n ots) as [[st3 o2] v2]. cbn [fst snd] in *. injection Ej as <- _ _.
    assert (n ≠ sid). { intros ->. unfold parts_of in Hfresh. by rewrite HS1 in Hfresh. }
    rewrite E3, E2, !lookup_insert_ne in HS' by done. congruence.
  - destruct (sessions st1 !! n) as [SSn|] eqn:HSn.
    + pose proof (enter_sessions cfg st1 c rid n ots _ HSn) as E3.
      destruct (enter cfg st1 c rid n ots) as [[st3 o2] v2]. cbn [fst snd] in *. injection Ej as <- _ _.
      rewrite E3 in HS'. destruct (decide (n = sid)) as [->|Hn].
      * rewrite lookup_insert in HS'. injection HS' as <-.
        assert (Heq : sessions st1 !! sid = sessions st !! sid).
        { apply Hoth. intros p Hcc. unfold cur_of in Hcc. rewrite Hc in Hcc. simpl in Hcc. unfold already_joined in Haj.
          rewrite Hcc in Haj. by rewrite bool_decide_eq_true_2 in Haj. }
        rewrite Heq in HS1, HSn. assert (SSn = SS) as -> by congruence. right. apply st_entered.
      * rewrite lookup_insert_ne in HS' by done. congruence.
    + injection Ej as <- _ _. congruence.
  - injection Ej as <- _ _. congruence.
Qed.

Lemma handle_trans1 cfg st c cn r hint st' outs v d sid q SS SS' :
  inv st → nowrap st → conns st !! c = Some cn → handle cfg st c r hint = (st', outs, v) →
  cur_of st d = Some (sid, q) → cur_of st' d = Some (sid, q) → (d = c → is_join r = true → join_resp c outs = None) →
  sessions st !! sid = Some SS → sessions st' !! sid = Some SS' → trans1 cfg SS SS'.
Proof.
  intros I W Hc Eh Hd Hd' Hrj HS HS'. unfold handle in Eh. rewrite Hc in Eh.
  destruct (c_cur cn) as [[s p]|] eqn:Hcur.
  - destruct (sessions st !! s) as [S0|] eqn:HS0; [|injection Eh as <- _ _; left; congruence].
    destruct (is_join r) eqn:Hj.
    { destruct r; try discriminate Hj. eapply join_trans1; try done. intros ->. by apply Hrj. }
    destruct (session_local r) eqn:Hl.
    + rewrite (handle_joined_sstep cfg st c cn s p S0 r hint Hl Hc HS0) in Eh. unfold apply_sstep in Eh.
      injection Eh as <- _ _. simpl in HS'. destruct (decide (s = sid)) as [->|Hn].
      * rewrite lookup_insert in HS'. injection HS' as <-. assert (S0 = SS) as -> by congruence.
        right. apply st_local; [done|]. by destruct (inv_member st c cn sid p SS I Hc Hcur HS).
      * rewrite lookup_insert_ne in HS' by done. left. congruence.
    + pose proof (handle_joined_other cfg st c cn s p S0 r hint Hl Hj) as E. rewrite Eh in E. simpl in E.
      left. congruence.
  - destruct (is_join r) eqn:Hj.
    { destruct r; try discriminate Hj. eapply join_trans1; try done. intros ->. by apply Hrj. }
    pose proof (handle_unjoined_other cfg st c cn r hint Hj) as E. rewrite Eh in E. simpl in E. left. congruence.
Qed.

Lemma step_trans1 cfg st o k d sid q SS SS' :
  inv st → bounded k st → k + 1 < two32 →
  let e := ev_of st o (step cfg st o) in
  cur_of st d = Some (sid, q) → cur_of (step cfg st o).1.1 d = Some (sid, q) →
  (actor e = Some d → rejoined e d = false) →
  sessions st !! sid = Some SS → sessions (step cfg st o).1.1 !! sid = Some SS' → trans1 cfg SS SS'.
Proof.
  intros I B Hk e Hd Hd' Hrj HS HS'. pose proof (bounded_nowrap _ _ B Hk) as W.
  assert (Hsame : sessions (step cfg st o).1.1 = sessions st → trans1 cfg SS SS').
  { intros E. left. rewrite E in HS'. congruence. }
  assert (Hdisc : ∀ st0 c, inv st0 → sessions st0 = sessions st →
     sessions (step cfg st o).1.1 = sessions (disconnect cfg st0 c).1 → trans1 cfg SS SS').
  { intros st0 c I0 E0 E. pose proof (disconnect_chain cfg st0 c sid I0) as H. rewrite <- E, E0, HS, HS' in H.
    by apply chain1_inv. }
  destruct o as [c|c r|c hint|s|c|]; unfold e, ev_of in *; cbn [step consumed] in *.
  - apply Hsame. by destruct (conns st !! c).
  - unfold dispatch in *. destruct (conns st !! c) as [cn|] eqn:Hc; [|by apply Hsame].
    destruct (c_open cn); [|by apply Hsame]. cbn [negb] in *.
    destruct r; try (by apply Hsame). destruct (ty =? 14); [|by apply Hsame].
    apply (Hdisc st c I eq_refl). by destruct (disconnect cfg st c).
  - destruct (conns st !! c) as [cn|] eqn:Hc; [|by apply Hsame].
    destruct (c_open cn) eqn:Ho; [|by apply Hsame]. cbn [negb] in *.
    destruct (c_queue cn) as [|r q0] eqn:Hq; [by apply Hsame|]. cbn [head] in *.
    set (st0 := upd_conn c (set_queue q0) st) in *.
    assert (Hs0 : same_mem st st0) by (apply same_mem_upd_conn; by intros []).
    assert (I0 : inv st0) by by eapply inv_same_mem.
    assert (B0 : bounded k st0) by by eapply bounded_same_mem.
    assert (W0 : nowrap st0) by by eapply bounded_nowrap.
    assert (Hc0 : conns st0 !! c = Some (set_queue q0 cn)) by (unfold st0; by rewrite conns_upd_conn_eq, Hc).
    assert (Hd0 : cur_of st0 d = Some (sid, q)) by (destruct Hs0 as (H1&_); by rewrite H1).
    assert (Ho0 : open_of st0 c = Some true).
    { destruct Hs0 as (_&H2&_). rewrite H2. unfold open_of. by rewrite Hc; simpl; rewrite Ho. }
    destruct (handle_inv cfg st0 c r hint k I0 B0 Hk Ho0) as [I1 _].
    destruct (handle cfg st0 c r hint) as [[st1 o1] v] eqn:Eh. cbn [fst snd] in *.
    assert (Hnorm : v ≠ VErr → cur_of st1 d = Some (sid, q) → sessions st1 !! sid = Some SS' →
                    (actor {| ev_op := OStep c hint; ev_req := Some r; ev_outs := o1; ev_verdict := v |} = Some d →
                     rejoined {| ev_op := OStep c hint; ev_req := Some r; ev_outs := o1; ev_verdict := v |} d = false) →
                    trans1 cfg SS SS').
    { intros _ Hd1 HS1 Hrj1. eapply (handle_trans1 cfg st0 c _ r hint st1 o1 v d sid q); try done.
      intros -> Hj. specialize (Hrj1 eq_refl). rewrite rejoined_step in Hrj1. destruct r; try discriminate Hj.
      rewrite N.eqb_refl in Hrj1. simpl in Hrj1. by destruct (join_resp c o1). }
    destruct v; cbn [fst snd] in *; try (by apply Hnorm).
    assert (Hj : is_join r = false).
    { destruct (is_join r) eqn:Hj; [|done]. exfalso. destruct r; try discriminate Hj.
      unfold handle in Eh. rewrite Hc0 in Eh. pose proof (join_verdict cfg st0 c _ rid sid0 ots hint Hc0) as Hv.
      destruct (c_cur (set_queue q0 cn)) as [[s0 p0]|].
      - destruct (sessions st0 !! s0); [|done]. simpl in Eh. by rewrite Eh in Hv.
      - simpl in Eh. by rewrite Eh in Hv. }
    destruct (handle_err_same cfg st0 c r hint st1 o1 Hj Eh) as [E1 E2].
    apply (Hdisc st1 c I1); [by rewrite E1|]. by destruct (disconnect cfg st1 c).
  - apply Hsame. apply tick_sessions.
  - destruct (conns st !! c) as [cn|] eqn:Hc; [|by apply Hsame].
    destruct (c_open cn); [|by apply Hsame]. cbn [negb] in *.
    apply (Hdisc st c I eq_refl). by destruct (disconnect cfg st c).
  - by apply Hsame.
Qed.

(* ================= the spec's membership table only changes at the acting connection ================= *)
Lemma depart_mem_other sp c d : d ≠ c → sp_mem (depart sp c) !! d = sp_mem sp !! d.
Proof. intros H. destruct (depart_mproj sp c) as (->&_). by rewrite lookup_delete_ne. Qed.
Lemma spec_step_mem_other sp e d : actor e ≠ Some d → sp_mem (spec_step sp e) !! d = sp_mem sp !! d.
Proof.
  unfold actor, spec_step. destruct (ev_op e) as [c|c r|c hint|sid|c|]; try done; intros Hne.
  - destruct (ev_verdict e); try done; apply depart_mem_other; congruence.
  - assert (Hdc : d ≠ c) by congruence.
    destruct (ev_verdict e); try (by apply depart_mem_other).
    all: destruct (ev_req e) as [r|]; [|done].
    all: assert (Hreq : sp_mem (match sp_mem sp !! c with Some (sid, p) => spec_request sp c sid p r (ev_outs e) | None => sp end) !! d
                        = sp_mem sp !! d) by (destruct (sp_mem sp !! c) as [[s9 p9]|]; [by rewrite sp_mem_spec_request|done]).
    all: destruct r; try exact Hreq.
    all: destruct (join_resp c (ev_outs e)) as [[[[r' n] u] p']|];
      [simpl; rewrite lookup_insert_ne by done; by apply depart_mem_other
      |destruct (has_error c E_NOT_FOUND (ev_outs e)); [by apply depart_mem_other|done]].
  - apply depart_mem_other. congruence.
Qed.

(* ================= which steps relay poses ================= *)
Lemma lat_req_noposes cfg st c r hint st' o v :
  is_lat_req r = true → handle cfg st c r hint = (st', o, v) → qs is_poseb o.
Proof.
  intros Hl. unfold handle. destruct (conns st !! c) as [cn|]; [|by intros [= _ <- _]; constructor].
  destruct (c_cur cn) as [[sid p]|].
  - destruct (sessions st !! sid) as [SS|]; [|by intros [= _ <- _]; constructor].
    destruct r; try discriminate Hl; simpl; unfold on_ping, send_ping; intros H; repeat case_match; simplify_eq;
      repeat constructor.
  - destruct r; try discriminate Hl; simpl; intros [= _ <- _]; repeat constructor.
Qed.

Lemma step_poses cfg st o :
  qs is_poseb (step cfg st o).1.2 ∨
  ∃ sid SS eid, sessions st !! sid = Some SS ∧ is_Some (s_ents SS !! eid) ∧
    Forall (λ d : delivery, ∃ ots ps q, snd d = MPoseB ots eid ps ∧ s_parts SS !! q = Some (fst d)) (step cfg st o).1.2.
Proof.
  destruct (stepped (ev_of st o (step cfg st o))) as [[c r]|] eqn:Hst.
  2:{ left. apply (qs_step is_poseb is_poseb_exc). intros c r. by rewrite Hst. }
  destruct (exc_req r) eqn:Hx.
  2:{ left. apply (qs_step is_poseb is_poseb_exc). intros c' r'. rewrite Hst. by intros [= <- <-]. }
  destruct (step_stepped cfg st o c _ Hst) as (hint&cn&q&st1&o1&v&->&Hc&Ho&Hq&Eh&Hv&Es). rewrite Es. cbn [fst snd].
  destruct (is_lat_req r) eqn:Hl; [left; by eapply lat_req_noposes|].
  destruct r; try discriminate Hx; try discriminate Hl.
  unfold handle in Eh. destruct (conns (upd_conn c (set_queue q) st) !! c) as [cn0|]; [|injection Eh as <- <- <-; left; constructor].
  destruct (c_cur cn0) as [[sid p0]|].
  - change (sessions (upd_conn c (set_queue q) st)) with (sessions st) in Eh.
    destruct (sessions st !! sid) as [SS|] eqn:HS; [|injection Eh as <- <- <-; left; constructor].
    simpl in Eh. destruct (s_ents SS !! eid) as [ent|] eqn:He; [|injection Eh as <- <- <-; left; constructor].
    destruct p as [ps|]; [|injection Eh as <- <- <-; left; constructor].
    destruct (negb (e_owner ent =? p0)); [injection Eh as <- <- <-; left; constructor|].
    destruct (flag_on cfg F_POSE_B); [injection Eh as <- <- <-; left; constructor|].
    injection Eh as <- <- <-. right. exists sid, SS, eid. split; [done|]. split; [by rewrite He|].
    apply Forall_forall. intros [x m] Hin. apply broadcast_spec in Hin as (->&q'&Hq'&_). simpl in Hq'. by exists ots, ps, q'.
  - simpl in Eh. injection Eh as <- <- <-. left. constructor.
Qed.

(* ================= the u_deleted relation ================= *)
Definition Rd (st : state) (ud : gmap N (gset N)) : Prop :=
  ∀ d sid q SS eid, cur_of st d = Some (sid, q) → sessions st !! sid = Some SS →
    eid ∈ default ∅ (ud !! d) → s_ents SS !! eid = None ∧ eid ≤ s_egen SS.

Lemma Rd_state0 : Rd state0 ∅.
Proof. intros d sid q SS eid. unfold cur_of. simpl. by rewrite lookup_empty. Qed.

Lemma c11_deleted_ok cfg st o k kw sp s i :
  inv st → bounded k st → k + 1 < two32 → reg st → swf cfg kw st → kw + 1 < two32 →
  refines_mem sp st → Rd st (u_deleted s) →
  let e := ev_of st o (step cfg st o) in
  (c11_deliveries i s (ev_outs e)).2 = [] ∧
  Rd (step cfg st o).1.1 (u_deleted (P_C11_event cfg i sp (spec_step sp e) s e).1).
Proof.
  intros I B Hk G Wf Hkw R RD e.
  destruct (step_sim cfg st o k sp i I B Hk G R) as [R' _]. fold e in R'.
  split.
  - (* 1104 *)
    unfold e, ev_of. cbn [ev_outs].
    destruct (step_poses cfg st o) as [Hq|(sid&SS&eid&HS&Hent&Hall)]; [by apply c11_deliveries_noposes|].
    rewrite c11_deliveries_poses; [done|]. eapply Forall_impl; [exact Hall|].
    intros [x m] (ots&ps&q&Hm&Hq). exists ots, eid, ps. split; [done|]. cbn [fst snd] in *. intros Hin.
    assert (Hps : parts_of st sid = Some (s_parts SS)) by (unfold parts_of; by rewrite HS).
    apply (inv_parts _ I sid _ q x Hps) in Hq.
    destruct (RD x sid q SS eid Hq HS Hin) as [Hnone _]. rewrite Hnone in Hent. by destruct Hent.
  - rewrite P_C11_event_deleted. intros d sid q SS' eid Hd' HS' Hin.
    set (s1 := (c11_deliveries i s (ev_outs e)).1) in *.
    (* not reset: the observer's membership is unchanged *)
    assert (Hkeep : eid ∈ default ∅ (u_deleted s1 !! d) ∧ cur_of st d = Some (sid, q) ∧
                    (actor e = Some d → rejoined e d = false)).
    { unfold c11_reset in Hin. destruct (actor e) as [a|] eqn:Ha.
      - destruct (decide (a = d)) as [->|Hne].
        + destruct (mem_changed sp (spec_step sp e) e d) eqn:Hm; cbn [negb] in Hin.
          { cbn [u_deleted] in Hin. rewrite lookup_delete in Hin. simpl in Hin. set_solver. }
          unfold mem_changed in Hm. apply orb_false_iff in Hm as [Hm1 Hm2]. apply negb_false_iff, bool_decide_eq_true in Hm1.
          split; [done|]. split; [|done]. rewrite <- (rm_mem _ _ R), Hm1, (rm_mem _ _ R'). exact Hd'.
        + assert (Hin' : eid ∈ default ∅ (u_deleted s1 !! d)).
          { destruct (negb _); [done|]. cbn [u_deleted] in Hin. by rewrite lookup_delete_ne in Hin. }
          split; [done|]. split; [|intros [= ?]; done].
          rewrite <- (rm_mem _ _ R). rewrite <- (spec_step_mem_other sp e d) by (rewrite Ha; congruence).
          rewrite (rm_mem _ _ R'). exact Hd'.
      - split; [done|]. split; [|done].
        rewrite <- (rm_mem _ _ R). rewrite <- (spec_step_mem_other sp e d) by (by rewrite Ha).
        rewrite (rm_mem _ _ R'). exact Hd'. }
    destruct Hkeep as (Hin1&Hd&Hrj).
    destruct (live_session _ _ (inv_live _ I _ _ _ Hd)) as [SS HS].
    pose proof (step_trans1 cfg st o k d sid q SS SS' I B Hk Hd Hd' Hrj HS HS') as T.
    destruct (trans1_keeps cfg kw SS SS' Hkw (Wf sid SS HS) T) as [Kg Ke].
    apply c11_deliveries_deleted in Hin1 as [Hold|(ots&Hnew)].
    + destruct (RD d sid q SS eid Hd HS Hold) as [Hn Hle]. split; [by apply Ke|lia].
    + destruct (step_deletes cfg st o k d ots eid I B Hk Hnew) as (c&_&[sid0 p0 q0 SS0 SS0' D1 D2 D3 D4 D5 D6 D7]).
      assert (Hps : parts_of st sid0 = Some (s_parts SS0)) by (unfold parts_of; by rewrite D2).
      apply (inv_parts _ I sid0 _ q0 d Hps) in D3. rewrite Hd in D3. injection D3 as <- <-.
      assert (SS0 = SS) as -> by congruence. assert (SS0' = SS') as -> by congruence.
      split; [done|]. destruct D5 as [ent Hent]. destruct (wf_ents _ _ _ (Wf sid SS HS) eid ent Hent) as [[_ Hle] _]. lia.
Qed.

(* ================= every history: all three relations, and the predicate is silent ================= *)
Theorem model_C11_rel cfg h :
  short h →
  P_C11 cfg (run cfg h) = [] ∧
  Rs (final cfg h) (u_last (c11_state cfg (run cfg h))) (u_expect (c11_state cfg (run cfg h))) ∧
  Rd (final cfg h) (u_deleted (c11_state cfg (run cfg h))).
Proof.
  induction h as [|o h IH] using rev_ind; intros Hs.
  { split; [done|]. split; [apply Rs_state0|apply Rd_state0]. }
  apply short_snoc in Hs as [Hs Hb]. destruct (IH Hs) as (IH1&IH2&IH3).
  assert (Hlen : N.of_nat (length h) < two32) by (unfold short in Hs; lia).
  destruct (reachable_inv cfg h state0 0 inv_state0 bounded_state0) as [I B]; [lia|].
  destruct (reachable_reg cfg h Hlen) as [G _].
  pose proof (refinement_mem cfg h Hs) as R. pose proof (refinement_ents cfg h Hs) as E.
  pose proof (reachable_own cfg h Hs) as O. pose proof (reachable_frames cfg h Hlen) as F.
  pose proof (reachable_swf cfg h Hs) as Wf.
  unfold P_C11, c11_state in *.
  change (λ i sp sp' s e, let '(s', v) := P_C11_event cfg i sp sp' s e in (s', v ++ P_C11_join cfg i sp sp' e ++ bad_msgs i 1100 e))
    with (c11_f cfg) in *.
  rewrite run_snoc, xscan_snoc, xstate_snoc, final_snoc, IH1. cbn [app].
  change (fold_left spec_step (run cfg h) spec0) with (spec_after (run cfg h)).
  set (sp := spec_after (run cfg h)) in *. set (st := final cfg h) in *. set (s := xstate (c11_f cfg) 0 spec0 c11_0 (run cfg h)) in *.
  set (e := ev_of st o (step cfg st o)).
  destruct (c11_rest_ok cfg st o (0 + N.of_nat (length h)) sp s (0 + length (run cfg h)) I B ltac:(lia) G O F R E IH2) as (C1&C2&C3&C4).
  destruct (c11_deleted_ok cfg st o (0 + N.of_nat (length h)) (4 * N.of_nat (length h)) sp s (0 + length (run cfg h)) I B ltac:(lia) G Wf
              ltac:(unfold short in Hs; lia) R IH3) as (C5&C6).
  fold e in C1, C2, C3, C4, C5, C6.
  pose proof (P_C11_event_viol cfg (0 + length (run cfg h)) sp (spec_step sp e) s e) as Hv. rewrite C1, C5 in Hv.
  unfold c11_f. destruct (P_C11_event cfg (0 + length (run cfg h)) sp (spec_step sp e) s e) as [s' v]. cbn [fst snd] in *.
  split; [|by split]. by rewrite Hv, C2, C3.
Qed.

Theorem model_passes_C11 cfg h : short h → P_C11 cfg (run cfg h) = [].
Proof. intros Hs. by destruct (model_C11_rel cfg h Hs) as (?&_). Qed.

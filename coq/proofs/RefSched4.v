(* proofs/RefSched4.v — predicate soundness for P_C11 (Preds2.v), part 3: clause 1104 (no pose of an entity is
   relayed to an observer after the entity's deletion was relayed to it).
   [Rd]: every entity the predicate has recorded as "deletion told to observer d" (u_deleted, current episode of d)
   is absent from d's session and its id is at most the session's entity counter - so it can never come back
   (entity ids are handed out by incrementing the counter), and a pose relay, which only concerns entities that
   exist, never names it.  Then the full theorem: the model's own traces pass P_C11, all clauses. *)
From stdpp Require Import relations sorting.
From hagall Require Import Model Spec Obs Preds Preds2.
From hagall.proofs Require Import BaseLemmas Relay Inv Session Local Trans WF Mono Reach PC02 PC06 PC07 PC11 PC18 Own
  Refine Refine2 Refine3 Refine4 Refine5 RefComp RefComp2 RefComp3 RefComp4 RefSched RefSched2 RefSched3.
From Coq Require Import Lia.

(* ================= the fold over the deliveries of one event ================= *)
Definition c11_dstep (i : nat) : c11st * list violation → delivery → c11st * list violation :=
  λ acc d, let '(s, vs) := acc in
    let seen := default ∅ (u_deleted s !! fst d) in
    match snd d with
    | MPoseB _ eid _ => (s, vs ++ okv i (bool_decide (eid ∉ seen)) 1104 [zn (fst d); zn eid])
    | MEntityDeleteB _ eid => ({| u_last := u_last s; u_expect := u_expect s;
                                  u_deleted := <[fst d := seen ∪ {[eid]}]> (u_deleted s) |}, vs)
    | _ => (s, vs)
    end.
Lemma c11_deliveries_fold i s outs : c11_deliveries i s outs = fold_left (c11_dstep i) outs (s, []).
Proof. reflexivity. Qed.

Definition is_poseb (m : msg) : bool := match m with MPoseB _ _ _ => true | _ => false end.
Definition is_delb (m : msg) : bool := match m with MEntityDeleteB _ _ => true | _ => false end.
Lemma is_poseb_exc m : exc m = false → is_poseb m = false.
Proof. by destruct m. Qed.

(* no pose relay among the deliveries: nothing to report *)
Lemma c11_deliveries_noposes i s outs : qs is_poseb outs → (c11_deliveries i s outs).2 = [].
Proof.
  rewrite c11_deliveries_fold. intros H.
  assert (G : ∀ acc, acc.2 = [] → (fold_left (c11_dstep i) outs acc).2 = []).
  { induction H as [|[c m] l Hm _ IH]; intros [s0 vs] Hacc; [done|]. cbn [fold_left]. apply IH.
    unfold c11_dstep. simpl in *. destruct m; try done. }
  by apply G.
Qed.
(* only pose relays, none of a deleted entity: nothing to report, nothing recorded *)
Lemma c11_deliveries_poses i s outs :
  Forall (λ d : delivery, ∃ ots eid ps, snd d = MPoseB ots eid ps ∧ eid ∉ default ∅ (u_deleted s !! fst d)) outs →
  c11_deliveries i s outs = (s, []).
Proof.
  rewrite c11_deliveries_fold. induction 1 as [|[c m] l (ots&eid&ps&Hm&Hn) _ IH]; [done|]. cbn [fold_left].
  simpl in *. subst m. rewrite bool_decide_eq_true_2 by done. exact IH.
Qed.
(* what is recorded was recorded before, or is a deletion delivered in this event *)
Lemma c11_deliveries_deleted i s outs d eid :
  eid ∈ default ∅ (u_deleted (c11_deliveries i s outs).1 !! d) →
  eid ∈ default ∅ (u_deleted s !! d) ∨ ∃ ots, (d, MEntityDeleteB ots eid) ∈ outs.
Proof.
  rewrite c11_deliveries_fold.
  assert (G : ∀ acc, eid ∈ default ∅ (u_deleted (fold_left (c11_dstep i) outs acc).1 !! d) →
                     eid ∈ default ∅ (u_deleted acc.1 !! d) ∨ ∃ ots, (d, MEntityDeleteB ots eid) ∈ outs).
  { induction outs as [|[c m] l IH]; intros [s0 vs] H; [by left|]. cbn [fold_left] in H.
    apply IH in H as [H|(ots&H)]; [|right; exists ots; by right].
    unfold c11_dstep in H. cbn [fst snd] in *. destruct m; try (by left).
    cbn [fst u_deleted] in H. destruct (decide (c = d)) as [->|Hne].
    - rewrite lookup_insert in H. simpl in H. apply elem_of_union in H as [H|H]; [by left|].
      apply elem_of_singleton in H as ->. right. exists ots. by left.
    - rewrite lookup_insert_ne in H by done. by left. }
  apply G.
Qed.

(* the predicate's u_deleted after an event *)
Lemma P_C11_event_deleted cfg i sp sp' s e :
  u_deleted (P_C11_event cfg i sp sp' s e).1 = u_deleted (c11_reset sp sp' e (c11_deliveries i s (ev_outs e)).1).
Proof.
  unfold P_C11_event, c11_reset. destruct (c11_deliveries i s (ev_outs e)) as [s1 v1]. cbn [fst].
  set (s1' := match actor e with
              | Some c => if negb (mem_changed sp sp' e c) then s1
                          else {| u_last := u_last s1; u_expect := u_expect s1; u_deleted := delete c (u_deleted s1) |}
              | None => s1 end).
  destruct (ev_op e) as [c|c r|c hint|sid|c|]; try done.
  - destruct r; try done. by destruct (ev_verdict e).
  - destruct (ev_req e) as [[]|]; destruct (ev_verdict e); done.
Qed.

(* ================= one transition of a session that keeps a member ================= *)
(* an absent entity id below the counter stays absent; the counter grows *)
Definition keeps (SS SS' : session) : Prop :=
  s_egen SS ≤ s_egen SS' ∧ ∀ e, s_ents SS !! e = None → e ≤ s_egen SS → s_ents SS' !! e = None.
Lemma keeps_refl SS : keeps SS SS.
Proof. split; [lia|done]. Qed.
Lemma keeps_stable SS SS' : stable SS SS' → keeps SS SS'.
Proof.
  intros St. split; [apply (sb_egen _ _ St)|]. intros e He Hle.
  destruct (s_ents SS' !! e) as [x|] eqn:E; [|done]. exfalso.
  pose proof (sb_new_ent _ _ St e He ltac:(by rewrite E)). lia.
Qed.

Definition trans1 (cfg : config) (SS SS' : session) : Prop := SS' = SS ∨ sess_trans cfg (Some SS) (Some SS').
Lemma chain1_inv cfg SS SS' : sess_chain cfg 1 (Some SS) (Some SS') → trans1 cfg SS SS'.
Proof.
  intros (m&Hm&Hn). destruct m as [|[|m]]; [| |lia].
  - left. inversion Hn. done.
  - right. by apply nsteps_once_inv.
Qed.
Lemma trans1_keeps cfg k SS SS' : k + 1 < two32 → wf cfg k SS → trans1 cfg SS SS' → keeps SS SS'.
Proof. intros Hk W [->|T]; [apply keeps_refl|]. apply keeps_stable. by eapply stable_trans. Qed.

(* ================= where a relayed deletion comes from ================= *)
Definition nodel (l : list delivery) : Prop := Forall (λ d : delivery, is_delb (snd d) = false) l.
Lemma nodel_elem l x o eid : nodel l → (x, MEntityDeleteB o eid) ∉ l.
Proof. unfold nodel. intros H Hin. rewrite Forall_forall in H. by specialize (H _ Hin). Qed.
Lemma nodel_app l1 l2 : nodel l1 → nodel l2 → nodel (l1 ++ l2).
Proof. apply Forall_app_2. Qed.
Lemma nodel_broadcast SS p m : is_delb m = false → nodel (broadcast SS p m).
Proof. apply (Forall_broadcast (λ m, is_delb m = false)). Qed.
Lemma nodel_broadcast_to SS p ids m : is_delb m = false → nodel (broadcast_to SS p ids m).
Proof. apply (Forall_broadcast_to (λ m, is_delb m = false)). Qed.
Ltac nd := repeat first
  [ apply Forall_nil_2
  | apply Forall_cons_2; [reflexivity|]
  | apply nodel_app
  | apply nodel_broadcast; reflexivity
  | apply nodel_broadcast_to; reflexivity ].

Lemma nodel_module_join cfg c SS : nodel (module_join_msgs cfg c SS).
Proof. unfold module_join_msgs. destruct (cfg_vikja cfg), (cfg_odal cfg); unfold nodel; nd. Qed.
Lemma nodel_enter cfg st c rid n ots : nodel (enter cfg st c rid n ots).1.2.
Proof.
  unfold enter. destruct (sessions st !! n) as [SS|]; [|constructor]. cbn [fst snd].
  apply Forall_cons_2; [done|]. apply nodel_app; [destruct (flag_on cfg F_SESSION_STATE); unfold nodel; nd|].
  apply nodel_app; [|apply nodel_module_join]. destruct (flag_on cfg F_JOIN_B); [constructor|]. by apply nodel_broadcast.
Qed.
Lemma handle_joined_nodel cfg st c cn sid p SS r hint st' o v :
  is_join r = false → (∀ rid eid ots, r ≠ REntityDelete rid eid ots) →
  handle_joined cfg st c cn sid p SS r hint = (st', o, v) → nodel o.
Proof.
  intros Hj Hd H. destruct r; try discriminate Hj; simpl in H.
  all: try (unfold on_ping, send_ping in H; repeat case_match; simplify_eq; unfold nodel; nd; fail).
  by destruct (Hd rid eid ots).
Qed.
Lemma handle_unjoined_nodel cfg st c cn r hint st' o v :
  is_join r = false → handle_unjoined cfg st c cn r hint = (st', o, v) → nodel o.
Proof.
  intros Hj H. destruct r; try discriminate Hj; simpl in H.
  all: repeat case_match; simplify_eq; unfold nodel; nd.
Qed.

Lemma remove_doomed_elem cfg p l SS x m :
  (x, m) ∈ (remove_doomed cfg p l SS).2 →
  ∃ eid q, eid ∈ l ∧ m = MEntityDeleteB 0 eid ∧ s_parts SS !! q = Some x ∧ q ≠ p.
Proof.
  revert SS. induction l as [|e l IH]; intros SS; simpl; [by intros ?%elem_of_nil|].
  specialize (IH (set_ents (delete e) (set_store (store_delete_entity e) SS))).
  destruct (remove_doomed cfg p l _) as [S2 o2]. simpl in *. intros [H|H]%elem_of_app.
  - destruct (flag_on cfg F_ENTITY_DELETE_B); [by apply elem_of_nil in H|].
    apply broadcast_spec in H as (->&q&Hq&Hne). exists e, q. repeat split; try done. by left.
  - destruct (IH H) as (eid&q&Hin&->&Hq&Hne). exists eid, q. repeat split; try done. by right.
Qed.

(* the recipient of a deletion relayed by a departure is another member of the leaver's session, the entity
   existed there, and is gone from what the departure leaves behind *)
Record del_source (st st' : state) (c x eid : N) : Prop := {
  ds_sid : N; ds_p : N; ds_q : N; ds_SS : session; ds_SS' : session;
  ds_cur : cur_of st c = Some (ds_sid, ds_p);
  ds_sess : sessions st !! ds_sid = Some ds_SS;
  ds_part : s_parts ds_SS !! ds_q = Some x;
  ds_ne : ds_q ≠ ds_p;
  ds_was : is_Some (s_ents ds_SS !! eid);
  ds_after : sessions st' !! ds_sid = Some ds_SS';
  ds_gone : s_ents ds_SS' !! eid = None
}.

Lemma leave_deletes cfg st c x o eid :
  inv st → (x, MEntityDeleteB o eid) ∈ (leave cfg st c).2 → del_source st (leave cfg st c).1 c x eid.
Proof.
  intros I Hin. destruct (cur_of st c) as [[sid p]|] eqn:Hcur0.
  2:{ rewrite (proj2 (leave_not_joined cfg st c Hcur0)) in Hin. by apply elem_of_nil in Hin. }
  pose proof Hcur0 as Hcur. unfold cur_of in Hcur. destruct (conns st !! c) as [cn|] eqn:Hc; [|done]. simpl in Hcur.
  destruct (live_session _ _ (inv_live _ I _ _ _ Hcur0)) as [SS HS].
  assert (Hout : ∃ q, s_parts SS !! q = Some x ∧ q ≠ p ∧ removed (c_own cn) SS eid).
  { unfold leave in Hin. rewrite Hc, Hcur, HS in Hin.
    set (S2 := set_store (store_set_subs (fmap (λ s : gset N, s ∖ {[p]}))) (module_disconnect cfg (c_own cn) SS)) in *.
    pose proof (remove_doomed_elem cfg p (doomed S2 (c_own cn)) S2 x (MEntityDeleteB o eid)) as Hel.
    destruct (remove_doomed cfg p (doomed S2 (c_own cn)) S2) as [S3 o1]. cbn [fst snd] in *.
    apply elem_of_app in Hin as [Hin|Hin].
    - destruct (Hel Hin) as (e&q&He&[= -> ->]&Hq&Hne). exists q. split; [|split; [done|]].
      + unfold S2 in Hq. simpl in Hq. by rewrite module_disconnect_parts in Hq.
      + by apply (removed_doomed cfg p).
    - destruct (flag_on cfg F_LEAVE_B); [by apply elem_of_nil in Hin|]. by apply broadcast_spec in Hin as [? _]. }
  destruct Hout as (q&Hq&Hne&Hrem).
  destruct (left_fields cfg c p (c_own cn) SS) as (F1&_&_&_&_&Fp&_).
  eapply (Build_del_source st _ c x eid sid p q SS (left_session cfg c p (c_own cn) SS)); try done.
  - by destruct Hrem as (_&ent&->&_).
  - rewrite (leave_unfold _ _ _ _ _ _ _ Hc Hcur HS). cbv zeta. rewrite decide_False.
    + simpl. by rewrite lookup_insert.
    + rewrite Fp. intros He. assert (Hl : delete p (s_parts SS) !! q = Some x) by (by rewrite lookup_delete_ne).
      by rewrite He, lookup_empty in Hl.
  - rewrite F1. by rewrite bool_decide_eq_true_2.
Qed.

Lemma del_source_ext st st1 st' c x eid :
  (∀ sid, sessions st' !! sid = sessions st1 !! sid) → del_source st st1 c x eid → del_source st st' c x eid.
Proof. intros H [sid p q SS SS' D1 D2 D3 D4 D5 D6 D7]. eapply Build_del_source; try done. by rewrite H. Qed.

Lemma join_deletes cfg st c cn rid s ots hint st' outs v x o eid :
  inv st → nowrap st → conns st !! c = Some cn → Model.join cfg st c rid s ots hint = (st', outs, v) →
  (x, MEntityDeleteB o eid) ∈ outs → del_source st st' c x eid.
Proof.
  intros I W Hc. unfold Model.join. rewrite Hc. destruct (already_joined cn s) eqn:Haj.
  { intros [= <- <- <-] Hin. exfalso. apply elem_of_cons in Hin as [[= ? ?]|Hin].
    revert Hin. apply nodel_elem. destruct (c_cur cn) as [[cur p0]|]; [|constructor].
    destruct (sessions st !! cur); [apply nodel_module_join|constructor]. }
  pose proof (leave_deletes cfg st c x o eid I) as HL. pose proof (inv_leave cfg st c I) as I1.
  pose proof (leave_nowrap cfg st c I W) as W1.
  destruct (leave cfg st c) as [st1 o1]. cbn [fst snd] in *.
  assert (Hother : ∀ n, sessions st1 !! n = None ∨ (∀ p, c_cur cn = Some (n, p) → False) →
    (x, MEntityDeleteB o eid) ∈ o1 → ∀ st3, (∀ sid, sid ≠ n → sessions st3 !! sid = sessions st1 !! sid) → del_source st st3 c x eid).
  { intros n Hn Hin st3 H3. destruct (HL Hin) as [sid p q SS SS' D1 D2 D3 D4 D5 D6 D7].
    eapply (Build_del_source st st3 c x eid sid p q SS SS'); try done. rewrite H3; [done|]. intros ->.
    destruct Hn as [Hn|Hn]; [congruence|]. apply (Hn p). unfold cur_of in D1. rewrite Hc in D1. done. }
  destruct s as [|n|k].
  - destruct (create_session hint st1) as [n st2] eqn:Hcr.
    destruct (create_session_proj _ _ _ _ I1 W1 Hcr) as (Hfresh&_).
    destruct (create_sessions _ _ _ _ Hcr) as [E2 _].
    assert (HS2 : sessions st2 !! n = Some (session0 (next_uuid st1 + 1))) by (rewrite E2; by rewrite lookup_insert).
    pose proof (enter_sessions cfg st2 c rid n ots _ HS2) as E3. pose proof (nodel_enter cfg st2 c rid n ots) as Hnd.
    destruct (enter cfg st2 c rid n ots) as [[st3 o2] v2]. cbn [fst snd] in *. intros [= <- <- <-] [Hin|Hin]%elem_of_app.
    + eapply (Hother n); [|done|].
      * left. unfold parts_of in Hfresh. by destruct (sessions st1 !! n).
      * intros sid Hne. rewrite E3, E2. by rewrite !lookup_insert_ne.
    + by apply nodel_elem in Hin.
  - destruct (sessions st1 !! n) as [SS|] eqn:HS.
    + pose proof (enter_sessions cfg st1 c rid n ots _ HS) as E3. pose proof (nodel_enter cfg st1 c rid n ots) as Hnd.
      destruct (enter cfg st1 c rid n ots) as [[st3 o2] v2]. cbn [fst snd] in *. intros [= <- <- <-] [Hin|Hin]%elem_of_app.
      * eapply (Hother n); [|done|].
        -- right. intros p Hcur. unfold already_joined in Haj. rewrite Hcur in Haj. by rewrite bool_decide_eq_true_2 in Haj.
        -- intros sid Hne. rewrite E3. by rewrite lookup_insert_ne.
      * by apply nodel_elem in Hin.
    + intros [= <- <- <-] [Hin|Hin]%elem_of_app; [by apply HL|]. apply elem_of_list_singleton in Hin. done.
  - intros [= <- <- <-] [Hin|Hin]%elem_of_app; [by apply HL|]. apply elem_of_list_singleton in Hin. done.
Qed.

Lemma handle_deletes cfg st c cn r hint st' outs v x o eid :
  inv st → nowrap st → conns st !! c = Some cn → handle cfg st c r hint = (st', outs, v) →
  (x, MEntityDeleteB o eid) ∈ outs → v = VOk ∧ del_source st st' c x eid.
Proof.
  intros I W Hc Eh Hin. unfold handle in Eh. rewrite Hc in Eh.
  assert (Hjoin : ∀ rid s ots, Model.join cfg st c rid s ots hint = (st', outs, v) → v = VOk ∧ del_source st st' c x eid).
  { intros rid s ots Ej. split; [|by eapply join_deletes].
    pose proof (join_verdict cfg st c cn rid s ots hint Hc) as Hv. by rewrite Ej in Hv. }
  destruct (c_cur cn) as [[sid p]|] eqn:Hcur.
  - destruct (sessions st !! sid) as [SS|] eqn:HS; [|injection Eh as <- <- <-; by apply elem_of_nil in Hin].
    destruct (is_join r) eqn:Hj. { destruct r; try discriminate Hj. by eapply Hjoin. }
    destruct r; try (exfalso; revert Hin; apply nodel_elem; eapply handle_joined_nodel; [exact Hj| |exact Eh]; done).
    simpl in Eh. destruct (s_ents SS !! eid0) as [ent|] eqn:He.
    2:{ injection Eh as <- <- <-. apply elem_of_list_singleton in Hin. done. }
    destruct (negb (e_owner ent =? p)).
    { injection Eh as <- <- <-. apply elem_of_list_singleton in Hin. done. }
    injection Eh as <- <- <-. split; [done|]. apply elem_of_cons in Hin as [[= ? ?]|Hin].
    destruct (flag_on cfg F_ENTITY_DELETE_B); [by apply elem_of_nil in Hin|].
    apply broadcast_spec in Hin as ([= -> ->]&q&Hq&Hne). simpl in Hq.
    set (S1 := set_ents (delete eid) (set_store (store_delete_entity eid) SS)).
    destruct (cleanup_modules_fields cfg eid S1) as (_&_&_&_&_&Hents&_).
    eapply (Build_del_source st _ c x eid sid p q SS (cleanup_modules cfg eid S1)); try done.
    + unfold cur_of. by rewrite Hc.
    + by rewrite He.
    + simpl. by rewrite lookup_insert.
    + rewrite Hents. simpl. by rewrite lookup_delete.
  - destruct (is_join r) eqn:Hj. { destruct r; try discriminate Hj. by eapply Hjoin. }
    exfalso. revert Hin. apply nodel_elem. by eapply handle_unjoined_nodel.
Qed.

(* proofs/RefFin4.v — the model's own traces pass P_C03 ("sessions are isolated", Preds2.v) on every history:
     301 (every delivery of an event goes to its actor or to a member of a session the actor is in before or after it),
     399 (no harness anomaly),
     302 (between two hook snapshots, a session that no member of it - and no tick of it - touched is unchanged).
   Part 1: one step of the model is ISOLATED ([iso]): the other connections stay where they are, every session the
           actor is in neither before nor after the step is exactly as before, and the deliveries go to the actor or
           to members of a session the actor is in before or after.
   Part 2: the observer invariant [c03_inv] and the per-event lemma.
   Part 3: every history. *)
From stdpp Require Import relations sorting.
From hagall Require Import Model Spec Obs Preds Preds2.
From hagall.proofs Require Import BaseLemmas Relay Inv Session Local Trans WF Mono Reach PC02 PC03 PC07 Own Views
  Refine Refine2 Refine3 Refine4 RefMod RefMod2 RefFin.
From Coq Require Import Lia.

(* ================= Part 1: one step is isolated ================= *)
Definition notcur (st : state) (c sid : N) : Prop := ∀ p, cur_of st c ≠ Some (sid, p).

Record iso (c : N) (st st' : state) (outs : list delivery) : Prop := {
  iso_others : ∀ q, q ≠ c → cur_of st' q = cur_of st q;
  iso_frame : ∀ sid, notcur st c sid → notcur st' c sid → sessions st' !! sid = sessions st !! sid;
  iso_rcpt : ∀ d, d ∈ outs → fst d = c ∨
     ∃ sid p pq, (cur_of st c = Some (sid, p) ∨ cur_of st' c = Some (sid, p)) ∧ cur_of st (fst d) = Some (sid, pq)
}.

Lemma iso_refl c st : iso c st st [].
Proof. split; [done|done|]. intros d Hd. by inversion Hd. Qed.

Lemma iso_self c st outs : (∀ d, d ∈ outs → fst d = c) → iso c st st outs.
Proof. intros H. split; [done|done|]. intros d Hd. left. by apply H. Qed.

Lemma iso_ext c st0 st st1 st' o :
  (∀ q, cur_of st0 q = cur_of st q) → sessions st0 = sessions st →
  (∀ q, cur_of st1 q = cur_of st' q) → sessions st1 = sessions st' →
  iso c st0 st1 o → iso c st st' o.
Proof.
  intros C0 S0 C1 S1 [O F Rc]. split.
  - intros q Hq. rewrite <- C1, <- C0. by apply O.
  - intros sid N0 N1. rewrite <- S1, <- S0. apply F; intros p; [rewrite C0|rewrite C1]; done.
  - intros d Hd. destruct (Rc d Hd) as [?|(sid&p&pq&Hc&Hq)]; [by left|]. right. exists sid, p, pq.
    rewrite <- !C0, <- C1. done.
Qed.

(* sequencing, when in between the actor is where it was or nowhere *)
Lemma iso_seq c st st1 st2 o1 o2 :
  (cur_of st1 c = None ∨ cur_of st1 c = cur_of st c) →
  iso c st st1 o1 → iso c st1 st2 o2 → iso c st st2 (o1 ++ o2).
Proof.
  intros Hmid [O1 F1 R1] [O2 F2 R2].
  assert (Hn : ∀ sid, notcur st c sid → notcur st1 c sid).
  { intros sid Hs p. destruct Hmid as [E|E]; rewrite E; [done|apply Hs]. }
  split.
  - intros q Hq. rewrite O2, O1; done.
  - intros sid N0 N2. rewrite F2, F1; try done; by apply Hn.
  - intros d [Hd|Hd]%elem_of_app.
    + destruct (R1 d Hd) as [?|(sid&p&pq&[Hc|Hc]&Hq)]; [by left|right; exists sid, p, pq; by split; [left|]|].
      destruct Hmid as [E|E]; rewrite E in Hc; [done|]. right. exists sid, p, pq. split; [by left|done].
    + destruct (R2 d Hd) as [?|(sid&p&pq&Hc&Hq)]; [by left|].
      destruct (decide (fst d = c)) as [?|Hne]; [by left|]. right. exists sid, p, pq.
      rewrite <- (O1 _ Hne). split; [|done].
      destruct Hc as [Hc|Hc]; [|by right]. destruct Hmid as [E|E]; rewrite E in Hc; [done|by left].
Qed.

Lemma iso_app_self c st st' o o2 : iso c st st' o → (∀ d, d ∈ o2 → fst d = c) → iso c st st' (o ++ o2).
Proof.
  intros [O F Rc] H. split; [done|done|]. intros d [Hd|Hd]%elem_of_app; [by apply Rc|left; by apply H].
Qed.

Lemma iso_upd c st f : (∀ cn, c_cur (f cn) = c_cur cn) → iso c st (upd_conn c f st) [].
Proof.
  intros Hf. eapply (iso_ext c st st st); [done|done| |done|apply iso_refl].
  intros q. symmetry. by apply cur_of_upd_conn.
Qed.

(* ---------- a departure ---------- *)
Lemma leave_iso cfg st c : inv st → iso c st (leave cfg st c).1 (leave cfg st c).2.
Proof.
  intros I. split.
  - intros q Hq. destruct (cur_of st c) as [[sid p]|] eqn:Hcur.
    + rewrite (lp_cur _ _ _ _ _ (leave_projections cfg _ _ _ _ I Hcur)). by rewrite decide_False.
    + by rewrite (proj1 (leave_not_joined _ _ _ Hcur)).
  - intros sid N0 _. by apply leave_frame.
  - intros d Hd. right. destruct (leave_recipients cfg st c d Hd) as (cn&sid&p&SS&q&Hc&Hcur&HS&Hq&Hne).
    exists sid, p, q. split; [left; unfold cur_of; by rewrite Hc|].
    apply (inv_parts _ I sid (s_parts SS) q (fst d)); [unfold parts_of; by rewrite HS|done].
Qed.

Lemma disconnect_iso cfg st c : inv st → iso c st (disconnect cfg st c).1 (disconnect cfg st c).2.
Proof.
  intros I. unfold disconnect. pose proof (leave_iso cfg st c I) as L.
  destruct (leave cfg st c) as [st1 o]. cbn [fst snd] in *.
  eapply (iso_ext c st st st1); [done|done| |done|exact L].
  intros q. symmetry. apply cur_of_upd_conn. by intros [].
Qed.

(* ---------- entering ---------- *)
Lemma enter_iso cfg st c rid n ots SS :
  inv st → is_Some (conns st !! c) → sessions st !! n = Some SS →
  iso c st (enter cfg st c rid n ots).1.1 (enter cfg st c rid n ots).1.2.
Proof.
  intros I Hc HS. destruct (enter_state cfg st c rid n ots SS HS) as (ES&EC&Ecur&_). specialize (Ecur Hc). split.
  - exact EC.
  - intros sid _ N1. rewrite ES. rewrite lookup_insert_ne; [done|]. intros <-. by eapply N1.
  - intros d Hd. destruct (enter_recipients cfg st c rid n ots SS d HS Hd) as [?|(q&Hq)]; [by left|]. right.
    exists n, (u32_succ (s_pgen SS)), q. split; [by right|].
    apply (inv_parts _ I n (s_parts SS) q (fst d)); [unfold parts_of; by rewrite HS|done].
Qed.

Lemma enter_new_iso cfg st c rid ots hint n st2 :
  is_Some (conns st !! c) → create_session hint st = (n, st2) →
  iso c st (enter cfg st2 c rid n ots).1.1 (enter cfg st2 c rid n ots).1.2.
Proof.
  intros Hc Hcr. destruct (create_sessions _ _ _ _ Hcr) as [E2 Ec2].
  set (S0 := session0 (next_uuid st + 1)) in *.
  assert (HS2 : sessions st2 !! n = Some S0) by (rewrite E2; by rewrite lookup_insert).
  assert (Hcur2 : ∀ q, cur_of st2 q = cur_of st q) by (intros q; unfold cur_of; by rewrite Ec2).
  rewrite <- Ec2 in Hc.
  destruct (enter_state cfg st2 c rid n ots S0 HS2) as (ES&EC&Ecur&_). specialize (Ecur Hc). split.
  - intros q Hq. rewrite EC by done. apply Hcur2.
  - intros sid _ N1. assert (sid ≠ n) by (intros ->; by eapply N1). rewrite ES, E2. by rewrite !lookup_insert_ne.
  - intros d Hd. destruct (enter_recipients cfg st2 c rid n ots S0 d HS2 Hd) as [?|(q&Hq)]; [by left|].
    unfold S0 in Hq. simpl in Hq. by rewrite lookup_empty in Hq.
Qed.

(* ---------- a join request ---------- *)
Lemma join_iso cfg st c rid s ots hint :
  inv st → iso c st (Model.join cfg st c rid s ots hint).1.1 (Model.join cfg st c rid s ots hint).1.2.
Proof.
  intros I. unfold Model.join. destruct (conns st !! c) as [cn|] eqn:Hc; [|apply iso_refl].
  destruct (already_joined cn s) eqn:Ha.
  { cbn [fst snd]. apply iso_self. intros d [->|Hd]%elem_of_cons; [done|].
    destruct (c_cur cn) as [[cur pc]|]; [|by inversion Hd]. destruct (sessions st !! cur); [|by inversion Hd].
    by eapply module_msgs_self. }
  pose proof (leave_iso cfg st c I) as L.
  pose proof (inv_leave cfg st c I) as I1. pose proof (leave_cur cfg st c I) as Hcur1.
  assert (Hc1 : is_Some (conns (leave cfg st c).1 !! c)).
  { pose proof (leave_open cfg st c c) as Ho. unfold open_of in Ho. rewrite Hc in Ho. simpl in Ho.
    destruct (conns (leave cfg st c).1 !! c); [eauto|done]. }
  destruct (leave cfg st c) as [st1 o1]. cbn [fst snd] in *.
  assert (Herr : ∀ code, iso c st st1 (o1 ++ [(c, MError rid code)])).
  { intros code. apply iso_app_self; [done|]. intros d Hd. by apply elem_of_list_singleton in Hd as ->. }
  destruct s as [|n|j]; [| |apply Herr].
  - destruct (create_session hint st1) as [n st2] eqn:Hcr.
    pose proof (enter_new_iso cfg st1 c rid ots hint n st2 Hc1 Hcr) as HE.
    destruct (enter cfg st2 c rid n ots) as [[st3 o2] v]. cbn [fst snd] in *.
    eapply iso_seq; [by left|exact L|exact HE].
  - destruct (sessions st1 !! n) as [SS|] eqn:HS; [|apply Herr].
    pose proof (enter_iso cfg st1 c rid n ots SS I1 Hc1 HS) as HE.
    destruct (enter cfg st1 c rid n ots) as [[st2 o2] v]. cbn [fst snd] in *.
    eapply iso_seq; [by left|exact L|exact HE].
Qed.

(* ---------- any other request ---------- *)
Lemma handle_nonjoin_iso cfg st c cn r hint :
  inv st → conns st !! c = Some cn → is_join r = false →
  iso c st (handle cfg st c r hint).1.1 (handle cfg st c r hint).1.2 ∧
  (∀ q, cur_of (handle cfg st c r hint).1.1 q = cur_of st q).
Proof.
  intros I Hc Hj.
  assert (Hsame : ∀ q, cur_of (handle cfg st c r hint).1.1 q = cur_of st q).
  { destruct (handle cfg st c r hint) as [[st' o] v] eqn:Eh.
    destruct (handle_nonjoin cfg st c cn r hint st' o v I Hc Hj Eh) as ((E&_)&_). exact E. }
  split; [|exact Hsame]. revert Hsame. unfold handle. rewrite Hc.
  destruct (c_cur cn) as [[sid p]|] eqn:Hcur.
  - assert (Hcur0 : cur_of st c = Some (sid, p)) by (unfold cur_of; by rewrite Hc).
    destruct (live_session _ _ (inv_live _ I _ _ _ Hcur0)) as [SS HS]. rewrite HS.
    destruct (session_local r) eqn:Hl.
    + rewrite (handle_joined_sstep cfg st c cn sid p SS r hint Hl Hc HS). unfold apply_sstep. cbn [fst snd].
      intros Hsame. split.
      * intros q _. apply Hsame.
      * intros s N0 _. assert (s ≠ sid) by (intros ->; by eapply N0). simpl. by rewrite lookup_insert_ne.
      * intros d Hd. destruct (sstep_recipients cfg c p (c_own cn) SS r d Hd) as [?|(q&Hq&Hne)]; [by left|]. right.
        exists sid, p, q. split; [by left|].
        apply (inv_parts _ I sid (s_parts SS) q (fst d)); [unfold parts_of; by rewrite HS|done].
    + pose proof (handle_joined_other cfg st c cn sid p SS r hint Hl Hj) as ES.
      pose proof (Views.handle_joined_other_outs cfg st c cn sid p SS r hint) as HO.
      destruct (handle_joined cfg st c cn sid p SS r hint) as [[st' o] v]. cbn [fst snd] in *.
      intros Hsame. eapply (iso_ext c st st st); [done|done|done|by symmetry|]. apply iso_self. intros d Hd. by apply HO.
  - pose proof (handle_unjoined_other cfg st c cn r hint Hj) as ES.
    pose proof (Views.handle_unjoined_outs cfg st c cn r hint) as HO.
    destruct (handle_unjoined cfg st c cn r hint) as [[st' o] v]. cbn [fst snd] in *.
    intros Hsame. eapply (iso_ext c st st st); [done|done|done|by symmetry|]. apply iso_self. intros d Hd. by apply HO.
Qed.

(* ---------- one step ---------- *)
Lemma step_iso cfg st o k c :
  inv st → bounded k st → k + 1 < two32 → actor (ev_of st o (step cfg st o)) = Some c →
  iso c st (step cfg st o).1.1 (step cfg st o).1.2.
Proof.
  intros I B Hk Ha. unfold actor, ev_of in Ha. cbn [ev_op] in Ha.
  destruct o as [c0|c0 r|c0 hint|sid|c0|]; try discriminate Ha; injection Ha as ->; cbn [step].
  - (* send *)
    unfold dispatch. destruct (conns st !! c) as [cn|] eqn:Hc; [|apply iso_refl].
    destruct (c_open cn) eqn:Ho; [|apply iso_refl]. cbn [negb].
    destruct r; try (apply iso_upd; by intros []).
    cbn match. destruct (ty =? 14); [|apply iso_upd; by intros []].
    pose proof (disconnect_iso cfg st c I) as D. by destruct (disconnect cfg st c) as [st1 o1].
  - (* step *)
    destruct (conns st !! c) as [cn|] eqn:Hc; [|apply iso_refl].
    destruct (c_open cn) eqn:Ho; [|apply iso_refl]. cbn [negb].
    destruct (c_queue cn) as [|r q] eqn:Hq; [apply iso_refl|].
    set (st0 := upd_conn c (set_queue q) st).
    assert (Hs0 : same_mem st st0) by (apply same_mem_upd_conn; by intros []).
    assert (I0 : inv st0) by by eapply inv_same_mem.
    assert (B0 : bounded k st0) by by eapply bounded_same_mem.
    assert (Hcur0 : ∀ x, cur_of st0 x = cur_of st x) by (intros x; apply cur_of_upd_conn; by intros []).
    assert (Hc0 : conns st0 !! c = Some (set_queue q cn)).
    { unfold st0, upd_conn. simpl. rewrite Hc. by rewrite lookup_insert. }
    assert (Ho0 : open_of st0 c = Some true) by (unfold open_of; rewrite Hc0; simpl; by rewrite Ho).
    destruct (is_join r) eqn:Hj.
    + destruct r; try discriminate Hj.
      assert (Hh : handle cfg st0 c (RJoin rid sid ots) hint = Model.join cfg st0 c rid sid ots hint).
      { unfold handle. rewrite Hc0. destruct (c_cur (set_queue q cn)) as [[s p]|] eqn:Hcur; [|done].
        assert (Hcur1 : cur_of st0 c = Some (s, p)) by (unfold cur_of; by rewrite Hc0).
        destruct (live_session _ _ (inv_live _ I0 _ _ _ Hcur1)) as [SS HS]. by rewrite HS. }
      rewrite Hh. pose proof (join_iso cfg st0 c rid sid ots hint I0) as J.
      pose proof (Refine3.join_verdict cfg st0 c _ rid sid ots hint Hc0) as Hv.
      destruct (Model.join cfg st0 c rid sid ots hint) as [[st1 o1] v]. cbn [fst snd] in *. subst v.
      eapply (iso_ext c st0 st st1 st1); [exact Hcur0|done|done|done|exact J].
    + destruct (handle_nonjoin_iso cfg st0 c _ r hint I0 Hc0 Hj) as [H1 H2].
      pose proof (handle_inv cfg st0 c r hint k I0 B0 Hk Ho0) as [I1 _].
      destruct (handle cfg st0 c r hint) as [[st1 o1] v]. cbn [fst snd] in *.
      assert (H1' : iso c st st1 o1) by (eapply (iso_ext c st0 st st1 st1); [exact Hcur0|done|done|done|exact H1]).
      destruct v; try exact H1'.
      pose proof (disconnect_iso cfg st1 c I1) as D. destruct (disconnect cfg st1 c) as [st2 o2]. cbn [fst snd] in *.
      eapply iso_seq; [right; by rewrite H2, Hcur0|exact H1'|exact D].
  - (* disconnect *)
    destruct (conns st !! c) as [cn|] eqn:Hc; [|apply iso_refl].
    destruct (c_open cn) eqn:Ho; [|apply iso_refl]. cbn [negb].
    pose proof (disconnect_iso cfg st c I) as D. by destruct (disconnect cfg st c) as [st1 o1].
Qed.

(* an event without an actor changes no session *)
Lemma step_noactor_sessions cfg st o :
  actor (ev_of st o (step cfg st o)) = None → sessions (step cfg st o).1.1 = sessions st.
Proof.
  destruct o as [c0|c0 r|c0 hint|sid|c0|]; try discriminate 1; intros _; cbn [step].
  - by destruct (conns st !! c0).
  - cbn [fst]. apply tick_sessions.
  - done.
Qed.

(* ================= Part 2: the observer of P_C03 against one step ================= *)
Definition enc_of (sid : N) (SS : session) : list Z := eDump (canon_dump (dump_state_only (dump_session sid SS))).
Definition snap_at (sn : list (N * list Z)) (sid : N) : option (list Z) :=
  head (omap (λ x : N * list Z, if fst x =? sid then Some (snd x) else None) sn).
Definition snap_now (st : state) : list (N * list Z) :=
  map (λ d, (d_sid d, eDump (canon_dump (dump_state_only d))))
      (map (λ kv : N * session, dump_session (fst kv) (snd kv)) (map_to_list (sessions st))).

(* what the last snapshot recorded of a session that was not touched since is what the session still is *)
Definition c03_inv (s : c03st) (st : state) : Prop :=
  ∀ sid enc, sid ∉ i_touched s → snap_at (i_snap s) sid = Some enc →
    ∃ SS, sessions st !! sid = Some SS ∧ enc = enc_of sid SS.

Lemma c03_inv_0 st : c03_inv {| i_snap := []; i_touched := [] |} st.
Proof. intros sid enc _ H. discriminate H. Qed.

Lemma head_omap_Some {A B} (f : A → option B) l y : head (omap f l) = Some y → ∃ x, x ∈ l ∧ f x = Some y.
Proof.
  induction l as [|x l IH]; simpl; [done|]. destruct (f x) as [z|] eqn:E; simpl.
  - intros [= ->]. exists x. split; [by left|done].
  - intros H. destruct (IH H) as (x'&Hx&Hf). exists x'. split; [by right|done].
Qed.

Lemma elem_of_snap_now st x :
  x ∈ snap_now st ↔ ∃ sid SS, sessions st !! sid = Some SS ∧ x = (sid, enc_of sid SS).
Proof.
  unfold snap_now. rewrite elem_of_list_fmap. split.
  - intros (d&->&Hd). apply elem_of_list_fmap in Hd as ([sid SS]&->&Hin). apply elem_of_map_to_list in Hin.
    exists sid, SS. done.
  - intros (sid&SS&HS&->). exists (dump_session sid SS). split; [done|]. apply elem_of_list_fmap.
    exists (sid, SS). split; [done|]. by apply elem_of_map_to_list.
Qed.

Lemma snap_at_now st sid enc :
  snap_at (snap_now st) sid = Some enc → ∃ SS, sessions st !! sid = Some SS ∧ enc = enc_of sid SS.
Proof.
  intros H. apply head_omap_Some in H as (x&Hx&Hf). apply elem_of_snap_now in Hx as (sid'&SS&HS&->).
  cbn [fst snd] in Hf. destruct (sid' =? sid) eqn:E; [|done]. apply N.eqb_eq in E as ->. injection Hf as <-. eauto.
Qed.

Lemma c03_inv_frame s st st' T :
  (∀ sid, sid ∉ T → sessions st' !! sid = sessions st !! sid) → c03_inv s st →
  c03_inv {| i_snap := i_snap s; i_touched := T ++ i_touched s |} st'.
Proof.
  intros F H sid enc Hn Hs. cbn [i_snap i_touched] in *. apply not_elem_of_app in Hn as [Hn1 Hn2].
  destruct (H sid enc Hn2 Hs) as (SS&HS&->). exists SS. split; [|done]. by rewrite F.
Qed.

(* ---------- the predicate on each kind of event ---------- *)
Lemma P_C03_event_snap cfg i sp sp' s st :
  P_C03_event cfg i sp sp' s {| ev_op := OSnap; ev_req := None; ev_outs := [(0, snapshot st)]; ev_verdict := VOk |} =
  ({| i_snap := snap_now st; i_touched := [] |},
   flat_map (λ sd : N * list Z,
     if memN (fst sd) (i_touched s) then []
     else match snap_at (i_snap s) (fst sd) with
          | Some before => okv i (bool_decide (before = snd sd)) 302 [zn (fst sd)]
          | None => [] end) (snap_now st)).
Proof. reflexivity. Qed.

Definition c03_allowed (sp sp' : spec) (c q : N) : bool :=
  (q =? c) || existsb (λ sid, existsb (λ pc : N * N, snd pc =? q) (sp_members sp sid ++ sp_members sp' sid))
                      (sid_of sp c ++ sid_of sp' c).

Lemma P_C03_event_actor cfg i sp sp' s e c :
  actor e = Some c →
  P_C03_event cfg i sp sp' s e =
  ({| i_snap := i_snap s; i_touched := (sid_of sp c ++ sid_of sp' c) ++ i_touched s |},
   flat_map (λ d : delivery, if c03_allowed sp sp' c (fst d) then []
                             else [viol i 301 [zn c; zn (fst d); hd 0%Z (enc_msg (snd d))]]) (ev_outs e) ++
   bad_msgs i 300 e).
Proof.
  unfold P_C03_event, actor. destruct (ev_op e); try discriminate 1; intros [= ->]; reflexivity.
Qed.

Lemma P_C03_event_noactor cfg i sp sp' s e :
  ev_op e ≠ OSnap → (∀ sid, ev_op e ≠ OTick sid) → actor e = None → P_C03_event cfg i sp sp' s e = (s, []).
Proof.
  unfold P_C03_event, actor. destruct (ev_op e); try discriminate 3; try done. intros _ H. by destruct (H sid).
Qed.

Lemma sid_of_elem sp c sid : sid ∈ sid_of sp c ↔ ∃ p, sp_mem sp !! c = Some (sid, p).
Proof.
  unfold sid_of. destruct (sp_mem sp !! c) as [[s p]|].
  - rewrite elem_of_list_singleton. split; [intros ->; eauto|by intros (p'&[= -> _])].
  - split; [by inversion 1|by intros (?&?)].
Qed.

Lemma c03_allowed_member sp sp' c q sid pq :
  sid ∈ sid_of sp c ++ sid_of sp' c → (pq, q) ∈ sp_members sp sid ++ sp_members sp' sid →
  c03_allowed sp sp' c q = true.
Proof.
  intros H1 H2. unfold c03_allowed. apply orb_true_iff. right. apply existsb_exists.
  exists sid. split; [by apply elem_of_list_In|]. apply existsb_exists. exists (pq, q).
  split; [by apply elem_of_list_In|]. apply N.eqb_refl.
Qed.

(* ---------- one event ---------- *)
Lemma c03_step_ok cfg st o k sp i s :
  inv st → bounded k st → k + 1 < two32 → reg st → refines_mem sp st → c03_inv s st →
  let e := ev_of st o (step cfg st o) in
  (P_C03_event cfg i sp (spec_step sp e) s e).2 = [] ∧
  c03_inv (P_C03_event cfg i sp (spec_step sp e) s e).1 (step cfg st o).1.1.
Proof.
  intros I B Hk G R C e.
  destruct (step_sim cfg st o k sp i I B Hk G R) as [R' _]. fold e in R'.
  pose proof (step_bad_msgs cfg st o k sp i 300 I B Hk G R) as Hbad. fold e in Hbad.
  pose proof (rm_mem _ _ R) as Hm. pose proof (rm_mem _ _ R') as Hm'.
  destruct (actor e) as [c|] eqn:Ha.
  - (* an event with an actor *)
    pose proof (step_iso cfg st o k c I B Hk Ha) as [O F Rc].
    rewrite (P_C03_event_actor cfg i sp _ s e c Ha). cbn [fst snd]. rewrite Hbad, app_nil_r.
    assert (Hmine : ∀ sid, sid ∈ sid_of sp c ++ sid_of (spec_step sp e) c ↔
                           (∃ p, cur_of st c = Some (sid, p)) ∨ (∃ p, cur_of (step cfg st o).1.1 c = Some (sid, p))).
    { intros sid. rewrite elem_of_app, !sid_of_elem. by setoid_rewrite Hm; setoid_rewrite Hm'. }
    split.
    + apply flat_map_nil_all. intros d Hd.
      assert (Hal : c03_allowed sp (spec_step sp e) c (fst d) = true); [|by rewrite Hal].
      destruct (Rc d Hd) as [->|(sid&p&pq&Hc&Hq)]; [unfold c03_allowed; by rewrite N.eqb_refl|].
      apply (c03_allowed_member _ _ _ _ sid pq).
      * apply Hmine. destruct Hc; [left|right]; eauto.
      * apply elem_of_app. left. apply elem_of_sp_members. by rewrite Hm.
    + apply (c03_inv_frame s st); [|done]. intros sid Hn. apply F.
      * intros p Hp. apply Hn, Hmine. left. eauto.
      * intros p Hp. apply Hn, Hmine. right. eauto.
  - (* no actor: connect, tick, snapshot *)
    pose proof (step_noactor_sessions cfg st o Ha) as ES.
    destruct o as [c0|c0 r|c0 hint|sid|c0|]; try discriminate Ha.
    + rewrite P_C03_event_noactor by done. cbn [fst snd]. split; [done|].
      intros sid enc Hn Hs. destruct (C sid enc Hn Hs) as (SS&HS&->). exists SS. by rewrite ES.
    + split; [done|]. apply (c03_inv_frame s st _ [sid]); [|done]. intros s0 _. by rewrite ES.
    + unfold e, ev_of. cbn [step consumed fst snd]. rewrite P_C03_event_snap. cbn [fst snd]. split.
      * apply flat_map_nil_all. intros [sid enc] Hx. cbn [fst snd].
        destruct (memN sid (i_touched s)) eqn:Et; [done|]. apply memN_false in Et.
        destruct (snap_at (i_snap s) sid) as [before|] eqn:Eb; [|done].
        destruct (C sid before Et Eb) as (SS&HS&->).
        apply elem_of_snap_now in Hx as (sid'&SS'&HS'&[= <- ->]).
        assert (SS' = SS) as -> by congruence. by rewrite bool_decide_eq_true_2.
      * intros sid enc _ Hs. cbn [i_snap] in Hs. by apply snap_at_now.
Qed.

(* ================= Part 3: every history ================= *)
Definition c03_0 : c03st := {| i_snap := []; i_touched := [] |}.

Lemma c03_run cfg h : short h →
  P_C03 cfg (run cfg h) = [] ∧ c03_inv (xstate (P_C03_event cfg) 0 spec0 c03_0 (run cfg h)) (final cfg h).
Proof.
  induction h as [|o h IH] using rev_ind; intros Hs.
  - split; [done|apply c03_inv_0].
  - apply short_snoc in Hs as [Hs Hb]. destruct (IH Hs) as [IH1 IH2].
    assert (Hlen : N.of_nat (length h) < two32) by (unfold short in Hs; lia).
    destruct (reachable_inv cfg h state0 0 inv_state0 bounded_state0) as [I B]; [lia|].
    pose proof (reachable_good cfg h Hs) as [_ G _ _ R _ _].
    destruct (c03_step_ok cfg (final cfg h) o (0 + N.of_nat (length h)) (spec_after (run cfg h)) (length (run cfg h)) _
                I B ltac:(lia) G R IH2) as [S1 S2].
    pose proof (xscan_run_snoc (P_C03_event cfg) c03_0 cfg h o) as E1. cbv zeta in E1.
    pose proof (xstate_run_snoc (P_C03_event cfg) c03_0 cfg h o) as E2. cbv zeta in E2.
    unfold P_C03 in *. fold c03_0 in IH1 |- *. rewrite E1, E2, final_snoc, IH1. split; [exact S1|exact S2].
Qed.

(* the model's own trace is never flagged by P_C03 - all clauses: 301, 302, 399 *)
Theorem model_passes_C03 cfg h : short h → P_C03 cfg (run cfg h) = [].
Proof. intros Hs. by destruct (c03_run cfg h Hs). Qed.

(* by-product: after every history, what the observer remembers of an untouched session is the session's state *)
Theorem model_c03_observer cfg h : short h →
  c03_inv (xstate (P_C03_event cfg) 0 spec0 c03_0 (run cfg h)) (final cfg h).
Proof. intros Hs. by destruct (c03_run cfg h Hs). Qed.

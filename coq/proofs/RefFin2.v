(* proofs/RefFin2.v — P_C01 completely: on every history of the sequential model (no feature flag set) the
   predicate P_C01 of Preds2.v is silent.  proofs/Views.v proved that the views the predicate threads match the
   model's sessions after every history and excluded the codes 105, 106; here the remaining clauses:
     100-104, 107  (hook snapshot: every member's VIEW against the dumped session, canonical encodings),
     110-118       (the newcomer's three state messages against the spec after the join),
     121-127       (hook snapshot against the spec), 199 (no harness anomaly). *)
From stdpp Require Import relations sorting.
From hagall Require Import Model Spec Obs Preds Preds2.
From hagall.proofs Require Import BaseLemmas Relay Inv Session Local Trans WF Mono Reach PC02 PC06 PC07 PC01 Own
  Refine Refine2 Refine3 Refine4 Refine5 RefComp RefComp2 RefComp3 RefMod RefMod2 RefMod3 RefMod4 RefMod5 Views RefFin.
From Coq Require Import Lia.

(* ================= 1. one member's view against the dump of its session ================= *)
Definition member_check (cfg : config) (i : nat) (vs3 : gmap N view) (dd : sdump) (pc : N * N) : list violation :=
  match vs3 !! snd pc with
  | None => [viol i 100 [zn (snd pc)]]
  | Some v =>
      okv i (bool_decide (sortN (elements (v_parts v)) = d_parts dd)) 101 [zn (snd pc); zn (d_sid dd)] ++
      okv i (bool_decide (sort_by eEnt (map snd (map_to_list (v_ents v))) = map fst (d_ents dd))) 102 [zn (snd pc); zn (d_sid dd)] ++
      okv i (bool_decide (sort_by eComp (omap (λ kv : (N*N) * N, if bool_decide (fst (fst kv) ∈ v_synced v)
                 then Some {| cp_tid := fst (fst kv); cp_eid := snd (fst kv); cp_data := snd kv |} else None) (map_to_list (v_comps v)))
               = List.filter (λ x, bool_decide (cp_tid x ∈ v_synced v)) (d_comps dd))) 103 [zn (snd pc); zn (d_sid dd)] ++
      (if cfg_vikja cfg then okv i (bool_decide (sort_by eAction (map snd (map_to_list (v_acts v))) = d_actions dd)) 104 [zn (snd pc); zn (d_sid dd)] else []) ++
      (if cfg_odal cfg then okv i (bool_decide (sort_by eAsset (map snd (map_to_list (v_assets v))) = d_assets dd)) 107 [zn (snd pc); zn (d_sid dd)] else [])
  end.

Lemma keys_sorted (m : gmap N N) : sortN (elements (dom m : gset N)) = sortN (map fst (map_to_list m)).
Proof.
  apply sortN_perm_eq. apply NoDup_Permutation; [apply NoDup_elements|apply NoDup_fst_map_to_list|].
  intros x. rewrite elem_of_elements, elem_of_dom, elem_of_list_fmap. split.
  - intros [y Hy]. exists (x, y). split; [done|]. by apply elem_of_map_to_list.
  - intros ([k y]&->&Hin). apply elem_of_map_to_list in Hin. by exists y.
Qed.

Lemma view_ents_perm (m : gmap N entity) :
  map snd (map_to_list (map_imap (λ e ent, Some (ent_to_pb e ent)) m)) ≡ₚ map (λ kv : N * entity, ent_to_pb kv.1 kv.2) (map_to_list m).
Proof.
  apply NoDup_Permutation.
  - apply (NoDup_map_snd _ ep_id). intros k a. rewrite imap_lookup. destruct (m !! k); [|done]. simpl. by intros [= <-].
  - apply NoDup_fmap_2_strong; [|apply NoDup_map_to_list].
    intros [e1 n1] [e2 n2] H1%elem_of_map_to_list H2%elem_of_map_to_list. simpl. intros [= -> _ _ _]. congruence.
  - intros x. rewrite elem_of_map_snd, elem_of_list_fmap. split.
    + intros [k Hk]. rewrite imap_lookup in Hk. destruct (m !! k) as [ent|] eqn:E; [|done]. simpl in Hk. injection Hk as <-.
      exists (k, ent). split; [done|]. by apply elem_of_map_to_list.
    + intros ([k ent]&->&Hin). apply elem_of_map_to_list in Hin. exists k. rewrite imap_lookup, Hin. done.
Qed.

Definition synced_comp (S : gset N) (kv : (N * N) * N) : option comp_pb :=
  if bool_decide (fst (fst kv) ∈ S) then Some {| cp_tid := fst (fst kv); cp_eid := snd (fst kv); cp_data := snd kv |} else None.

Lemma view_comps_sorted (S : gset N) (vc : gmap (N * N) N) (s : store) :
  (∀ tid, tid ∈ S → ∀ eid, vc !! (tid, eid) = st_comps s !! (tid, eid)) →
  sort_by eComp (omap (synced_comp S) (map_to_list vc)) =
  List.filter (λ x, bool_decide (cp_tid x ∈ S)) (sort_by eComp (store_list_all s)).
Proof.
  intros Hag. rewrite (filter_sort_by eComp eComp_inj). apply (sort_by_perm_eq eComp eComp_inj).
  apply NoDup_Permutation.
  - apply NoDup_omap_inj; [apply NoDup_map_to_list|].
    intros [[t1 e1] d1] [[t2 e2] d2] b _ _. unfold synced_comp. simpl.
    destruct (bool_decide (t1 ∈ S)); [|done]. destruct (bool_decide (t2 ∈ S)); [|done]. by intros [= <-] [= -> -> ->].
  - apply NoDup_ListNoDup, List.NoDup_filter, NoDup_ListNoDup, NoDup_store_list_all.
  - intros x. rewrite elem_of_list_omap, elem_of_list_In, filter_In, <- elem_of_list_In, elem_of_store_list_all, bool_decide_eq_true. split.
    + intros ([[t e] d]&Hin&Hf). apply elem_of_map_to_list in Hin. unfold synced_comp in Hf. simpl in Hf.
      destruct (bool_decide (t ∈ S)) eqn:Et; [|done]. apply bool_decide_eq_true in Et. injection Hf as <-. simpl.
      split; [|done]. by rewrite <- (Hag t Et e).
    + intros [Hx Ht]. exists ((cp_tid x, cp_eid x), cp_data x). split.
      * apply elem_of_map_to_list. by rewrite (Hag _ Ht).
      * unfold synced_comp. simpl. rewrite bool_decide_eq_true_2 by done. by destruct x.
Qed.

Lemma member_check_ok cfg i vs3 sid SS pq q v :
  vs3 !! q = Some v → vrel v sid pq SS → crel v pq SS →
  member_check cfg i vs3 (canon_dump (dump_session sid SS)) (pq, q) = [].
Proof.
  intros Hv (_&_&[Mp Me]&Ma&Mb) (_&_&C3). unfold member_check. cbn [snd]. rewrite Hv.
  cbn [canon_dump dump_session d_sid d_parts d_ents d_comps d_actions d_assets].
  rewrite Mp, keys_sorted, bool_decide_eq_true_2 by done. cbn [okv app].
  rewrite Me.
  rewrite (bool_decide_eq_true_2 (sort_by eEnt _ = _)).
  2:{ rewrite (map_sort_by fst eEnt). rewrite map_map. cbn [fst].
      apply (sort_by_perm_eq eEnt eEnt_inj). apply view_ents_perm. }
  cbn [okv app].
  rewrite (bool_decide_eq_true_2 (sort_by eComp _ = _)).
  2:{ apply (view_comps_sorted (v_synced v) (v_comps v) (s_store SS)). intros tid Ht. apply C3; [set_solver|by left]. }
  cbn [okv app]. rewrite Ma, Mb, !bool_decide_eq_true_2 by done. cbn [okv]. by destruct (cfg_vikja cfg), (cfg_odal cfg).
Qed.

(* ================= 2. the clauses that compare with the spec or with a dump, on one event of the model ================= *)
Lemma snap_views_ok cfg i sp st vs3 :
  inv st → (∀ c, sp_mem sp !! c = cur_of st c) → views_ok2 vs3 st →
  flat_map (λ d0 : sdump, flat_map (member_check cfg i vs3 (canon_dump d0)) (sp_members sp (d_sid (canon_dump d0))))
           (map (λ kv : N * session, dump_session kv.1 kv.2) (map_to_list (sessions st))) = [].
Proof.
  intros I Hm Hvs. apply flat_map_nil_all. intros d0 Hd. apply elem_of_list_fmap in Hd as ([sid SS]&->&Hin).
  apply elem_of_map_to_list in Hin. cbn [fst snd]. change (d_sid (canon_dump (dump_session sid SS))) with sid.
  apply flat_map_nil_all. intros [pq q] Hq. apply sp_members_spec in Hq. rewrite Hm in Hq.
  specialize (Hvs q). rewrite Hq in Hvs. destruct Hvs as (v&SS'&Hv&HS'&V&C).
  assert (SS' = SS) as -> by congruence. by eapply member_check_ok.
Qed.

Lemma rest_viols_ok cfg st o k kw kw' sp i vs3 :
  inv st → bounded k st → k + 1 < two32 → kw + 1 < two32 → allref cfg kw sp st →
  Own.swf cfg kw' (step cfg st o).1.1 → own_inv (step cfg st o).1.1 → views_ok2 vs3 (step cfg st o).1.1 →
  let e := ev_of st o (step cfg st o) in
  rest_viols cfg i sp (spec_step sp e) e vs3 = [].
Proof.
  intros I B Hk Hkw A Wf' O' Hvs e. pose proof A as [[_ G O Wf R E D] RC].
  unfold rest_viols.
  pose proof (step_bad_msgs cfg st o k sp i 100 I B Hk G R) as Hbad. fold e in Hbad. rewrite Hbad, app_nil_r.
  pose proof (snap_check_step cfg st o kw {| k_parts := true; k_ents := true; k_comps := true; k_acts := true; k_assets := true;
                          k_types := false; k_subs := false; k_reg := false |} 100 i sp A) as Hsn. fold e in Hsn. rewrite Hsn, app_nil_r.
  apply app_nil. split.
  - (* the views at a hook snapshot *)
    destruct o as [c|c r|c hint|sid|c|]; try done.
    unfold e, ev_of. cbn [step fst snd ev_op ev_outs flat_map snapshot]. rewrite app_nil_r.
    change (step cfg st OSnap).1.1 with st in Hvs.
    exact (snap_views_ok cfg i sp st vs3 I (rm_mem _ _ R) Hvs).
  - (* the state handed to a newcomer *)
    destruct (stepped e) as [[c r]|] eqn:Hst; [|done]. destruct r; try done.
    exact (join_snapshot_step cfg st o k kw kw' sp i Preds.sel_all 100 c rid sid ots I B Hk Hkw A Wf' O' Hst).
Qed.

(* ================= 3. one event of the model ================= *)
Lemma c01_step_ok cfg k kw kw' sp vs st o i :
  (∀ f, flag_on cfg f = false) → ginv cfg k st → own_inv st → 4 * (k + 1) < two32 → kw + 1 < two32 →
  spec_ok sp st → spec_ok2 sp st → views_ok2 vs st → allref cfg kw sp st →
  Own.swf cfg kw' (step cfg st o).1.1 → own_inv (step cfg st o).1.1 →
  let e := ev_of st o (step cfg st o) in
  (P_C01_event cfg i sp (spec_step sp e) vs e).2 = [].
Proof.
  intros Hnf G HO Hk Hkw Hsp Hok Hvs A Wf' O' e.
  change e with (event_of cfg st o). pose proof (views_ok2_ok _ _ Hvs) as Hvs1.
  destruct (step_goals cfg k sp vs st o Hnf G ltac:(lia) Hsp Hvs1) as [Ho1 Hw1].
  destruct (step_goals2 cfg k sp vs st o Hnf G HO ltac:(lia) Hsp Hok Hvs) as (Ho2&Hw2&Hok1).
  destruct (event_views2 cfg i sp vs (event_of cfg st o) st (step cfg st o).1.1 Hsp Hvs Ho2 Hw2) as (Hvs2&_&Hd).
  pose proof (recv_no_viols i sp vs (event_of cfg st o) st _ Hvs Ho1 Ho2) as Hr.
  destruct G as (I&B&W).
  pose proof (rest_viols_ok cfg st o k kw kw' sp i _ I B ltac:(lia) Hkw A Wf' O' Hvs2) as Hrest.
  change (ev_of st o (step cfg st o)) with (event_of cfg st o) in Hrest.
  revert Hvs2 Hrest. rewrite P_C01_event_eq. unfold P_C01_event'. cbv zeta.
  destruct (recv_fold (actor (event_of cfg st o)) i (ev_outs (event_of cfg st o)) (vs, [])) as [vs1 viol1]. cbn [fst snd] in Hr, Hd. subst viol1.
  destruct (dirty_step i sp (event_of cfg st o) (Views.own_step sp (spec_step sp (event_of cfg st o)) (event_of cfg st o) vs1)) as [vs3 viol3].
  cbn [fst snd] in Hd. subst viol3. cbn [fst snd app]. intros _ Hrest. exact Hrest.
Qed.

(* ================= 4. whole histories ================= *)
Lemma vscan_xstate cfg i sp (vs : gmap N view) t :
  vscan cfg i sp vs t = (xstate (P_C01_event cfg) i sp vs t, fold_left spec_step t sp).
Proof. revert i sp vs. induction t as [|e t IH]; intros i sp vs; [done|]. cbn [vscan xstate fold_left]. apply IH. Qed.

Lemma views_after_xstate cfg t : views_after cfg t = xstate (P_C01_event cfg) 0 spec0 ∅ t.
Proof. unfold views_after. by rewrite vscan_xstate. Qed.

Theorem model_passes_C01 cfg h : cfg_flags cfg = [] → short h → P_C01 cfg (run cfg h) = [].
Proof.
  intros Hf. induction h as [|o h IH] using rev_ind; intros Hs; [done|].
  pose proof (reachable_swf cfg _ Hs) as Wf'. rewrite final_snoc in Wf'.
  pose proof (reachable_own cfg _ Hs) as O'. rewrite final_snoc in O'.
  apply short_snoc in Hs as [Hs Hb]. unfold P_C01 in *. rewrite xscan_run_snoc, IH by done. cbn [app].
  assert (Hlen : N.of_nat (length h) < two32) by (unfold short in Hs; lia).
  destruct (reachable_inv cfg h state0 0 inv_state0 bounded_state0) as [I B]; [lia|].
  rewrite <- views_after_xstate.
  apply (c01_step_ok cfg (N.of_nat (length h)) (4 * N.of_nat (length h)) (4 * N.of_nat (length (h ++ [o])))).
  - by apply noflags.
  - split; [exact I|]. split; [exact B|]. exact (reachable_swf cfg h Hs).
  - by apply reachable_own.
  - lia.
  - lia.
  - exact (spec_membership cfg h Hf Hs).
  - exact (spec_entities_components cfg h Hf Hs).
  - exact (views_simulation_full cfg h Hf Hs).
  - by apply reachable_allref.
  - exact Wf'.
  - exact O'.
Qed.

(* the hypothesis [cfg_flags cfg = []] is needed: with DISABLE_PARTICIPANT_JOIN_BROADCAST the first member is never told
   about the second, and at the next hook snapshot its view lacks a participant (code 101) *)
Definition c01_flag_witness : list op :=
  [OConnect 1; OConnect 2; OSend 1 (RJoin 1 SNew 1); OStep 1 0; OSend 2 (RJoin 2 (SId 1) 2); OStep 2 0; OSnap].
Lemma C01_flags_refuted : ∃ cfg h, short h ∧ cfg_flags cfg = [F_JOIN_B] ∧ map v_code (P_C01 cfg (run cfg h)) = [101%Z].
Proof.
  exists {| cfg_flags := [F_JOIN_B]; cfg_vikja := true; cfg_odal := true; cfg_dagaz := false |}, c01_flag_witness.
  split; [by vm_compute|]. split; [done|]. vm_compute. reflexivity.
Qed.

(* proofs/Purge7.v — noninterference experiment of C03 (Purge.v), part 7: the induction along the history.
   On the model, for every configuration, every group [A] and every history short enough that no uint32
   counter wraps, [model_purge] reports no violation code (330-334) and no harness error (391, 392). *)
From stdpp Require Import relations sorting.
From hagall Require Import Model Spec Obs Preds Purge.
From hagall.proofs Require Import BaseLemmas Relay Inv Session Local Trans WF Mono Reach PC03 PC06 PC07
  Refine Refine2 Refine3 Refine5 RefSched RefSched2 Purge1 Purge2 Purge3 Purge4 Purge5 Purge6.
From Coq Require Import Lia.

(* ================= incarnation numbers only grow ================= *)
Lemma join_next_uuid_mono cfg st c rid sd ots hint :
  next_uuid st ≤ next_uuid (Model.join cfg st c rid sd ots hint).1.1.
Proof.
  unfold Model.join. destruct (conns st !! c) as [cn|]; [|done]. destruct (already_joined cn sd); [done|].
  pose proof (leave_next_uuid cfg st c) as E. destruct (leave cfg st c) as [sl o]. cbn [fst snd] in *.
  destruct sd as [|n|j]; cbn [fst snd]; [| |lia].
  - destruct (create_session hint sl) as [n sc] eqn:Hcr. destruct (create_session_char _ _ _ _ Hcr) as (_&_&G).
    pose proof (enter_next_uuid cfg sc c rid n ots) as E2.
    destruct (enter cfg sc c rid n ots) as [[se oe] ve]. cbn [fst snd] in *. lia.
  - destruct (sessions sl !! n); cbn [fst snd]; [|lia].
    pose proof (enter_next_uuid cfg sl c rid n ots) as E2.
    destruct (enter cfg sl c rid n ots) as [[se oe] ve]. cbn [fst snd] in *. lia.
Qed.

Lemma handle_next_uuid_mono cfg st c r hint :
  inv st → next_uuid st ≤ next_uuid (handle cfg st c r hint).1.1.
Proof.
  intros I. destruct (conns st !! c) as [cn|] eqn:Hc; [|unfold handle; by rewrite Hc].
  destruct (is_join r) eqn:Hj.
  - destruct r; try discriminate Hj. rewrite handle_join_eq by eauto. apply join_next_uuid_mono.
  - destruct (handle cfg st c r hint) as [[st' o] v] eqn:Eh.
    destruct (handle_nonjoin cfg st c cn r hint st' o v I Hc Hj Eh) as ((_&_&_&_&E)&_). cbn [fst]. lia.
Qed.

Lemma disconnect_next_uuid cfg st c : next_uuid (disconnect cfg st c).1 = next_uuid st.
Proof. rewrite disconnect_eq. cbn [fst]. apply leave_next_uuid. Qed.

Lemma step_next_uuid_mono cfg st o k :
  inv st → bounded k st → k + 1 < two32 → next_uuid st ≤ next_uuid (step cfg st o).1.1.
Proof.
  intros I Bk Hk. destruct o as [c|c r|c hint|s|c|].
  - simpl. by destruct (conns st !! c).
  - simpl. unfold dispatch. destruct (conns st !! c) as [cn|]; [|done]. destruct (c_open cn); cbn [negb fst]; [|done].
    destruct r; cbn [fst]; try done. destruct (ty =? 14); cbn [fst]; [|done].
    pose proof (disconnect_next_uuid cfg st c) as E. destruct (disconnect cfg st c). cbn [fst] in *. lia.
  - rewrite step_ostep_eq. destruct (conns st !! c) as [cn|] eqn:Hc; [|done].
    destruct (c_open cn) eqn:Ho; cbn [negb fst]; [|done]. destruct (c_queue cn) as [|r q]; [done|]. cbv zeta.
    set (st0 := upd_conn c (set_queue q) st).
    assert (Hs0 : same_mem st st0) by (apply same_mem_upd_conn; by intros []).
    assert (I0 : inv st0) by by eapply inv_same_mem.
    pose proof (handle_next_uuid_mono cfg st0 c r hint I0) as E.
    destruct (handle cfg st0 c r hint) as [[sh oh] v]. cbn [fst snd] in *.
    change (next_uuid st0) with (next_uuid st) in E.
    destruct v; cbn [fst]; try done. rewrite disconnect_next_uuid. done.
  - simpl. by rewrite tick_next_uuid.
  - simpl. destruct (conns st !! c) as [cn|]; [|done]. destruct (c_open cn); cbn [negb fst]; [|done].
    pose proof (disconnect_next_uuid cfg st c) as E. destruct (disconnect cfg st c). cbn [fst] in *. lia.
  - done.
Qed.

(* ================= the incarnation pairs ================= *)
Lemma uu_ok_true uu u1 u2 : (∀ a b, (a, b) ∈ uu → (a = u1 ↔ b = u2)) → uu_ok uu u1 u2 = true.
Proof.
  intros H. unfold uu_ok. apply forallb_elem. intros [a b] Hab. apply bool_decide_eq_true. simpl. by apply H.
Qed.
Lemma elem_of_uu_add uu u1 u2 a b : (a, b) ∈ uu_add uu u1 u2 → (a, b) ∈ uu ∨ (a = u1 ∧ b = u2).
Proof.
  unfold uu_add. destruct (existsb _ uu); [by left|]. intros [[= -> ->]|H]%elem_of_cons; [by right|by left].
Qed.

Lemma uuc_add A uu st1 st2 c n1 p n2 p' S1 S2 :
  sim A st1 st2 → reg st1 → reg st2 → uuc A uu st1 st2 → grp A c = true →
  cur_of st1 c = Some (n1, p) → cur_of st2 c = Some (n2, p') →
  sessions st1 !! n1 = Some S1 → sessions st2 !! n2 = Some S2 →
  uuc A (uu_add uu (s_uuid S1) (s_uuid S2)) st1 st2.
Proof.
  intros S R1 R2 U Hc C1 C2 E1 E2 a b d s q s' q' T1 T2 Hab Hd D1 D2 F1 F2.
  apply elem_of_uu_add in Hab as [Hab|[-> ->]]; [by eapply (U a b d)|].
  pose proof (sim_part _ _ _ S c d n1 p s q n2 p' s' q' Hc Hd C1 D1 C2 D2) as Hiff. split.
  - intros Hu. assert (n1 = s) as <- by (by eapply (reg_uuid_inj _ R1 n1 s S1 T1)).
    assert (n2 = s') as <- by (by apply Hiff). congruence.
  - intros Hu. assert (n2 = s') as <- by (by eapply (reg_uuid_inj _ R2 n2 s' S2 T2)).
    assert (n1 = s) as <- by (by apply Hiff). congruence.
Qed.

(* ================= small facts about the judge ================= *)
Lemma join_now_codes A m1 m2 r1 r2 :
  join_now A m1 m2 r1 r2 = 0%Z ∨ join_now A m1 m2 r1 r2 = 397%Z ∨ join_now A m1 m2 r1 r2 = 399%Z.
Proof.
  unfold join_now. destruct r1 as [[]|]; try (by left). destruct sid; try (by left).
  destruct r2 as [[]|]; try (by left). destruct sid; try (by left).
  destruct (rho A m1 m2 n).
  - destruct (_ =? _); [by left|right; by left].
  - destruct (foreign_in A m1 n); [right; by right|]. destruct (live_in A m2 n0); [right; by left|by left].
Qed.

Lemma translate_not_snap A m1 m2 o :
  relevant A m1 o = true → match translate A m1 m2 o with OSnap => false | _ => true end = true.
Proof.
  destruct o as [c|c r|c hint|s|c|]; try done.
  intros _. destruct (translate_send A m1 m2 c r) as (r2&->&_). done.
Qed.

Lemma digs_raw_nil A outs : digs_raw A outs [] = [].
Proof. induction outs as [|d outs IH]; [done|]. simpl. rewrite IH. by rewrite andb_false_r. Qed.
Lemma digs_to_nil A outs : digs_to A outs [] = [].
Proof. unfold digs_to. by rewrite digs_raw_nil. Qed.

Lemma same_verdict_refl v : same_verdict v v = true.
Proof. by destruct v. Qed.

(* separation, from the judge's test to the states *)
Lemma separated_nosh A st m e :
  (∀ c, m !! c = cur_of st c) → separated A m = true → grp A e = false → nosh A st e.
Proof.
  intros M Hs He d s p q Hd D1 D2. rewrite separated_true in Hs.
  assert (Hf : foreign_in A m s = false).
  { apply (Hs d s); [by apply grp_true|]. unfold Purge.cur_of. by rewrite M, D1. }
  rewrite foreign_in_false in Hf. rewrite (Hf e q) in He; [done|]. by rewrite M.
Qed.

(* ================= the invariant of the scan ================= *)
Record pinv (A : list N) (k : N) (st1 st2 : state) (m1 m2 : members) (uu : list (N * N)) : Prop := {
  pi_sim : sim A st1 st2;
  pi_uuc : uuc A uu st1 st2;
  pi_uub : uub uu st1 st2;
  pi_g1 : good k st1 m1;
  pi_g2 : good k st2 m2
}.

Definition okv (v : violation) : Prop := (v_code v = 397 ∨ v_code v = 398 ∨ v_code v = 399)%Z.

Lemma okv_single i c : (c = 397 ∨ c = 398 ∨ c = 399)%Z → Forall okv [viol i c []].
Proof. intros H. constructor; [|constructor]. exact H. Qed.

Lemma skip_snaps_cons e t : is_snap_dev e = false → skip_snaps (e :: t) = e :: t.
Proof. intros H. simpl. by rewrite H. Qed.

Lemma pinv_state0 A : pinv A 0 state0 state0 ∅ ∅ [].
Proof.
  split; [| | |apply good_state0|apply good_state0].
  - split.
    + intros d _. simpl. rewrite lookup_empty. constructor.
    + intros d _. done.
    + intros d e s p t q s' p' t' q' _ _ H. unfold cur_of in H. simpl in H. by rewrite lookup_empty in H.
    + intros d s p s' p' _ H. unfold cur_of in H. simpl in H. by rewrite lookup_empty in H.
  - intros a b d s p s' p' S1 S2 H. by apply elem_of_nil in H.
  - intros a b H. by apply elem_of_nil in H.
Qed.

Lemma purge_from_cons cfg A st1 st2 m1 m2 o h :
  purge_from cfg A st1 st2 m1 m2 (o :: h) =
  let e1 := ev_of st1 o (step cfg st1 o) in
  let st1' := (step cfg st1 o).1.1 in
  if relevant A m1 o then
    let o2 := translate A m1 m2 o in
    o2 :: purge_from cfg A st1' (step cfg st2 o2).1.1 (obs_step m1 e1) (obs_step m2 (ev_of st2 o2 (step cfg st2 o2))) h
  else purge_from cfg A st1' st2 (obs_step m1 e1) m2 h.
Proof.
  cbn [purge_from]. rewrite event_of_eq. cbv zeta. destruct (relevant A m1 o); [|done].
  by rewrite event_of_eq.
Qed.

(* ================= the induction ================= *)
Lemma purge_scan_ok cfg A : ∀ h st1 st2 m1 m2 uu i k,
  pinv A k st1 st2 m1 m2 uu → k + N.of_nat (length h) < two32 →
  Forall okv (purge_scan A i {| p_m1 := m1; p_m2 := m2; p_uu := uu |}
     (with_dig0 (run_from cfg st1 h).1)
     (with_dig0 (run_from cfg st2 (purge_from cfg A st1 st2 m1 m2 h)).1)).
Proof.
  induction h as [|o h IH]; intros st1 st2 m1 m2 uu i k [SM U B G1 G2] Hk; [constructor|].
  cbn [length] in Hk. rewrite Nat2N.inj_succ in Hk.
  assert (Hk1 : k + 1 < two32) by lia.
  pose proof (good_step cfg k st1 m1 o G1 Hk1) as G1'.
  pose proof (λ c, good_mem _ _ _ c G2) as M2.
  pose proof (λ c, good_mem _ _ _ c G1') as M1'.
  rewrite run_from_cons, purge_from_cons. cbv zeta. cbn [fst snd with_dig0 map].
  set (e1 := ev_of st1 o (step cfg st1 o)) in *. set (st1' := (step cfg st1 o).1.1) in *.
  cbn [purge_scan p_m1 p_m2 p_uu]. change (ev_op e1) with o.
  destruct (relevant A m1 o) eqn:Hr; cbn [negb].
  - (* an operation of the group *)
    set (o2 := translate A m1 m2 o) in *.
    pose proof (good_step cfg k st2 m2 o2 G2 Hk1) as G2'.
    pose proof (λ c, good_mem _ _ _ c G2') as M2'.
    rewrite run_from_cons. cbn [fst snd with_dig0 map].
    set (e2 := ev_of st2 o2 (step cfg st2 o2)) in *. set (st2' := (step cfg st2 o2).1.1) in *.
    rewrite skip_snaps_cons by (unfold is_snap_dev; cbn [fst]; change (ev_op e2) with o2;
                                pose proof (translate_not_snap A m1 m2 o Hr) as X; fold o2 in X; by destruct o2).
    destruct (rel_all cfg A uu st1 st2 m1 m2 k SM U B (g_inv _ _ _ G1) (g_inv _ _ _ G2) (g_bnd _ _ _ G1) (g_bnd _ _ _ G2)
                Hk1 (λ c, good_mem _ _ _ c G1) M2 o Hr) as (OM&RM&Rest).
    fold o2 in OM, RM, Rest.
    change (ev_op e2) with o2. change (ev_req e1) with (consumed st1 o). change (ev_req e2) with (consumed st2 o2).
    rewrite OM, RM. cbn [negb].
    destruct (match consumed st1 o with Some r => global_req r | None => false end) eqn:Hg.
    { apply okv_single. tauto. }
    destruct (join_now A m1 m2 (consumed st1 o) (consumed st2 o2) =? 0)%Z eqn:Hj; cbn [negb].
    2:{ apply okv_single. apply Z.eqb_neq in Hj.
        destruct (join_now_codes A m1 m2 (consumed st1 o) (consumed st2 o2)) as [?|[?|?]]; [done|tauto|tauto]. }
    apply Z.eqb_eq in Hj. destruct (Rest eq_refl Hj) as (V&S'&U'&j&u1&u2&Ho&Hi).
    fold st1' st2' in S', U', Hi.
    change (ev_outs e1) with (step cfg st1 o).1.2. change (ev_outs e2) with (step cfg st2 o2).1.2.
    change (ev_verdict e1) with (step cfg st1 o).2. change (ev_verdict e2) with (step cfg st2 o2).2.
    destruct (outs_match_related i j u1 u2 _ _ uu (orl_outs_to A j u1 u2 _ _ Ho)) as (uu'&Hm&Huu).
    { intros Hjt. apply uu_ok_true. by apply (Hi Hjt). }
    rewrite Hm. rewrite V, same_verdict_refl. cbn [negb]. rewrite !digs_to_nil.
    rewrite bool_decide_true by done. cbn [negb].
    destruct (separated A (obs_step m1 e1)) eqn:Hsep; cbn [negb]; [|apply okv_single; tauto].
    rewrite (rho_ok_true A _ _ (sim_mrel A st1' st2' _ _ S' (λ c, good_mem _ _ _ c G1') M2')). cbn [negb].
    apply (IH st1' st2' _ _ uu' (S i) (k + 1)); [|lia].
    assert (B' : uub uu st1' st2').
    { eapply uub_same; [| |exact B]; apply (step_next_uuid_mono _ _ _ k); try done;
        [apply (g_inv _ _ _ G1)|apply (g_bnd _ _ _ G1)|apply (g_inv _ _ _ G2)|apply (g_bnd _ _ _ G2)]. }
    destruct Huu as [->|[Hjt ->]]; [by split|].
    destruct (Hi Hjt) as (_&c&n1&p&n2&p'&T1&T2&Hc&C1&C2&E1&E2&->&->).
    split; [done| | |done|done].
    + by apply (uuc_add A uu st1' st2' c n1 p n2 p' T1 T2 S' (g_reg _ _ _ G1') (g_reg _ _ _ G2') U' Hc C1 C2 E1 E2).
    + intros a b [Hab|[-> ->]]%elem_of_uu_add; [by apply B'|].
      split; [apply (reg_uuid_le _ (g_reg _ _ _ G1') n1 T1 E1)|apply (reg_uuid_le _ (g_reg _ _ _ G2') n2 T2 E2)].
  - (* an operation outside the group *)
    destruct (separated A (obs_step m1 e1)) eqn:Hsep; cbn [negb]; [|apply okv_single; tauto].
    destruct (irr_step cfg A st1 m1 k o (g_inv _ _ _ G1) (g_bnd _ _ _ G1) Hk1 (g_fr _ _ _ G1) (λ c, good_mem _ _ _ c G1) Hr)
      as [X Q].
    + intros e He d s p q Hd D1 D2. by apply (sim_sep A st1 st2 d e s p q SM (g_inv _ _ _ G1) (g_inv _ _ _ G2) Hd He).
    + intros e He. by apply (separated_nosh A st1' (obs_step m1 e1) e (λ c, good_mem _ _ _ c G1')).
    + change (ev_outs e1) with (step cfg st1 o).1.2. rewrite Q.
      apply (IH st1' st2 _ _ uu (S i) (k + 1)); [|lia].
      destruct (untouched_sim A uu st1 st2 st1' SM U X) as [S' U'].
      split; [done|done| |done|by eapply good_mono; [exact G2|lia]].
      eapply uub_same; [| |exact B]; [|done]. apply (step_next_uuid_mono _ _ _ k); [apply (g_inv _ _ _ G1)|apply (g_bnd _ _ _ G1)|done].
Qed.

(* ================= the theorems ================= *)
Theorem model_purge_ok cfg A h :
  N.of_nat (length h) < two32 → Forall okv (model_purge cfg A h).
Proof.
  intros Hb. unfold model_purge, P_purge, run, purge_hist, pst0.
  apply (purge_scan_ok cfg A h state0 state0 ∅ ∅ [] 0%nat 0); [apply pinv_state0|lia].
Qed.

(* on the model the experiment never reports a violation (330-334): every report is an
   "experiment does not apply" code (>= 390) *)
Theorem purge_noninterference cfg A h :
  N.of_nat (length h) < two32 →
  Forall (λ v, is_skip_code (v_code v) = true) (model_purge cfg A h).
Proof. intros Hb. eapply Forall_impl; [by apply model_purge_ok|]. by intros v [-> |[-> | ->]]. Qed.

(* and never a harness error: the purged history is the purge of the full one *)
Theorem purge_wellformed cfg A h :
  N.of_nat (length h) < two32 →
  Forall (λ v, v_code v ≠ 391%Z ∧ v_code v ≠ 392%Z) (model_purge cfg A h).
Proof. intros Hb. eapply Forall_impl; [by apply model_purge_ok|]. by intros v [-> |[-> | ->]]. Qed.

Lemma short_bound h : short h → N.of_nat (length h) < two32.
Proof. unfold short. lia. Qed.

Theorem purge_noninterference_short cfg A h :
  short h → Forall (λ v, is_skip_code (v_code v) = true) (model_purge cfg A h).
Proof. intros Hs. by apply purge_noninterference, short_bound. Qed.
Theorem purge_wellformed_short cfg A h :
  short h → Forall (λ v, v_code v ≠ 391%Z ∧ v_code v ≠ 392%Z) (model_purge cfg A h).
Proof. intros Hs. by apply purge_wellformed, short_bound. Qed.

(* the only reports possible: 397, 398, 399 *)
Theorem purge_codes cfg A h :
  N.of_nat (length h) < two32 →
  Forall (λ v, v_code v = 397%Z ∨ v_code v = 398%Z ∨ v_code v = 399%Z) (model_purge cfg A h).
Proof. apply model_purge_ok. Qed.

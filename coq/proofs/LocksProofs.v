(* LocksProofs.v — proofs about the executable definitions of Locks.v (property C09).

   1. lockset_sound        soundness of the boolean lockset checker
   2. rank_ok_sound        a rank accepted by rank_ok increases strictly along every edge
   3. rank_ok_acyclic      a table accepted with some rank has no cycle
   4. covered_prog_ok      balanced programs covered by a ranked edge table obey the discipline
   5. ordered_no_deadlock  deadlock freedom of the lock machine under the discipline
   6. covered_no_deadlock  4 + 5
   7. reachable_mutex      mutual exclusion is an invariant of the lock machine
      (+ reachable_held_nodup: no thread holds a lock twice)

   Plain standard library, no axioms. *)
From hagall Require Import Locks.
From Coq Require Import NArith List Bool Lia Arith.
Import ListNotations.
Open Scope N_scope.

(* ------------------------------------------------------------------ part 1 *)

Lemma holds_b_sound : forall a l, holds_b a l = true -> holds a l.
Proof.
  unfold holds_b, holds. intros a l H.
  apply existsb_exists in H. destruct H as [[k x] [Hin Heq]].
  simpl in Heq. apply N.eqb_eq in Heq. subst k. exists x. exact Hin.
Qed.

Lemma holds_excl_b_sound : forall a l, holds_excl_b a l = true -> exclusive a l.
Proof.
  unfold holds_excl_b, exclusive. intros a l H.
  apply existsb_exists in H. destruct H as [[k x] [Hin Heq]].
  simpl in Heq. apply andb_true_iff in Heq. destruct Heq as [H1 H2].
  apply N.eqb_eq in H1. subst k x. exact Hin.
Qed.

Lemma exclusive_holds : forall a l, exclusive a l -> holds a l.
Proof. intros a l H. exists true. exact H. Qed.

Lemma guards_b_sound : forall a l, guards_b a l = true ->
  holds a l /\ (a_write a = true -> exclusive a l).
Proof.
  unfold guards_b. intros a l. destruct (a_write a); intro H.
  - split.
    + apply exclusive_holds, holds_excl_b_sound; exact H.
    + intros _. apply holds_excl_b_sound; exact H.
  - split.
    + apply holds_b_sound; exact H.
    + intro; discriminate.
Qed.

Theorem lockset_sound : forall tbl, lockset_consistent_b tbl = true ->
  forall a b, In a tbl -> In b tbl ->
    a_field a = a_field b -> (a_write a = true \/ a_write b = true) ->
    a_exempt a = false -> a_exempt b = false ->
    exists l, holds a l /\ holds b l /\
              (a_write a = true -> exclusive a l) /\ (a_write b = true -> exclusive b l).
Proof.
  intros tbl H a b Ha Hb Hf Hw Hea Heb.
  unfold lockset_consistent_b in H. rewrite forallb_forall in H.
  specialize (H a Ha). rewrite forallb_forall in H. specialize (H b Hb).
  unfold pair_ok_b in H.
  assert (Hc : conflict_b a b = true).
  { unfold conflict_b. rewrite Hf, N.eqb_refl, Hea, Heb.
    destruct Hw as [Hw | Hw]; rewrite Hw; simpl.
    - reflexivity.
    - rewrite orb_true_r. reflexivity. }
  rewrite Hc in H. simpl in H.
  unfold common_guard_b in H. apply existsb_exists in H.
  destruct H as [p [_ Hg]]. apply andb_true_iff in Hg. destruct Hg as [Hga Hgb].
  apply guards_b_sound in Hga. apply guards_b_sound in Hgb.
  exists (fst p). tauto.
Qed.

Example lockset_tbl_ex : list access :=
  [ mkAccess 7 true  false [(1, true)] 100;
    mkAccess 7 false false [(1, false); (2, true)] 101;
    mkAccess 8 true  true  [] 102 ].

Example lockset_consistent_ex : lockset_consistent_b lockset_tbl_ex = true.
Proof. reflexivity. Qed.

(* the checker does reject: a reader holding only another lock *)
Example lockset_inconsistent_ex :
  lockset_consistent_b
    [ mkAccess 7 true  false [(1, true)] 100;
      mkAccess 7 false false [(2, true)] 101 ] = false.
Proof. reflexivity. Qed.

(* ... and a writer holding the common lock only in shared mode *)
Example lockset_inconsistent_shared_ex :
  lockset_consistent_b
    [ mkAccess 7 true  false [(1, false)] 100;
      mkAccess 7 false false [(1, false)] 101 ] = false.
Proof. reflexivity. Qed.

(* ------------------------------------------------------------------ part 2 *)

Theorem rank_ok_sound : forall rank es, rank_ok rank es = true ->
  forall e, In e es -> (rank (e_from e) < rank (e_to e))%N.
Proof.
  intros rank es H e He. unfold rank_ok in H. rewrite forallb_forall in H.
  apply N.ltb_lt. apply H. exact He.
Qed.

Example rank_ok_ex :
  rank_ok (fun l => l) [mkEdge 1 2 0; mkEdge 2 5 1; mkEdge 1 5 2] = true.
Proof. reflexivity. Qed.

Inductive path (es : list edge) : lockclass -> lockclass -> Prop :=
| path_one : forall e, In e es -> path es (e_from e) (e_to e)
| path_cons : forall e z, In e es -> path es (e_to e) z -> path es (e_from e) z.

Lemma path_rank_lt : forall rank es, rank_ok rank es = true ->
  forall x y, path es x y -> rank x < rank y.
Proof.
  intros rank es H x y P. induction P as [e He | e z He P IH].
  - apply (rank_ok_sound rank es H e He).
  - pose proof (rank_ok_sound rank es H e He). lia.
Qed.

Theorem rank_ok_acyclic : forall rank es, rank_ok rank es = true -> forall x, ~ path es x x.
Proof.
  intros rank es H x P. pose proof (path_rank_lt rank es H x x P). lia.
Qed.

Example cyclic_table_ex : list edge := [mkEdge 1 2 0; mkEdge 2 3 1; mkEdge 3 1 2].

Example cyclic_table_has_cycle : path cyclic_table_ex 1 1.
Proof.
  apply (path_cons cyclic_table_ex (mkEdge 1 2 0)); [simpl; tauto|].
  apply (path_cons cyclic_table_ex (mkEdge 2 3 1)); [simpl; tauto|].
  apply (path_one cyclic_table_ex (mkEdge 3 1 2)). simpl; tauto.
Qed.

Example cyclic_table_rejected : rank_ok (compute_rank cyclic_table_ex) cyclic_table_ex = false.
Proof. vm_compute; reflexivity. Qed.

(* no rank at all is accepted for it *)
Example cyclic_table_no_rank : forall rank, rank_ok rank cyclic_table_ex = false.
Proof.
  intro rank. destruct (rank_ok rank cyclic_table_ex) eqn:E; [|reflexivity].
  exfalso. exact (rank_ok_acyclic rank _ E 1 cyclic_table_has_cycle).
Qed.

Example acyclic_table_ex : list edge := [mkEdge 1 2 0; mkEdge 2 3 1; mkEdge 1 3 2; mkEdge 3 4 3].

Example acyclic_table_accepted : rank_ok (compute_rank acyclic_table_ex) acyclic_table_ex = true.
Proof. vm_compute; reflexivity. Qed.

Example acyclic_table_no_cycle : forall x, ~ path acyclic_table_ex x x.
Proof. exact (rank_ok_acyclic _ _ acyclic_table_accepted). Qed.

(* ------------------------------------------------------------------ part 3: list helpers *)

Lemma memN_In : forall x l, memN x l = true <-> In x l.
Proof.
  intros x l. unfold memN. rewrite existsb_exists. split.
  - intros [y [Hin He]]. apply N.eqb_eq in He. subst y. exact Hin.
  - intro Hin. exists x. split; [exact Hin | apply N.eqb_refl].
Qed.

Lemma In_removeN : forall y x l, In y (removeN x l) -> In y l.
Proof.
  intros y x l. induction l as [|a l IH]; simpl.
  - tauto.
  - destruct (N.eqb x a).
    + intro H. right. apply IH. exact H.
    + intros [H | H]; [left; exact H | right; apply IH; exact H].
Qed.

Lemma NoDup_removeN : forall x l, NoDup l -> NoDup (removeN x l).
Proof.
  intros x l H. induction H as [|a l Hn Hd IH]; simpl.
  - constructor.
  - destruct (N.eqb x a).
    + exact IH.
    + constructor; [|exact IH]. intro Hin. apply Hn. apply (In_removeN _ _ _ Hin).
Qed.

Lemma nth_error_replace_same : forall (A : Type) (l : list A) i x z,
  nth_error l i = Some z -> nth_error (replace_nth i x l) i = Some x.
Proof.
  intros A l. induction l as [|a l IH]; intros i x z H.
  - destruct i; discriminate.
  - destruct i as [|i]; simpl.
    + reflexivity.
    + simpl in H. apply (IH i x z H).
Qed.

Lemma nth_error_replace_other : forall (A : Type) (l : list A) i j x,
  i <> j -> nth_error (replace_nth i x l) j = nth_error l j.
Proof.
  intros A l. induction l as [|a l IH]; intros i j x Hne.
  - destruct i; reflexivity.
  - destruct i as [|i]; destruct j as [|j]; simpl; try reflexivity.
    + congruence.
    + apply IH. congruence.
Qed.

Lemma In_replace_nth : forall (A : Type) (l : list A) i x y,
  In y (replace_nth i x l) -> y = x \/ In y l.
Proof.
  intros A l. induction l as [|a l IH]; intros i x y H.
  - destruct i; simpl in H; tauto.
  - destruct i as [|i]; simpl in H.
    + destruct H as [H | H]; [left; symmetry; exact H | right; right; exact H].
    + destruct H as [H | H]; [right; left; exact H|].
      apply IH in H. destruct H as [H | H]; [left; exact H | right; right; exact H].
Qed.

Lemma max_exists : forall (A : Type) (f : A -> N) (l : list A), l <> [] ->
  exists x, In x l /\ forall y, In y l -> f y <= f x.
Proof.
  intros A f l. induction l as [|a l IH]; [congruence|]. intros _.
  destruct l as [|b l'].
  - exists a. split; [left; reflexivity|]. intros y [Hy | []]. subst y. lia.
  - destruct IH as [x [Hx Hm]]; [discriminate|].
    destruct (N.le_gt_cases (f a) (f x)) as [Hle | Hgt].
    + exists x. split; [right; exact Hx|].
      intros y [Hy | Hy]; [subst y; exact Hle | apply Hm; exact Hy].
    + exists a. split; [left; reflexivity|].
      intros y [Hy | Hy]; [subst y; lia|]. specialize (Hm y Hy). lia.
Qed.

(* ------------------------------------------------------------------ theorem 4 *)

Lemma covered_prog_ok_from : forall rank es, rank_ok rank es = true ->
  forall p held, balanced_from held p = true ->
    incl (prog_pairs_from held p) (edge_pairs es) ->
    prog_ok_from rank held p = true.
Proof.
  intros rank es Hr p. induction p as [|i p IH]; intros held Hb Hi.
  - simpl in *. exact Hb.
  - destruct i as [l | l |]; simpl in *.
    + apply andb_true_iff. split.
      * apply forallb_forall. intros h Hh. apply N.ltb_lt.
        assert (Hin : In (h, l) (edge_pairs es)).
        { apply Hi. apply in_or_app. left. apply in_map_iff. exists h. split; [reflexivity | exact Hh]. }
        unfold edge_pairs in Hin. apply in_map_iff in Hin. destruct Hin as [e [He Hine]].
        inversion He; subst h l. apply (rank_ok_sound rank es Hr e Hine).
      * apply IH; [exact Hb|]. intros x Hx. apply Hi. apply in_or_app. right. exact Hx.
    + apply IH; assumption.
    + apply IH; assumption.
Qed.

Theorem covered_prog_ok : forall rank es p,
  rank_ok rank es = true -> balanced p = true ->
  incl (prog_pairs p) (edge_pairs es) -> prog_ok rank p = true.
Proof.
  intros rank es p Hr Hb Hi. unfold prog_ok.
  apply (covered_prog_ok_from rank es Hr p [] Hb Hi).
Qed.

Example prog1_ex : prog := [Acq 1; Acq 2; Rel 2; Rel 1].
Example prog2_ex : prog := [Acq 2; Step; Rel 2].
Example prog3_ex : prog := [Acq 1; Acq 2; Acq 5; Rel 1; Rel 5; Rel 2].
Example edges_ex : list edge := [mkEdge 1 2 0; mkEdge 2 5 1; mkEdge 1 5 2].

Example covered_hyps_ex :
  rank_ok (compute_rank edges_ex) edges_ex = true /\
  Forall (fun p => balanced p = true /\ incl (prog_pairs p) (edge_pairs edges_ex))
         [prog1_ex; prog2_ex; prog3_ex].
Proof.
  split; [vm_compute; reflexivity|].
  assert (Hp : forall p, balanced p = true ->
            (forall x, In x (prog_pairs p) -> In x (edge_pairs edges_ex)) ->
            balanced p = true /\ incl (prog_pairs p) (edge_pairs edges_ex)).
  { intros p Hb Hi. split; [exact Hb | exact Hi]. }
  apply Forall_cons; [|apply Forall_cons; [|apply Forall_cons; [|apply Forall_nil]]];
    (apply Hp; [reflexivity | intros x Hx; vm_compute in Hx; vm_compute; tauto]).
Qed.

Example covered_prog_ok_ex : prog_ok (compute_rank edges_ex) prog3_ex = true.
Proof.
  destruct covered_hyps_ex as [Hr Hf].
  inversion Hf as [|? ? _ Hf1]; subst. inversion Hf1 as [|? ? _ Hf2]; subst.
  inversion Hf2 as [|? ? [Hb Hi] _]; subst.
  exact (covered_prog_ok _ _ _ Hr Hb Hi).
Qed.

(* ------------------------------------------------------------------ theorem 5 *)

Definition thread_inv (rank : rank_fun) (cfg : config) : Prop :=
  forall t, In t cfg -> prog_ok_from rank (t_held t) (t_prog t) = true.

Lemma step_thread_inv : forall rank cfg t t',
  prog_ok_from rank (t_held t) (t_prog t) = true ->
  step_thread cfg t = Some t' ->
  prog_ok_from rank (t_held t') (t_prog t') = true.
Proof.
  intros rank cfg [p h] t'. unfold step_thread. simpl.
  destruct p as [|[l | l |] p]; simpl; intros H E.
  - discriminate.
  - destruct (locked_b cfg l); [discriminate|].
    inversion E; subst t'; simpl. apply andb_true_iff in H. tauto.
  - inversion E; subst t'; simpl. exact H.
  - inversion E; subst t'; simpl. exact H.
Qed.

Lemma reachable_inv : forall (rank : rank_fun) (progs : list prog),
  Forall (fun p => prog_ok rank p = true) progs ->
  forall cfg, reachable progs cfg -> thread_inv rank cfg.
Proof.
  intros rank progs Hok cfg Hr. induction Hr as [| cfg cfg' i Hr IH Hs].
  - intros t Hin. unfold init_config in Hin. apply in_map_iff in Hin.
    destruct Hin as [p [Ht Hp]]. subst t. simpl.
    rewrite Forall_forall in Hok. apply (Hok p Hp).
  - destruct Hs as [t [t' [Hn [Hst Hc]]]]. subst cfg'.
    intros u Hin. apply In_replace_nth in Hin. destruct Hin as [Hu | Hu].
    + subst u. apply (step_thread_inv rank cfg t t'); [|exact Hst].
      apply IH. apply (nth_error_In _ _ Hn).
    + apply IH. exact Hu.
Qed.

Lemma not_all_finished_ex : forall cfg, ~ all_finished cfg ->
  exists t, In t cfg /\ t_prog t <> [].
Proof.
  intro cfg. induction cfg as [|a cfg IH]; intro H.
  - exfalso. apply H. intros t [].
  - destruct (t_prog a) eqn:E.
    + destruct IH as [t [Hin Hne]].
      { intro Haf. apply H. intros t [Ht | Ht]; [subst t; exact E | apply Haf; exact Ht]. }
      exists t. split; [right; exact Hin | exact Hne].
    + exists a. split; [left; reflexivity|]. rewrite E. discriminate.
Qed.

Lemma blocked_shape : forall cfg t, step_thread cfg t = None -> t_prog t <> [] ->
  exists l p, t_prog t = Acq l :: p /\ locked_b cfg l = true.
Proof.
  intros cfg t. unfold step_thread. destruct (t_prog t) as [|[l | l |] p]; intros H Hne.
  - congruence.
  - exists l, p. split; [reflexivity|]. destruct (locked_b cfg l); [reflexivity | discriminate].
  - discriminate.
  - discriminate.
Qed.

Definition wait_rank (rank : rank_fun) (t : thread) : N :=
  match t_prog t with Acq l :: _ => 1 + rank l | _ => 0 end.

Definition can_step_b (cfg : config) (t : thread) : bool :=
  match step_thread cfg t with Some _ => true | None => false end.

Theorem ordered_no_deadlock : forall (rank : rank_fun) (progs : list prog),
  Forall (fun p => prog_ok rank p = true) progs ->
  forall cfg, reachable progs cfg -> ~ all_finished cfg ->
  exists i cfg', thread_step i cfg cfg'.
Proof.
  intros rank progs Hok cfg Hr Hnf.
  pose proof (reachable_inv rank progs Hok cfg Hr) as Hinv.
  destruct (not_all_finished_ex cfg Hnf) as [t0 [Hin0 Hne0]].
  destruct (existsb (can_step_b cfg) cfg) eqn:Ex.
  - apply existsb_exists in Ex. destruct Ex as [t [Hin Hs]]. unfold can_step_b in Hs.
    destruct (step_thread cfg t) as [t'|] eqn:Est; [|discriminate].
    apply In_nth_error in Hin. destruct Hin as [i Hi].
    exists i, (replace_nth i t' cfg). exists t, t'. auto.
  - exfalso.
    assert (Hblocked : forall t, In t cfg -> step_thread cfg t = None).
    { intros t Hin. destruct (step_thread cfg t) eqn:Est; [|reflexivity].
      assert (Hx : existsb (can_step_b cfg) cfg = true).
      { apply existsb_exists. exists t. split; [exact Hin|]. unfold can_step_b. rewrite Est. reflexivity. }
      congruence. }
    destruct (max_exists _ (wait_rank rank) cfg) as [t [Hin Hmax]].
    { intro Hnil. subst cfg. destruct Hin0. }
    (* the unfinished thread t0 waits for a lock, so the maximal thread t too *)
    destruct (blocked_shape cfg t0 (Hblocked t0 Hin0) Hne0) as [l0 [p0 [Hp0 _]]].
    pose proof (Hmax t0 Hin0) as Hle0. unfold wait_rank at 1 in Hle0. rewrite Hp0 in Hle0.
    assert (Hne : t_prog t <> []).
    { intro E. unfold wait_rank in Hle0. rewrite E in Hle0. lia. }
    destruct (blocked_shape cfg t (Hblocked t Hin) Hne) as [l [p [Hp Hlocked]]].
    (* some thread h holds l *)
    unfold locked_b in Hlocked. apply existsb_exists in Hlocked.
    destruct Hlocked as [h [Hinh Hmem]]. apply memN_In in Hmem.
    pose proof (Hinv h Hinh) as Hh.
    assert (Hneh : t_prog h <> []).
    { intro E. rewrite E in Hh. simpl in Hh. destruct (t_held h); [destruct Hmem | discriminate]. }
    destruct (blocked_shape cfg h (Hblocked h Hinh) Hneh) as [m [q [Hq _]]].
    rewrite Hq in Hh. simpl in Hh. apply andb_true_iff in Hh. destruct Hh as [Hall _].
    rewrite forallb_forall in Hall. specialize (Hall l Hmem). apply N.ltb_lt in Hall.
    pose proof (Hmax h Hinh) as Hle. unfold wait_rank in Hle. rewrite Hq, Hp in Hle. lia.
Qed.

Example ordered_hyps_ex :
  Forall (fun p => prog_ok (fun l => l) p = true) [prog1_ex; prog2_ex].
Proof. repeat constructor. Qed.

(* a reachable, unfinished configuration of these two programs, and the step the theorem promises *)
Example ordered_cfg_ex : config :=
  [mkThread [Acq 2; Rel 2; Rel 1] [1]; mkThread [Acq 2; Step; Rel 2] []].

Example ordered_cfg_reachable : reachable [prog1_ex; prog2_ex] ordered_cfg_ex.
Proof.
  apply reach_step with (cfg := init_config [prog1_ex; prog2_ex]) (i := 0%nat).
  - apply reach_init.
  - eexists _, _. split; [reflexivity|]. split; reflexivity.
Qed.

Example ordered_cfg_steps : exists i cfg', thread_step i ordered_cfg_ex cfg'.
Proof.
  apply (ordered_no_deadlock (fun l => l) [prog1_ex; prog2_ex] ordered_hyps_ex _ ordered_cfg_reachable).
  intro H. specialize (H _ (or_introl eq_refl)). discriminate.
Qed.

(* when the discipline is violated the machine can deadlock *)
Example bad_progs : list prog :=
  [[Acq 1; Acq 2; Rel 2; Rel 1]; [Acq 2; Acq 1; Rel 1; Rel 2]].

Example dead_cfg : config :=
  [mkThread [Acq 2; Rel 2; Rel 1] [1]; mkThread [Acq 1; Rel 1; Rel 2] [2]].

Example unordered_can_deadlock :
  exists cfg, reachable bad_progs cfg /\ ~ all_finished cfg /\
              forall i cfg', ~ thread_step i cfg cfg'.
Proof.
  exists dead_cfg. split; [|split].
  - apply reach_step
      with (cfg := [mkThread [Acq 2; Rel 2; Rel 1] [1]; mkThread [Acq 2; Acq 1; Rel 1; Rel 2] []])
           (i := 1%nat).
    + apply reach_step with (cfg := init_config bad_progs) (i := 0%nat).
      * apply reach_init.
      * eexists _, _. split; [reflexivity|]. split; reflexivity.
    + eexists _, _. split; [reflexivity|]. split; reflexivity.
  - intro H. specialize (H _ (or_introl eq_refl)). discriminate.
  - intros i cfg' [t [t' [Hn [Hs _]]]].
    destruct i as [|[|i]]; simpl in Hn.
    + inversion Hn; subst t. vm_compute in Hs. discriminate.
    + inversion Hn; subst t. vm_compute in Hs. discriminate.
    + destruct i; discriminate.
Qed.

(* and indeed no rank makes both programs obey the discipline *)
Example bad_progs_no_rank : forall rank,
  ~ Forall (fun p => prog_ok rank p = true) bad_progs.
Proof.
  intros rank H. inversion H as [|? ? H1 H']; subst. inversion H' as [|? ? H2 _]; subst.
  unfold prog_ok in H1, H2. simpl in H1, H2.
  apply andb_true_iff in H1. destruct H1 as [H1 _]. apply andb_true_iff in H1. destruct H1 as [H1 _].
  apply andb_true_iff in H2. destruct H2 as [H2 _]. apply andb_true_iff in H2. destruct H2 as [H2 _].
  apply N.ltb_lt in H1. apply N.ltb_lt in H2. lia.
Qed.

(* ------------------------------------------------------------------ theorem 6 *)

Theorem covered_no_deadlock : forall rank es (progs : list prog),
  rank_ok rank es = true ->
  Forall (fun p => balanced p = true /\ incl (prog_pairs p) (edge_pairs es)) progs ->
  forall cfg, reachable progs cfg -> ~ all_finished cfg ->
  exists i cfg', thread_step i cfg cfg'.
Proof.
  intros rank es progs Hr Hf. apply (ordered_no_deadlock rank).
  rewrite Forall_forall in *. intros p Hp. destruct (Hf p Hp) as [Hb Hi].
  apply (covered_prog_ok rank es p Hr Hb Hi).
Qed.

Example covered_no_deadlock_ex :
  forall cfg, reachable [prog1_ex; prog2_ex; prog3_ex] cfg -> ~ all_finished cfg ->
  exists i cfg', thread_step i cfg cfg'.
Proof.
  destruct covered_hyps_ex as [Hr Hf].
  exact (covered_no_deadlock _ _ _ Hr Hf).
Qed.

(* ------------------------------------------------------------------ theorem 7 *)

Definition mutex (cfg : config) : Prop :=
  forall i j ti tj l, nth_error cfg i = Some ti -> nth_error cfg j = Some tj ->
    In l (t_held ti) -> In l (t_held tj) -> i = j.

(* a lock held after a step was held before by the same thread, or was free *)
Lemma step_thread_held : forall cfg t t' l,
  step_thread cfg t = Some t' -> In l (t_held t') ->
  In l (t_held t) \/ locked_b cfg l = false.
Proof.
  intros cfg [p h] t' l. unfold step_thread. simpl.
  destruct p as [|[k | k |] p]; intros E Hin.
  - discriminate.
  - destruct (locked_b cfg k) eqn:Hl; [discriminate|].
    inversion E; subst t'; simpl in Hin. destruct Hin as [Hin | Hin].
    + subst k. right. exact Hl.
    + left. exact Hin.
  - inversion E; subst t'; simpl in Hin. left. apply (In_removeN _ _ _ Hin).
  - inversion E; subst t'; simpl in Hin. left. exact Hin.
Qed.

Lemma held_locked : forall cfg j tj l,
  nth_error cfg j = Some tj -> In l (t_held tj) -> locked_b cfg l = true.
Proof.
  intros cfg j tj l Hn Hin. unfold locked_b. apply existsb_exists.
  exists tj. split; [apply (nth_error_In _ _ Hn) | apply memN_In; exact Hin].
Qed.

Lemma mutex_step : forall i cfg cfg', mutex cfg -> thread_step i cfg cfg' -> mutex cfg'.
Proof.
  intros i cfg cfg' Hm [t [t' [Hn [Hs Hc]]]]. subst cfg'.
  assert (Hone : forall a b ta tb l, i = a -> i <> b ->
            nth_error (replace_nth i t' cfg) a = Some ta ->
            nth_error (replace_nth i t' cfg) b = Some tb ->
            In l (t_held ta) -> In l (t_held tb) -> False).
  { intros a b ta tb l Hia Hib Ha Hb Hla Hlb. subst a.
    rewrite (nth_error_replace_same _ cfg i t' t Hn) in Ha. inversion Ha; subst ta.
    rewrite (nth_error_replace_other _ cfg i b t' Hib) in Hb.
    destruct (step_thread_held cfg t t' l Hs Hla) as [Hold | Hfree].
    - apply Hib. apply (Hm i b t tb l Hn Hb Hold Hlb).
    - rewrite (held_locked cfg b tb l Hb Hlb) in Hfree. discriminate. }
  intros a b ta tb l Ha Hb Hla Hlb.
  destruct (Nat.eq_dec i a) as [Hia | Hia]; destruct (Nat.eq_dec i b) as [Hib | Hib].
  - congruence.
  - exfalso. apply (Hone a b ta tb l Hia Hib Ha Hb Hla Hlb).
  - exfalso. apply (Hone b a tb ta l Hib Hia Hb Ha Hlb Hla).
  - rewrite (nth_error_replace_other _ cfg i a t' Hia) in Ha.
    rewrite (nth_error_replace_other _ cfg i b t' Hib) in Hb.
    apply (Hm a b ta tb l Ha Hb Hla Hlb).
Qed.

Lemma mutex_init : forall progs, mutex (init_config progs).
Proof.
  intros progs i j ti tj l Hi _ Hl _. exfalso.
  apply nth_error_In in Hi. unfold init_config in Hi. apply in_map_iff in Hi.
  destruct Hi as [p [Hp _]]. subst ti. simpl in Hl. exact Hl.
Qed.

(* the discipline hypothesis is not needed for mutual exclusion: it holds for arbitrary programs *)
Lemma reachable_mutex_any : forall progs cfg, reachable progs cfg -> mutex cfg.
Proof.
  intros progs cfg Hr. induction Hr as [| cfg cfg' i Hr IH Hs].
  - apply mutex_init.
  - apply (mutex_step i cfg cfg' IH Hs).
Qed.

Theorem reachable_mutex : forall (rank : rank_fun) (progs : list prog),
  Forall (fun p => prog_ok rank p = true) progs ->
  forall cfg, reachable progs cfg ->
  forall i j ti tj l, nth_error cfg i = Some ti -> nth_error cfg j = Some tj ->
    In l (t_held ti) -> In l (t_held tj) -> i = j.
Proof.
  intros rank progs _ cfg Hr. exact (reachable_mutex_any progs cfg Hr).
Qed.

(* no thread holds a lock twice (also for arbitrary programs) *)
Theorem reachable_held_nodup : forall progs cfg, reachable progs cfg ->
  forall t, In t cfg -> NoDup (t_held t).
Proof.
  intros progs cfg Hr. induction Hr as [| cfg cfg' i Hr IH Hs].
  - intros t Hin. unfold init_config in Hin. apply in_map_iff in Hin.
    destruct Hin as [p [Hp _]]. subst t. simpl. constructor.
  - destruct Hs as [t [t' [Hn [Hst Hc]]]]. subst cfg'.
    intros u Hin. apply In_replace_nth in Hin. destruct Hin as [Hu | Hu]; [|apply IH; exact Hu].
    subst u. pose proof (IH t (nth_error_In _ _ Hn)) as Hnd.
    destruct t as [p h]. unfold step_thread in Hst. simpl in Hst, Hnd.
    destruct p as [|[k | k |] p].
    + discriminate.
    + destruct (locked_b cfg k) eqn:Hl; [discriminate|].
      inversion Hst; subst t'; simpl. constructor; [|exact Hnd].
      intro Hk. rewrite (held_locked cfg i _ k Hn Hk) in Hl. discriminate.
    + inversion Hst; subst t'; simpl. apply NoDup_removeN. exact Hnd.
    + inversion Hst; subst t'; simpl. exact Hnd.
Qed.

(* instance: the reachable configuration of the two disciplined programs above *)
Example reachable_mutex_ex :
  forall i j ti tj l, nth_error ordered_cfg_ex i = Some ti -> nth_error ordered_cfg_ex j = Some tj ->
    In l (t_held ti) -> In l (t_held tj) -> i = j.
Proof.
  exact (reachable_mutex (fun l => l) [prog1_ex; prog2_ex] ordered_hyps_ex _ ordered_cfg_reachable).
Qed.

(* ------------------------------------------------------------------ assumptions *)

Print Assumptions lockset_sound.
Print Assumptions rank_ok_sound.
Print Assumptions rank_ok_acyclic.
Print Assumptions covered_prog_ok.
Print Assumptions ordered_no_deadlock.
Print Assumptions covered_no_deadlock.
Print Assumptions reachable_mutex.
Print Assumptions reachable_held_nodup.
Print Assumptions unordered_can_deadlock.

(* proofs/RefComp.v — the refinement extended to the entity-component part of the spec (types, components,
   subscriptions): the abstraction relation [refines_comps], the generic "a canonical (sorted) list is determined
   by its elements" lemmas, and the canonical lists of Preds.v ([spec_comps], [spec_types], [spec_subs],
   [spec_tids]) computed from the model's store when the relation holds.
   The step simulation is in proofs/RefComp2.v, the consumers P_C12 / P_C13 in RefComp3.v / RefComp4.v. *)
From stdpp Require Import relations sorting.
From hagall Require Import Model Spec Obs Preds.
From hagall.proofs Require Import BaseLemmas Relay Inv Session Local Trans WF Mono Reach PC02 PC06 PC07 Own
  Refine Refine2 Refine3 Refine5.
From Coq Require Import Lia.

(* ================= sorting by an injective key ================= *)
Section sort_by_key.
  Context {A : Type} (key : A → list Z).
  Definition kle (x y : A) : Prop := lex_leb (key x) (key y) = true.

  Global Instance kle_trans : Transitive kle.
  Proof. intros x y z. unfold kle. apply (lle_trans (key x) (key y) (key z)). Qed.

  Lemma insert_sorted_kle x l :
    Sorted kle l → Sorted kle (insert_sorted (λ a b, lex_leb (key a) (key b)) x l).
  Proof.
    induction l as [|y l IH]; intros Hl; simpl; [by repeat constructor|].
    destruct (lex_leb (key x) (key y)) eqn:E.
    - constructor; [done|by constructor].
    - apply lex_leb_total in E. inversion Hl as [|? ? Hl' Hhd]; subst. constructor; [by apply IH|].
      destruct l as [|z l]; simpl; [by constructor|].
      destruct (lex_leb (key x) (key z)); constructor; [done|]. by inversion Hhd.
  Qed.
  Lemma sort_by_Sorted l : Sorted kle (sort_by key l).
  Proof. unfold sort_by. induction l as [|x l IH]; simpl; [constructor|]. by apply insert_sorted_kle. Qed.

  Hypothesis key_inj : ∀ x y, key x = key y → x = y.

  Lemma kle_antisym : AntiSymm (=) kle.
  Proof. intros x y H1 H2. apply key_inj. by apply (lle_antisym (key x) (key y)). Qed.

  (* two sorted lists with the same elements are equal *)
  Lemma sorted_perm_eq l1 l2 : Sorted kle l1 → Sorted kle l2 → l1 ≡ₚ l2 → l1 = l2.
  Proof. intros H1 H2 H3. by apply (@Sorted_unique _ kle kle_trans kle_antisym). Qed.
  Lemma sort_by_perm_eq l1 l2 : l1 ≡ₚ l2 → sort_by key l1 = sort_by key l2.
  Proof. intros H. apply sorted_perm_eq; [apply sort_by_Sorted|apply sort_by_Sorted|]. by rewrite !sort_by_perm. Qed.
  Lemma sorted_is_sort_by l1 l2 : Sorted kle l1 → l1 ≡ₚ l2 → l1 = sort_by key l2.
  Proof. intros H1 H2. apply sorted_perm_eq; [done|apply sort_by_Sorted|]. by rewrite sort_by_perm. Qed.

  Lemma filter_Sorted_kle (f : A → bool) l : Sorted kle l → Sorted kle (List.filter f l).
  Proof.
    intros H. apply Sorted_StronglySorted in H; [|apply kle_trans]. apply StronglySorted_Sorted.
    induction H as [|x l Hl IH Hx]; simpl; [constructor|]. destruct (f x); [|done].
    constructor; [done|]. apply Forall_forall. intros y Hy. apply elem_of_list_In, filter_In in Hy as [Hy _].
    rewrite Forall_forall in Hx. apply Hx. by apply elem_of_list_In.
  Qed.
  (* a filtered canonical list is the canonical list of the filtered elements *)
  Lemma filter_sort_by (f : A → bool) l : List.filter f (sort_by key l) = sort_by key (List.filter f l).
  Proof.
    apply sorted_is_sort_by; [apply filter_Sorted_kle, sort_by_Sorted|].
    assert (Hp : ∀ l1 l2 : list A, l1 ≡ₚ l2 → List.filter f l1 ≡ₚ List.filter f l2).
    { induction 1 as [|x l1 l2 _ IH|x y l0|l1 l2 l3 _ IH1 _ IH2]; simpl; [done| | |by etrans].
      - destruct (f x); [by constructor|done].
      - destruct (f x), (f y); try done. apply Permutation_swap. }
    apply Hp, sort_by_perm.
  Qed.
End sort_by_key.

Lemma zn_inj a b : zn a = zn b → a = b.
Proof. unfold zn. lia. Qed.
Lemma eComp_inj x y : eComp x = eComp y → x = y.
Proof. destruct x, y. unfold eComp. simpl. intros [= H1%zn_inj H2%zn_inj H3%zn_inj]. by subst. Qed.
Lemma key2_inj (x y : N * N) : [zn x.1; zn x.2] = [zn y.1; zn y.2] → x = y.
Proof. destruct x, y. simpl. intros [= H1%zn_inj H2%zn_inj]. by subst. Qed.

(* ================= lists without duplicates ================= *)
Lemma NoDup_omap_inj {A B} (f : A → option B) l :
  NoDup l → (∀ x y b, x ∈ l → y ∈ l → f x = Some b → f y = Some b → x = y) → NoDup (omap f l).
Proof.
  induction 1 as [|x l Hx Hl IH]; intros Hinj; simpl; [constructor|].
  assert (IH' : NoDup (omap f l)). { apply IH. intros a b c Ha Hb. apply Hinj; by right. }
  destruct (f x) as [b|] eqn:E; [|done]. constructor; [|done].
  rewrite elem_of_list_omap. intros (y&Hy&Hfy). apply Hx.
  rewrite (Hinj x y b); [done|by left|by right|done|done].
Qed.
Lemma elem_of_flat_map {A B} (f : A → list B) l b : b ∈ flat_map f l ↔ ∃ x, x ∈ l ∧ b ∈ f x.
Proof.
  rewrite elem_of_list_In, in_flat_map. split; intros (x&H1&H2); exists x; by rewrite ?elem_of_list_In in *.
Qed.
Lemma NoDup_flat_map {A B} (f : A → list B) l :
  NoDup l → (∀ x, x ∈ l → NoDup (f x)) → (∀ x y b, x ∈ l → y ∈ l → b ∈ f x → b ∈ f y → x = y) →
  NoDup (flat_map f l).
Proof.
  induction 1 as [|x l Hx Hl IH]; intros Hnd Hinj; simpl; [constructor|].
  apply NoDup_app. split; [apply Hnd; by left|]. split.
  - intros b Hb Hb'. apply elem_of_flat_map in Hb' as (y&Hy&Hby). apply Hx.
    rewrite (Hinj x y b); [done|by left|by right|done|done].
  - apply IH; [intros; apply Hnd; by right|]. intros a b c Ha Hb. apply Hinj; by right.
Qed.

(* ================= the abstraction relation ================= *)
Record refines_comps (sp : spec) (st : state) : Prop := {
  (* the registry of component types: name -> id *)
  rc_types : ∀ sid name, sp_types sp !! (sid, name) = sessions st !! sid ≫= λ SS, st_ids (s_store SS) !! name;
  (* the components: (type, entity) -> data *)
  rc_comps : ∀ sid tid eid, sp_comps sp !! (sid, tid, eid) = sessions st !! sid ≫= λ SS, st_comps (s_store SS) !! (tid, eid);
  (* the subscriptions: type -> set of participants (exactly the same entries, empty sets included) *)
  rc_subs : ∀ sid tid, sp_subs sp !! (sid, tid) = sessions st !! sid ≫= λ SS, st_subs (s_store SS) !! tid
}.

Lemma refines_comps_state0 : refines_comps spec0 state0.
Proof. split; intros; simpl; by rewrite !lookup_empty. Qed.

Lemma refines_comps_same sp sp' st st' :
  sp_types sp' = sp_types sp → sp_comps sp' = sp_comps sp → sp_subs sp' = sp_subs sp →
  (∀ sid, s_store <$> sessions st' !! sid = s_store <$> sessions st !! sid) →
  refines_comps sp st → refines_comps sp' st'.
Proof.
  intros H1 H2 H3 H4 [R1 R2 R3].
  assert (Hb : ∀ {B} sid (f : store → option B),
    (sessions st' !! sid ≫= λ SS, f (s_store SS)) = (sessions st !! sid ≫= λ SS, f (s_store SS))).
  { intros B sid f. specialize (H4 sid). destruct (sessions st' !! sid), (sessions st !! sid); simpl in *; congruence. }
  split.
  - intros sid name. rewrite H1, R1. symmetry. apply (Hb _ sid (λ s, st_ids s !! name)).
  - intros sid tid eid. rewrite H2, R2. symmetry. apply (Hb _ sid (λ s, st_comps s !! (tid, eid))).
  - intros sid tid. rewrite H3, R3. symmetry. apply (Hb _ sid (λ s, st_subs s !! tid)).
Qed.

(* the relation restricted to one live session *)
Record store_abs (sp : spec) (sid : N) (s : store) : Prop := {
  sa_types : ∀ name, sp_types sp !! (sid, name) = st_ids s !! name;
  sa_comps : ∀ tid eid, sp_comps sp !! (sid, tid, eid) = st_comps s !! (tid, eid);
  sa_subs : ∀ tid, sp_subs sp !! (sid, tid) = st_subs s !! tid
}.
Lemma refines_comps_at sp st sid SS :
  refines_comps sp st → sessions st !! sid = Some SS → store_abs sp sid (s_store SS).
Proof. intros [R1 R2 R3] HS. split; intros; rewrite ?R1, ?R2, ?R3, HS; done. Qed.

(* ================= the canonical lists of Preds.v ================= *)
Definition comp_of (kv : (N * N) * N) : comp_pb := {| cp_tid := kv.1.1; cp_eid := kv.1.2; cp_data := kv.2 |}.

Lemma elem_of_store_list_all s x :
  x ∈ store_list_all s ↔ st_comps s !! (cp_tid x, cp_eid x) = Some (cp_data x).
Proof.
  unfold store_list_all, comp_list. rewrite elem_of_list_fmap. split.
  - intros ([[t e] d]&->&H). by apply elem_of_map_to_list in H.
  - intros H. exists ((cp_tid x, cp_eid x), cp_data x). split; [by destruct x|]. by apply elem_of_map_to_list.
Qed.
Lemma NoDup_comp_list (m : gmap (N * N) N) : NoDup (comp_list (map_to_list m)).
Proof.
  unfold comp_list. apply NoDup_fmap_2; [|apply NoDup_map_to_list].
  intros [[t1 e1] d1] [[t2 e2] d2]. simpl. by intros [= -> -> ->].
Qed.
Lemma NoDup_store_list_all s : NoDup (store_list_all s).
Proof. apply NoDup_comp_list. Qed.

Definition comp_items (sp : spec) (sid : N) : list comp_pb :=
  omap (λ kv : (N*N*N) * N, if fst (fst (fst kv)) =? sid
                             then Some {| cp_tid := snd (fst (fst kv)); cp_eid := snd (fst kv); cp_data := snd kv |}
                             else None) (map_to_list (sp_comps sp)).
Lemma spec_comps_items sp sid : spec_comps sp sid = sort_by eComp (comp_items sp sid).
Proof. reflexivity. Qed.
Lemma elem_of_comp_items sp sid x :
  x ∈ comp_items sp sid ↔ sp_comps sp !! (sid, cp_tid x, cp_eid x) = Some (cp_data x).
Proof.
  unfold comp_items. rewrite elem_of_list_omap. split.
  - intros ([[[s t] e] d]&Hin&Hf). simpl in Hf. apply elem_of_map_to_list in Hin.
    destruct (N.eqb_spec s sid) as [->|]; [|done]. by simplify_eq.
  - intros H. exists ((sid, cp_tid x, cp_eid x), cp_data x). split; [by apply elem_of_map_to_list|].
    simpl. rewrite N.eqb_refl. by destruct x.
Qed.
Lemma NoDup_comp_items sp sid : NoDup (comp_items sp sid).
Proof.
  unfold comp_items. apply NoDup_omap_inj; [apply NoDup_map_to_list|].
  intros [[[s1 t1] e1] d1] [[[s2 t2] e2] d2] b _ _. simpl.
  destruct (N.eqb_spec s1 sid) as [->|]; [|done]. destruct (N.eqb_spec s2 sid) as [->|]; [|done].
  by intros [= <-] [= -> -> ->].
Qed.
Lemma elem_of_spec_comps sp sid x :
  x ∈ spec_comps sp sid ↔ sp_comps sp !! (sid, cp_tid x, cp_eid x) = Some (cp_data x).
Proof. rewrite spec_comps_items, elem_of_sort_by. apply elem_of_comp_items. Qed.

Lemma spec_comps_store sp sid s :
  (∀ tid eid, sp_comps sp !! (sid, tid, eid) = st_comps s !! (tid, eid)) →
  spec_comps sp sid = sort_by eComp (store_list_all s).
Proof.
  intros H. rewrite spec_comps_items. apply (sort_by_perm_eq _ eComp_inj).
  apply NoDup_Permutation; [apply NoDup_comp_items|apply NoDup_store_list_all|].
  intros x. by rewrite elem_of_comp_items, elem_of_store_list_all, H.
Qed.
Lemma spec_comps_eq sp st sid SS :
  refines_comps sp st → sessions st !! sid = Some SS →
  spec_comps sp sid = sort_by eComp (store_list_all (s_store SS)).
Proof. intros R HS. apply spec_comps_store. apply (sa_comps _ _ _ (refines_comps_at _ _ _ _ R HS)). Qed.

(* the components of one type *)
Lemma elem_of_store_list tid s x :
  x ∈ store_list tid s ↔ cp_tid x = tid ∧ st_comps s !! (cp_tid x, cp_eid x) = Some (cp_data x).
Proof.
  unfold store_list, comp_list. rewrite elem_of_list_fmap. split.
  - intros ([[t e] d]&->&H). simpl. apply elem_of_map_to_list in H. by apply map_filter_lookup_Some in H as [H1 H2].
  - intros [H1 H2]. exists ((cp_tid x, cp_eid x), cp_data x). split; [by destruct x|].
    apply elem_of_map_to_list. by apply map_filter_lookup_Some.
Qed.
Lemma spec_comps_list sp sid s tid :
  (∀ t eid, sp_comps sp !! (sid, t, eid) = st_comps s !! (t, eid)) →
  sort_by eComp (store_list tid s) = List.filter (λ x, cp_tid x =? tid) (spec_comps sp sid).
Proof.
  intros H. rewrite spec_comps_items, (filter_sort_by _ eComp_inj). apply (sort_by_perm_eq _ eComp_inj).
  apply NoDup_Permutation; [apply NoDup_comp_list|apply NoDup_List_filter, NoDup_comp_items|].
  intros x. rewrite elem_of_store_list, elem_of_List_filter, elem_of_comp_items, H.
  destruct (N.eqb_spec (cp_tid x) tid); naive_solver.
Qed.

(* the type registry *)
Definition type_items (sp : spec) (sid : N) : list (N * N) :=
  omap (λ kv : (N*N) * N, if fst (fst kv) =? sid then Some (snd kv, snd (fst kv)) else None) (map_to_list (sp_types sp)).
Lemma spec_types_items sp sid : spec_types sp sid = sort_by (λ tn, [zn (fst tn); zn (snd tn)]) (type_items sp sid).
Proof. reflexivity. Qed.
Lemma elem_of_type_items sp sid t n : (t, n) ∈ type_items sp sid ↔ sp_types sp !! (sid, n) = Some t.
Proof.
  unfold type_items. rewrite elem_of_list_omap. split.
  - intros ([[s n'] t']&Hin&Hf). simpl in Hf. apply elem_of_map_to_list in Hin.
    destruct (N.eqb_spec s sid) as [->|]; [|done]. by simplify_eq.
  - intros H. exists ((sid, n), t). split; [by apply elem_of_map_to_list|]. simpl. by rewrite N.eqb_refl.
Qed.
Lemma NoDup_type_items sp sid : NoDup (type_items sp sid).
Proof.
  unfold type_items. apply NoDup_omap_inj; [apply NoDup_map_to_list|].
  intros [[s1 n1] t1] [[s2 n2] t2] b _ _. simpl.
  destruct (N.eqb_spec s1 sid) as [->|]; [|done]. destruct (N.eqb_spec s2 sid) as [->|]; [|done].
  by intros [= <-] [= -> ->].
Qed.
Lemma elem_of_spec_types sp sid t n : (t, n) ∈ spec_types sp sid ↔ sp_types sp !! (sid, n) = Some t.
Proof. rewrite spec_types_items, elem_of_sort_by. apply elem_of_type_items. Qed.
Lemma elem_of_spec_tids sp sid t : t ∈ spec_tids sp sid ↔ ∃ n, sp_types sp !! (sid, n) = Some t.
Proof.
  unfold spec_tids. rewrite elem_of_list_fmap. split.
  - intros ([t' n]&->&H). exists n. by apply elem_of_spec_types.
  - intros (n&H). exists (t, n). split; [done|]. by apply elem_of_spec_types.
Qed.

(* names <-> ids one to one: the part of [wf] used here *)
Definition types_bij (s : store) : Prop := ∀ t n, st_names s !! t = Some n ↔ st_ids s !! n = Some t.

Lemma spec_types_store sp sid s :
  types_bij s → (∀ name, sp_types sp !! (sid, name) = st_ids s !! name) →
  spec_types sp sid = sort_by (λ tn, [zn (fst tn); zn (snd tn)]) (map_to_list (st_names s)).
Proof.
  intros Hb H. rewrite spec_types_items. apply (sort_by_perm_eq _ key2_inj).
  apply NoDup_Permutation; [apply NoDup_type_items|apply NoDup_map_to_list|].
  intros [t n]. rewrite elem_of_type_items, elem_of_map_to_list, H. symmetry. apply Hb.
Qed.
Lemma spec_tids_store sp sid s t :
  types_bij s → (∀ name, sp_types sp !! (sid, name) = st_ids s !! name) →
  t ∈ spec_tids sp sid ↔ is_Some (st_names s !! t).
Proof.
  intros Hb H. rewrite elem_of_spec_tids. split.
  - intros (n&Hn). rewrite H in Hn. apply Hb in Hn. eauto.
  - intros [n Hn]. exists n. rewrite H. by apply Hb.
Qed.
Lemma memN_spec_tids sp sid s t :
  types_bij s → (∀ name, sp_types sp !! (sid, name) = st_ids s !! name) →
  memN t (spec_tids sp sid) = is_Some_b (st_names s !! t).
Proof.
  intros Hb H. pose proof (spec_tids_store sp sid s t Hb H) as Hx. rewrite <- memN_elem in Hx.
  destruct (memN t (spec_tids sp sid)), (st_names s !! t) as [n|]; simpl; try done.
  - by destruct (proj1 Hx eq_refl).
  - exfalso. assert (false = true) as Hf by (apply Hx; eauto). discriminate Hf.
Qed.

Lemma spec_types_eq cfg k sp st sid SS :
  refines_comps sp st → sessions st !! sid = Some SS → wf cfg k SS →
  spec_types sp sid = sort_by (λ tn, [zn (fst tn); zn (snd tn)]) (map_to_list (st_names (s_store SS))).
Proof.
  intros R HS W. apply spec_types_store; [exact (wf_types _ _ _ W)|].
  apply (sa_types _ _ _ (refines_comps_at _ _ _ _ R HS)).
Qed.
Lemma spec_tids_iff cfg k sp st sid SS tid :
  refines_comps sp st → sessions st !! sid = Some SS → wf cfg k SS →
  tid ∈ spec_tids sp sid ↔ is_Some (st_names (s_store SS) !! tid).
Proof.
  intros R HS W. apply spec_tids_store; [exact (wf_types _ _ _ W)|].
  apply (sa_types _ _ _ (refines_comps_at _ _ _ _ R HS)).
Qed.

(* the subscriptions *)
Definition sub_pairs {K} (k : K) (S : gset N) : list (K * N) := map (λ p, (k, p)) (elements S).
Definition sub_items (sp : spec) (sid : N) : list (N * N) :=
  flat_map (λ kv : (N*N) * gset N, if fst (fst kv) =? sid then map (λ p, (snd (fst kv), p)) (elements (snd kv)) else [])
           (map_to_list (sp_subs sp)).
Definition store_sub_items (s : store) : list (N * N) :=
  flat_map (λ ts : N * gset N, map (λ p, (fst ts, p)) (elements (snd ts))) (map_to_list (st_subs s)).
Lemma spec_subs_items sp sid : spec_subs sp sid = sort_by (λ tp, [zn (fst tp); zn (snd tp)]) (sub_items sp sid).
Proof. reflexivity. Qed.
Lemma d_subs_items sid SS : d_subs (dump_session sid SS) = store_sub_items (s_store SS).
Proof. reflexivity. Qed.

Lemma elem_of_sub_items sp sid t p : (t, p) ∈ sub_items sp sid ↔ ∃ S, sp_subs sp !! (sid, t) = Some S ∧ p ∈ S.
Proof.
  unfold sub_items. rewrite elem_of_flat_map. split.
  - intros ([[s t'] S]&Hin&Hx). simpl in Hx. apply elem_of_map_to_list in Hin.
    destruct (N.eqb_spec s sid) as [->|]; [|by apply elem_of_nil in Hx].
    apply elem_of_list_fmap in Hx as (q&[= -> ->]&Hq). exists S. split; [done|]. by apply elem_of_elements.
  - intros (S&H&Hp). exists ((sid, t), S). split; [by apply elem_of_map_to_list|]. simpl. rewrite N.eqb_refl.
    apply elem_of_list_fmap. exists p. split; [done|]. by apply elem_of_elements.
Qed.
Lemma NoDup_sub_items sp sid : NoDup (sub_items sp sid).
Proof.
  unfold sub_items. apply NoDup_flat_map; [apply NoDup_map_to_list| |].
  - intros [[s t] S] _. simpl. destruct (s =? sid); [|constructor].
    apply NoDup_fmap_2; [by intros ? ? [= ->]|apply NoDup_elements].
  - intros [[s1 t1] S1] [[s2 t2] S2] b H1 H2. simpl.
    destruct (N.eqb_spec s1 sid) as [->|]; [|by intros ?%elem_of_nil].
    destruct (N.eqb_spec s2 sid) as [->|]; [|by intros _ ?%elem_of_nil].
    intros (q1&->&_)%elem_of_list_fmap (q2&[= -> ->]&_)%elem_of_list_fmap.
    apply elem_of_map_to_list in H1, H2. by simplify_eq.
Qed.
Lemma elem_of_store_sub_items s t p : (t, p) ∈ store_sub_items s ↔ ∃ S, st_subs s !! t = Some S ∧ p ∈ S.
Proof.
  unfold store_sub_items. rewrite elem_of_flat_map. split.
  - intros ([t' S]&Hin&Hx). simpl in Hx. apply elem_of_map_to_list in Hin.
    apply elem_of_list_fmap in Hx as (q&[= -> ->]&Hq). exists S. split; [done|]. by apply elem_of_elements.
  - intros (S&H&Hp). exists (t, S). split; [by apply elem_of_map_to_list|]. simpl.
    apply elem_of_list_fmap. exists p. split; [done|]. by apply elem_of_elements.
Qed.
Lemma NoDup_store_sub_items s : NoDup (store_sub_items s).
Proof.
  unfold store_sub_items. apply NoDup_flat_map; [apply NoDup_map_to_list| |].
  - intros [t S] _. simpl. apply NoDup_fmap_2; [by intros ? ? [= ->]|apply NoDup_elements].
  - intros [t1 S1] [t2 S2] b H1 H2. simpl.
    intros (q1&->&_)%elem_of_list_fmap (q2&[= -> ->]&_)%elem_of_list_fmap.
    apply elem_of_map_to_list in H1, H2. by simplify_eq.
Qed.
Lemma spec_subs_store sp sid s :
  (∀ tid, sp_subs sp !! (sid, tid) = st_subs s !! tid) →
  spec_subs sp sid = sort_by (λ tp, [zn (fst tp); zn (snd tp)]) (store_sub_items s).
Proof.
  intros H. rewrite spec_subs_items. apply (sort_by_perm_eq _ key2_inj).
  apply NoDup_Permutation; [apply NoDup_sub_items|apply NoDup_store_sub_items|].
  intros [t p]. rewrite elem_of_sub_items, elem_of_store_sub_items. by setoid_rewrite H.
Qed.
Lemma spec_subs_eq sp st sid SS :
  refines_comps sp st → sessions st !! sid = Some SS →
  spec_subs sp sid = sort_by (λ tp, [zn (fst tp); zn (snd tp)])
    (flat_map (λ ts : N * gset N, map (λ p, (fst ts, p)) (elements (snd ts))) (map_to_list (st_subs (s_store SS)))).
Proof. intros R HS. apply spec_subs_store. apply (sa_subs _ _ _ (refines_comps_at _ _ _ _ R HS)). Qed.

Lemma subs_at_store sp sid s tid :
  (∀ t, sp_subs sp !! (sid, t) = st_subs s !! t) → subs_at sp sid tid = subs_of s tid.
Proof. intros H. unfold subs_at, subs_of. by rewrite H. Qed.

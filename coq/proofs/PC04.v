(* proofs/PC04.v — every request is answered exactly once, to the requester only, with the success response
   of its kind or an error; a refusal changes nothing; an unjoined sender is never executed (C04). *)
From stdpp Require Import relations.
From hagall Require Import Model Preds2.
From hagall.proofs Require Import BaseLemmas Relay Inv Session Local Trans WF Mono Reach.
From Coq Require Import Lia.

Definition carries (rid : N) (d : delivery) : bool := bool_decide (msg_rid (snd d) = Some rid).
Definition answers (rid : N) (outs : list delivery) : list delivery := List.filter (carries rid) outs.

Lemma answers_all_none rid (l : list delivery) : (∀ d, d ∈ l → msg_rid (snd d) = None) → answers rid l = [].
Proof.
  induction l as [|d l IH]; intros H; [done|]. unfold answers. simpl. unfold carries at 1.
  rewrite (H d) by (by left). rewrite bool_decide_eq_false_2 by done. apply IH. intros d' Hd'. apply H. by right.
Qed.
Lemma answers_broadcast rid SS p m : msg_rid m = None → answers rid (broadcast SS p m) = [].
Proof. intros H. apply answers_all_none. intros [c m'] Hd. by apply broadcast_spec in Hd as [-> _]. Qed.
Lemma answers_broadcast_to rid SS p ids m : msg_rid m = None → answers rid (broadcast_to SS p ids m) = [].
Proof. intros H. apply answers_all_none. intros [c m'] Hd. by apply broadcast_to_spec in Hd as [-> _]. Qed.
Lemma answers_app rid l1 l2 : answers rid (l1 ++ l2) = answers rid l1 ++ answers rid l2.
Proof. unfold answers. apply List.filter_app. Qed.

Lemma answers_cons_yes rid c a l : msg_rid a = Some rid → answers rid ((c, a) :: l) = (c, a) :: answers rid l.
Proof. intros H. unfold answers. simpl. unfold carries at 1. simpl. by rewrite bool_decide_eq_true_2. Qed.
Lemma answers_nil rid : answers rid [] = [].
Proof. done. Qed.
Global Arguments answers : simpl never.

(* is this request kind served in this configuration? *)
Definition served (cfg : config) (r : req) : bool :=
  match r with
  | RAction _ _ _ => cfg_vikja cfg | RAssetAdd _ _ _ _ => cfg_odal cfg | _ => true
  end.

Ltac ans_simpl :=
  repeat first [ rewrite answers_app | rewrite answers_cons_yes by done | rewrite answers_broadcast by done
               | rewrite answers_broadcast_to by done | rewrite answers_nil | rewrite app_nil_r | rewrite app_nil_l ].

Theorem answered_exactly_once cfg c p own SS r rid :
  session_local r = true → req_rid r = Some rid → served cfg r = true →
  ∃ a, answers rid (sstep cfg c p own SS r).2 = [(c, a)] ∧
       (success_for r a = true ∨ ∃ code, a = MError rid code).
Proof.
  intros Hl Hr Hs. destruct r; try discriminate Hl; try discriminate Hr; simpl in Hr, Hs; simplify_eq; simpl.
  all: repeat case_match; simplify_eq; simpl; ans_simpl;
       try (exfalso; match goal with H : negb _ = true |- _ => rewrite Hs in H; discriminate H end);
       eexists; (split; [reflexivity|]); ((by left) || (right; by eexists)).
Qed.

(* a refusal changes nothing *)
Lemma cleanup_modules_id cfg k eid SS : wf cfg k SS → s_ents SS !! eid = None → cleanup_modules cfg eid SS = SS.
Proof.
  intros [_ _ _ _ _ _ _ W8 W9 _ W11 W12] He. unfold cleanup_modules. rewrite He.
  assert (HA : filter (λ kv : N * N * action, kv.1.1 ≠ eid) (s_actions SS) = s_actions SS).
  { apply map_filter_id. intros [e n] a H. simpl. intros ->. destruct (W8 _ _ _ H) as (_&_&_&_&[? Hx]). congruence. }
  assert (HB : delete eid (s_assets SS) = s_assets SS).
  { apply delete_notin. destruct (s_assets SS !! eid) as [a|] eqn:E; [|done]. destruct (W9 _ _ E) as (_&_&?&Hx&_). congruence. }
  destruct SS. simpl in *. destruct (cfg_vikja cfg), (cfg_odal cfg); unfold set_actions, set_assets; simpl; rewrite ?HA, ?HB; done.
Qed.

Theorem refusal_changes_nothing cfg k c p own SS r rid code :
  wf cfg k SS → parts_injective SS → s_parts SS !! p = Some c → session_local r = true →
  (c, MError rid code) ∈ (sstep cfg c p own SS r).2 →
  sstep cfg c p own SS r = (SS, own, [(c, MError rid code)]).
Proof.
  intros W Hi Hp Hl Hin. destruct r; try discriminate Hl; simpl in *.
  all: repeat case_match; simplify_eq; simpl in *.
  all: try (rewrite (cleanup_modules_id cfg k _ SS W) by done).
  all: repeat match goal with
       | H : _ ∈ [] |- _ => inversion H
       | H : _ ∈ [_] |- _ => apply elem_of_list_singleton in H; simplify_eq
       | H : _ ∈ _ :: _ |- _ => apply elem_of_cons in H as [H|H]; simplify_eq
       | H : _ ∈ _ ++ _ |- _ => apply elem_of_app in H as [H|H]
       | H : _ ∈ broadcast _ _ _ |- _ => apply broadcast_spec in H as [? _]; simplify_eq
       | H : _ ∈ broadcast_to _ _ _ _ |- _ => apply broadcast_to_spec in H as [? _]; simplify_eq
       end; try done.
Qed.

(* a request that needs a session, from a connection that is in none, is never executed *)
Theorem unjoined_never_executed cfg st c cn r hint :
  needs_session r = true →
  (handle_unjoined cfg st c cn r hint).1.1 = st ∧
  ∀ d, d ∈ (handle_unjoined cfg st c cn r hint).1.2 → fst d = c ∧ is_error_msg (snd d) = true.
Proof.
  intros Hn. destruct r; try discriminate Hn; simpl; repeat case_match; simpl; split; try done.
  all: intros d Hd; repeat (apply elem_of_cons in Hd as [->|Hd]); try done; by inversion Hd.
Qed.

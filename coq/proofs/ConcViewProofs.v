(* ConcViewProofs.v — the concurrent clause of C01 / C02 on the interleaving model of ConcView.v.

   Refutations: one witness schedule per confirmed finding, evaluated by vm_compute.  Every schedule below is stored
   under corpus/C01conc/ and replayed on the real handlers by checks/c01conc.py, which also checks that the model
   and the real execution agree step by step under that schedule (model_tie).

   Positive results: [explore] is a depth-first search of the model's own transition system; [explore_sound] turns
   its verdict into a statement about EVERY schedule (any number of preemptions). *)
From hagall Require Import ConcView.

(* ---------- schedules and the search ---------- *)
Lemma mrun_nil s : mrun s [] = s.
Proof. reflexivity. Qed.
Lemma mrun_cons s c r : mrun s (c :: r) = mrun (fst (mstep s c)) r.
Proof. reflexivity. Qed.

Lemma mrun_tr_fst s sched : fst (mrun_tr s sched) = mrun s sched.
Proof.
  unfold mrun_tr, mrun.
  generalize (@nil (N * N)) as tr. revert s.
  induction sched as [| c r IH]; intros s tr; simpl; [reflexivity |].
  destruct (mstep s c) as [s' t] eqn:E. simpl. apply IH.
Qed.

Lemma step_thr_inactive c ts s :
  c ∉ omap (λ t, match t_prog t with [] => None | _ => Some (t_conn t) end) ts → step_thr c ts s = None.
Proof.
  induction ts as [| t r IH]; intros Hc; simpl; [reflexivity |].
  destruct (t_conn t =? c) eqn:E.
  - destruct (t_prog t) as [| i p] eqn:Ep; [reflexivity |].
    exfalso. apply Hc. simpl. rewrite Ep. apply N.eqb_eq in E. rewrite E. left.
  - rewrite IH; [reflexivity |].
    intros Hin. apply Hc. simpl. destruct (t_prog t); [exact Hin | right; exact Hin].
Qed.

Lemma mstep_inactive s c : c ∉ active s → mstep s c = (s, []).
Proof. intros H. unfold mstep. rewrite (step_thr_inactive c (m_thr s) s H). reflexivity. Qed.

Lemma all_done_active s : all_done s = true → active s = [].
Proof. unfold all_done. intros H. apply bool_decide_eq_true in H. exact H. Qed.

Lemma explore_sound chk sched : ∀ fuel s,
  explore chk fuel s = true → all_done (mrun s sched) = true → chk (mrun s sched) = true.
Proof.
  induction sched as [| c r IH]; intros fuel s He Hd.
  - rewrite mrun_nil in *. apply all_done_active in Hd.
    destruct fuel as [| f]; simpl in He; [discriminate |].
    rewrite Hd in He. exact He.
  - rewrite mrun_cons in *.
    destruct (decide (c ∈ active s)) as [Hin | Hout].
    + destruct fuel as [| f]; simpl in He; [discriminate |].
      destruct (active s) as [| a l] eqn:Ea; [inversion Hin |].
      assert (Hall : forallb (λ c, explore chk f (fst (mstep s c))) (a :: l) = true) by exact He.
      rewrite forallb_forall in Hall.
      apply (IH f); [| exact Hd].
      apply Hall. apply elem_of_list_In. exact Hin.
    + rewrite (mstep_inactive s c Hout) in *. simpl in *. apply (IH fuel); assumption.
Qed.

(* ---------- the witness schedules (thread per critical section, as printed by harness/l3v) ---------- *)
Definition w_join_delete : list N := [1;1;1;2;2;2;2;2;2;2;2;2;1;1;1;1;1;1;2;2;2;2;2;2].
Definition w_join_add : list N := [1;1;1;2;2;2;2;2;2;2;2;2;1;1;1;2;2;2;2;2;2].
Definition w_join_delete_modules : list N := [1;1;1;1;1;1;2;2;2;2;2;2;2;2;2;2;2;2;2;2;1;1;1].
Definition w_two_updates : list N := [1;1;1;1;2;2;2;2;2;1].
Definition w_two_actions : list N := [1;1;1;1;2;2;2;2;2;1].
Definition w_delete_compadd : list N := [1;1;1;2;2;2;2;2;1;1;1;1;1;1].
Definition w_delete_action_lenient : list N := [1;1;1;2;2;2;1;1;1;1;1;1;2;2].
Definition w_delete_action_strict : list N := [1;1;1;2;2;2;2;1;1;1;1;1;1;2].

Definition codes (l : list violation) : list (Z * list Z) := map (λ v, (v_code v, v_info v)) l.

(* K2: the joiner is a participant before its snapshot is read (three critical sections) and sent: the owner's
   EntityDeleteBroadcast reaches it BEFORE the SessionState that still lists the entity.  Strict client only. *)
Lemma refuted_join_entity_delete :
  all_done (mrun sc_join_delete w_join_delete) = true ∧
  codes (mviews false sc_join_delete w_join_delete) = [(102%Z, [2%Z; 1%Z])] ∧
  mviews true sc_join_delete w_join_delete = [] ∧ mrelay sc_join_delete w_join_delete = [].
Proof. vm_compute. repeat split; reflexivity. Qed.

(* K2, the mirror image: the snapshot is read before AddEntity, the EntityAddBroadcast arrives before it is sent *)
Lemma refuted_join_entity_add :
  all_done (mrun sc_join_add w_join_add) = true ∧
  codes (mviews false sc_join_add w_join_add) = [(102%Z, [2%Z; 1%Z])] ∧
  mviews true sc_join_add w_join_add = [] ∧ mrelay sc_join_add w_join_add = [].
Proof. vm_compute. repeat split; reflexivity. Qed.

(* K2m: the entity is removed and its deletion broadcast by the handler, its action and asset only afterwards by the
   modules: a joiner that becomes a participant after the broadcast and is handed VikjaState / OdalState before the
   modules have cleaned up holds an action and an asset of an entity that does not exist, under either client *)
Lemma refuted_join_stale_module_state :
  all_done (mrun sc_join_delete_modules w_join_delete_modules) = true ∧
  codes (mviews false sc_join_delete_modules w_join_delete_modules) = [(104%Z, [2%Z; 1%Z]); (107%Z, [2%Z; 1%Z])] ∧
  codes (mviews true sc_join_delete_modules w_join_delete_modules) = [(104%Z, [2%Z; 1%Z]); (107%Z, [2%Z; 1%Z])] ∧
  mrelay sc_join_delete_modules w_join_delete_modules = [].
Proof. vm_compute. repeat split; reflexivity. Qed.

(* K3: Update then Notify/BroadcastTo is not atomic: the last writer (connection 2) is relayed first, the first
   writer last: connections 2 and 3 end with the first writer's data, the server with the last writer's *)
Lemma refuted_two_component_updates :
  all_done (mrun sc_two_updates w_two_updates) = true ∧
  codes (mviews false sc_two_updates w_two_updates) = [(103%Z, [2%Z; 1%Z]); (103%Z, [3%Z; 1%Z])] ∧
  codes (mviews true sc_two_updates w_two_updates) = [(103%Z, [2%Z; 1%Z]); (103%Z, [3%Z; 1%Z])] ∧
  mrelay sc_two_updates w_two_updates = [].
Proof. vm_compute. repeat split; reflexivity. Qed.

Lemma refuted_two_actions_equal_ts :
  all_done (mrun (sc_two_actions 100) w_two_actions) = true ∧
  codes (mviews false (sc_two_actions 100) w_two_actions) = [(104%Z, [2%Z; 1%Z]); (104%Z, [3%Z; 1%Z])] ∧
  codes (mviews true (sc_two_actions 100) w_two_actions) = [(104%Z, [2%Z; 1%Z]); (104%Z, [3%Z; 1%Z])] ∧
  mrelay (sc_two_actions 100) w_two_actions = [].
Proof. vm_compute. repeat split; reflexivity. Qed.

Lemma refuted_two_actions_different_ts :
  all_done (mrun (sc_two_actions 200) w_two_actions) = true ∧
  codes (mviews false (sc_two_actions 200) w_two_actions) = [(104%Z, [2%Z; 1%Z]); (104%Z, [3%Z; 1%Z])] ∧
  codes (mviews true (sc_two_actions 200) w_two_actions) = [(104%Z, [2%Z; 1%Z]); (104%Z, [3%Z; 1%Z])] ∧
  mrelay (sc_two_actions 200) w_two_actions = [].
Proof. vm_compute. repeat split; reflexivity. Qed.

(* K4: EntityByID ... Add is check-then-act: the component is added after DeleteByEntityID has cleaned the store;
   the server keeps a component of an entity that no longer exists, every view has dropped it *)
Lemma refuted_delete_vs_component_add :
  all_done (mrun sc_delete_compadd w_delete_compadd) = true ∧
  codes (mviews false sc_delete_compadd w_delete_compadd) = [(103%Z, [1%Z; 1%Z]); (103%Z, [2%Z; 1%Z]); (103%Z, [3%Z; 1%Z])] ∧
  codes (mviews true sc_delete_compadd w_delete_compadd) = [(103%Z, [1%Z; 1%Z]); (103%Z, [2%Z; 1%Z]); (103%Z, [3%Z; 1%Z])] ∧
  codes (orphans [mdump (mrun sc_delete_compadd w_delete_compadd)]) = [(120%Z, [1%Z; 1%Z; 1%Z])].
Proof. vm_compute. repeat split; reflexivity. Qed.

(* K4 with vikja: the action is set after RemoveEntityActions: the server keeps an action of a deleted entity, which
   a client that drops broadcasts about unknown entities does not hold ... *)
Lemma refuted_delete_vs_action_orphan :
  all_done (mrun sc_delete_action w_delete_action_lenient) = true ∧
  mviews false sc_delete_action w_delete_action_lenient = [] ∧
  codes (mviews true sc_delete_action w_delete_action_lenient) = [(104%Z, [1%Z; 1%Z]); (104%Z, [3%Z; 1%Z])] ∧
  codes (orphans [mdump (mrun sc_delete_action w_delete_action_lenient)]) = [(120%Z, [1%Z; 2%Z; 1%Z])].
Proof. vm_compute. repeat split; reflexivity. Qed.
(* ... and when it is set before RemoveEntityActions but relayed after the EntityDeleteBroadcast, the server holds
   nothing and a client that applies every broadcast holds the action *)
Lemma refuted_delete_vs_action_late_relay :
  all_done (mrun sc_delete_action w_delete_action_strict) = true ∧
  codes (mviews false sc_delete_action w_delete_action_strict) = [(104%Z, [1%Z; 1%Z]); (104%Z, [3%Z; 1%Z])] ∧
  mviews true sc_delete_action w_delete_action_strict = [] ∧
  orphans [mdump (mrun sc_delete_action w_delete_action_strict)] = [].
Proof. vm_compute. repeat split; reflexivity. Qed.

(* ---------- positive: every schedule ---------- *)
Definition ok_both (s0 s : mstate) : bool := views_ok true s0 s && relay_ok s0 s.

Lemma explored_join_add : explore (ok_both sc_join_add) 40 sc_join_add = true.
Proof. vm_cast_no_check (eq_refl true). Qed.   (* 54264 complete schedules; evaluated once, by the kernel's VM, at Qed *)
Lemma explored_relay_two_updates : explore (relay_ok sc_two_updates) 40 sc_two_updates = true.
Proof. vm_compute. reflexivity. Qed.
Lemma explored_relay_two_actions_eq : explore (relay_ok (sc_two_actions 100)) 40 (sc_two_actions 100) = true.
Proof. vm_compute. reflexivity. Qed.
Lemma explored_relay_two_actions_ne : explore (relay_ok (sc_two_actions 200)) 40 (sc_two_actions 200) = true.
Proof. vm_compute. reflexivity. Qed.
Lemma explored_relay_delete_compadd : explore (relay_ok sc_delete_compadd) 40 sc_delete_compadd = true.
Proof. vm_compute. reflexivity. Qed.
Lemma explored_relay_delete_action : explore (relay_ok sc_delete_action) 40 sc_delete_action = true.
Proof. vm_compute. reflexivity. Qed.

(* join against an entity add: under the lenient client the views converge on every schedule, and the add is
   relayed exactly once to the member that watches *)
Lemma join_entity_add_lenient sched :
  all_done (mrun sc_join_add sched) = true → mviews true sc_join_add sched = [] ∧ mrelay sc_join_add sched = [].
Proof.
  intros Hd. pose proof (explore_sound _ sched _ _ explored_join_add Hd) as H.
  unfold ok_both, views_ok, relay_ok in H. apply andb_true_iff in H as [H1 H2].
  apply bool_decide_eq_true in H1. apply bool_decide_eq_true in H2. split; assumption.
Qed.

Lemma relay_once_of s0 sched : explore (relay_ok s0) 40 s0 = true → all_done (mrun s0 sched) = true → mrelay s0 sched = [].
Proof.
  intros He Hd. pose proof (explore_sound _ sched _ _ He Hd) as H.
  unfold relay_ok in H. apply bool_decide_eq_true in H. exact H.
Qed.

(* C02 in the races whose views diverge: every accepted change is still relayed exactly once to every member it is owed to *)
Lemma relayed_once_in_the_races sched :
  (all_done (mrun sc_two_updates sched) = true → mrelay sc_two_updates sched = []) ∧
  (all_done (mrun (sc_two_actions 100) sched) = true → mrelay (sc_two_actions 100) sched = []) ∧
  (all_done (mrun (sc_two_actions 200) sched) = true → mrelay (sc_two_actions 200) sched = []) ∧
  (all_done (mrun sc_delete_compadd sched) = true → mrelay sc_delete_compadd sched = []) ∧
  (all_done (mrun sc_delete_action sched) = true → mrelay sc_delete_action sched = []).
Proof.
  repeat split; intros Hd.
  - exact (relay_once_of _ _ explored_relay_two_updates Hd).
  - exact (relay_once_of _ _ explored_relay_two_actions_eq Hd).
  - exact (relay_once_of _ _ explored_relay_two_actions_ne Hd).
  - exact (relay_once_of _ _ explored_relay_delete_compadd Hd).
  - exact (relay_once_of _ _ explored_relay_delete_action Hd).
Qed.

(* proofs/RefFin3b.v — the model's own traces pass P_C04 on every history: part 2.
   The observer state of P_C04 (last hook snapshot, "only refusals since") against the model state (clause 410:
   a refusal changes nothing), the step lemma (all clauses 401-410, 499) and the induction over histories.
   The per-request lemmas are in proofs/RefFin3.v. *)
From stdpp Require Import relations sorting.
From hagall Require Import Model Spec Obs Preds Preds2.
From hagall.proofs Require Import BaseLemmas Relay Inv Session Local Trans WF Mono Reach PC02 PC04 PC06 PC07 Own
  Refine Refine2 Refine3 Refine4 Refine5 RefComp RefComp2 RefComp3 RefMod RefMod2 RefMod3 RefMod4 RefMod5 RefFin RefFin3.
From Coq Require Import Lia.

(* ================= the observer state against the model state ================= *)
Definition sdumps (st : state) : list sdump :=
  map (λ kv : N * session, dump_session (fst kv) (snd kv)) (map_to_list (sessions st)).

(* while only refusals (and read-only requests) happened since the last hook snapshot, the sessions are as dumped *)
Definition c04_inv (s : c04st) (st : state) : Prop :=
  ∀ snap, q_snap s = Some snap → q_clean s = true → snap = enc_dumps (sdumps st).

Lemma c04_inv_sessions s st st' : sessions st' = sessions st → c04_inv s st → c04_inv s st'.
Proof. intros E H snap H1 H2. unfold sdumps. rewrite E. by apply H. Qed.
Lemma c04_inv_dirty x st : c04_inv {| q_snap := x; q_clean := false |} st.
Proof. intros snap _ H. discriminate H. Qed.
Lemma c04_inv_init st : c04_inv {| q_snap := None; q_clean := false |} st.
Proof. apply c04_inv_dirty. Qed.

(* ================= the shape of a main-loop step ================= *)
Lemma step_shape cfg st c hint :
  (consumed st (OStep c hint) = None ∧ step cfg st (OStep c hint) = (st, [], VSkip)) ∨
  (∃ cn r q st1 o1 v, conns st !! c = Some cn ∧ c_open cn = true ∧ c_queue cn = r :: q ∧
     consumed st (OStep c hint) = Some r ∧
     handle cfg (upd_conn c (set_queue q) st) c r hint = (st1, o1, v) ∧
     step cfg st (OStep c hint) =
       match v with
       | VErr => ((disconnect cfg st1 c).1, o1 ++ (disconnect cfg st1 c).2, VErr)
       | _ => (st1, o1, v)
       end).
Proof.
  cbn [consumed step]. destruct (conns st !! c) as [cn|] eqn:Hc; [|by left].
  destruct (c_open cn) eqn:Ho; [|by left]. cbn [negb].
  destruct (c_queue cn) as [|r q] eqn:Hq; [by left|]. cbn [head]. right.
  destruct (handle cfg (upd_conn c (set_queue q) st) c r hint) as [[st1 o1] v] eqn:Eh.
  exists cn, r, q, st1, o1, v. repeat (split; [done|]).
  destruct v; try done. by destruct (disconnect cfg st1 c).
Qed.

Lemma dispatch_sessions cfg st c r :
  (dispatch cfg st c r).2 ≠ VErr → sessions (dispatch cfg st c r).1.1 = sessions st.
Proof.
  unfold dispatch. destruct (conns st !! c) as [cn|]; [|done]. destruct (c_open cn); [|done]. cbn [negb].
  destruct r; try done. destruct (ty =? 14); [|done]. by destruct (disconnect cfg st c).
Qed.

Lemma handle_unjoined_sessions cfg st c cn r hint st' o v :
  is_join r = false → handle_unjoined cfg st c cn r hint = (st', o, v) →
  sessions st' = sessions st ∧ (v = VErr → st' = st) ∧ v ≠ VPanic ∧ v ≠ VSkip.
Proof.
  intros Hj H. destruct r; try discriminate Hj; simpl in H.
  all: repeat match type of H with context [if ?b then _ else _] => destruct b eqn:? end; by injection H as <- <- <-.
Qed.

Lemma spec_step_nonmember sp c hint r outs v :
  is_join r = false → sp_mem sp !! c = None → v ≠ VPanic →
  sp_mem (spec_step sp {| ev_op := OStep c hint; ev_req := Some r; ev_outs := outs; ev_verdict := v |}) !! c = None.
Proof.
  intros Hj Hm Hv. unfold spec_step. cbn [ev_op ev_verdict ev_req ev_outs].
  destruct v; try done; try apply depart_mem_none.
  all: destruct r; try discriminate Hj; by rewrite Hm.
Qed.

Lemma first_snapshot st :
  first_to 0 [(0, snapshot st)] (λ m, match m with MSnap ss _ _ => Some (enc_dumps ss) | _ => None end) =
  Some (enc_dumps (sdumps st)).
Proof. reflexivity. Qed.

Lemma answers_app_silent rd l1 l2 : silent l2 → answers rd (l1 ++ l2) = answers rd l1.
Proof. intros H. by rewrite answers_app, (silent_answers rd l2 H), app_nil_r. Qed.

(* ================= one step ================= *)
Lemma c04_step_ok cfg st o k kw sp i s :
  inv st → bounded k st → k + 1 < two32 → allref cfg kw sp st → c04_inv s st →
  let e := ev_of st o (step cfg st o) in
  (P_C04_event cfg i sp (spec_step sp e) s e).2 = [] ∧
  c04_inv (P_C04_event cfg i sp (spec_step sp e) s e).1 (step cfg st o).1.1.
Proof.
  intros I B Hk A Q e. pose proof A as [[_ G O Wf R E D] RC].
  pose proof (step_bad_msgs cfg st o k sp i 400 I B Hk G R) as Hbad. fold e in Hbad.
  destruct o as [c|c r|c hint|sid|c|].
  - (* connect *)
    split; [done|]. change (P_C04_event cfg i sp (spec_step sp e) s e).1 with s.
    apply (c04_inv_sessions s st); [|done]. cbn [step]. by destruct (conns st !! c).
  - (* send *)
    split; [done|]. unfold P_C04_event. cbn [e ev_of ev_op ev_verdict step fst snd].
    pose proof (dispatch_sessions cfg st c r) as Hd.
    destruct ((dispatch cfg st c r).2) eqn:Ev; try apply c04_inv_dirty; apply (c04_inv_sessions s st); try done; by apply Hd.
  - (* main-loop step *)
    destruct (step_shape cfg st c hint) as [[Hcons Es]|(cn&r&q&st1&o1&v&Hc&Ho&Hq&Hcons&Eh&Es)].
    { unfold e, ev_of. rewrite Es, Hcons. split; [done|]. exact Q. }
    set (st0 := upd_conn c (set_queue q) st) in *.
    assert (Hs0 : same_mem st st0) by (apply same_mem_upd_conn; by intros []).
    assert (I0 : inv st0) by by eapply inv_same_mem.
    assert (R0 : refines_mem sp st0) by (eapply refines_same; [apply same_all_upd_conn; by intros []|exact R]).
    assert (Hc0 : conns st0 !! c = Some (set_queue q cn)).
    { unfold st0, upd_conn. simpl. rewrite Hc. by rewrite lookup_insert. }
    assert (Hmem : sp_mem sp !! c = c_cur cn) by (rewrite (rm_mem _ _ R); unfold cur_of; by rewrite Hc).
    destruct (is_join r) eqn:Hj.
    + (* a join *)
      destruct r as [| | |rid sd ots| | | | | | | | | | | | | | | | | | | |]; try discriminate Hj.
      assert (Hh : handle cfg st0 c (RJoin rid sd ots) hint = Model.join cfg st0 c rid sd ots hint).
      { unfold handle. rewrite Hc0. destruct (c_cur (set_queue q cn)) as [[s0 p]|] eqn:Hcur; [|done].
        assert (Hcur0 : cur_of st0 c = Some (s0, p)) by (unfold cur_of; by rewrite Hc0).
        destruct (live_session _ _ (inv_live _ I0 _ _ _ Hcur0)) as [SS HS]. by rewrite HS. }
      rewrite Hh in Eh.
      destruct (join_event_ok cfg i st0 c _ rid sd ots hint sp st1 o1 v I0 R0 Hc0 Eh) as (->&C&Hkeep).
      unfold e, ev_of in Hbad |- *. rewrite Es, Hcons in Hbad |- *. cbn [fst snd] in Hbad |- *.
      rewrite P_C04_event_step. cbn [fst snd]. rewrite C, Hbad. split; [done|].
      intros snap H1 H2. cbn [q_snap q_clean] in H1, H2. cbn [mutating_ok] in H2. rewrite orb_false_r in H2.
      apply andb_true_iff in H2 as [H2 _]. apply andb_true_iff in H2 as [H2 H3].
      rewrite (Q snap H1 H2). unfold sdumps. by rewrite (Hkeep H3).
    + (* any other request *)
      destruct (c_cur cn) as [[sid p]|] eqn:Hcur.
      * (* of a member *)
        assert (Hcur0 : cur_of st c = Some (sid, p)) by (unfold cur_of; by rewrite Hc).
        destruct (live_session _ _ (inv_live _ I _ _ _ Hcur0)) as [SS HS].
        assert (Ehj : handle_joined cfg st0 c (set_queue q cn) sid p SS r hint = (st1, o1, v)).
        { unfold handle in Eh. rewrite Hc0 in Eh. change (c_cur (set_queue q cn)) with (c_cur cn) in Eh. rewrite Hcur in Eh.
          change (sessions st0) with (sessions st) in Eh. by rewrite HS in Eh. }
        destruct (handle_joined_outs cfg st0 c _ sid p SS r hint st1 o1 v Hj Ehj) as (_&Vp&Vs).
        assert (Hkeep : existsb is_err o1 = true ∨ mutating_ok r = true → sessions st1 = sessions st).
        { intros Hq'. change (sessions st) with (sessions st0).
          by apply (member_clean_sessions cfg kw st0 c (set_queue q cn) sid p SS r hint st1 o1 v Hj (Wf sid SS HS) HS Ehj). }
        assert (Hpost : ∀ rd, req_rid r = Some rd → member_post i c rd r (expected_outcome cfg sp c sid p r) o1 v).
        { intros rd Hr. eapply member_request_ok; [exact Hj|exact Hr| | | | |exact Ehj].
          - by apply (refines_ents_at sp st sid SS E HS).
          - by eapply refines_comps_at.
          - exact (wf_types _ _ _ (Wf sid SS HS)).
          - intros e0 n. rewrite (rd_acts _ _ D sid e0 n). unfold acts_at. by rewrite HS. }
        unfold e, ev_of in Hbad |- *. rewrite Es, Hcons in Hbad |- *.
        destruct v; try done.
        -- (* answered *)
           cbn [fst snd] in Hbad |- *. rewrite P_C04_event_step. cbn [fst snd]. rewrite Hbad, app_nil_r. split.
           ++ unfold c04_req_clauses. destruct (req_rid r) as [rd|] eqn:Hr; [|done]. rewrite Hmem.
              destruct (Hpost rd eq_refl) as (_&P1&P2&P3). unfold member_clauses. cbn [ev_outs ev_verdict].
              rewrite P1, P2. cbn [okv app].
              match goal with |- (if ?b then _ else _) = [] => destruct b eqn:Href end; [|done].
              unfold c04_refused in Href. apply andb_true_iff in Href as [Href _]. cbn [ev_outs] in Href.
              by rewrite (P3 Href).
           ++ intros snap H1 H2. cbn [q_snap q_clean] in H1, H2.
              apply andb_true_iff in H2 as [H2 _]. apply andb_true_iff in H2 as [H2 H3].
              rewrite (Q snap H1 H2). unfold sdumps. rewrite Hkeep; [done|].
              apply orb_true_iff in H3 as [H3|H3]; [left|by right].
              unfold c04_refused in H3. apply andb_true_iff in H3 as [H3 _]. exact H3.
        -- (* handler error: the connection is ended *)
           pose proof (silent_disconnect cfg st1 c) as SD.
           destruct (disconnect cfg st1 c) as [st2 o2]. cbn [fst snd] in Hbad, SD |- *.
           rewrite P_C04_event_step. cbn [fst snd]. rewrite Hbad, app_nil_r. split.
           2:{ cbn [is_okskip]. rewrite andb_false_r. apply c04_inv_dirty. }
           unfold c04_req_clauses. destruct (req_rid r) as [rd|] eqn:Hr; [|done]. rewrite Hmem.
           destruct (Hpost rd eq_refl) as (_&P1&P2&P3). unfold member_clauses. cbn [ev_outs ev_verdict].
           rewrite (answers_app_silent rd o1 o2 SD), P1, P2. cbn [okv app].
           assert (Href : ∀ e0, e0 = {| ev_op := OStep c hint; ev_req := Some r; ev_outs := o1 ++ o2; ev_verdict := VErr |} →
                     c04_refused sp (spec_step sp e0) e0 = false).
           { intros e0 ->. unfold c04_refused.
             rewrite (departure_step_changed sp _ c hint _ _ _ sid p Hmem); [by rewrite andb_false_r|].
             unfold spec_step. cbn [ev_op ev_verdict]. apply depart_mem_none. }
           by rewrite (Href _ eq_refl).
      * (* of a connection in no session *)
        assert (Ehu : handle_unjoined cfg st0 c (set_queue q cn) r hint = (st1, o1, v)).
        { unfold handle in Eh. rewrite Hc0 in Eh. change (c_cur (set_queue q cn)) with (c_cur cn) in Eh. by rewrite Hcur in Eh. }
        destruct (handle_unjoined_sessions cfg st0 c _ r hint st1 o1 v Hj Ehu) as (Hss&Herr&Vp&Vs).
        assert (Hclauses : ∀ outs v', outs = o1 → v' ≠ VPanic →
          let e0 := {| ev_op := OStep c hint; ev_req := Some r; ev_outs := outs; ev_verdict := v' |} in
          c04_req_clauses cfg i sp (spec_step sp e0) c r e0 = []).
        { intros outs v' -> Hv' e0. unfold c04_req_clauses. destruct (req_rid r) as [rd|] eqn:Hr; [|done]. rewrite Hmem.
          cbn [ev_outs e0].
          eapply (nonmember_request_ok cfg i st0 c _ r hint st1 o1 v sp _ rd Hj Hr); [|exact Ehu].
          by apply spec_step_nonmember. }
        unfold e, ev_of in Hbad |- *. rewrite Es, Hcons in Hbad |- *.
        destruct v; try done.
        -- cbn [fst snd] in Hbad |- *. rewrite P_C04_event_step. cbn [fst snd]. rewrite Hbad, app_nil_r.
           split; [by apply Hclauses|].
           intros snap H1 H2. cbn [q_snap q_clean] in H1, H2.
           apply andb_true_iff in H2 as [H2 _]. apply andb_true_iff in H2 as [H2 _].
           rewrite (Q snap H1 H2). unfold sdumps. by rewrite Hss.
        -- rewrite (Herr eq_refl) in Hbad |- *.
           assert (Hcur1 : cur_of st0 c = None) by (unfold cur_of; rewrite Hc0; done).
           assert (Hd2 : (disconnect cfg st0 c).2 = []).
           { unfold disconnect. destruct (leave_not_joined cfg st0 c Hcur1) as [_ L2]. by destruct (leave cfg st0 c). }
           rewrite Hd2, app_nil_r in Hbad |- *. cbn [fst snd] in Hbad |- *.
           rewrite P_C04_event_step. cbn [fst snd]. rewrite Hbad, app_nil_r.
           split; [by apply Hclauses|]. cbn [is_okskip]. rewrite andb_false_r. apply c04_inv_dirty.
  - (* tick *) split; [done|]. apply c04_inv_dirty.
  - (* disconnect *) split; [done|]. apply c04_inv_dirty.
  - (* hook snapshot *)
    unfold e, ev_of. cbn [step consumed fst snd]. unfold P_C04_event. cbn [ev_op ev_outs]. rewrite first_snapshot.
    cbn [fst snd]. split.
    + destruct (q_snap s) as [before|] eqn:Hb; [|done]. destruct (q_clean s) eqn:Hcl; [|done].
      by rewrite (Q before Hb Hcl), bool_decide_eq_true_2.
    + by intros snap [= <-] _.
Qed.

(* ================= every history ================= *)
Lemma c04_run cfg h : short h →
  P_C04 cfg (run cfg h) = [] ∧
  c04_inv (xstate (P_C04_event cfg) 0 spec0 {| q_snap := None; q_clean := false |} (run cfg h)) (final cfg h).
Proof.
  induction h as [|o h IH] using rev_ind; intros Hs; [split; [done|apply c04_inv_init]|].
  apply short_snoc in Hs as [Hs Hb]. destruct (IH Hs) as [IH1 IH2]. unfold P_C04 in *.
  assert (Hlen : N.of_nat (length h) < two32) by (unfold short in Hs; lia).
  destruct (reachable_inv cfg h state0 0 inv_state0 bounded_state0) as [I B]; [lia|].
  pose proof (c04_step_ok cfg (final cfg h) o (0 + N.of_nat (length h)) (4 * N.of_nat (length h)) (spec_after (run cfg h))
    (length (run cfg h)) _ I B ltac:(lia) (reachable_allref cfg h Hs) IH2) as [C1 C2].
  rewrite xscan_run_snoc, xstate_run_snoc, IH1, final_snoc. cbn [app]. split; [exact C1|exact C2].
Qed.

Theorem model_passes_C04 cfg h : short h → P_C04 cfg (run cfg h) = [].
Proof. intros Hs. by destruct (c04_run cfg h Hs). Qed.

(* the observer-state invariant behind clause 410, for citation *)
Theorem c04_observer_invariant cfg h : short h →
  c04_inv (xstate (P_C04_event cfg) 0 spec0 {| q_snap := None; q_clean := false |} (run cfg h)) (final cfg h).
Proof. intros Hs. by destruct (c04_run cfg h Hs). Qed.

(* proofs/PC06.v — what a departure removes and what it keeps (C06). *)
From stdpp Require Import relations.
From hagall Require Import Model.
From hagall.proofs Require Import BaseLemmas Relay Inv Session Local Trans WF Mono Reach PC02.
From Coq Require Import Lia.

Section c06.
  Context (cfg : config) (c p : N) (own : gset N) (SS : session).
  Let L := left_session cfg c p own SS.
  (* the leaver's entities that are removed: its own, still existing, non-persistent ones *)
  Definition removed (e : N) : Prop := e ∈ own ∧ ∃ ent, s_ents SS !! e = Some ent ∧ e_persist ent = false.
  Global Instance removed_dec e : Decision (removed e).
  Proof.
    unfold removed. destruct (decide (e ∈ own)) as [Ho|Ho]; [|right; by intros [? _]].
    destruct (s_ents SS !! e) as [ent|] eqn:E; [|right; intros (_&?&?&_); done].
    destruct (e_persist ent) eqn:Ep; [right; intros (_&ent'&[= <-]&?); congruence|left; eauto].
  Defined.

  Lemma removed_doomed e :
    removed e ↔ e ∈ doomed (set_store (store_set_subs (fmap (λ s : gset N, s ∖ {[p]}))) (module_disconnect cfg own SS)) own.
  Proof.
    rewrite doomed_spec. unfold removed.
    replace (s_ents (set_store (store_set_subs (fmap (λ s : gset N, s ∖ {[p]}))) (module_disconnect cfg own SS)))
      with (s_ents SS); [done|]. unfold module_disconnect. by repeat case_match.
  Qed.

  Lemma left_fields :
    (∀ e, s_ents L !! e = if bool_decide (removed e) then None else s_ents SS !! e) ∧
    (∀ t e, st_comps (s_store L) !! (t, e) = if bool_decide (removed e) then None else st_comps (s_store SS) !! (t, e)) ∧
    st_names (s_store L) = st_names (s_store SS) ∧ st_ids (s_store L) = st_ids (s_store SS) ∧
    st_subs (s_store L) = (λ s : gset N, s ∖ {[p]}) <$> st_subs (s_store SS) ∧
    s_parts L = delete p (s_parts SS) ∧ s_frames L = s_frames SS ∖ {[c]} ∧
    s_pgen L = s_pgen SS ∧ s_egen L = s_egen SS ∧ s_agen L = s_agen SS ∧ s_uuid L = s_uuid SS.
  Proof.
    unfold L, left_session. cbv zeta.
    set (S1 := module_disconnect cfg own SS).
    set (S2 := set_store (store_set_subs (fmap (λ s : gset N, s ∖ {[p]}))) S1).
    pose proof (remove_doomed_spec cfg p (doomed S2 own) S2) as (R1&R2&R3&R4&R5&R6&R7&R8&R9&R10&R11).
    pose proof (remove_doomed_parts cfg p (doomed S2 own) S2) as (P1&P2&P3).
    set (S3 := (remove_doomed cfg p (doomed S2 own) S2).1) in *.
    assert (E : s_ents S2 = s_ents SS ∧ st_comps (s_store S2) = st_comps (s_store SS) ∧
                st_names (s_store S2) = st_names (s_store SS) ∧ st_ids (s_store S2) = st_ids (s_store SS) ∧
                st_subs (s_store S2) = (λ s : gset N, s ∖ {[p]}) <$> st_subs (s_store SS) ∧
                s_parts S2 = s_parts SS ∧ s_frames S2 = s_frames SS ∧ s_pgen S2 = s_pgen SS ∧
                s_egen S2 = s_egen SS ∧ s_agen S2 = s_agen SS ∧ s_uuid S2 = s_uuid SS)
      by (unfold S2, S1, module_disconnect; by repeat case_match).
    destruct E as (E1&E2&E3&E4&E5&E6&E7&E8&E9&E10&E11).
    assert (Hb : ∀ e, bool_decide (e ∈ doomed S2 own) = bool_decide (removed e)).
    { intros e. apply bool_decide_ext. symmetry. apply removed_doomed. }
    simpl. repeat split.
    - intros e. by rewrite R1, E1, Hb.
    - intros t e. by rewrite R2, E2, Hb.
    - by rewrite R3, E3.
    - by rewrite R4, E4.
    - by rewrite R5, E5.
    - by rewrite P1, E6.
    - by rewrite P3, E7.
    - by rewrite P2, E8.
    - by rewrite R9, E9.
    - by rewrite R10, E10.
    - by rewrite R11, E11.
  Qed.

  (* persistent entities, and everything attached to them, survive *)
  Lemma persistent_survive e ent :
    s_ents SS !! e = Some ent → e_persist ent = true →
    s_ents L !! e = Some ent ∧ (∀ t, st_comps (s_store L) !! (t, e) = st_comps (s_store SS) !! (t, e)).
  Proof.
    intros He Hp. destruct left_fields as (F1&F2&_).
    assert (Hn : ¬ removed e). { intros (_&ent'&He'&Hp'). simplify_eq. congruence. }
    split; [by rewrite F1, bool_decide_eq_false_2|]. intros t. by rewrite F2, bool_decide_eq_false_2.
  Qed.
  Lemma persistent_keep_modules e ent n :
    s_ents SS !! e = Some ent → e_persist ent = true →
    s_actions L !! (e, n) = s_actions SS !! (e, n) ∧ s_assets L !! e = s_assets SS !! e.
  Proof.
    intros He Hp. unfold L, left_session. cbv zeta.
    set (S1 := module_disconnect cfg own SS).
    set (S2 := set_store (store_set_subs (fmap (λ s : gset N, s ∖ {[p]}))) S1).
    pose proof (remove_doomed_spec cfg p (doomed S2 own) S2) as (_&_&_&_&_&_&R7&R8&_).
    simpl. rewrite R7, R8.
    assert (Hk : keep_entity SS e = true) by (unfold keep_entity; by rewrite He).
    assert (Hg : memN e (List.filter (λ eid, negb (keep_entity SS eid)) (elements own)) = false).
    { apply memN_false. rewrite elem_of_list_In, filter_In. intros [_ H]. by rewrite Hk in H. }
    unfold S2, S1, module_disconnect. split.
    - destruct (cfg_vikja cfg), (cfg_odal cfg); simpl; try done.
      all: destruct (s_actions SS !! (e, n)) as [a|] eqn:Ea;
        [apply map_filter_lookup_Some; split; [done|]; simpl; by rewrite Hg
        |apply map_filter_lookup_None; by left].
    - destruct (cfg_vikja cfg), (cfg_odal cfg); simpl; try done.
      all: destruct (s_assets SS !! e) as [a|] eqn:Ea;
        [apply map_filter_lookup_Some; split; [done|]; simpl; by rewrite Hg
        |apply map_filter_lookup_None; by left].
  Qed.
End c06.

(* every way a connection ends goes through the same departure *)
Lemma disconnect_is_leave cfg st c : (disconnect cfg st c).2 = (leave cfg st c).2 ∧
  sessions (disconnect cfg st c).1 = sessions (leave cfg st c).1.
Proof. unfold disconnect. by destruct (leave cfg st c). Qed.

(* proofs/RefComp2.v — every step of the model is matched by [spec_step] on the entity-component part of the
   spec: type registration, component add / update / delete, subscribe / unsubscribe, the cascade of an entity
   deletion, departures (subscriptions dropped, components of removed entities gone), session end, joins.
   Consequence: [refines_comps (spec_after (run cfg h)) (final cfg h)] for every short history. *)
From stdpp Require Import relations sorting.
From hagall Require Import Model Spec Obs Preds.
From hagall.proofs Require Import BaseLemmas Relay Inv Session Local Trans WF Mono Reach PC02 PC06 PC07 Own
  Refine Refine2 Refine3 Refine5 RefComp.
From Coq Require Import Lia.

(* ================= filters with a boolean predicate ================= *)
Lemma filter_lookup_b `{Countable K} {V} (f : K * V → bool) (m : gmap K V) k :
  filter (λ kv, f kv) m !! k = m !! k ≫= λ v, if f (k, v) then Some v else None.
Proof.
  destruct (m !! k) as [v|] eqn:E; simpl.
  - destruct (f (k, v)) eqn:Ef.
    + apply map_filter_lookup_Some. split; [done|]. simpl. by rewrite Ef.
    + apply map_filter_lookup_None. right. intros v' Hv'. simplify_eq. simpl. rewrite Ef. by intros [].
  - apply map_filter_lookup_None. by left.
Qed.

(* ================= the spec side of a departure ================= *)
Lemma types_subs_remove_entities sid l sp :
  sp_types (fold_right (sp_remove_entity sid) sp l) = sp_types sp ∧
  sp_subs (fold_right (sp_remove_entity sid) sp l) = sp_subs sp.
Proof. induction l as [|x l [IH1 IH2]]; simpl; [done|]. by rewrite <- IH1, <- IH2. Qed.

Lemma comps_remove_entity sid x sp s t e :
  sp_comps (sp_remove_entity sid x sp) !! (s, t, e) =
  if bool_decide (s = sid ∧ e = x) then None else sp_comps sp !! (s, t, e).
Proof.
  change (sp_comps (sp_remove_entity sid x sp)) with
    (filter (λ kv : (N*N*N) * N, negb ((fst (fst (fst kv)) =? sid) && (snd (fst kv) =? x))) (sp_comps sp)).
  rewrite (filter_lookup_b (λ kv : (N*N*N) * N, negb ((fst (fst (fst kv)) =? sid) && (snd (fst kv) =? x)))).
  destruct (sp_comps sp !! (s, t, e)) as [d|]; simpl; [|by case_bool_decide].
  destruct (N.eqb_spec s sid) as [->|Hs]; simpl.
  - destruct (N.eqb_spec e x) as [->|He]; simpl.
    + by rewrite bool_decide_eq_true_2.
    + by rewrite bool_decide_eq_false_2 by (by intros [_ ?]).
  - by rewrite bool_decide_eq_false_2 by (by intros [? _]).
Qed.
Lemma comps_remove_entities sid l sp s t e :
  sp_comps (fold_right (sp_remove_entity sid) sp l) !! (s, t, e) =
  if bool_decide (s = sid ∧ e ∈ l) then None else sp_comps sp !! (s, t, e).
Proof.
  induction l as [|x l IH]; cbn [fold_right].
  - rewrite bool_decide_eq_false_2; [done|]. intros [_ H]. by apply elem_of_nil in H.
  - rewrite comps_remove_entity, IH. destruct (decide (s = sid ∧ e = x)) as [[-> ->]|H1].
    + rewrite !bool_decide_eq_true_2; [done|split; [done|by left]|done].
    + rewrite (bool_decide_eq_false_2 (s = sid ∧ e = x)) by done.
      apply (f_equal (λ b : bool, if b then None else sp_comps sp !! (s, t, e))).
      apply bool_decide_ext. split; [intros [-> H]; split; [done|by right]|].
      intros [-> H]. split; [done|]. apply elem_of_cons in H as [->|H]; [|done]. by destruct H1.
Qed.

Lemma purge_lookup2 {V} (m : gmap (N * N) V) sid s x :
  filter (λ kv : (N*N) * V, negb (fst (fst kv) =? sid)) m !! (s, x) = if bool_decide (s = sid) then None else m !! (s, x).
Proof.
  rewrite (filter_lookup_b (λ kv : (N*N) * V, negb (fst (fst kv) =? sid))). simpl.
  destruct (m !! (s, x)) as [v|]; simpl; [|by case_bool_decide].
  destruct (N.eqb_spec s sid); simpl; [by rewrite bool_decide_eq_true_2|by rewrite bool_decide_eq_false_2].
Qed.
Lemma purge_lookup3 {V} (m : gmap (N * N * N) V) sid s x y :
  filter (λ kv : (N*N*N) * V, negb (fst (fst (fst kv)) =? sid)) m !! (s, x, y) =
  if bool_decide (s = sid) then None else m !! (s, x, y).
Proof.
  rewrite (filter_lookup_b (λ kv : (N*N*N) * V, negb (fst (fst (fst kv)) =? sid))). simpl.
  destruct (m !! (s, x, y)) as [v|]; simpl; [|by case_bool_decide].
  destruct (N.eqb_spec s sid); simpl; [by rewrite bool_decide_eq_true_2|by rewrite bool_decide_eq_false_2].
Qed.

Definition drop_sub (sid p s : N) (S : gset N) : gset N := if s =? sid then S ∖ {[p]} else S.

Lemma depart_tcs sp c sid p :
  sp_mem sp !! c = Some (sid, p) →
  let live := sp_live (set_mem (delete c) sp) sid in
  (∀ s n, sp_types (depart sp c) !! (s, n) =
     if live then sp_types sp !! (s, n) else if bool_decide (s = sid) then None else sp_types sp !! (s, n)) ∧
  (∀ s t e, sp_comps (depart sp c) !! (s, t, e) =
     if live then (if bool_decide (s = sid ∧ e ∈ sp_gone sp sid p) then None else sp_comps sp !! (s, t, e))
     else if bool_decide (s = sid) then None else sp_comps sp !! (s, t, e)) ∧
  (∀ s t, sp_subs (depart sp c) !! (s, t) =
     if live then drop_sub sid p s <$> sp_subs sp !! (s, t)
     else if bool_decide (s = sid) then None else sp_subs sp !! (s, t)).
Proof.
  intros E live. unfold depart. rewrite E.
  pose proof (mproj_remove_entities sid (sp_gone sp sid p) sp) as Hm.
  pose proof (comps_remove_entities sid (sp_gone sp sid p) sp) as Hc.
  destruct (types_subs_remove_entities sid (sp_gone sp sid p) sp) as [Ht Hs].
  remember (fold_right (sp_remove_entity sid) sp (sp_gone sp sid p)) as sp1 eqn:E1. clear E1.
  unfold mproj in Hm. injection Hm as H1 _ _ _.
  match goal with |- context [sp_live ?x sid] => rewrite (sp_live_mem x (set_mem (delete c) sp) sid) by (simpl; by rewrite H1) end.
  fold live. destruct live; simpl.
  - split; [intros; by rewrite Ht|]. split; [intros; apply Hc|].
    intros s t. rewrite map_lookup_imap, Hs. by destruct (sp_subs sp !! (s, t)).
  - split; [|split].
    + intros s n. rewrite purge_lookup2, Ht. done.
    + intros s t e. rewrite purge_lookup3, Hc. case_bool_decide as Hd; [done|].
      by rewrite bool_decide_eq_false_2 by (by intros [? _]).
    + intros s t. rewrite purge_lookup2, map_lookup_imap, Hs. case_bool_decide as Hd; [done|].
      destruct (sp_subs sp !! (s, t)) as [S|]; simpl; [|done]. by rewrite (proj2 (N.eqb_neq s sid)).
Qed.

(* what the spec removes on a departure is what the model removes *)
Lemma gone_removed sp st c cn sid p SS e :
  own_inv st → refines_ents sp st → conns st !! c = Some cn → c_cur cn = Some (sid, p) →
  sessions st !! sid = Some SS → e ∈ sp_gone sp sid p ↔ removed (c_own cn) SS e.
Proof.
  intros O E Hc Hcur HS. pose proof (E sid e) as Ee. unfold ents_at in Ee. rewrite HS in Ee. simpl in Ee.
  rewrite elem_of_sp_gone, Ee. unfold removed. rewrite (O c cn sid p SS Hc Hcur HS e). split.
  - intros (ent&Hent&Ho). destruct (s_ents SS !! e) as [en|]; [|done]. simpl in Hent.
    injection Hent as <- Hpe. simpl in Ho. split; eauto.
  - intros [(en&Hen&Ho) (en'&Hen'&Hpe)]. simplify_eq. exists (ent_to_pb e en).
    rewrite Hen. simpl. unfold ent_abs. by rewrite Hpe.
Qed.

(* ================= the model side of a departure ================= *)
Lemma leave_refines_comps cfg sp st c :
  inv st → own_inv st → refines_mem sp st → refines_ents sp st → refines_comps sp st →
  refines_comps (depart sp c) (leave cfg st c).1.
Proof.
  intros I O R E RC. pose proof (inv_leave cfg st c I) as I1.
  destruct (leave_sessions cfg st c I) as [(cn&sid&p&SS&Hc&Hcur&HS&Hp&Es)|[Hnone Es]].
  2:{ rewrite Es. rewrite depart_none; [done|]. by rewrite (rm_mem _ _ R). }
  assert (Hcur0 : cur_of st c = Some (sid, p)) by (unfold cur_of; by rewrite Hc).
  pose proof (lp_cur _ _ _ _ _ (leave_projections cfg st c sid p I Hcur0)) as L1.
  remember (leave cfg st c).1 as st1 eqn:Est1. clear Est1.
  assert (Hm1 : ∀ c', sp_mem (set_mem (delete c) sp) !! c' = cur_of st1 c').
  { intros c'. simpl. rewrite L1. destruct (decide (c' = c)) as [->|Hne];
      [by rewrite lookup_delete|by rewrite lookup_delete_ne, (rm_mem _ _ R)]. }
  assert (Hmem : sp_mem sp !! c = Some (sid, p)) by (by rewrite (rm_mem _ _ R)).
  destruct (depart_tcs sp c sid p Hmem) as (D1&D2&D3).
  destruct RC as [R1 R2 R3].
  destruct (left_fields cfg c p (c_own cn) SS) as (_&F2&_&F4&F5&_).
  case_decide as Hd.
  - (* the session ended *)
    rewrite (proj2 (live_false _ _ sid I1 Hm1)) in D1, D2, D3 by (by rewrite Es, lookup_delete).
    split.
    + intros s n. rewrite D1, Es. case_bool_decide as Hs; [subst; by rewrite lookup_delete|].
      rewrite lookup_delete_ne by done. apply R1.
    + intros s t e. rewrite D2, Es. case_bool_decide as Hs; [subst; by rewrite lookup_delete|].
      rewrite lookup_delete_ne by done. apply R2.
    + intros s t. rewrite D3, Es. case_bool_decide as Hs; [subst; by rewrite lookup_delete|].
      rewrite lookup_delete_ne by done. apply R3.
  - rewrite (proj2 (live_iff _ _ sid I1 Hm1)) in D1, D2, D3 by (rewrite Es, lookup_insert; eauto).
    split.
    + intros s n. rewrite D1, Es, R1. destruct (decide (s = sid)) as [->|Hs].
      * rewrite lookup_insert, HS. cbn [mbind option_bind]. by rewrite F4.
      * by rewrite lookup_insert_ne.
    + intros s t e. rewrite D2, Es. destruct (decide (s = sid)) as [->|Hs].
      * rewrite lookup_insert. cbn [mbind option_bind]. rewrite F2.
        rewrite (bool_decide_ext (sid = sid ∧ e ∈ sp_gone sp sid p) (removed (c_own cn) SS e)).
        2:{ rewrite (gone_removed sp st c cn sid p SS e O E Hc Hcur HS). tauto. }
        case_bool_decide; [done|]. rewrite R2, HS. done.
      * rewrite bool_decide_eq_false_2 by (by intros [? _]). rewrite lookup_insert_ne by done. apply R2.
    + intros s t. rewrite D3, Es, R3. unfold drop_sub. destruct (decide (s = sid)) as [->|Hs].
      * rewrite lookup_insert, HS, N.eqb_refl. cbn [mbind option_bind]. by rewrite F5, lookup_fmap.
      * rewrite lookup_insert_ne by done. rewrite (proj2 (N.eqb_neq s sid)) by done.
        by destruct (sessions st !! s ≫= λ SS0, st_subs (s_store SS0) !! t).
Qed.

Lemma stores_sessions st st' : sessions st' = sessions st → ∀ sid, s_store <$> sessions st' !! sid = s_store <$> sessions st !! sid.
Proof. by intros ->. Qed.

Lemma disconnect_refines_comps cfg sp st c :
  inv st → own_inv st → refines_mem sp st → refines_ents sp st → refines_comps sp st →
  refines_comps (depart sp c) (disconnect cfg st c).1.
Proof.
  intros I O R E RC. unfold disconnect. pose proof (leave_refines_comps cfg sp st c I O R E RC) as E1.
  destruct (leave cfg st c) as [st1 o]. simpl in *.
  eapply refines_comps_same; [done|done|done| |exact E1]. by apply stores_sessions.
Qed.

(* ================= join ================= *)
Lemma join_refines_comps cfg st c cn rid s ots hint sp :
  inv st → nowrap st → own_inv st → refines_mem sp st → refines_ents sp st → refines_comps sp st →
  conns st !! c = Some cn →
  ∀ st' outs v, Model.join cfg st c rid s ots hint = (st', outs, v) →
  refines_comps (match join_resp c outs with
                 | Some (_, sid, uuid, pid) => enter_spec (depart sp c) c sid uuid pid
                 | None => if has_error c E_NOT_FOUND outs then depart sp c else sp
                 end) st'.
Proof.
  intros I W O R E RC Hc st' outs v. unfold Model.join. rewrite Hc.
  destruct (already_joined cn s) eqn:Haj.
  - intros [= <- <- <-]. unfold already_joined in Haj.
    destruct (c_cur cn) as [[cur p0]|] eqn:Hcur; [|done]. destruct s as [|n|k]; try done.
    set (mo := match sessions st !! cur with Some SS => module_join_msgs cfg c SS | None => [] end).
    assert (Hmo : plains mo). { unfold mo. destruct (sessions st !! cur); [apply plains_module_join|constructor]. }
    rewrite join_resp_cons_other by done. rewrite (join_resp_plain _ _ Hmo).
    replace (has_error c E_NOT_FOUND ((c, MError rid E_ALREADY_JOINED) :: mo)) with false; [done|].
    unfold has_error. simpl. rewrite N.eqb_refl. simpl. symmetry. by apply has_error_plain.
  - pose proof (leave_refines_comps cfg sp st c I O R E RC) as E1. pose proof (inv_leave cfg st c I) as I1.
    pose proof (leave_nowrap cfg st c I W) as W1. pose proof (plains_leave cfg st c) as P1.
    destruct (leave cfg st c) as [st1 o1]. simpl in *.
    assert (Hnotfound : ∀ outs, outs = o1 ++ [(c, MError rid E_NOT_FOUND)] →
      join_resp c outs = None ∧ has_error c E_NOT_FOUND outs = true).
    { intros ? ->. split. { rewrite join_resp_app_plain by done. by rewrite join_resp_cons_other. }
      rewrite has_error_app. unfold has_error at 2. simpl. rewrite N.eqb_refl. simpl. apply orb_true_r. }
    destruct s as [|n|k].
    + destruct (create_session hint st1) as [n st2] eqn:Hcr.
      destruct (create_session_proj _ _ _ _ I1 W1 Hcr) as (Hfresh&_).
      destruct (create_sessions _ _ _ _ Hcr) as [E2 _].
      destruct (c07_created_fresh _ _ _ _ Hcr) as [HS2 _].
      assert (Hn1 : sessions st1 !! n = None). { unfold parts_of in Hfresh. by destruct (sessions st1 !! n). }
      pose proof (enter_sessions cfg st2 c rid n ots _ HS2) as E3.
      rewrite (enter_eq cfg st2 c rid n ots _ HS2). cbv zeta. intros [= <- <- <-].
      rewrite join_resp_app_plain by done. unfold join_resp at 1. erewrite first_to_hit by reflexivity.
      destruct E1 as [Q1 Q2 Q3]. split.
      * intros s nm. change (sp_types (enter_spec ?a _ _ _ _)) with (sp_types a). rewrite Q1, E3, E2.
        destruct (decide (s = n)) as [->|Hs]; [by rewrite lookup_insert, Hn1|by rewrite !lookup_insert_ne].
      * intros s t e. change (sp_comps (enter_spec ?a _ _ _ _)) with (sp_comps a). rewrite Q2, E3, E2.
        destruct (decide (s = n)) as [->|Hs]; [by rewrite lookup_insert, Hn1|by rewrite !lookup_insert_ne].
      * intros s t. change (sp_subs (enter_spec ?a _ _ _ _)) with (sp_subs a). rewrite Q3, E3, E2.
        destruct (decide (s = n)) as [->|Hs]; [by rewrite lookup_insert, Hn1|by rewrite !lookup_insert_ne].
    + destruct (sessions st1 !! n) as [SS|] eqn:HS.
      * pose proof (enter_sessions cfg st1 c rid n ots _ HS) as E3.
        rewrite (enter_eq cfg st1 c rid n ots SS HS). cbv zeta. intros [= <- <- <-].
        rewrite join_resp_app_plain by done. unfold join_resp at 1. erewrite first_to_hit by reflexivity.
        eapply (refines_comps_same (depart sp c) _ st1); [reflexivity|reflexivity|reflexivity| |exact E1].
        intros s. rewrite E3. destruct (decide (s = n)) as [->|Hs].
        -- by rewrite lookup_insert, HS.
        -- by rewrite lookup_insert_ne.
      * intros [= <- <- <-]. destruct (Hnotfound _ eq_refl) as [-> ->]. exact E1.
    + intros [= <- <- <-]. destruct (Hnotfound _ eq_refl) as [-> ->]. exact E1.
Qed.

(* ================= requests other than join ================= *)
Definition is_comp_req (r : req) : bool :=
  match r with
  | REntityDelete _ _ _ | RTypeAdd _ _ | RCompAdd _ _ _ _ _ | RCompDelete _ _ _ _ | RCompUpdate _ _ _ _
  | RSubscribe _ _ | RUnsubscribe _ _ => true
  | _ => false
  end.

Lemma spec_request_tcs_other sp c sid p r outs :
  is_comp_req r = false →
  sp_types (spec_request sp c sid p r outs) = sp_types sp ∧ sp_comps (spec_request sp c sid p r outs) = sp_comps sp ∧
  sp_subs (spec_request sp c sid p r outs) = sp_subs sp.
Proof. intros H. destruct r; try discriminate H; simpl; repeat case_match; done. Qed.

Lemma stores_put st sid SS S1 c f :
  sessions st !! sid = Some SS → s_store S1 = s_store SS →
  ∀ s, s_store <$> sessions (upd_conn c f (put_session st sid S1)) !! s = s_store <$> sessions st !! s.
Proof.
  intros HS H1 s. simpl. destruct (decide (s = sid)) as [->|Hne].
  - rewrite lookup_insert, HS. simpl. by rewrite H1.
  - by rewrite lookup_insert_ne.
Qed.
Lemma stores_put' st sid SS S1 :
  sessions st !! sid = Some SS → s_store S1 = s_store SS →
  ∀ s, s_store <$> sessions (put_session st sid S1) !! s = s_store <$> sessions st !! s.
Proof.
  intros HS H1 s. simpl. destruct (decide (s = sid)) as [->|Hne].
  - rewrite lookup_insert, HS. simpl. by rewrite H1.
  - by rewrite lookup_insert_ne.
Qed.

Lemma handle_joined_stores_other cfg st c cn sid p SS r hint st' o v :
  is_comp_req r = false → is_join r = false → sessions st !! sid = Some SS →
  handle_joined cfg st c cn sid p SS r hint = (st', o, v) →
  ∀ s, s_store <$> sessions st' !! s = s_store <$> sessions st !! s.
Proof.
  intros He Hj HS H. destruct r; try discriminate He; try discriminate Hj; simpl in H.
  all: try (repeat case_match; simplify_eq; try reflexivity;
            first [by apply (stores_put' st sid SS)|by apply (stores_put st sid SS)]; fail).
  apply stores_sessions. pose proof (on_ping_sessions st c cn rid) as E. by rewrite H in E.
Qed.

(* one session's store replaced: the tables change at that session only *)
Lemma refines_comps_update sp sp' st st' sid SS S1 :
  sessions st !! sid = Some SS → sessions st' = <[sid := S1]> (sessions st) →
  refines_comps sp st →
  (∀ s n, s ≠ sid → sp_types sp' !! (s, n) = sp_types sp !! (s, n)) →
  (∀ s t e, s ≠ sid → sp_comps sp' !! (s, t, e) = sp_comps sp !! (s, t, e)) →
  (∀ s t, s ≠ sid → sp_subs sp' !! (s, t) = sp_subs sp !! (s, t)) →
  store_abs sp' sid (s_store S1) →
  refines_comps sp' st'.
Proof.
  intros HS Es [R1 R2 R3] H1 H2 H3 [A1 A2 A3]. split.
  - intros s n. rewrite Es. destruct (decide (s = sid)) as [->|Hne].
    + rewrite lookup_insert. simpl. apply A1.
    + rewrite lookup_insert_ne by done. rewrite H1 by done. apply R1.
  - intros s t e. rewrite Es. destruct (decide (s = sid)) as [->|Hne].
    + rewrite lookup_insert. simpl. apply A2.
    + rewrite lookup_insert_ne by done. rewrite H2 by done. apply R2.
  - intros s t. rewrite Es. destruct (decide (s = sid)) as [->|Hne].
    + rewrite lookup_insert. simpl. apply A3.
    + rewrite lookup_insert_ne by done. rewrite H3 by done. apply R3.
Qed.

Lemma triple_ne_l (a a' b b' c c' : N) : a ≠ a' → (a, b, c) ≠ (a', b', c').
Proof. congruence. Qed.

(* the three tables of [sp'] differ from those of [sp] by one modification each, at keys of session [sid] *)
Lemma refines_comps_update_f sp sp' st st' sid SS S1 :
  sessions st !! sid = Some SS → sessions st' = <[sid := S1]> (sessions st) →
  refines_comps sp st →
  (∀ s n, s ≠ sid → sp_types sp' !! (s, n) = sp_types sp !! (s, n)) →
  (∀ s t e, s ≠ sid → sp_comps sp' !! (s, t, e) = sp_comps sp !! (s, t, e)) →
  (∀ s t, s ≠ sid → sp_subs sp' !! (s, t) = sp_subs sp !! (s, t)) →
  (store_abs sp sid (s_store SS) → store_abs sp' sid (s_store S1)) →
  refines_comps sp' st'.
Proof.
  intros HS Es R H1 H2 H3 HA. eapply refines_comps_update; try done. apply HA. by eapply refines_comps_at.
Qed.

Lemma has_msg_cons_hit c m l f : f m = true → has_msg c ((c, m) :: l) f = true.
Proof. intros H. unfold has_msg. simpl. by rewrite N.eqb_refl, H. Qed.
Lemma has_msg_app c l1 l2 f : has_msg c (l1 ++ l2) f = has_msg c l1 f || has_msg c l2 f.
Proof. unfold has_msg. apply existsb_app. Qed.
Lemma has_msg_error c c' rid k f : (∀ r k, f (MError r k) = false) → has_msg c [(c', MError rid k)] f = false.
Proof. intros H. unfold has_msg. simpl. by rewrite H, andb_false_r. Qed.

Lemma handle_joined_comps_req cfg st c cn sid p SS r hint st' o v sp :
  is_comp_req r = true → sessions st !! sid = Some SS → refines_ents sp st → refines_comps sp st →
  handle_joined cfg st c cn sid p SS r hint = (st', o, v) →
  refines_comps (spec_request sp c sid p r o) st'.
Proof.
  intros Hr HS E RC H.
  assert (Ee : ∀ e, sp_ents sp !! (sid, e) = ent_abs e <$> s_ents SS !! e).
  { intros e. rewrite (E sid e). unfold ents_at. by rewrite HS. }
  pose proof (refines_comps_at _ _ _ _ RC HS) as [A1 A2 A3].
  assert (Hsame : ∀ S1 f, s_store S1 = s_store SS →
            refines_comps sp (upd_conn c f (put_session st sid S1)) ∧ refines_comps sp (put_session st sid S1)).
  { intros S1 f Hst. split; (eapply refines_comps_same; [reflexivity|reflexivity|reflexivity| |exact RC]).
    - by apply (stores_put st sid SS). - by apply (stores_put' st sid SS). }
  destruct r; try discriminate Hr; simpl in H.
  - (* entity delete: the components of the entity go with it *)
    destruct (s_ents SS !! eid) as [ent|] eqn:Hent.
    + destruct (negb (e_owner ent =? p)) eqn:Ho.
      * injection H as <- <- <-. unfold spec_request. rewrite has_msg_error by done. exact RC.
      * injection H as <- <- <-. unfold spec_request. rewrite has_msg_cons_hit by apply N.eqb_refl.
        set (S1 := set_ents (delete eid) (set_store (store_delete_entity eid) SS)).
        pose proof (cleanup_modules_fields cfg eid S1) as (_&_&_&_&F5&_).
        eapply (refines_comps_update sp _ st _ sid SS); [exact HS|reflexivity|exact RC| | | |].
        -- intros s n Hs. reflexivity.
        -- intros s t e Hs. rewrite comps_remove_entity. by rewrite bool_decide_eq_false_2 by (by intros [? _]).
        -- intros s t Hs. reflexivity.
        -- rewrite F5. split; [exact A1| |exact A3]. intros t e. rewrite comps_remove_entity.
           change (s_store S1) with (store_delete_entity eid (s_store SS)).
           rewrite store_delete_entity_lookup, A2. case_decide as Hd.
           ++ by rewrite bool_decide_eq_true_2.
           ++ by rewrite bool_decide_eq_false_2 by (by intros [_ ?]).
    + injection H as <- <- <-. unfold spec_request. rewrite has_msg_error by done.
      pose proof (cleanup_modules_fields cfg eid SS) as (_&_&_&_&F5&_). by apply Hsame.
  - (* type registration *)
    destruct (name =? 0) eqn:En.
    { injection H as <- <- <-. unfold spec_request. rewrite first_to_none; [exact RC|]. by repeat constructor. }
    unfold store_add_type in H. destruct (st_ids (s_store SS) !! name) as [tid|] eqn:Eid.
    + injection H as <- <- <-. unfold spec_request. erewrite first_to_hit by (by rewrite N.eqb_refl).
      eapply (refines_comps_update sp _ st _ sid SS); [exact HS|reflexivity|exact RC| | | |].
      * intros s n Hs. simpl. by rewrite lookup_insert_ne by (by apply pair_ne_l).
      * reflexivity.
      * reflexivity.
      * split; [|exact A2|exact A3]. intros n. simpl. destruct (decide (n = name)) as [->|Hn].
        -- by rewrite lookup_insert.
        -- rewrite lookup_insert_ne by (by apply pair_ne_r). apply A1.
    + injection H as <- <- <-. unfold spec_request. erewrite first_to_hit by (by rewrite N.eqb_refl).
      eapply (refines_comps_update sp _ st _ sid SS); [exact HS|reflexivity|exact RC| | | |].
      * intros s n Hs. simpl. by rewrite lookup_insert_ne by (by apply pair_ne_l).
      * reflexivity.
      * reflexivity.
      * split; [|exact A2|exact A3]. intros n. simpl. destruct (decide (n = name)) as [->|Hn].
        -- by rewrite !lookup_insert.
        -- rewrite lookup_insert_ne by (by apply pair_ne_r). rewrite lookup_insert_ne by done. apply A1.
  - (* component add *)
    assert (Hacc : ∀ l, refines_comps
      (spec_request sp c sid p (RCompAdd rid tid eid data ots) ((c, MCompAddResp rid) :: l))
      (put_session st sid (set_store (store_set_comps (<[(tid, eid) := data]>)) SS))).
    { intros l. unfold spec_request. rewrite has_msg_cons_hit by apply N.eqb_refl.
      eapply (refines_comps_update sp _ st _ sid SS); [exact HS|reflexivity|exact RC| | | |].
      - reflexivity.
      - intros s t e Hs. simpl. by rewrite lookup_insert_ne by (by apply triple_ne_l).
      - reflexivity.
      - split; [exact A1| |exact A3]. intros t e. simpl. destruct (decide ((t, e) = (tid, eid))) as [[= -> ->]|Hn].
        + by rewrite !lookup_insert.
        + rewrite lookup_insert_ne by congruence. rewrite lookup_insert_ne by done. apply A2. }
    repeat case_match; simplify_eq; try (unfold spec_request; rewrite has_msg_error by done; exact RC); apply Hacc.
  - (* component delete *)
    assert (Hacc : ∀ l, refines_comps
      (spec_request sp c sid p (RCompDelete rid tid eid ots) (l ++ [(c, MCompDeleteResp rid)]))
      (put_session st sid (set_store (store_set_comps (delete (tid, eid))) SS))).
    { intros l. unfold spec_request. rewrite has_msg_app, (has_msg_cons_hit c _ []) by apply N.eqb_refl.
      rewrite orb_true_r.
      eapply (refines_comps_update sp _ st _ sid SS); [exact HS|reflexivity|exact RC| | | |].
      - reflexivity.
      - intros s t e Hs. simpl. by rewrite lookup_delete_ne by (by apply triple_ne_l).
      - reflexivity.
      - split; [exact A1| |exact A3]. intros t e. simpl. destruct (decide ((t, e) = (tid, eid))) as [[= -> ->]|Hn].
        + by rewrite !lookup_delete.
        + rewrite lookup_delete_ne by congruence. rewrite lookup_delete_ne by done. apply A2. }
    repeat case_match; simplify_eq; try (unfold spec_request; rewrite has_msg_error by done; exact RC); apply Hacc.
  - (* component update *)
    unfold spec_request, comp_update_accepted. rewrite (Ee eid), A2.
    destruct ((tid =? 0) || (eid =? 0)) eqn:Ez.
    { injection H as <- <- <-. apply orb_true_iff in Ez as [->| ->]; simpl; [exact RC|]. rewrite andb_false_r. exact RC. }
    apply orb_false_iff in Ez as [-> ->]. simpl.
    destruct (s_ents SS !! eid) as [ent|] eqn:Hent; simpl.
    2:{ injection H as <- <- <-. exact RC. }
    destruct (st_comps (s_store SS) !! (tid, eid)) as [d0|] eqn:Hd; simpl.
    2:{ injection H as <- <- <-. exact RC. }
    injection H as <- <- <-.
    eapply (refines_comps_update sp _ st _ sid SS); [exact HS|reflexivity|exact RC| | | |].
    + reflexivity.
    + intros s t e Hs. simpl. by rewrite lookup_insert_ne by (by apply triple_ne_l).
    + reflexivity.
    + split; [exact A1| |exact A3]. intros t e. simpl. destruct (decide ((t, e) = (tid, eid))) as [[= -> ->]|Hn].
      * by rewrite !lookup_insert.
      * rewrite lookup_insert_ne by congruence. rewrite lookup_insert_ne by done. apply A2.
  - (* subscribe *)
    destruct (tid =? 0) eqn:Et.
    { injection H as <- <- <-. unfold spec_request. rewrite has_msg_error by done. exact RC. }
    destruct (st_names (s_store SS) !! tid) as [nm|] eqn:Hn.
    2:{ injection H as <- <- <-. unfold spec_request. rewrite has_msg_error by done. exact RC. }
    injection H as <- <- <-. unfold spec_request. rewrite has_msg_cons_hit by apply N.eqb_refl.
    eapply (refines_comps_update sp _ st _ sid SS); [exact HS|reflexivity|exact RC| | | |].
    + reflexivity.
    + reflexivity.
    + intros s t Hs. simpl. by rewrite lookup_insert_ne by (by apply pair_ne_l).
    + split; [exact A1|exact A2|]. intros t. simpl. unfold subs_of. rewrite A3.
      destruct (decide (t = tid)) as [->|Hne].
      * by rewrite !lookup_insert.
      * rewrite lookup_insert_ne by (by apply pair_ne_r). rewrite lookup_insert_ne by done. apply A3.
  - (* unsubscribe *)
    destruct (tid =? 0) eqn:Et.
    { injection H as <- <- <-. unfold spec_request. rewrite has_msg_error by done. exact RC. }
    injection H as <- <- <-. unfold spec_request. rewrite has_msg_cons_hit by apply N.eqb_refl.
    eapply (refines_comps_update sp _ st _ sid SS); [exact HS|reflexivity|exact RC| | | |].
    + reflexivity.
    + reflexivity.
    + intros s t Hs. simpl. destruct (sp_subs sp !! (sid, tid)); [|done].
      by rewrite lookup_insert_ne by (by apply pair_ne_l).
    + split; [exact A1|exact A2|]. intros t. simpl. rewrite A3.
      destruct (st_subs (s_store SS) !! tid) as [S0|] eqn:ES; [|apply A3].
      destruct (decide (t = tid)) as [->|Hne].
      * by rewrite !lookup_insert.
      * rewrite lookup_insert_ne by (by apply pair_ne_r). rewrite lookup_insert_ne by done. apply A3.
Qed.

(* ================= one step ================= *)
Lemma refines_comps_conv sp sp' st st' :
  sp_types sp' = sp_types sp → sp_comps sp' = sp_comps sp → sp_subs sp' = sp_subs sp → sessions st' = sessions st →
  refines_comps sp st → refines_comps sp' st'.
Proof. intros H1 H2 H3 H4. apply refines_comps_same; try done. by apply stores_sessions. Qed.

Lemma step_sim_comps cfg st o k sp :
  inv st → bounded k st → k + 1 < two32 → own_inv st → refines_mem sp st → refines_ents sp st → refines_comps sp st →
  refines_comps (spec_step sp (ev_of st o (step cfg st o))) (step cfg st o).1.1.
Proof.
  intros I B Hk O R E RC. pose proof (bounded_nowrap _ _ B Hk) as W.
  destruct o as [c|c r|c hint|sid|c|]; unfold ev_of; cbn [step consumed].
  - (* connect *)
    destruct (conns st !! c) as [cn|] eqn:Hc; [by rewrite spec_step_skip|].
    by apply (refines_comps_conv sp _ st).
  - (* send *)
    unfold dispatch. destruct (conns st !! c) as [cn|] eqn:Hc; [|by rewrite spec_step_skip].
    destruct (c_open cn) eqn:Ho; [|by rewrite spec_step_skip]. cbn [negb].
    destruct r; try (by apply (refines_comps_conv sp _ st)).
    cbn match. destruct (ty =? 14); [|by apply (refines_comps_conv sp _ st)].
    pose proof (disconnect_refines_comps cfg sp st c I O R E RC) as E1.
    destruct (disconnect cfg st c) as [st1 o1]. exact E1.
  - (* step *)
    destruct (conns st !! c) as [cn|] eqn:Hc; [|by rewrite spec_step_skip].
    destruct (c_open cn) eqn:Ho; [|by rewrite spec_step_skip]. cbn [negb].
    destruct (c_queue cn) as [|r q] eqn:Hq; [by rewrite spec_step_skip|]. cbn [head].
    set (st0 := upd_conn c (set_queue q) st).
    assert (Hs0 : same_mem st st0) by (apply same_mem_upd_conn; by intros []).
    assert (I0 : inv st0) by by eapply inv_same_mem.
    assert (B0 : bounded k st0) by by eapply bounded_same_mem.
    assert (W0 : nowrap st0) by by eapply bounded_nowrap.
    assert (R0 : refines_mem sp st0) by (eapply refines_same; [apply same_all_upd_conn; by intros []|exact R]).
    assert (E0 : refines_ents sp st0) by exact E.
    assert (RC0 : refines_comps sp st0) by (by apply (refines_comps_conv sp _ st)).
    assert (O0 : own_inv st0).
    { eapply own_inv_ext; [| |exact O]; [done|]. intros c'. apply mem_of_upd_conn; by intros []. }
    assert (Hc0 : conns st0 !! c = Some (set_queue q cn)).
    { unfold st0, upd_conn. simpl. rewrite Hc. by rewrite lookup_insert. }
    assert (Ho0 : open_of st0 c = Some true) by (unfold open_of; rewrite Hc0; simpl; by rewrite Ho).
    destruct (is_join r) eqn:Hj.
    + destruct r; try discriminate Hj.
      assert (Hh : handle cfg st0 c (RJoin rid sid ots) hint = Model.join cfg st0 c rid sid ots hint).
      { unfold handle. rewrite Hc0. destruct (c_cur (set_queue q cn)) as [[s p]|] eqn:Hcur; [|done].
        assert (Hcur0 : cur_of st0 c = Some (s, p)) by (unfold cur_of; by rewrite Hc0).
        destruct (live_session _ _ (inv_live _ I0 _ _ _ Hcur0)) as [SS HS]. by rewrite HS. }
      rewrite Hh. destruct (Model.join cfg st0 c rid sid ots hint) as [[st1 o1] v] eqn:Ej.
      pose proof (join_verdict cfg st0 c _ rid sid ots hint Hc0) as Hv. rewrite Ej in Hv. simpl in Hv. subst v.
      cbn [fst snd]. rewrite spec_step_join.
      exact (join_refines_comps cfg st0 c _ rid sid ots hint sp I0 W0 O0 R0 E0 RC0 Hc0 _ _ _ Ej).
    + destruct (handle cfg st0 c r hint) as [[st1 o1] v] eqn:Eh.
      destruct (handle_nonjoin cfg st0 c _ r hint _ _ _ I0 Hc0 Hj Eh) as (S1&N1&V1&V2).
      assert (R1 : refines_mem sp st1) by (by eapply refines_same).
      assert (I1 : inv st1).
      { pose proof (handle_inv cfg st0 c r hint k I0 B0 Hk Ho0) as [I1 _]. by rewrite Eh in I1. }
      destruct v; try done.
      * (* answered *)
        cbn [fst snd]. unfold spec_step. cbn [ev_op ev_verdict ev_req ev_outs].
        assert (Hgen : refines_comps (match sp_mem sp !! c with
                                      | Some (s, p) => spec_request sp c s p r o1 | None => sp end) st1).
        { rewrite (rm_mem _ _ R0). unfold cur_of. rewrite Hc0. simpl.
          unfold handle in Eh. rewrite Hc0 in Eh. change (c_cur (set_queue q cn)) with (c_cur cn) in Eh.
          destruct (c_cur cn) as [[s p]|] eqn:Hcur.
          - assert (Hcur0 : cur_of st0 c = Some (s, p)) by (unfold cur_of; rewrite Hc0; exact Hcur).
            destruct (live_session _ _ (inv_live _ I0 _ _ _ Hcur0)) as [SS HS]. rewrite HS in Eh.
            destruct (is_comp_req r) eqn:Her.
            + by eapply handle_joined_comps_req.
            + destruct (spec_request_tcs_other sp c s p r o1 Her) as (T1&T2&T3).
              eapply refines_comps_same; [exact T1|exact T2|exact T3| |exact RC0].
              by eapply handle_joined_stores_other.
          - eapply refines_comps_same; [reflexivity|reflexivity|reflexivity| |exact RC0]. apply stores_sessions.
            pose proof (handle_unjoined_other cfg st0 c (set_queue q cn) r hint Hj) as Hx. by rewrite Eh in Hx. }
        destruct r; try exact Hgen. discriminate Hj.
      * (* handler error *)
        destruct (handle_err_same cfg st0 c r hint _ _ Hj Eh) as [Hs1 Hc1].
        assert (E1 : refines_ents sp st1) by (eapply refines_ents_same; [reflexivity|by apply ents_at_sessions|exact E0]).
        assert (RC1 : refines_comps sp st1).
        { eapply refines_comps_same; [reflexivity|reflexivity|reflexivity|by apply stores_sessions|exact RC0]. }
        assert (O1 : own_inv st1) by (by eapply own_inv_conns).
        pose proof (disconnect_refines_comps cfg sp st1 c I1 O1 R1 E1 RC1) as E2.
        destruct (disconnect cfg st1 c) as [st2 o2]. exact E2.
  - (* tick *)
    cbn [fst snd]. eapply refines_comps_same; [reflexivity|reflexivity|reflexivity| |exact RC].
    apply stores_sessions, tick_sessions.
  - (* disconnect *)
    assert (Hnone : cur_of st c = None →
      refines_comps (spec_step sp {| ev_op := ODisconnect c; ev_req := None; ev_outs := []; ev_verdict := VSkip |}) st).
    { intros Hcur. unfold spec_step. cbn [ev_op]. rewrite depart_none; [done|]. by rewrite (rm_mem _ _ R). }
    destruct (conns st !! c) as [cn|] eqn:Hc; [|apply Hnone; unfold cur_of; by rewrite Hc].
    destruct (c_open cn) eqn:Ho; cbn [negb].
    2:{ apply Hnone. apply (inv_open _ I). unfold open_of. rewrite Hc. simpl. by rewrite Ho. }
    pose proof (disconnect_refines_comps cfg sp st c I O R E RC) as E1.
    destruct (disconnect cfg st c) as [st1 o1]. exact E1.
  - (* snapshot *)
    by apply (refines_comps_conv sp _ st).
Qed.

(* ================= every history ================= *)
(* Deliverable 1: after every history the entity-component part of the trace-determined spec state (type registry,
   components, subscriptions) is the abstraction of the stores of the model's sessions *)
Theorem refinement_comps cfg h : short h → refines_comps (spec_after (run cfg h)) (final cfg h).
Proof.
  induction h as [|o h IH] using rev_ind; intros Hs; [apply refines_comps_state0|].
  apply short_snoc in Hs as [Hs Hb]. rewrite spec_after_snoc, final_snoc.
  destruct (reachable_inv cfg h state0 0 inv_state0 bounded_state0) as [I B]; [unfold short in Hs; lia|].
  apply (step_sim_comps cfg (final cfg h) o (0 + N.of_nat (length h))); try done.
  - lia.
  - by apply reachable_own.
  - by apply refinement_mem.
  - by apply refinement_ents.
  - by apply IH.
Qed.

(* proofs/RefLat.v — predicate soundness for the latency clause of C04 (Preds3.v: P_C04_lat, violation code 450; the C04
   check evaluates P_C04_full = P_C04 ++ P_C04_lat).
   1. The predicate's bookkeeping [latq] is related to the model's connection records after every prefix of every
      history: [lq_run s !! c] is the request id of the measurement RUNNING on connection c ([c_lat] with rounds left),
      and nothing when there is no measurement or it is finished ([R1], unconditional).
   2. Every SIGNED_LATENCY_RESPONSE the model delivers echoes the running measurement's request id (unconditional).
   3. Clause 450 also demands that the echoed id is not in [lq_refused].  NOTHING in the model makes request ids
      unique: a client may reuse, for an accepted request, the id of a request that was refused earlier on the same
      connection - then the (correct) response echoes an id that is in [lq_refused] and clause 450 fires on the
      model's own trace ([C04_lat_refuted]).  Under the side condition the harness guarantees - the signed-latency
      requests consumed on one connection carry pairwise distinct request ids, [uniq_lat_rids], decidable on the
      trace - the model's own traces are never flagged ([model_passes_C04_lat], [model_passes_C04_full]).  The side
      condition follows from the same condition on the operations of the history ([uniq_lat_sends], what the
      harness controls): [uniq_sends_rids]. *)
From stdpp Require Import relations sorting.
From hagall Require Import Model Spec Obs Preds Preds2 Preds3.
From hagall.proofs Require Import BaseLemmas Relay Inv Session Local Trans WF Mono Reach Own Refine Refine2 Refine3
  RefComp3 RefSched RefFin3b PC11 RefSched2 RefSched4.
From Coq Require Import Lia.

(* ================= the model side: the measurement of a connection ================= *)
Definition latv (st : state) (c : N) : option latency := conns st !! c ≫= c_lat.
(* the request id of a measurement that is still running (rounds left) *)
Definition run_of (l : latency) : option N := if 0 <? l_iter l then Some (l_rid l) else None.
(* the pings of a measurement: answered ones, then - while it runs - exactly one outstanding *)
Definition lat_wf (l : latency) : Prop :=
  ∃ A, if 0 <? l_iter l then ∃ x, l_pings l = answered_pings A ++ [(x, false)] else l_pings l = answered_pings A.
Definition wf_all (st : state) : Prop := ∀ c l, latv st c = Some l → lat_wf l.
(* the relation: the predicate's running entries are the model's running measurements, for EVERY connection (in a
   session or not, open or closed, present or not) *)
Definition R1 (st : state) (s : latq) : Prop := ∀ c, lq_run s !! c = latv st c ≫= run_of.

Lemma latv_upd_queue st c q c' : latv (upd_conn c (set_queue q) st) c' = latv st c'.
Proof. unfold latv. rewrite conns_upd_conn. case_decide as Hd; [subst; by destruct (conns st !! c)|done]. Qed.

Lemma ctrans_latv g st st' c : ctrans g st st' → latv st' c = conns st !! c ≫= (λ cn, c_lat (g c cn)).
Proof.
  intros T. specialize (T c). unfold latv.
  destruct (conns st' !! c) as [cn'|], (conns st !! c) as [cn|]; simpl in *; try done.
  assert (E : cv cn' = cv (g c cn)) by congruence. apply cv_eq in E. destruct E as (_&_&_&_&_&E). exact E.
Qed.
Lemma ctrans_latv_same g st st' :
  ctrans g st st' → (∀ c cn, c_lat (g c cn) = c_lat cn) → ∀ c, latv st' c = latv st c.
Proof. intros T H c. rewrite (ctrans_latv _ _ _ _ T). unfold latv. destruct (conns st !! c); simpl; [apply H|done]. Qed.

(* ---------- an answer to a ping ---------- *)
Lemma on_ping_cases st c cn id l :
  c_lat cn = Some l → lat_wf l →
  on_ping st c cn id = (st, [(c, MError id E_INTERNAL)], VOk) ∨
  (0 < l_iter l ∧ ∃ l' st1 id', on_ping st c cn id = (upd_conn c (set_lat (Some l')) st1, [(c, MPingReq id')], VOk) ∧
     conns st1 = conns st ∧ l_rid l' = l_rid l ∧ 0 < l_iter l' ∧ lat_wf l') ∨
  (0 < l_iter l ∧ ∃ l' cnt ids u cl w, on_ping st c cn id =
     (upd_conn c (set_lat (Some l')) st, [(c, MSignedLatencyResp (l_rid l) cnt ids u cl w true true)], VOk) ∧
     l_iter l' = 0 ∧ lat_wf l').
Proof.
  intros Hl [A HA]. unfold on_ping. rewrite Hl.
  destruct (0 <? l_iter l) eqn:Hrun.
  - destruct HA as [x Hp]. apply N.ltb_lt in Hrun. rewrite Hp.
    destruct (decide (id ∈ A)) as [Hin|Hin].
    { destruct (find_answered _ [(x, false)] id Hin) as [i Hi]. rewrite Hi. by left. }
    rewrite (find_pending _ _ _ Hin). simpl.
    destruct (decide (x = id)) as [->|Hne]; [|by left]. simpl. right.
    rewrite Nat.add_0_r.
    assert (Hpred : u32_pred (l_iter l) = l_iter l - 1).
    { unfold u32_pred. destruct (N.eqb_spec (l_iter l) 0); [lia|done]. }
    rewrite Hpred.
    assert (Hins : <[length A := (id, true)]> (answered_pings A ++ [(id, false)]) = answered_pings (A ++ [id])).
    { unfold answered_pings. rewrite map_app. simpl.
      replace (length A) with (length (map (λ id0 : N, (id0, true)) A) + 0)%nat by (rewrite map_length; lia).
      by rewrite insert_app_r. }
    rewrite Hins.
    destruct (0 <? l_iter l - 1) eqn:E.
    + left. split; [done|]. unfold send_ping. simpl. eexists _, _, _. split; [reflexivity|]. simpl.
      split; [done|]. split; [done|]. split; [by apply N.ltb_lt in E|].
      exists (A ++ [id]). simpl. rewrite E. by eexists.
    + right. split; [done|]. eexists _, _, _, _, _, _. split; [reflexivity|]. simpl.
      apply N.ltb_ge in E. split; [lia|]. exists (A ++ [id]). simpl.
      replace (0 <? l_iter l - 1) with false by (symmetry; apply N.ltb_ge; lia). done.
  - left. rewrite HA. destruct (decide (id ∈ A)) as [Hin|Hin].
    + destruct (find_answered _ [] id Hin) as [i Hi]. rewrite app_nil_r in Hi. by rewrite Hi.
    + pose proof (find_pending A [] id Hin) as Hf. rewrite app_nil_r in Hf. by rewrite Hf.
Qed.

(* ================= what one operation of the model does to the measurements ================= *)
(* did connection c get a new participant in this event (a join request answered with a join response)? *)
Definition joined_now (e : event) (c : N) : bool :=
  match stepped e with
  | Some (c', RJoin _ _ _) => (c' =? c) && is_Some_b (join_resp c' (ev_outs e))
  | _ => false end.

(* every operation that is not the consumption of a latency request: a successful join forgets the measurement of
   the joiner, nothing else changes any measurement (a departure, a disconnection do NOT clear it) *)
Lemma latv_frame cfg st o :
  inv st →
  let e := ev_of st o (step cfg st o) in let st' := (step cfg st o).1.1 in
  (∀ c r, stepped e = Some (c, r) → is_lat_req r = false) →
  ∀ c', latv st' c' = if joined_now e c' then None else latv st c'.
Proof.
  intros I e st' Hst c'.
  assert (Hat : ∀ c f st0 st1, ctrans (at_conn c f) st0 st1 → (∀ cn, c_lat (f cn) = c_lat cn) → ∀ c0, latv st1 c0 = latv st0 c0).
  { intros c f st0 st1 T Hf. apply (ctrans_latv_same _ _ _ T). intros c0 cn0. unfold at_conn. case_decide; [apply Hf|done]. }
  assert (Hq : ∀ c f, (∀ cn, c_lat (f cn) = c_lat cn) → latv (upd_conn c f st) c' = latv st c').
  { intros c f Hf. by apply (Hat c f st _ (ctrans_upd_conn st c f)). }
  assert (Hdisc : ∀ c st0, latv (disconnect cfg st0 c).1 c' = latv st0 c').
  { intros c st0. by apply (Hat _ _ _ _ (disconnect_ctrans cfg st0 c)). }
  destruct o as [c|c r|c hint|sid|c|]; unfold e, st', ev_of, joined_now, stepped in *; cbn [step consumed ev_op ev_req ev_verdict ev_outs] in *.
  - (* connect *)
    destruct (conns st !! c) as [cn|] eqn:Hc; [done|]. cbn [fst snd]. unfold latv. simpl.
    destruct (decide (c' = c)) as [->|Hne]; [by rewrite lookup_insert, Hc|by rewrite lookup_insert_ne].
  - (* send *)
    unfold dispatch. destruct (conns st !! c) as [cn|] eqn:Hc; [|done].
    destruct (c_open cn) eqn:Ho; [|done]. cbn [negb].
    destruct r; try (apply Hq; by intros []).
    destruct (ty =? 14); [|apply Hq; by intros []].
    pose proof (Hdisc c st) as Hd. by destruct (disconnect cfg st c) as [st1 o1].
  - (* step *)
    destruct (conns st !! c) as [cn|] eqn:Hc; [|done].
    destruct (c_open cn) eqn:Ho; [|done]. cbn [negb] in *.
    destruct (c_queue cn) as [|r q] eqn:Hq0; [done|]. cbn [head] in *.
    set (st0 := upd_conn c (set_queue q) st) in *.
    assert (Hs0 : same_mem st st0) by (apply same_mem_upd_conn; by intros []).
    assert (I0 : inv st0) by by eapply inv_same_mem.
    assert (Hc0 : conns st0 !! c = Some (set_queue q cn)).
    { unfold st0. rewrite conns_upd_conn_eq, Hc. done. }
    assert (H0 : ∀ c0, latv st0 c0 = latv st c0) by (intros c0; apply latv_upd_queue).
    assert (Hlive : ∀ sid p, c_cur (set_queue q cn) = Some (sid, p) → is_Some (sessions st0 !! sid)).
    { intros sid p Hcur. apply live_session. apply (inv_live _ I0 c sid p). unfold cur_of. by rewrite Hc0. }
    destruct (handle cfg st0 c r hint) as [[st1 o1] v] eqn:Eh.
    pose proof (handle_outcomes cfg st0 c _ r hint st1 o1 v Hc0 Hlive Eh) as HO.
    destruct HO as [Hj -> JO|Hj Hl T Hp|x Hl -> T].
    + (* a join *)
      destruct r; try discriminate Hj. cbn [fst snd].
      destruct JO as [-> Hjr _|T Hjr|n p r u T Hjr]; rewrite Hjr; cbn [is_Some_b].
      * rewrite andb_false_r. apply H0.
      * rewrite andb_false_r. rewrite <- H0. by apply (Hat _ _ _ _ T).
      * rewrite andb_true_r. destruct (N.eqb_spec c c') as [<-|Hne].
        -- rewrite (ctrans_latv _ _ _ _ T), Hc0. simpl. unfold at_conn. by rewrite decide_True.
        -- rewrite <- H0. rewrite (ctrans_latv _ _ _ _ T). unfold latv, at_conn.
           destruct (conns st0 !! c') as [cn'|]; simpl; [|done]. by rewrite decide_False by done.
    + (* any other request *)
      assert (H1 : latv st1 c' = latv st c').
      { rewrite <- H0. by apply (ctrans_latv_same _ _ _ T). }
      destruct v; cbn [fst snd]; try (destruct r; try discriminate Hj; exact H1).
      pose proof (Hdisc c st1) as Hd. destruct (disconnect cfg st1 c) as [st2 o2]. cbn [fst snd] in *. congruence.
    + (* a latency request: excluded *)
      specialize (Hst c r eq_refl). congruence.
  - (* tick *)
    cbn [fst snd]. unfold latv.
    destruct (sessions st !! sid) as [SS|] eqn:HS.
    + rewrite (tick_conns st sid SS c' HS). destruct (conns st !! c') as [cn|]; [|done]. simpl. by case_decide.
    + by rewrite (tick_conns_none st sid HS).
  - (* disconnect *)
    destruct (conns st !! c) as [cn|] eqn:Hc; [|done].
    destruct (c_open cn) eqn:Ho; [|done]. cbn [negb].
    pose proof (Hdisc c st) as Hd. by destruct (disconnect cfg st c) as [st1 o1].
  - (* snapshot *)
    done.
Qed.

(* the consumption of a signed-latency request *)
Lemma step_lat_start cfg st o c rid n w :
  stepped (ev_of st o (step cfg st o)) = Some (c, RSignedLatency rid n w) →
  let st' := (step cfg st o).1.1 in let outs := (step cfg st o).1.2 in
  (∀ c', c' ≠ c → latv st' c' = latv st c') ∧
  (((outs = [] ∨ ∃ k, outs = [(c, MError rid k)]) ∧ latv st' c = latv st c) ∨
   (∃ id l, outs = [(c, MPingReq id)] ∧ latv st' c = Some l ∧ l_rid l = rid ∧ 0 < l_iter l ∧ lat_wf l)).
Proof.
  intros Hst. destruct (step_stepped cfg st o c _ Hst) as (hint&cn&q&st1&o1&v&->&Hc&Ho&Hq&Eh&Hv&Es).
  rewrite Es. cbn [fst snd]. clear Es Hst.
  set (st0 := upd_conn c (set_queue q) st) in *.
  assert (Hc0 : conns st0 !! c = Some (set_queue q cn)).
  { unfold st0. rewrite conns_upd_conn_eq, Hc. done. }
  assert (H0 : ∀ c0, latv st0 c0 = latv st c0) by (intros c0; apply latv_upd_queue).
  unfold handle in Eh. rewrite Hc0 in Eh. change (c_cur (set_queue q cn)) with (c_cur cn) in Eh.
  destruct (c_cur cn) as [[sid p]|].
  - destruct (sessions st0 !! sid) as [SS|].
    2:{ injection Eh as <- <- <-. split; [intros; apply H0|]. left. split; [by left|apply H0]. }
    simpl in Eh. destruct ((n <? lat_min) || (lat_max <? n)) eqn:E1.
    { injection Eh as <- <- <-. split; [intros; apply H0|]. left. split; [right; by eexists|apply H0]. }
    destruct (w =? 0) eqn:E2.
    { injection Eh as <- <- <-. split; [intros; apply H0|]. left. split; [right; by eexists|apply H0]. }
    unfold send_ping in Eh. injection Eh as <- <- <-. split.
    + intros c' Hne. rewrite <- H0. unfold latv. by rewrite conns_upd_conn_ne.
    + right. eexists _, _. split; [reflexivity|]. split.
      { unfold latv. rewrite conns_upd_conn_eq. cbn [conns]. rewrite Hc, lookup_insert. reflexivity. }
      simpl. split; [done|].
      apply orb_false_iff in E1 as [E1a E1b]. apply N.ltb_ge in E1a. unfold lat_min in E1a.
      split; [lia|]. exists []. simpl. replace (0 <? n) with true by (symmetry; apply N.ltb_lt; lia). by eexists.
  - simpl in Eh. injection Eh as <- <- <-. split; [intros; apply H0|]. left. split; [right; by eexists|apply H0].
Qed.

(* the consumption of an answer to a ping *)
Lemma step_lat_answer cfg st o c id :
  inv st → wf_all st →
  stepped (ev_of st o (step cfg st o)) = Some (c, RPingResp id) →
  let st' := (step cfg st o).1.1 in let outs := (step cfg st o).1.2 in
  (∀ c', c' ≠ c → latv st' c' = latv st c') ∧ (∀ l', latv st' c = Some l' → lat_wf l') ∧
  ((lat_responses outs = [] ∧ latv st' c ≫= run_of = latv st c ≫= run_of) ∨
   (∃ l l', latv st c = Some l ∧ 0 < l_iter l ∧ lat_responses outs = [(c, l_rid l)] ∧
            latv st' c = Some l' ∧ l_iter l' = 0)).
Proof.
  intros I W Hst. destruct (step_stepped cfg st o c _ Hst) as (hint&cn&q&st1&o1&v&->&Hc&Ho&Hq&Eh&Hv&Es).
  rewrite Es. cbn [fst snd]. clear Es Hst.
  set (st0 := upd_conn c (set_queue q) st) in *.
  assert (Hc0 : conns st0 !! c = Some (set_queue q cn)).
  { unfold st0. rewrite conns_upd_conn_eq, Hc. done. }
  assert (H0 : ∀ c0, latv st0 c0 = latv st c0) by (intros c0; apply latv_upd_queue).
  assert (Hsame : ∀ o1, lat_responses o1 = [] →
    (∀ c', c' ≠ c → latv st0 c' = latv st c') ∧ (∀ l', latv st0 c = Some l' → lat_wf l') ∧
    ((lat_responses o1 = [] ∧ latv st0 c ≫= run_of = latv st c ≫= run_of) ∨
     (∃ l l', latv st c = Some l ∧ 0 < l_iter l ∧ lat_responses o1 = [(c, l_rid l)] ∧
              latv st0 c = Some l' ∧ l_iter l' = 0))).
  { intros o2 Ho2. split; [intros; apply H0|]. split; [intros l'; rewrite H0; apply W|]. left. by rewrite H0. }
  unfold handle in Eh. rewrite Hc0 in Eh. change (c_cur (set_queue q cn)) with (c_cur cn) in Eh.
  destruct (c_cur cn) as [[sid p]|].
  2:{ simpl in Eh. injection Eh as <- <- <-. by apply Hsame. }
  destruct (sessions st0 !! sid) as [SS|].
  2:{ injection Eh as <- <- <-. by apply Hsame. }
  simpl in Eh. change (c_lat (set_queue q cn)) with (c_lat cn) in *.
  destruct (c_lat cn) as [l|] eqn:Hl.
  2:{ unfold on_ping in Eh. simpl in Eh. rewrite Hl in Eh. injection Eh as <- <- <-. by apply Hsame. }
  assert (Hlv : latv st c = Some l) by (unfold latv; rewrite Hc; exact Hl).
  pose proof (W c l Hlv) as Wl.
  destruct (on_ping_cases st0 c (set_queue q cn) id l Hl Wl) as [Hop|[(Hrun&l'&st2&id'&Hop&Hcn&Hrid&Hrun'&Wl')|(Hrun&l'&cnt&ids&u&cl&w&Hop&Hfin&Wl')]];
    rewrite Hop in Eh; injection Eh as <- <- <-.
  - by apply Hsame.
  - assert (Hl' : latv (upd_conn c (set_lat (Some l')) st2) c = Some l').
    { unfold latv. rewrite conns_upd_conn_eq, Hcn, Hc0. reflexivity. }
    split.
    { intros c' Hne. rewrite <- H0. unfold latv. by rewrite conns_upd_conn_ne, Hcn. }
    split; [intros l2; rewrite Hl'; by intros [= <-]|].
    left. split; [done|]. rewrite Hl', Hlv. simpl. unfold run_of.
    replace (0 <? l_iter l') with true by (symmetry; by apply N.ltb_lt).
    replace (0 <? l_iter l) with true by (symmetry; by apply N.ltb_lt). by rewrite Hrid.
  - assert (Hl' : latv (upd_conn c (set_lat (Some l')) st0) c = Some l').
    { unfold latv. rewrite conns_upd_conn_eq, Hc0. reflexivity. }
    split.
    { intros c' Hne. rewrite <- H0. unfold latv. by rewrite conns_upd_conn_ne. }
    split; [intros l2; rewrite Hl'; by intros [= <-]|].
    right. exists l, l'. by repeat split.
Qed.

(* ================= the predicate's event function, case by case ================= *)
Lemma lat_responses_quiet_qs outs : qs is_lat outs → lat_responses outs = [].
Proof.
  unfold lat_responses. induction 1 as [|[c m] l Hm _ IH]; [done|]. simpl in Hm.
  destruct m; try discriminate Hm; simpl; exact IH.
Qed.

Lemma fold_delete_lookup (resp : list (N * N)) (m : gmap N N) c :
  fold_left (λ m cr, delete (fst cr : N) m) resp m !! c = if bool_decide (c ∈ map fst resp) then None else m !! c.
Proof.
  revert m. induction resp as [|[c0 r0] resp IH]; intros m; simpl; [done|].
  rewrite IH. destruct (decide (c = c0)) as [->|Hne].
  - rewrite lookup_delete. rewrite (bool_decide_eq_true_2 (c0 ∈ c0 :: map fst resp)) by set_solver. by case_bool_decide.
  - rewrite lookup_delete_ne by done. repeat case_bool_decide; set_solver.
Qed.

(* the running entries after an event that consumes no signed-latency request and delivers no response *)
Lemma ev_run_other cfg i sp sp' s e :
  (∀ c rid n w, stepped e ≠ Some (c, RSignedLatency rid n w)) → lat_responses (ev_outs e) = [] →
  ∀ c', lq_run (P_C04_lat_event cfg i sp sp' s e).1 !! c' = if joined_now e c' then None else lq_run s !! c'.
Proof.
  intros Hn Hr c'. unfold P_C04_lat_event, joined_now. rewrite Hr. cbn [fold_left fst].
  destruct (stepped e) as [[c r]|] eqn:Hst; [|done].
  destruct r; try done.
  - exfalso. eapply Hn. reflexivity.
  - destruct (is_Some_b (join_resp c (ev_outs e))); cbn [lq_run].
    + rewrite andb_true_r. destruct (N.eqb_spec c c') as [->|Hne]; [by rewrite lookup_delete|by rewrite lookup_delete_ne].
    + by rewrite andb_false_r.
Qed.

Definition run1_of (s : latq) (e : event) : gmap N N :=
  fold_left (λ m cr, delete (fst cr : N) m) (lat_responses (ev_outs e)) (lq_run s).

(* ... after the consumption of a signed-latency request *)
Lemma ev_run_lat_req cfg i sp sp' s e c rid n w :
  stepped e = Some (c, RSignedLatency rid n w) →
  lq_run (P_C04_lat_event cfg i sp sp' s e).1 =
    if has_msg c (ev_outs e) (λ m, match m with MError r _ => r =? rid | _ => false end) then run1_of s e
    else if has_msg c (ev_outs e) (λ m, match m with MPingReq _ => true | _ => false end) then <[c := rid]> (run1_of s e)
    else run1_of s e.
Proof.
  intros Hst. unfold P_C04_lat_event, run1_of. rewrite Hst. cbn [fst].
  destruct (has_msg c (ev_outs e) _); [done|]. by destruct (has_msg c (ev_outs e) _).
Qed.
(* ... after the consumption of an answer to a ping *)
Lemma ev_run_ping cfg i sp sp' s e c id :
  stepped e = Some (c, RPingResp id) → lq_run (P_C04_lat_event cfg i sp sp' s e).1 = run1_of s e.
Proof. intros Hst. unfold P_C04_lat_event, run1_of. by rewrite Hst. Qed.

(* ================= one step: the relation is kept, every response echoes the running measurement ================= *)
Lemma lat_step_ok cfg st o i sp sp' s :
  inv st → wf_all st → R1 st s →
  let e := ev_of st o (step cfg st o) in
  wf_all (step cfg st o).1.1 ∧ R1 (step cfg st o).1.1 (P_C04_lat_event cfg i sp sp' s e).1 ∧
  (∀ cr, cr ∈ lat_responses (ev_outs e) → lq_run s !! cr.1 = Some cr.2).
Proof.
  intros I W R e.
  assert (Hgen : (∀ c r, stepped e = Some (c, r) → is_lat_req r = false) →
    wf_all (step cfg st o).1.1 ∧ R1 (step cfg st o).1.1 (P_C04_lat_event cfg i sp sp' s e).1 ∧
    (∀ cr, cr ∈ lat_responses (ev_outs e) → lq_run s !! cr.1 = Some cr.2)).
  { intros Hnl. pose proof (latv_frame cfg st o I Hnl) as F. fold e in F.
    pose proof (lat_quiet_step cfg st o Hnl) as Q. apply lat_responses_quiet_qs in Q.
    change ((step cfg st o).1.2) with (ev_outs e) in Q.
    split; [|split].
    - intros c' l. rewrite F. destruct (joined_now e c'); [done|apply W].
    - intros c'. rewrite ev_run_other; [|intros c0 rid n w Hs; by specialize (Hnl _ _ Hs)|exact Q].
      rewrite F. destruct (joined_now e c'); [done|apply R].
    - rewrite Q. by intros cr ?%elem_of_nil. }
  destruct (stepped e) as [[c r]|] eqn:Hst; [|apply Hgen; by intros].
  destruct (is_lat_req r) eqn:Hl; [|apply Hgen; by intros c' r' [= <- <-]].
  clear Hgen. destruct r; try discriminate Hl.
  - (* an answer to a ping *)
    destruct (step_lat_answer cfg st o c rid I W Hst) as (Hoth&Wc&Hcase).
    change ((step cfg st o).1.2) with (ev_outs e) in Hcase.
    assert (W' : wf_all (step cfg st o).1.1).
    { intros c' l'. destruct (decide (c' = c)) as [->|Hne]; [apply Wc|rewrite Hoth by done; apply W]. }
    split; [exact W'|]. pose proof (ev_run_ping cfg i sp sp' s e c rid Hst) as Erun. unfold run1_of in Erun.
    destruct Hcase as [[Hr Heq]|(l&l'&Hlv&Hrun&Hr&Hlv'&Hfin)]; rewrite Hr in Erun |- *; cbn [fold_left fst] in Erun.
    + split; [|by intros cr ?%elem_of_nil].
      intros c'. rewrite Erun. destruct (decide (c' = c)) as [->|Hne]; [by rewrite R, Heq|by rewrite R, Hoth].
    + split.
      * intros c'. rewrite Erun. destruct (decide (c' = c)) as [->|Hne].
        -- rewrite lookup_delete, Hlv'. simpl. unfold run_of. by rewrite Hfin.
        -- rewrite lookup_delete_ne by done. by rewrite R, Hoth.
      * intros cr ->%elem_of_list_singleton. cbn [fst snd]. rewrite R, Hlv. simpl. unfold run_of.
        by replace (0 <? l_iter l) with true by (symmetry; by apply N.ltb_lt).
  - (* a signed-latency request *)
    destruct (step_lat_start cfg st o c rid n wallet Hst) as [Hoth Hcase].
    change ((step cfg st o).1.2) with (ev_outs e) in Hcase.
    pose proof (ev_run_lat_req cfg i sp sp' s e c rid n wallet Hst) as Erun. unfold run1_of in Erun.
    destruct Hcase as [[Hout Hsame]|(id&l&Hout&Hlv&Hrid&Hrun&Wl)].
    + assert (Hr : lat_responses (ev_outs e) = []) by (destruct Hout as [-> |[k ->]]; reflexivity).
      rewrite Hr in Erun |- *. cbn [fold_left] in Erun. split; [|split; [|by intros cr ?%elem_of_nil]].
      * intros c' l'. destruct (decide (c' = c)) as [->|Hne]; [rewrite Hsame|rewrite Hoth by done]; apply W.
      * assert (R' : ∀ s', lq_run s' = lq_run s → R1 (step cfg st o).1.1 s').
        { intros s' Hs' c'. rewrite Hs'. destruct (decide (c' = c)) as [->|Hne]; [by rewrite R, Hsame|by rewrite R, Hoth]. }
        apply R'. rewrite Erun.
        destruct (has_msg c (ev_outs e) _); [done|].
        destruct (has_msg c (ev_outs e) _) eqn:Hp; [|done].
        exfalso. destruct Hout as [Hout|[k Hout]]; rewrite Hout in Hp; unfold has_msg in Hp; simpl in Hp;
          [done|by rewrite andb_false_r in Hp].
    + rewrite Hout in Erun |- *. unfold has_msg in Erun. cbn [existsb fst snd lat_responses omap fold_left] in Erun.
      rewrite N.eqb_refl in Erun. cbn [andb orb] in Erun.
      split; [|split; [|by intros cr ?%elem_of_nil]].
      * intros c' l'. destruct (decide (c' = c)) as [->|Hne]; [|rewrite Hoth by done; apply W].
        rewrite Hlv. by intros [= <-].
      * intros c'. rewrite Erun. destruct (decide (c' = c)) as [->|Hne].
        -- rewrite lookup_insert, Hlv. simpl. unfold run_of.
           replace (0 <? l_iter l) with true by (symmetry; by apply N.ltb_lt). by rewrite Hrid.
        -- rewrite lookup_insert_ne by done. by rewrite R, Hoth.
Qed.

(* ================= the refused ids: the side condition ================= *)
(* the signed-latency request an event consumes: (connection, request id) *)
Definition lat_req_of (e : event) : option (N * N) :=
  match stepped e with Some (c, RSignedLatency rid _ _) => Some (c, rid) | _ => None end.
Definition lat_reqs (t : trace) : list (N * N) := omap lat_req_of t.
(* the signed-latency requests consumed on one connection carry pairwise distinct request ids *)
Definition uniq_lat_rids (t : trace) : Prop := NoDup (lat_reqs t).
Global Instance uniq_lat_rids_dec t : Decision (uniq_lat_rids t).
Proof. unfold uniq_lat_rids. apply _. Defined.
Global Typeclasses Opaque uniq_lat_rids.

(* what the predicate remembers concerns requests of the trace so far (K), and - as long as no id was used twice on a
   connection - the running measurement is not one of the refused requests *)
Record R2 (K : list (N * N)) (s : latq) : Prop := {
  r2_refused : ∀ c r, r ∈ default ∅ (lq_refused s !! c) → (c, r) ∈ K;
  r2_run : ∀ c r, lq_run s !! c = Some r → (c, r) ∈ K;
  r2_sep : ∀ c r, lq_run s !! c = Some r → r ∉ default ∅ (lq_refused s !! c)
}.

Lemma R2_weaken K K' s s' :
  R2 K s → (∀ c r, lq_run s' !! c = Some r → lq_run s !! c = Some r) → lq_refused s' = lq_refused s →
  (∀ x, x ∈ K → x ∈ K') → R2 K' s'.
Proof.
  intros [H1 H2 H3] Hr Hf HK. split.
  - intros c r. rewrite Hf. eauto.
  - intros c r Hc. eauto.
  - intros c r Hc. rewrite Hf. eauto.
Qed.

(* purely about the predicate: any event whatsoever *)
Lemma R2_step cfg i sp sp' s e K :
  R2 K s → (∀ cr, lat_req_of e = Some cr → cr ∉ K) →
  R2 (K ++ lat_reqs [e]) (P_C04_lat_event cfg i sp sp' s e).1.
Proof.
  intros R Hfresh.
  assert (Hrun1 : ∀ c r, run1_of s e !! c = Some r → lq_run s !! c = Some r).
  { intros c r. unfold run1_of. rewrite fold_delete_lookup. by case_bool_decide. }
  assert (Hweak : ∀ s', (∀ c r, lq_run s' !! c = Some r → run1_of s e !! c = Some r) → lq_refused s' = lq_refused s →
    R2 (K ++ lat_reqs [e]) s').
  { intros s' H1 H2. eapply R2_weaken; [exact R| |exact H2|].
    - intros c r Hc. apply Hrun1, H1, Hc.
    - intros x Hx. apply elem_of_app. by left. }
  unfold P_C04_lat_event. cbn [fst]. fold (run1_of s e).
  destruct (stepped e) as [[c r]|] eqn:Hst; [|by apply Hweak].
  destruct r; try (by apply Hweak).
  - (* a signed-latency request *)
    assert (HK : lat_reqs [e] = [(c, rid)]). { unfold lat_reqs, lat_req_of. simpl. by rewrite Hst. }
    assert (Hf : (c, rid) ∉ K). { apply Hfresh. unfold lat_req_of. by rewrite Hst. }
    destruct R as [H1 H2 H3].
    destruct (has_msg c (ev_outs e) _).
    + (* refused *)
      rewrite HK. split; cbn [lq_run lq_refused].
      * intros c' r. destruct (decide (c' = c)) as [->|Hne].
        -- rewrite lookup_insert. simpl. intros [Hr| ->%elem_of_singleton]%elem_of_union; apply elem_of_app;
             [left; by apply H1|right; by apply elem_of_list_singleton].
        -- rewrite lookup_insert_ne by done. intros Hr. apply elem_of_app. left. by apply H1.
      * intros c' r Hc. apply elem_of_app. left. apply H2. by apply Hrun1.
      * intros c' r Hc. apply Hrun1 in Hc. destruct (decide (c' = c)) as [->|Hne].
        -- rewrite lookup_insert. simpl. intros [Hr| ->%elem_of_singleton]%elem_of_union; [by apply (H3 c r)|].
           apply Hf. by apply H2.
        -- rewrite lookup_insert_ne by done. by apply H3.
    + destruct (has_msg c (ev_outs e) _); [|by apply Hweak].
      (* accepted *)
      rewrite HK. split; cbn [lq_run lq_refused].
      * intros c' r Hr. apply elem_of_app. left. by apply H1.
      * intros c' r. destruct (decide (c' = c)) as [->|Hne].
        -- rewrite lookup_insert. intros [= <-]. apply elem_of_app. right. by apply elem_of_list_singleton.
        -- rewrite lookup_insert_ne by done. intros Hc. apply elem_of_app. left. apply H2. by apply Hrun1.
      * intros c' r. destruct (decide (c' = c)) as [->|Hne].
        -- rewrite lookup_insert. intros [= <-] Hr. apply Hf. by apply H1.
        -- rewrite lookup_insert_ne by done. intros Hc. apply H3. by apply Hrun1.
  - (* a join *)
    destruct (is_Some_b _); apply Hweak; cbn [lq_run lq_refused]; try done.
    intros c' r [_ Hc]%lookup_delete_Some. exact Hc.
Qed.

Lemma lat_bad_nil cfg i sp sp' s e K :
  R2 K s → (∀ cr, cr ∈ lat_responses (ev_outs e) → lq_run s !! cr.1 = Some cr.2) →
  (P_C04_lat_event cfg i sp sp' s e).2 = [].
Proof.
  intros [_ _ H3] H. unfold P_C04_lat_event. cbn [snd].
  revert H. generalize (lat_responses (ev_outs e)). intros resp Hr.
  induction resp as [|cr resp IH]; [done|]. simpl. rewrite IH by (intros cr' Hcr'; apply Hr; by right).
  assert (Hcr : lq_run s !! cr.1 = Some cr.2) by (apply Hr; by left).
  rewrite (bool_decide_eq_true_2 _ Hcr). rewrite (bool_decide_eq_false_2 _ (H3 _ _ Hcr)). done.
Qed.

(* ================= every history ================= *)
(* the predicate's bookkeeping after a trace *)
Definition latq_state (cfg : config) (t : trace) : latq := xstate (P_C04_lat_event cfg) 0 spec0 latq0 t.

Theorem model_lat_rel cfg h :
  short h →
  wf_all (final cfg h) ∧ R1 (final cfg h) (latq_state cfg (run cfg h)) ∧
  (uniq_lat_rids (run cfg h) →
     P_C04_lat cfg (run cfg h) = [] ∧ R2 (lat_reqs (run cfg h)) (latq_state cfg (run cfg h))).
Proof.
  induction h as [|o h IH] using rev_ind; intros Hs.
  { split; [intros c l; unfold latv; simpl; by rewrite lookup_empty|].
    split; [intros c; unfold latv; simpl; by rewrite !lookup_empty|].
    intros _. split; [done|]. split; simpl; intros c r; rewrite lookup_empty; simpl; [by intros ?%elem_of_empty|done|done]. }
  apply short_snoc in Hs as [Hs Hb]. destruct (IH Hs) as (W&R&IH3).
  destruct (reachable_inv cfg h state0 0 inv_state0 bounded_state0) as [I B]; [unfold short in Hs; lia|].
  unfold P_C04_lat, latq_state in *.
  rewrite run_snoc, xscan_snoc, xstate_snoc, final_snoc.
  change (fold_left spec_step (run cfg h) spec0) with (spec_after (run cfg h)).
  set (sp := spec_after (run cfg h)) in *. set (st := final cfg h) in *.
  set (s := xstate (P_C04_lat_event cfg) 0 spec0 latq0 (run cfg h)) in *.
  set (e := ev_of st o (step cfg st o)).
  destruct (lat_step_ok cfg st o (0 + length (run cfg h)) sp (spec_step sp e) s I W R) as (W'&R'&Hresp).
  fold e in R', Hresp.
  split; [exact W'|]. split; [exact R'|].
  intros U. unfold uniq_lat_rids, lat_reqs in U. rewrite omap_app in U. apply NoDup_app in U as (U1&U2&_).
  destruct (IH3 U1) as [C1 C2]. rewrite C1. cbn [app]. split.
  - eapply lat_bad_nil; [exact C2|exact Hresp].
  - unfold lat_reqs at 1. rewrite omap_app. apply R2_step; [exact C2|].
    intros cr Hcr Hin. apply (U2 cr Hin). simpl. rewrite Hcr. by left.
Qed.

Theorem model_passes_C04_lat cfg h : short h → uniq_lat_rids (run cfg h) → P_C04_lat cfg (run cfg h) = [].
Proof. intros Hs U. destruct (model_lat_rel cfg h Hs) as (_&_&H). by destruct (H U). Qed.

(* the model-level content of the clause, unconditional: every SIGNED_LATENCY_RESPONSE the model delivers goes to a
   connection with a running measurement and echoes that measurement's request id *)
Theorem model_lat_responses cfg h o :
  short (h ++ [o]) →
  let st := final cfg h in let e := ev_of st o (step cfg st o) in
  ∀ c rid, (c, rid) ∈ lat_responses (ev_outs e) → latv st c ≫= run_of = Some rid.
Proof.
  intros Hs st e c rid Hin. apply short_snoc in Hs as [Hs Hb]. destruct (model_lat_rel cfg h Hs) as (W&R&_).
  destruct (reachable_inv cfg h state0 0 inv_state0 bounded_state0) as [I B]; [unfold short in Hs; lia|].
  destruct (lat_step_ok cfg (final cfg h) o 0 spec0 spec0 _ I W R) as (_&_&Hresp).
  unfold st, e in *. rewrite <- (R c). exact (Hresp (c, rid) Hin).
Qed.

(* ================= the predicate the C04 check evaluates ================= *)
Theorem model_passes_C04_full cfg h : short h → uniq_lat_rids (run cfg h) → P_C04_full cfg (run cfg h) = [].
Proof.
  intros Hs U. unfold P_C04_full. by rewrite (model_passes_C04 cfg h Hs), (model_passes_C04_lat cfg h Hs U).
Qed.

(* ================= the side condition cannot be dropped ================= *)
(* connection 1 joins; a signed-latency request with id 5 is refused (0 rounds); the SAME id 5 is then used for a
   request that is accepted; its three pings are answered; the response echoes 5 - correctly -, and 5 is in
   [lq_refused]: clause 450 fires on the model's own trace.  13 operations; no shorter history can be flagged (a
   response needs a connection, a join, an accepted request and at least 3 answers, the refusal one more request,
   each request two operations). *)
Definition lat_cfg : config := {| cfg_flags := []; cfg_vikja := true; cfg_odal := true; cfg_dagaz := false |}.
Definition lat_reuse : list op :=
  [OConnect 1; OSend 1 (RJoin 1 SNew 1); OStep 1 0;
   OSend 1 (RSignedLatency 5 0 1); OStep 1 0;
   OSend 1 (RSignedLatency 5 3 77); OStep 1 0;
   OSend 1 (RPingResp 1); OStep 1 0; OSend 1 (RPingResp 2); OStep 1 0; OSend 1 (RPingResp 3); OStep 1 0].

Theorem C04_lat_refuted :
  ∃ cfg h, short h ∧ lat_reqs (run cfg h) = [(1, 5); (1, 5)] ∧
    map (λ v, (v_index v, v_code v, v_info v)) (P_C04_lat cfg (run cfg h)) = [(12%nat, 450%Z, [1%Z; 5%Z])] ∧
    P_C04 cfg (run cfg h) = [].
Proof. exists lat_cfg, lat_reuse. vm_compute. repeat split; reflexivity. Qed.

(* a violation on the model's own trace always is such a reuse *)
Theorem C04_lat_violation_is_reuse cfg h : short h → P_C04_lat cfg (run cfg h) ≠ [] → ¬ uniq_lat_rids (run cfg h).
Proof. intros Hs Hv U. by apply Hv, model_passes_C04_lat. Qed.

(* ================= the side condition, stated on the operations of the history ================= *)
(* What the harness controls is what it SENDS.  A request sent once is queued at most once and consumed at most once,
   so: if the signed-latency requests sent on one connection carry pairwise distinct ids, so do the consumed ones. *)
Definition lat_rid_of (r : req) : option N := match r with RSignedLatency rid _ _ => Some rid | _ => None end.
Definition send_of (o : op) : option (N * N) := match o with OSend c r => pair c <$> lat_rid_of r | _ => None end.
Definition lat_sends (h : list op) : list (N * N) := omap send_of h.
Definition uniq_lat_sends (h : list op) : Prop := NoDup (lat_sends h).
Global Instance uniq_lat_sends_dec h : Decision (uniq_lat_sends h).
Proof. unfold uniq_lat_sends. apply _. Defined.
Global Typeclasses Opaque uniq_lat_sends.

(* the signed-latency requests waiting in a queue *)
Definition qlat (c : N) (q : list req) : list (N * N) := omap (λ r, pair c <$> lat_rid_of r) q.
Definition queue_of (st : state) (c : N) : list req := match conns st !! c with Some cn => c_queue cn | None => [] end.
Definition on (c : N) (l : list (N * N)) : list (N * N) := filter (λ cr : N * N, cr.1 = c) l.

Lemma submseteq_NoDup {A} (l k : list A) : l ⊆+ k → NoDup k → NoDup l.
Proof.
  induction 1 as [|x l1 l2 Hs IH|x y l|x l1 l2 Hs IH|l1 l2 l3 H1 IH1 H2 IH2]; intros Hk.
  - done.
  - apply NoDup_cons in Hk as [Hx Hk]. apply NoDup_cons. split; [|by apply IH].
    intros Hin. apply Hx. by eapply elem_of_submseteq.
  - apply NoDup_cons in Hk as [Hx Hk]. apply NoDup_cons in Hk as [Hy Hk].
    apply NoDup_cons. split; [set_solver|]. apply NoDup_cons. split; [set_solver|done].
  - apply NoDup_cons in Hk as [_ Hk]. by apply IH.
  - by apply IH1, IH2.
Qed.

Lemma NoDup_on_all (l : list (N * N)) : (∀ c, NoDup (on c l)) → NoDup l.
Proof.
  induction l as [|x l IH]; intros H; [constructor|].
  apply NoDup_cons. split.
  - specialize (H x.1). unfold on in H. rewrite filter_cons_True in H by done. apply NoDup_cons in H as [H _].
    intros Hin. apply H. by apply elem_of_list_filter.
  - apply IH. intros c. specialize (H c). unfold on in *. rewrite filter_cons in H. case_decide; [|done].
    by apply NoDup_cons in H as [_ H].
Qed.

Lemma qlat_app c q1 q2 : qlat c (q1 ++ q2) = qlat c q1 ++ qlat c q2.
Proof. apply omap_app. Qed.
Lemma qlat_cons c r q : qlat c (r :: q) = match lat_rid_of r with Some rid => (c, rid) :: qlat c q | None => qlat c q end.
Proof. unfold qlat. simpl. by destruct (lat_rid_of r). Qed.
Lemma qlat_none c q : Forall (λ r, lat_rid_of r = None) q → qlat c q = [].
Proof. induction 1 as [|r q Hr _ IH]; [done|]. by rewrite qlat_cons, Hr. Qed.
Lemma on_qlat c q : on c (qlat c q) = qlat c q.
Proof.
  induction q as [|r q IH]; [done|]. rewrite qlat_cons. destruct (lat_rid_of r); [|done].
  unfold on in *. rewrite filter_cons_True by done. by rewrite IH.
Qed.
Lemma on_other c c0 rid : c ≠ c0 → on c [(c0, rid)] = [].
Proof. intros Hne. unfold on. rewrite filter_cons_False; [done|]. simpl. congruence. Qed.

Lemma same_sv_queue st st' c : same_sv_at st st' c → queue_of st' c = queue_of st c.
Proof.
  unfold same_sv_at, queue_of. destruct (conns st' !! c) as [a|], (conns st !! c) as [b|]; simpl; try done.
  intros H. assert (H' : sv a = sv b) by congruence. by apply sv_eq in H' as (_&H2&_&_).
Qed.
Lemma queue_upd st c0 f c :
  queue_of (upd_conn c0 f st) c =
  if decide (c = c0) then match conns st !! c0 with Some cn => c_queue (f cn) | None => [] end else queue_of st c.
Proof. unfold queue_of. rewrite conns_upd_conn. case_decide; [|done]. by destruct (conns st !! c0). Qed.
Lemma disconnect_queue cfg st c0 c :
  queue_of (disconnect cfg st c0).1 c = if decide (c = c0) then [] else queue_of st c.
Proof.
  pose proof (disconnect_ctrans cfg st c0 c) as T. unfold queue_of.
  destruct (conns (disconnect cfg st c0).1 !! c) as [a|], (conns st !! c) as [b|]; simpl in T; try done.
  - assert (T' : cv a = cv (at_conn c0 (λ cn, set_queue [] (set_open false (set_cur None cn))) c b)) by congruence.
    apply cv_eq in T' as (_&_&T'&_). rewrite T'. unfold at_conn. by case_decide.
  - by case_decide.
Qed.

Lemma lat_req_of_step c0 hint r o v :
  v = VOk ∨ v = VSkip →
  lat_reqs [{| ev_op := OStep c0 hint; ev_req := Some r; ev_outs := o; ev_verdict := v |}] =
  match lat_rid_of r with Some rid => [(c0, rid)] | None => [] end.
Proof. intros [-> | ->]; by destruct r. Qed.

(* one operation: what is newly consumed and what is still queued was queued before or is newly sent *)
Lemma queue_step cfg st o :
  inv st → (∀ c cn, conns st !! c = Some cn → conn_ok cn) →
  let e := ev_of st o (step cfg st o) in let st' := (step cfg st o).1.1 in
  ∀ c, on c (lat_reqs [e]) ++ qlat c (queue_of st' c) ⊆+ qlat c (queue_of st c) ++ on c (lat_sends [o]).
Proof.
  intros I OK e st' c.
  assert (HA : ∀ (st1 : state) Y, queue_of st1 c = queue_of st c → [] ++ qlat c (queue_of st1 c) ⊆+ qlat c (queue_of st c) ++ Y).
  { intros st1 Y ->. by apply submseteq_inserts_r. }
  assert (HB : ∀ (st1 : state) Y, queue_of st1 c = [] → [] ++ qlat c (queue_of st1 c) ⊆+ qlat c (queue_of st c) ++ Y).
  { intros st1 Y ->. apply submseteq_nil_l. }
  assert (Hdisc : ∀ st0 c0 Y, queue_of st0 c = queue_of st c ∨ c = c0 →
    [] ++ qlat c (queue_of (disconnect cfg st0 c0).1 c) ⊆+ qlat c (queue_of st c) ++ Y).
  { intros st0 c0 Y H0. pose proof (disconnect_queue cfg st0 c0 c) as Hd. case_decide as Hdc.
    - by apply HB.
    - apply HA. rewrite Hd. by destruct H0. }
  destruct o as [c0|c0 r|c0 hint|sid|c0|]; unfold e, st', ev_of in *; cbn [step consumed] in *.
  - (* connect *)
    destruct (conns st !! c0) as [cn|] eqn:Hc; [by apply HA|]. apply HA. unfold queue_of. simpl.
    destruct (decide (c = c0)) as [->|Hne]; [by rewrite lookup_insert, Hc|by rewrite lookup_insert_ne].
  - (* send *)
    unfold dispatch. destruct (conns st !! c0) as [cn|] eqn:Hc; [|by apply HA].
    destruct (c_open cn) eqn:Ho; [|by apply HA]. cbn [negb].
    assert (Henq : [] ++ qlat c (queue_of (upd_conn c0 (λ cn0, set_queue (c_queue cn0 ++ [r]) cn0) st) c) ⊆+
                   qlat c (queue_of st c) ++ on c (lat_sends [OSend c0 r])).
    { rewrite queue_upd. case_decide as Hd.
      - subst c. unfold queue_of. rewrite Hc. simpl. rewrite qlat_app.
        apply submseteq_skips_l. unfold lat_sends, qlat. simpl. destruct (lat_rid_of r); simpl; [|done].
        unfold on. by rewrite filter_cons_True.
      - by apply submseteq_inserts_r. }
    assert (Hpend : ∀ f, (∀ cn0, c_queue (f cn0) = c_queue cn0) →
      [] ++ qlat c (queue_of (upd_conn c0 f st) c) ⊆+ qlat c (queue_of st c) ++ on c (lat_sends [OSend c0 r])).
    { intros f Hf. apply HA. rewrite queue_upd. case_decide as Hd; [|done]. subst c. unfold queue_of. by rewrite Hc, Hf. }
    destruct r; try exact Henq; try (apply Hpend; by intros []).
    destruct (ty =? 14); [|exact Henq].
    pose proof (Hdisc st c0 (on c (lat_sends [OSend c0 (RUndecodable ty)])) (or_introl eq_refl)) as Hd.
    by destruct (disconnect cfg st c0) as [st1 o1].
  - (* step *)
    destruct (conns st !! c0) as [cn|] eqn:Hc; [|by apply HA].
    destruct (c_open cn) eqn:Ho; [|by apply HA]. cbn [negb].
    destruct (c_queue cn) as [|r q] eqn:Hq; [by apply HA|]. cbn [head].
    set (st0 := upd_conn c0 (set_queue q) st) in *.
    assert (Hs0 : same_mem st st0) by (apply same_mem_upd_conn; by intros []).
    assert (I0 : inv st0) by by eapply inv_same_mem.
    assert (Hc0 : conns st0 !! c0 = Some (set_queue q cn)) by (unfold st0; by rewrite conns_upd_conn_eq, Hc).
    assert (Hlive0 : ∀ sid p, c_cur (set_queue q cn) = Some (sid, p) → is_Some (sessions st0 !! sid)).
    { intros sid p Hcur. apply live_session. apply (inv_live _ I0 c0 sid p). unfold cur_of. by rewrite Hc0. }
    destruct (handle cfg st0 c0 r hint) as [[st1 o1] v] eqn:Eh.
    pose proof (handle_sv cfg st0 c0 _ r hint st1 o1 v Hc0 Hlive0 Eh c) as Hsv.
    assert (Q1 : queue_of st1 c = if decide (c = c0) then q else queue_of st c).
    { rewrite (same_sv_queue _ _ _ Hsv). unfold st0. rewrite queue_upd. case_decide; [by rewrite Hc|done]. }
    assert (Qc : c = c0 → queue_of st c = r :: q). { intros ->. unfold queue_of. by rewrite Hc. }
    assert (Hcons : ∀ o2, v = VOk ∨ v = VSkip →
      on c (lat_reqs [{| ev_op := OStep c0 hint; ev_req := Some r; ev_outs := o2; ev_verdict := v |}]) ++ qlat c (queue_of st1 c) ⊆+
      qlat c (queue_of st c) ++ on c (lat_sends [OStep c0 hint])).
    { intros o2 Hv. rewrite (lat_req_of_step c0 hint r o2 v Hv), Q1. change (on c (lat_sends [OStep c0 hint])) with (@nil (N * N)).
      rewrite app_nil_r. case_decide as Hd.
      - rewrite (Qc Hd), qlat_cons. subst c. destruct (lat_rid_of r); [|done]. unfold on. by rewrite filter_cons_True.
      - destruct (lat_rid_of r); [|done]. by rewrite on_other. }
    assert (Hsub : ∀ o2 v', v' = VErr ∨ v' = VPanic →
      on c (lat_reqs [{| ev_op := OStep c0 hint; ev_req := Some r; ev_outs := o2; ev_verdict := v' |}]) = []).
    { by intros o2 v' [-> | ->]. }
    destruct v; cbn [fst snd].
    + apply Hcons. by left.
    + pose proof (Hdisc st1 c0 (on c (lat_sends [OStep c0 hint]))) as Hd.
      destruct (disconnect cfg st1 c0) as [st2 o2]. cbn [fst snd] in *. rewrite (Hsub _ VErr) by by left.
      apply Hd. rewrite Q1. case_decide; [by right|by left].
    + apply Hcons. by right.
    + rewrite (Hsub _ VPanic) by by right. rewrite Q1. case_decide as Hd; [|by apply submseteq_inserts_r].
      rewrite (Qc Hd), qlat_cons. apply submseteq_inserts_r. destruct (lat_rid_of r); [by apply submseteq_cons|done].
  - (* tick *)
    cbn [fst snd].
    destruct (sessions st !! sid) as [SS|] eqn:HS; [|apply HA; by rewrite (tick_conns_none st sid HS)].
    assert (Hq : qlat c (queue_of (tick st sid) c) = qlat c (queue_of st c)).
    { unfold queue_of. rewrite (tick_conns st sid SS c HS). destruct (conns st !! c) as [cn|] eqn:Hc; [|done]. simpl.
      case_decide; [|done]. destruct (OK c cn Hc) as [O1 O2]. unfold flush. simpl. rewrite !qlat_app.
      rewrite (qlat_none c (map snd (sort_by _ (map_to_list (c_pposes cn))))).
      2:{ apply Forall_forall. intros r [[k r'] [-> Hr]]%elem_of_list_fmap.
          apply elem_of_sort_by, elem_of_map_to_list in Hr. destruct (O1 _ _ Hr) as (po&ots&->). done. }
      rewrite (qlat_none c (map snd (sort_by _ (map_to_list (c_pcomps cn))))).
      2:{ apply Forall_forall. intros r [[k r'] [-> Hr]]%elem_of_list_fmap.
          apply elem_of_sort_by, elem_of_map_to_list in Hr. destruct (O2 _ _ Hr) as (t&x&d&ots&->). done. }
      by rewrite !app_nil_r. }
    rewrite Hq. by apply submseteq_inserts_r.
  - (* disconnect *)
    destruct (conns st !! c0) as [cn|] eqn:Hc; [|by apply HA].
    destruct (c_open cn) eqn:Ho; [|by apply HA]. cbn [negb].
    pose proof (Hdisc st c0 (on c (lat_sends [ODisconnect c0])) (or_introl eq_refl)) as Hd.
    by destruct (disconnect cfg st c0) as [st1 o1].
  - (* snapshot *)
    by apply HA.
Qed.

(* every history: on every connection, what was consumed and what is still queued was sent *)
Theorem lat_sends_inv cfg h :
  short h → ∀ c, on c (lat_reqs (run cfg h)) ++ qlat c (queue_of (final cfg h) c) ⊆+ on c (lat_sends h).
Proof.
  induction h as [|o h IH] using rev_ind; intros Hs c; [done|].
  apply short_snoc in Hs as [Hs Hb]. specialize (IH Hs c).
  destruct (reachable_inv cfg h state0 0 inv_state0 bounded_state0) as [I B]; [unfold short in Hs; lia|].
  destruct (model_C11_rel cfg h Hs) as (_&[OK _ _]&_).
  pose proof (queue_step cfg (final cfg h) o I OK c) as Hstep. cbv zeta in Hstep.
  rewrite run_snoc, final_snoc. unfold lat_reqs, lat_sends, on in *. rewrite !omap_app, !filter_app.
  rewrite <- app_assoc. etrans; [apply submseteq_skips_l, Hstep|].
  rewrite app_assoc. by apply submseteq_app.
Qed.

Theorem uniq_sends_rids cfg h : short h → uniq_lat_sends h → uniq_lat_rids (run cfg h).
Proof.
  intros Hs U. apply NoDup_on_all. intros c.
  pose proof (lat_sends_inv cfg h Hs c) as H.
  assert (H' : on c (lat_reqs (run cfg h)) ⊆+ on c (lat_sends h)).
  { etrans; [|exact H]. by apply submseteq_inserts_r. }
  eapply submseteq_NoDup; [exact H'|]. unfold on. by apply NoDup_filter.
Qed.

Theorem model_passes_C04_lat_sends cfg h : short h → uniq_lat_sends h → P_C04_lat cfg (run cfg h) = [].
Proof. intros Hs U. apply model_passes_C04_lat; [done|by apply uniq_sends_rids]. Qed.
Theorem model_passes_C04_full_sends cfg h : short h → uniq_lat_sends h → P_C04_full cfg (run cfg h) = [].
Proof. intros Hs U. apply model_passes_C04_full; [done|by apply uniq_sends_rids]. Qed.

(* ================= the relations, in readable form ================= *)
Theorem model_lat_relation cfg h :
  short h →
  let st := final cfg h in let s := latq_state cfg (run cfg h) in
  ∀ c, lq_run s !! c = match conns st !! c ≫= c_lat with
                       | Some l => if 0 <? l_iter l then Some (l_rid l) else None
                       | None => None end.
Proof.
  intros Hs st s c. destruct (model_lat_rel cfg h Hs) as (_&R&_). unfold s. rewrite (R c).
  unfold latv, run_of. fold st. by destruct (conns st !! c ≫= c_lat).
Qed.

Theorem model_lat_shape cfg h :
  short h →
  ∀ c l, conns (final cfg h) !! c ≫= c_lat = Some l →
    ∃ A, if 0 <? l_iter l then ∃ x, l_pings l = map (λ id, (id, true)) A ++ [(x, false)]
         else l_pings l = map (λ id, (id, true)) A.
Proof. intros Hs c l Hl. destruct (model_lat_rel cfg h Hs) as (W&_&_). exact (W c l Hl). Qed.

Theorem model_lat_refused cfg h :
  short h → uniq_lat_rids (run cfg h) →
  let s := latq_state cfg (run cfg h) in
  (∀ c r, lq_run s !! c = Some r → r ∉ default ∅ (lq_refused s !! c)) ∧
  (∀ c r, lq_run s !! c = Some r ∨ r ∈ default ∅ (lq_refused s !! c) → (c, r) ∈ lat_reqs (run cfg h)).
Proof.
  intros Hs U s. destruct (model_lat_rel cfg h Hs) as (_&_&H). destruct (H U) as [_ [H1 H2 H3]].
  split; [exact H3|]. intros c r [Hr|Hr]; [by apply H2|by apply H1].
Qed.

(* proofs/Refine2.v — every step of the model is matched by [spec_step] on the event it produces
   (membership refinement), and the event passes P_C07's checks. *)
From stdpp Require Import relations sorting.
From hagall Require Import Model Spec Obs Preds.
From hagall.proofs Require Import BaseLemmas Relay Inv Session Local Trans WF Mono Reach PC07 Refine.
From Coq Require Import Lia.

(* ================= classes of messages in the outputs ================= *)
Definition nobad (m : msg) : bool := match m with MBad _ _ => false | _ => true end.
(* neither an answer to a join, nor an error, nor a snapshot *)
Definition plain (m : msg) : bool :=
  match m with MJoinResp _ _ _ _ | MError _ _ | MBad _ _ | MSessionState _ _ _ | MSnap _ _ _ => false | _ => true end.
Definition nobads (l : list delivery) : Prop := Forall (λ d : delivery, nobad (snd d) = true) l.
Definition plains (l : list delivery) : Prop := Forall (λ d : delivery, plain (snd d) = true) l.

Lemma plains_nobads l : plains l → nobads l.
Proof. intros H. eapply Forall_impl; [exact H|]. intros [c m]; simpl. by destruct m. Qed.
Lemma plains_app l1 l2 : plains l1 → plains l2 → plains (l1 ++ l2).
Proof. apply Forall_app_2. Qed.
Lemma nobads_app l1 l2 : nobads l1 → nobads l2 → nobads (l1 ++ l2).
Proof. apply Forall_app_2. Qed.
Lemma Forall_broadcast (Q : msg → Prop) SS p m : Q m → Forall (λ d : delivery, Q (snd d)) (broadcast SS p m).
Proof. intros H. unfold broadcast. apply Forall_fmap, Forall_forall. by intros. Qed.
Lemma Forall_broadcast_to (Q : msg → Prop) SS p ids m : Q m → Forall (λ d : delivery, Q (snd d)) (broadcast_to SS p ids m).
Proof.
  intros H. unfold broadcast_to. apply Forall_forall. intros d Hd. apply elem_of_list_omap in Hd as (q&_&Hq).
  destruct (q =? p); [done|]. destruct (s_parts SS !! q); simpl in Hq; by simplify_eq.
Qed.
Lemma plains_broadcast SS p m : plain m = true → plains (broadcast SS p m).
Proof. apply (Forall_broadcast (λ m, plain m = true)). Qed.
Lemma nobads_broadcast SS p m : nobad m = true → nobads (broadcast SS p m).
Proof. apply (Forall_broadcast (λ m, nobad m = true)). Qed.
Lemma nobads_broadcast_to SS p ids m : nobad m = true → nobads (broadcast_to SS p ids m).
Proof. apply (Forall_broadcast_to (λ m, nobad m = true)). Qed.

Lemma plains_module_join cfg c SS : plains (module_join_msgs cfg c SS).
Proof. unfold module_join_msgs. destruct (cfg_vikja cfg), (cfg_odal cfg); repeat constructor. Qed.

Lemma plains_remove_doomed cfg p l SS : plains (remove_doomed cfg p l SS).2.
Proof.
  revert SS. induction l as [|eid l IH]; intros SS; simpl; [constructor|].
  specialize (IH (set_ents (delete eid) (set_store (store_delete_entity eid) SS))).
  destruct (remove_doomed cfg p l _) as [S2 o2]. simpl in *. apply plains_app; [|done].
  destruct (flag_on cfg F_ENTITY_DELETE_B); [constructor|]. by apply plains_broadcast.
Qed.
Lemma plains_leave cfg st c : plains (leave cfg st c).2.
Proof.
  unfold leave. destruct (conns st !! c) as [cn|]; [|constructor]. destruct (c_cur cn) as [[sid p]|]; [|constructor].
  destruct (sessions st !! sid) as [SS|]; [|constructor].
  match goal with |- context [remove_doomed ?a ?b ?l ?S] => pose proof (plains_remove_doomed a b l S) as H;
    destruct (remove_doomed a b l S) as [S3 o1] end.
  simpl in *. apply plains_app; [done|]. destruct (flag_on cfg F_LEAVE_B); [constructor|]. by apply plains_broadcast.
Qed.
Lemma plains_disconnect cfg st c : plains (disconnect cfg st c).2.
Proof. unfold disconnect. pose proof (plains_leave cfg st c). by destruct (leave cfg st c). Qed.

(* ---------- what the spec reads from plain outputs: nothing ---------- *)
Lemma first_to_app_skip {A} c l1 l2 (f : msg → option A) :
  Forall (λ d : delivery, f (snd d) = None) l1 → first_to c (l1 ++ l2) f = first_to c l2 f.
Proof.
  intros H. unfold first_to. rewrite omap_app. induction H as [|[c' m] l Hm _ IH]; simpl; [done|].
  simpl in Hm. rewrite Hm. by destruct (c' =? c).
Qed.
Lemma first_to_none {A} c l (f : msg → option A) :
  Forall (λ d : delivery, f (snd d) = None) l → first_to c l f = None.
Proof. intros H. rewrite <- (app_nil_r l). by rewrite first_to_app_skip. Qed.
Lemma first_to_hit {A} c m l (f : msg → option A) x : f m = Some x → first_to c ((c, m) :: l) f = Some x.
Proof. intros H. unfold first_to. simpl. by rewrite N.eqb_refl, H. Qed.

Lemma plains_join_silent l : plains l →
  Forall (λ d : delivery, match snd d with MJoinResp r s u p => Some (r, s, u, p) | _ => None end = None) l.
Proof. intros H. eapply Forall_impl; [exact H|]. intros [c m]; simpl. by destruct m. Qed.
Lemma join_resp_app_plain c l1 l2 : plains l1 → join_resp c (l1 ++ l2) = join_resp c l2.
Proof. intros H. unfold join_resp. by apply first_to_app_skip, plains_join_silent. Qed.
Lemma join_resp_plain c l : plains l → join_resp c l = None.
Proof. intros H. unfold join_resp. by apply first_to_none, plains_join_silent. Qed.
Lemma has_error_app c k l1 l2 : has_error c k (l1 ++ l2) = has_error c k l1 || has_error c k l2.
Proof. unfold has_error. apply existsb_app. Qed.
Lemma has_error_plain c k l : plains l → has_error c k l = false.
Proof.
  intros H. unfold has_error. induction H as [|[c' m] l Hm _ IH]; simpl; [done|]. rewrite IH.
  simpl in Hm. by destruct m.
Qed.
Lemma bad_msgs_nobads i b e : nobads (ev_outs e) → bad_msgs i b e = [].
Proof.
  unfold bad_msgs. intros H. induction H as [|[c m] l Hm _ IH]; simpl; [done|]. rewrite IH.
  simpl in Hm. by destruct m.
Qed.

(* ================= join ================= *)
Lemma enter_eq cfg st c rid n ots SS :
  sessions st !! n = Some SS →
  let p := u32_succ (s_pgen SS) in
  enter cfg st c rid n ots =
    ((enter cfg st c rid n ots).1.1,
     (c, MJoinResp rid n (s_uuid SS) p) ::
     (if flag_on cfg F_SESSION_STATE then [] else [(c, session_state_msg (entered SS c))]) ++
     ((if flag_on cfg F_JOIN_B then [] else broadcast (entered SS c) p (MJoinB ots p)) ++
      module_join_msgs cfg c (entered SS c)), VOk).
Proof. intros HS. unfold enter. rewrite HS. reflexivity. Qed.

Lemma enter_rest_nobads cfg c p ots S1 :
  nobads ((if flag_on cfg F_SESSION_STATE then [] else [(c, session_state_msg S1)]) ++
          ((if flag_on cfg F_JOIN_B then [] else broadcast S1 p (MJoinB ots p)) ++ module_join_msgs cfg c S1)).
Proof.
  apply nobads_app; [destruct (flag_on cfg F_SESSION_STATE); repeat constructor|].
  apply nobads_app; [|apply plains_nobads, plains_module_join].
  destruct (flag_on cfg F_JOIN_B); [constructor|]. by apply nobads_broadcast.
Qed.

Lemma spec_step_join sp c hint rid s ots outs :
  spec_step sp {| ev_op := OStep c hint; ev_req := Some (RJoin rid s ots); ev_outs := outs; ev_verdict := VOk |} =
  match join_resp c outs with
  | Some (_, sid, uuid, pid) => enter_spec (depart sp c) c sid uuid pid
  | None => if has_error c E_NOT_FOUND outs then depart sp c else sp
  end.
Proof. reflexivity. Qed.

(* P_C07's clauses for a consumed join request (Preds.v, codes 701-710) *)
Definition c07_join_clauses (cfg : config) (i : nat) (sp : spec) (c : N) (s : sidspec) (outs : list delivery) : list violation :=
  let spd := depart sp c in
  let jr := join_resp c outs in
  match s with
  | SId n =>
      if match sp_mem sp !! c with Some (cur, _) => cur =? n | None => false end then
        okv i (has_error c E_ALREADY_JOINED outs && negb (is_Some_b jr)) 701 [zn c; zn n]
      else if sp_live spd n then
        match jr with
        | Some (_, sid, uuid, pid) =>
            okv i ((sid =? n) && bool_decide (sp_uuid spd !! n = Some uuid)) 702 [zn c; zn n; zn sid; zn uuid] ++
            okv i (bool_decide (pid ∉ issued (sp_pids spd) uuid)) 703 [zn c; zn n; zn pid]
        | None => [viol i 704 [zn c; zn n]]
        end
      else
        okv i (has_error c E_NOT_FOUND outs && negb (is_Some_b jr)) 705 [zn c; zn n]
  | SJunk k => okv i (has_error c E_NOT_FOUND outs && negb (is_Some_b jr)) 706 [zn c; zn k]
  | SNew =>
      match jr with
      | Some (_, sid, uuid, pid) =>
          okv i (negb (sp_live spd sid)) 707 [zn c; zn sid] ++
          okv i (bool_decide (uuid ∉ sp_seen spd)) 708 [zn c; zn sid; zn uuid] ++
          (if flag_on cfg F_SESSION_STATE then [] else
           okv i (has_msg c outs (λ m, match m with MSessionState ps [] [] => bool_decide (ps = [pid]) | _ => false end))
               709 [zn c; zn sid; zn pid])
      | None => [viol i 710 [zn c]]
      end
  end.

Lemma P_C07_event_join cfg i sp sp' c hint rid s ots outs :
  P_C07_event cfg i sp sp' {| ev_op := OStep c hint; ev_req := Some (RJoin rid s ots); ev_outs := outs; ev_verdict := VOk |} =
  c07_join_clauses cfg i sp c s outs ++
  bad_msgs i 700 {| ev_op := OStep c hint; ev_req := Some (RJoin rid s ots); ev_outs := outs; ev_verdict := VOk |}.
Proof. reflexivity. Qed.

Lemma join_resp_cons_other c c' m l :
  (∀ r s u p, m ≠ MJoinResp r s u p) → join_resp c ((c', m) :: l) = join_resp c l.
Proof.
  intros H. unfold join_resp, first_to. simpl. destruct (c' =? c); [|done].
  destruct m; try done. exfalso. by eapply H.
Qed.

Lemma session_state_new u c :
  session_state_msg (entered (session0 u) c) = MSessionState [u32_succ 0] [] [].
Proof.
  unfold session_state_msg, entered, ents_pb, store_list_all. simpl.
  rewrite insert_empty, map_to_list_singleton. simpl. by rewrite !map_to_list_empty.
Qed.

Lemma join_sim cfg st c cn rid s ots hint sp i :
  inv st → nowrap st → reg st → refines_mem sp st → conns st !! c = Some cn →
  ∀ st' outs v, Model.join cfg st c rid s ots hint = (st', outs, v) →
  v = VOk ∧ nobads outs ∧
  refines_mem (match join_resp c outs with
               | Some (_, sid, uuid, pid) => enter_spec (depart sp c) c sid uuid pid
               | None => if has_error c E_NOT_FOUND outs then depart sp c else sp
               end) st' ∧
  c07_join_clauses cfg i sp c s outs = [].
Proof.
  intros I W G R Hc st' outs v. unfold Model.join. rewrite Hc.
  assert (Hmem : sp_mem sp !! c = c_cur cn) by (rewrite (rm_mem _ _ R); unfold cur_of; by rewrite Hc).
  destruct (already_joined cn s) eqn:Haj.
  - (* still joined to the session asked for *)
    intros [= <- <- <-]. unfold already_joined in Haj.
    destruct (c_cur cn) as [[cur p0]|] eqn:Hcur; [|done]. destruct s as [|n|k]; try done.
    apply bool_decide_eq_true in Haj as ->.
    set (mo := match sessions st !! n with Some SS => module_join_msgs cfg c SS | None => [] end).
    assert (Hmo : plains mo). { unfold mo. destruct (sessions st !! n); [apply plains_module_join|constructor]. }
    assert (Hjr : join_resp c ((c, MError rid E_ALREADY_JOINED) :: mo) = None).
    { rewrite join_resp_cons_other by done. by apply join_resp_plain. }
    assert (Hnf : has_error c E_NOT_FOUND ((c, MError rid E_ALREADY_JOINED) :: mo) = false).
    { unfold has_error. simpl. rewrite N.eqb_refl. simpl. by apply has_error_plain. }
    split; [done|]. split. { constructor; [done|by apply plains_nobads]. }
    rewrite Hjr, Hnf. split; [done|].
    unfold c07_join_clauses. rewrite Hmem, N.eqb_refl, Hjr.
    unfold has_error. simpl. by rewrite N.eqb_refl.
  - (* leaves first *)
    pose proof (leave_refines cfg sp st c I R) as R1. pose proof (inv_leave cfg st c I) as I1.
    pose proof (reg_leave cfg st c I G) as G1. pose proof (leave_nowrap cfg st c I W) as W1.
    pose proof (plains_leave cfg st c) as P1.
    pose proof (leave_open cfg st c c) as Hopen1.
    destruct (leave cfg st c) as [st1 o1]. simpl in *.
    assert (Hnaj : ∀ n, match sp_mem sp !! c with Some (cur, _) => cur =? n | None => false end =
                        already_joined cn (SId n)).
    { intros n. rewrite Hmem. unfold already_joined. destruct (c_cur cn) as [[cur p0]|]; [|done].
      destruct (N.eqb_spec cur n); [by rewrite bool_decide_eq_true_2|by rewrite bool_decide_eq_false_2]. }
    assert (Hnotfound : ∀ (st' : state) outs, st' = st1 → outs = o1 ++ [(c, MError rid E_NOT_FOUND)] →
      nobads outs ∧ join_resp c outs = None ∧ has_error c E_NOT_FOUND outs = true).
    { intros ? ? -> ->. split; [apply nobads_app; [by apply plains_nobads|by repeat constructor]|].
      split. { rewrite join_resp_app_plain by done. by rewrite join_resp_cons_other. }
      rewrite has_error_app. unfold has_error at 2. simpl. rewrite N.eqb_refl. simpl. apply orb_true_r. }
    destruct s as [|n|k].
    + (* a new session *)
      destruct (create_session hint st1) as [n st2] eqn:Hcr.
      destruct (create_session_proj _ _ _ _ I1 W1 Hcr) as (Hfresh&C1&C2&C3&C4&_).
      destruct (create_sessions _ _ _ _ Hcr) as [E2 Econ].
      destruct (c07_created_fresh _ _ _ _ Hcr) as [HS2 Hnu].
      assert (Hn1 : sessions st1 !! n = None).
      { unfold parts_of in Hfresh. by destruct (sessions st1 !! n). }
      rewrite (enter_eq cfg st2 c rid n ots _ HS2). cbv zeta.
      intros [= <- <- <-]. split; [done|].
      change (s_uuid (session0 (next_uuid st1 + 1))) with (next_uuid st1 + 1).
      change (s_pgen (session0 (next_uuid st1 + 1))) with 0.
      set (rest := (if flag_on cfg F_SESSION_STATE then [] else _) ++ _).
      assert (Hjr : join_resp c (o1 ++ (c, MJoinResp rid n (next_uuid st1 + 1) (u32_succ 0)) :: rest) =
                    Some (rid, n, next_uuid st1 + 1, u32_succ 0)).
      { rewrite join_resp_app_plain by done. unfold join_resp. by apply first_to_hit. }
      split. { apply nobads_app; [by apply plains_nobads|]. constructor; [done|]. apply enter_rest_nobads. }
      rewrite Hjr. destruct R1 as [Q1 Q2 Q3 Q4 Q5 Q6]. split.
      * (* refinement *)
        assert (Hc2 : is_Some (conns st2 !! c)).
        { rewrite Econ. unfold open_of in Hopen1. destruct (conns st1 !! c); [eauto|]. simpl in Hopen1.
          rewrite Hc in Hopen1. done. }
        assert (Hu2 : ∀ s, s ≠ n → uuid_at st2 s = uuid_at st1 s).
        { intros s Hs. unfold uuid_at. rewrite E2. by rewrite lookup_insert_ne. }
        apply (enter_refines cfg (depart sp c) st2 c rid n ots (session0 (next_uuid st1 + 1)) HS2 Hc2).
        -- done.
        -- simpl. rewrite Hnu. lia.
        -- intros s S' Hs. rewrite E2, lookup_insert_ne by done. intros HS'. simpl.
           destruct (reg_uuid_le _ G1 _ _ HS'). lia.
        -- intros c'. by rewrite C1.
        -- intros s Hs. by rewrite Hu2.
        -- intros u. simpl. rewrite Hnu, Q3. lia.
        -- intros s u g. destruct (decide (s = n)) as [->|Hs].
           ++ unfold uuid_at, pgen_of. rewrite HS2. simpl. intros [= <-] [= <-] p.
              rewrite Q5 by lia. split; [set_solver|lia].
           ++ rewrite Hu2 by done. rewrite C4, decide_False by done. apply Q4.
        -- intros u. rewrite Hnu. intros Hu. apply Q5. lia.
        -- intros s u ps p. destruct (decide (s = n)) as [->|Hs].
           ++ rewrite C3, decide_True by done. intros _ [= <-] [? Hx]. by rewrite lookup_empty in Hx.
           ++ rewrite Hu2 by done. rewrite C3, decide_False by done. apply Q6.
      * (* clauses 707-709 *)
        unfold c07_join_clauses. rewrite Hjr.
        rewrite (proj2 (live_false (depart sp c) st1 n I1 Q1) Hn1). simpl.
        rewrite bool_decide_eq_true_2 by (rewrite Q3; lia). simpl.
        unfold rest. destruct (flag_on cfg F_SESSION_STATE); [done|].
        unfold has_msg. rewrite existsb_app, session_state_new. simpl. rewrite N.eqb_refl. simpl.
        by rewrite orb_true_r.
    + (* a named session *)
      destruct (sessions st1 !! n) as [SS|] eqn:HS.
      * rewrite (enter_eq cfg st1 c rid n ots SS HS). cbv zeta. intros [= <- <- <-]. split; [done|].
        set (rest := (if flag_on cfg F_SESSION_STATE then [] else _) ++ _).
        assert (Hg : pgen_of st1 n = Some (s_pgen SS)) by (unfold pgen_of; by rewrite HS).
        assert (Hun : uuid_at st1 n = Some (s_uuid SS)) by (unfold uuid_at; by rewrite HS).
        assert (Hw : s_pgen SS + 1 < two32) by (by apply (proj2 W1 n)).
        assert (Hjr : join_resp c (o1 ++ (c, MJoinResp rid n (s_uuid SS) (u32_succ (s_pgen SS))) :: rest) =
                      Some (rid, n, s_uuid SS, u32_succ (s_pgen SS))).
        { rewrite join_resp_app_plain by done. unfold join_resp. by apply first_to_hit. }
        split. { apply nobads_app; [by apply plains_nobads|]. constructor; [done|]. apply enter_rest_nobads. }
        rewrite Hjr. split.
        -- destruct R1 as [Q1 Q2 Q3 Q4 Q5 Q6].
           assert (Hc1 : is_Some (conns st1 !! c)).
           { unfold open_of in Hopen1. destruct (conns st1 !! c); [eauto|]. simpl in Hopen1. by rewrite Hc in Hopen1. }
           apply (enter_refines cfg (depart sp c) st1 c rid n ots SS HS Hc1 Hw); try done.
           ++ by apply (reg_uuid_le _ G1 n).
           ++ intros s S' Hs HS' Heq. apply Hs. by apply (reg_uuid_inj _ G1 s n S' SS).
           ++ intros u. rewrite Q3. destruct (reg_uuid_le _ G1 n SS HS). split; [intros [?| ->]; [done|lia]|by left].
        -- unfold c07_join_clauses. rewrite Hnaj, Haj, Hjr.
           rewrite (proj2 (live_iff (depart sp c) st1 n I1 (rm_mem _ _ R1))) by (rewrite HS; eauto).
           rewrite N.eqb_refl, (rm_uuid _ _ R1 n), Hun. rewrite bool_decide_eq_true_2 by done. simpl.
           rewrite bool_decide_eq_true_2; [done|]. rewrite (rm_pids _ _ R1 n _ _ Hun Hg).
           rewrite u32_succ_small by done. lia.
      * intros [= <- <- <-]. split; [done|].
        destruct (Hnotfound st1 _ eq_refl eq_refl) as (N1&N2&N3). split; [done|]. rewrite N2, N3. split; [done|].
        unfold c07_join_clauses. rewrite Hnaj, Haj, N2, N3.
        by rewrite (proj2 (live_false (depart sp c) st1 n I1 (rm_mem _ _ R1)) HS).
    + (* not a session id *)
      intros [= <- <- <-]. split; [done|].
      destruct (Hnotfound st1 _ eq_refl eq_refl) as (N1&N2&N3). split; [done|]. rewrite N2, N3. split; [done|].
      unfold c07_join_clauses. by rewrite N2, N3.
Qed.

(* ================= requests other than join ================= *)
Ltac nb := repeat first
  [ apply Forall_nil_2
  | apply Forall_cons_2; [reflexivity|]
  | apply nobads_app
  | apply nobads_broadcast; reflexivity
  | apply nobads_broadcast_to; reflexivity ].

Lemma on_ping_outs st c cn rid st' o v : on_ping st c cn rid = (st', o, v) → nobads o ∧ v = VOk.
Proof.
  unfold on_ping, send_ping. intros H. repeat case_match; simplify_eq; (split; [unfold nobads; nb|done]).
Qed.

Lemma handle_joined_outs cfg st c cn sid p SS r hint st' o v :
  is_join r = false → handle_joined cfg st c cn sid p SS r hint = (st', o, v) → nobads o ∧ v ≠ VPanic ∧ v ≠ VSkip.
Proof.
  intros Hj H. destruct r; try discriminate Hj; simpl in H.
  all: try (unfold send_ping in H; repeat case_match; simplify_eq; (split; [unfold nobads; nb|done]); fail).
  apply on_ping_outs in H as [? ->]. done.
Qed.
Lemma handle_unjoined_outs cfg st c cn r hint st' o v :
  is_join r = false → handle_unjoined cfg st c cn r hint = (st', o, v) → nobads o ∧ v ≠ VPanic ∧ v ≠ VSkip.
Proof.
  intros Hj H. destruct r; try discriminate Hj; simpl in H.
  all: repeat case_match; simplify_eq; (split; [unfold nobads; nb|done]).
Qed.

Lemma on_ping_next_uuid st c cn rid : next_uuid (on_ping st c cn rid).1.1 = next_uuid st.
Proof. unfold on_ping, send_ping. repeat case_match; simplify_eq; simpl; done. Qed.

Lemma handle_nonjoin cfg st c cn r hint st' o v :
  inv st → conns st !! c = Some cn → is_join r = false → handle cfg st c r hint = (st', o, v) →
  same_all st st' ∧ nobads o ∧ v ≠ VPanic ∧ v ≠ VSkip.
Proof.
  intros I Hc Hj. unfold handle. rewrite Hc.
  destruct (c_cur cn) as [[sid p]|] eqn:Hcur.
  - assert (Hcur0 : cur_of st c = Some (sid, p)) by (unfold cur_of; by rewrite Hc).
    destruct (live_session _ _ (inv_live _ I _ _ _ Hcur0)) as [SS HS]. rewrite HS. intros H.
    split; [|by eapply handle_joined_outs].
    pose proof (handle_joined_same _ _ _ _ _ _ _ _ _ _ _ _ Hj HS H) as Hsm.
    destruct (session_local r) eqn:Hl.
    + rewrite (handle_joined_sstep cfg st c cn sid p SS r hint Hl Hc HS) in H. unfold apply_sstep in H.
      injection H as <- _ _. apply same_all_of_mem; [done| |done].
      intros s. unfold uuid_at. simpl. destruct (decide (s = sid)) as [->|Hne].
      * rewrite lookup_insert, HS. simpl. by rewrite sstep_uuid.
      * by rewrite lookup_insert_ne.
    + pose proof (handle_joined_other_reg cfg st c cn sid p SS r hint Hl Hj) as (E1&_&E3).
      rewrite H in E1, E3. simpl in E1, E3. apply same_all_of_mem; [done| |done].
      intros s. unfold uuid_at. by rewrite E1.
  - intros H. split; [|by eapply handle_unjoined_outs].
    pose proof (handle_unjoined_same _ _ _ _ _ _ _ _ _ Hj H) as Hsm.
    pose proof (handle_unjoined_reg cfg st c cn r hint Hj) as (E1&_&E3).
    rewrite H in E1, E3. simpl in E1, E3. apply same_all_of_mem; [done| |done].
    intros s. unfold uuid_at. by rewrite E1.
Qed.

(* the spec's bookkeeping of the other requests does not touch the membership part *)
Lemma mproj_spec_request sp c sid p r outs : mproj (spec_request sp c sid p r outs) = mproj sp.
Proof. destruct r; simpl; repeat case_match; reflexivity. Qed.

(* ================= the hook snapshot against the spec ================= *)
Lemma members_eq sp st sid SS :
  inv st → (∀ c, sp_mem sp !! c = cur_of st c) → sessions st !! sid = Some SS →
  map fst (sp_members sp sid) = sortN (map fst (map_to_list (s_parts SS))).
Proof.
  intros I Hm HS. assert (Hps : parts_of st sid = Some (s_parts SS)) by (unfold parts_of; by rewrite HS).
  rewrite sp_members_eq, map_fst_sort_by. apply sortN_perm_eq. apply NoDup_Permutation.
  - apply (NoDup_fmap_2_strong fst); [|apply NoDup_mem_pairs].
    intros [p1 c1] [p2 c2] H1 H2. simpl. intros <-.
    apply elem_of_mem_pairs in H1, H2. rewrite Hm in H1, H2.
    apply (inv_parts _ I sid _ _ _ Hps) in H1, H2. congruence.
  - apply NoDup_fst_map_to_list.
  - intros p. rewrite !elem_of_list_fmap. split.
    + intros ([p' c]&->&H). apply elem_of_mem_pairs in H. rewrite Hm in H.
      apply (inv_parts _ I sid _ _ _ Hps) in H. exists (p', c). split; [done|]. by apply elem_of_map_to_list.
    + intros ([p' c]&->&H). apply elem_of_map_to_list in H. exists (p', c). split; [done|].
      apply elem_of_mem_pairs. rewrite Hm. by apply (inv_parts _ I sid _ _ _ Hps).
Qed.

Lemma live_sids_eq sp st :
  inv st → (∀ c, sp_mem sp !! c = cur_of st c) → live_sids sp = sortN (map fst (map_to_list (sessions st))).
Proof.
  intros I Hm. unfold live_sids. apply sortN_perm_eq. apply NoDup_Permutation.
  - apply NoDup_elements.
  - apply NoDup_fst_map_to_list.
  - intros s. rewrite elem_of_elements, elem_of_list_to_set, !elem_of_list_fmap. split.
    + intros ([c [s' p]]&->&H). apply elem_of_map_to_list in H. simpl.
      destruct (proj1 (live_iff sp st s' I Hm)) as [SS HS]; [apply sp_live_true; eauto|].
      exists (s', SS). split; [done|]. by apply elem_of_map_to_list.
    + intros ([s' SS]&->&H). apply elem_of_map_to_list in H. simpl.
      destruct (proj1 (sp_live_true sp s')) as (c&p&Hc); [apply (live_iff sp st s' I Hm); eauto|].
      exists (c, (s', p)). split; [done|]. by apply elem_of_map_to_list.
Qed.

Definition k07 : snapsel := {| k_parts := true; k_ents := false; k_comps := false; k_acts := false; k_assets := false;
                               k_types := false; k_subs := false; k_reg := true |}.
Lemma dump_check_k07 cfg i sp d0 :
  dump_check cfg k07 700 i sp d0 =
  okv i (bool_decide (sortN (d_parts d0) = map fst (sp_members sp (d_sid d0)))) 721 [zn (d_sid d0)] ++
  okv i (bool_decide (Some (d_uuid d0) = sp_uuid sp !! d_sid d0)) 728 [zn (d_sid d0)].
Proof. reflexivity. Qed.

Lemma flat_map_nil_all {A B} (f : A → list B) l : (∀ x, x ∈ l → f x = []) → flat_map f l = [].
Proof.
  induction l as [|x l IH]; intros H; simpl; [done|]. rewrite (H x) by (by left). apply IH.
  intros y Hy. apply H. by right.
Qed.

Lemma snap_ok cfg i sp sp' st :
  inv st → reg st → refines_mem sp st →
  P_C07_event cfg i sp sp' {| ev_op := OSnap; ev_req := None; ev_outs := [(0, snapshot st)]; ev_verdict := VOk |} = [].
Proof.
  intros I G R. pose proof (rm_mem _ _ R) as Hm.
  unfold P_C07_event, snap_check, stepped, bad_msgs. cbn [ev_op ev_req ev_outs ev_verdict flat_map snd snapshot].
  fold k07. rewrite !app_nil_r.
  set (ss := map (λ kv : N * session, dump_session kv.1 kv.2) (map_to_list (sessions st))).
  assert (Hsid : map d_sid ss = map fst (map_to_list (sessions st))).
  { unfold ss. rewrite map_map. by apply map_ext. }
  assert (H1 : flat_map (dump_check cfg k07 700 i sp) ss = []).
  { apply flat_map_nil_all. intros d0 Hd. unfold ss in Hd. apply elem_of_list_fmap in Hd as ([sid SS]&->&Hin).
    apply elem_of_map_to_list in Hin. rewrite dump_check_k07. simpl.
    rewrite (members_eq sp st sid SS I Hm Hin). rewrite bool_decide_eq_true_2 by done.
    rewrite (rm_uuid _ _ R sid). unfold uuid_at. rewrite Hin. simpl. by rewrite bool_decide_eq_true_2. }
  rewrite H1. cbn [k_reg k07]. rewrite Hsid, <- (live_sids_eq sp st I Hm).
  rewrite bool_decide_eq_true_2 by done.
  rewrite bool_decide_eq_true_2 by apply NoDup_fst_map_to_list.
  rewrite bool_decide_eq_true_2; [done|].
  rewrite (live_sids_eq sp st I Hm), sortN_length, map_length. apply (reg_gauge _ G).
Qed.

(* ================= one step of the model ================= *)
Definition ev_of (st : state) (o : op) (res : hres) : event :=
  {| ev_op := o; ev_req := consumed st o; ev_outs := res.1.2; ev_verdict := res.2 |}.

Lemma disconnect_refines cfg sp st c :
  inv st → refines_mem sp st → refines_mem (depart sp c) (disconnect cfg st c).1.
Proof.
  intros I R. unfold disconnect. pose proof (leave_refines cfg sp st c I R) as R1.
  destruct (leave cfg st c) as [st1 o]. simpl in *.
  eapply refines_same; [apply same_all_upd_conn; by intros []|done].
Qed.

Lemma P_C07_event_other cfg i sp sp' e :
  ev_op e ≠ OSnap → (∀ c rid s ots, stepped e ≠ Some (c, RJoin rid s ots)) → nobads (ev_outs e) →
  P_C07_event cfg i sp sp' e = [].
Proof.
  intros H1 H2 H3. unfold P_C07_event, snap_check. rewrite (bad_msgs_nobads _ _ _ H3).
  destruct (ev_op e); try done.
  all: destruct (stepped e) as [[cc rr]|]; [|done]; destruct rr; try done; exfalso; by eapply H2.
Qed.

Lemma tick_next_uuid st sid : next_uuid (tick st sid) = next_uuid st.
Proof. unfold tick. by destruct (sessions st !! sid). Qed.

Lemma step_sim cfg st o k sp i :
  inv st → bounded k st → k + 1 < two32 → reg st → refines_mem sp st →
  let e := ev_of st o (step cfg st o) in
  refines_mem (spec_step sp e) (step cfg st o).1.1 ∧ P_C07_event cfg i sp (spec_step sp e) e = [].
Proof.
  intros I B Hk G R. pose proof (bounded_nowrap _ _ B Hk) as W.
  assert (Hskip : ∀ o', (match o' with OSnap => False | ODisconnect _ => False | _ => True end) →
    let e := {| ev_op := o'; ev_req := None; ev_outs := []; ev_verdict := VSkip |} in
    refines_mem (spec_step sp e) st ∧ P_C07_event cfg i sp (spec_step sp e) e = []).
  { intros o' Ho'. split; [by destruct o'|]. apply P_C07_event_other; [by destruct o'|by destruct o'|constructor]. }
  destruct o as [c|c r|c hint|sid|c|]; unfold ev_of; cbn [step consumed].
  - (* connect *)
    destruct (conns st !! c) as [cn|] eqn:Hc; [by apply (Hskip (OConnect c))|]. cbn [fst snd].
    split; [|by apply P_C07_event_other; [| |constructor]].
    eapply refines_same; [|exact R]. apply same_all_sessions; [|done|done].
    intros c'. unfold cur_of. simpl. destruct (decide (c' = c)) as [->|Hne];
      [by rewrite lookup_insert, Hc|by rewrite lookup_insert_ne].
  - (* send *)
    unfold dispatch. destruct (conns st !! c) as [cn|] eqn:Hc; [|by apply (Hskip (OSend c r))].
    destruct (c_open cn) eqn:Ho; [|by apply (Hskip (OSend c r))]. cbn [negb].
    assert (Hq : ∀ f, (∀ cn, c_cur (f cn) = c_cur cn) →
      let e := {| ev_op := OSend c r; ev_req := None; ev_outs := []; ev_verdict := VOk |} in
      refines_mem (spec_step sp e) (upd_conn c f st) ∧ P_C07_event cfg i sp (spec_step sp e) e = []).
    { intros f Hf. split; [|by apply P_C07_event_other; [| |constructor]].
      eapply refines_same; [by apply same_all_upd_conn|exact R]. }
    destruct r; try (apply Hq; by intros []).
    cbn match. destruct (ty =? 14); [|apply Hq; by intros []].
    pose proof (disconnect_refines cfg sp st c I R) as R1. pose proof (plains_disconnect cfg st c) as P1.
    destruct (disconnect cfg st c) as [st1 o1]. cbn [fst snd] in *.
    split; [exact R1|]. apply P_C07_event_other; [done|done|by apply plains_nobads].
  - (* step *)
    destruct (conns st !! c) as [cn|] eqn:Hc; [|by apply (Hskip (OStep c hint))].
    destruct (c_open cn) eqn:Ho; [|by apply (Hskip (OStep c hint))]. cbn [negb].
    destruct (c_queue cn) as [|r q] eqn:Hq; [by apply (Hskip (OStep c hint))|]. cbn [head].
    set (st0 := upd_conn c (set_queue q) st).
    assert (Hs0 : same_mem st st0) by (apply same_mem_upd_conn; by intros []).
    assert (I0 : inv st0) by by eapply inv_same_mem.
    assert (B0 : bounded k st0) by by eapply bounded_same_mem.
    assert (W0 : nowrap st0) by by eapply bounded_nowrap.
    assert (G0 : reg st0) by (eapply reg_same_reg; [|exact G]; done).
    assert (R0 : refines_mem sp st0) by (eapply refines_same; [apply same_all_upd_conn; by intros []|exact R]).
    assert (Hc0 : conns st0 !! c = Some (set_queue q cn)).
    { unfold st0, upd_conn. simpl. rewrite Hc. by rewrite lookup_insert. }
    assert (Ho0 : open_of st0 c = Some true) by (unfold open_of; rewrite Hc0; simpl; by rewrite Ho).
    destruct (is_join r) eqn:Hj.
    + (* a join *)
      destruct r; try discriminate Hj.
      assert (Hh : handle cfg st0 c (RJoin rid sid ots) hint = Model.join cfg st0 c rid sid ots hint).
      { unfold handle. rewrite Hc0. destruct (c_cur (set_queue q cn)) as [[s p]|] eqn:Hcur; [|done].
        assert (Hcur0 : cur_of st0 c = Some (s, p)) by (unfold cur_of; by rewrite Hc0).
        destruct (live_session _ _ (inv_live _ I0 _ _ _ Hcur0)) as [SS HS]. by rewrite HS. }
      rewrite Hh. destruct (Model.join cfg st0 c rid sid ots hint) as [[st1 o1] v] eqn:Ej.
      destruct (join_sim cfg st0 c _ rid sid ots hint sp i I0 W0 G0 R0 Hc0 _ _ _ Ej) as (->&N1&R1&C1).
      cbn [fst snd]. rewrite spec_step_join. split; [exact R1|].
      rewrite P_C07_event_join, C1. simpl. by apply bad_msgs_nobads.
    + (* any other request *)
      destruct (handle cfg st0 c r hint) as [[st1 o1] v] eqn:Eh.
      destruct (handle_nonjoin cfg st0 c _ r hint _ _ _ I0 Hc0 Hj Eh) as (S1&N1&V1&V2).
      assert (R1 : refines_mem sp st1) by (by eapply refines_same).
      assert (I1 : inv st1).
      { pose proof (handle_inv cfg st0 c r hint k I0 B0 Hk Ho0) as [I1 _]. by rewrite Eh in I1. }
      destruct v; try done.
      * (* answered *)
        cbn [fst snd]. split.
        -- unfold spec_step. cbn [ev_op ev_verdict ev_req ev_outs].
           assert (Hgen : refines_mem (match sp_mem sp !! c with
                                       | Some (s, p) => spec_request sp c s p r o1 | None => sp end) st1).
           { destruct (sp_mem sp !! c) as [[s p]|]; [|done]. eapply refines_mproj; [apply mproj_spec_request|done]. }
           destruct r; try exact Hgen. discriminate Hj.
        -- apply P_C07_event_other; [done| |done]. intros c0 rid s ots. unfold stepped. simpl.
           intros [= -> ->]. discriminate Hj.
      * (* handler error: the connection is ended *)
        pose proof (disconnect_refines cfg sp st1 c I1 R1) as R2. pose proof (plains_disconnect cfg st1 c) as P2.
        destruct (disconnect cfg st1 c) as [st2 o2]. cbn [fst snd] in *.
        split; [exact R2|]. apply P_C07_event_other; [done|done|].
        apply nobads_app; [done|by apply plains_nobads].
  - (* tick *)
    cbn [fst snd]. split; [|by apply P_C07_event_other; [| |constructor]].
    eapply refines_same; [|exact R]. apply same_all_of_mem; [apply tick_same| |apply tick_next_uuid].
    intros s. unfold uuid_at. by rewrite tick_sessions.
  - (* disconnect *)
    assert (Hnone : cur_of st c = None →
      let e := {| ev_op := ODisconnect c; ev_req := None; ev_outs := []; ev_verdict := VSkip |} in
      refines_mem (spec_step sp e) st ∧ P_C07_event cfg i sp (spec_step sp e) e = []).
    { intros Hcur. split; [|by apply P_C07_event_other; [| |constructor]].
      unfold spec_step. cbn [ev_op]. rewrite depart_none; [done|]. by rewrite (rm_mem _ _ R). }
    destruct (conns st !! c) as [cn|] eqn:Hc; [|apply Hnone; unfold cur_of; by rewrite Hc].
    destruct (c_open cn) eqn:Ho; cbn [negb].
    2:{ apply Hnone. apply (inv_open _ I). unfold open_of. rewrite Hc. simpl. by rewrite Ho. }
    pose proof (disconnect_refines cfg sp st c I R) as R1. pose proof (plains_disconnect cfg st c) as P1.
    destruct (disconnect cfg st c) as [st1 o1]. cbn [fst snd] in *.
    split; [exact R1|]. apply P_C07_event_other; [done|done|by apply plains_nobads].
  - (* snapshot *)
    cbn [fst snd]. split; [exact R|]. by apply snap_ok.
Qed.

(* ================= every history ================= *)
Lemma run_sim cfg h : ∀ st k sp i,
  inv st → bounded k st → k + N.of_nat (length h) < two32 → reg st → refines_mem sp st →
  refines_mem (fold_left spec_step (run_from cfg st h).1 sp) (run_from cfg st h).2 ∧
  sscan (P_C07_event cfg) i sp (run_from cfg st h).1 = [].
Proof.
  induction h as [|o h IH]; intros st k sp i I B Hk G R; [done|].
  cbn [run_from length] in *. rewrite Nat2N.inj_succ in Hk.
  destruct (step_inv cfg st o k I B) as [I1 B1]; [lia|].
  pose proof (step_reg cfg st o k I B ltac:(lia) G) as G1.
  destruct (step_sim cfg st o k sp i I B ltac:(lia) G R) as [R1 C1]. unfold ev_of in R1, C1.
  destruct (step cfg st o) as [[st1 outs] v] eqn:E. cbn [fst snd] in *.
  destruct (IH st1 (k + 1) (spec_step sp {| ev_op := o; ev_req := consumed st o; ev_outs := outs; ev_verdict := v |})
              (S i) I1 B1 ltac:(lia) G1 R1) as [R2 C2].
  destruct (run_from cfg st1 h) as [t st2]. cbn [fst snd fold_left sscan] in *.
  split; [exact R2|]. by rewrite C1, C2.
Qed.

(* Deliverable 1: after every history the trace-determined spec state is the abstraction of the model state *)
Theorem refinement_mem cfg h : short h → refines_mem (spec_after (run cfg h)) (final cfg h).
Proof.
  intros Hs. unfold spec_after, run, final.
  apply (run_sim cfg h state0 0 spec0 0%nat inv_state0 bounded_state0); [unfold short in Hs; lia|apply reg_state0|apply refines_state0].
Qed.

(* Deliverable 2: the model's own trace is never flagged by P_C07 (all clauses: 701-710, 721, 728-731, 799) *)
Theorem model_passes_C07 cfg h : short h → P_C07 cfg (run cfg h) = [].
Proof.
  intros Hs. unfold P_C07, run.
  apply (run_sim cfg h state0 0 spec0 0%nat inv_state0 bounded_state0); [unfold short in Hs; lia|apply reg_state0|apply refines_state0].
Qed.

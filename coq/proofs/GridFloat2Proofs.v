(* GridFloat2Proofs.v — proofs about the bit-exact models of GridFloat2.v
   (calculateNormal in float64, doHorizontalPlanesOverlap and IntersectQuad in float32).
   The real-number theorems depend on the axioms of Coq's standard library of real numbers
   (and on classical logic as used by Flocq); nothing else. *)
From Coq Require Import ZArith Reals Psatz QArith Qreals Qabs Qminmax Bool List.
From Flocq Require Import Core Relative Plus_error Operations IEEE754.BinarySingleNaN IEEE754.Binary IEEE754.Bits.
From hagall Require Import Grid GridObs GridFloat GridFloat2.
From hagall.proofs Require Import GridFloatProofs.
Local Open Scope R_scope.

(* ------------------------------------------------------------------ binary64: notation *)
Definition R64 (x : binary64) : R := B2R 53 1024 x.
Notation fexp64 := (FLT_exp (-1074) 53).
Definition rnd64 (x : R) : R := round radix2 fexp64 ZnearestE x.
Definition fmt64 (x : R) : Prop := generic_format radix2 fexp64 x.
Definition u64 : R := bpow radix2 (-53).
Definition is_finite64 (x : binary64) : bool := is_finite 53 1024 x.

Local Existing Instance prec_gt_0_24.
Lemma prec_gt_0_53 : Prec_gt_0 53.
Proof. unfold Prec_gt_0. lia. Qed.
Local Existing Instance prec_gt_0_53.

Lemma u64_val : u64 = / 9007199254740992.
Proof. unfold u64. simpl. lra. Qed.

Lemma fmt64_R64 : forall x, fmt64 (R64 x).
Proof. intros x. apply (generic_format_B2R 53 1024). Qed.

Lemma R64_lt_omega : forall x, Rabs (R64 x) < bpow radix2 1024.
Proof. intros x. apply (abs_B2R_lt_emax 53 1024). Qed.

Lemma bpow_lt_1024 : forall e, (e < 1024)%Z -> forall x, Rabs x <= bpow radix2 e -> Rabs x < bpow radix2 1024.
Proof. intros e He x Hx. eapply Rle_lt_trans; [exact Hx|]. apply bpow_lt. exact He. Qed.

(* ------------------------------------------------------------------ formats: every float32 is a
   float64; the product of two float32 is a float64 *)
Lemma fmt32_FLT : forall x, fmt32 x -> FLT_format radix2 (-149) 24 x.
Proof. intros x Fx. apply FLT_format_generic; [exact prec_gt_0_24|exact Fx]. Qed.

Lemma fmt32_fmt64 : forall x, fmt32 x -> fmt64 x.
Proof.
  intros x Fx. destruct (fmt32_FLT x Fx) as [f Hf Hm He].
  apply generic_format_FLT. apply (FLT_spec radix2 (-1074) 53 x f Hf).
  - eapply Z.lt_trans; [exact Hm|]. reflexivity.
  - lia.
Qed.

Lemma fmt32_mul_fmt64 : forall x y, fmt32 x -> fmt32 y -> fmt64 (x * y).
Proof.
  intros x y Fx Fy.
  destruct (fmt32_FLT x Fx) as [f Hf Hm He]. destruct (fmt32_FLT y Fy) as [g Hg Hn Hd].
  apply generic_format_FLT. apply (FLT_spec radix2 (-1074) 53 _ (Fmult f g)).
  - rewrite F2R_mult. rewrite <- Hf, <- Hg. reflexivity.
  - destruct f as [mf ef]. destruct g as [mg eg]. simpl in *. rewrite Z.abs_mul.
    change (2 ^ 24)%Z with 16777216%Z in *. change (2 ^ 53)%Z with 9007199254740992%Z.
    assert (0 <= Z.abs mf)%Z by apply Z.abs_nonneg. assert (0 <= Z.abs mg)%Z by apply Z.abs_nonneg.
    nia.
  - destruct f as [mf ef]. destruct g as [mg eg]. simpl in *. lia.
Qed.

(* a non-zero float32 is at least 2^-149 in magnitude *)
Lemma fmt32_ge : forall x, fmt32 x -> x <> 0 -> bpow radix2 (-149) <= Rabs x.
Proof.
  intros x Fx Hx.
  apply (generic_format_ge_bpow radix2 fexp32 (-149)).
  - intros e. unfold FLT_exp. lia.
  - apply Rabs_pos_lt. exact Hx.
  - apply generic_format_abs. exact Fx.
Qed.

(* ------------------------------------------------------------------ computing a rounding to
   float32 of a dyadic number m * 2^e with the executable [binary_normalize] *)
Lemma rnd32_compute : forall m e,
  is_finite 24 128 (binary_normalize 24 128 P24 PE128 mode_NE m e false) = true ->
  rnd32 (F2R (Float radix2 m e)) = R32 (binary_normalize 24 128 P24 PE128 mode_NE m e false).
Proof.
  intros m e Hf. unfold rnd32, R32.
  generalize (binary_normalize_correct 24 128 P24 PE128 mode_NE m e false).
  destruct Rlt_bool.
  - intros (Hr & _). symmetry. exact Hr.
  - intros Hov. apply overflow_not_finite in Hov. rewrite Hov in Hf. discriminate Hf.
Qed.

Lemma R32_FF : forall x, R32 x = FF2R radix2 (B2FF 24 128 x).
Proof. intros x. symmetry. apply FF2R_B2FF. Qed.

(* 1 - 2^-26 and 1 + 2^-26 round to 1 *)
Lemma rnd32_below_one : rnd32 (1 - bpow radix2 (-26)) = 1.
Proof.
  replace (1 - bpow radix2 (-26)) with (F2R (Float radix2 67108863 (-26))) by (unfold F2R; simpl; lra).
  rewrite rnd32_compute by (vm_compute; reflexivity).
  rewrite R32_FF.
  replace (B2FF 24 128 (binary_normalize 24 128 P24 PE128 mode_NE 67108863 (-26) false))
    with (F754_finite false 8388608 (-23)) by (vm_compute; reflexivity).
  unfold FF2R, F2R. simpl. lra.
Qed.

Lemma rnd32_above_one : rnd32 (1 + bpow radix2 (-26)) = 1.
Proof.
  replace (1 + bpow radix2 (-26)) with (F2R (Float radix2 67108865 (-26))) by (unfold F2R; simpl; lra).
  rewrite rnd32_compute by (vm_compute; reflexivity).
  rewrite R32_FF.
  replace (B2FF 24 128 (binary_normalize 24 128 P24 PE128 mode_NE 67108865 (-26) false))
    with (F754_finite false 8388608 (-23)) by (vm_compute; reflexivity).
  unfold FF2R, F2R. simpl. lra.
Qed.

Lemma rnd32_le : forall x y, x <= y -> rnd32 x <= rnd32 y.
Proof. intros x y H. apply round_le; [apply FLT_exp_valid; exact prec_gt_0_24|apply valid_rnd_N|exact H]. Qed.
Lemma rnd64_le : forall x y, x <= y -> rnd64 x <= rnd64 y.
Proof. intros x y H. apply round_le; [apply FLT_exp_valid; exact prec_gt_0_53|apply valid_rnd_N|exact H]. Qed.
Lemma rnd32_id : forall x, fmt32 x -> rnd32 x = x.
Proof. intros x H. apply round_generic; [apply valid_rnd_N|exact H]. Qed.
Lemma rnd64_id : forall x, fmt64 x -> rnd64 x = x.
Proof. intros x H. apply round_generic; [apply valid_rnd_N|exact H]. Qed.
Lemma rnd32_opp : forall x, rnd32 (- x) = - rnd32 x.
Proof. intros x. apply round_NE_opp. Qed.
Lemma rnd64_opp : forall x, rnd64 (- x) = - rnd64 x.
Proof. intros x. apply round_NE_opp. Qed.
Lemma rnd32_0 : rnd32 0 = 0.
Proof. apply round_0. apply valid_rnd_N. Qed.
Lemma rnd64_0 : rnd64 0 = 0.
Proof. apply round_0. apply valid_rnd_N. Qed.
Lemma fmt64_rnd64 : forall x, fmt64 (rnd64 x).
Proof. intros x. apply generic_format_round; [apply FLT_exp_valid; exact prec_gt_0_53|apply valid_rnd_N]. Qed.
Lemma fmt32_rnd32 : forall x, fmt32 (rnd32 x).
Proof. intros x. apply generic_format_round; [apply FLT_exp_valid; exact prec_gt_0_24|apply valid_rnd_N]. Qed.
Lemma fmt64_bpow : forall e, (-1074 <= e)%Z -> fmt64 (bpow radix2 e).
Proof. intros e He. apply generic_format_FLT_bpow; [exact prec_gt_0_53|exact He]. Qed.
Lemma fmt32_bpow : forall e, (-149 <= e)%Z -> fmt32 (bpow radix2 e).
Proof. intros e He. apply generic_format_FLT_bpow; [exact prec_gt_0_24|exact He]. Qed.

(* relative error of one rounding to float64, away from the subnormal range *)
Lemma rnd64_rel : forall x, bpow radix2 (-1022) <= Rabs x -> Rabs (rnd64 x - x) <= u64 * Rabs x.
Proof.
  intros x Hx.
  generalize (relative_error_N_FLT radix2 (-1074) 53 prec_gt_0_53 (fun z => negb (Z.even z)) x Hx).
  unfold rnd64, u64. simpl. intros H. lra.
Qed.

(* ------------------------------------------------------------------ the binary64 operations *)
Lemma overflow_not_finite64 : forall s (x : binary64),
  B2FF 53 1024 x = Binary.binary_overflow 53 1024 mode_NE s -> is_finite64 x = false.
Proof.
  intros s x H. destruct x as [sx|sx|sx pl Hpl|sx m e He]; try reflexivity.
  - destruct s; discriminate H.
  - destruct s; discriminate H.
Qed.

Lemma finite_not_nan64 : forall x : binary64, is_finite64 x = true -> is_nan 53 1024 x = false.
Proof. intros [s|s|s pl H|s m e H] Hf; try reflexivity; discriminate Hf. Qed.
Lemma finite_not_nan32 : forall x : binary32, is_finite32 x = true -> is_nan 24 128 x = false.
Proof. intros [s|s|s pl H|s m e H] Hf; try reflexivity; discriminate Hf. Qed.

Lemma dmul_eq : forall x y, dmul x y = Bmult 53 1024 P53 PE1024 binop_nan_pl64 mode_NE x y.
Proof. reflexivity. Qed.
Lemma dadd_eq : forall x y, dadd x y = Bplus 53 1024 P53 PE1024 binop_nan_pl64 mode_NE x y.
Proof. reflexivity. Qed.
Lemma ddiv_eq : forall x y, ddiv x y = Bdiv 53 1024 P53 PE1024 binop_nan_pl64 mode_NE x y.
Proof. reflexivity. Qed.
Lemma dsqrt_eq : forall x, dsqrt x = Bsqrt 53 1024 P53 PE1024 unop_nan_pl64 mode_NE x.
Proof. reflexivity. Qed.

Lemma dmul_correct : forall x y, is_finite64 x = true -> is_finite64 y = true ->
  Rabs (rnd64 (R64 x * R64 y)) < bpow radix2 1024 ->
  R64 (dmul x y) = rnd64 (R64 x * R64 y) /\ is_finite64 (dmul x y) = true /\
  Bsign 53 1024 (dmul x y) = xorb (Bsign 53 1024 x) (Bsign 53 1024 y).
Proof.
  intros x y Hx Hy Hb. rewrite dmul_eq. unfold is_finite64, R64, rnd64 in *.
  generalize (Bmult_correct 53 1024 P53 PE1024 binop_nan_pl64 mode_NE x y).
  rewrite Rlt_bool_true by exact Hb.
  intros (Hr & Hfin & Hs). rewrite Hx, Hy in Hfin.
  split; [exact Hr|]. split; [exact Hfin|]. apply Hs. apply finite_not_nan64. exact Hfin.
Qed.

Lemma dadd_correct : forall x y, is_finite64 x = true -> is_finite64 y = true ->
  Rabs (rnd64 (R64 x + R64 y)) < bpow radix2 1024 ->
  R64 (dadd x y) = rnd64 (R64 x + R64 y) /\ is_finite64 (dadd x y) = true.
Proof.
  intros x y Hx Hy Hb. rewrite dadd_eq. unfold is_finite64, R64, rnd64 in *.
  generalize (Bplus_correct 53 1024 P53 PE1024 binop_nan_pl64 mode_NE x y Hx Hy).
  rewrite Rlt_bool_true by exact Hb.
  intros (Hr & Hfin & _). split; [exact Hr|exact Hfin].
Qed.

Lemma dsqrt_correct : forall x, is_finite64 x = true -> 0 <= R64 x ->
  R64 (dsqrt x) = rnd64 (sqrt (R64 x)) /\ is_finite64 (dsqrt x) = true.
Proof.
  intros x Hx Hp. rewrite dsqrt_eq. unfold is_finite64, R64, rnd64 in *.
  destruct (Bsqrt_correct 53 1024 P53 PE1024 unop_nan_pl64 mode_NE x) as (Hr & Hfin & _).
  split; [exact Hr|]. rewrite Hfin.
  destruct x as [s|s|s pl H|s m e H]; try reflexivity; try discriminate Hx.
  destruct s; [|reflexivity]. exfalso.
  assert (B2R 53 1024 (B754_finite 53 1024 true m e H) < 0).
  { simpl. apply F2R_lt_0. simpl. lia. }
  lra.
Qed.

Lemma ddiv_correct : forall x y, is_finite64 x = true -> is_finite64 y = true -> R64 y <> 0 ->
  Rabs (rnd64 (R64 x / R64 y)) < bpow radix2 1024 ->
  R64 (ddiv x y) = rnd64 (R64 x / R64 y) /\ is_finite64 (ddiv x y) = true /\
  Bsign 53 1024 (ddiv x y) = xorb (Bsign 53 1024 x) (Bsign 53 1024 y).
Proof.
  intros x y Hx Hy Hy0 Hb. rewrite ddiv_eq. unfold is_finite64, R64, rnd64 in *.
  generalize (Bdiv_correct 53 1024 P53 PE1024 binop_nan_pl64 mode_NE x y Hy0).
  rewrite Rlt_bool_true by exact Hb.
  intros (Hr & Hfin & Hs). rewrite Hx in Hfin.
  split; [exact Hr|]. split; [exact Hfin|]. apply Hs. apply finite_not_nan64. exact Hfin.
Qed.

Lemma dneg_correct : forall x, is_finite64 x = true ->
  R64 (dneg x) = - R64 x /\ is_finite64 (dneg x) = true /\ Bsign 53 1024 (dneg x) = negb (Bsign 53 1024 x).
Proof.
  intros x Hx. unfold dneg, b64_opp, R64, is_finite64 in *.
  rewrite B2R_Bopp, is_finite_Bopp, Bsign_Bopp by (apply finite_not_nan64; exact Hx).
  repeat split. exact Hx.
Qed.

Lemma dne_zero : forall x, is_finite64 x = true -> dne x zero64 = negb (Req_bool (R64 x) 0).
Proof.
  intros x Hx. unfold dne, b64_compare.
  rewrite (Bcompare_correct 53 1024 x zero64 Hx eq_refl).
  change (B2R 53 1024 zero64) with 0. fold (R64 x).
  destruct (Rcompare_spec (R64 x) 0) as [H|H|H].
  - rewrite Req_bool_false by lra. reflexivity.
  - rewrite Req_bool_true by exact H. reflexivity.
  - rewrite Req_bool_false by lra. reflexivity.
Qed.

(* ------------------------------------------------------------------ the two conversions *)
Lemma R32_lt_128 : forall x, Rabs (R32 x) < bpow radix2 128.
Proof. intros x. apply (abs_B2R_lt_emax 24 128). Qed.

Lemma f64_of_f32_correct : forall x, is_finite32 x = true ->
  R64 (f64_of_f32 x) = R32 x /\ is_finite64 (f64_of_f32 x) = true /\
  Bsign 53 1024 (f64_of_f32 x) = Bsign 24 128 x.
Proof.
  intros x Hx. destruct x as [s|s|s pl H|s m e H]; try discriminate Hx.
  - repeat split.
  - unfold f64_of_f32.
    generalize (binary_normalize_correct 53 1024 P53 PE1024 mode_NE (cond_Zopp s (Zpos m)) e s).
    set (v := F2R (Float radix2 (cond_Zopp s (Zpos m)) e)).
    assert (Ev : v = R32 (B754_finite 24 128 s m e H)) by reflexivity.
    assert (Fv : fmt64 v). { rewrite Ev. apply fmt32_fmt64. apply fmt32_R32. }
    change (round radix2 (SpecFloat.fexp 53 1024) (round_mode mode_NE) v) with (rnd64 v). rewrite (rnd64_id v Fv).
    rewrite Rlt_bool_true.
    + intros (Hr & Hfin & Hs). split; [rewrite Ev in Hr; exact Hr|]. split; [exact Hfin|].
      rewrite Hs. unfold v. simpl Bsign.
      destruct s; simpl cond_Zopp.
      * rewrite Rcompare_Lt; [reflexivity|]. apply F2R_lt_0. simpl. lia.
      * rewrite Rcompare_Gt; [reflexivity|]. apply F2R_gt_0. simpl. lia.
    + rewrite Ev. eapply Rlt_trans; [apply R32_lt_128|]. apply bpow_lt. lia.
Qed.

Lemma f32_of_f64_correct : forall x, is_finite64 x = true ->
  Rabs (rnd32 (R64 x)) < bpow radix2 128 ->
  R32 (f32_of_f64 x) = rnd32 (R64 x) /\ is_finite32 (f32_of_f64 x) = true /\
  Bsign 24 128 (f32_of_f64 x) = Bsign 53 1024 x.
Proof.
  intros x Hx Hb. destruct x as [s|s|s pl H|s m e H]; try discriminate Hx.
  - simpl. rewrite rnd32_0. repeat split.
  - unfold f32_of_f64.
    generalize (binary_normalize_correct 24 128 P24 PE128 mode_NE (cond_Zopp s (Zpos m)) e s).
    set (v := F2R (Float radix2 (cond_Zopp s (Zpos m)) e)).
    assert (Ev : v = R64 (B754_finite 53 1024 s m e H)) by reflexivity.
    change (round radix2 (SpecFloat.fexp 24 128) (round_mode mode_NE) v) with (rnd32 v). rewrite Ev. rewrite Rlt_bool_true by exact Hb.
    intros (Hr & Hfin & Hs). split; [exact Hr|]. split; [exact Hfin|].
    rewrite Hs. rewrite <- Ev. unfold v. simpl Bsign.
    destruct s; simpl cond_Zopp.
    + rewrite Rcompare_Lt; [reflexivity|]. apply F2R_lt_0. simpl. lia.
    + rewrite Rcompare_Gt; [reflexivity|]. apply F2R_gt_0. simpl. lia.
Qed.

(* ------------------------------------------------------------------ calculateNormal: the
   real-number computation.  n1, n2, n3 are the three exact products (each a product of two
   float32, hence 0 or of magnitude in [2^-298, 2^256)) *)
Definition len_r (n1 n2 n3 : R) : R :=
  rnd64 (sqrt (rnd64 (rnd64 (rnd64 (n1 * n1) + rnd64 (n2 * n2)) + rnd64 (n3 * n3)))).
Definition comp_r (n L : R) : R := rnd32 (rnd64 (n / L)).

Definition prod_ok (n : R) : Prop :=
  (n = 0 \/ bpow radix2 (-298) <= Rabs n) /\ Rabs n <= bpow radix2 256.

Lemma sq_abs : forall n, n * n = Rabs n * Rabs n.
Proof. intros n. unfold Rabs. destruct (Rcase_abs n); ring. Qed.

Lemma bpow_298_pos : 0 < bpow radix2 (-298).
Proof. apply bpow_gt_0. Qed.

Lemma sq_ge_min : forall a, bpow radix2 (-298) <= a -> bpow radix2 (-1022) <= a * a.
Proof.
  intros a Ha. generalize bpow_298_pos. intros Hp.
  apply Rle_trans with (bpow radix2 (-298) * bpow radix2 (-298)).
  - rewrite <- bpow_plus. apply bpow_le. lia.
  - apply Rmult_le_compat; lra.
Qed.

Lemma sq_le_max : forall a, 0 <= a -> a <= bpow radix2 256 -> a * a <= bpow radix2 512.
Proof.
  intros a H0 Ha. change 512%Z with (256 + 256)%Z. rewrite bpow_plus.
  apply Rmult_le_compat; lra.
Qed.

(* one rounded square *)
Lemma sq_bounds : forall n, prod_ok n ->
  0 <= rnd64 (n * n) /\
  (1 - u64) * (Rabs n * Rabs n) <= rnd64 (n * n) <= (1 + u64) * (Rabs n * Rabs n).
Proof.
  intros n [[Hz|Hn] Hmax].
  - subst n. rewrite Rmult_0_l, rnd64_0, Rabs_R0. lra.
  - rewrite (sq_abs n). set (a := Rabs n) in *.
    assert (Hmin : bpow radix2 (-1022) <= Rabs (a * a)).
    { rewrite Rabs_pos_eq. apply sq_ge_min. exact Hn.
      generalize bpow_298_pos. intros. apply Rmult_le_pos; lra. }
    generalize (rnd64_rel (a * a) Hmin). intros Hr.
    assert (H0 : 0 <= a * a). { generalize bpow_298_pos. intros. apply Rmult_le_pos; lra. }
    rewrite (Rabs_pos_eq _ H0) in Hr. rewrite u64_val in *. apply Rabs_le_inv in Hr.
    split; [|lra]. lra.
Qed.

Lemma sqrt_sq : forall a, 0 <= a -> sqrt (a * a) = a.
Proof. intros a Ha. apply sqrt_square. exact Ha. Qed.

(* lower bound of the length by every component *)
Lemma len_lower_sq : forall n s, prod_ok n -> rnd64 (n * n) <= s ->
  (1 - u64) * (1 - u64) * Rabs n <= rnd64 (sqrt s).
Proof.
  intros n s Hn Hs. destruct (sq_bounds n Hn) as (Hp0 & Hlo & _).
  destruct Hn as [[Hz|Hn] Hmax].
  - subst n. rewrite Rabs_R0, Rmult_0_r.
    rewrite <- rnd64_0. apply rnd64_le. apply sqrt_pos.
  - set (a := Rabs n) in *. generalize bpow_298_pos. intros Hpp.
    assert (Ha : 0 < a) by lra.
    assert (Hs1 : (1 - u64) * a <= sqrt s).
    { rewrite <- (sqrt_sq ((1 - u64) * a)) by (rewrite u64_val; nra).
      apply sqrt_le_1_alt. eapply Rle_trans; [|exact Hs]. eapply Rle_trans; [|exact Hlo].
      rewrite u64_val. assert (0 <= a * a) by nra. nra. }
    assert (Hmin : bpow radix2 (-1022) <= Rabs (sqrt s)).
    { rewrite Rabs_pos_eq by apply sqrt_pos. eapply Rle_trans; [|exact Hs1].
      apply Rle_trans with (bpow radix2 (-1) * bpow radix2 (-298)).
      - rewrite <- bpow_plus. apply bpow_le. lia.
      - apply Rmult_le_compat; try (apply bpow_ge_0); [|exact Hn]. rewrite u64_val. simpl. lra. }
    generalize (rnd64_rel (sqrt s) Hmin). intros Hr.
    rewrite (Rabs_pos_eq (sqrt s)) in Hr by apply sqrt_pos. apply Rabs_le_inv in Hr.
    rewrite u64_val in *. nra.
Qed.

Lemma rnd64_ge_l : forall p q, fmt64 p -> 0 <= q -> p <= rnd64 (p + q).
Proof. intros p q Fp Hq. apply round_ge_generic; [apply FLT_exp_valid; exact prec_gt_0_53|apply valid_rnd_N|exact Fp|lra]. Qed.
Lemma rnd64_ge_r : forall p q, fmt64 q -> 0 <= p -> q <= rnd64 (p + q).
Proof. intros p q Fq Hp. apply round_ge_generic; [apply FLT_exp_valid; exact prec_gt_0_53|apply valid_rnd_N|exact Fq|lra]. Qed.

Lemma rnd64_nonneg : forall x, 0 <= x -> 0 <= rnd64 x.
Proof. intros x Hx. rewrite <- rnd64_0. apply rnd64_le. exact Hx. Qed.

Section Norm.
Variables n1 n2 n3 : R.
Hypothesis H1 : prod_ok n1.
Hypothesis H2 : prod_ok n2.
Hypothesis H3 : prod_ok n3.
Let p1 := rnd64 (n1 * n1).
Let p2 := rnd64 (n2 * n2).
Let p3 := rnd64 (n3 * n3).
Let s1 := rnd64 (p1 + p2).
Let s2 := rnd64 (s1 + p3).
Let L := rnd64 (sqrt s2).

Lemma norm_L_eq : len_r n1 n2 n3 = L.
Proof. reflexivity. Qed.

Lemma norm_p_nonneg : 0 <= p1 /\ 0 <= p2 /\ 0 <= p3 /\ 0 <= s1 /\ 0 <= s2 /\ 0 <= L.
Proof.
  destruct (sq_bounds n1 H1) as (A1 & _). destruct (sq_bounds n2 H2) as (A2 & _).
  destruct (sq_bounds n3 H3) as (A3 & _). fold p1 in A1. fold p2 in A2. fold p3 in A3.
  assert (B1 : 0 <= s1) by (apply rnd64_nonneg; lra).
  assert (B2 : 0 <= s2) by (apply rnd64_nonneg; lra).
  repeat split; try assumption. apply rnd64_nonneg. apply sqrt_pos.
Qed.

Lemma norm_s2_ge : p1 <= s2 /\ p2 <= s2 /\ p3 <= s2.
Proof.
  destruct norm_p_nonneg as (A1 & A2 & A3 & B1 & B2 & _).
  assert (C1 : p1 <= s1) by (apply rnd64_ge_l; [apply fmt64_rnd64|exact A2]).
  assert (C2 : p2 <= s1) by (apply rnd64_ge_r; [apply fmt64_rnd64|exact A1]).
  assert (C3 : s1 <= s2) by (apply rnd64_ge_l; [apply fmt64_rnd64|exact A3]).
  assert (C4 : p3 <= s2) by (apply rnd64_ge_r; [apply fmt64_rnd64|exact B1]).
  lra.
Qed.

Lemma norm_lower :
  (1 - u64) * (1 - u64) * Rabs n1 <= L /\
  (1 - u64) * (1 - u64) * Rabs n2 <= L /\
  (1 - u64) * (1 - u64) * Rabs n3 <= L.
Proof.
  destruct norm_s2_ge as (C1 & C2 & C3).
  split; [|split]; apply len_lower_sq; assumption.
Qed.

(* upper bound by any M dominating the three magnitudes *)
Variable M : R.
Hypothesis HM1 : Rabs n1 <= M.
Hypothesis HM2 : Rabs n2 <= M.
Hypothesis HM3 : Rabs n3 <= M.
Hypothesis HMmin : bpow radix2 (-298) <= M.
Hypothesis HMmax : M <= bpow radix2 256.

Lemma norm_upper : s1 <= 4 * (M * M) /\ s2 <= 4 * (M * M) /\ L <= 2 * M.
Proof.
  generalize bpow_298_pos. intros Hpp.
  destruct norm_p_nonneg as (A1 & A2 & A3 & B1 & B2 & B3).
  destruct (sq_bounds n1 H1) as (_ & _ & U1). destruct (sq_bounds n2 H2) as (_ & _ & U2).
  destruct (sq_bounds n3 H3) as (_ & _ & U3). fold p1 in U1. fold p2 in U2. fold p3 in U3.
  generalize (Rabs_pos n1) (Rabs_pos n2) (Rabs_pos n3). intros P1 P2 P3.
  set (Q := M * M).
  assert (Q1 : Rabs n1 * Rabs n1 <= Q) by (apply Rmult_le_compat; assumption).
  assert (Q2 : Rabs n2 * Rabs n2 <= Q) by (apply Rmult_le_compat; assumption).
  assert (Q3 : Rabs n3 * Rabs n3 <= Q) by (apply Rmult_le_compat; assumption).
  assert (HQmin : bpow radix2 (-1022) <= Q) by (apply sq_ge_min; exact HMmin).
  assert (HQ0 : 0 < Q) by (unfold Q; nra).
  rewrite u64_val in *.
  (* s1 *)
  set (b1 := 2 * (1 + / 9007199254740992) * Q).
  assert (Hb1 : p1 + p2 <= b1) by (unfold b1; nra).
  assert (Hb1min : bpow radix2 (-1022) <= Rabs b1) by (rewrite Rabs_pos_eq; unfold b1; nra).
  generalize (rnd64_rel b1 Hb1min) (rnd64_le _ _ Hb1). fold s1. rewrite u64_val. intros Hr1 Hm1.
  rewrite (Rabs_pos_eq b1) in Hr1 by (unfold b1; nra). apply Rabs_le_inv in Hr1.
  assert (S1 : s1 <= (1 + / 9007199254740992) * b1) by lra.
  (* s2 *)
  set (b2 := (1 + / 9007199254740992) * b1 + (1 + / 9007199254740992) * Q).
  assert (Hb2 : s1 + p3 <= b2) by (unfold b2; nra).
  assert (Hb2min : bpow radix2 (-1022) <= Rabs b2) by (rewrite Rabs_pos_eq; unfold b2, b1; nra).
  generalize (rnd64_rel b2 Hb2min) (rnd64_le _ _ Hb2). fold s2. rewrite u64_val. intros Hr2 Hm2.
  rewrite (Rabs_pos_eq b2) in Hr2 by (unfold b2, b1; nra). apply Rabs_le_inv in Hr2.
  assert (S2 : s2 <= (1 + / 9007199254740992) * b2) by lra.
  assert (S2' : s2 <= (174 / 100 * M) * (174 / 100 * M)).
  { replace ((174 / 100 * M) * (174 / 100 * M)) with (30276 / 10000 * Q) by (unfold Q; field).
    unfold b2, b1 in S2. lra. }
  split; [unfold b1 in S1; lra|]. split; [unfold b2, b1 in S2; lra|].
  (* L *)
  assert (HM0 : 0 < M) by lra.
  assert (R1 : sqrt s2 <= 174 / 100 * M).
  { rewrite <- (sqrt_sq (174 / 100 * M)) by lra. apply sqrt_le_1_alt. exact S2'. }
  assert (Hb3min : bpow radix2 (-1022) <= Rabs (174 / 100 * M)).
  { rewrite Rabs_pos_eq by lra. apply Rle_trans with (bpow radix2 (-298)); [apply bpow_le; lia|lra]. }
  generalize (rnd64_rel _ Hb3min) (rnd64_le _ _ R1). fold L. rewrite u64_val. intros Hr3 Hm3.
  rewrite (Rabs_pos_eq (174 / 100 * M)) in Hr3 by lra. apply Rabs_le_inv in Hr3.
  lra.
Qed.
End Norm.

(* ------------------------------------------------------------------ one component n / L *)
Lemma comp_zero : forall L, comp_r 0 L = 0.
Proof. intros L. unfold comp_r, Rdiv. rewrite Rmult_0_l, rnd64_0, rnd32_0. reflexivity. Qed.

Lemma fmt64_one_plus : fmt64 (1 + bpow radix2 (-26)).
Proof.
  apply generic_format_FLT. apply (FLT_spec radix2 (-1074) 53 _ (Float radix2 67108865 (-26))).
  - unfold F2R. simpl. lra.
  - simpl. lia.
  - simpl. lia.
Qed.

Lemma rnd32_neg_above_one : rnd32 (- (1 + bpow radix2 (-26))) = Ropp 1.
Proof. rewrite rnd32_opp, rnd32_above_one. reflexivity. Qed.

Lemma comp_abs_le1 : forall n L, 0 < L -> (1 - u64) * (1 - u64) * Rabs n <= L -> Rabs (comp_r n L) <= 1.
Proof.
  intros n L HL Hn. unfold comp_r.
  set (c := 1 + bpow radix2 (-26)).
  assert (Hc : c = 1 + / 67108864) by (unfold c; simpl; lra).
  assert (Hq : Rabs (n / L) <= c).
  { unfold Rdiv. rewrite Rabs_mult, Rabs_inv. rewrite (Rabs_pos_eq L) by lra.
    apply Rmult_le_reg_r with L; [exact HL|]. rewrite Rmult_assoc, Rinv_l by lra.
    rewrite u64_val in Hn. generalize (Rabs_pos n). intros. rewrite Hc. nra. }
  apply Rabs_le_inv in Hq.
  assert (Hd : - c <= rnd64 (n / L) <= c).
  { split.
    - apply round_ge_generic; [apply FLT_exp_valid; exact prec_gt_0_53|apply valid_rnd_N| |lra].
      apply generic_format_opp. exact fmt64_one_plus.
    - apply round_le_generic; [apply FLT_exp_valid; exact prec_gt_0_53|apply valid_rnd_N| |lra].
      exact fmt64_one_plus. }
  apply Rabs_le. split.
  - rewrite <- rnd32_neg_above_one. apply rnd32_le. fold c. lra.
  - rewrite <- rnd32_above_one. apply rnd32_le. fold c. lra.
Qed.

Lemma half_fmt64 : fmt64 (/ 2).
Proof. replace (/ 2) with (bpow radix2 (-1)) by (simpl; lra). apply fmt64_bpow. lia. Qed.
Lemma half_fmt32 : fmt32 (/ 2).
Proof. replace (/ 2) with (bpow radix2 (-1)) by (simpl; lra). apply fmt32_bpow. lia. Qed.

Lemma comp_abs_ge_half : forall n L, 0 < L -> L <= 2 * Rabs n -> / 2 <= Rabs (comp_r n L).
Proof.
  intros n L HL Hn. unfold comp_r.
  assert (Hq : / 2 <= Rabs (n / L)).
  { unfold Rdiv. rewrite Rabs_mult, Rabs_inv. rewrite (Rabs_pos_eq L) by lra.
    apply Rmult_le_reg_r with L; [exact HL|]. rewrite Rmult_assoc, Rinv_l by lra. lra. }
  destruct (Rle_lt_dec 0 (n / L)) as [Hp|Hm].
  - rewrite Rabs_pos_eq in Hq by exact Hp.
    assert (/ 2 <= rnd64 (n / L)).
    { apply round_ge_generic; [apply FLT_exp_valid; exact prec_gt_0_53|apply valid_rnd_N|exact half_fmt64|exact Hq]. }
    assert (/ 2 <= rnd32 (rnd64 (n / L))).
    { apply round_ge_generic; [apply FLT_exp_valid; exact prec_gt_0_24|apply valid_rnd_N|exact half_fmt32|assumption]. }
    rewrite Rabs_pos_eq; lra.
  - rewrite Rabs_left in Hq by exact Hm.
    assert (rnd64 (n / L) <= - / 2).
    { apply round_le_generic; [apply FLT_exp_valid; exact prec_gt_0_53|apply valid_rnd_N| |lra].
      apply generic_format_opp. exact half_fmt64. }
    assert (rnd32 (rnd64 (n / L)) <= - / 2).
    { apply round_le_generic; [apply FLT_exp_valid; exact prec_gt_0_24|apply valid_rnd_N| |assumption].
      apply generic_format_opp. exact half_fmt32. }
    rewrite Rabs_left; lra.
Qed.

(* the sign of a component is the sign of its numerator *)
Lemma comp_sign : forall n L, 0 < L -> (0 <= n -> 0 <= comp_r n L) /\ (n <= 0 -> comp_r n L <= 0).
Proof.
  intros n L HL. unfold comp_r. split; intros Hn.
  - rewrite <- rnd32_0. apply rnd32_le. rewrite <- rnd64_0. apply rnd64_le.
    apply Rmult_le_pos; [exact Hn|]. apply Rlt_le. apply Rinv_0_lt_compat. exact HL.
  - rewrite <- rnd32_0. apply rnd32_le. rewrite <- rnd64_0. apply rnd64_le.
    assert (0 < / L) by (apply Rinv_0_lt_compat; exact HL). unfold Rdiv. nra.
Qed.

(* ------------------------------------------------------------------ horizontal quads: only the
   middle product is non-zero; the result is exactly 1 *)
Lemma len_r_horizontal : forall Y, len_r 0 Y 0 = rnd64 (sqrt (rnd64 (Y * Y))).
Proof.
  intros Y. unfold len_r. rewrite Rmult_0_l, rnd64_0, Rplus_0_l, Rplus_0_r.
  rewrite !(rnd64_id (rnd64 (Y * Y))) by apply fmt64_rnd64. reflexivity.
Qed.

Lemma horizontal_core : forall Y, bpow radix2 (-298) <= Y -> Y <= bpow radix2 256 ->
  let L := len_r 0 Y 0 in 0 < L /\ comp_r Y L = 1.
Proof.
  intros Y Hmin Hmax L. generalize bpow_298_pos. intros Hpp.
  assert (HY : 0 < Y) by lra.
  assert (Hok : prod_ok Y).
  { split; [right|]; rewrite Rabs_pos_eq; lra. }
  destruct (sq_bounds Y Hok) as (P0 & Plo & Phi). rewrite (Rabs_pos_eq Y) in Plo, Phi by lra.
  set (P := rnd64 (Y * Y)) in *.
  assert (HL : L = rnd64 (sqrt P)) by (unfold L; apply len_r_horizontal).
  (* lower *)
  assert (Llo : (1 - u64) * (1 - u64) * Y <= L).
  { rewrite HL. rewrite <- (Rabs_pos_eq Y) at 1 by lra. apply len_lower_sq; [exact Hok|apply Rle_refl]. }
  (* upper *)
  rewrite u64_val in *.
  assert (S1 : sqrt P <= (1 + / 9007199254740992) * Y).
  { rewrite <- (sqrt_sq ((1 + / 9007199254740992) * Y)) by nra. apply sqrt_le_1_alt.
    assert (0 < Y * Y) by nra. nra. }
  assert (S0 : (1 - / 9007199254740992) * Y <= sqrt P).
  { rewrite <- (sqrt_sq ((1 - / 9007199254740992) * Y)) by nra. apply sqrt_le_1_alt.
    assert (0 < Y * Y) by nra. nra. }
  assert (Hmin1 : bpow radix2 (-1022) <= Rabs (sqrt P)).
  { rewrite Rabs_pos_eq by apply sqrt_pos. eapply Rle_trans; [|exact S0].
    apply Rle_trans with (bpow radix2 (-1) * bpow radix2 (-298)).
    - rewrite <- bpow_plus. apply bpow_le. lia.
    - apply Rmult_le_compat; try (apply bpow_ge_0); [simpl; lra|exact Hmin]. }
  generalize (rnd64_rel _ Hmin1). rewrite <- HL, u64_val. intros Hr.
  rewrite (Rabs_pos_eq (sqrt P)) in Hr by apply sqrt_pos. apply Rabs_le_inv in Hr.
  assert (Lhi : L <= (1 + / 9007199254740992) * (1 + / 9007199254740992) * Y) by nra.
  assert (L0 : 0 < L) by nra.
  split; [exact L0|].
  (* the quotient *)
  set (q := Y / L).
  assert (Eq : q * L = Y) by (unfold q; field; lra).
  assert (q0 : 0 < q) by (unfold q; apply Rdiv_lt_0_compat; lra).
  assert (qlo : 1 - 3 * / 9007199254740992 <= q).
  { assert (Y <= q * ((1 + / 9007199254740992) * (1 + / 9007199254740992) * Y)) by nra.
    assert (1 <= q * ((1 + / 9007199254740992) * (1 + / 9007199254740992))) by nra. lra. }
  assert (qhi : q <= 1 + 3 * / 9007199254740992).
  { assert (q * ((1 - / 9007199254740992) * (1 - / 9007199254740992) * Y) <= Y) by nra.
    assert (q * ((1 - / 9007199254740992) * (1 - / 9007199254740992)) <= 1) by nra. lra. }
  assert (Hmin2 : bpow radix2 (-1022) <= Rabs q).
  { rewrite Rabs_pos_eq by lra. apply Rle_trans with (bpow radix2 (-1)); [apply bpow_le; lia|simpl; lra]. }
  generalize (rnd64_rel _ Hmin2). rewrite u64_val. intros Hd.
  rewrite (Rabs_pos_eq q) in Hd by lra. apply Rabs_le_inv in Hd.
  unfold comp_r. fold q. apply Rle_antisym.
  - rewrite <- rnd32_above_one. apply rnd32_le. simpl. lra.
  - rewrite <- rnd32_below_one. apply rnd32_le. simpl. lra.
Qed.

Lemma quot_bound : forall n L, 0 < L -> (1 - u64) * (1 - u64) * Rabs n <= L ->
  Rabs (rnd64 (n / L)) <= 1 + bpow radix2 (-26).
Proof.
  intros n L HL Hn.
  apply abs_round_le_generic; [apply FLT_exp_valid; exact prec_gt_0_53|apply valid_rnd_N|exact fmt64_one_plus|].
  unfold Rdiv. rewrite Rabs_mult, Rabs_inv. rewrite (Rabs_pos_eq L) by lra.
  apply Rmult_le_reg_r with L; [exact HL|]. rewrite Rmult_assoc, Rinv_l by lra.
  rewrite u64_val in Hn. generalize (Rabs_pos n). intros. simpl. nra.
Qed.

(* ------------------------------------------------------------------ calculateNormal: from the
   IEEE operations to the real-number computation *)
Definition is32 (a : binary64) : Prop :=
  is_finite64 a = true /\ fmt32 (R64 a) /\ Rabs (R64 a) < bpow radix2 128.

Lemma is32_of_f32 : forall x, is_finite32 x = true -> is32 (f64_of_f32 x).
Proof.
  intros x Hx. destruct (f64_of_f32_correct x Hx) as (Hr & Hf & _).
  split; [exact Hf|]. rewrite Hr. split; [apply fmt32_R32|apply R32_lt_128].
Qed.

Lemma is32_neg : forall a, is32 a -> is32 (dneg a).
Proof.
  intros a (Hf & Hfmt & Hb). destruct (dneg_correct a Hf) as (Hr & Hf' & _).
  split; [exact Hf'|]. rewrite Hr. split; [apply generic_format_opp; exact Hfmt|rewrite Rabs_Ropp; exact Hb].
Qed.

Lemma prod_ok_mul : forall x y, fmt32 x -> fmt32 y -> Rabs x < bpow radix2 128 -> Rabs y < bpow radix2 128 ->
  prod_ok (x * y).
Proof.
  intros x y Fx Fy Bx By. split.
  - destruct (Req_dec x 0) as [Hx|Hx]; [left; subst x; ring|].
    destruct (Req_dec y 0) as [Hy|Hy]; [left; subst y; ring|].
    right. rewrite Rabs_mult. change (-298)%Z with (-149 + -149)%Z. rewrite bpow_plus.
    generalize (fmt32_ge x Fx Hx) (fmt32_ge y Fy Hy) (bpow_gt_0 radix2 (-149)). intros.
    apply Rmult_le_compat; lra.
  - rewrite Rabs_mult. change 256%Z with (128 + 128)%Z. rewrite bpow_plus.
    generalize (Rabs_pos x) (Rabs_pos y). intros. apply Rmult_le_compat; lra.
Qed.

Lemma dmul_is32 : forall a b, is32 a -> is32 b ->
  R64 (dmul a b) = R64 a * R64 b /\ is_finite64 (dmul a b) = true /\
  Bsign 53 1024 (dmul a b) = xorb (Bsign 53 1024 a) (Bsign 53 1024 b) /\ prod_ok (R64 a * R64 b).
Proof.
  intros a b (Fa & Ha & Ba) (Fb & Hb & Bb).
  assert (Hok := prod_ok_mul _ _ Ha Hb Ba Bb).
  assert (Hid : rnd64 (R64 a * R64 b) = R64 a * R64 b) by (apply rnd64_id; apply fmt32_mul_fmt64; assumption).
  destruct (dmul_correct a b Fa Fb) as (Hr & Hf & Hs).
  { rewrite Hid. apply (bpow_lt_1024 256); [lia|]. apply Hok. }
  rewrite Hid in Hr. repeat split; try assumption; apply Hok.
Qed.

Lemma rabs_sq_le : forall n, Rabs n <= bpow radix2 256 -> Rabs n * Rabs n <= bpow radix2 512.
Proof. intros n Hn. apply sq_le_max; [apply Rabs_pos|exact Hn]. Qed.

Lemma dsq_sem : forall n, is_finite64 n = true -> prod_ok (R64 n) ->
  R64 (dmul n n) = rnd64 (R64 n * R64 n) /\ is_finite64 (dmul n n) = true.
Proof.
  intros n Fn Hok. destruct (sq_bounds _ Hok) as (P0 & _ & Phi).
  destruct (dmul_correct n n Fn Fn) as (Hr & Hf & _).
  { apply (bpow_lt_1024 513); [lia|]. rewrite Rabs_pos_eq by exact P0.
    eapply Rle_trans; [exact Phi|]. generalize (rabs_sq_le _ (proj2 Hok)). rewrite u64_val.
    change 513%Z with (1 + 512)%Z. rewrite bpow_plus. simpl (bpow radix2 1).
    generalize (bpow_gt_0 radix2 512). intros. lra. }
  split; assumption.
Qed.

Definition Mdom (n1 n2 n3 : R) : R := Rmax (bpow radix2 (-298)) (Rmax (Rabs n1) (Rmax (Rabs n2) (Rabs n3))).

Lemma Mdom_facts : forall n1 n2 n3, prod_ok n1 -> prod_ok n2 -> prod_ok n3 ->
  let M := Mdom n1 n2 n3 in
  Rabs n1 <= M /\ Rabs n2 <= M /\ Rabs n3 <= M /\ bpow radix2 (-298) <= M /\ M <= bpow radix2 256.
Proof.
  intros n1 n2 n3 (_ & A1) (_ & A2) (_ & A3) M. unfold M, Mdom.
  assert (bpow radix2 (-298) <= bpow radix2 256) by (apply bpow_le; lia).
  repeat split.
  - eapply Rle_trans; [|apply Rmax_r]. apply Rmax_l.
  - eapply Rle_trans; [|apply Rmax_r]. eapply Rle_trans; [|apply Rmax_r]. apply Rmax_l.
  - eapply Rle_trans; [|apply Rmax_r]. eapply Rle_trans; [|apply Rmax_r]. apply Rmax_r.
  - apply Rmax_l.
  - repeat apply Rmax_lub; assumption.
Qed.

Lemma length64_sem : forall n1 n2 n3 : binary64,
  is_finite64 n1 = true -> is_finite64 n2 = true -> is_finite64 n3 = true ->
  prod_ok (R64 n1) -> prod_ok (R64 n2) -> prod_ok (R64 n3) ->
  R64 (length64 n1 n2 n3) = len_r (R64 n1) (R64 n2) (R64 n3) /\ is_finite64 (length64 n1 n2 n3) = true.
Proof.
  intros n1 n2 n3 F1 F2 F3 K1 K2 K3. unfold length64, len_r.
  destruct (dsq_sem n1 F1 K1) as (E1 & G1). destruct (dsq_sem n2 F2 K2) as (E2 & G2).
  destruct (dsq_sem n3 F3 K3) as (E3 & G3).
  destruct (Mdom_facts _ _ _ K1 K2 K3) as (M1 & M2 & M3 & Mmin & Mmax).
  set (M := Mdom (R64 n1) (R64 n2) (R64 n3)) in *.
  destruct (norm_upper _ _ _ K1 K2 K3 M M1 M2 M3 Mmin) as (U1 & U2 & _).
  destruct (norm_p_nonneg _ _ _ K1 K2 K3) as (_ & _ & _ & B1 & B2 & _).
  assert (HMM : 4 * (M * M) <= bpow radix2 514).
  { change 514%Z with (2 + 512)%Z. rewrite bpow_plus. simpl (bpow radix2 2).
    assert (M * M <= bpow radix2 512).
    { apply sq_le_max; [|exact Mmax]. generalize bpow_298_pos. lra. }
    lra. }
  destruct (dadd_correct (dmul n1 n1) (dmul n2 n2) G1 G2) as (E4 & G4).
  { rewrite E1, E2. apply (bpow_lt_1024 514); [lia|]. rewrite Rabs_pos_eq by exact B1. lra. }
  rewrite E1, E2 in E4.
  destruct (dadd_correct _ (dmul n3 n3) G4 G3) as (E5 & G5).
  { rewrite E4, E3. apply (bpow_lt_1024 514); [lia|]. rewrite Rabs_pos_eq by exact B2. lra. }
  rewrite E4, E3 in E5.
  destruct (dsqrt_correct _ G5) as (E6 & G6).
  { rewrite E5. exact B2. }
  rewrite E5 in E6. split; assumption.
Qed.

Lemma comp_sem : forall n L : binary64, is_finite64 n = true -> is_finite64 L = true -> 0 < R64 L ->
  (1 - u64) * (1 - u64) * Rabs (R64 n) <= R64 L ->
  R32 (f32_of_f64 (ddiv n L)) = comp_r (R64 n) (R64 L) /\ is_finite32 (f32_of_f64 (ddiv n L)) = true /\
  Bsign 24 128 (f32_of_f64 (ddiv n L)) = Bsign 53 1024 n.
Proof.
  intros n L Fn FL HL Hn.
  destruct (ddiv_correct n L Fn FL) as (E1 & G1 & S1).
  { lra. }
  { eapply Rle_lt_trans; [apply quot_bound; assumption|].
    apply Rlt_trans with (bpow radix2 1); [simpl; lra|apply bpow_lt; lia]. }
  destruct (f32_of_f64_correct _ G1) as (E2 & G2 & S2).
  { rewrite E1. fold (comp_r (R64 n) (R64 L)).
    eapply Rle_lt_trans; [apply comp_abs_le1; assumption|].
    apply Rlt_trans with (bpow radix2 1); [simpl; lra|apply bpow_lt; lia]. }
  rewrite E1 in E2. split; [exact E2|]. split; [exact G2|].
  rewrite S2, S1.
  assert (Bsign 53 1024 L = false).
  { destruct L as [s|s|s pl H|s m e H]; try discriminate FL.
    - simpl in HL. unfold R64 in HL. simpl in HL. lra.
    - destruct s; [|reflexivity]. exfalso.
      assert (R64 (B754_finite 53 1024 true m e H) < 0).
      { unfold R64. simpl. apply F2R_lt_0. simpl. lia. }
      lra. }
  rewrite H. apply xorb_false_r.
Qed.

Lemma zero_comp_sem : forall n : binary64, is_finite64 n = true -> R64 n = 0 ->
  R32 (f32_of_f64 n) = 0 /\ is_finite32 (f32_of_f64 n) = true /\ Bsign 24 128 (f32_of_f64 n) = Bsign 53 1024 n.
Proof.
  intros n Fn Hn. destruct (f32_of_f64_correct n Fn) as (E & G & S).
  { rewrite Hn, rnd32_0, Rabs_R0. apply bpow_gt_0. }
  rewrite Hn, rnd32_0 in E. repeat split; assumption.
Qed.

(* the three exact products of calculateNormal *)
Definition nx_r (e : vec32) : R := - R32 (fz e) * R32 (fy e).
Definition ny_r (e : vec32) : R := R32 (fz e) * R32 (fx e).
Definition nz_r (e : vec32) : R := - R32 (fy e) * R32 (fx e).
Definition nlen_r (e : vec32) : R := len_r (nx_r e) (ny_r e) (nz_r e).

Lemma normal64_sem : forall e, finite_vec32 e = true ->
  let '(nx, ny, nz) := normal64 e in
  (R64 nx = nx_r e /\ is_finite64 nx = true /\ prod_ok (nx_r e) /\
   Bsign 53 1024 nx = xorb (negb (Bsign 24 128 (fz e))) (Bsign 24 128 (fy e))) /\
  (R64 ny = ny_r e /\ is_finite64 ny = true /\ prod_ok (ny_r e) /\
   Bsign 53 1024 ny = xorb (Bsign 24 128 (fz e)) (Bsign 24 128 (fx e))) /\
  (R64 nz = nz_r e /\ is_finite64 nz = true /\ prod_ok (nz_r e) /\
   Bsign 53 1024 nz = xorb (negb (Bsign 24 128 (fy e))) (Bsign 24 128 (fx e))).
Proof.
  intros e He. apply finite_vec32_iff in He. destruct He as (Hx & Hy & Hz).
  unfold normal64, nx_r, ny_r, nz_r.
  destruct (f64_of_f32_correct _ Hx) as (Rx & Fx & Sx).
  destruct (f64_of_f32_correct _ Hy) as (Ry & Fy & Sy).
  destruct (f64_of_f32_correct _ Hz) as (Rz & Fz & Sz).
  assert (Ix := is32_of_f32 _ Hx). assert (Iy := is32_of_f32 _ Hy). assert (Iz := is32_of_f32 _ Hz).
  destruct (dneg_correct _ Fz) as (Rnz & _ & Snz). destruct (dneg_correct _ Fy) as (Rny & _ & Sny).
  destruct (dmul_is32 _ _ (is32_neg _ Iz) Iy) as (E1 & G1 & S1 & K1).
  destruct (dmul_is32 _ _ Iz Ix) as (E2 & G2 & S2 & K2).
  destruct (dmul_is32 _ _ (is32_neg _ Iy) Ix) as (E3 & G3 & S3 & K3).
  rewrite Rnz, Ry, Rz in *. rewrite Rny, Rx in *. rewrite Snz, Sny, Sx, Sy, Sz in *.
  exact (conj (conj E1 (conj G1 (conj K1 S1))) (conj (conj E2 (conj G2 (conj K2 S2))) (conj E3 (conj G3 (conj K3 S3))))).
Qed.

Lemma len_r_000 : len_r 0 0 0 = 0.
Proof. unfold len_r. repeat (rewrite ?Rmult_0_l, ?Rplus_0_l, ?rnd64_0, ?sqrt_0). reflexivity. Qed.

(* MAIN (semantics of calculateNormal): for finite extents with a non-zero exact normal, the
   float64 length is positive, every component of the float32 result is finite and equals
   round32 (round64 (n_i / L)), and carries the sign of the exact product n_i *)
Theorem normal32_sem : forall c e, finite_vec32 e = true ->
  (nx_r e <> 0 \/ ny_r e <> 0 \/ nz_r e <> 0) ->
  let L := nlen_r e in
  let r := normal32 c e in
  0 < L /\ finite_vec32 r = true /\
  R32 (fx r) = comp_r (nx_r e) L /\ R32 (fy r) = comp_r (ny_r e) L /\ R32 (fz r) = comp_r (nz_r e) L /\
  Bsign 24 128 (fx r) = xorb (negb (Bsign 24 128 (fz e))) (Bsign 24 128 (fy e)) /\
  Bsign 24 128 (fy r) = xorb (Bsign 24 128 (fz e)) (Bsign 24 128 (fx e)) /\
  Bsign 24 128 (fz r) = xorb (negb (Bsign 24 128 (fy e))) (Bsign 24 128 (fx e)).
Proof.
  intros c e He Hnz L r. unfold r, normal32. generalize (normal64_sem e He).
  destruct (normal64 e) as [[nx ny] nz].
  intros ((E1 & G1 & K1 & S1) & (E2 & G2 & K2 & S2) & (E3 & G3 & K3 & S3)).
  assert (K1' : prod_ok (R64 nx)) by (rewrite E1; exact K1).
  assert (K2' : prod_ok (R64 ny)) by (rewrite E2; exact K2).
  assert (K3' : prod_ok (R64 nz)) by (rewrite E3; exact K3).
  destruct (length64_sem nx ny nz G1 G2 G3 K1' K2' K3') as (EL & GL).
  rewrite E1, E2, E3 in EL. fold (nlen_r e) in EL. fold L in EL.
  assert (HLow : (1 - u64) * (1 - u64) * Rabs (nx_r e) <= L /\
                 (1 - u64) * (1 - u64) * Rabs (ny_r e) <= L /\
                 (1 - u64) * (1 - u64) * Rabs (nz_r e) <= L) by exact (norm_lower _ _ _ K1 K2 K3).
  destruct HLow as (L1 & L2 & L3).
  assert (HL : 0 < L).
  { rewrite u64_val in L1, L2, L3.
    destruct Hnz as [H|[H|H]]; apply Rabs_pos_lt in H; nra. }
  assert (Hne : dne (length64 nx ny nz) zero64 = true).
  { rewrite (dne_zero _ GL), EL. rewrite Req_bool_false by lra. reflexivity. }
  rewrite Hne. cbv [fx fy fz].
  rewrite <- EL in HL, L1, L2, L3. rewrite <- E1 in L1. rewrite <- E2 in L2. rewrite <- E3 in L3.
  destruct (comp_sem nx _ G1 GL HL L1) as (C1 & F1 & T1).
  destruct (comp_sem ny _ G2 GL HL L2) as (C2 & F2 & T2).
  destruct (comp_sem nz _ G3 GL HL L3) as (C3 & F3 & T3).
  rewrite EL in *. rewrite E1 in C1. rewrite E2 in C2. rewrite E3 in C3.
  rewrite S1 in T1. rewrite S2 in T2. rewrite S3 in T3.
  split; [exact HL|]. split; [unfold finite_vec32; cbv [fx fy fz]; rewrite F1, F2, F3; reflexivity|].
  repeat split; assumption.
Qed.

(* when the exact normal is the zero vector (at most one non-zero extent) the result is a vector
   of zeros: nothing is ever infinite or a NaN for finite extents *)
Theorem normal32_zero : forall c e, finite_vec32 e = true ->
  nx_r e = 0 -> ny_r e = 0 -> nz_r e = 0 ->
  let r := normal32 c e in
  finite_vec32 r = true /\ R32 (fx r) = 0 /\ R32 (fy r) = 0 /\ R32 (fz r) = 0.
Proof.
  intros c e He Z1 Z2 Z3 r. unfold r, normal32. generalize (normal64_sem e He).
  destruct (normal64 e) as [[nx ny] nz].
  intros ((E1 & G1 & K1 & S1) & (E2 & G2 & K2 & S2) & (E3 & G3 & K3 & S3)).
  assert (K1' : prod_ok (R64 nx)) by (rewrite E1; exact K1).
  assert (K2' : prod_ok (R64 ny)) by (rewrite E2; exact K2).
  assert (K3' : prod_ok (R64 nz)) by (rewrite E3; exact K3).
  destruct (length64_sem nx ny nz G1 G2 G3 K1' K2' K3') as (EL & GL).
  rewrite E1, E2, E3, Z1, Z2, Z3, len_r_000 in EL.
  assert (Hne : dne (length64 nx ny nz) zero64 = false).
  { rewrite (dne_zero _ GL), EL. rewrite Req_bool_true by reflexivity. reflexivity. }
  rewrite Hne. cbv [fx fy fz].
  rewrite Z1 in E1. rewrite Z2 in E2. rewrite Z3 in E3.
  destruct (zero_comp_sem nx G1 E1) as (C1 & F1 & _).
  destruct (zero_comp_sem ny G2 E2) as (C2 & F2 & _).
  destruct (zero_comp_sem nz G3 E3) as (C3 & F3 & _).
  split; [unfold finite_vec32; cbv [fx fy fz]; rewrite F1, F2, F3; reflexivity|].
  repeat split; assumption.
Qed.

Theorem normal32_finite : forall c e, finite_vec32 e = true -> finite_vec32 (normal32 c e) = true.
Proof.
  intros c e He.
  destruct (Req_dec (nx_r e) 0) as [Z1|N1]; [|apply (normal32_sem c e He); tauto].
  destruct (Req_dec (ny_r e) 0) as [Z2|N2]; [|apply (normal32_sem c e He); tauto].
  destruct (Req_dec (nz_r e) 0) as [Z3|N3]; [|apply (normal32_sem c e He); tauto].
  apply (normal32_zero c e He Z1 Z2 Z3).
Qed.

(* ------------------------------------------------------------------ (a) horizontal quads *)
Theorem normal32_horizontal : forall c e, finite_vec32 e = true ->
  R32 (fy e) = 0 -> 0 < R32 (fx e) -> 0 < R32 (fz e) ->
  let r := normal32 c e in
  finite_vec32 r = true /\ R32 (fx r) = 0 /\ R32 (fy r) = 1 /\ R32 (fz r) = 0 /\
  Bsign 24 128 (fx r) = negb (Bsign 24 128 (fy e)) /\ Bsign 24 128 (fz r) = negb (Bsign 24 128 (fy e)).
Proof.
  intros c e He Hy Hx Hz r.
  assert (Z1 : nx_r e = 0) by (unfold nx_r; rewrite Hy; ring).
  assert (Z3 : nz_r e = 0) by (unfold nz_r; rewrite Hy; ring).
  assert (P2 : 0 < ny_r e) by (unfold ny_r; apply Rmult_lt_0_compat; assumption).
  generalize (normal64_sem e He). destruct (normal64 e) as [[nx ny] nz].
  intros (_ & (_ & _ & K2 & _) & _).
  destruct K2 as [[K2|K2] K2'].
  { lra. }
  rewrite Rabs_pos_eq in K2, K2' by lra.
  destruct (normal32_sem c e He) as (HL & HF & C1 & C2 & C3 & S1 & S2 & S3).
  { right. left. lra. }
  fold r in HF, C1, C2, C3, S1, S2, S3.
  unfold nlen_r in *. rewrite Z1, Z3 in *.
  destruct (horizontal_core (ny_r e) K2 K2') as (_ & Hone).
  rewrite comp_zero in C1, C3. rewrite Hone in C2.
  assert (Sx : Bsign 24 128 (fx e) = false).
  { apply finite_vec32_iff in He. destruct He as (Fx & _).
    destruct (fx e) as [s|s|s pl H|s m ee H]; try discriminate Fx.
    - unfold R32 in Hx. simpl in Hx. lra.
    - destruct s; [|reflexivity]. exfalso.
      assert (R32 (B754_finite 24 128 true m ee H) < 0).
      { unfold R32. simpl. apply F2R_lt_0. simpl. lia. }
      lra. }
  assert (Sz : Bsign 24 128 (fz e) = false).
  { apply finite_vec32_iff in He. destruct He as (_ & _ & Fz).
    destruct (fz e) as [s|s|s pl H|s m ee H]; try discriminate Fz.
    - unfold R32 in Hz. simpl in Hz. lra.
    - destruct s; [|reflexivity]. exfalso.
      assert (R32 (B754_finite 24 128 true m ee H) < 0).
      { unfold R32. simpl. apply F2R_lt_0. simpl. lia. }
      lra. }
  rewrite Sz in S1. rewrite Sx in S3. change (negb false) with true in S1. rewrite xorb_true_l in S1. rewrite xorb_false_r in S3.
  repeat split; assumption.
Qed.

(* bit patterns *)
Lemma zero_bits : forall v : binary32, is_finite32 v = true -> R32 v = 0 ->
  bits_of_f32 v = if Bsign 24 128 v then 2147483648%Z else 0%Z.
Proof.
  intros v Fv Hv. destruct v as [s|s|s pl H|s m e H]; try discriminate Fv.
  - destruct s; reflexivity.
  - exfalso. unfold R32 in Hv. simpl in Hv. apply eq_0_F2R in Hv. destruct s; discriminate Hv.
Qed.

Lemma R32_one32 : R32 one32 = 1.
Proof.
  rewrite R32_FF.
  replace (B2FF 24 128 one32) with (F754_finite false 8388608 (-23)) by (vm_compute; reflexivity).
  unfold FF2R, F2R. simpl. lra.
Qed.

Lemma one_bits : forall v : binary32, is_finite32 v = true -> R32 v = 1 -> bits_of_f32 v = 1065353216%Z.
Proof.
  intros v Fv Hv.
  assert (E : v = one32).
  { apply (B2R_inj 24 128).
    - destruct v as [s|s|s pl H|s m e H]; try discriminate Fv; [|reflexivity].
      unfold R32 in Hv. simpl in Hv. lra.
    - vm_compute. reflexivity.
    - fold (R32 v). fold (R32 one32). rewrite R32_one32. exact Hv. }
  rewrite E. vm_compute. reflexivity.
Qed.

Theorem normal32_horizontal_bits : forall c e, finite_vec32 e = true ->
  R32 (fy e) = 0 -> 0 < R32 (fx e) -> 0 < R32 (fz e) ->
  bits_of_vec32 (normal32 c e) =
  if Bsign 24 128 (fy e) then (0, 1065353216, 0)%Z else (2147483648, 1065353216, 2147483648)%Z.
Proof.
  intros c e He Hy Hx Hz.
  destruct (normal32_horizontal c e He Hy Hx Hz) as (HF & C1 & C2 & C3 & S1 & S3).
  apply finite_vec32_iff in HF. destruct HF as (F1 & F2 & F3).
  unfold bits_of_vec32. rewrite (zero_bits _ F1 C1), (one_bits _ F2 C2), (zero_bits _ F3 C3), S1, S3.
  destruct (Bsign 24 128 (fy e)); reflexivity.
Qed.

(* ------------------------------------------------------------------ (b) the normal is never the
   zero vector when the exact normal is not *)
Lemma norm_max_comp : forall n1 n2 n3, prod_ok n1 -> prod_ok n2 -> prod_ok n3 ->
  (n1 <> 0 \/ n2 <> 0 \/ n3 <> 0) ->
  let L := len_r n1 n2 n3 in
  L <= 2 * Rabs n1 \/ L <= 2 * Rabs n2 \/ L <= 2 * Rabs n3.
Proof.
  intros n1 n2 n3 K1 K2 K3 Hnz L.
  destruct (Mdom_facts _ _ _ K1 K2 K3) as (M1 & M2 & M3 & Mmin & Mmax).
  assert (HU : L <= 2 * Mdom n1 n2 n3).
  { exact (proj2 (proj2 (norm_upper _ _ _ K1 K2 K3 _ M1 M2 M3 Mmin))). }
  revert HU. unfold Mdom.
  apply Rmax_case; [|apply Rmax_case; [|apply Rmax_case]]; intros HU; try tauto.
  destruct Hnz as [H|[H|H]].
  - left. destruct K1 as [[K|K] _]; [contradiction|lra].
  - right. left. destruct K2 as [[K|K] _]; [contradiction|lra].
  - right. right. destruct K3 as [[K|K] _]; [contradiction|lra].
Qed.

Theorem normal32_nonzero : forall c e, finite_vec32 e = true ->
  (nx_r e <> 0 \/ ny_r e <> 0 \/ nz_r e <> 0) ->
  let r := normal32 c e in
  finite_vec32 r = true /\
  Rabs (R32 (fx r)) <= 1 /\ Rabs (R32 (fy r)) <= 1 /\ Rabs (R32 (fz r)) <= 1 /\
  (/ 2 <= Rabs (R32 (fx r)) \/ / 2 <= Rabs (R32 (fy r)) \/ / 2 <= Rabs (R32 (fz r))).
Proof.
  intros c e He Hnz r.
  destruct (normal32_sem c e He Hnz) as (HL & HF & C1 & C2 & C3 & _).
  fold r in HF, C1, C2, C3.
  generalize (normal64_sem e He). destruct (normal64 e) as [[nx ny] nz].
  intros ((_ & _ & K1 & _) & (_ & _ & K2 & _) & (_ & _ & K3 & _)).
  assert (HLow : (1 - u64) * (1 - u64) * Rabs (nx_r e) <= nlen_r e /\
                 (1 - u64) * (1 - u64) * Rabs (ny_r e) <= nlen_r e /\
                 (1 - u64) * (1 - u64) * Rabs (nz_r e) <= nlen_r e) by exact (norm_lower _ _ _ K1 K2 K3).
  destruct HLow as (L1 & L2 & L3).
  rewrite C1, C2, C3.
  split; [exact HF|].
  split; [apply comp_abs_le1; assumption|]. split; [apply comp_abs_le1; assumption|].
  split; [apply comp_abs_le1; assumption|].
  destruct (norm_max_comp _ _ _ K1 K2 K3 Hnz) as [H|[H|H]].
  - left. apply comp_abs_ge_half; assumption.
  - right. left. apply comp_abs_ge_half; assumption.
  - right. right. apply comp_abs_ge_half; assumption.
Qed.

(* "at least two non-zero extents" is exactly "the exact normal is not zero" *)
Lemma two_nonzero_iff : forall e,
  (nx_r e <> 0 \/ ny_r e <> 0 \/ nz_r e <> 0) <->
  ((R32 (fz e) <> 0 /\ R32 (fy e) <> 0) \/ (R32 (fz e) <> 0 /\ R32 (fx e) <> 0) \/
   (R32 (fy e) <> 0 /\ R32 (fx e) <> 0)).
Proof.
  intros e. unfold nx_r, ny_r, nz_r. split.
  - intros [H|[H|H]]; [left|right; left|right; right]; split; intros E; apply H; rewrite E; ring.
  - intros [[A B]|[[A B]|[A B]]]; [left|right; left|right; right]; intros E;
      apply Rmult_integral in E; destruct E as [E|E]; try contradiction; lra.
Qed.

Theorem normal32_nonzero' : forall c e, finite_vec32 e = true ->
  ((R32 (fz e) <> 0 /\ R32 (fy e) <> 0) \/ (R32 (fz e) <> 0 /\ R32 (fx e) <> 0) \/
   (R32 (fy e) <> 0 /\ R32 (fx e) <> 0)) ->
  let r := normal32 c e in
  finite_vec32 r = true /\
  Rabs (R32 (fx r)) <= 1 /\ Rabs (R32 (fy r)) <= 1 /\ Rabs (R32 (fz r)) <= 1 /\
  (/ 2 <= Rabs (R32 (fx r)) \/ / 2 <= Rabs (R32 (fy r)) \/ / 2 <= Rabs (R32 (fz r))) /\
  (R32 (fx r) <> 0 \/ R32 (fy r) <> 0 \/ R32 (fz r) <> 0).
Proof.
  intros c e He H2 r. apply two_nonzero_iff in H2.
  destruct (normal32_nonzero c e He H2) as (A & B1 & B2 & B3 & D). fold r in A, B1, B2, B3, D.
  repeat (split; [assumption|]).
  destruct D as [D|[D|D]]; [left|right; left|right; right]; intros E; rewrite E, Rabs_R0 in D; lra.
Qed.

(* ================================================================== doHorizontalPlanesOverlap *)

(* absolute error of one rounding to float32 of a number bounded by 2^k: half an ulp of the
   binade below 2^k, i.e. 2^(k-25) *)
Lemma rnd32_abs_err : forall k x, (-125 <= k)%Z -> Rabs x <= bpow radix2 k ->
  Rabs (rnd32 x - x) <= bpow radix2 (k - 25).
Proof.
  intros k x Hk Hx.
  destruct (Rle_lt_or_eq_dec _ _ Hx) as [Hlt|Heq].
  - destruct (Req_dec x 0) as [Zx|Zx].
    { subst x. rewrite rnd32_0, Rminus_0_r, Rabs_R0. apply bpow_ge_0. }
    eapply Rle_trans; [apply (error_le_half_ulp radix2 fexp32)|].
    rewrite ulp_neq_0 by exact Zx. unfold cexp.
    assert (Hm : (mag radix2 x <= k)%Z) by (apply mag_le_bpow; assumption).
    replace (/ 2) with (bpow radix2 (-1)) by (simpl; lra). rewrite <- bpow_plus.
    apply bpow_le. unfold FLT_exp. lia.
  - assert (F : fmt32 x).
    { destruct (Rcase_abs x) as [Hn|Hp].
      - rewrite Rabs_left in Heq by exact Hn. replace x with (- bpow radix2 k) by lra.
        apply generic_format_opp. apply fmt32_bpow. lia.
      - rewrite Rabs_pos_eq in Heq by lra. rewrite Heq. apply fmt32_bpow. lia. }
    rewrite (rnd32_id x F), Rminus_diag_eq, Rabs_R0 by reflexivity. apply bpow_ge_0.
Qed.

(* Go comparisons of two finite float32 *)
Lemma fge_correct : forall x y, is_finite32 x = true -> is_finite32 y = true ->
  fge x y = Rle_bool (R32 y) (R32 x).
Proof.
  intros x y Hx Hy. unfold fge, b32_compare. rewrite (Bcompare_correct 24 128 x y Hx Hy).
  fold (R32 x) (R32 y). destruct (Rcompare_spec (R32 x) (R32 y)) as [H|H|H].
  - rewrite Rle_bool_false by lra. reflexivity.
  - rewrite Rle_bool_true by lra. reflexivity.
  - rewrite Rle_bool_true by lra. reflexivity.
Qed.

Lemma fle_correct : forall x y, is_finite32 x = true -> is_finite32 y = true ->
  fle x y = Rle_bool (R32 x) (R32 y).
Proof.
  intros x y Hx Hy. unfold fle, b32_compare. rewrite (Bcompare_correct 24 128 x y Hx Hy).
  fold (R32 x) (R32 y). destruct (Rcompare_spec (R32 x) (R32 y)) as [H|H|H].
  - rewrite Rle_bool_true by lra. reflexivity.
  - rewrite Rle_bool_true by lra. reflexivity.
  - rewrite Rle_bool_false by lra. reflexivity.
Qed.

Lemma Qle_bool_R : forall p q, Qle_bool p q = Rle_bool (Q2R p) (Q2R q).
Proof.
  intros p q. destruct (Qle_bool p q) eqn:E.
  - apply Qle_bool_iff in E. apply Qle_Rle in E. rewrite Rle_bool_true by exact E. reflexivity.
  - destruct (Rle_bool_spec (Q2R p) (Q2R q)) as [H|H]; [|reflexivity].
    apply Rle_Qle in H. apply Qle_bool_iff in H. rewrite H in E. discriminate E.
Qed.

(* a comparison is stable under perturbations smaller than half the gap *)
Lemma cmp_stable : forall X Y X' Y' g, Rabs (X' - X) <= g -> Rabs (Y' - Y) <= g ->
  2 * g < Rabs (X - Y) -> Rle_bool Y' X' = Rle_bool Y X.
Proof.
  intros X Y X' Y' g HX HY Hg. apply Rabs_le_inv in HX, HY.
  destruct (Rle_bool_spec Y X) as [H|H].
  - rewrite Rabs_pos_eq in Hg by lra. apply Rle_bool_true. lra.
  - rewrite Rabs_left in Hg by lra. apply Rle_bool_false. lra.
Qed.

(* c - e and c + e in float32, for |c| + |e| <= 2^k *)
Lemma sub_add_sem : forall k c e, (-125 <= k <= 126)%Z ->
  is_finite32 c = true -> is_finite32 e = true ->
  Rabs (R32 c) + Rabs (R32 e) <= bpow radix2 k ->
  (is_finite32 (fsub c e) = true /\ Rabs (R32 (fsub c e) - (R32 c - R32 e)) <= bpow radix2 (k - 25)) /\
  (is_finite32 (fadd c e) = true /\ Rabs (R32 (fadd c e) - (R32 c + R32 e)) <= bpow radix2 (k - 25)).
Proof.
  intros k c e Hk Fc Fe Hb.
  assert (Hs : Rabs (R32 c - R32 e) <= bpow radix2 k).
  { eapply Rle_trans; [|exact Hb]. unfold Rminus. eapply Rle_trans; [apply Rabs_triang|]. rewrite Rabs_Ropp. lra. }
  assert (Ha : Rabs (R32 c + R32 e) <= bpow radix2 k).
  { eapply Rle_trans; [|exact Hb]. apply Rabs_triang. }
  assert (Hbig : forall v, Rabs v <= bpow radix2 k -> Rabs (rnd32 v) < omega32).
  { intros v Hv. unfold omega32. apply Rle_lt_trans with (bpow radix2 k); [|apply bpow_lt; lia].
    apply abs_round_le_generic; [apply FLT_exp_valid; exact prec_gt_0_24|apply valid_rnd_N| |exact Hv].
    apply fmt32_bpow. lia. }
  split.
  - assert (F := fsub_no_overflow c e Fc Fe (Hbig _ Hs)). split; [exact F|].
    destruct (fsub_finite _ _ F) as (_ & _ & ->). apply rnd32_abs_err; [lia|exact Hs].
  - assert (F := fadd_no_overflow c e Fc Fe (Hbig _ Ha)). split; [exact F|].
    destruct (fadd_finite _ _ F) as (_ & _ & ->). apply rnd32_abs_err; [lia|exact Ha].
Qed.

Definition quadQ (q : quad32) : quad := mkQuad (vecQ (q32c q)) (vecQ (q32e q)) (vecQ (q32n q)) 0.

(* the x and z coordinates of center and extents are finite and |c| + |e| <= 2^k on both axes *)
Definition xz_bounded (k : Z) (q : quad32) : Prop :=
  is_finite32 (fx (q32c q)) = true /\ is_finite32 (fx (q32e q)) = true /\
  is_finite32 (fz (q32c q)) = true /\ is_finite32 (fz (q32e q)) = true /\
  Rabs (R32 (fx (q32c q))) + Rabs (R32 (fx (q32e q))) <= bpow radix2 k /\
  Rabs (R32 (fz (q32c q))) + Rabs (R32 (fz (q32e q))) <= bpow radix2 k.

(* the four exact differences the function compares with 0 *)
Definition ovl_d1 (a b : quad32) : R :=
  (R32 (fx (q32c a)) - R32 (fx (q32e a))) - (R32 (fx (q32c b)) + R32 (fx (q32e b))).   (* minA.x - maxB.x *)
Definition ovl_d2 (a b : quad32) : R :=
  (R32 (fx (q32c a)) + R32 (fx (q32e a))) - (R32 (fx (q32c b)) - R32 (fx (q32e b))).   (* maxA.x - minB.x *)
Definition ovl_d3 (a b : quad32) : R :=
  (R32 (fz (q32c a)) - R32 (fz (q32e a))) - (R32 (fz (q32c b)) + R32 (fz (q32e b))).   (* minA.z - maxB.z *)
Definition ovl_d4 (a b : quad32) : R :=
  (R32 (fz (q32c a)) + R32 (fz (q32e a))) - (R32 (fz (q32c b)) - R32 (fz (q32e b))).   (* maxA.z - minB.z *)
Definition ovl_guard (g : R) (a b : quad32) : Prop :=
  g < Rabs (ovl_d1 a b) /\ g < Rabs (ovl_d2 a b) /\ g < Rabs (ovl_d3 a b) /\ g < Rabs (ovl_d4 a b).

(* MAIN (overlap): coordinates with |c| + |e| <= 2^k, every compared difference larger than
   2^(k-24) in magnitude: the float32 decision is the exact decision *)
Theorem overlap32_agrees : forall k a b, (-125 <= k <= 126)%Z ->
  xz_bounded k a -> xz_bounded k b -> ovl_guard (bpow radix2 (k - 24)) a b ->
  overlap32 a b = overlap (quadQ a) (quadQ b).
Proof.
  intros k a b Hk Ha Hb Hg0. unfold xz_bounded, ovl_guard, ovl_d1, ovl_d2, ovl_d3, ovl_d4 in *.
  destruct a as [[acx acy acz] [aex aey aez] an]. destruct b as [[bcx bcy bcz] [bex bey bez] bn].
  cbv [q32c q32e q32n fx fy fz] in Ha, Hb, Hg0.
  destruct Ha as (A1 & A2 & A3 & A4 & A5 & A6). destruct Hb as (B1 & B2 & B3 & B4 & B5 & B6).
  destruct Hg0 as (G1 & G2 & G3 & G4).
  destruct (sub_add_sem k _ _ Hk A1 A2 A5) as ((Fax1 & Eax1) & (Fax2 & Eax2)).
  destruct (sub_add_sem k _ _ Hk A3 A4 A6) as ((Faz1 & Eaz1) & (Faz2 & Eaz2)).
  destruct (sub_add_sem k _ _ Hk B1 B2 B5) as ((Fbx1 & Ebx1) & (Fbx2 & Ebx2)).
  destruct (sub_add_sem k _ _ Hk B3 B4 B6) as ((Fbz1 & Ebz1) & (Fbz2 & Ebz2)).
  assert (Hg : 2 * bpow radix2 (k - 25) = bpow radix2 (k - 24)).
  { replace (k - 24)%Z with (1 + (k - 25))%Z by lia. rewrite bpow_plus. simpl. lra. }
  rewrite <- Hg in G1, G2, G3, G4.
  unfold overlap32, overlap, quadQ, qmin, qmax, vsub, vadd, vecQ, sub32, add32.
  cbv [fx fy fz vx vy vz qc qe q32c q32e].
  rewrite !Qle_bool_R, !Q2R_minus, !Q2R_plus, !Qval_R32.
  rewrite (fge_correct _ _ Fax1 Fbx2), (fle_correct _ _ Fax2 Fbx1),
          (fge_correct _ _ Faz1 Fbz2), (fle_correct _ _ Faz2 Fbz1).
  rewrite (cmp_stable _ _ _ _ _ Eax1 Ebx2 G1).
  rewrite (cmp_stable _ _ _ _ _ Ebx1 Eax2).
  2:{ rewrite Rabs_minus_sym. exact G2. }
  rewrite (cmp_stable _ _ _ _ _ Eaz1 Ebz2 G3).
  rewrite (cmp_stable _ _ _ _ _ Ebz1 Eaz2).
  2:{ rewrite Rabs_minus_sym. exact G4. }
  reflexivity.
Qed.

(* coordinates bounded by 64 (the bound of property C20): guard 2^-17;
   coordinates bounded by 128: guard 2^-16 *)
Definition xz_within (B : R) (q : quad32) : Prop :=
  is_finite32 (fx (q32c q)) = true /\ is_finite32 (fx (q32e q)) = true /\
  is_finite32 (fz (q32c q)) = true /\ is_finite32 (fz (q32e q)) = true /\
  Rabs (R32 (fx (q32c q))) <= B /\ Rabs (R32 (fx (q32e q))) <= B /\
  Rabs (R32 (fz (q32c q))) <= B /\ Rabs (R32 (fz (q32e q))) <= B.

Corollary overlap32_agrees_64 : forall a b, xz_within 64 a -> xz_within 64 b ->
  ovl_guard (bpow radix2 (-17)) a b -> overlap32 a b = overlap (quadQ a) (quadQ b).
Proof.
  intros a b (A1 & A2 & A3 & A4 & A5 & A6 & A7 & A8) (B1 & B2 & B3 & B4 & B5 & B6 & B7 & B8) G.
  apply (overlap32_agrees 7); [lia| | |exact G]; unfold xz_bounded; simpl bpow; repeat split; try assumption; lra.
Qed.

Corollary overlap32_agrees_128 : forall a b, xz_within 128 a -> xz_within 128 b ->
  ovl_guard (bpow radix2 (-16)) a b -> overlap32 a b = overlap (quadQ a) (quadQ b).
Proof.
  intros a b (A1 & A2 & A3 & A4 & A5 & A6 & A7 & A8) (B1 & B2 & B3 & B4 & B5 & B6 & B7 & B8) G.
  apply (overlap32_agrees 8); [lia| | |exact G]; unfold xz_bounded; simpl bpow; repeat split; try assumption; lra.
Qed.

(* the guard in terms of the conditioning margin the C20 oracle computes (GridObs.overlap_margin,
   capped at 1000 by Qmin_list) *)
Lemma Q2R_Qmin : forall p q, Q2R (Qmin p q) = Rmin (Q2R p) (Q2R q).
Proof.
  intros p q. destruct (Qlt_le_dec q p) as [H|H].
  - rewrite (Qeq_eqR _ _ (Q.min_r p q (Qlt_le_weak _ _ H))). apply Qlt_le_weak in H. apply Qle_Rle in H.
    rewrite Rmin_right by exact H. reflexivity.
  - rewrite (Qeq_eqR _ _ (Q.min_l p q H)). apply Qle_Rle in H. rewrite Rmin_left by exact H. reflexivity.
Qed.

Lemma overlap_margin_guard : forall a b g,
  g < Q2R (overlap_margin (quadQ a) (quadQ b)) -> ovl_guard g a b.
Proof.
  intros a b g. unfold overlap_margin, Qmin_list, ovl_guard, ovl_d1, ovl_d2, ovl_d3, ovl_d4.
  unfold quadQ, qmin, qmax, vsub, vadd, vecQ. cbv [fold_left vx vy vz qc qe].
  rewrite !Q2R_Qmin, !Q2R_Qabs. repeat (rewrite ?Q2R_minus, ?Q2R_plus). rewrite !Qval_R32.
  intros H.
  match type of H with _ < Rmin (Rmin (Rmin (Rmin ?z ?d1) ?d2) ?d3) ?d4 =>
    generalize (Rmin_r (Rmin (Rmin (Rmin z d1) d2) d3) d4) (Rmin_l (Rmin (Rmin (Rmin z d1) d2) d3) d4)
      (Rmin_r (Rmin (Rmin z d1) d2) d3) (Rmin_l (Rmin (Rmin z d1) d2) d3)
      (Rmin_r (Rmin z d1) d2) (Rmin_l (Rmin z d1) d2) (Rmin_r z d1);
    set (m1 := Rmin z d1) in *; set (m2 := Rmin m1 d2) in *; set (m3 := Rmin m2 d3) in *;
    set (m4 := Rmin m3 d4) in *
  end. intros.
  repeat split; lra.
Qed.

(* ================================================================== IntersectQuad *)
Lemma rnd32_small : forall k v, (k <= 126)%Z -> (-149 <= k)%Z -> Rabs v <= bpow radix2 k -> Rabs (rnd32 v) < omega32.
Proof.
  intros k v Hk Hk' Hv. unfold omega32. apply Rle_lt_trans with (bpow radix2 k); [|apply bpow_lt; lia].
  apply abs_round_le_generic; [apply FLT_exp_valid; exact prec_gt_0_24|apply valid_rnd_N| |exact Hv].
  apply fmt32_bpow. exact Hk'.
Qed.

Lemma fadd_bnd : forall k x y, (-125 <= k <= 126)%Z -> is_finite32 x = true -> is_finite32 y = true ->
  Rabs (R32 x + R32 y) <= bpow radix2 k ->
  is_finite32 (fadd x y) = true /\ R32 (fadd x y) = rnd32 (R32 x + R32 y) /\
  Rabs (R32 (fadd x y) - (R32 x + R32 y)) <= bpow radix2 (k - 25).
Proof.
  intros k x y Hk Fx Fy Hb.
  assert (F := fadd_no_overflow x y Fx Fy (rnd32_small k _ ltac:(lia) ltac:(lia) Hb)).
  destruct (fadd_finite _ _ F) as (_ & _ & E). split; [exact F|]. split; [exact E|].
  rewrite E. apply rnd32_abs_err; [lia|exact Hb].
Qed.

Lemma fsub_bnd : forall k x y, (-125 <= k <= 126)%Z -> is_finite32 x = true -> is_finite32 y = true ->
  Rabs (R32 x - R32 y) <= bpow radix2 k ->
  is_finite32 (fsub x y) = true /\ R32 (fsub x y) = rnd32 (R32 x - R32 y) /\
  Rabs (R32 (fsub x y) - (R32 x - R32 y)) <= bpow radix2 (k - 25).
Proof.
  intros k x y Hk Fx Fy Hb.
  assert (F := fsub_no_overflow x y Fx Fy (rnd32_small k _ ltac:(lia) ltac:(lia) Hb)).
  destruct (fsub_finite _ _ F) as (_ & _ & E). split; [exact F|]. split; [exact E|].
  rewrite E. apply rnd32_abs_err; [lia|exact Hb].
Qed.

Lemma fmul_bnd : forall k x y, (-125 <= k <= 126)%Z -> is_finite32 x = true -> is_finite32 y = true ->
  Rabs (R32 x * R32 y) <= bpow radix2 k ->
  is_finite32 (fmul x y) = true /\ R32 (fmul x y) = rnd32 (R32 x * R32 y) /\
  Rabs (R32 (fmul x y) - (R32 x * R32 y)) <= bpow radix2 (k - 25).
Proof.
  intros k x y Hk Fx Fy Hb.
  assert (F := fmul_no_overflow x y Fx Fy (rnd32_small k _ ltac:(lia) ltac:(lia) Hb)).
  destruct (fmul_finite _ _ F) as (_ & _ & E). split; [exact F|]. split; [exact E|].
  rewrite E. apply rnd32_abs_err; [lia|exact Hb].
Qed.

Lemma fdiv_eq : forall x y, fdiv x y = Bdiv 24 128 Hp24 Hpe128 binop_nan_pl32 mode_NE x y.
Proof. reflexivity. Qed.

Lemma fdiv_bnd : forall k x y, (-125 <= k <= 126)%Z -> is_finite32 x = true -> is_finite32 y = true ->
  R32 y <> 0 -> Rabs (R32 x / R32 y) <= bpow radix2 k ->
  is_finite32 (fdiv x y) = true /\ R32 (fdiv x y) = rnd32 (R32 x / R32 y) /\
  Rabs (R32 (fdiv x y) - (R32 x / R32 y)) <= bpow radix2 (k - 25).
Proof.
  intros k x y Hk Fx Fy Hy Hb. rewrite fdiv_eq. unfold is_finite32, R32 in *.
  generalize (Bdiv_correct 24 128 Hp24 Hpe128 binop_nan_pl32 mode_NE x y Hy).
  rewrite Rlt_bool_true by (apply (rnd32_small k); [lia|lia|exact Hb]).
  intros (Hr & Hfin & _). rewrite Fx in Hfin. split; [exact Hfin|]. split; [exact Hr|].
  rewrite Hr. apply rnd32_abs_err; [lia|exact Hb].
Qed.

Lemma fne_zero : forall x, is_finite32 x = true -> fne x zero32 = negb (Req_bool (R32 x) 0).
Proof.
  intros x Hx. unfold fne, b32_compare.
  rewrite (Bcompare_correct 24 128 x zero32 Hx eq_refl).
  change (B2R 24 128 zero32) with 0. fold (R32 x).
  destruct (Rcompare_spec (R32 x) 0) as [H|H|H].
  - rewrite Req_bool_false by lra. reflexivity.
  - rewrite Req_bool_true by exact H. reflexivity.
  - rewrite Req_bool_false by lra. reflexivity.
Qed.

Lemma R32_zero32 : R32 zero32 = 0.
Proof. reflexivity. Qed.

Lemma R32_eps32 : R32 eps32 = 13743895 / 137438953472.
Proof.
  rewrite R32_FF.
  replace (B2FF 24 128 eps32) with (F754_finite false 13743895 (-37)) by (vm_compute; reflexivity).
  unfold FF2R, F2R. simpl. lra.
Qed.

(* a numerically unit-y normal: dot (n, v) is v.y exactly, for every finite v *)
Definition unit_y (n : vec32) : Prop :=
  finite_vec32 n = true /\ R32 (fx n) = 0 /\ R32 (fy n) = 1 /\ R32 (fz n) = 0.

Lemma dot_unit_y : forall n v, unit_y n -> finite_vec32 v = true ->
  is_finite32 (dot32 n v) = true /\ R32 (dot32 n v) = R32 (fy v).
Proof.
  intros n v (Fn & N1 & N2 & N3) Fv. apply finite_vec32_iff in Fn, Fv.
  destruct Fn as (Fn1 & Fn2 & Fn3). destruct Fv as (Fv1 & Fv2 & Fv3). unfold dot32.
  assert (Z0 : Rabs (rnd32 0) < omega32).
  { rewrite rnd32_0, Rabs_R0. unfold omega32. apply bpow_gt_0. }
  assert (Y0 : Rabs (rnd32 (R32 (fy v))) < omega32).
  { rewrite rnd32_id by apply fmt32_R32. apply R32_lt_omega. }
  assert (P1 : is_finite32 (fmul (fx n) (fx v)) = true).
  { apply fmul_no_overflow; [assumption|assumption|]. rewrite N1, Rmult_0_l. exact Z0. }
  assert (P2 : is_finite32 (fmul (fy n) (fy v)) = true).
  { apply fmul_no_overflow; [assumption|assumption|]. rewrite N2, Rmult_1_l. exact Y0. }
  assert (P3 : is_finite32 (fmul (fz n) (fz v)) = true).
  { apply fmul_no_overflow; [assumption|assumption|]. rewrite N3, Rmult_0_l. exact Z0. }
  destruct (fmul_finite _ _ P1) as (_ & _ & E1). rewrite N1, Rmult_0_l, rnd32_0 in E1.
  destruct (fmul_finite _ _ P2) as (_ & _ & E2). rewrite N2, Rmult_1_l, rnd32_id in E2 by apply fmt32_R32.
  destruct (fmul_finite _ _ P3) as (_ & _ & E3). rewrite N3, Rmult_0_l, rnd32_0 in E3.
  assert (S1 : is_finite32 (fadd (fmul (fx n) (fx v)) (fmul (fy n) (fy v))) = true).
  { apply fadd_no_overflow; [assumption|assumption|]. rewrite E1, E2, Rplus_0_l. exact Y0. }
  destruct (fadd_finite _ _ S1) as (_ & _ & E4). rewrite E1, E2, Rplus_0_l, rnd32_id in E4 by apply fmt32_R32.
  assert (S2 : is_finite32 (fadd (fadd (fmul (fx n) (fx v)) (fmul (fy n) (fy v))) (fmul (fz n) (fz v))) = true).
  { apply fadd_no_overflow; [assumption|assumption|]. rewrite E4, E3, Rplus_0_r. exact Y0. }
  destruct (fadd_finite _ _ S2) as (_ & _ & E5). rewrite E4, E3, Rplus_0_r, rnd32_id in E5 by apply fmt32_R32.
  split; assumption.
Qed.

Lemma in_range32_true : forall v lo hi,
  is_finite32 v = true -> is_finite32 lo = true -> is_finite32 hi = true ->
  Rabs (R32 v) <= 100 -> R32 lo <= R32 v + 9 / 100000 -> R32 v - 9 / 100000 <= R32 hi ->
  in_range32 v lo hi eps32 = true.
Proof.
  intros v lo hi Fv Flo Fhi Hv Hlo Hhi. unfold in_range32.
  assert (Fe : is_finite32 eps32 = true) by (vm_compute; reflexivity).
  generalize R32_eps32. intros He.
  destruct (fadd_bnd 7 v eps32 ltac:(lia) Fv Fe) as (F1 & _ & E1).
  { rewrite He. simpl bpow. apply Rabs_le. apply Rabs_le_inv in Hv. lra. }
  destruct (fsub_bnd 7 v eps32 ltac:(lia) Fv Fe) as (F2 & _ & E2).
  { rewrite He. simpl bpow. apply Rabs_le. apply Rabs_le_inv in Hv. lra. }
  rewrite (fge_correct _ _ F1 Flo), (fle_correct _ _ F2 Fhi).
  rewrite He in E1, E2. simpl bpow in E1, E2. apply Rabs_le_inv in E1, E2.
  rewrite !Rle_bool_true by lra. reflexivity.
Qed.

(* MAIN (ray-quad): a horizontal quad (normal numerically (0,1,0), e.y = 0, non-negative
   half-extents) with all coordinates bounded by 64 is hit by the vertical ray through its
   centre, at a parameter within 10^-5 of 1/2 *)
Theorem intersect32_vertical : forall c e n,
  finite_vec32 c = true -> finite_vec32 e = true -> unit_y n ->
  Rabs (R32 (fx c)) <= 64 -> Rabs (R32 (fy c)) <= 64 -> Rabs (R32 (fz c)) <= 64 ->
  0 <= R32 (fx e) <= 64 -> R32 (fy e) = 0 -> 0 <= R32 (fz e) <= 64 ->
  exists t, intersect32 (vray c) (mkQuad32 c e n) = (true, t) /\ is_finite32 t = true /\
            Rabs (R32 t - / 2) <= / 100000.
Proof.
  intros c e n Fc Fe Hn Bx By Bz Ex Ey Ez.
  destruct c as [cx cy cz]. destruct e as [ex ey ez]. cbv [fx fy fz] in Bx, By, Bz, Ex, Ey, Ez.
  assert (Fc' := Fc). assert (Fe' := Fe). apply finite_vec32_iff in Fc', Fe'. cbv [fx fy fz] in Fc', Fe'.
  destruct Fc' as (Fcx & Fcy & Fcz). destruct Fe' as (Fex & Fey & Fez).
  assert (F1 : is_finite32 one32 = true) by (vm_compute; reflexivity).
  generalize R32_one32. intros H1.
  set (y := R32 cy) in *.
  (* the two ordinates of the ray *)
  destruct (sub_add_sem 7 cy one32 ltac:(lia) Fcy F1) as ((FT & ET) & (FF & EF)).
  { rewrite H1, Rabs_R1. fold y. simpl bpow. lra. }
  rewrite H1 in ET, EF. fold y in ET, EF. simpl bpow in ET, EF.
  set (Fb := fadd cy one32) in *. set (Tb := fsub cy one32) in *.
  set (F := R32 Fb) in *. set (T := R32 Tb) in *.
  apply Rabs_le_inv in ET, EF. apply Rabs_le_inv in By.
  unfold intersect32, vray. cbv [r32from r32to q32c q32e q32n fx fy fz]. fold Fb Tb.
  set (from := mkVec32 cx Fb cz). set (to := mkVec32 cx Tb cz).
  (* rayDir *)
  assert (Edir : sub32 to from = mkVec32 (fsub cx cx) (fsub Tb Fb) (fsub cz cz)) by reflexivity.
  rewrite Edir. set (dx := fsub cx cx). set (dy := fsub Tb Fb). set (dz := fsub cz cz).
  destruct (fsub_bnd 0 cx cx ltac:(lia) Fcx Fcx) as (Fdx & Rdx & _).
  { rewrite Rminus_diag_eq, Rabs_R0 by reflexivity. simpl. lra. }
  rewrite Rminus_diag_eq, rnd32_0 in Rdx by reflexivity. fold dx in Fdx, Rdx.
  destruct (fsub_bnd 0 cz cz ltac:(lia) Fcz Fcz) as (Fdz & Rdz & _).
  { rewrite Rminus_diag_eq, Rabs_R0 by reflexivity. simpl. lra. }
  rewrite Rminus_diag_eq, rnd32_0 in Rdz by reflexivity. fold dz in Fdz, Rdz.
  destruct (fsub_bnd 2 Tb Fb ltac:(lia) FT FF) as (Fdy & _ & Edy).
  { fold T F. simpl bpow. apply Rabs_le. lra. }
  fold dy T F in Fdy, Edy. simpl bpow in Edy. apply Rabs_le_inv in Edy. set (d := R32 dy) in *.
  set (dir := mkVec32 dx dy dz).
  assert (Fdir : finite_vec32 dir = true) by (apply finite_vec32_iff; cbv [fx fy fz dir]; tauto).
  assert (Ffrom : finite_vec32 from = true) by (apply finite_vec32_iff; cbv [fx fy fz from]; tauto).
  (* denominator, numerator, t *)
  destruct (dot_unit_y n dir Hn Fdir) as (Fden & Rden). change (R32 (fy dir)) with d in Rden.
  destruct (dot_unit_y n _ Hn Fc) as (Fnc & Rnc). change (R32 (fy (mkVec32 cx cy cz))) with y in Rnc.
  destruct (dot_unit_y n from Hn Ffrom) as (Fnf & Rnf). change (R32 (fy from)) with F in Rnf.
  set (den := dot32 n dir) in *.
  destruct (fsub_bnd 1 _ _ ltac:(lia) Fnc Fnf) as (Fnum & _ & Enum).
  { rewrite Rnc, Rnf. simpl bpow. apply Rabs_le. lra. }
  rewrite Rnc, Rnf in Enum. simpl bpow in Enum. apply Rabs_le_inv in Enum.
  set (numb := fsub (dot32 n (mkVec32 cx cy cz)) (dot32 n from)) in *. set (num := R32 numb) in *.
  assert (Hd : d < 0) by lra.
  assert (Hden : fne den zero32 = true).
  { rewrite (fne_zero _ Fden), Rden. rewrite Req_bool_false by lra. reflexivity. }
  rewrite Hden.
  set (q := num / d).
  assert (Eq : q * (- d) = - num) by (unfold q; field; lra).
  assert (Hq : Rabs (q - / 2) <= 4 / 1000000).
  { apply Rabs_le. split; nra. }
  apply Rabs_le_inv in Hq.
  destruct (fdiv_bnd 0 numb den ltac:(lia) Fnum Fden) as (Ft & _ & Et).
  { rewrite Rden. lra. }
  { rewrite Rden. fold num q. simpl bpow. apply Rabs_le. lra. }
  rewrite Rden in Et. fold num q in Et. simpl bpow in Et. apply Rabs_le_inv in Et.
  set (tb := fdiv numb den) in *. set (t := R32 tb) in *.
  assert (Ht0 : fge tb zero32 = true).
  { rewrite (fge_correct tb zero32 Ft eq_refl), R32_zero32. fold t. apply Rle_bool_true. lra. }
  assert (Ht1 : fle tb one32 = true).
  { rewrite (fle_correct _ _ Ft F1), H1. fold t. apply Rle_bool_true. lra. }
  rewrite Ht0, Ht1. cbv [andb].
  (* hitPoint *)
  assert (Ehp : add32 from (mul32 dir tb) = mkVec32 (fadd cx (fmul dx tb)) (fadd Fb (fmul dy tb)) (fadd cz (fmul dz tb)))
    by reflexivity.
  rewrite Ehp.
  destruct (fmul_bnd 0 dx tb ltac:(lia) Fdx Ft) as (Fmx & Rmx & _).
  { rewrite Rdx, Rmult_0_l, Rabs_R0. simpl. lra. }
  rewrite Rdx, Rmult_0_l, rnd32_0 in Rmx.
  destruct (fmul_bnd 0 dz tb ltac:(lia) Fdz Ft) as (Fmz & Rmz & _).
  { rewrite Rdz, Rmult_0_l, Rabs_R0. simpl. lra. }
  rewrite Rdz, Rmult_0_l, rnd32_0 in Rmz.
  assert (Hdt : Rabs (d * t - num) <= 3 / 33554432).
  { replace (d * t - num) with ((- d) * (q - t)) by (unfold q; field; lra). apply Rabs_le. split; nra. }
  apply Rabs_le_inv in Hdt.
  destruct (fmul_bnd 1 dy tb ltac:(lia) Fdy Ft) as (Fmy & _ & Emy).
  { fold d t. simpl bpow. apply Rabs_le. lra. }
  fold d t in Emy. simpl bpow in Emy. apply Rabs_le_inv in Emy. set (m := R32 (fmul dy tb)) in *.
  destruct (fadd_bnd 7 cx (fmul dx tb) ltac:(lia) Fcx Fmx) as (Fhx & Rhx & _).
  { rewrite Rmx, Rplus_0_r. simpl bpow. lra. }
  rewrite Rmx, Rplus_0_r, rnd32_id in Rhx by apply fmt32_R32.
  destruct (fadd_bnd 7 cz (fmul dz tb) ltac:(lia) Fcz Fmz) as (Fhz & Rhz & _).
  { rewrite Rmz, Rplus_0_r. simpl bpow. lra. }
  rewrite Rmz, Rplus_0_r, rnd32_id in Rhz by apply fmt32_R32.
  destruct (fadd_bnd 7 Fb (fmul dy tb) ltac:(lia) FF Fmy) as (Fhy & _ & Ehy).
  { fold F m. simpl bpow. apply Rabs_le. lra. }
  fold F m in Ehy. simpl bpow in Ehy. apply Rabs_le_inv in Ehy. set (h := R32 (fadd Fb (fmul dy tb))) in *.
  (* bounds of the quad *)
  assert (Emn : sub32 (mkVec32 cx cy cz) (mkVec32 ex ey ez) = mkVec32 (fsub cx ex) (fsub cy ey) (fsub cz ez)) by reflexivity.
  assert (Emx : add32 (mkVec32 cx cy cz) (mkVec32 ex ey ez) = mkVec32 (fadd cx ex) (fadd cy ey) (fadd cz ez)) by reflexivity.
  rewrite Emn, Emx. cbv [fx fy fz].
  apply Rabs_le_inv in Bx, Bz.
  destruct (sub_add_sem 7 cx ex ltac:(lia) Fcx Fex) as ((Fnx & Enx) & (Fxx & Exx)).
  { simpl bpow. rewrite (Rabs_pos_eq (R32 ex)) by lra. generalize (Rabs_le _ _ Bx). lra. }
  destruct (sub_add_sem 7 cy ey ltac:(lia) Fcy Fey) as ((Fny & Eny) & (Fxy & Exy)).
  { simpl bpow. rewrite Ey, Rabs_R0. fold y. generalize (Rabs_le _ _ By). lra. }
  destruct (sub_add_sem 7 cz ez ltac:(lia) Fcz Fez) as ((Fnz & Enz) & (Fxz & Exz)).
  { simpl bpow. rewrite (Rabs_pos_eq (R32 ez)) by lra. generalize (Rabs_le _ _ Bz). lra. }
  simpl bpow in Enx, Exx, Eny, Exy, Enz, Exz. rewrite Ey in Eny, Exy. fold y in Eny, Exy.
  apply Rabs_le_inv in Enx, Exx, Eny, Exy, Enz, Exz.
  rewrite (in_range32_true _ _ _ Fhx Fnx Fxx), (in_range32_true _ _ _ Fhy Fny Fxy),
          (in_range32_true _ _ _ Fhz Fnz Fxz);
    try (rewrite Rhx); try (rewrite Rhz); try (fold h); try (apply Rabs_le); try lra.
  exists tb. split; [reflexivity|]. split; [exact Ft|]. fold t. apply Rabs_le. lra.
Qed.

(* ------------------------------------------------------------------ the executable preconditions *)
Lemma is_zero32_R : forall x, is_zero32 x = true -> is_finite32 x = true /\ R32 x = 0.
Proof. intros [s|s|s pl H|s m e H] Hz; try discriminate Hz. split; reflexivity. Qed.

Lemma pos32_R : forall x, pos32 x = true -> is_finite32 x = true /\ 0 < R32 x.
Proof.
  intros x Hx. unfold pos32 in Hx. apply andb_true_iff in Hx. destruct Hx as [Hx Hz].
  apply andb_true_iff in Hx. destruct Hx as [Hf Hs]. split; [exact Hf|].
  destruct x as [s|s|s pl H|s m e H]; try discriminate Hf; try discriminate Hz.
  destruct s; [discriminate Hs|]. unfold R32. simpl. apply F2R_gt_0. simpl. lia.
Qed.

Lemma nonzero32_R : forall x, nonzero32 x = true -> is_finite32 x = true /\ R32 x <> 0.
Proof.
  intros x Hx. unfold nonzero32 in Hx. apply andb_true_iff in Hx. destruct Hx as [Hf Hz]. split; [exact Hf|].
  destruct x as [s|s|s pl H|s m e H]; try discriminate Hf; try discriminate Hz.
  unfold R32. simpl. intros E. apply eq_0_F2R in E. destruct s; discriminate E.
Qed.

Lemma R32_c64 : R32 c64 = 64.
Proof.
  rewrite R32_FF.
  replace (B2FF 24 128 c64) with (F754_finite false 8388608 (-17)) by (vm_compute; reflexivity).
  unfold FF2R, F2R. simpl. lra.
Qed.

Lemma fle_finite_l : forall x y, fle x y = true -> is_finite32 y = true -> is_nan32 x = false /\
  (is_finite32 x = true \/ x = B754_infinity 24 128 true).
Proof.
  intros x y H Fy. destruct x as [s|s|s pl Hp|s m e Hm]; try (split; [reflexivity|left; reflexivity]).
  - destruct s; [split; [reflexivity|right; reflexivity]|].
    destruct y as [sy|sy|sy ply Hpy|sy my ey Hmy]; try discriminate Fy; discriminate H.
  - destruct y as [sy|sy|sy ply Hpy|sy my ey Hmy]; discriminate H.
Qed.

Lemma abs_le64_R : forall x, abs_le64 x = true -> is_finite32 x = true /\ Rabs (R32 x) <= 64.
Proof.
  intros x Hx. unfold abs_le64 in Hx. apply andb_true_iff in Hx. destruct Hx as [H1 H2].
  assert (Fc : is_finite32 c64 = true) by (vm_compute; reflexivity).
  assert (Fo : is_finite32 (b32_opp c64) = true) by (vm_compute; reflexivity).
  assert (Fx : is_finite32 x = true).
  { destruct (fle_finite_l _ _ H1 Fc) as (_ & [F|F]); [exact F|]. subst x. vm_compute in H2. discriminate H2. }
  split; [exact Fx|].
  rewrite (fle_correct _ _ Fx Fc), R32_c64 in H1.
  rewrite (fge_correct _ _ Fx Fo) in H2.
  assert (Ro : R32 (b32_opp c64) = - 64).
  { unfold b32_opp, R32. rewrite B2R_Bopp. fold (R32 c64). rewrite R32_c64. reflexivity. }
  rewrite Ro in H2.
  destruct (Rle_bool_spec (R32 x) 64) as [A|A]; [|discriminate H1].
  destruct (Rle_bool_spec (- 64) (R32 x)) as [B|B]; [|discriminate H2].
  apply Rabs_le. lra.
Qed.

Lemma vec_le64_R : forall v, vec_le64 v = true ->
  finite_vec32 v = true /\ Rabs (R32 (fx v)) <= 64 /\ Rabs (R32 (fy v)) <= 64 /\ Rabs (R32 (fz v)) <= 64.
Proof.
  intros v Hv. unfold vec_le64 in Hv. apply andb_true_iff in Hv. destruct Hv as [Hv H3].
  apply andb_true_iff in Hv. destruct Hv as [H1 H2].
  destruct (abs_le64_R _ H1) as (F1 & B1). destruct (abs_le64_R _ H2) as (F2 & B2).
  destruct (abs_le64_R _ H3) as (F3 & B3).
  split; [apply finite_vec32_iff; tauto|tauto].
Qed.

(* (a) with the executable precondition: bit patterns of the normal of a horizontal quad *)
Theorem normal32_horizontal_b : forall c e, finite_vec32 e = true ->
  pos32 (fx e) = true -> is_zero32 (fy e) = true -> pos32 (fz e) = true ->
  bits_of_vec32 (normal32 c e) =
  if Bsign 24 128 (fy e) then (0, 1065353216, 0)%Z else (2147483648, 1065353216, 2147483648)%Z.
Proof.
  intros c e Fe Hx Hy Hz.
  apply normal32_horizontal_bits; [exact Fe|apply (is_zero32_R _ Hy)|apply (pos32_R _ Hx)|apply (pos32_R _ Hz)].
Qed.

(* (b) with the executable precondition *)
Theorem normal32_nonzero_b : forall c e, two_nonzero e = true ->
  let r := normal32 c e in
  finite_vec32 r = true /\
  Rabs (R32 (fx r)) <= 1 /\ Rabs (R32 (fy r)) <= 1 /\ Rabs (R32 (fz r)) <= 1 /\
  (/ 2 <= Rabs (R32 (fx r)) \/ / 2 <= Rabs (R32 (fy r)) \/ / 2 <= Rabs (R32 (fz r))) /\
  (R32 (fx r) <> 0 \/ R32 (fy r) <> 0 \/ R32 (fz r) <> 0).
Proof.
  intros c e H. unfold two_nonzero in H. apply andb_true_iff in H. destruct H as [Fe H].
  apply normal32_nonzero'; [exact Fe|].
  apply orb_true_iff in H. destruct H as [H|H]; [apply orb_true_iff in H; destruct H as [H|H]|];
    apply andb_true_iff in H; destruct H as [A B]; apply nonzero32_R in A, B; tauto.
Qed.

(* C20, ray clause: a horizontal quad built by NewQuadFromProtobuf (normal computed by the
   repaired calculateNormal), coordinates bounded by 64, is hit by the vertical ray through its
   centre, with t within 10^-5 of 1/2 *)
Theorem center_ray_hits : forall c e, horizontal_input c e = true ->
  unit_y (normal32 c e) /\
  exists t, intersect32 (vray c) (new_quad32 c e) = (true, t) /\ is_finite32 t = true /\
            Rabs (R32 t - / 2) <= / 100000.
Proof.
  intros c e H. unfold horizontal_input in H.
  apply andb_true_iff in H. destruct H as [H Hz]. apply andb_true_iff in H. destruct H as [H Hy].
  apply andb_true_iff in H. destruct H as [H Hx]. apply andb_true_iff in H. destruct H as [Hc He].
  destruct (vec_le64_R _ Hc) as (Fc & C1 & C2 & C3). destruct (vec_le64_R _ He) as (Fe & E1 & E2 & E3).
  destruct (pos32_R _ Hx) as (_ & Px). destruct (pos32_R _ Hz) as (_ & Pz).
  destruct (is_zero32_R _ Hy) as (_ & Zy).
  destruct (normal32_horizontal c e Fe Zy Px Pz) as (Fn & N1 & N2 & N3 & _).
  assert (Hn : unit_y (normal32 c e)) by (unfold unit_y; tauto).
  split; [exact Hn|]. unfold new_quad32.
  apply Rabs_le_inv in E1, E3.
  apply intersect32_vertical; try assumption; lra.
Qed.

(* ================================================================== accuracy of calculateNormal:
   every component is within 2^-24 + 2^-50 of the exact n_i / |n| *)
Lemma rnd64_rel0 : forall x, x = 0 \/ bpow radix2 (-1022) <= Rabs x -> Rabs (rnd64 x - x) <= u64 * Rabs x.
Proof.
  intros x [Hx|Hx].
  - subst x. rewrite rnd64_0, Rminus_0_r, Rabs_R0. lra.
  - apply rnd64_rel. exact Hx.
Qed.

Lemma bpow_596 : bpow radix2 (-1022) <= (1 - u64) * bpow radix2 (-596).
Proof.
  apply Rle_trans with (bpow radix2 (-1) * bpow radix2 (-596)).
  - rewrite <- bpow_plus. apply bpow_le. lia.
  - apply Rmult_le_compat_r; [apply bpow_ge_0|]. rewrite u64_val. simpl. lra.
Qed.

Lemma sq_zero_or_big : forall n, prod_ok n ->
  (n = 0 /\ rnd64 (n * n) = 0) \/ (n <> 0 /\ bpow radix2 (-1022) <= rnd64 (n * n)).
Proof.
  intros n Hn. destruct (sq_bounds n Hn) as (_ & Hlo & _). destruct Hn as [[Hz|Hb] _].
  - left. subst n. rewrite Rmult_0_l, rnd64_0. split; reflexivity.
  - right. generalize bpow_298_pos. intros Hp. split.
    + intros E. subst n. rewrite Rabs_R0 in Hb. lra.
    + eapply Rle_trans; [exact bpow_596|]. eapply Rle_trans; [|exact Hlo].
      apply Rmult_le_compat_l; [rewrite u64_val; lra|].
      change (-596)%Z with (-298 + -298)%Z. rewrite bpow_plus. apply Rmult_le_compat; lra.
Qed.

Section NormAcc.
Variables n1 n2 n3 : R.
Hypothesis H1 : prod_ok n1.
Hypothesis H2 : prod_ok n2.
Hypothesis H3 : prod_ok n3.
Hypothesis Hnz : n1 <> 0 \/ n2 <> 0 \/ n3 <> 0.
Let S := n1 * n1 + n2 * n2 + n3 * n3.
Let N := sqrt S.
Let L := len_r n1 n2 n3.

Lemma acc_S_pos : 0 < S.
Proof. unfold S. destruct Hnz as [H|[H|H]]; nra. Qed.

Lemma acc_NN : N * N = S /\ 0 < N.
Proof.
  generalize acc_S_pos. intros HS. split.
  - unfold N. apply sqrt_sqrt. lra.
  - unfold N. apply sqrt_lt_R0. exact HS.
Qed.

Lemma acc_N_ge : Rabs n1 <= N /\ Rabs n2 <= N /\ Rabs n3 <= N.
Proof.
  unfold N. repeat split.
  - rewrite <- (sqrt_sq (Rabs n1)) by apply Rabs_pos. apply sqrt_le_1_alt. rewrite <- sq_abs. unfold S. nra.
  - rewrite <- (sqrt_sq (Rabs n2)) by apply Rabs_pos. apply sqrt_le_1_alt. rewrite <- sq_abs. unfold S. nra.
  - rewrite <- (sqrt_sq (Rabs n3)) by apply Rabs_pos. apply sqrt_le_1_alt. rewrite <- sq_abs. unfold S. nra.
Qed.

Lemma acc_N_min : bpow radix2 (-298) <= N.
Proof.
  destruct acc_N_ge as (A1 & A2 & A3).
  destruct Hnz as [H|[H|H]].
  - destruct H1 as [[K|K] _]; [contradiction|lra].
  - destruct H2 as [[K|K] _]; [contradiction|lra].
  - destruct H3 as [[K|K] _]; [contradiction|lra].
Qed.

Lemma acc_s2 : (1 - u64) * (1 - u64) * (1 - u64) * S <=
               rnd64 (rnd64 (rnd64 (n1 * n1) + rnd64 (n2 * n2)) + rnd64 (n3 * n3)) <=
               (1 + u64) * (1 + u64) * (1 + u64) * S.
Proof.
  destruct (sq_bounds n1 H1) as (P1 & Lo1 & Hi1). destruct (sq_bounds n2 H2) as (P2 & Lo2 & Hi2).
  destruct (sq_bounds n3 H3) as (P3 & Lo3 & Hi3).
  rewrite <- sq_abs in Lo1, Hi1, Lo2, Hi2, Lo3, Hi3.
  generalize (sq_zero_or_big n1 H1) (sq_zero_or_big n2 H2) (sq_zero_or_big n3 H3). intros ZB1 ZB2 ZB3.
  set (p1 := rnd64 (n1 * n1)) in *. set (p2 := rnd64 (n2 * n2)) in *. set (p3 := rnd64 (n3 * n3)) in *.
  assert (C12 : p1 + p2 = 0 \/ bpow radix2 (-1022) <= Rabs (p1 + p2)).
  { rewrite Rabs_pos_eq by lra.
    destruct ZB1 as [(_ & Z1)|(_ & B1)]; destruct ZB2 as [(_ & Z2)|(_ & B2)];
      [left|right|right|right]; lra. }
  generalize (rnd64_rel0 _ C12). rewrite (Rabs_pos_eq (p1 + p2)) by lra. intros R12. apply Rabs_le_inv in R12.
  set (s1 := rnd64 (p1 + p2)) in *.
  assert (S1 : 0 <= s1) by (apply rnd64_nonneg; lra).
  assert (C3 : s1 + p3 = 0 \/ bpow radix2 (-1022) <= Rabs (s1 + p3)).
  { rewrite Rabs_pos_eq by lra.
    destruct C12 as [Z12|B12].
    - assert (s1 = 0) by (unfold s1; rewrite Z12; apply rnd64_0).
      destruct ZB3 as [(_ & Z3)|(_ & B3)]; [left|right]; lra.
    - right. rewrite Rabs_pos_eq in B12 by lra.
      assert (bpow radix2 (-1022) <= s1).
      { apply round_ge_generic; [apply FLT_exp_valid; exact prec_gt_0_53|apply valid_rnd_N| |exact B12].
        apply fmt64_bpow. lia. }
      lra. }
  generalize (rnd64_rel0 _ C3). rewrite (Rabs_pos_eq (s1 + p3)) by lra. intros R3. apply Rabs_le_inv in R3.
  set (s2 := rnd64 (s1 + p3)) in *.
  unfold S. rewrite u64_val in *.
  set (A1 := n1 * n1) in *. set (A2 := n2 * n2) in *. set (A3 := n3 * n3) in *.
  assert (0 <= A1) by (unfold A1; nra). assert (0 <= A2) by (unfold A2; nra). assert (0 <= A3) by (unfold A3; nra).
  split; nra.
Qed.

Lemma acc_L : (1 - 3 * u64) * N <= L <= (1 + 4 * u64) * N.
Proof.
  destruct acc_NN as (HNN & HN). generalize acc_S_pos acc_s2 acc_N_min bpow_298_pos. intros HS Hs2 HNmin Hpp.
  unfold L, len_r. set (s2 := rnd64 (rnd64 (rnd64 (n1 * n1) + rnd64 (n2 * n2)) + rnd64 (n3 * n3))) in *.
  rewrite u64_val in *.
  assert (R1 : (1 - 2 * / 9007199254740992) * N <= sqrt s2).
  { rewrite <- (sqrt_sq ((1 - 2 * / 9007199254740992) * N)) by nra. apply sqrt_le_1_alt.
    replace ((1 - 2 * / 9007199254740992) * N * ((1 - 2 * / 9007199254740992) * N))
      with ((1 - 2 * / 9007199254740992) * (1 - 2 * / 9007199254740992) * S) by (rewrite <- HNN; ring).
    lra. }
  assert (R2 : sqrt s2 <= (1 + 2 * / 9007199254740992) * N).
  { rewrite <- (sqrt_sq ((1 + 2 * / 9007199254740992) * N)) by nra. apply sqrt_le_1_alt.
    replace ((1 + 2 * / 9007199254740992) * N * ((1 + 2 * / 9007199254740992) * N))
      with ((1 + 2 * / 9007199254740992) * (1 + 2 * / 9007199254740992) * S) by (rewrite <- HNN; ring).
    lra. }
  assert (Hmin : bpow radix2 (-1022) <= Rabs (sqrt s2)).
  { rewrite Rabs_pos_eq by apply sqrt_pos. eapply Rle_trans; [|exact R1].
    apply Rle_trans with (bpow radix2 (-1) * bpow radix2 (-298)).
    - rewrite <- bpow_plus. apply bpow_le. lia.
    - apply Rmult_le_compat; try (apply bpow_ge_0); [simpl; lra|exact HNmin]. }
  generalize (rnd64_rel _ Hmin). rewrite u64_val, (Rabs_pos_eq (sqrt s2)) by apply sqrt_pos.
  intros Hr. apply Rabs_le_inv in Hr. split; nra.
Qed.

Lemma acc_N_max : N <= bpow radix2 257.
Proof.
  destruct acc_NN as (HNN & HN). destruct H1 as (_ & M1). destruct H2 as (_ & M2). destruct H3 as (_ & M3).
  generalize (rabs_sq_le _ M1) (rabs_sq_le _ M2) (rabs_sq_le _ M3). rewrite <- !sq_abs. intros.
  assert (S <= bpow radix2 257 * bpow radix2 257).
  { rewrite <- bpow_plus. change (257 + 257)%Z with (2 + 512)%Z. rewrite bpow_plus. simpl (bpow radix2 2).
    unfold S. generalize (bpow_gt_0 radix2 512). lra. }
  unfold N. rewrite <- (sqrt_sq (bpow radix2 257)) by apply bpow_ge_0. apply sqrt_le_1_alt. assumption.
Qed.

(* one component *)
Lemma acc_comp : forall n, prod_ok n -> Rabs n <= N ->
  Rabs (comp_r n L - n / N) <= bpow radix2 (-24) + bpow radix2 (-50).
Proof.
  intros n Hn HnN. destruct acc_NN as (HNN & HN). generalize acc_L acc_N_max bpow_298_pos. intros HL HNmax Hpp.
  rewrite u64_val in HL.
  assert (L0 : 0 < L) by nra.
  set (x := n / N). set (q := n / L).
  assert (Ex : x * N = n) by (unfold x; field; lra).
  assert (Eq : q * L = n) by (unfold q; field; lra).
  assert (Hx : Rabs x <= 1).
  { unfold x, Rdiv. rewrite Rabs_mult, Rabs_inv, (Rabs_pos_eq N) by lra.
    apply Rmult_le_reg_r with N; [exact HN|]. rewrite Rmult_assoc, Rinv_l by lra. lra. }
  set (rho := N / L).
  assert (Er : rho * L = N) by (unfold rho; field; lra).
  assert (Hrho : Rabs (rho - 1) <= 5 * / 9007199254740992).
  { apply Rabs_le. split; nra. }
  assert (Eqx : q - x = x * (rho - 1)) by (unfold q, x, rho; field; lra).
  assert (Hqx : Rabs (q - x) <= 5 * / 9007199254740992).
  { rewrite Eqx, Rabs_mult. generalize (Rabs_pos x) (Rabs_pos (rho - 1)). intros. nra. }
  assert (Cq : q = 0 \/ bpow radix2 (-1022) <= Rabs q).
  { destruct Hn as [[Z|B] _].
    - left. unfold q. rewrite Z. unfold Rdiv. ring.
    - right. unfold q, Rdiv. rewrite Rabs_mult, Rabs_inv, (Rabs_pos_eq L) by lra.
      apply Rle_trans with (bpow radix2 (-298) * bpow radix2 (-258)).
      + rewrite <- bpow_plus. apply bpow_le. lia.
      + apply Rmult_le_compat; try apply bpow_ge_0; [exact B|].
        replace (bpow radix2 (-258)) with (/ bpow radix2 258) by (rewrite <- bpow_opp; reflexivity).
        apply Rinv_le_contravar; [exact L0|].
        change 258%Z with (1 + 257)%Z. rewrite bpow_plus. simpl (bpow radix2 1). nra. }
  generalize (rnd64_rel0 _ Cq). rewrite u64_val. intros Hd.
  apply Rabs_le_inv in Hx, Hqx.
  assert (Hq : Rabs q <= 1 + 5 * / 9007199254740992) by (apply Rabs_le; lra).
  set (D := rnd64 q) in *.
  assert (HdD : Rabs (D - q) <= 2 * / 9007199254740992).
  { eapply Rle_trans; [exact Hd|]. generalize (Rabs_pos q). nra. }
  apply Rabs_le_inv in HdD, Hq.
  assert (HD2 : Rabs D <= bpow radix2 1) by (simpl; apply Rabs_le; lra).
  generalize (rnd32_abs_err 1 D ltac:(lia) HD2). intros Hr. simpl bpow in *.
  unfold comp_r. fold q D x. apply Rabs_le_inv in Hr. apply Rabs_le. lra.
Qed.

Lemma acc_all :
  Rabs (comp_r n1 L - n1 / N) <= bpow radix2 (-24) + bpow radix2 (-50) /\
  Rabs (comp_r n2 L - n2 / N) <= bpow radix2 (-24) + bpow radix2 (-50) /\
  Rabs (comp_r n3 L - n3 / N) <= bpow radix2 (-24) + bpow radix2 (-50).
Proof.
  destruct acc_N_ge as (A1 & A2 & A3).
  split; [|split]; apply acc_comp; assumption.
Qed.
End NormAcc.

Definition nnorm_r (e : vec32) : R := sqrt (nx_r e * nx_r e + ny_r e * ny_r e + nz_r e * nz_r e).

Theorem normal32_accuracy : forall c e, finite_vec32 e = true ->
  (nx_r e <> 0 \/ ny_r e <> 0 \/ nz_r e <> 0) ->
  let r := normal32 c e in
  Rabs (R32 (fx r) - nx_r e / nnorm_r e) <= bpow radix2 (-24) + bpow radix2 (-50) /\
  Rabs (R32 (fy r) - ny_r e / nnorm_r e) <= bpow radix2 (-24) + bpow radix2 (-50) /\
  Rabs (R32 (fz r) - nz_r e / nnorm_r e) <= bpow radix2 (-24) + bpow radix2 (-50).
Proof.
  intros c e He Hnz r.
  destruct (normal32_sem c e He Hnz) as (_ & _ & C1 & C2 & C3 & _). fold r in C1, C2, C3.
  generalize (normal64_sem e He). destruct (normal64 e) as [[nx ny] nz].
  intros ((_ & _ & K1 & _) & (_ & _ & K2 & _) & (_ & _ & K3 & _)).
  rewrite C1, C2, C3. exact (acc_all _ _ _ K1 K2 K3 Hnz).
Qed.

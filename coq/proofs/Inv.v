(* proofs/Inv.v — the membership invariant of the sequential model and its preservation
   by every step.  Everything here is about four projections of the state only:
   who is where (c_cur), which connections are open, each session's participant
   map and participant-id counter. *)
From hagall Require Import Model.
From hagall.proofs Require Import BaseLemmas.
From Coq Require Import Lia.

Definition cur_of (st : state) (c : N) : option (N * N) := conns st !! c ≫= c_cur.
Definition open_of (st : state) (c : N) : option bool := c_open <$> conns st !! c.
Definition parts_of (st : state) (sid : N) : option (gmap N N) := s_parts <$> sessions st !! sid.
Definition pgen_of (st : state) (sid : N) : option N := s_pgen <$> sessions st !! sid.

(* two states with the same membership projections *)
Definition same_mem (st st' : state) : Prop :=
  (∀ c, cur_of st' c = cur_of st c) ∧ (∀ c, open_of st' c = open_of st c) ∧
  (∀ sid, parts_of st' sid = parts_of st sid) ∧ (∀ sid, pgen_of st' sid = pgen_of st sid) ∧
  sids st' = sids st.

Global Instance same_mem_refl : Reflexive same_mem.
Proof. by intros st. Qed.
Lemma same_mem_trans a b c : same_mem a b → same_mem b c → same_mem a c.
Proof.
  intros (A1&A2&A3&A4&A5) (B1&B2&B3&B4&B5); repeat split; intros; congruence.
Qed.

Record inv (st : state) : Prop := {
  inv_parts : ∀ sid ps p c, parts_of st sid = Some ps →
      ps !! p = Some c ↔ cur_of st c = Some (sid, p);
  inv_live : ∀ c sid p, cur_of st c = Some (sid, p) → is_Some (parts_of st sid);
  inv_open : ∀ c, open_of st c = Some false → cur_of st c = None;
  inv_nonempty : ∀ sid ps, parts_of st sid = Some ps → ps ≠ ∅;
  inv_pgen : ∀ sid ps g p, parts_of st sid = Some ps → pgen_of st sid = Some g →
      is_Some (ps !! p) → p ≤ g;
  inv_sids : ∀ s, is_Some (parts_of st s) → s ∉ g_reuse (sids st) ∧ s ≤ g_cur (sids st);
  inv_reuse : ∀ s, s ∈ g_reuse (sids st) → s ≤ g_cur (sids st)
}.

Lemma inv_same_mem st st' : same_mem st st' → inv st → inv st'.
Proof.
  intros (H1&H2&H3&H4&H5) [I1 I2 I3 I4 I5 I6 I7]. split.
  - intros sid ps p c Hps. rewrite H3 in Hps. rewrite H1. by apply I1.
  - intros c sid p Hc. rewrite H1 in Hc. rewrite H3. eauto.
  - intros c Hc. rewrite H2 in Hc. rewrite H1. by apply I3.
  - intros sid ps Hps. rewrite H3 in Hps. by eapply I4.
  - intros sid ps g p Hps Hg. rewrite H3 in Hps. rewrite H4 in Hg. by eapply I5.
  - intros s. rewrite H3, H5. apply I6.
  - intros s. rewrite H5. apply I7.
Qed.

Lemma inv_state0 : inv state0.
Proof.
  split; unfold cur_of, open_of, parts_of, pgen_of; simpl; intros *;
    rewrite ?lookup_empty; simpl; try done; try set_solver.
  by intros [? ?].
Qed.

(* ---------- projections of the state updaters ---------- *)
Lemma cur_of_upd_conn st c f c' :
  (∀ cn, c_cur (f cn) = c_cur cn) → cur_of (upd_conn c f st) c' = cur_of st c'.
Proof.
  intros Hf. unfold cur_of, upd_conn; simpl.
  destruct (conns st !! c) as [cn|] eqn:E; [|done].
  destruct (decide (c = c')) as [->|Hne].
  - rewrite lookup_insert, E. simpl. apply Hf.
  - by rewrite lookup_insert_ne.
Qed.
Lemma open_of_upd_conn st c f c' :
  (∀ cn, c_open (f cn) = c_open cn) → open_of (upd_conn c f st) c' = open_of st c'.
Proof.
  intros Hf. unfold open_of, upd_conn; simpl.
  destruct (conns st !! c) as [cn|] eqn:E; [|done].
  destruct (decide (c = c')) as [->|Hne].
  - rewrite lookup_insert, E. simpl. by rewrite Hf.
  - by rewrite lookup_insert_ne.
Qed.
Lemma sessions_upd_conn st c f : sessions (upd_conn c f st) = sessions st.
Proof. done. Qed.
Lemma conns_put_session st sid SS : conns (put_session st sid SS) = conns st.
Proof. done. Qed.

Lemma same_mem_upd_conn st c f :
  (∀ cn, c_cur (f cn) = c_cur cn) → (∀ cn, c_open (f cn) = c_open cn) →
  same_mem st (upd_conn c f st).
Proof.
  intros H1 H2. repeat split; intros.
  - by apply cur_of_upd_conn.
  - by apply open_of_upd_conn.
Qed.

Lemma same_mem_put_session st sid SS SS' :
  sessions st !! sid = Some SS → s_parts SS' = s_parts SS → s_pgen SS' = s_pgen SS →
  same_mem st (put_session st sid SS').
Proof.
  intros HS Hp Hg. repeat split; intros; try done; unfold parts_of, pgen_of, put_session; simpl.
  - destruct (decide (sid = sid0)) as [->|Hne].
    + rewrite lookup_insert, HS. simpl. by rewrite Hp.
    + by rewrite lookup_insert_ne.
  - destruct (decide (sid = sid0)) as [->|Hne].
    + rewrite lookup_insert, HS. simpl. by rewrite Hg.
    + by rewrite lookup_insert_ne.
Qed.

Lemma same_mem_receipts st r :
  same_mem st {| sessions := sessions st; sids := sids st; next_uuid := next_uuid st;
                 next_ping := next_ping st; conns := conns st; receipts := r; gauge := gauge st |}.
Proof. done. Qed.
Lemma same_mem_ping st n :
  same_mem st {| sessions := sessions st; sids := sids st; next_uuid := next_uuid st;
                 next_ping := n; conns := conns st; receipts := receipts st; gauge := gauge st |}.
Proof. done. Qed.

(* ---------- requests other than join keep the membership ---------- *)
Definition is_join (r : req) : bool := match r with RJoin _ _ _ => true | _ => false end.

Ltac smem :=
  repeat first
    [ reflexivity
    | eapply same_mem_trans; [|apply same_mem_upd_conn; intros []; reflexivity]
    | eapply same_mem_trans; [|eapply same_mem_put_session; [eassumption|reflexivity|reflexivity]] ].

Lemma send_ping_same st c l st' l' o :
  send_ping st c l = (st', l', o) → same_mem st st' ∧ sessions st' = sessions st.
Proof. unfold send_ping. intros [= <- <- <-]. split; [apply same_mem_ping|done]. Qed.

Lemma on_ping_same st c cn rid st' o v :
  on_ping st c cn rid = (st', o, v) → same_mem st st' ∧ v = VOk.
Proof.
  unfold on_ping. intros H.
  repeat case_match; simplify_eq; try (split; [reflexivity|done]).
  - match goal with Hsp : context [send_ping] |- _ => apply send_ping_same in Hsp as [Hs _] end.
    split; [|done]. eapply same_mem_trans; [exact Hs|]. apply same_mem_upd_conn; by intros [].
  - split; [|done]. apply same_mem_upd_conn; by intros [].
Qed.

Lemma cleanup_parts cfg eid SS : s_parts (cleanup_modules cfg eid SS) = s_parts SS.
Proof. unfold cleanup_modules. by repeat case_match. Qed.
Lemma cleanup_pgen cfg eid SS : s_pgen (cleanup_modules cfg eid SS) = s_pgen SS.
Proof. unfold cleanup_modules. by repeat case_match. Qed.

Lemma handle_joined_same cfg st c cn sid p SS r hint st' o v :
  is_join r = false → sessions st !! sid = Some SS →
  handle_joined cfg st c cn sid p SS r hint = (st', o, v) → same_mem st st'.
Proof.
  intros Hj HS H. destruct r; try discriminate Hj; simpl in H.
  all: try (repeat case_match; simplify_eq; smem; fail).
  - (* ping response *) by apply on_ping_same in H as [? _].
  - (* signed latency *)
    repeat case_match; simplify_eq; try reflexivity.
    eapply same_mem_trans; [apply (same_mem_ping st (next_ping st + 1))|].
    apply same_mem_upd_conn; by intros [].
  - (* entity delete *)
    repeat case_match; simplify_eq; try reflexivity.
    all: try (eapply same_mem_trans; [|apply same_mem_upd_conn; intros []; reflexivity]).
    all: eapply same_mem_put_session; [done|by rewrite cleanup_parts|by rewrite cleanup_pgen].
  - (* receipt *)
    repeat case_match; simplify_eq; try reflexivity. apply same_mem_receipts.
Qed.

Lemma handle_unjoined_same cfg st c cn r hint st' o v :
  is_join r = false → handle_unjoined cfg st c cn r hint = (st', o, v) → same_mem st st'.
Proof.
  intros Hj H. destruct r; try discriminate Hj; simpl in H;
    repeat case_match; simplify_eq; try reflexivity. apply same_mem_receipts.
Qed.

(* ---------- leave ---------- *)
Lemma module_disconnect_parts cfg own SS : s_parts (module_disconnect cfg own SS) = s_parts SS.
Proof. unfold module_disconnect. by repeat case_match. Qed.
Lemma module_disconnect_pgen cfg own SS : s_pgen (module_disconnect cfg own SS) = s_pgen SS.
Proof. unfold module_disconnect. by repeat case_match. Qed.
Lemma module_disconnect_frames cfg own SS : s_frames (module_disconnect cfg own SS) = s_frames SS.
Proof. unfold module_disconnect. by repeat case_match. Qed.

Lemma remove_doomed_parts cfg p l SS :
  s_parts (remove_doomed cfg p l SS).1 = s_parts SS ∧ s_pgen (remove_doomed cfg p l SS).1 = s_pgen SS
  ∧ s_frames (remove_doomed cfg p l SS).1 = s_frames SS.
Proof.
  revert SS. induction l as [|eid l IH]; intros SS; simpl; [done|].
  destruct (remove_doomed cfg p l _) as [S2 o2] eqn:E. simpl.
  specialize (IH (set_ents (delete eid) (set_store (store_delete_entity eid) SS))).
  rewrite E in IH. simpl in IH. done.
Qed.

(* the session a departure leaves behind (before the registry decides whether it survives) *)
Definition left_session (cfg : config) (c p : N) (own : gset N) (SS : session) : session :=
  let S1 := module_disconnect cfg own SS in
  let S2 := set_store (store_set_subs (fmap (λ s : gset N, s ∖ {[p]}))) S1 in
  let S3 := (remove_doomed cfg p (doomed S2 own) S2).1 in
  set_parts (delete p) (set_frames (λ f, f ∖ {[c]}) S3).

Global Arguments left_session : simpl never.

Lemma left_session_parts cfg c p own SS :
  s_parts (left_session cfg c p own SS) = delete p (s_parts SS) ∧
  s_pgen (left_session cfg c p own SS) = s_pgen SS.
Proof.
  unfold left_session. cbn [s_parts s_pgen set_parts set_frames].
  pose proof (remove_doomed_parts cfg p
    (doomed (set_store (store_set_subs (fmap (λ s : gset N, s ∖ {[p]}))) (module_disconnect cfg own SS)) own)
    (set_store (store_set_subs (fmap (λ s : gset N, s ∖ {[p]}))) (module_disconnect cfg own SS))) as (H1&H2&_).
  rewrite H1, H2. simpl. by rewrite module_disconnect_parts, module_disconnect_pgen.
Qed.

Lemma leave_unfold cfg st c cn sid p SS :
  conns st !! c = Some cn → c_cur cn = Some (sid, p) → sessions st !! sid = Some SS →
  (leave cfg st c).1 =
    let S4 := left_session cfg c p (c_own cn) SS in
    let st1 := upd_conn c (λ cn, set_own (λ _, ∅) (set_cur None cn)) st in
    if decide (s_parts S4 = ∅) then
      {| sessions := delete sid (sessions st1); sids := gen_reuse sid (sids st1);
         next_uuid := next_uuid st1; next_ping := next_ping st1; conns := conns st1;
         receipts := receipts st1; gauge := (gauge st1 - 1)%Z |}
    else set_sessions (<[sid := S4]>) st1.
Proof.
  intros Hc Hcur HS. unfold leave. rewrite Hc, Hcur, HS. unfold left_session.
  destruct (remove_doomed _ _ _ _) as [S3 o1]. simpl. by case_decide.
Qed.

Lemma leave_not_joined cfg st c : cur_of st c = None → (leave cfg st c).1 = st ∧ (leave cfg st c).2 = [].
Proof.
  unfold cur_of, leave. destruct (conns st !! c) as [cn|]; simpl; [|done].
  by intros ->.
Qed.

Lemma cur_of_set_cur_None st c c' :
  cur_of (upd_conn c (λ cn, set_own (λ _, ∅) (set_cur None cn)) st) c' =
  if decide (c' = c) then None else cur_of st c'.
Proof.
  unfold cur_of, upd_conn; simpl. destruct (conns st !! c) as [cn|] eqn:E.
  - case_decide as Hd; [subst; by rewrite lookup_insert|by rewrite lookup_insert_ne].
  - case_decide as Hd; [subst; by rewrite E|done].
Qed.

Lemma live_session st sid : is_Some (parts_of st sid) → is_Some (sessions st !! sid).
Proof. unfold parts_of. destruct (sessions st !! sid); [eauto|by intros [? ?]]. Qed.

(* what a departure does to the four projections *)
Record leave_proj (st st' : state) (c sid p : N) : Prop := {
  lp_cur : ∀ c', cur_of st' c' = if decide (c' = c) then None else cur_of st c';
  lp_open : ∀ c', open_of st' c' = open_of st c';
  lp_parts : ∀ s, parts_of st' s =
     if decide (s = sid) then
       ps ← parts_of st sid; if decide (delete p ps = ∅) then None else Some (delete p ps)
     else parts_of st s;
  lp_pgen : ∀ s, pgen_of st' s =
     if decide (s = sid) then
       ps ← parts_of st sid; if decide (delete p ps = ∅) then None else pgen_of st sid
     else pgen_of st s;
  lp_sids : sids st' =
     match parts_of st sid with
     | Some ps => if decide (delete p ps = ∅) then gen_reuse sid (sids st) else sids st
     | None => sids st
     end
}.

Lemma leave_projections cfg st c sid p :
  inv st → cur_of st c = Some (sid, p) → leave_proj st (leave cfg st c).1 c sid p.
Proof.
  intros I Hcur0. pose proof Hcur0 as Hcur. unfold cur_of in Hcur.
  destruct (conns st !! c) as [cn|] eqn:Hc; [|done]. simpl in Hcur.
  destruct (live_session _ _ (inv_live _ I _ _ _ Hcur0)) as [SS HS].
  rewrite (leave_unfold _ _ _ _ _ _ _ Hc Hcur HS). cbv zeta.
  destruct (left_session_parts cfg c p (c_own cn) SS) as [Hp Hg].
  remember (left_session cfg c p (c_own cn) SS) as L eqn:HL. clear HL.
  assert (Hps : parts_of st sid = Some (s_parts SS)) by (unfold parts_of; by rewrite HS).
  assert (Hgs : pgen_of st sid = Some (s_pgen SS)) by (unfold pgen_of; by rewrite HS).
  rewrite Hp. case_decide as Hempty.
  - split.
    + intros c'. unfold cur_of at 1. simpl. apply cur_of_set_cur_None.
    + intros c'. unfold open_of at 1. simpl. apply open_of_upd_conn. by intros [].
    + intros s. unfold parts_of at 1. simpl. rewrite Hps. simpl.
      case_decide; [subst; rewrite lookup_delete; by rewrite decide_True by done|by rewrite lookup_delete_ne].
    + intros s. unfold pgen_of at 1. simpl. rewrite Hps. simpl.
      case_decide; [subst; rewrite lookup_delete; by rewrite decide_True by done|by rewrite lookup_delete_ne].
    + simpl. rewrite Hps. by rewrite decide_True by done.
  - split.
    + intros c'. unfold cur_of at 1. simpl. apply cur_of_set_cur_None.
    + intros c'. unfold open_of at 1. simpl. apply open_of_upd_conn. by intros [].
    + intros s. unfold parts_of at 1. simpl. rewrite Hps. simpl.
      case_decide; [subst; rewrite lookup_insert; simpl; rewrite Hp; by rewrite decide_False by done|by rewrite lookup_insert_ne].
    + intros s. unfold pgen_of at 1. simpl. rewrite Hps. simpl.
      case_decide; [subst; rewrite lookup_insert; simpl; rewrite Hg, Hgs; by rewrite decide_False by done|by rewrite lookup_insert_ne].
    + simpl. rewrite Hps. by rewrite decide_False by done.
Qed.

Lemma inv_leave_proj st st' c sid p :
  inv st → cur_of st c = Some (sid, p) → leave_proj st st' c sid p → inv st'.
Proof.
  intros I Hcur [L1 L2 L3 L4 L5].
  destruct (inv_live _ I _ _ _ Hcur) as [ps0 Hps0].
  assert (Hpc : ps0 !! p = Some c) by by apply (inv_parts _ I sid).
  split.
  - intros s ps q c' Hps. rewrite L1, L3 in *. case_decide as Hs.
    + subst s. rewrite Hps0 in Hps. simpl in Hps. case_decide; simplify_eq.
      destruct (decide (q = p)) as [->|Hq].
      * rewrite lookup_delete. split; [done|]. case_decide; [done|].
        intros Hc'. apply (inv_parts _ I sid ps0) in Hc'; [congruence|done].
      * rewrite lookup_delete_ne by done. rewrite (inv_parts _ I sid ps0 q c' Hps0).
        case_decide; [subst|done]. rewrite Hcur. split; [congruence|done].
    + rewrite (inv_parts _ I s ps q c' Hps). case_decide; [subst|done].
      rewrite Hcur. split; [congruence|done].
  - intros c' s q. rewrite L1, L3. case_decide; [done|]. intros Hc'. case_decide as Hs.
    + subst s. rewrite Hps0. simpl. case_decide as He; [|eauto]. exfalso.
      apply (inv_parts _ I sid ps0) in Hc'; [|done].
      destruct (decide (q = p)) as [->|Hq]; [congruence|].
      assert (delete p ps0 !! q = Some c') by by rewrite lookup_delete_ne.
      rewrite He in *. by rewrite lookup_empty in *.
    + by eapply inv_live.
  - intros c'. rewrite L1, L2. case_decide; [done|]. by apply inv_open.
  - intros s ps. rewrite L3. case_decide as Hs.
    + rewrite Hps0. simpl. case_decide; [done|]. by intros [= <-].
    + by apply (inv_nonempty _ I s).
  - intros s ps g q. rewrite L3, L4. case_decide as Hs.
    + subst s. rewrite Hps0. simpl. case_decide; [done|]. intros [= <-] Hg [c' Hq].
      apply lookup_delete_Some in Hq as [_ Hq]. eapply (inv_pgen _ I sid); eauto.
    + by apply (inv_pgen _ I s).
  - intros s. rewrite L3, L5. rewrite Hps0. case_decide as Hs.
    + subst s. simpl. case_decide; [by intros [? ?]|]. intros _. apply (inv_sids _ I sid). eauto.
    + intros Hs'. destruct (inv_sids _ I s Hs') as [H1 H2]. case_decide; [|done].
      split; [|done]. simpl. set_solver.
  - intros s. rewrite L5, Hps0. case_decide; [|apply (inv_reuse _ I)].
    simpl. rewrite elem_of_union, elem_of_singleton. intros [Hs| ->]; [by apply (inv_reuse _ I)|].
    apply (inv_sids _ I sid). eauto.
Qed.

Lemma inv_leave cfg st c : inv st → inv (leave cfg st c).1.
Proof.
  intros I. destruct (cur_of st c) as [[sid p]|] eqn:Hcur.
  - eapply inv_leave_proj; [done|done|by apply leave_projections].
  - by rewrite (proj1 (leave_not_joined _ _ _ Hcur)).
Qed.

(* ---------- counters do not wrap (the code's own bound: uint32) ---------- *)
Definition nowrap (st : state) : Prop :=
  g_cur (sids st) + 1 < two32 ∧ ∀ s g, pgen_of st s = Some g → g + 1 < two32.

(* ---------- create_session ---------- *)
Lemma gen_new_spec hint g n g' :
  gen_new hint g = (n, g') →
  (g_reuse g = ∅ ∧ n = u32_succ (g_cur g) ∧ g_cur g' = n ∧ g_reuse g' = ∅) ∨
  (n ∈ g_reuse g ∧ g_cur g' = g_cur g ∧ g_reuse g' = g_reuse g ∖ {[n]}).
Proof.
  unfold gen_new. case_decide as He.
  - intros [= <- <-]. left. by rewrite He.
  - intros [= <- <-]. right. simpl. split; [|done].
    case_decide; [done|]. destruct (min_of (elements (g_reuse g))) as [x|] eqn:Hm; simpl.
    + apply min_of_elem in Hm. by apply elem_of_elements in Hm.
    + apply min_of_None in Hm. apply elements_empty_inv in Hm. by apply leibniz_equiv in Hm.
Qed.

Lemma create_session_proj hint st n st' :
  inv st → nowrap st → create_session hint st = (n, st') →
  parts_of st n = None ∧
  (∀ c, cur_of st' c = cur_of st c) ∧ (∀ c, open_of st' c = open_of st c) ∧
  (∀ s, parts_of st' s = if decide (s = n) then Some ∅ else parts_of st s) ∧
  (∀ s, pgen_of st' s = if decide (s = n) then Some 0 else pgen_of st s) ∧
  (∀ s, s ∈ g_reuse (sids st') → s ≤ g_cur (sids st')) ∧
  (∀ s, (s = n ∨ is_Some (parts_of st s)) → s ∉ g_reuse (sids st') ∧ s ≤ g_cur (sids st')) ∧
  g_cur (sids st) ≤ g_cur (sids st').
Proof.
  intros I [W _]. unfold create_session. destruct (gen_new hint (sids st)) as [n' g'] eqn:Hg.
  intros [= <- <-]. apply gen_new_spec in Hg.
  assert (Hfresh : parts_of st n' = None).
  { destruct (parts_of st n') eqn:E; [|done]. exfalso.
    destruct (inv_sids _ I n') as [H1 H2]; [eauto|].
    destruct Hg as [(_&->&_)|(Hn&_)]; [|done].
    rewrite u32_succ_small in H2 by done. lia. }
  split; [done|]. split; [done|]. split; [done|].
  split. { intros s. unfold parts_of; simpl. case_decide; [subst; by rewrite lookup_insert|by rewrite lookup_insert_ne]. }
  split. { intros s. unfold pgen_of; simpl. case_decide; [subst; by rewrite lookup_insert|by rewrite lookup_insert_ne]. }
  simpl. destruct Hg as [(He&->&Hc&Hr)|(Hn&Hc&Hr)]; rewrite Hc, Hr.
  - rewrite u32_succ_small by done. split; [set_solver|]. split; [|lia].
    intros s [->|Hs]; [split; [set_solver|lia]|].
    destruct (inv_sids _ I s Hs). split; [set_solver|lia].
  - split; [intros s Hs; apply (inv_reuse _ I); set_solver|]. split; [|lia].
    intros s [->|Hs]; [split; [set_solver|by apply (inv_reuse _ I)]|].
    destruct (inv_sids _ I s Hs). split; [set_solver|done].
Qed.

(* ---------- enter ---------- *)
Lemma enter_proj cfg st c rid n ots st' o v ps g :
  enter cfg st c rid n ots = (st', o, v) → is_Some (conns st !! c) →
  parts_of st n = Some ps → pgen_of st n = Some g →
  let p := u32_succ g in
  v = VOk ∧
  (∀ c', cur_of st' c' = if decide (c' = c) then Some (n, p) else cur_of st c') ∧
  (∀ c', open_of st' c' = open_of st c') ∧
  (∀ s, parts_of st' s = if decide (s = n) then Some (<[p := c]> ps) else parts_of st s) ∧
  (∀ s, pgen_of st' s = if decide (s = n) then Some p else pgen_of st s) ∧
  sids st' = sids st.
Proof.
  unfold enter, parts_of, pgen_of. destruct (sessions st !! n) as [SS|] eqn:HS; [|done].
  simpl. intros [= <- <- <-] [cn Hc] [= <-] [= <-]. split; [done|].
  split. { intros c'. unfold cur_of, upd_conn; simpl. rewrite Hc.
           case_decide; [subst; by rewrite lookup_insert|by rewrite lookup_insert_ne]. }
  split. { intros c'. rewrite open_of_upd_conn by (by intros []). done. }
  split. { intros s. simpl. case_decide; [subst; by rewrite lookup_insert|by rewrite lookup_insert_ne]. }
  split; [|done]. intros s. simpl. case_decide; [subst; by rewrite lookup_insert|by rewrite lookup_insert_ne].
Qed.

(* entering an (empty or not) registered session as a connection that is in none *)
Lemma inv_enter st st' c n p ps g :
  (* the invariant of the state before, except that session n may be empty *)
  (∀ sid ps p c, parts_of st sid = Some ps → ps !! p = Some c ↔ cur_of st c = Some (sid, p)) →
  (∀ c sid p, cur_of st c = Some (sid, p) → is_Some (parts_of st sid)) →
  (∀ c, open_of st c = Some false → cur_of st c = None) →
  (∀ sid ps, sid ≠ n → parts_of st sid = Some ps → ps ≠ ∅) →
  (∀ sid ps g p, parts_of st sid = Some ps → pgen_of st sid = Some g → is_Some (ps !! p) → p ≤ g) →
  (∀ s, is_Some (parts_of st s) → s ∉ g_reuse (sids st) ∧ s ≤ g_cur (sids st)) →
  (∀ s, s ∈ g_reuse (sids st) → s ≤ g_cur (sids st)) →
  cur_of st c = None → open_of st c = Some true →
  parts_of st n = Some ps → pgen_of st n = Some g → p = g + 1 →
  (∀ c', cur_of st' c' = if decide (c' = c) then Some (n, p) else cur_of st c') →
  (∀ c', open_of st' c' = open_of st c') →
  (∀ s, parts_of st' s = if decide (s = n) then Some (<[p := c]> ps) else parts_of st s) →
  (∀ s, pgen_of st' s = if decide (s = n) then Some p else pgen_of st s) →
  sids st' = sids st →
  inv st'.
Proof.
  intros I1 I2 I3 I4 I5 I6 I7 Hcur Hopen Hps Hg -> E1 E2 E3 E4 E5.
  assert (Hfresh : ps !! (g + 1) = None).
  { destruct (ps !! (g + 1)) eqn:E; [|done]. exfalso.
    assert (g + 1 ≤ g) by (eapply I5; eauto). lia. }
  split.
  - intros s qs q c'. rewrite E1, E3. case_decide as Hs.
    + subst s. intros [= <-]. destruct (decide (q = g + 1)) as [->|Hq].
      * rewrite lookup_insert. case_decide; [subst; done|].
        split; [congruence|]. intros Hc'. apply (I1 n ps) in Hc'; [congruence|done].
      * rewrite lookup_insert_ne by done. case_decide.
        { subst c'. split; [|congruence]. intros Hq'. apply (I1 n ps) in Hq'; [congruence|done]. }
        by apply I1.
    + intros Hqs. case_decide; [|by apply I1]. subst c'. split; [|congruence].
      intros Hq'. apply (I1 s qs) in Hq'; [congruence|done].
  - intros c' s q. rewrite E1, E3. case_decide.
    + intros [= <- <-]. rewrite decide_True by done. eauto.
    + intros Hc'. case_decide; [eauto|by eapply I2].
  - intros c'. rewrite E1, E2. case_decide; [subst; congruence|apply I3].
  - intros s qs. rewrite E3. case_decide.
    + intros [= <-]. intros He. assert (H1 : (<[g + 1 := c]> ps) !! (g + 1) = Some c) by apply lookup_insert.
      rewrite He in H1. by rewrite lookup_empty in H1.
    + by apply I4.
  - intros s qs g' q. rewrite E3, E4. case_decide.
    + intros [= <-] [= <-] [c' Hq]. destruct (decide (q = g + 1)) as [->|Hq']; [lia|].
      rewrite lookup_insert_ne in Hq by done. assert (q ≤ g) by (eapply I5; eauto). lia.
    + by apply I5.
  - intros s. rewrite E3, E5. case_decide; [subst|apply I6]. intros _. apply I6. eauto.
  - intros s. rewrite E5. apply I7.
Qed.

Lemma leave_open cfg st c c' : open_of (leave cfg st c).1 c' = open_of st c'.
Proof.
  destruct (cur_of st c) as [[sid p]|] eqn:Hcur; [|by rewrite (proj1 (leave_not_joined _ _ _ Hcur))].
  unfold leave, cur_of in *. destruct (conns st !! c) as [cn|] eqn:Hc; [|done]. simpl in Hcur.
  rewrite Hcur. destruct (sessions st !! sid) as [SS|].
  - destruct (remove_doomed _ _ _ _). simpl. case_decide; unfold open_of; simpl;
      apply (open_of_upd_conn st c); by intros [].
  - simpl. apply open_of_upd_conn. by intros [].
Qed.

Lemma leave_cur cfg st c : inv st → cur_of (leave cfg st c).1 c = None.
Proof.
  intros I. destruct (cur_of st c) as [[sid p]|] eqn:Hcur.
  - rewrite (lp_cur _ _ _ _ _ (leave_projections cfg _ _ _ _ I Hcur)). by rewrite decide_True.
  - by rewrite (proj1 (leave_not_joined _ _ _ Hcur)).
Qed.

Lemma leave_nowrap cfg st c : inv st → nowrap st → nowrap (leave cfg st c).1.
Proof.
  intros I [W1 W2]. destruct (cur_of st c) as [[sid p]|] eqn:Hcur;
    [|by rewrite (proj1 (leave_not_joined _ _ _ Hcur))].
  destruct (leave_projections cfg _ _ _ _ I Hcur) as [_ _ L3 L4 L5]. split.
  - rewrite L5. repeat case_match; done.
  - intros s g. rewrite L4. case_decide; [|apply W2]. subst.
    destruct (parts_of st sid); simpl; [|done]. case_decide; [done|apply W2].
Qed.

Lemma join_inv cfg st c rid sid ots hint :
  inv st → nowrap st → open_of st c = Some true → inv (join cfg st c rid sid ots hint).1.1.
Proof.
  intros I W Hopen. unfold join.
  destruct (conns st !! c) as [cn|] eqn:Hc; [|done].
  destruct (already_joined cn sid); [done|].
  pose proof (inv_leave cfg st c I) as I1.
  pose proof (leave_cur cfg st c I) as Hcur1.
  pose proof (leave_open cfg st c c) as Hopen1. rewrite Hopen in Hopen1.
  pose proof (leave_nowrap cfg st c I W) as W1.
  destruct (leave cfg st c) as [st1 o1]. simpl in *.
  assert (Hc1 : is_Some (conns st1 !! c)).
  { unfold open_of in Hopen1. destruct (conns st1 !! c); [eauto|done]. }
  destruct sid as [|n|k]; [| |done].
  - (* new session *)
    destruct (create_session hint st1) as [n st2] eqn:Hcr.
    destruct (create_session_proj _ _ _ _ I1 W1 Hcr) as (Hfresh&C1&C2&C3&C4&C5&C6&C7).
    destruct (enter cfg st2 c rid n ots) as [[st3 o2] v] eqn:He. simpl.
    assert (Hc2 : is_Some (conns st2 !! c)).
    { unfold create_session in Hcr. destruct (gen_new _ _). by simplify_eq. }
    assert (Hp2 : parts_of st2 n = Some ∅) by (rewrite C3; by rewrite decide_True).
    assert (Hg2 : pgen_of st2 n = Some 0) by (rewrite C4; by rewrite decide_True).
    destruct (enter_proj _ _ _ _ _ _ _ _ _ _ _ He Hc2 Hp2 Hg2) as (_&E1&E2&E3&E4&E5).
    eapply (inv_enter st2 st3 c n (u32_succ 0) ∅ 0); try done.
    + intros s ps p c'. rewrite C3, C1. case_decide; [intros [= <-]|by apply (inv_parts _ I1)].
      rewrite lookup_empty. split; [done|]. intros Hc'. subst.
      destruct (inv_live _ I1 _ _ _ Hc') as [? ?]. congruence.
    + intros c' s p. rewrite C1, C3. intros Hc'. case_decide; [eauto|by eapply inv_live].
    + intros c'. rewrite C1, C2. by apply inv_open.
    + intros s ps Hs. rewrite C3. rewrite decide_False by done. by apply (inv_nonempty _ I1).
    + intros s ps g p. rewrite C3, C4. case_decide; [intros [= <-] _ [? Hx]; by rewrite lookup_empty in Hx|].
      by apply (inv_pgen _ I1).
    + intros s. rewrite C3. case_decide; [intros _; apply C6; by left|intros Hs; apply C6; by right].
    + by rewrite C1.
    + by rewrite C2.
  - (* existing session *)
    destruct (sessions st1 !! n) as [SS|] eqn:HS; [|done].
    destruct (enter cfg st1 c rid n ots) as [[st2 o2] v] eqn:He. simpl.
    assert (Hp : parts_of st1 n = Some (s_parts SS)) by (unfold parts_of; by rewrite HS).
    assert (Hg : pgen_of st1 n = Some (s_pgen SS)) by (unfold pgen_of; by rewrite HS).
    destruct (enter_proj _ _ _ _ _ _ _ _ _ _ _ He Hc1 Hp Hg) as (_&E1&E2&E3&E4&E5).
    destruct I1 as [J1 J2 J3 J4 J5 J6 J7].
    eapply (inv_enter st1 st2 c n (u32_succ (s_pgen SS)) (s_parts SS) (s_pgen SS)); try done.
    + intros s ps _. apply J4.
    + apply u32_succ_small. apply (proj2 W1 n). done.
Qed.

(* ---------- counters are bounded by the number of steps taken ---------- *)
Definition bounded (k : N) (st : state) : Prop :=
  g_cur (sids st) ≤ k ∧ ∀ s g, pgen_of st s = Some g → g ≤ k.

Lemma bounded_nowrap k st : bounded k st → k + 1 < two32 → nowrap st.
Proof. intros [B1 B2] Hk. split; [lia|]. intros s g Hg. specialize (B2 _ _ Hg). lia. Qed.
Lemma bounded_mono k k' st : bounded k st → k ≤ k' → bounded k' st.
Proof. intros [B1 B2] Hk. split; [lia|]. intros s g Hg. specialize (B2 _ _ Hg). lia. Qed.
Lemma bounded_same_mem k st st' : same_mem st st' → bounded k st → bounded k st'.
Proof. intros (_&_&_&H4&H5) [B1 B2]. split; [by rewrite H5|]. intros s g. rewrite H4. apply B2. Qed.
Lemma bounded_state0 : bounded 0 state0.
Proof. split; [done|]. intros s g. unfold pgen_of. simpl. by rewrite lookup_empty. Qed.

Lemma leave_bounded cfg st c k : inv st → bounded k st → bounded k (leave cfg st c).1.
Proof.
  intros I [B1 B2]. destruct (cur_of st c) as [[sid p]|] eqn:Hcur;
    [|by rewrite (proj1 (leave_not_joined _ _ _ Hcur))].
  destruct (leave_projections cfg _ _ _ _ I Hcur) as [_ _ L3 L4 L5]. split.
  - rewrite L5. repeat case_match; done.
  - intros s g. rewrite L4. case_decide; [|apply B2]. subst.
    destruct (parts_of st sid); simpl; [|done]. case_decide; [done|apply B2].
Qed.

Lemma join_bounded cfg st c rid sid ots hint k :
  inv st → bounded k st → k + 1 < two32 → open_of st c = Some true →
  bounded (k + 1) (join cfg st c rid sid ots hint).1.1.
Proof.
  intros I B Hk Hopen. unfold join.
  destruct (conns st !! c) as [cn|] eqn:Hc; [|by eapply bounded_mono; [done|lia]].
  destruct (already_joined cn sid); [by eapply bounded_mono; [done|lia]|].
  pose proof (inv_leave cfg st c I) as I1.
  pose proof (leave_bounded cfg st c k I B) as B1.
  pose proof (leave_open cfg st c c) as Hopen1. rewrite Hopen in Hopen1.
  destruct (leave cfg st c) as [st1 o1]. simpl in *.
  assert (Hc1 : is_Some (conns st1 !! c)).
  { unfold open_of in Hopen1. destruct (conns st1 !! c); [eauto|done]. }
  pose proof (bounded_nowrap _ _ B1 Hk) as W1.
  destruct sid as [|n|j]; [| |by eapply bounded_mono; [done|lia]].
  - destruct (create_session hint st1) as [n st2] eqn:Hcr.
    destruct (create_session_proj _ _ _ _ I1 W1 Hcr) as (Hfresh&C1&C2&C3&C4&C5&C6&C7).
    destruct (enter cfg st2 c rid n ots) as [[st3 o2] v] eqn:He. simpl.
    assert (Hc2 : is_Some (conns st2 !! c)).
    { unfold create_session in Hcr. destruct (gen_new _ _). by simplify_eq. }
    assert (Hp2 : parts_of st2 n = Some ∅) by (rewrite C3; by rewrite decide_True).
    assert (Hg2 : pgen_of st2 n = Some 0) by (rewrite C4; by rewrite decide_True).
    destruct (enter_proj _ _ _ _ _ _ _ _ _ _ _ He Hc2 Hp2 Hg2) as (_&E1&E2&E3&E4&E5).
    destruct B1 as [B11 B12]. split.
    + rewrite E5. unfold create_session in Hcr. destruct (gen_new hint (sids st1)) as [n' g'] eqn:Hgn.
      simplify_eq. simpl. apply gen_new_spec in Hgn as [(_&->&->&_)|(_&->&_)]; [|lia].
      rewrite u32_succ_small by lia. lia.
    + intros s g. rewrite E4. case_decide; [intros [= <-]; rewrite u32_succ_small by (unfold two32; lia); lia|].
      rewrite C4. rewrite decide_False by done. intros Hg. specialize (B12 _ _ Hg). lia.
  - destruct (sessions st1 !! n) as [SS|] eqn:HS; [|by eapply bounded_mono; [done|lia]].
    destruct (enter cfg st1 c rid n ots) as [[st2 o2] v] eqn:He. simpl.
    assert (Hp : parts_of st1 n = Some (s_parts SS)) by (unfold parts_of; by rewrite HS).
    assert (Hg : pgen_of st1 n = Some (s_pgen SS)) by (unfold pgen_of; by rewrite HS).
    destruct (enter_proj _ _ _ _ _ _ _ _ _ _ _ He Hc1 Hp Hg) as (_&E1&E2&E3&E4&E5).
    destruct B1 as [B11 B12]. split; [rewrite E5; lia|].
    intros s g. rewrite E4. case_decide.
    + intros [= <-]. specialize (B12 _ _ Hg). rewrite u32_succ_small by lia. lia.
    + intros Hg'. specialize (B12 _ _ Hg'). lia.
Qed.

(* ---------- disconnect ---------- *)
Lemma inv_disconnect cfg st c : inv st → inv (disconnect cfg st c).1.
Proof.
  intros I. unfold disconnect.
  pose proof (inv_leave cfg st c I) as I1. pose proof (leave_cur cfg st c I) as Hcur.
  destruct (leave cfg st c) as [st1 o]. simpl in *.
  set (f := λ cn, set_queue [] (set_open false cn)).
  assert (H1 : ∀ c', cur_of (upd_conn c f st1) c' = cur_of st1 c') by (intros; apply cur_of_upd_conn; by intros []).
  destruct I1 as [J1 J2 J3 J4 J5 J6 J7]. split; try done.
  - intros s ps p c'. rewrite H1. apply J1.
  - intros c' s p. rewrite H1. apply J2.
  - intros c'. rewrite H1. destruct (decide (c' = c)) as [->|Hne]; [done|].
    unfold open_of, upd_conn; simpl. destruct (conns st1 !! c); [|apply J3].
    rewrite lookup_insert_ne by done. apply J3.
Qed.
Lemma disconnect_bounded cfg st c k : inv st → bounded k st → bounded k (disconnect cfg st c).1.
Proof.
  intros I B. unfold disconnect. pose proof (leave_bounded cfg st c k I B) as B1.
  destruct (leave cfg st c) as [st1 o]. simpl in *. done.
Qed.
Lemma disconnect_closed cfg st c : open_of st c ≠ None → open_of (disconnect cfg st c).1 c = Some false.
Proof.
  intros Ho. unfold disconnect. pose proof (leave_open cfg st c c) as H1.
  destruct (leave cfg st c) as [st1 o]. simpl in *.
  unfold open_of, upd_conn in *; simpl. destruct (conns st1 !! c) eqn:E.
  - by rewrite lookup_insert.
  - simpl in H1. congruence.
Qed.

(* ---------- tick ---------- *)
Lemma tick_same st sid : same_mem st (tick st sid).
Proof.
  unfold tick. destruct (sessions st !! sid) as [SS|]; [|reflexivity].
  assert (H : ∀ X : gset N, ∀ c,
    (set_fold (λ c m, match m !! c with Some cn => <[c := flush cn]> m | None => m end) (conns st) X !! c ≫= c_cur
       = conns st !! c ≫= c_cur) ∧
    (c_open <$> set_fold (λ c m, match m !! c with Some cn => <[c := flush cn]> m | None => m end) (conns st) X !! c
       = c_open <$> conns st !! c)).
  { intros X c. apply (set_fold_ind_L (λ m _, (m !! c ≫= c_cur = conns st !! c ≫= c_cur) ∧
                                              (c_open <$> m !! c = c_open <$> conns st !! c))); [done|].
    intros x X' m Hx [IH1 IH2]. destruct (m !! x) as [cn|] eqn:E; [|done].
    destruct (decide (x = c)) as [->|Hne].
    - rewrite lookup_insert. rewrite E in IH1, IH2. simpl in *. by destruct cn.
    - by rewrite lookup_insert_ne. }
  repeat split; intros; try done; unfold cur_of, open_of; simpl; apply H.
Qed.

(* ---------- the step lemma ---------- *)
Lemma handle_inv cfg st c r hint k :
  inv st → bounded k st → k + 1 < two32 → open_of st c = Some true →
  inv (handle cfg st c r hint).1.1 ∧ bounded (k + 1) (handle cfg st c r hint).1.1.
Proof.
  intros I B Hk Hopen. unfold handle.
  assert (Hdef : inv st ∧ bounded (k + 1) st) by (split; [done|eapply bounded_mono; [done|lia]]).
  destruct (conns st !! c) as [cn|] eqn:Hc; [|done].
  destruct (c_cur cn) as [[sid p]|] eqn:Hcur.
  - destruct (sessions st !! sid) as [SS|] eqn:HS; [|done].
    destruct (is_join r) eqn:Hj.
    + destruct r; try discriminate Hj. simpl. split; [by apply join_inv; [|eapply bounded_nowrap|]|by apply join_bounded].
    + destruct (handle_joined cfg st c cn sid p SS r hint) as [[st' o] v] eqn:E.
      apply handle_joined_same in E; [|done|done]. simpl.
      split; [by eapply inv_same_mem|]. eapply bounded_same_mem; [done|]. eapply bounded_mono; [done|lia].
  - destruct (is_join r) eqn:Hj.
    + destruct r; try discriminate Hj. simpl. split; [by apply join_inv; [|eapply bounded_nowrap|]|by apply join_bounded].
    + destruct (handle_unjoined cfg st c cn r hint) as [[st' o] v] eqn:E.
      apply handle_unjoined_same in E; [|done]. simpl.
      split; [by eapply inv_same_mem|]. eapply bounded_same_mem; [done|]. eapply bounded_mono; [done|lia].
Qed.

Lemma handle_open cfg st c r hint c' : open_of (handle cfg st c r hint).1.1 c' = open_of st c'.
Proof.
  unfold handle. destruct (conns st !! c) as [cn|] eqn:Hc; [|done].
  assert (Hjoin : ∀ rid s ots, open_of (join cfg st c rid s ots hint).1.1 c' = open_of st c').
  { intros rid s ots. unfold join. rewrite Hc. destruct (already_joined cn s); [done|].
    pose proof (leave_open cfg st c c') as H1. destruct (leave cfg st c) as [st1 o1]. simpl in *.
    assert (He : ∀ st2 n, open_of (enter cfg st2 c rid n ots).1.1 c' = open_of st2 c').
    { intros st2 n. unfold enter. destruct (sessions st2 !! n); [|done]. simpl.
      rewrite open_of_upd_conn by (by intros []). done. }
    destruct s as [|n|j]; [| |done].
    - destruct (create_session hint st1) as [n st2] eqn:Hcr. specialize (He st2 n).
      destruct (enter cfg st2 c rid n ots) as [[st3 o2] v]. simpl in *. rewrite He.
      unfold create_session in Hcr. destruct (gen_new _ _). by simplify_eq.
    - destruct (sessions st1 !! n); [|done]. specialize (He st1 n).
      destruct (enter cfg st1 c rid n ots) as [[st3 o2] v]. simpl in *. by rewrite He. }
  destruct (c_cur cn) as [[sid p]|] eqn:Hcur.
  - destruct (sessions st !! sid) as [SS|] eqn:HS; [|done].
    destruct (is_join r) eqn:Hj; [destruct r; try discriminate Hj; apply Hjoin|].
    destruct (handle_joined cfg st c cn sid p SS r hint) as [[st' o] v] eqn:E.
    apply handle_joined_same in E as (_&E&_); [|done|done]. apply E.
  - destruct (is_join r) eqn:Hj; [destruct r; try discriminate Hj; apply Hjoin|].
    destruct (handle_unjoined cfg st c cn r hint) as [[st' o] v] eqn:E.
    apply handle_unjoined_same in E as (_&E&_); [|done]. apply E.
Qed.

Theorem step_inv cfg st o k :
  inv st → bounded k st → k + 1 < two32 →
  inv (step cfg st o).1.1 ∧ bounded (k + 1) (step cfg st o).1.1.
Proof.
  intros I B Hk.
  assert (Hdef : inv st ∧ bounded (k + 1) st) by (split; [done|eapply bounded_mono; [done|lia]]).
  destruct o as [c|c r|c hint|sid|c|]; simpl; try done.
  - (* connect *)
    destruct (conns st !! c) as [cn|] eqn:Hc; [done|]. simpl.
    assert (Hcur : ∀ c', cur_of (set_conns <[c:=conn0]> st) c' = cur_of st c').
    { intros c'. unfold cur_of; simpl. destruct (decide (c = c')) as [->|Hne];
        [by rewrite lookup_insert, Hc|by rewrite lookup_insert_ne]. }
    split; [|destruct Hdef as [_ [B1 B2]]; by split].
    destruct I as [J1 J2 J3 J4 J5 J6 J7]. split; try done.
    + intros s ps p c'. rewrite Hcur. apply J1.
    + intros c' s p. rewrite Hcur. apply J2.
    + intros c'. rewrite Hcur. unfold open_of; simpl. destruct (decide (c = c')) as [->|Hne].
      * by rewrite lookup_insert.
      * rewrite lookup_insert_ne by done. apply J3.
  - (* send *)
    unfold dispatch. destruct (conns st !! c) as [cn|] eqn:Hc; [|done].
    destruct (c_open cn) eqn:Ho; [|done]. simpl.
    assert (Hq : ∀ f, (∀ cn, c_cur (f cn) = c_cur cn) → (∀ cn, c_open (f cn) = c_open cn) →
                 inv (upd_conn c f st) ∧ bounded (k + 1) (upd_conn c f st)).
    { intros f H1 H2. pose proof (same_mem_upd_conn st c f H1 H2).
      split; [by eapply inv_same_mem|by eapply bounded_same_mem; [|apply Hdef]]. }
    destruct r; try (apply Hq; by intros []).
    all: try (simpl; apply Hq; by intros []).
    destruct (ty =? 14); [|apply Hq; by intros []].
    pose proof (inv_disconnect cfg st c I). pose proof (disconnect_bounded cfg st c k I B).
    destruct (disconnect cfg st c). simpl in *. split; [done|]. eapply bounded_mono; [done|lia].
  - (* step *)
    destruct (conns st !! c) as [cn|] eqn:Hc; [|done].
    destruct (c_open cn) eqn:Ho; [|done]. simpl.
    destruct (c_queue cn) as [|r q] eqn:Hq; [done|].
    set (st0 := upd_conn c (set_queue q) st).
    assert (Hs0 : same_mem st st0) by (apply same_mem_upd_conn; by intros []).
    assert (I0 : inv st0) by by eapply inv_same_mem.
    assert (B0 : bounded k st0) by by eapply bounded_same_mem.
    assert (Ho0 : open_of st0 c = Some true).
    { destruct Hs0 as (_&H2&_). rewrite H2. unfold open_of. by rewrite Hc; simpl; rewrite Ho. }
    destruct (handle_inv cfg st0 c r hint k I0 B0 Hk Ho0) as [I1 B1].
    pose proof (handle_open cfg st0 c r hint c) as Ho1.
    destruct (handle cfg st0 c r hint) as [[st1 o1] v]. simpl in *.
    destruct v; try done.
    pose proof (inv_disconnect cfg st1 c I1). pose proof (disconnect_bounded cfg st1 c _ I1 B1).
    destruct (disconnect cfg st1 c). simpl in *. done.
  - (* tick *)
    pose proof (tick_same st sid). split; [by eapply inv_same_mem|by eapply bounded_same_mem; [|apply Hdef]].
  - (* disconnect *)
    destruct (conns st !! c) as [cn|] eqn:Hc; [|done].
    destruct (c_open cn) eqn:Ho; [|done]. simpl.
    pose proof (inv_disconnect cfg st c I). pose proof (disconnect_bounded cfg st c k I B).
    destruct (disconnect cfg st c). simpl in *. split; [done|]. eapply bounded_mono; [done|lia].
Qed.

(* every reachable state *)
Lemma run_from_final cfg st h : (run_from cfg st h).2 = fold_left (λ s o, (step cfg s o).1.1) h st.
Proof.
  revert st. induction h as [|o h IH]; intros st; simpl; [done|].
  destruct (step cfg st o) as [[st1 outs] v] eqn:E. specialize (IH st1).
  destruct (run_from cfg st1 h) as [t st2]. simpl in *. done.
Qed.

Theorem reachable_inv cfg h st k :
  inv st → bounded k st → k + N.of_nat (length h) < two32 →
  inv (run_from cfg st h).2 ∧ bounded (k + N.of_nat (length h)) (run_from cfg st h).2.
Proof.
  rewrite run_from_final. revert st k. induction h as [|o h IH]; intros st k I B Hk; cbn [fold_left length] in *.
  - rewrite N.add_0_r. done.
  - rewrite Nat2N.inj_succ in *.
    destruct (step_inv cfg st o k I B) as [I1 B1]; [lia|].
    specialize (IH _ (k + 1) I1 B1).
    replace (k + N.succ (N.of_nat (length h))) with (k + 1 + N.of_nat (length h)) by lia.
    apply IH. lia.
Qed.

(* proofs/Purge1.v — noninterference experiment of C03 (Purge.v), part 1:
   the simulation relation between the full run and the purged run, what the handlers read of a
   session (nothing of its incarnation number), and the exact effect of the building blocks
   (leave, enter, create_session, tick, session-local requests) on the connection table and the registry. *)
From stdpp Require Import relations sorting.
From hagall Require Import Model Spec Obs Preds Purge.
From hagall.proofs Require Import BaseLemmas Relay Inv Session Local Trans WF Mono Reach PC03 PC06 PC07
  Refine Refine2 Refine3 Refine5 RefSched RefSched2.
From Coq Require Import Lia.

(* ================= sessions up to their incarnation number ================= *)
Definition set_uuid (u : N) (SS : session) : session :=
  {| s_uuid := u; s_pgen := s_pgen SS; s_egen := s_egen SS; s_parts := s_parts SS;
     s_ents := s_ents SS; s_store := s_store SS; s_actions := s_actions SS; s_agen := s_agen SS;
     s_assets := s_assets SS; s_frames := s_frames SS |}.

Definition srel (S1 S2 : session) : Prop := S2 = set_uuid (s_uuid S2) S1.

Lemma set_uuid_id SS : set_uuid (s_uuid SS) SS = SS.
Proof. by destruct SS. Qed.
Lemma set_uuid_set_uuid u v SS : set_uuid u (set_uuid v SS) = set_uuid u SS.
Proof. done. Qed.
Lemma srel_refl SS : srel SS SS.
Proof. unfold srel. by rewrite set_uuid_id. Qed.
Lemma srel_set_uuid u SS : srel SS (set_uuid u SS).
Proof. done. Qed.
Lemma srel_parts S1 S2 : srel S1 S2 → s_parts S2 = s_parts S1.
Proof. by intros ->. Qed.
Lemma srel_frames S1 S2 : srel S1 S2 → s_frames S2 = s_frames S1.
Proof. by intros ->. Qed.
Lemma srel_pgen S1 S2 : srel S1 S2 → s_pgen S2 = s_pgen S1.
Proof. by intros ->. Qed.

(* ---------- the handlers do not read the incarnation number ---------- *)
Lemma cleanup_modules_uuid cfg eid u SS :
  cleanup_modules cfg eid (set_uuid u SS) = set_uuid u (cleanup_modules cfg eid SS).
Proof. unfold cleanup_modules. simpl. by repeat case_match. Qed.

Lemma sstep_set_uuid cfg c p own u SS r :
  sstep cfg c p own (set_uuid u SS) r =
  (set_uuid u (sstep cfg c p own SS r).1.1, (sstep cfg c p own SS r).1.2, (sstep cfg c p own SS r).2).
Proof.
  destruct r; simpl; try reflexivity.
  all: repeat case_match; simplify_eq; simpl; rewrite ?cleanup_modules_uuid; try reflexivity.
  all: change (set_ents (delete eid) (set_store (store_delete_entity eid) (set_uuid u SS)))
         with (set_uuid u (set_ents (delete eid) (set_store (store_delete_entity eid) SS)));
       rewrite cleanup_modules_uuid; reflexivity.
Qed.

Lemma module_disconnect_uuid cfg own u SS :
  module_disconnect cfg own (set_uuid u SS) = set_uuid u (module_disconnect cfg own SS).
Proof. unfold module_disconnect. by repeat case_match. Qed.

Lemma remove_doomed_uuid cfg p l u SS :
  remove_doomed cfg p l (set_uuid u SS) =
  (set_uuid u (remove_doomed cfg p l SS).1, (remove_doomed cfg p l SS).2).
Proof.
  revert SS. induction l as [|eid l IH]; intros SS; [done|]. simpl.
  change (set_ents (delete eid) (set_store (store_delete_entity eid) (set_uuid u SS)))
    with (set_uuid u (set_ents (delete eid) (set_store (store_delete_entity eid) SS))).
  rewrite IH. by destruct (remove_doomed cfg p l _) as [S2 o2].
Qed.

Lemma left_session_set_uuid cfg c p own u SS :
  left_session cfg c p own (set_uuid u SS) = set_uuid u (left_session cfg c p own SS).
Proof.
  unfold left_session. cbv zeta. rewrite module_disconnect_uuid.
  change (set_store ?f (set_uuid u ?X)) with (set_uuid u (set_store f X)).
  change (doomed (set_uuid u ?X) own) with (doomed X own).
  rewrite remove_doomed_uuid. done.
Qed.

(* what a departure tells the remaining members *)
Definition leave_outs (cfg : config) (c p : N) (own : gset N) (SS : session) : list delivery :=
  let S2 := set_store (store_set_subs (fmap (λ s : gset N, s ∖ {[p]}))) (module_disconnect cfg own SS) in
  (if flag_on cfg F_ENTITY_DELETE_B then [] else flat_map (λ eid, broadcast SS p (MEntityDeleteB 0 eid)) (doomed S2 own)) ++
  (if flag_on cfg F_LEAVE_B then [] else broadcast (left_session cfg c p own SS) p (MLeaveB p)).

Lemma leave_outs_set_uuid cfg c p own u SS :
  leave_outs cfg c p own (set_uuid u SS) = leave_outs cfg c p own SS.
Proof.
  unfold leave_outs. cbv zeta. rewrite module_disconnect_uuid, left_session_set_uuid.
  change (set_store ?f (set_uuid u ?X)) with (set_uuid u (set_store f X)).
  change (doomed (set_uuid u ?X) own) with (doomed X own). done.
Qed.

Lemma entered_set_uuid u SS c : entered (set_uuid u SS) c = set_uuid u (entered SS c).
Proof. done. Qed.

(* what a newcomer and the members are told, apart from the join response itself *)
Definition enter_rest (cfg : config) (c ots : N) (SS : session) : list delivery :=
  let p := u32_succ (s_pgen SS) in
  (if flag_on cfg F_SESSION_STATE then [] else [(c, session_state_msg (entered SS c))]) ++
  ((if flag_on cfg F_JOIN_B then [] else broadcast (entered SS c) p (MJoinB ots p)) ++
   module_join_msgs cfg c (entered SS c)).
Lemma enter_rest_set_uuid cfg c ots u SS : enter_rest cfg c ots (set_uuid u SS) = enter_rest cfg c ots SS.
Proof. done. Qed.
Lemma module_join_msgs_set_uuid cfg c u SS : module_join_msgs cfg c (set_uuid u SS) = module_join_msgs cfg c SS.
Proof. done. Qed.

(* ================= exact effect of the building blocks ================= *)
Lemma leave_joined cfg st c cn sid p SS :
  conns st !! c = Some cn → c_cur cn = Some (sid, p) → sessions st !! sid = Some SS →
  let L := left_session cfg c p (c_own cn) SS in
  conns (leave cfg st c).1 = <[c := set_own (λ _, ∅) (set_cur None cn)]> (conns st) ∧
  sessions (leave cfg st c).1 =
    (if decide (s_parts L = ∅) then delete sid (sessions st) else <[sid := L]> (sessions st)) ∧
  (leave cfg st c).2 = leave_outs cfg c p (c_own cn) SS ∧
  next_uuid (leave cfg st c).1 = next_uuid st.
Proof.
  intros Hc Hcur HS L. split; [|split; [|split]].
  - rewrite (leave_unfold _ _ _ _ _ _ _ Hc Hcur HS). cbv zeta. fold L.
    case_decide; simpl; by rewrite Hc.
  - rewrite (leave_unfold _ _ _ _ _ _ _ Hc Hcur HS). cbv zeta. fold L.
    case_decide; simpl; done.
  - by rewrite (leave_outs_shape cfg st c cn sid p SS Hc Hcur HS).
  - apply leave_next_uuid.
Qed.

Lemma enter_joined cfg st c cn rid n ots SS :
  conns st !! c = Some cn → sessions st !! n = Some SS →
  let p := u32_succ (s_pgen SS) in
  conns (enter cfg st c rid n ots).1.1 =
    <[c := set_lat None (set_own (λ _, ∅) (set_cur (Some (n, p)) cn))]> (conns st) ∧
  sessions (enter cfg st c rid n ots).1.1 = <[n := entered SS c]> (sessions st) ∧
  (enter cfg st c rid n ots).1.2 = (c, MJoinResp rid n (s_uuid SS) p) :: enter_rest cfg c ots SS ∧
  (enter cfg st c rid n ots).2 = VOk ∧
  next_uuid (enter cfg st c rid n ots).1.1 = next_uuid st.
Proof.
  intros Hc HS p. unfold enter. rewrite HS. cbn [fst snd]. split; [|split; [|split; [|split]]]; try done.
  unfold upd_conn. simpl. by rewrite Hc.
Qed.

Lemma create_session_char hint st n st' :
  create_session hint st = (n, st') →
  conns st' = conns st ∧ sessions st' = <[n := session0 (next_uuid st + 1)]> (sessions st) ∧
  next_uuid st' = next_uuid st + 1.
Proof. unfold create_session. destruct (gen_new hint (sids st)). by intros [= <- <-]. Qed.

(* ================= the simulation relation ================= *)
(* queued requests correspond: literally, except that a join by id may name any id *)
Definition qrel (r1 r2 : req) : Prop :=
  r1 = r2 ∨ ∃ rid n n' ots, r1 = RJoin rid (SId n) ots ∧ r2 = RJoin rid (SId n') ots.

Lemma qrel_refl r : qrel r r.
Proof. by left. Qed.
Lemma Forall2_qrel_refl l : Forall2 qrel l l.
Proof. induction l; constructor; [apply qrel_refl|done]. Qed.

Record crel (cn1 cn2 : conn) : Prop := {
  cr_open : c_open cn1 = c_open cn2;
  cr_pid : snd <$> c_cur cn1 = snd <$> c_cur cn2;
  cr_own : c_own cn1 = c_own cn2;
  cr_queue : Forall2 qrel (c_queue cn1) (c_queue cn2);
  cr_pp : c_pposes cn1 = c_pposes cn2;
  cr_pc : c_pcomps cn1 = c_pcomps cn2;
  cr_lat1 : c_lat cn1 = None;
  cr_lat2 : c_lat cn2 = None
}.

Lemma crel_conn0 : crel conn0 conn0.
Proof. split; try done. constructor. Qed.

Record sim (A : list N) (st1 st2 : state) : Prop := {
  sim_conn : ∀ d, grp A d = true → option_Forall2 crel (conns st1 !! d) (conns st2 !! d);
  sim_only : ∀ d, grp A d = false → conns st2 !! d = None;
  sim_part : ∀ d e s p t q s' p' t' q', grp A d = true → grp A e = true →
     cur_of st1 d = Some (s, p) → cur_of st1 e = Some (t, q) →
     cur_of st2 d = Some (s', p') → cur_of st2 e = Some (t', q') → (s = t ↔ s' = t');
  sim_sess : ∀ d s p s' p', grp A d = true → cur_of st1 d = Some (s, p) → cur_of st2 d = Some (s', p') →
     ∃ S1 S2, sessions st1 !! s = Some S1 ∧ sessions st2 !! s' = Some S2 ∧ srel S1 S2
}.

(* the incarnation pairs seen so far are consistent with the sessions the group is in *)
Definition uuc (A : list N) (uu : list (N * N)) (st1 st2 : state) : Prop :=
  ∀ a b d s p s' p' S1 S2, (a, b) ∈ uu → grp A d = true →
    cur_of st1 d = Some (s, p) → cur_of st2 d = Some (s', p') →
    sessions st1 !! s = Some S1 → sessions st2 !! s' = Some S2 → (a = s_uuid S1 ↔ b = s_uuid S2).
Definition uub (uu : list (N * N)) (st1 st2 : state) : Prop :=
  ∀ a b, (a, b) ∈ uu → a ≤ next_uuid st1 ∧ b ≤ next_uuid st2.

(* connection-level consequences *)
Lemma sim_cur A st1 st2 d :
  sim A st1 st2 → grp A d = true → snd <$> cur_of st1 d = snd <$> cur_of st2 d.
Proof.
  intros S Hd. pose proof (sim_conn _ _ _ S d Hd) as H. unfold cur_of.
  destruct H as [cn1 cn2 H|]; simpl; [apply (cr_pid _ _ H)|done].
Qed.
Lemma sim_cur_Some A st1 st2 d s p :
  sim A st1 st2 → grp A d = true → cur_of st1 d = Some (s, p) → ∃ s', cur_of st2 d = Some (s', p).
Proof.
  intros S Hd H. pose proof (sim_cur _ _ _ d S Hd) as E. rewrite H in E. simpl in E.
  destruct (cur_of st2 d) as [[s' p']|]; simpl in E; [|done]. injection E as <-. eauto.
Qed.
Lemma sim_cur_Some2 A st1 st2 d s' p :
  sim A st1 st2 → grp A d = true → cur_of st2 d = Some (s', p) → ∃ s, cur_of st1 d = Some (s, p).
Proof.
  intros S Hd H. pose proof (sim_cur _ _ _ d S Hd) as E. rewrite H in E. simpl in E.
  destruct (cur_of st1 d) as [[s p']|]; simpl in E; [|done]. injection E as ->. eauto.
Qed.
Lemma sim_cur_None A st1 st2 d :
  sim A st1 st2 → grp A d = true → cur_of st1 d = None → cur_of st2 d = None.
Proof.
  intros S Hd H. pose proof (sim_cur _ _ _ d S Hd) as E. rewrite H in E. simpl in E.
  by destruct (cur_of st2 d).
Qed.

(* the frame lemma: memberships are kept, connection records stay related, the sessions of the group
   stay related under the same incarnation numbers *)
Lemma sim_frame A uu st1 st2 st1' st2' :
  sim A st1 st2 → uuc A uu st1 st2 →
  (∀ d, grp A d = true → cur_of st1' d = cur_of st1 d) →
  (∀ d, grp A d = true → cur_of st2' d = cur_of st2 d) →
  (∀ d, grp A d = true → option_Forall2 crel (conns st1' !! d) (conns st2' !! d)) →
  (∀ d, grp A d = false → conns st2' !! d = None) →
  (∀ d s p s' p' S1 S2, grp A d = true → cur_of st1 d = Some (s, p) → cur_of st2 d = Some (s', p') →
     sessions st1 !! s = Some S1 → sessions st2 !! s' = Some S2 → srel S1 S2 →
     ∃ S1' S2', sessions st1' !! s = Some S1' ∧ sessions st2' !! s' = Some S2' ∧ srel S1' S2' ∧
                s_uuid S1' = s_uuid S1 ∧ s_uuid S2' = s_uuid S2) →
  sim A st1' st2' ∧ uuc A uu st1' st2'.
Proof.
  intros S U C1 C2 Hc Ho Hs. split.
  - split; [done|done| |].
    + intros d e s p t q s' p' t' q' Hd He. rewrite (C1 d Hd), (C1 e He), (C2 d Hd), (C2 e He).
      by apply (sim_part _ _ _ S).
    + intros d s p s' p' Hd. rewrite (C1 d Hd), (C2 d Hd). intros H1 H2.
      destruct (sim_sess _ _ _ S d s p s' p' Hd H1 H2) as (S1&S2&E1&E2&R).
      destruct (Hs d s p s' p' S1 S2 Hd H1 H2 E1 E2 R) as (S1'&S2'&E1'&E2'&R'&_). eauto.
  - intros a b d s p s' p' S1' S2' Hab Hd. rewrite (C1 d Hd), (C2 d Hd). intros H1 H2 E1' E2'.
    destruct (sim_sess _ _ _ S d s p s' p' Hd H1 H2) as (S1&S2&E1&E2&R).
    destruct (Hs d s p s' p' S1 S2 Hd H1 H2 E1 E2 R) as (T1&T2&F1&F2&_&V1&V2).
    simplify_eq. rewrite V1, V2. by eapply (U a b d).
Qed.

(* ================= what is known of each run on its own ================= *)
Record good (k : N) (st : state) (m : members) : Prop := {
  g_inv : inv st;
  g_bnd : bounded k st;
  g_reg : reg st;
  g_fr : frames_inv st;
  g_ref : ∃ sp, refines_mem sp st ∧ m = sp_mem sp
}.

Lemma good_state0 : good 0 state0 ∅.
Proof.
  split; [apply inv_state0|apply bounded_state0|apply reg_state0|apply frames_state0|].
  exists spec0. split; [apply refines_state0|done].
Qed.
Lemma good_mem k st m c : good k st m → m !! c = cur_of st c.
Proof. intros [_ _ _ _ (sp&R&->)]. apply (rm_mem _ _ R). Qed.
Lemma good_mono k k' st m : good k st m → k ≤ k' → good k' st m.
Proof. intros [I B R F X] Hk. split; try done. by eapply bounded_mono. Qed.

Lemma event_of_eq cfg st o :
  event_of cfg st o = (ev_of st o (step cfg st o), (step cfg st o).1.1).
Proof. unfold event_of, ev_of. by destruct (step cfg st o) as [[st' outs] v]. Qed.

Lemma good_step cfg k st m o :
  good k st m → k + 1 < two32 →
  good (k + 1) (step cfg st o).1.1 (obs_step m (ev_of st o (step cfg st o))).
Proof.
  intros [I B R F (sp&X&->)] Hk.
  destruct (step_inv cfg st o k I B Hk) as [I1 B1].
  split; [done|done|by eapply step_reg|by eapply step_frames|].
  exists (spec_step sp (ev_of st o (step cfg st o))). split.
  - by apply (step_sim cfg st o k sp 0%nat I B Hk R X).
  - apply obs_step_spec. unfold ev_of. simpl. by apply step_verdict.
Qed.

(* run_from, one step at a time *)
Lemma run_from_cons cfg st o h :
  run_from cfg st (o :: h) =
  (ev_of st o (step cfg st o) :: (run_from cfg (step cfg st o).1.1 h).1, (run_from cfg (step cfg st o).1.1 h).2).
Proof.
  simpl. unfold ev_of. destruct (step cfg st o) as [[st1 outs] v]. simpl.
  by destruct (run_from cfg st1 h).
Qed.

(* ---------- separation is implied: the purged run has no connection outside the group ---------- *)
Lemma sim_sep A st1 st2 d e s p q :
  sim A st1 st2 → inv st1 → inv st2 → grp A d = true → grp A e = false →
  cur_of st1 d = Some (s, p) → cur_of st1 e = Some (s, q) → False.
Proof.
  intros S I1 I2 Hd He H1 H2.
  destruct (sim_cur_Some _ _ _ d s p S Hd H1) as [s' H1'].
  destruct (sim_sess _ _ _ S d s p s' p Hd H1 H1') as (S1&S2&E1&E2&R).
  assert (Hq : s_parts S1 !! q = Some e).
  { apply (inv_parts _ I1 s (s_parts S1) q e); [unfold parts_of; by rewrite E1|done]. }
  rewrite <- (srel_parts _ _ R) in Hq.
  apply (inv_parts _ I2 s' (s_parts S2) q e) in Hq; [|unfold parts_of; by rewrite E2].
  unfold cur_of in Hq. rewrite (sim_only _ _ _ S e He) in Hq. done.
Qed.

(* every session of the purged run has a member of the group *)
Lemma sim_live2 A st1 st2 s' S2 :
  sim A st1 st2 → inv st2 → sessions st2 !! s' = Some S2 →
  ∃ d p, grp A d = true ∧ cur_of st2 d = Some (s', p).
Proof.
  intros S I2 E2.
  assert (Hps : parts_of st2 s' = Some (s_parts S2)) by (unfold parts_of; by rewrite E2).
  pose proof (inv_nonempty _ I2 s' _ Hps) as Hne.
  apply map_choose in Hne as (p&d&Hp).
  apply (inv_parts _ I2 s' _ p d Hps) in Hp. exists d, p. split; [|done].
  destruct (grp A d) eqn:Hd; [done|]. unfold cur_of in Hp. by rewrite (sim_only _ _ _ S d Hd) in Hp.
Qed.

(* members of a session, from the registry *)
Lemma inv_session_member st s SS :
  inv st → sessions st !! s = Some SS → ∃ d p, cur_of st d = Some (s, p).
Proof.
  intros I E.
  assert (Hps : parts_of st s = Some (s_parts SS)) by (unfold parts_of; by rewrite E).
  pose proof (inv_nonempty _ I s _ Hps) as Hne.
  apply map_choose in Hne as (p&d&Hp).
  apply (inv_parts _ I s _ p d Hps) in Hp. eauto.
Qed.
Lemma inv_cur_session st d s p :
  inv st → cur_of st d = Some (s, p) → ∃ SS, sessions st !! s = Some SS ∧ s_parts SS !! p = Some d.
Proof.
  intros I H. destruct (live_session _ _ (inv_live _ I _ _ _ H)) as [SS E]. exists SS. split; [done|].
  apply (inv_parts _ I s (s_parts SS) p d); [unfold parts_of; by rewrite E|done].
Qed.

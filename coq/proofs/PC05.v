(* proofs/PC05.v — only the creator can delete, move or attach an asset (C05). *)
From stdpp Require Import relations.
From hagall Require Import Model.
From hagall.proofs Require Import BaseLemmas Relay Inv Session Local Trans WF Mono Reach.
From Coq Require Import Lia.

Section c05.
  Context (cfg : config) (h : list op) (c : N) (cn : conn) (sid p : N) (SS : session).
  Hypothesis Hshort : short h.
  Hypothesis Hm : member_of cfg h c cn sid p SS.
  Let st := final cfg h.

  Lemma c05_delete_foreign rid eid ots e hint :
    s_ents SS !! eid = Some e → e_owner e ≠ p →
    handle cfg st c (REntityDelete rid eid ots) hint = (st, [(c, MError rid E_UNAUTHORIZED)], VOk).
  Proof.
    intros He Ho. unfold st. rewrite (member_step cfg h c cn sid p SS (REntityDelete rid eid ots) hint Hm eq_refl).
    rewrite (entity_delete_foreign cfg c p (c_own cn) SS rid eid ots e He Ho).
    destruct Hm. by apply apply_sstep_same.
  Qed.

  Lemma c05_pose_foreign eid po ots hint :
    (s_ents SS !! eid = None ∨ po = None ∨ ∃ e, s_ents SS !! eid = Some e ∧ e_owner e ≠ p) →
    handle cfg st c (RPose eid po ots) hint = (st, [], VOk).
  Proof.
    intros H. unfold st. rewrite (member_step cfg h c cn sid p SS (RPose eid po ots) hint Hm eq_refl).
    rewrite (pose_dropped cfg c p (c_own cn) SS eid po ots H).
    destruct Hm. by apply apply_sstep_same.
  Qed.

  Lemma c05_asset_foreign rid eid aid ots e hint :
    cfg_odal cfg = true → aid ≠ 0 → s_ents SS !! eid = Some e → e_owner e ≠ p →
    handle cfg st c (RAssetAdd rid eid aid ots) hint = (st, [(c, MError rid E_UNAUTHORIZED)], VOk).
  Proof.
    intros Ho Ha He Hne. unfold st. rewrite (member_step cfg h c cn sid p SS (RAssetAdd rid eid aid ots) hint Hm eq_refl).
    rewrite (asset_foreign cfg c p (c_own cn) SS rid eid aid ots e Ho Ha He Hne).
    destruct Hm. by apply apply_sstep_same.
  Qed.

  (* the participant id the next joiner of this session is handed is not, and never was, the owner
     of any entity of the session: ownership cannot be acquired later *)
  Lemma c05_next_pid_owns_nothing e ent :
    s_ents SS !! e = Some ent → e_owner ent < u32_succ (s_pgen SS) ∧ s_pgen (entered SS c) = u32_succ (s_pgen SS).
  Proof.
    intros He. destruct (member_facts cfg h c cn sid p SS Hshort Hm) as (_&_&W).
    destruct W as [W1 _ W3 _ _ _ _ _ _ _ _ _]. destruct (W3 _ _ He) as [_ H].
    unfold short, two32 in Hshort. rewrite u32_succ_small by (unfold two32; lia). split; [lia|]. unfold entered. simpl. apply u32_succ_small. unfold two32. lia.
  Qed.
End c05.

(* the id handed to a joiner is the successor of the session's participant counter *)
Lemma enter_pid cfg st c rid n ots SS :
  sessions st !! n = Some SS →
  ∃ rest, (enter cfg st c rid n ots).1.2 = (c, MJoinResp rid n (s_uuid SS) (u32_succ (s_pgen SS))) :: rest.
Proof. intros HS. unfold enter. rewrite HS. simpl. eauto. Qed.

(* proofs/PC14.v — custom messages reach exactly the addressed members (C14). *)
From hagall Require Import Model.
From hagall.proofs Require Import BaseLemmas Relay Inv Session.
From Coq Require Import Lia.

(* the participants a custom message addresses *)
Definition c14_target (SS : session) (p : N) (rcpts : list N) (q : N) : Prop :=
  is_Some (s_parts SS !! q) ∧ q ≠ p ∧ (rcpts = [] ∨ q ∈ rcpts).

Lemma custom_session_step cfg c p own SS rcpts body ots :
  flag_on cfg F_CUSTOM_B = false → N.of_nat (length body) ≤ custom_max →
  ∃ outs, sstep cfg c p own SS (RCustom rcpts body ots) = (SS, own, outs) ∧
    (∀ cq m, (cq, m) ∈ outs ↔ m = MCustomB ots p body ∧ ∃ q, c14_target SS p rcpts q ∧ s_parts SS !! q = Some cq) ∧
    (parts_injective SS → NoDup (map fst outs)) ∧
    (∀ c0, parts_injective SS → s_parts SS !! p = Some c0 → c0 ∉ map fst outs).
Proof.
  intros Hf Hlen. simpl. rewrite Hf.
  destruct (custom_max <? N.of_nat (length body)) eqn:E; [apply N.ltb_lt in E; lia|].
  destruct rcpts as [|r rs].
  - eexists. split; [done|]. split; [|split].
    + intros cq m. rewrite broadcast_spec. unfold c14_target. split.
      * intros (->&q&H1&H2). split; [done|]. exists q. split; [|done]. split; [by eexists|]. split; [done|by left].
      * intros (->&q&(_&H2&_)&H3). split; [done|]. by exists q.
    + apply broadcast_recipients_NoDup.
    + intros c0 Hi Hp. by apply broadcast_not_sender.
  - eexists. split; [done|]. split; [|split].
    + intros cq m. rewrite broadcast_to_spec. unfold c14_target. split.
      * intros (->&q&H1&H2&H3). split; [done|]. exists q. split; [|done]. split; [by eexists|]. split; [done|by right].
      * intros (->&q&(_&H2&[H3|H3])&H4); [done|]. split; [done|]. by exists q.
    + apply broadcast_to_recipients_NoDup.
    + intros c0 Hi Hp. by apply broadcast_to_not_sender.
Qed.

(* every reachable state, every body within the limit, every recipient list *)
Lemma c14_delivery cfg h c cn sid p SS rcpts body ots hint :
  N.of_nat (length h) < two32 → let st := final cfg h in
  conns st !! c = Some cn → c_cur cn = Some (sid, p) → sessions st !! sid = Some SS →
  flag_on cfg F_CUSTOM_B = false → N.of_nat (length body) ≤ custom_max →
  ∃ outs, handle cfg st c (RCustom rcpts body ots) hint = (st, outs, VOk) ∧
    (∀ cq m, (cq, m) ∈ outs ↔ m = MCustomB ots p body ∧ ∃ q, c14_target SS p rcpts q ∧ s_parts SS !! q = Some cq) ∧
    NoDup (map fst outs) ∧ c ∉ map fst outs.
Proof.
  intros Hb st Hc Hcur HS Hf Hlen.
  pose proof (final_inv cfg h Hb) as I. fold st in I.
  destruct (inv_member st c cn sid p SS I Hc Hcur HS) as [Hp Hinj].
  destruct (custom_session_step cfg c p (c_own cn) SS rcpts body ots Hf Hlen) as (outs&E&H1&H2&H3).
  exists outs. rewrite (handle_local cfg st c cn sid p SS (RCustom rcpts body ots) hint Hc Hcur HS eq_refl), E.
  unfold apply_sstep. simpl. rewrite put_session_id by done. rewrite upd_conn_own_id by done.
  split; [done|]. split; [done|]. split; [by apply H2|by apply H3].
Qed.

Lemma c14_too_large cfg h c cn sid p SS rcpts body ots hint :
  let st := final cfg h in
  conns st !! c = Some cn → c_cur cn = Some (sid, p) → sessions st !! sid = Some SS →
  custom_max < N.of_nat (length body) →
  handle cfg st c (RCustom rcpts body ots) hint = (st, [(c, MError 0 E_TOO_LARGE)], VOk).
Proof.
  intros st Hc Hcur HS Hlen.
  rewrite (handle_local cfg st c cn sid p SS (RCustom rcpts body ots) hint Hc Hcur HS eq_refl). simpl.
  apply N.ltb_lt in Hlen. rewrite Hlen. unfold apply_sstep. simpl.
  rewrite put_session_id by done. by rewrite upd_conn_own_id.
Qed.

(* a connection that is in no session: never executed; the handler fails and the connection is ended *)
Lemma c14_unjoined cfg st c cn rcpts body ots hint :
  conns st !! c = Some cn → c_cur cn = None →
  handle cfg st c (RCustom rcpts body ots) hint = (st, [], VErr).
Proof. intros Hc Hcur. unfold handle. by rewrite Hc, Hcur. Qed.

(* non-vacuity: a reachable state with three members in which a targeted message is delivered *)
Definition c14_demo : list op :=
  [OConnect 1; OConnect 2; OConnect 3;
   OSend 1 (RJoin 1 SNew 1); OStep 1 0; OSend 2 (RJoin 2 (SId 1) 2); OStep 2 0; OSend 3 (RJoin 3 (SId 1) 3); OStep 3 0].

(* proofs/Trans.v — how one step of the model changes the session registered under a given id:
   the per-session transition relation, and the theorem that every step is a (short) chain of
   such transitions for every id.  Per-session invariants are then proved once per transition kind. *)
From stdpp Require Import relations.
From hagall Require Import Model.
From hagall.proofs Require Import BaseLemmas Relay Inv Session.
From Coq Require Import Lia.

(* the session after connection [c] has entered it *)
Definition entered (SS : session) (c : N) : session :=
  let p := u32_succ (s_pgen SS) in
  set_frames (λ f, f ∪ {[c]}) (set_parts (<[p := c]>) (set_pgen p SS)).

Inductive sess_trans (cfg : config) : option session → option session → Prop :=
| st_local SS c p own r :
    session_local r = true → s_parts SS !! p = Some c →
    sess_trans cfg (Some SS) (Some (sstep cfg c p own SS r).1.1)
| st_left SS c p own :
    s_parts SS !! p = Some c → s_parts (left_session cfg c p own SS) ≠ ∅ →
    sess_trans cfg (Some SS) (Some (left_session cfg c p own SS))
| st_ended SS c p own :
    s_parts SS !! p = Some c → s_parts (left_session cfg c p own SS) = ∅ →
    sess_trans cfg (Some SS) None
| st_created uuid : sess_trans cfg None (Some (session0 uuid))
| st_entered SS c : sess_trans cfg (Some SS) (Some (entered SS c)).

(* at most [n] transitions *)
Definition sess_chain (cfg : config) (n : nat) (a b : option session) : Prop :=
  ∃ m, (m ≤ n)%nat ∧ nsteps (sess_trans cfg) m a b.

(* ---------- the registry after each building block ---------- *)
Lemma sessions_upd_conn' st c f : sessions (upd_conn c f st) = sessions st.
Proof. done. Qed.

Lemma leave_sessions cfg st c :
  inv st →
  (∃ cn sid p SS, conns st !! c = Some cn ∧ c_cur cn = Some (sid, p) ∧ sessions st !! sid = Some SS ∧
     s_parts SS !! p = Some c ∧
     sessions (leave cfg st c).1 =
       if decide (s_parts (left_session cfg c p (c_own cn) SS) = ∅) then delete sid (sessions st)
       else <[sid := left_session cfg c p (c_own cn) SS]> (sessions st)) ∨
  (cur_of st c = None ∧ (leave cfg st c).1 = st).
Proof.
  intros I. destruct (cur_of st c) as [[sid p]|] eqn:Hcur.
  - left. unfold cur_of in Hcur. destruct (conns st !! c) as [cn|] eqn:Hc; [|done]. simpl in Hcur.
    assert (Hcur0 : cur_of st c = Some (sid, p)) by (unfold cur_of; by rewrite Hc).
    destruct (live_session _ _ (inv_live _ I _ _ _ Hcur0)) as [SS HS].
    exists cn, sid, p, SS. split; [done|]. split; [done|]. split; [done|].
    split. { apply (inv_parts _ I sid (s_parts SS) p c); [unfold parts_of; by rewrite HS|done]. }
    rewrite (leave_unfold _ _ _ _ _ _ _ Hc Hcur HS). cbv zeta. by case_decide.
  - right. split; [done|]. by apply leave_not_joined.
Qed.

Lemma enter_sessions cfg st c rid n ots SS :
  sessions st !! n = Some SS →
  sessions (enter cfg st c rid n ots).1.1 = <[n := entered SS c]> (sessions st).
Proof. intros HS. unfold enter. rewrite HS. done. Qed.

Lemma create_sessions hint st n st' :
  create_session hint st = (n, st') → sessions st' = <[n := session0 (next_uuid st + 1)]> (sessions st) ∧ conns st' = conns st.
Proof. unfold create_session. destruct (gen_new hint (sids st)). by intros [= <- <-]. Qed.

(* ---------- chains ---------- *)
Lemma chain_refl cfg n o : sess_chain cfg n o o.
Proof. exists 0%nat. split; [lia|constructor]. Qed.
Lemma chain_once cfg a b : sess_trans cfg a b → sess_chain cfg 1 a b.
Proof. intros H. exists 1%nat. split; [lia|by apply nsteps_once]. Qed.
Lemma chain_weaken cfg n n' a b : (n ≤ n')%nat → sess_chain cfg n a b → sess_chain cfg n' a b.
Proof. intros Hn (m&Hm&H). exists m. split; [lia|done]. Qed.
Lemma chain_trans cfg n m a b c : sess_chain cfg n a b → sess_chain cfg m b c → sess_chain cfg (n + m) a c.
Proof. intros (n'&Hn&H1) (m'&Hm&H2). exists (n' + m')%nat. split; [lia|by eapply nsteps_trans]. Qed.
Lemma chain_step cfg n a b c : sess_chain cfg n a b → sess_trans cfg b c → sess_chain cfg (S n) a c.
Proof. intros H1 H2. replace (S n) with (n + 1)%nat by lia. eapply chain_trans; [done|by apply chain_once]. Qed.

Lemma leave_chain cfg st c sid :
  inv st → sess_chain cfg 1 (sessions st !! sid) (sessions (leave cfg st c).1 !! sid).
Proof.
  intros I. destruct (leave_sessions cfg st c I) as [(cn&s&p&SS&Hc&Hcur&HS&Hp&E)|[_ E]]; [|rewrite E; apply chain_refl].
  rewrite E. case_decide as He.
  - destruct (decide (sid = s)) as [->|Hne].
    + rewrite lookup_delete, HS. apply chain_once. by eapply st_ended.
    + rewrite lookup_delete_ne by done. apply chain_refl.
  - destruct (decide (sid = s)) as [->|Hne].
    + rewrite lookup_insert, HS. apply chain_once. by eapply st_left.
    + rewrite lookup_insert_ne by done. apply chain_refl.
Qed.

Lemma join_chain cfg st c rid s ots hint sid :
  inv st → nowrap st → sess_chain cfg 3 (sessions st !! sid) (sessions (join cfg st c rid s ots hint).1.1 !! sid).
Proof.
  intros I W. unfold join. destruct (conns st !! c) as [cn|] eqn:Hc; [|apply chain_refl].
  destruct (already_joined cn s); [apply chain_refl|].
  pose proof (leave_chain cfg st c sid I) as H1.
  pose proof (inv_leave cfg st c I) as I1.
  pose proof (leave_nowrap cfg st c I W) as W1.
  destruct (leave cfg st c) as [st1 o1]. simpl in *.
  destruct s as [|n|k]; [| |eapply chain_weaken; [|exact H1]; lia].
  - destruct (create_session hint st1) as [n st2] eqn:Hcr.
    destruct (create_sessions _ _ _ _ Hcr) as [E2 _].
    assert (HS2 : sessions st2 !! n = Some (session0 (next_uuid st1 + 1))) by (rewrite E2; by rewrite lookup_insert).
    pose proof (enter_sessions cfg st2 c rid n ots _ HS2) as E3.
    destruct (enter cfg st2 c rid n ots) as [[st3 o2] v]. simpl in *. rewrite E3, E2.
    destruct (decide (sid = n)) as [->|Hne].
    + rewrite lookup_insert. eapply (chain_step cfg 2); [|apply st_entered].
      destruct (sessions st1 !! n) as [S0|] eqn:E0.
      * (* the id handed out is free *)
        exfalso. destruct (create_session_proj _ _ _ _ I1 W1 Hcr) as (Hfresh&_).
        unfold parts_of in Hfresh. by rewrite E0 in Hfresh.
      * eapply (chain_step cfg 1); [exact H1|apply st_created].
    + rewrite !lookup_insert_ne by done. eapply chain_weaken; [|exact H1]. lia.
  - destruct (sessions st1 !! n) as [SS|] eqn:HS; [|eapply chain_weaken; [|exact H1]; lia].
    pose proof (enter_sessions cfg st1 c rid n ots _ HS) as E3.
    destruct (enter cfg st1 c rid n ots) as [[st2 o2] v]. simpl in *. rewrite E3.
    destruct (decide (sid = n)) as [->|Hne].
    + rewrite lookup_insert. eapply chain_weaken; [|eapply chain_step; [exact H1|]]; [lia|]. rewrite HS. apply st_entered.
    + rewrite lookup_insert_ne by done. eapply chain_weaken; [|exact H1]. lia.
Qed.

Lemma on_ping_sessions st c cn rid : sessions (on_ping st c cn rid).1.1 = sessions st.
Proof. unfold on_ping, send_ping. repeat case_match; simplify_eq; simpl; done. Qed.

Lemma handle_joined_other cfg st c cn sid p SS r hint :
  session_local r = false → is_join r = false →
  sessions (handle_joined cfg st c cn sid p SS r hint).1.1 = sessions st.
Proof.
  intros Hl Hj. destruct r; try discriminate Hl; try discriminate Hj; simpl.
  all: try (repeat case_match; simplify_eq; simpl; done).
  all: try apply on_ping_sessions.
  all: try (unfold send_ping; repeat case_match; simplify_eq; simpl; done).
Qed.
Lemma handle_unjoined_other cfg st c cn r hint :
  is_join r = false → sessions (handle_unjoined cfg st c cn r hint).1.1 = sessions st.
Proof.
  intros Hj. destruct r; try discriminate Hj; simpl; repeat case_match; simplify_eq; simpl; done.
Qed.

Lemma handle_chain cfg st c r hint sid :
  inv st → nowrap st → sess_chain cfg 3 (sessions st !! sid) (sessions (handle cfg st c r hint).1.1 !! sid).
Proof.
  intros I W. unfold handle. destruct (conns st !! c) as [cn|] eqn:Hc; [|apply chain_refl].
  destruct (c_cur cn) as [[s p]|] eqn:Hcur.
  - destruct (sessions st !! s) as [SS|] eqn:HS; [|apply chain_refl].
    destruct (is_join r) eqn:Hj.
    { destruct r; try discriminate Hj. simpl. by apply join_chain. }
    destruct (session_local r) eqn:Hl.
    + rewrite (handle_joined_sstep cfg st c cn s p SS r hint Hl Hc HS). unfold apply_sstep. simpl.
      destruct (inv_member st c cn s p SS I Hc Hcur HS) as [Hp _].
      destruct (decide (sid = s)) as [->|Hne].
      * rewrite lookup_insert, HS. eapply chain_weaken; [|apply chain_once; by apply st_local]. lia.
      * rewrite lookup_insert_ne by done. apply chain_refl.
    + rewrite handle_joined_other by done. apply chain_refl.
  - destruct (is_join r) eqn:Hj.
    { destruct r; try discriminate Hj. simpl. by apply join_chain. }
    rewrite handle_unjoined_other by done. apply chain_refl.
Qed.

Lemma disconnect_chain cfg st c sid :
  inv st → sess_chain cfg 1 (sessions st !! sid) (sessions (disconnect cfg st c).1 !! sid).
Proof.
  intros I. unfold disconnect. pose proof (leave_chain cfg st c sid I) as H.
  destruct (leave cfg st c) as [st1 o]. done.
Qed.

Lemma tick_sessions st sid : sessions (tick st sid) = sessions st.
Proof. unfold tick. by destruct (sessions st !! sid). Qed.

(* every step, for every session id: a chain of per-session transitions *)
Theorem step_chain cfg st o k sid :
  inv st → bounded k st → k + 1 < two32 →
  sess_chain cfg 4 (sessions st !! sid) (sessions (step cfg st o).1.1 !! sid).
Proof.
  intros I B Hk. pose proof (bounded_nowrap _ _ B Hk) as W.
  destruct o as [c|c r|c hint|s|c|]; simpl; try apply chain_refl.
  - destruct (conns st !! c); apply chain_refl.
  - unfold dispatch. destruct (conns st !! c) as [cn|] eqn:Hc; [|apply chain_refl].
    destruct (c_open cn); [|apply chain_refl]. simpl.
    destruct r; simpl; try apply chain_refl.
    destruct (ty =? 14); [|apply chain_refl].
    pose proof (disconnect_chain cfg st c sid I) as H. destruct (disconnect cfg st c). eapply chain_weaken; [|exact H]. lia.
  - destruct (conns st !! c) as [cn|] eqn:Hc; [|apply chain_refl].
    destruct (c_open cn) eqn:Ho; [|apply chain_refl]. simpl.
    destruct (c_queue cn) as [|r q] eqn:Hq; [apply chain_refl|].
    set (st0 := upd_conn c (set_queue q) st).
    assert (Hs0 : same_mem st st0) by (apply same_mem_upd_conn; by intros []).
    assert (I0 : inv st0) by by eapply inv_same_mem.
    assert (B0 : bounded k st0) by by eapply bounded_same_mem.
    assert (W0 : nowrap st0) by by eapply bounded_nowrap.
    assert (Ho0 : open_of st0 c = Some true).
    { destruct Hs0 as (_&H2&_). rewrite H2. unfold open_of. by rewrite Hc; simpl; rewrite Ho. }
    pose proof (handle_chain cfg st0 c r hint sid I0 W0) as H1.
    destruct (handle_inv cfg st0 c r hint k I0 B0 Hk Ho0) as [I1 _].
    destruct (handle cfg st0 c r hint) as [[st1 o1] v]. simpl in *.
    destruct v; try (eapply chain_weaken; [|exact H1]; lia).
    pose proof (disconnect_chain cfg st1 c sid I1) as H2.
    destruct (disconnect cfg st1 c). simpl in *. apply (chain_trans cfg 3 1 _ _ _ H1 H2).
  - rewrite tick_sessions. apply chain_refl.
  - destruct (conns st !! c) as [cn|] eqn:Hc; [|apply chain_refl].
    destruct (c_open cn); [|apply chain_refl]. simpl.
    pose proof (disconnect_chain cfg st c sid I) as H. destruct (disconnect cfg st c). eapply chain_weaken; [|exact H]. lia.
Qed.

(* invariants of single sessions, indexed by a budget that grows by one per transition, lift to every
   reachable state: after n operations the budget is at most 4n *)
Theorem reachable_sessions cfg (P : N → session → Prop) :
  (∀ k k' SS, k ≤ k' → P k SS → P k' SS) →
  (∀ uuid, P 0 (session0 uuid)) →
  (∀ k a b SS SS', a = Some SS → b = Some SS' → sess_trans cfg a b → k + 1 < two32 → P k SS → P (k + 1) SS') →
  ∀ h, 4 * N.of_nat (length h) < two32 →
  ∀ sid SS, sessions (final cfg h) !! sid = Some SS → P (4 * N.of_nat (length h)) SS.
Proof.
  intros Hmono H0 Hstep.
  assert (Hn : ∀ m a b, nsteps (sess_trans cfg) m a b → ∀ k, k + N.of_nat m < two32 →
            (∀ SS, a = Some SS → P k SS) → ∀ SS, b = Some SS → P (k + N.of_nat m) SS).
  { intros m a b Hc. induction Hc as [x|m x y z Hxy Hyz IH]; intros k Hk Hx.
    - intros SS E. rewrite N.add_0_r. by apply Hx.
    - rewrite Nat2N.inj_succ in *. replace (k + N.succ (N.of_nat m)) with (k + 1 + N.of_nat m) by lia.
      apply IH; [lia|]. intros SS' ->.
      inversion Hxy; subst; try (eapply Hstep; [reflexivity|reflexivity|exact Hxy|lia|apply Hx; reflexivity]).
      eapply Hmono; [|apply H0]. lia. }
  intros h. unfold final. rewrite run_from_final.
  assert (G : ∀ h st k j, inv st → bounded k st → k + N.of_nat (length h) < two32 →
            j + 4 * N.of_nat (length h) < two32 →
            (∀ sid SS, sessions st !! sid = Some SS → P j SS) →
            ∀ sid SS, sessions (fold_left (λ s o, (step cfg s o).1.1) h st) !! sid = Some SS →
                      P (j + 4 * N.of_nat (length h)) SS).
  { clear h. induction h as [|o h IH]; intros st k j I B Hk Hj HP.
    - intros sid SS HS. simpl. rewrite N.add_0_r. by eapply HP.
    - cbn [fold_left length] in *. rewrite Nat2N.inj_succ in *.
      destruct (step_inv cfg st o k I B) as [I1 B1]; [lia|].
      replace (j + 4 * N.succ (N.of_nat (length h))) with (j + 4 + 4 * N.of_nat (length h)) by lia.
      apply (IH _ (k + 1) (j + 4) I1 B1); [lia|lia|].
      intros sid SS HS.
      destruct (step_chain cfg st o k sid I B ltac:(lia)) as (m&Hm&Hc).
      eapply Hmono; [|eapply (Hn _ _ _ Hc j); [lia| |exact HS]]; [lia|].
      intros SS0 H. by apply (HP sid). }
  intros Hb sid SS HS.
  replace (4 * N.of_nat (length h)) with (0 + 4 * N.of_nat (length h)) by lia.
  eapply (G h state0 0 0 inv_state0 bounded_state0); [lia|lia| |exact HS].
  intros sid' SS'. simpl. by rewrite lookup_empty.
Qed.

(* proofs/RefSched.v — predicate soundness for the predicates that carry PER-CONNECTION observer state (Preds2.v):
   part 1: the generic machinery (the stateful scan [xscan] along a history, what every operation of Model.step does
   to the connection records, which messages an operation can emit) and P_C18 (signed latency): the predicate's
   own bookkeeping [c18st] is related to the model's [c_lat] after every prefix, and the model's own traces are never
   flagged by P_C18, all clauses 1801-1815 and 1899.
   Part 2 (P_C11) is in proofs/RefSched2.v, RefSched3.v. *)
From stdpp Require Import relations sorting.
From hagall Require Import Model Spec Obs Preds Preds2.
From hagall.proofs Require Import BaseLemmas Relay Inv Session Local Trans WF Mono Reach PC02 PC06 PC07 PC11 PC18 Own
  Refine Refine2 Refine3 Refine4 Refine5 RefComp RefComp2 RefComp3 RefComp4.
From Coq Require Import Lia.

(* ================= the stateful scan along a trace ================= *)
Fixpoint xstate {St A} (f : nat → spec → spec → St → event → St * list A) (i : nat) (sp : spec) (s : St) (t : trace) : St :=
  match t with
  | [] => s
  | e :: t' => let sp' := spec_step sp e in xstate f (S i) sp' (f i sp sp' s e).1 t'
  end.

Lemma xscan_snoc {St A} (f : nat → spec → spec → St → event → St * list A) i sp s t e :
  xscan f i sp s (t ++ [e]) =
  xscan f i sp s t ++
  (f (i + length t)%nat (fold_left spec_step t sp) (spec_step (fold_left spec_step t sp) e) (xstate f i sp s t) e).2.
Proof.
  revert i sp s. induction t as [|e0 t IH]; intros i sp s; simpl.
  - rewrite Nat.add_0_r. destruct (f i sp (spec_step sp e) s e) as [s' out]. simpl. by rewrite app_nil_r.
  - destruct (f i sp (spec_step sp e0) s e0) as [s' out] eqn:E. simpl. rewrite IH, <- app_assoc.
    by rewrite Nat.add_succ_r.
Qed.
Lemma xstate_snoc {St A} (f : nat → spec → spec → St → event → St * list A) i sp s t e :
  xstate f i sp s (t ++ [e]) =
  (f (i + length t)%nat (fold_left spec_step t sp) (spec_step (fold_left spec_step t sp) e) (xstate f i sp s t) e).1.
Proof.
  revert i sp s. induction t as [|e0 t IH]; intros i sp s; simpl.
  - by rewrite Nat.add_0_r.
  - rewrite IH. by rewrite Nat.add_succ_r.
Qed.

(* ================= what an operation does to the connection records ================= *)
(* everything of a connection record but the own-set *)
Definition cv (cn : conn) : bool * option (N * N) * list req * gmap N req * gmap (N * N) req * option latency :=
  (c_open cn, c_cur cn, c_queue cn, c_pposes cn, c_pcomps cn, c_lat cn).

Lemma cv_eq a b :
  cv a = cv b ↔ c_open a = c_open b ∧ c_cur a = c_cur b ∧ c_queue a = c_queue b ∧ c_pposes a = c_pposes b ∧
                c_pcomps a = c_pcomps b ∧ c_lat a = c_lat b.
Proof. unfold cv. split; [by intros [= ? ? ? ? ? ?]|by intros (->&->&->&->&->&->)]. Qed.

Lemma conns_upd_conn st c f c' :
  conns (upd_conn c f st) !! c' = if decide (c' = c) then f <$> conns st !! c else conns st !! c'.
Proof.
  unfold upd_conn. simpl. destruct (conns st !! c) as [cn|] eqn:E.
  - case_decide as Hd; [subst; by rewrite lookup_insert|by rewrite lookup_insert_ne].
  - case_decide as Hd; [by subst|done].
Qed.
Lemma conns_upd_conn_ne st c f c' : c' ≠ c → conns (upd_conn c f st) !! c' = conns st !! c'.
Proof. intros H. rewrite conns_upd_conn. by rewrite decide_False. Qed.
Lemma conns_upd_conn_eq st c f : conns (upd_conn c f st) !! c = f <$> conns st !! c.
Proof. rewrite conns_upd_conn. by rewrite decide_True. Qed.

(* [ctrans g st st']: the connection records of [st'] are those of [st] transformed by [g] (own-sets aside) *)
Definition ctrans (g : N → conn → conn) (st st' : state) : Prop :=
  ∀ c, cv <$> conns st' !! c = (λ cn, cv (g c cn)) <$> conns st !! c.
Definition cid : N → conn → conn := λ _ cn, cn.
Definition at_conn (c : N) (f : conn → conn) : N → conn → conn := λ c' cn, if decide (c' = c) then f cn else cn.

Lemma ctrans_conns st st' : conns st' = conns st → ctrans cid st st'.
Proof. intros H c. by rewrite H. Qed.
Lemma ctrans_src g st st0 st' : conns st0 = conns st → ctrans g st0 st' → ctrans g st st'.
Proof. intros H T c. rewrite (T c). by rewrite H. Qed.
Lemma ctrans_refl st : ctrans cid st st.
Proof. by apply ctrans_conns. Qed.
Lemma ctrans_ext g g' st st' :
  (∀ c cn, conns st !! c = Some cn → cv (g c cn) = cv (g' c cn)) → ctrans g st st' → ctrans g' st st'.
Proof. intros H T c. rewrite (T c). destruct (conns st !! c) as [cn|] eqn:E; simpl; [|done]. by rewrite (H c cn E). Qed.
Lemma ctrans_trans g1 g2 st st1 st2 :
  (∀ c a b, cv a = cv b → cv (g2 c a) = cv (g2 c b)) →
  ctrans g1 st st1 → ctrans g2 st1 st2 → ctrans (λ c cn, g2 c (g1 c cn)) st st2.
Proof.
  intros Hg T1 T2 c. rewrite (T2 c). specialize (T1 c).
  destruct (conns st1 !! c) as [cn1|], (conns st !! c) as [cn|]; simpl in *; try done.
  f_equal. apply Hg. congruence.
Qed.
Lemma ctrans_upd_conn st c f : ctrans (at_conn c f) st (upd_conn c f st).
Proof.
  intros c'. rewrite conns_upd_conn. unfold at_conn. case_decide as Hd; [subst|done].
  by destruct (conns st !! c).
Qed.
Lemma ctrans_upd_conn_own st c f : (∀ cn, cv (f cn) = cv cn) → ctrans cid st (upd_conn c f st).
Proof.
  intros Hf. eapply ctrans_ext; [|apply ctrans_upd_conn]. intros c' cn _. unfold at_conn, cid. by case_decide.
Qed.
Lemma at_conn_cv c f c' a b : (∀ a b, cv a = cv b → cv (f a) = cv (f b)) → cv a = cv b → cv (at_conn c f c' a) = cv (at_conn c f c' b).
Proof. intros Hf H. unfold at_conn. case_decide; [by apply Hf|done]. Qed.

(* using a [ctrans] fact: the record before, given the record after *)
Lemma ctrans_inv g st st' c cn' :
  ctrans g st st' → conns st' !! c = Some cn' → ∃ cn, conns st !! c = Some cn ∧ cv cn' = cv (g c cn).
Proof.
  intros T H. specialize (T c). rewrite H in T. destruct (conns st !! c) as [cn|]; [|done].
  exists cn. split; [done|]. simpl in T. congruence.
Qed.
Lemma ctrans_fwd g st st' c cn :
  ctrans g st st' → conns st !! c = Some cn → ∃ cn', conns st' !! c = Some cn' ∧ cv cn' = cv (g c cn).
Proof.
  intros T H. specialize (T c). rewrite H in T. destruct (conns st' !! c) as [cn'|]; [|done].
  exists cn'. split; [done|]. simpl in T. congruence.
Qed.
Lemma ctrans_none g st st' c : ctrans g st st' → conns st !! c = None → conns st' !! c = None.
Proof. intros T H. specialize (T c). rewrite H in T. by destruct (conns st' !! c). Qed.

(* ---------- leave / enter / join / disconnect ---------- *)
Lemma leave_ctrans cfg st c : ctrans (at_conn c (set_cur None)) st (leave cfg st c).1.
Proof.
  unfold leave. destruct (conns st !! c) as [cn|] eqn:Hc.
  2:{ intros c'. cbn [fst]. unfold at_conn. case_decide as Hd; [rewrite Hd, Hc; done|]. by destruct (conns st !! c'). }
  destruct (c_cur cn) as [[sid p]|] eqn:Hcur.
  2:{ intros c'. cbn [fst]. unfold at_conn. case_decide as Hd; [rewrite Hd, Hc; simpl; unfold cv; simpl; by rewrite Hcur|].
      by destruct (conns st !! c'). }
  destruct (sessions st !! sid) as [SS|]; [|apply ctrans_upd_conn].
  destruct (remove_doomed _ _ _ _) as [S3 o1]. cbn [fst].
  assert (T : ctrans (at_conn c (set_cur None)) st (upd_conn c (λ cn, set_own (λ _, ∅) (set_cur None cn)) st)).
  { eapply ctrans_ext; [|apply ctrans_upd_conn]. intros c' cn' _. unfold at_conn. by case_decide. }
  case_decide; exact T.
Qed.

Lemma enter_ctrans cfg st c rid n ots SS :
  sessions st !! n = Some SS →
  ctrans (at_conn c (λ cn, set_lat None (set_cur (Some (n, u32_succ (s_pgen SS))) cn))) st (enter cfg st c rid n ots).1.1.
Proof.
  intros HS. unfold enter. rewrite HS. cbn [fst].
  eapply ctrans_ext; [|eapply ctrans_src; [|apply ctrans_upd_conn]; done]. intros c' cn' _. unfold at_conn. by case_decide.
Qed.

Lemma disconnect_ctrans cfg st c :
  ctrans (at_conn c (λ cn, set_queue [] (set_open false (set_cur None cn)))) st (disconnect cfg st c).1.
Proof.
  unfold disconnect. pose proof (leave_ctrans cfg st c) as T. destruct (leave cfg st c) as [st1 o]. cbn [fst] in *.
  eapply ctrans_ext; [|eapply (ctrans_trans _ (at_conn c (λ cn, set_queue [] (set_open false cn)))); [|exact T|apply ctrans_upd_conn]].
  - intros c' cn' _. unfold at_conn. by case_decide.
  - intros c' a b H. apply at_conn_cv; [|done]. clear. intros a b (?&?&?&?&?&?)%cv_eq. apply cv_eq. simpl. done.
Qed.

(* the three outcomes of a join request *)
Inductive join_outcome (c : N) (st st' : state) (outs : list delivery) : Prop :=
| jo_already : st' = st → join_resp c outs = None → has_error c E_NOT_FOUND outs = false → join_outcome c st st' outs
| jo_notfound : ctrans (at_conn c (set_cur None)) st st' → join_resp c outs = None → join_outcome c st st' outs
| jo_entered n p r u : ctrans (at_conn c (λ cn, set_lat None (set_cur (Some (n, p)) cn))) st st' →
    join_resp c outs = Some (r, n, u, p) → join_outcome c st st' outs.

Lemma join_outcomes cfg st c cn rid s ots hint st' outs v :
  conns st !! c = Some cn → Model.join cfg st c rid s ots hint = (st', outs, v) → join_outcome c st st' outs.
Proof.
  intros Hc. unfold Model.join. rewrite Hc. destruct (already_joined cn s) eqn:Haj.
  - intros [= <- <- <-]. apply jo_already; [done| |].
    + set (mo := match c_cur cn with Some (cur, _) => match sessions st !! cur with Some SS => module_join_msgs cfg c SS | None => [] end | None => [] end).
      assert (Hmo : plains mo).
      { unfold mo. destruct (c_cur cn) as [[cur p0]|]; [|constructor]. destruct (sessions st !! cur); [apply plains_module_join|constructor]. }
      rewrite join_resp_cons_other by done. by apply join_resp_plain.
    + set (mo := match c_cur cn with Some (cur, _) => match sessions st !! cur with Some SS => module_join_msgs cfg c SS | None => [] end | None => [] end).
      assert (Hmo : plains mo).
      { unfold mo. destruct (c_cur cn) as [[cur p0]|]; [|constructor]. destruct (sessions st !! cur); [apply plains_module_join|constructor]. }
      change ((c, MError rid E_ALREADY_JOINED) :: mo) with ([(c, MError rid E_ALREADY_JOINED)] ++ mo).
      rewrite has_error_app, (has_error_plain _ _ _ Hmo). unfold has_error. simpl. by rewrite andb_false_r.
  - pose proof (leave_ctrans cfg st c) as T1. pose proof (plains_leave cfg st c) as P1.
    destruct (leave cfg st c) as [st1 o1]. cbn [fst snd] in *.
    assert (Hnf : ∀ outs, outs = o1 ++ [(c, MError rid E_NOT_FOUND)] → join_resp c outs = None).
    { intros ? ->. rewrite join_resp_app_plain by done. by rewrite join_resp_cons_other. }
    assert (Hent : ∀ st2 n SS, sessions st2 !! n = Some SS → ctrans (at_conn c (set_cur None)) st st2 →
      join_outcome c st (enter cfg st2 c rid n ots).1.1 (o1 ++ (enter cfg st2 c rid n ots).1.2)).
    { intros st2 n SS HS T2. pose proof (enter_ctrans cfg st2 c rid n ots SS HS) as T3.
      rewrite (enter_eq cfg st2 c rid n ots SS HS). cbv zeta. cbn [fst snd].
      eapply (jo_entered _ _ _ _ n (u32_succ (s_pgen SS)) rid (s_uuid SS)).
      - eapply ctrans_ext; [|eapply ctrans_trans; [|exact T2|exact T3]].
        + intros c' cn' _. unfold at_conn. by case_decide.
        + intros c' a b H. apply at_conn_cv; [|done]. clear. intros a b (?&?&?&?&?&?)%cv_eq. apply cv_eq. simpl. done.
      - rewrite join_resp_app_plain by done. unfold join_resp. by erewrite first_to_hit by reflexivity. }
    destruct s as [|n|k].
    + destruct (create_session hint st1) as [n st2] eqn:Hcr.
      destruct (c07_created_fresh _ _ _ _ Hcr) as [HS2 _]. destruct (create_sessions _ _ _ _ Hcr) as [_ Hcn].
      specialize (Hent st2 n _ HS2). destruct (enter cfg st2 c rid n ots) as [[st3 o2] v2]. intros [= <- <- <-].
      apply Hent. intros c'. rewrite Hcn. apply T1.
    + destruct (sessions st1 !! n) as [SS|] eqn:HS.
      * specialize (Hent st1 n _ HS T1). destruct (enter cfg st1 c rid n ots) as [[st3 o2] v2]. by intros [= <- <- <-].
      * intros [= <- <- <-]. apply jo_notfound; [done|by apply Hnf].
    + intros [= <- <- <-]. apply jo_notfound; [done|by apply Hnf].
Qed.

(* ---------- request handlers ---------- *)
(* the requests whose handling touches the connection record beyond the own-set, or emits a message of a
   per-connection protocol: joins aside, the two latency requests (and pose updates, for the messages) *)
Definition is_lat_req (r : req) : bool := match r with RSignedLatency _ _ _ | RPingResp _ => true | _ => false end.

Ltac ct := first
  [ apply ctrans_refl
  | apply ctrans_conns; reflexivity
  | apply ctrans_upd_conn_own; intros []; reflexivity
  | (eapply ctrans_src; [|apply ctrans_upd_conn_own; intros []; reflexivity]); reflexivity ].

Lemma handle_joined_ctrans cfg st c cn sid p SS r hint st' o v :
  is_join r = false → is_lat_req r = false →
  handle_joined cfg st c cn sid p SS r hint = (st', o, v) → ctrans cid st st' ∧ next_ping st' = next_ping st.
Proof.
  intros Hj Hl H. destruct r; try discriminate Hj; try discriminate Hl; simpl in H.
  all: repeat case_match; simplify_eq; (split; [ct|reflexivity]).
Qed.
Lemma handle_unjoined_ctrans cfg st c cn r hint st' o v :
  is_join r = false →
  handle_unjoined cfg st c cn r hint = (st', o, v) → ctrans cid st st' ∧ next_ping st' = next_ping st.
Proof.
  intros Hj H. destruct r; try discriminate Hj; simpl in H.
  all: repeat case_match; simplify_eq; (split; [ct|reflexivity]).
Qed.

(* ================= which messages an operation can emit ================= *)
Definition exc (m : msg) : bool :=
  match m with MPingReq _ | MSignedLatencyResp _ _ _ _ _ _ _ _ | MPoseB _ _ _ => true | _ => false end.
Definition exc_req (r : req) : bool :=
  match r with RPose _ _ _ | RSignedLatency _ _ _ | RPingResp _ => true | _ => false end.

Section quiet.
  Context (B : msg → bool) (Bexc : ∀ m, exc m = false → B m = false).
  Definition qs (l : list delivery) : Prop := Forall (λ d : delivery, B (snd d) = false) l.

  Lemma qs_app l1 l2 : qs l1 → qs l2 → qs (l1 ++ l2).
  Proof. apply Forall_app_2. Qed.
  Lemma qs_broadcast SS p m : exc m = false → qs (broadcast SS p m).
  Proof. intros H. apply (Forall_broadcast (λ m, B m = false)). by apply Bexc. Qed.
  Lemma qs_broadcast_to SS p ids m : exc m = false → qs (broadcast_to SS p ids m).
  Proof. intros H. apply (Forall_broadcast_to (λ m, B m = false)). by apply Bexc. Qed.

  Ltac qt := repeat first
    [ apply Forall_nil_2
    | apply Forall_cons_2; [apply Bexc; reflexivity|]
    | apply qs_app
    | apply qs_broadcast; reflexivity
    | apply qs_broadcast_to; reflexivity ].

  Lemma qs_remove_doomed cfg p l SS : qs (remove_doomed cfg p l SS).2.
  Proof.
    revert SS. induction l as [|eid l IH]; intros SS; simpl; [constructor|].
    specialize (IH (set_ents (delete eid) (set_store (store_delete_entity eid) SS))).
    destruct (remove_doomed cfg p l _) as [S2 o2]. simpl in *. apply qs_app; [|done].
    destruct (flag_on cfg F_ENTITY_DELETE_B); [constructor|]. by apply qs_broadcast.
  Qed.
  Lemma qs_leave cfg st c : qs (leave cfg st c).2.
  Proof.
    unfold leave. destruct (conns st !! c) as [cn|]; [|constructor]. destruct (c_cur cn) as [[sid p]|]; [|constructor].
    destruct (sessions st !! sid) as [SS|]; [|constructor].
    match goal with |- context [remove_doomed ?a ?b ?l ?S] => pose proof (qs_remove_doomed a b l S) as H;
      destruct (remove_doomed a b l S) as [S3 o1] end.
    simpl in *. apply qs_app; [done|]. destruct (flag_on cfg F_LEAVE_B); [constructor|]. by apply qs_broadcast.
  Qed.
  Lemma qs_disconnect cfg st c : qs (disconnect cfg st c).2.
  Proof. unfold disconnect. pose proof (qs_leave cfg st c). by destruct (leave cfg st c). Qed.
  Lemma qs_module_join cfg c SS : qs (module_join_msgs cfg c SS).
  Proof. unfold module_join_msgs. destruct (cfg_vikja cfg), (cfg_odal cfg); qt. Qed.
  Lemma qs_enter cfg st c rid n ots : qs (enter cfg st c rid n ots).1.2.
  Proof.
    unfold enter. destruct (sessions st !! n) as [SS|]; [|constructor]. cbn [fst snd].
    apply Forall_cons_2; [by apply Bexc|]. apply qs_app; [destruct (flag_on cfg F_SESSION_STATE); qt|].
    apply qs_app; [|apply qs_module_join]. destruct (flag_on cfg F_JOIN_B); [constructor|]. by apply qs_broadcast.
  Qed.
  Lemma qs_join cfg st c rid s ots hint : qs (Model.join cfg st c rid s ots hint).1.2.
  Proof.
    unfold Model.join. destruct (conns st !! c) as [cn|]; [|constructor].
    destruct (already_joined cn s).
    - cbn [fst snd]. apply Forall_cons_2; [by apply Bexc|]. destruct (c_cur cn) as [[cur p0]|]; [|constructor].
      destruct (sessions st !! cur); [apply qs_module_join|constructor].
    - pose proof (qs_leave cfg st c) as Q1. destruct (leave cfg st c) as [st1 o1]. simpl in Q1.
      destruct s as [|n|k].
      + destruct (create_session hint st1) as [n st2]. pose proof (qs_enter cfg st2 c rid n ots) as Q2.
        destruct (enter cfg st2 c rid n ots) as [[st3 o2] v2]. by apply qs_app.
      + destruct (sessions st1 !! n).
        * pose proof (qs_enter cfg st1 c rid n ots) as Q2.
          destruct (enter cfg st1 c rid n ots) as [[st3 o2] v2]. by apply qs_app.
        * apply qs_app; [done|]. qt.
      + apply qs_app; [done|]. qt.
  Qed.

  Lemma qs_handle_joined cfg st c cn sid p SS r hint st' o v :
    exc_req r = false → handle_joined cfg st c cn sid p SS r hint = (st', o, v) → qs o.
  Proof.
    intros Hn H. destruct r; try discriminate Hn; simpl in H.
    all: try (repeat case_match; simplify_eq; unfold qs; qt; fail).
    pose proof (qs_join cfg st c rid sid0 ots hint) as Q. by rewrite H in Q.
  Qed.
  Lemma handle_joined_exc_ok cfg st c cn sid p SS r hint st' o v :
    exc_req r = true → handle_joined cfg st c cn sid p SS r hint = (st', o, v) → v = VOk.
  Proof.
    intros Hn H. destruct r; try discriminate Hn; simpl in H; unfold on_ping, send_ping in H;
      repeat case_match; by simplify_eq.
  Qed.
  Lemma qs_handle_unjoined cfg st c cn r hint st' o v :
    handle_unjoined cfg st c cn r hint = (st', o, v) → qs o.
  Proof.
    intros H. destruct r; simpl in H.
    all: try (repeat case_match; simplify_eq; unfold qs; qt; fail).
    pose proof (qs_join cfg st c rid sid ots hint) as Q. by rewrite H in Q.
  Qed.
  Lemma qs_handle cfg st c r hint st' o v :
    exc_req r = false ∨ v ≠ VOk → handle cfg st c r hint = (st', o, v) → qs o.
  Proof.
    intros Hr. unfold handle. destruct (conns st !! c) as [cn|]; [|by intros [= _ <-]; constructor].
    destruct (c_cur cn) as [[sid p]|].
    - destruct (sessions st !! sid) as [SS|]; [|by intros [= _ <-]; constructor].
      intros H. destruct (exc_req r) eqn:Hn.
      + apply handle_joined_exc_ok in H; [|done]. by destruct Hr.
      + by eapply qs_handle_joined.
    - apply qs_handle_unjoined.
  Qed.

  (* every operation but the consumption of one of the excepted requests *)
  Lemma qs_step cfg st o :
    (∀ c r, stepped (ev_of st o (step cfg st o)) = Some (c, r) → exc_req r = false) → qs (step cfg st o).1.2.
  Proof.
    intros Hst. destruct o as [c|c r|c hint|sid|c|].
    - simpl. destruct (conns st !! c); constructor.
    - simpl. unfold dispatch. destruct (conns st !! c) as [cn|]; [|constructor].
      destruct (c_open cn); [|constructor]. simpl.
      destruct r; try constructor. destruct (ty =? 14); [|constructor].
      pose proof (qs_disconnect cfg st c) as P. by destruct (disconnect cfg st c).
    - unfold ev_of, stepped in Hst. cbn [ev_op ev_req ev_verdict consumed step] in *.
      destruct (conns st !! c) as [cn|] eqn:Hc; [|constructor].
      destruct (c_open cn) eqn:Ho; [|constructor]. cbn [negb] in *.
      destruct (c_queue cn) as [|r q] eqn:Hq; [constructor|]. cbn [head] in *.
      destruct (handle cfg (upd_conn c (set_queue q) st) c r hint) as [[st1 o1] v] eqn:Eh.
      destruct v; cbn [fst snd] in *.
      + eapply qs_handle; [|exact Eh]. left. by apply (Hst c).
      + assert (Q1 : qs o1) by (eapply qs_handle; [|exact Eh]; by right). pose proof (qs_disconnect cfg st1 c) as Q2.
        destruct (disconnect cfg st1 c) as [st2 o2]. by apply qs_app.
      + eapply qs_handle; [|exact Eh]. left. by apply (Hst c).
      + eapply qs_handle; [|exact Eh]. by right.
    - constructor.
    - simpl. destruct (conns st !! c) as [cn|]; [|constructor]. destruct (c_open cn); [|constructor]. simpl.
      pose proof (qs_disconnect cfg st c) as P. by destruct (disconnect cfg st c).
    - simpl. qt.
  Qed.
End quiet.

(* ---------- a frame ---------- *)
Lemma tick_conns st sid SS c :
  sessions st !! sid = Some SS →
  conns (tick st sid) !! c = (λ cn, if decide (c ∈ s_frames SS) then flush cn else cn) <$> conns st !! c.
Proof.
  intros HS. unfold tick. rewrite HS. simpl.
  pose (P := λ (m : gmap N conn) (X : gset N), m !! c = (λ cn, if decide (c ∈ X) then flush cn else cn) <$> conns st !! c).
  apply (set_fold_ind_L P); unfold P.
  - destruct (conns st !! c); simpl; [|done]. by rewrite decide_False by set_solver.
  - intros x X' m Hx IH. destruct (decide (x = c)) as [->|Hne].
    + rewrite IH. destruct (conns st !! c) as [cn|] eqn:E; simpl.
      * rewrite lookup_insert. rewrite decide_False by done. by rewrite decide_True by set_solver.
      * by rewrite IH.
    + assert (Hm : match m !! x with Some cn => <[x := flush cn]> m | None => m end !! c = m !! c).
      { destruct (m !! x); [by rewrite lookup_insert_ne|done]. }
      rewrite Hm, IH. destruct (conns st !! c); simpl; [|done].
      destruct (decide (c ∈ X')); [by rewrite decide_True by set_solver|by rewrite decide_False by set_solver].
Qed.
Lemma tick_conns_none st sid : sessions st !! sid = None → tick st sid = st.
Proof. intros HS. unfold tick. by rewrite HS. Qed.
Lemma tick_next_ping st sid : next_ping (tick st sid) = next_ping st.
Proof. unfold tick. by destruct (sessions st !! sid). Qed.

(* ---------- the shape of [handle] ---------- *)
Lemma on_ping_shape st c cn rid st' o v :
  conns st !! c = Some cn → on_ping st c cn rid = (st', o, v) →
  v = VOk ∧ ∃ x, ctrans (at_conn c (set_lat x)) st st'.
Proof.
  intros Hc H.
  assert (Hid : ctrans (at_conn c (set_lat (c_lat cn))) st st).
  { eapply ctrans_ext; [|apply ctrans_refl]. intros c' cn' Hc'. unfold at_conn, cid. case_decide as Hd; [|done].
    subst. rewrite Hc in Hc'. injection Hc' as <-. by destruct cn. }
  unfold on_ping, send_ping in H. repeat case_match; simplify_eq; (split; [done|]).
  all: try (by eexists).
  all: eexists; (eapply ctrans_src; [|apply ctrans_upd_conn]); reflexivity.
Qed.

Inductive handle_outcome (c : N) (r : req) (st st' : state) (o : list delivery) (v : verdict) : Prop :=
| ho_join : is_join r = true → v = VOk → join_outcome c st st' o → handle_outcome c r st st' o v
| ho_plain : is_join r = false → is_lat_req r = false → ctrans cid st st' → next_ping st' = next_ping st →
    handle_outcome c r st st' o v
| ho_lat x : is_lat_req r = true → v = VOk → ctrans (at_conn c (set_lat x)) st st' → handle_outcome c r st st' o v.

Lemma handle_outcomes cfg st c cn r hint st' o v :
  conns st !! c = Some cn → (∀ sid p, c_cur cn = Some (sid, p) → is_Some (sessions st !! sid)) →
  handle cfg st c r hint = (st', o, v) → handle_outcome c r st st' o v.
Proof.
  intros Hc Hlive H. unfold handle in H. rewrite Hc in H.
  assert (Hid : ctrans (at_conn c (set_lat (c_lat cn))) st st).
  { eapply ctrans_ext; [|apply ctrans_refl]. intros c' cn' Hc'. unfold at_conn, cid. case_decide as Hd; [|done].
    subst. rewrite Hc in Hc'. injection Hc' as <-. by destruct cn. }
  assert (Hjoin : ∀ rid s ots, Model.join cfg st c rid s ots hint = (st', o, v) → handle_outcome c (RJoin rid s ots) st st' o v).
  { intros rid s ots Hj. apply ho_join; [done| |by eapply join_outcomes].
    pose proof (join_verdict cfg st c cn rid s ots hint Hc) as Hv. by rewrite Hj in Hv. }
  destruct (c_cur cn) as [[sid p]|] eqn:Hcur.
  - destruct (sessions st !! sid) as [SS|] eqn:HS.
    2:{ destruct (Hlive sid p eq_refl) as [? ?]. congruence. }
    destruct (is_join r) eqn:Hj.
    { destruct r; try discriminate Hj. by apply Hjoin. }
    destruct (is_lat_req r) eqn:Hl.
    + destruct r; try discriminate Hl.
      * destruct (on_ping_shape st c cn rid st' o v Hc H) as (->&x&T). by eapply ho_lat.
      * simpl in H. unfold send_ping in H. repeat case_match; simplify_eq; try (by eapply ho_lat).
        eapply ho_lat; [done|done|]. (eapply ctrans_src; [|apply ctrans_upd_conn]); reflexivity.
    + destruct (handle_joined_ctrans cfg st c cn sid p SS r hint st' o v Hj Hl H) as [T Hp]. by apply ho_plain.
  - destruct (is_join r) eqn:Hj.
    { destruct r; try discriminate Hj. by apply Hjoin. }
    destruct (handle_unjoined_ctrans cfg st c cn r hint st' o v Hj H) as [T Hp].
    destruct (is_lat_req r) eqn:Hl; [|by apply ho_plain].
    destruct r; try discriminate Hl; simpl in H; injection H as <- <- <-; by eapply ho_lat.
Qed.

(* ================= events: who acts, what the spec's membership table does ================= *)
Lemma stepped_shape e c r :
  stepped e = Some (c, r) → ∃ hint, ev_op e = OStep c hint ∧ ev_req e = Some r ∧ (ev_verdict e = VOk ∨ ev_verdict e = VSkip).
Proof.
  unfold stepped. destruct (ev_op e) as [| |c0 hint| | |]; try done. destruct (ev_req e) as [r0|]; [|done].
  destruct (ev_verdict e); try done; intros [= <- <-]; eauto.
Qed.
Lemma stepped_actor e c r : stepped e = Some (c, r) → actor e = Some c.
Proof. intros (hint&H&_)%stepped_shape. unfold actor. by rewrite H. Qed.
Lemma rejoined_nonjoin e c r : ev_req e = Some r → is_join r = false → rejoined e c = false.
Proof. intros H Hj. unfold rejoined. rewrite H. destruct (ev_op e); try done. by destruct r. Qed.
Lemma rejoined_noreq e c : ev_req e = None → rejoined e c = false.
Proof. intros H. unfold rejoined. rewrite H. by destruct (ev_op e). Qed.
Lemma rejoined_step c hint r o1 v c' :
  rejoined {| ev_op := OStep c hint; ev_req := Some r; ev_outs := o1; ev_verdict := v |} c' =
  match r with RJoin _ _ _ => (c =? c') && is_Some_b (join_resp c o1) | _ => false end.
Proof. unfold rejoined. simpl. destruct r; try done. by destruct (N.eqb_spec c c') as [->|]. Qed.
Lemma spec_step_nonjoin_mem sp e c r :
  stepped e = Some (c, r) → is_join r = false → sp_mem (spec_step sp e) = sp_mem sp.
Proof.
  intros (hint&Ho&Hr&Hv)%stepped_shape Hj. unfold spec_step. rewrite Ho, Hr.
  assert (H : sp_mem (match r with
                      | RJoin rid s ots => sp
                      | _ => match sp_mem sp !! c with Some (sid, p) => spec_request sp c sid p r (ev_outs e) | None => sp end
                      end) = sp_mem sp).
  { destruct r; try discriminate Hj. all: destruct (sp_mem sp !! c) as [[sid9 p9]|]; [apply sp_mem_spec_request|done]. }
  destruct Hv as [-> | ->]; destruct r; try discriminate Hj; exact H.
Qed.
Lemma mem_changed_nonjoin sp e c r :
  stepped e = Some (c, r) → is_join r = false → mem_changed sp (spec_step sp e) e c = false.
Proof.
  intros Hst Hj. unfold mem_changed. rewrite (spec_step_nonjoin_mem sp e c r Hst Hj).
  rewrite bool_decide_eq_true_2 by done. destruct (stepped_shape _ _ _ Hst) as (hint&_&Hr&_).
  by rewrite (rejoined_nonjoin e c r Hr Hj).
Qed.

(* ================= P_C18: the latency measurement of every connection ================= *)
Definition is_lat (m : msg) : bool :=
  match m with MPingReq _ | MSignedLatencyResp _ _ _ _ _ _ _ _ => true | _ => false end.
Lemma is_lat_exc m : exc m = false → is_lat m = false.
Proof. by destruct m. Qed.

Definition answered_pings (ids : list N) : list (N * bool) := map (λ id, (id, true)) ids.

(* the predicate's record L of connection c against the model's record l *)
Record lat_rel (c top : N) (L : latm) (l : latency) : Prop := {
  lr_rid : l_rid l = m_rid L;
  lr_wallet : l_wallet l = m_wallet L;
  lr_uuid : l_uuid l = m_uuid L;
  lr_client : l_client l = c;
  lr_shape : if m_done L
             then l_pings l = answered_pings (m_answered L) ∧ m_issued L = m_answered L ∧
                  N.of_nat (length (m_answered L)) = m_n L
             else ∃ x, l_pings l = answered_pings (m_answered L) ++ [(x, false)] ∧ m_issued L = m_answered L ++ [x] ∧
                       0 < l_iter l ∧ N.of_nat (length (m_answered L)) + l_iter l = m_n L;
  lr_nodup : NoDup (m_issued L);
  lr_top : ∀ id, id ∈ m_issued L → id ≤ top
}.

Definition R18 (st : state) (s : c18st) : Prop :=
  ∀ c cn sid p, conns st !! c = Some cn → c_cur cn = Some (sid, p) →
    match s !! c with
    | None => c_lat cn = None
    | Some L => ∃ l, c_lat cn = Some l ∧ lat_rel c (next_ping st) L l
    end.

Lemma lat_rel_mono c top top' L l : top ≤ top' → lat_rel c top L l → lat_rel c top' L l.
Proof. intros H [R1 R2 R3 R4 R5 R6 R7]. split; try done. intros id Hid. specialize (R7 id Hid). lia. Qed.

(* looking an id up in the list of pings *)
Lemma find_answered A tl id :
  id ∈ A → ∃ i, list_find (λ ib : N * bool, ib.1 = id) (answered_pings A ++ tl) = Some (i, (id, true)).
Proof.
  induction A as [|a A IH]; [by intros ?%elem_of_nil|]. intros Hin. simpl.
  destruct (decide (a = id)) as [->|Hne]; [eauto|].
  apply elem_of_cons in Hin as [->|Hin]; [done|]. destruct (IH Hin) as [i Hi]. rewrite Hi. simpl. eauto.
Qed.
Lemma find_pending A tl id :
  id ∉ A → list_find (λ ib : N * bool, ib.1 = id) (answered_pings A ++ tl) =
           prod_map (λ i, (length A + i)%nat) (λ x : N * bool, x) <$> list_find (λ ib : N * bool, ib.1 = id) tl.
Proof.
  induction A as [|a A IH]; intros Hin; simpl.
  - destruct (list_find _ tl) as [[i x]|]; done.
  - apply not_elem_of_cons in Hin as [Hne Hin]. rewrite decide_False by done. rewrite (IH Hin).
    destruct (list_find _ tl) as [[i x]|]; done.
Qed.

Lemma memN_true x l : x ∈ l → memN x l = true.
Proof. apply memN_elem. Qed.
Lemma memN_false' x l : x ∉ l → memN x l = false.
Proof. apply memN_false. Qed.

Definition lat_next (L : latm) (id id' : N) : latm :=
  {| m_rid := m_rid L; m_n := m_n L; m_wallet := m_wallet L; m_uuid := m_uuid L;
     m_issued := m_issued L ++ [id']; m_answered := m_answered L ++ [id]; m_done := false |}.
Definition lat_fin (L : latm) (id : N) : latm :=
  {| m_rid := m_rid L; m_n := m_n L; m_wallet := m_wallet L; m_uuid := m_uuid L;
     m_issued := m_issued L; m_answered := m_answered L ++ [id]; m_done := true |}.

(* an answer, against the predicate's three cases *)
Lemma on_ping_rel st c cn id L l :
  c_lat cn = Some l → lat_rel c (next_ping st) L l →
  if m_done L || negb (memN id (m_issued L)) || memN id (m_answered L)
  then on_ping st c cn id = (st, [(c, MError id E_INTERNAL)], VOk)
  else if N.of_nat (length (m_answered L ++ [id])) <? m_n L
  then ∃ l' st1, on_ping st c cn id = (upd_conn c (set_lat (Some l')) st1, [(c, MPingReq (next_ping st + 1))], VOk) ∧
         conns st1 = conns st ∧ sessions st1 = sessions st ∧ next_ping st1 = next_ping st + 1 ∧
         memN (next_ping st + 1) (m_issued L) = false ∧
         lat_rel c (next_ping st + 1) (lat_next L id (next_ping st + 1)) l'
  else ∃ l', on_ping st c cn id =
         (upd_conn c (set_lat (Some l')) st,
          [(c, MSignedLatencyResp (m_rid L) (m_n L) (m_issued L) (m_uuid L) c (m_wallet L) true true)], VOk) ∧
         lat_rel c (next_ping st) (lat_fin L id) l'.
Proof.
  intros Hl [R1 R2 R3 R4 R5 R6 R7]. unfold on_ping. rewrite Hl.
  destruct (m_done L) eqn:Hd; simpl.
  { destruct R5 as (Hp&Hi&Hn). rewrite Hp. destruct (decide (id ∈ m_answered L)) as [Hin|Hin].
    - destruct (find_answered _ [] id Hin) as [i Hi']. rewrite app_nil_r in Hi'. by rewrite Hi'.
    - pose proof (find_pending (m_answered L) [] id Hin) as Hf. rewrite app_nil_r in Hf. by rewrite Hf. }
  destruct R5 as (x&Hp&Hi&Hit&Hn). rewrite Hp, Hi.
  destruct (decide (id ∈ m_answered L)) as [Hin|Hin].
  { rewrite (memN_true id (m_answered L ++ [x])) by set_solver. rewrite (memN_true _ _ Hin). simpl.
    destruct (find_answered _ [(x, false)] id Hin) as [i Hi']. by rewrite Hi'. }
  rewrite (memN_false' _ _ Hin), orb_false_r. rewrite (find_pending _ _ _ Hin). simpl.
  destruct (decide (x = id)) as [->|Hne].
  2:{ rewrite (memN_false' id (m_answered L ++ [x])) by set_solver. done. }
  rewrite (memN_true id (m_answered L ++ [id])) by set_solver. simpl. rewrite Nat.add_0_r.
  assert (Hpred : u32_pred (l_iter l) = l_iter l - 1).
  { unfold u32_pred. destruct (N.eqb_spec (l_iter l) 0); [lia|done]. }
  rewrite Hpred.
  assert (Hins : <[length (m_answered L) := (id, true)]> (answered_pings (m_answered L) ++ [(id, false)]) =
                 answered_pings (m_answered L ++ [id])).
  { unfold answered_pings. rewrite map_app. simpl.
    replace (length (m_answered L)) with (length (map (λ id0 : N, (id0, true)) (m_answered L)) + 0)%nat
      by (rewrite map_length; lia).
    by rewrite insert_app_r. }
  rewrite Hins. rewrite app_length. simpl.
  assert (Hlen : N.of_nat (length (m_answered L) + 1) <? m_n L = (0 <? l_iter l - 1)).
  { destruct (N.ltb_spec (N.of_nat (length (m_answered L) + 1)) (m_n L)), (N.ltb_spec 0 (l_iter l - 1)); lia. }
  rewrite Hlen. destruct (0 <? l_iter l - 1) eqn:E.
  - apply N.ltb_lt in E. unfold send_ping. simpl. eexists _, _. split; [reflexivity|]. simpl.
    split; [done|]. split; [done|]. split; [done|].
    assert (Hfresh : next_ping st + 1 ∉ m_answered L ++ [id]).
    { intros H. rewrite <- Hi in H. apply R7 in H. lia. }
    split; [rewrite <- Hi; apply memN_false'; by rewrite Hi|].
    split; simpl; try done.
    + exists (next_ping st + 1). split; [done|]. split; [by rewrite Hi|]. split; [lia|]. rewrite app_length. simpl. lia.
    + rewrite Hi. apply NoDup_app. split; [by rewrite <- Hi|]. split; [|apply NoDup_singleton].
      intros y Hy ->%elem_of_list_singleton. done.
    + intros y [Hy| ->%elem_of_list_singleton]%elem_of_app; [|lia]. specialize (R7 y Hy). lia.
  - apply N.ltb_ge in E. eexists. split.
    { simpl. unfold answered_pings. rewrite !map_length, map_map. simpl. rewrite map_id.
      rewrite R1, R3, R4, R2. repeat f_equal. rewrite app_length. simpl. lia. }
    split; simpl; try done.
    split; [done|]. split; [done|]. rewrite app_length. simpl. lia.
Qed.

(* ---------- the predicate, case by case ---------- *)
Definition c18_reset (sp sp' : spec) (s : c18st) (e : event) : c18st :=
  match actor e with Some c => if negb (mem_changed sp sp' e c) then s else delete c s | None => s end.
Definition c18_stray (i : nat) (outs : list delivery) : list violation :=
  flat_map (λ d : delivery, match snd d with
                            | MPingReq _ | MSignedLatencyResp _ _ _ _ _ _ _ _ => [viol i 1815 [zn (fst d)]]
                            | _ => [] end) outs.

Lemma P_C18_event_other cfg i sp sp' s e :
  (∀ c r, stepped e = Some (c, r) → is_lat_req r = false) →
  P_C18_event cfg i sp sp' s e = (c18_reset sp sp' s e, c18_stray i (ev_outs e)).
Proof.
  intros H. unfold P_C18_event, c18_reset, c18_stray. destruct (stepped e) as [[c r]|]; [|done].
  specialize (H c r eq_refl). by destruct r.
Qed.
Lemma c18_stray_quiet i outs : qs is_lat outs → c18_stray i outs = [].
Proof.
  unfold c18_stray. induction 1 as [|[c m] l Hm _ IH]; simpl; [done|]. rewrite IH. simpl in Hm. by destruct m.
Qed.

Lemma P_C18_event_start cfg i sp sp' s e c rid n w :
  stepped e = Some (c, RSignedLatency rid n w) → mem_changed sp sp' e c = false →
  P_C18_event cfg i sp sp' s e =
  match sp_mem sp !! c with
  | None => (s, okv i (same_lines (ev_outs e) [(c, MError rid E_UNAUTHORIZED)]) 1801 [zn c; zn rid])
  | Some (sid, p) =>
      if (n <? lat_min) || (lat_max <? n) || (w =? 0)
      then (s, okv i (same_lines (ev_outs e) [(c, MError rid E_BAD_REQUEST)]) 1802 [zn c; zn rid; zn n; zn w])
      else match only_out c (ev_outs e) with
           | Some (MPingReq id) =>
               (<[c := {| m_rid := rid; m_n := n; m_wallet := w; m_uuid := uuid_of sp sid; m_issued := [id];
                          m_answered := []; m_done := false |}]> s, [])
           | _ => (s, [viol i 1803 [zn c; zn rid; zn n]])
           end
  end.
Proof. intros Hst Hm. unfold P_C18_event. rewrite (stepped_actor _ _ _ Hst), Hm, Hst. reflexivity. Qed.

Lemma P_C18_event_answer cfg i sp sp' s e c id :
  stepped e = Some (c, RPingResp id) → mem_changed sp sp' e c = false →
  P_C18_event cfg i sp sp' s e =
  match sp_mem sp !! c with
  | None => (s, okv i (same_lines (ev_outs e) [(c, MError id E_UNAUTHORIZED)]) 1804 [zn c; zn id])
  | Some (sid, p) =>
      let refuse := (s, okv i (same_lines (ev_outs e) [(c, MError id E_INTERNAL)]) 1805 [zn c; zn id]) in
      match s !! c with
      | None => refuse
      | Some L =>
          if m_done L || negb (memN id (m_issued L)) || memN id (m_answered L) then refuse
          else
            let ans := m_answered L ++ [id] in
            if N.of_nat (length ans) <? m_n L then
              match only_out c (ev_outs e) with
              | Some (MPingReq id') =>
                  (<[c := lat_next L id id']> s, okv i (negb (memN id' (m_issued L))) 1806 [zn c; zn id'])
              | _ => (s, [viol i 1807 [zn c; zn id; Z.of_nat (length ans); zn (m_n L)]])
              end
            else
              match only_out c (ev_outs e) with
              | Some (MSignedLatencyResp rid cnt ids uuid client wallet stats sig) =>
                  (<[c := lat_fin L id]> s,
                   okv i (rid =? m_rid L) 1808 [zn c; zn rid; zn (m_rid L)] ++
                   okv i ((cnt =? m_n L) && (N.of_nat (length ids) =? m_n L)) 1809 [zn c; zn cnt; zn (m_n L)] ++
                   okv i (bool_decide (sortN ids = sortN (m_issued L)) && bool_decide (NoDup ids)) 1810 [zn c] ++
                   okv i ((uuid =? m_uuid L) && (client =? c) && (wallet =? m_wallet L)) 1811 [zn c; zn uuid; zn client; zn wallet] ++
                   okv i stats 1812 [zn c] ++ okv i sig 1813 [zn c])
              | _ => (s, [viol i 1814 [zn c; zn id]])
              end
      end
  end.
Proof. intros Hst Hm. unfold P_C18_event. rewrite (stepped_actor _ _ _ Hst), Hm, Hst. reflexivity. Qed.

Lemma only_out_single c m : only_out c [(c, m)] = Some m.
Proof. unfold only_out. by rewrite N.eqb_refl. Qed.

(* ---------- preservation of the relation ---------- *)
Lemma R18_frame st st' s :
  R18 st s → next_ping st ≤ next_ping st' →
  (∀ c' cn', conns st' !! c' = Some cn' → is_Some (c_cur cn') →
     ∃ cn, conns st !! c' = Some cn ∧ c_cur cn = c_cur cn' ∧ c_lat cn = c_lat cn') →
  R18 st' s.
Proof.
  intros R Hp H c cn' sid p Hc Hcur. destruct (H c cn' Hc) as (cn&Hc0&E1&E2); [by rewrite Hcur|].
  rewrite <- E1 in Hcur. specialize (R c cn sid p Hc0 Hcur). rewrite <- E2.
  destruct (s !! c) as [L|]; [|done]. destruct R as (l&Hl&Hr). exists l. split; [done|]. by eapply lat_rel_mono.
Qed.
Lemma R18_set st st' s c L l :
  R18 st s → next_ping st ≤ next_ping st' →
  (∀ c' cn', c' ≠ c → conns st' !! c' = Some cn' → is_Some (c_cur cn') →
     ∃ cn, conns st !! c' = Some cn ∧ c_cur cn = c_cur cn' ∧ c_lat cn = c_lat cn') →
  (∀ cn', conns st' !! c = Some cn' → c_lat cn' = Some l) → lat_rel c (next_ping st') L l →
  R18 st' (<[c := L]> s).
Proof.
  intros R Hp H Hl Hr c' cn' sid p Hc Hcur. unfold R18, c18st in *. destruct (decide (c' = c)) as [->|Hne].
  - rewrite lookup_insert. exists l. split; [by apply Hl|done].
  - rewrite lookup_insert_ne by done. destruct (H c' cn' Hne Hc) as (cn&Hc0&E1&E2); [by rewrite Hcur|].
    rewrite <- E1 in Hcur. specialize (R c' cn sid p Hc0 Hcur). rewrite <- E2.
    destruct (s !! c') as [L'|]; [|done]. destruct R as (l'&Hl'&Hr'). exists l'. split; [done|]. by eapply lat_rel_mono.
Qed.

Lemma leave_next_ping cfg st c : next_ping (leave cfg st c).1 = next_ping st.
Proof.
  unfold leave. destruct (conns st !! c) as [cn|]; [|done]. destruct (c_cur cn) as [[sid p]|]; [|done].
  destruct (sessions st !! sid); [|done]. destruct (remove_doomed _ _ _ _). simpl. by case_decide.
Qed.
Lemma enter_next_ping cfg st c rid n ots : next_ping (enter cfg st c rid n ots).1.1 = next_ping st.
Proof. unfold enter. by destruct (sessions st !! n). Qed.
Lemma join_next_ping cfg st c rid s ots hint : next_ping (Model.join cfg st c rid s ots hint).1.1 = next_ping st.
Proof.
  unfold Model.join. destruct (conns st !! c) as [cn|]; [|done]. destruct (already_joined cn s); [done|].
  pose proof (leave_next_ping cfg st c) as H1. destruct (leave cfg st c) as [st1 o1]. simpl in H1.
  destruct s as [|n|k]; [| |done].
  - unfold create_session. destruct (gen_new hint (sids st1)) as [n g].
    match goal with |- context [enter cfg ?s c rid n ots] => pose proof (enter_next_ping cfg s c rid n ots) as H2;
      destruct (enter cfg s c rid n ots) as [[st3 o2] v2] end. simpl in *. congruence.
  - destruct (sessions st1 !! n); [|done]. pose proof (enter_next_ping cfg st1 c rid n ots) as H2.
    destruct (enter cfg st1 c rid n ots) as [[st3 o2] v2]. simpl in *. congruence.
Qed.
Lemma disconnect_next_ping cfg st c : next_ping (disconnect cfg st c).1 = next_ping st.
Proof. unfold disconnect. pose proof (leave_next_ping cfg st c) as H. by destruct (leave cfg st c). Qed.

Ltac cv_split :=
  repeat match goal with H : cv _ = cv _ |- _ => apply cv_eq in H; destruct H as (?&?&?&?&?&?) end.

(* every operation that is not the consumption of a latency request: the connection records before / after *)
Lemma lat_frame cfg st o :
  inv st →
  let e := ev_of st o (step cfg st o) in let st' := (step cfg st o).1.1 in
  (∀ c r, stepped e = Some (c, r) → is_lat_req r = false) →
  next_ping st' = next_ping st ∧
  ∀ c' cn', conns st' !! c' = Some cn' → is_Some (c_cur cn') →
    (∃ cn, conns st !! c' = Some cn ∧ c_cur cn = c_cur cn' ∧ c_lat cn = c_lat cn' ∧ rejoined e c' = false) ∨
    (actor e = Some c' ∧ rejoined e c' = true ∧ c_lat cn' = None).
Proof.
  intros I e st' Hst.
  assert (Hsame : ∀ e0 : event, ev_req e0 = None →
    next_ping st = next_ping st ∧
    ∀ c' cn', conns st !! c' = Some cn' → is_Some (c_cur cn') →
      (∃ cn, conns st !! c' = Some cn ∧ c_cur cn = c_cur cn' ∧ c_lat cn = c_lat cn' ∧ rejoined e0 c' = false) ∨
      (actor e0 = Some c' ∧ rejoined e0 c' = true ∧ c_lat cn' = None)).
  { intros e0 Hr. split; [done|]. intros c' cn' Hc' _. left. exists cn'. repeat (split; [done|]). by apply rejoined_noreq. }
  (* a departure of the actor: the other records are untouched, the actor is in no session *)
  assert (Hdisc : ∀ st0 (e0 : event) c, (∀ c', rejoined e0 c' = false) →
    (∀ c' cn', conns st0 !! c' = Some cn' → ∃ cn, conns st !! c' = Some cn ∧ c_cur cn = c_cur cn' ∧ c_lat cn = c_lat cn') →
    ∀ c' cn', conns (disconnect cfg st0 c).1 !! c' = Some cn' → is_Some (c_cur cn') →
    (∃ cn, conns st !! c' = Some cn ∧ c_cur cn = c_cur cn' ∧ c_lat cn = c_lat cn' ∧ rejoined e0 c' = false) ∨
    (actor e0 = Some c' ∧ rejoined e0 c' = true ∧ c_lat cn' = None)).
  { intros st0 e0 c Hrj H0 c' cn' Hc' Hcur. left.
    destruct (ctrans_inv _ _ _ _ _ (disconnect_ctrans cfg st0 c) Hc') as (cn0&Hc0&Hcv). cv_split.
    unfold at_conn in *. case_decide as Hd; simpl in *.
    - exfalso. destruct Hcur as [x Hx]. congruence.
    - destruct (H0 c' cn0 Hc0) as (cn&?&?&?). exists cn. repeat split; try congruence; try apply Hrj. }
  destruct o as [c|c r|c hint|sid|c|]; unfold e, st', ev_of in *; cbn [step consumed] in *.
  - (* connect *)
    destruct (conns st !! c) as [cn|] eqn:Hc; [by apply Hsame|]. cbn [fst snd]. split; [done|].
    intros c' cn'. simpl. destruct (decide (c' = c)) as [->|Hne].
    + rewrite lookup_insert. intros [= <-] [x Hx]. done.
    + rewrite lookup_insert_ne by done. intros Hc' _. left. exists cn'. by repeat split.
  - (* send *)
    unfold dispatch. destruct (conns st !! c) as [cn|] eqn:Hc; [|by apply Hsame].
    destruct (c_open cn) eqn:Ho; [|by apply Hsame]. cbn [negb].
    assert (Hq : ∀ f v, (∀ cn, c_cur (f cn) = c_cur cn ∧ c_lat (f cn) = c_lat cn) →
      next_ping (upd_conn c f st) = next_ping st ∧
      ∀ c' cn', conns (upd_conn c f st) !! c' = Some cn' → is_Some (c_cur cn') →
        (∃ cn, conns st !! c' = Some cn ∧ c_cur cn = c_cur cn' ∧ c_lat cn = c_lat cn' ∧
               rejoined {| ev_op := OSend c r; ev_req := None; ev_outs := []; ev_verdict := v |} c' = false) ∨
        (actor {| ev_op := OSend c r; ev_req := None; ev_outs := []; ev_verdict := v |} = Some c' ∧
         rejoined {| ev_op := OSend c r; ev_req := None; ev_outs := []; ev_verdict := v |} c' = true ∧ c_lat cn' = None)).
    { intros f v Hf. split; [done|]. intros c' cn'. rewrite conns_upd_conn. case_decide as Hd.
      - subst c'. rewrite Hc. simpl. intros [= <-] _. left. exists cn. destruct (Hf cn) as [-> ->]. by repeat split.
      - intros Hc' _. left. exists cn'. by repeat split. }
    destruct r; try (apply Hq; by intros []).
    destruct (ty =? 14); [|apply Hq; by intros []].
    destruct (disconnect cfg st c) as [st1 o1] eqn:Ed. cbn [fst snd]. split.
    { pose proof (disconnect_next_ping cfg st c) as Hp. by rewrite Ed in Hp. }
    change st1 with (st1, o1).1. rewrite <- Ed. apply Hdisc; [done|]. intros c' cn' Hc'. exists cn'. by repeat split.
  - (* step *)
    destruct (conns st !! c) as [cn|] eqn:Hc; [|by apply Hsame].
    destruct (c_open cn) eqn:Ho; [|by apply Hsame]. cbn [negb].
    destruct (c_queue cn) as [|r q] eqn:Hq; [by apply Hsame|]. cbn [head] in *.
    set (st0 := upd_conn c (set_queue q) st) in *.
    assert (Hs0 : same_mem st st0) by (apply same_mem_upd_conn; by intros []).
    assert (I0 : inv st0) by by eapply inv_same_mem.
    assert (Hc0 : conns st0 !! c = Some (set_queue q cn)).
    { unfold st0. rewrite conns_upd_conn_eq, Hc. done. }
    assert (H0 : ∀ c' cn', conns st0 !! c' = Some cn' → ∃ cn, conns st !! c' = Some cn ∧ c_cur cn = c_cur cn' ∧ c_lat cn = c_lat cn').
    { intros c' cn'. unfold st0. rewrite conns_upd_conn. case_decide as Hd.
      - subst c'. rewrite Hc. simpl. intros [= <-]. by exists cn.
      - intros Hc'. by exists cn'. }
    assert (Hlive : ∀ sid p, c_cur (set_queue q cn) = Some (sid, p) → is_Some (sessions st0 !! sid)).
    { intros sid p Hcur. apply live_session. apply (inv_live _ I0 c sid p). unfold cur_of. by rewrite Hc0. }
    destruct (handle cfg st0 c r hint) as [[st1 o1] v] eqn:Eh.
    pose proof (handle_outcomes cfg st0 c _ r hint st1 o1 v Hc0 Hlive Eh) as HO.
    assert (Hlat : is_lat_req r = true → False).
    { intros Hl. destruct HO as [Hj _ _|_ Hl' _ _|x _ -> _]; [by destruct r|congruence|].
      specialize (Hst c r). cbn [stepped ev_op ev_req ev_verdict fst snd] in Hst. rewrite Hst in Hl; done. }
    assert (Hrest : next_ping st1 = next_ping st ∧
      ∀ c' cn', conns st1 !! c' = Some cn' → is_Some (c_cur cn') →
        (∃ cn, conns st !! c' = Some cn ∧ c_cur cn = c_cur cn' ∧ c_lat cn = c_lat cn' ∧
           rejoined {| ev_op := OStep c hint; ev_req := Some r; ev_outs := o1; ev_verdict := v |} c' = false) ∨
        (v = VOk ∧ c' = c ∧ rejoined {| ev_op := OStep c hint; ev_req := Some r; ev_outs := o1; ev_verdict := v |} c' = true ∧
         c_lat cn' = None)).
    { destruct HO as [Hj -> JO|Hj Hl T Hp|x Hl _ _]; [| |by destruct (Hlat Hl)].
      - destruct r; try discriminate Hj. split.
        { pose proof (join_next_ping cfg st0 c rid sid ots hint) as Hp. unfold handle in Eh. rewrite Hc0 in Eh.
          change (c_cur (set_queue q cn)) with (c_cur cn) in Eh.
          destruct (c_cur cn) as [[s0 p0]|] eqn:Hcur.
          - destruct (Hlive s0 p0 Hcur) as [SS HS]. rewrite HS in Eh. simpl in Eh. by rewrite Eh in Hp.
          - simpl in Eh. by rewrite Eh in Hp. }
        intros c' cn' Hc' Hcur. destruct JO as [-> Hjr _|T Hjr|n p r u T Hjr].
        + left. destruct (H0 c' cn' Hc') as (cn0&?&?&?). exists cn0. repeat (split; [done|]).
          rewrite rejoined_step, Hjr. by rewrite andb_false_r.
        + left. destruct (ctrans_inv _ _ _ _ _ T Hc') as (cn0&Hcn0&Hcv). cv_split. unfold at_conn in *.
          case_decide as Hd; simpl in *; [exfalso; destruct Hcur as [x Hx]; congruence|].
          destruct (H0 c' cn0 Hcn0) as (cn1&?&?&?). exists cn1. repeat split; try congruence.
          rewrite rejoined_step, Hjr. by rewrite andb_false_r.
        + destruct (ctrans_inv _ _ _ _ _ T Hc') as (cn0&Hcn0&Hcv). cv_split. unfold at_conn in *.
          case_decide as Hd; simpl in *.
          * right. subst c'. repeat (split; [done|]). split; [|done]. by rewrite rejoined_step, Hjr, N.eqb_refl.
          * left. destruct (H0 c' cn0 Hcn0) as (cn1&?&?&?). exists cn1. repeat split; try congruence.
            rewrite rejoined_step. apply N.eqb_neq in Hd. by rewrite N.eqb_sym, Hd.
      - split; [done|]. intros c' cn' Hc' Hcur. left.
        destruct (ctrans_inv _ _ _ _ _ T Hc') as (cn0&Hcn0&Hcv). cv_split. unfold cid in *.
        destruct (H0 c' cn0 Hcn0) as (cn1&?&?&?). exists cn1. repeat split; try congruence.
        by apply (rejoined_nonjoin _ _ r). }
    destruct Hrest as [Hp1 Hrest].
    destruct v; cbn [fst snd]; try (split; [exact Hp1|]; intros c' cn' Hc' Hcur;
      destruct (Hrest c' cn' Hc' Hcur) as [?|(?&->&?&?)]; [by left|done || (right; by repeat split)]).
    destruct (disconnect cfg st1 c) as [st2 o2] eqn:Ed. cbn [fst snd]. split.
    { pose proof (disconnect_next_ping cfg st1 c) as Hp. rewrite Ed in Hp. simpl in Hp. congruence. }
    change st2 with (st2, o2).1. rewrite <- Ed. apply Hdisc.
    { intros c'. rewrite rejoined_step. destruct r; try done.
      destruct HO as [_ Hv _|Hj _ _ _|x Hl _ _]; done. }
    intros c' cn' Hc'.
    destruct HO as [_ Hv _|Hj Hl T Hp|x Hl _ _]; [done| |by destruct (Hlat Hl)].
    destruct (ctrans_inv _ _ _ _ _ T Hc') as (cn0&Hcn0&Hcv). cv_split. unfold cid in *.
    destruct (H0 c' cn0 Hcn0) as (cn1&?&?&?). exists cn1. repeat split; congruence.
  - (* tick *)
    cbn [fst snd]. split; [apply tick_next_ping|]. intros c' cn' Hc' _. left.
    destruct (sessions st !! sid) as [SS|] eqn:HS.
    + rewrite (tick_conns st sid SS c' HS) in Hc'. destruct (conns st !! c') as [cn|]; [|done]. simpl in Hc'.
      injection Hc' as <-. exists cn. split; [done|]. by case_decide.
    + rewrite (tick_conns_none st sid HS) in Hc'. exists cn'. by repeat split.
  - (* disconnect *)
    destruct (conns st !! c) as [cn|] eqn:Hc; [|by apply Hsame].
    destruct (c_open cn) eqn:Ho; [|by apply Hsame]. cbn [negb].
    destruct (disconnect cfg st c) as [st1 o1] eqn:Ed. cbn [fst snd]. split.
    { pose proof (disconnect_next_ping cfg st c) as Hp. by rewrite Ed in Hp. }
    change st1 with (st1, o1).1. rewrite <- Ed. apply Hdisc; [done|]. intros c' cn' Hc'. exists cn'. by repeat split.
  - (* snapshot *)
    cbn [fst snd]. split; [done|]. intros c' cn' Hc' _. left. exists cn'. by repeat split.
Qed.

Lemma lat_quiet_step cfg st o :
  (∀ c r, stepped (ev_of st o (step cfg st o)) = Some (c, r) → is_lat_req r = false) →
  qs is_lat (step cfg st o).1.2.
Proof.
  intros Hnl. destruct (stepped (ev_of st o (step cfg st o))) as [[c r]|] eqn:Hst.
  2:{ apply (qs_step is_lat is_lat_exc). intros c r. by rewrite Hst. }
  destruct (exc_req r) eqn:Hx.
  2:{ apply (qs_step is_lat is_lat_exc). intros c' r'. rewrite Hst. by intros [= <- <-]. }
  specialize (Hnl c r eq_refl). destruct r; try discriminate Hx; try discriminate Hnl.
  destruct (step_stepped cfg st o c _ Hst) as (hint&cn&q&st1&o1&v&->&Hc&Ho&Hq&Eh&Hv&Es). rewrite Es. cbn [fst snd].
  unfold handle in Eh. destruct (conns (upd_conn c (set_queue q) st) !! c) as [cn0|]; [|injection Eh as <- <- <-; constructor].
  destruct (c_cur cn0) as [[sid p0]|].
  - destruct (sessions (upd_conn c (set_queue q) st) !! sid) as [SS|]; [|injection Eh as <- <- <-; constructor].
    simpl in Eh. repeat case_match; simplify_eq; try constructor.
    by apply (Forall_broadcast (λ m, is_lat m = false)).
  - simpl in Eh. by injection Eh as <- <- <-.
Qed.

Lemma same_lines_refl' l : same_lines l l = true.
Proof. apply same_lines_refl. Qed.

(* ================= one step: the predicate is silent and the relation is kept ================= *)
Lemma c18_step_ok cfg st o k sp s i :
  inv st → bounded k st → k + 1 < two32 → reg st → refines_mem sp st → R18 st s →
  let e := ev_of st o (step cfg st o) in
  (P_C18_event cfg i sp (spec_step sp e) s e).2 = [] ∧
  R18 (step cfg st o).1.1 (P_C18_event cfg i sp (spec_step sp e) s e).1.
Proof.
  intros I B Hk G R RL e.
  destruct (step_sim cfg st o k sp i I B Hk G R) as [R' _]. fold e in R'.
  assert (Hgen : (∀ c r, stepped e = Some (c, r) → is_lat_req r = false) →
    (P_C18_event cfg i sp (spec_step sp e) s e).2 = [] ∧
    R18 (step cfg st o).1.1 (P_C18_event cfg i sp (spec_step sp e) s e).1).
  { intros Hnl. rewrite (P_C18_event_other _ _ _ _ _ _ Hnl). cbn [fst snd]. split.
    - apply c18_stray_quiet. by apply lat_quiet_step.
    - destruct (lat_frame cfg st o I Hnl) as [Hp Hfr]. fold e in Hfr.
      intros c' cn' sid' p' Hc' Hcur'.
      destruct (Hfr c' cn' Hc') as [(cn&Hcn&E1&E2&Hrj)|(Ha&Hrj&Hlat)]; [by rewrite Hcur'| |].
      + assert (Hs : c18_reset sp (spec_step sp e) s e !! c' = s !! c').
        { unfold c18_reset. destruct (actor e) as [a|]; [|done]. destruct (decide (a = c')) as [->|Hne].
          - unfold mem_changed. rewrite Hrj, orb_false_r. rewrite bool_decide_eq_true_2; [done|].
            rewrite (rm_mem _ _ R), (rm_mem _ _ R'). unfold cur_of. rewrite Hcn, Hc'. simpl. congruence.
          - unfold c18st in *. destruct (negb _); [done|by rewrite lookup_delete_ne]. }
        rewrite Hs. rewrite <- E1 in Hcur'. specialize (RL c' cn sid' p' Hcn Hcur'). rewrite <- E2, Hp. exact RL.
      + unfold c18_reset. rewrite Ha. unfold mem_changed. rewrite Hrj, orb_true_r. simpl.
        unfold c18st in *. rewrite lookup_delete. exact Hlat. }
  destruct (stepped e) as [[c r]|] eqn:Hst; [|apply Hgen; by intros].
  destruct (is_lat_req r) eqn:Hl; [|apply Hgen; by intros c' r' [= <- <-]].
  clear Hgen.
  assert (Hj : is_join r = false) by (by destruct r).
  pose proof (mem_changed_nonjoin sp e c r Hst Hj) as Hm.
  destruct (sp_mem sp !! c) as [[sid p]|] eqn:Hmem.
  - (* a member *)
    destruct (step_member cfg st o sp c r sid p I R Hst Hmem) as (hint&cn&q&SS&st1&o1&v&->&Hc&Hcur&HS&Hp&Hinj&Hc0&_&Eh&Es).
    set (st0 := upd_conn c (set_queue q) st) in *.
    assert (H0 : ∀ c' cn', conns st0 !! c' = Some cn' → ∃ cn, conns st !! c' = Some cn ∧ c_cur cn = c_cur cn' ∧ c_lat cn = c_lat cn').
    { intros c' cn'. unfold st0. rewrite conns_upd_conn. case_decide as Hd.
      - subst c'. rewrite Hc. simpl. intros [= <-]. by exists cn.
      - intros Hc'. by exists cn'. }
    assert (Hu : uuid_of sp sid = s_uuid SS).
    { unfold uuid_of. rewrite (rm_uuid _ _ R). unfold uuid_at. by rewrite HS. }
    pose proof (RL c cn sid p Hc Hcur) as RLc.
    destruct r; try discriminate Hl.
    + (* an answer *)
      rewrite (P_C18_event_answer _ _ _ _ _ _ _ _ Hst Hm), Hmem. cbv zeta.
      unfold e, ev_of. rewrite Es. cbn [ev_outs fst snd]. simpl in Eh.
      assert (Hrefuse : on_ping st0 c (set_queue q cn) rid = (st0, [(c, MError rid E_INTERNAL)], VOk) →
        (s, okv i (same_lines o1 [(c, MError rid E_INTERNAL)]) 1805 [zn c; zn rid]).2 = [] ∧
        R18 st1 (s, okv i (same_lines o1 [(c, MError rid E_INTERNAL)]) 1805 [zn c; zn rid]).1).
      { intros Hop. rewrite Hop in Eh. injection Eh as <- <- <-. cbn [fst snd]. rewrite same_lines_refl'. split; [done|].
        eapply R18_frame; [exact RL|reflexivity|]. intros c' cn' Hc' _. by apply H0. }
      unfold c18st in *.
      destruct (s !! c) as [L|] eqn:HL.
      * destruct RLc as (l&Hlat&Hrel).
        pose proof (on_ping_rel st0 c (set_queue q cn) rid L l Hlat Hrel) as Hop.
        change (next_ping st0) with (next_ping st) in Hop.
        destruct (m_done L || negb (memN rid (m_issued L)) || memN rid (m_answered L)); [by apply Hrefuse|].
        destruct (N.of_nat (length (m_answered L ++ [rid])) <? m_n L).
        -- destruct Hop as (l'&st1'&Hop&Hcn&Hss&Hnp&Hfresh&Hrel'). rewrite Hop in Eh. injection Eh as <- <- <-.
           rewrite only_out_single. cbn [fst snd]. rewrite Hfresh. split; [done|].
           apply (R18_set st _ s c _ l'); [exact RL|simpl; rewrite Hnp; simpl; lia| | |].
           ++ intros c' cn' Hne. rewrite conns_upd_conn_ne, Hcn by done. intros Hc' _. by apply H0.
           ++ intros cn'. rewrite conns_upd_conn_eq, Hcn, Hc0. simpl. by intros [= <-].
           ++ simpl. rewrite Hnp. exact Hrel'.
        -- destruct Hop as (l'&Hop&Hrel'). rewrite Hop in Eh. injection Eh as <- <- <-.
           rewrite only_out_single. cbn [fst snd].
           destruct Hrel as [_ _ _ _ _ Hnd _].
           rewrite !N.eqb_refl. simpl.
           rewrite (bool_decide_eq_true_2 (sortN (m_issued L) = sortN (m_issued L))) by done.
           rewrite (bool_decide_eq_true_2 (NoDup (m_issued L))) by done. simpl. split.
           ++ destruct Hrel' as [_ _ _ _ Hsh _ _]. simpl in Hsh. destruct Hsh as (_&Hi&Hn).
              rewrite Hi. rewrite Hn. by rewrite N.eqb_refl.
           ++ apply (R18_set st _ s c _ l'); [exact RL|reflexivity| | |exact Hrel'].
              ** intros c' cn' Hne. rewrite conns_upd_conn_ne by done. intros Hc' _. by apply H0.
              ** intros cn'. rewrite conns_upd_conn_eq, Hc0. simpl. by intros [= <-].
      * apply Hrefuse. unfold on_ping. simpl. by rewrite RLc.
    + (* a start *)
      rewrite (P_C18_event_start _ _ _ _ _ _ _ _ _ _ Hst Hm), Hmem.
      unfold e, ev_of. rewrite Es. cbn [ev_outs fst snd]. simpl in Eh.
      destruct ((n <? lat_min) || (lat_max <? n)) eqn:E1; simpl.
      { injection Eh as <- <- <-. rewrite same_lines_refl'. split; [done|].
        eapply R18_frame; [exact RL|reflexivity|]. intros c' cn' Hc' _. by apply H0. }
      destruct (wallet =? 0) eqn:E2.
      { injection Eh as <- <- <-. rewrite same_lines_refl'. split; [done|].
        eapply R18_frame; [exact RL|reflexivity|]. intros c' cn' Hc' _. by apply H0. }
      unfold send_ping in Eh. injection Eh as <- <- <-. rewrite only_out_single. cbn [fst snd]. split; [done|].
      eapply (R18_set st _ s c); [exact RL|simpl; lia| | |].
      * intros c' cn' Hne. rewrite conns_upd_conn_ne by done. intros Hc' _. by apply H0.
      * intros cn'. rewrite conns_upd_conn_eq. cbn [conns]. rewrite Hc, lookup_insert. simpl. by intros [= <-].
      * apply orb_false_iff in E1 as [E1a E1b]. apply N.ltb_ge in E1a, E1b. unfold lat_min, lat_max in *.
        split; simpl; try done.
        -- exists (next_ping st + 1). split; [done|]. split; [done|]. lia.
        -- apply NoDup_singleton.
        -- intros id ->%elem_of_list_singleton. lia.
  - (* in no session *)
    destruct (step_nonmember cfg st o sp c r R Hst Hmem) as (hint&cn&q&st1&o1&v&->&Hc&Hcur&Hc0&_&Eh&Es).
    set (st0 := upd_conn c (set_queue q) st) in *.
    assert (H0 : ∀ c' cn', conns st0 !! c' = Some cn' → ∃ cn, conns st !! c' = Some cn ∧ c_cur cn = c_cur cn' ∧ c_lat cn = c_lat cn').
    { intros c' cn'. unfold st0. rewrite conns_upd_conn. case_decide as Hd.
      - subst c'. rewrite Hc. simpl. intros [= <-]. by exists cn.
      - intros Hc'. by exists cn'. }
    destruct r; try discriminate Hl.
    + rewrite (P_C18_event_answer _ _ _ _ _ _ _ _ Hst Hm), Hmem.
      unfold e, ev_of. rewrite Es. cbn [ev_outs fst snd]. simpl in Eh. injection Eh as <- <- <-.
      rewrite same_lines_refl'. split; [done|].
      eapply R18_frame; [exact RL|reflexivity|]. intros c' cn' Hc' _. by apply H0.
    + rewrite (P_C18_event_start _ _ _ _ _ _ _ _ _ _ Hst Hm), Hmem.
      unfold e, ev_of. rewrite Es. cbn [ev_outs fst snd]. simpl in Eh. injection Eh as <- <- <-.
      rewrite same_lines_refl'. split; [done|].
      eapply R18_frame; [exact RL|reflexivity|]. intros c' cn' Hc' _. by apply H0.
Qed.

(* ================= every history ================= *)
Definition c18_f (cfg : config) : nat → spec → spec → c18st → event → c18st * list violation :=
  λ i sp sp' s e, let '(s', v) := P_C18_event cfg i sp sp' s e in (s', v ++ bad_msgs i 1800 e).
(* the predicate's bookkeeping after a trace *)
Definition c18_state (cfg : config) (t : trace) : c18st := xstate (c18_f cfg) 0 spec0 (∅ : c18st) t.

Lemma step_bad_msgs' cfg st o k sp i b :
  inv st → bounded k st → k + 1 < two32 → reg st → refines_mem sp st →
  bad_msgs i b (ev_of st o (step cfg st o)) = [].
Proof.
  intros I B Hk G R. destruct (step_sim cfg st o k sp 0%nat I B Hk G R) as [_ C]. unfold P_C07_event in C.
  apply app_eq_nil in C as [_ C]. apply app_eq_nil in C as [_ C]. by eapply bad_msgs_base.
Qed.

(* the relation holds after every history, and the predicate is silent *)
Theorem model_C18_rel cfg h :
  short h → P_C18 cfg (run cfg h) = [] ∧ R18 (final cfg h) (c18_state cfg (run cfg h)).
Proof.
  induction h as [|o h IH] using rev_ind; intros Hs.
  { split; [done|]. intros c cn sid p. simpl. by rewrite lookup_empty. }
  apply short_snoc in Hs as [Hs Hb]. destruct (IH Hs) as [IH1 IH2].
  assert (Hlen : N.of_nat (length h) < two32) by (unfold short in Hs; lia).
  destruct (reachable_inv cfg h state0 0 inv_state0 bounded_state0) as [I B]; [lia|].
  destruct (reachable_reg cfg h Hlen) as [G _].
  pose proof (refinement_mem cfg h Hs) as R.
  unfold P_C18, c18_state in *. change (λ i sp sp' s e, let '(s', v) := P_C18_event cfg i sp sp' s e in (s', v ++ bad_msgs i 1800 e)) with (c18_f cfg) in *.
  rewrite run_snoc, xscan_snoc, xstate_snoc, IH1, final_snoc. cbn [app].
  change (fold_left spec_step (run cfg h) spec0) with (spec_after (run cfg h)).
  set (sp := spec_after (run cfg h)) in *. set (st := final cfg h) in *. set (s := xstate (c18_f cfg) 0 spec0 ∅ (run cfg h)) in *.
  set (e := ev_of st o (step cfg st o)).
  destruct (c18_step_ok cfg st o (0 + N.of_nat (length h)) sp s (0 + length (run cfg h)) I B ltac:(lia) G R IH2) as [C1 C2].
  fold e in C1, C2. unfold c18_f.
  destruct (P_C18_event cfg (0 + length (run cfg h)) sp (spec_step sp e) s e) as [s' v]. cbn [fst snd] in *. subst v.
  split; [|exact C2]. simpl. eapply step_bad_msgs'; try done. lia.
Qed.

Theorem model_passes_C18 cfg h : short h → P_C18 cfg (run cfg h) = [].
Proof. intros Hs. by destruct (model_C18_rel cfg h Hs). Qed.

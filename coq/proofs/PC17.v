(* proofs/PC17.v — feature flags suppress exactly their own message class and change nothing else (C17):
   running the model under any flag set = running it with no flag and filtering the deliveries. *)
From hagall Require Import Model Preds2.
From hagall.proofs Require Import BaseLemmas Relay Inv Session.
From Coq Require Import Lia.

(* the same configuration with no flag set *)
Definition noflags (cfg : config) : config :=
  {| cfg_flags := []; cfg_vikja := cfg_vikja cfg; cfg_odal := cfg_odal cfg; cfg_dagaz := cfg_dagaz cfg |}.

Lemma ff_nil cfg : filter_flags cfg [] = [].
Proof. done. Qed.
Lemma ff_app cfg l1 l2 : filter_flags cfg (l1 ++ l2) = filter_flags cfg l1 ++ filter_flags cfg l2.
Proof. unfold filter_flags. apply List.filter_app. Qed.
Lemma ff_cons cfg c m l :
  filter_flags cfg ((c, m) :: l) = if suppressed cfg m then filter_flags cfg l else (c, m) :: filter_flags cfg l.
Proof. unfold filter_flags. simpl. by destruct (suppressed cfg m). Qed.
Lemma ff_all cfg (l : list delivery) m :
  (∀ d, d ∈ l → snd d = m) → filter_flags cfg l = if suppressed cfg m then [] else l.
Proof.
  intros H. induction l as [|[c m'] l IH]; [by destruct (suppressed cfg m)|].
  rewrite ff_cons. assert (m' = m) as -> by (apply (H (c, m')); by left).
  rewrite IH by (intros d Hd; apply H; by right). by destruct (suppressed cfg m).
Qed.
Lemma ff_broadcast cfg SS p m : filter_flags cfg (broadcast SS p m) = if suppressed cfg m then [] else broadcast SS p m.
Proof. apply ff_all. intros [c m'] H. by apply broadcast_spec in H as [-> _]. Qed.
Lemma ff_broadcast_to cfg SS p ids m :
  filter_flags cfg (broadcast_to SS p ids m) = if suppressed cfg m then [] else broadcast_to SS p ids m.
Proof. apply ff_all. intros [c m'] H. by apply broadcast_to_spec in H as [-> _]. Qed.
Lemma ff_id cfg (l : list delivery) : (∀ d, d ∈ l → suppressed cfg (snd d) = false) → filter_flags cfg l = l.
Proof.
  induction l as [|[c m] l IH]; intros H; [done|]. rewrite ff_cons.
  assert (Hs : suppressed cfg m = false) by (apply (H (c, m)); by left). rewrite Hs.
  rewrite IH; [done|]. intros d Hd. apply H. by right.
Qed.

Ltac ffs := rewrite ?ff_app, ?ff_cons, ?ff_broadcast, ?ff_broadcast_to, ?ff_nil; unfold suppressed; simpl.

Lemma cleanup_noflags cfg eid SS : cleanup_modules (noflags cfg) eid SS = cleanup_modules cfg eid SS.
Proof. done. Qed.
Lemma module_disconnect_noflags cfg own SS : module_disconnect (noflags cfg) own SS = module_disconnect cfg own SS.
Proof. done. Qed.
Lemma module_join_noflags cfg c SS : module_join_msgs (noflags cfg) c SS = module_join_msgs cfg c SS.
Proof. done. Qed.
Lemma ff_module_join cfg c SS : filter_flags cfg (module_join_msgs cfg c SS) = module_join_msgs cfg c SS.
Proof.
  apply ff_id. intros d. unfold module_join_msgs. destruct (cfg_vikja cfg), (cfg_odal cfg); simpl.
  all: intros H; repeat (apply elem_of_cons in H as [->|H]); try done; by inversion H.
Qed.

(* ---------- session-local requests ---------- *)
Lemma sstep_filter cfg c p own SS r :
  sstep cfg c p own SS r =
    ((sstep (noflags cfg) c p own SS r).1.1, (sstep (noflags cfg) c p own SS r).1.2,
     filter_flags cfg (sstep (noflags cfg) c p own SS r).2).
Proof.
  destruct r; simpl; try done.
  all: repeat case_match; simplify_eq; simpl; ffs;
       repeat match goal with H : flag_on _ _ = _ |- _ => rewrite H end; try done.
Qed.

(* ---------- departure, join ---------- *)
Lemma remove_doomed_filter cfg p l SS :
  remove_doomed cfg p l SS = ((remove_doomed (noflags cfg) p l SS).1, filter_flags cfg (remove_doomed (noflags cfg) p l SS).2).
Proof.
  revert SS. induction l as [|eid l IH]; intros SS; simpl; [done|].
  rewrite (IH (set_ents (delete eid) (set_store (store_delete_entity eid) SS))).
  destruct (remove_doomed (noflags cfg) p l _) as [S2 o2]. simpl. ffs. by destruct (flag_on cfg F_ENTITY_DELETE_B).
Qed.

Lemma leave_filter cfg st c :
  leave cfg st c = ((leave (noflags cfg) st c).1, filter_flags cfg (leave (noflags cfg) st c).2).
Proof.
  unfold leave. destruct (conns st !! c) as [cn|]; [|done]. destruct (c_cur cn) as [[sid p]|]; [|done].
  destruct (sessions st !! sid) as [SS|]; [|done]. rewrite module_disconnect_noflags.
  rewrite remove_doomed_filter. destruct (remove_doomed (noflags cfg) p _ _) as [S3 o1]. simpl.
  ffs. by destruct (flag_on cfg F_LEAVE_B); case_decide.
Qed.

Lemma enter_filter cfg st c rid n ots :
  enter cfg st c rid n ots =
    ((enter (noflags cfg) st c rid n ots).1.1, filter_flags cfg (enter (noflags cfg) st c rid n ots).1.2,
     (enter (noflags cfg) st c rid n ots).2).
Proof.
  unfold enter. destruct (sessions st !! n) as [SS|]; [|done]. simpl. rewrite module_join_noflags.
  ffs. rewrite ff_module_join. by destruct (flag_on cfg F_SESSION_STATE), (flag_on cfg F_JOIN_B).
Qed.

Lemma join_filter cfg st c rid s ots hint :
  Model.join cfg st c rid s ots hint =
    ((Model.join (noflags cfg) st c rid s ots hint).1.1, filter_flags cfg (Model.join (noflags cfg) st c rid s ots hint).1.2,
     (Model.join (noflags cfg) st c rid s ots hint).2).
Proof.
  unfold Model.join. destruct (conns st !! c) as [cn|]; [|done].
  destruct (already_joined cn s).
  { simpl. ffs. destruct (c_cur cn) as [[cur ?]|]; [|done]. destruct (sessions st !! cur); [|done].
    by rewrite module_join_noflags, ff_module_join. }
  rewrite leave_filter. destruct (leave (noflags cfg) st c) as [st1 o1]. simpl.
  destruct s as [|n|k]; simpl; ffs; try done.
  - destruct (create_session hint st1) as [n st2]. rewrite enter_filter.
    destruct (enter (noflags cfg) st2 c rid n ots) as [[st3 o2] v]. simpl. by rewrite ff_app.
  - destruct (sessions st1 !! n); simpl; ffs; [|done]. rewrite enter_filter.
    destruct (enter (noflags cfg) st1 c rid n ots) as [[st2 o2] v]. simpl. by rewrite ff_app.
Qed.

(* ---------- handlers ---------- *)
Lemma on_ping_unsuppressed cfg st c cn rid : filter_flags cfg (on_ping st c cn rid).1.2 = (on_ping st c cn rid).1.2.
Proof. unfold on_ping, send_ping. repeat case_match; simplify_eq; simpl; done. Qed.

Lemma handle_joined_filter cfg st c cn sid p SS r hint :
  conns st !! c = Some cn → sessions st !! sid = Some SS →
  handle_joined cfg st c cn sid p SS r hint =
    ((handle_joined (noflags cfg) st c cn sid p SS r hint).1.1,
     filter_flags cfg (handle_joined (noflags cfg) st c cn sid p SS r hint).1.2,
     (handle_joined (noflags cfg) st c cn sid p SS r hint).2).
Proof.
  intros Hc HS. destruct (session_local r) eqn:Hl.
  - rewrite !(handle_joined_sstep _ st c cn sid p SS r hint Hl Hc HS). unfold apply_sstep. simpl.
    by rewrite (sstep_filter cfg).
  - destruct r; try discriminate Hl; simpl.
    all: try (repeat case_match; simplify_eq; simpl; done).
    + rewrite (on_ping_unsuppressed cfg st c cn rid). by destruct (on_ping st c cn rid) as [[? ?] ?].
    + apply join_filter.
Qed.

Lemma handle_unjoined_filter cfg st c cn r hint :
  handle_unjoined cfg st c cn r hint =
    ((handle_unjoined (noflags cfg) st c cn r hint).1.1, filter_flags cfg (handle_unjoined (noflags cfg) st c cn r hint).1.2,
     (handle_unjoined (noflags cfg) st c cn r hint).2).
Proof.
  destruct r; simpl; try (repeat case_match; simplify_eq; simpl; done). apply join_filter.
Qed.

Lemma handle_filter cfg st c r hint :
  handle cfg st c r hint =
    ((handle (noflags cfg) st c r hint).1.1, filter_flags cfg (handle (noflags cfg) st c r hint).1.2,
     (handle (noflags cfg) st c r hint).2).
Proof.
  unfold handle. destruct (conns st !! c) as [cn|] eqn:Hc; [|done].
  destruct (c_cur cn) as [[sid p]|]; [|apply handle_unjoined_filter].
  destruct (sessions st !! sid) as [SS|] eqn:HS; [|done]. by apply handle_joined_filter.
Qed.

Lemma disconnect_filter cfg st c :
  disconnect cfg st c = ((disconnect (noflags cfg) st c).1, filter_flags cfg (disconnect (noflags cfg) st c).2).
Proof. unfold disconnect. rewrite leave_filter. by destruct (leave (noflags cfg) st c). Qed.

(* one step under the flags = the flag-free step with the suppressed classes filtered out *)
Theorem step_filter cfg st o :
  step cfg st o = ((step (noflags cfg) st o).1.1, filter_flags cfg (step (noflags cfg) st o).1.2, (step (noflags cfg) st o).2).
Proof.
  destruct o as [c|c r|c hint|s|c|]; simpl; try done.
  - by destruct (conns st !! c).
  - unfold dispatch. destruct (conns st !! c) as [cn|]; [|done]. destruct (c_open cn); [|done]. simpl.
    destruct r; simpl; try done. destruct (ty =? 14); [|done].
    rewrite disconnect_filter. by destruct (disconnect (noflags cfg) st c).
  - destruct (conns st !! c) as [cn|]; [|done]. destruct (c_open cn); [|done]. simpl.
    destruct (c_queue cn) as [|r q]; [done|]. rewrite handle_filter.
    destruct (handle (noflags cfg) (upd_conn c (set_queue q) st) c r hint) as [[st1 o1] v]. simpl.
    destruct v; try done. rewrite disconnect_filter. destruct (disconnect (noflags cfg) st1 c). simpl. by rewrite ff_app.
  - destruct (conns st !! c) as [cn|]; [|done]. destruct (c_open cn); [|done]. simpl.
    rewrite disconnect_filter. by destruct (disconnect (noflags cfg) st c).
Qed.

(* whole histories: same states, same verdicts, same consumed requests, filtered deliveries *)
Definition filter_event (cfg : config) (e : event) : event :=
  {| ev_op := ev_op e; ev_req := ev_req e; ev_outs := filter_flags cfg (ev_outs e); ev_verdict := ev_verdict e |}.

Theorem run_filter cfg st h :
  run_from cfg st h = (map (filter_event cfg) (run_from (noflags cfg) st h).1, (run_from (noflags cfg) st h).2).
Proof.
  revert st. induction h as [|o h IH]; intros st; simpl; [done|].
  rewrite step_filter. destruct (step (noflags cfg) st o) as [[st1 outs] v]. simpl.
  rewrite IH. destruct (run_from (noflags cfg) st1 h) as [t st2]. done.
Qed.

(* a flag that names no message class (unknown names) has no effect *)
Lemma unknown_flag_no_effect cfg (m : msg) (extra : list N) :
  (∀ f, f ∈ extra → 9 < f) →
  suppressed {| cfg_flags := cfg_flags cfg ++ extra; cfg_vikja := cfg_vikja cfg; cfg_odal := cfg_odal cfg; cfg_dagaz := cfg_dagaz cfg |} m
  = suppressed cfg m.
Proof.
  intros H. unfold suppressed, flag_on. simpl. destruct (msg_class m) as [f|] eqn:E; [|done].
  assert (Hf : f ≤ 9) by (destruct m; simpl in E; simplify_eq; vm_compute; by intros).
  destruct (memN f (cfg_flags cfg ++ extra)) eqn:E1, (memN f (cfg_flags cfg)) eqn:E2; try done.
  - apply memN_elem in E1. apply memN_false in E2. apply elem_of_app in E1 as [E1|E1]; [done|]. specialize (H _ E1). lia.
  - apply memN_false in E1. apply memN_elem in E2. destruct E1. apply elem_of_app. by left.
Qed.

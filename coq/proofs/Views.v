(* proofs/Views.v — the simulation of replicated views over whole histories (C01).
   The views threaded by the executable predicate P_C01 (Preds2.v) are related to the model state after
   every event: every member's view matches its session; every broadcast is applicable when delivered. *)
From stdpp Require Import relations.
From hagall Require Import Model Preds2.
From hagall.proofs Require Import BaseLemmas Relay Inv Session Local Trans WF Mono Reach PC02 PC03 PC04 PC06 PC01.
From hagall.proofs Require Own.
From Coq Require Import Lia.

(* ================= 1. P_C01_event, cut into its three view-updating phases ================= *)
Definition msgs_to (q : N) (outs : list delivery) : list msg :=
  map snd (List.filter (λ d : delivery, fst d =? q) outs).

Definition recv_one (act : option N) (i : nat) (acc : gmap N view * list violation) (d : delivery) : gmap N view * list violation :=
  let '(vs, l) := acc in
  if bool_decide (Some (fst d) = act) then acc else
  match vs !! fst d with
  | None => acc
  | Some v => let '(ok, v') := view_recv v (snd d) in
              (<[fst d := v']> vs, l ++ okv i ok 106 [zn (fst d); hd 0%Z (enc_msg (snd d))])
  end.
Definition recv_fold (act : option N) (i : nat) (outs : list delivery) (acc : gmap N view * list violation) :=
  fold_left (recv_one act i) outs acc.

Definition rejoin_view (mine : list msg) (v : view) : view :=
  let v1 := match head (omap (λ m, match m with MVikjaState a => Some a | _ => None end) mine) with
            | Some a => vset_acts (λ _, list_to_map (map (λ a : action, ((a_eid a, a_name a), a)) a)) v | None => v end in
  match head (omap (λ m, match m with MOdalState a => Some a | _ => None end) mine) with
  | Some a => vset_assets (λ _, list_to_map (map (λ a : asset, (as_eid a, a)) a)) v1 | None => v1 end.

Definition own_step (sp sp' : spec) (e : event) (vs1 : gmap N view) : gmap N view :=
  match actor e with
  | None => vs1
  | Some c =>
    let mine := map snd (List.filter (λ d : delivery, fst d =? c) (ev_outs e)) in
    let left := mem_changed sp sp' e c in
    match sp_mem sp' !! c with
    | None => delete c vs1
    | Some (sid, p) =>
        if left then <[c := view_init sid p mine]> vs1
        else match ev_req e, vs1 !! c with
             | Some (RJoin _ _ _), Some v => <[c := rejoin_view mine v]> vs1
             | Some r, Some v => <[c := view_own v r mine]> vs1
             | _, _ => vs1
             end
    end
  end.

Definition dirty_one (i : nat) (outs : list delivery) (tid eid : N) (acc : gmap N view * list violation) (pc : N * N) :=
  let '(vs, l) := acc in
  if has_msg (snd pc) outs (notif_about tid eid) then acc else
  match vs !! snd pc with
  | None => acc
  | Some v => if bool_decide (tid ∈ v_synced v) then (vs, l ++ [viol i 105 [zn (snd pc); zn tid; zn eid]])
              else (<[snd pc := vset_sync (v_subd v) (v_synced v) (v_dirty v ∪ {[tid]}) v]> vs, l)
  end.
Definition dirty_step (i : nat) (sp : spec) (e : event) (vs2 : gmap N view) : gmap N view * list violation :=
  match stepped e with
  | Some (c, r) =>
      match sp_mem sp !! c with
      | Some (sid, p) =>
          match comp_change sp c sid p r (ev_outs e) with
          | Some (tid, eid) => fold_left (dirty_one i (ev_outs e) tid eid) (sp_others sp sid p) (vs2, [])
          | None => (vs2, [])
          end
      | None => (vs2, [])
      end
  | None => (vs2, [])
  end.

Definition rest_viols (cfg : config) (i : nat) (sp sp' : spec) (e : event) (vs3 : gmap N view) : list violation :=
  let outs := ev_outs e in
  let viol4 :=
    match ev_op e with
    | OSnap =>
      flat_map (λ d : delivery, match snd d with
        | MSnap ss g q =>
          flat_map (λ d0 : sdump,
            let dd := canon_dump d0 in
            flat_map (λ pc : N * N,
              match vs3 !! snd pc with
              | None => [viol i 100 [zn (snd pc)]]
              | Some v =>
                  okv i (bool_decide (sortN (elements (v_parts v)) = d_parts dd)) 101 [zn (snd pc); zn (d_sid dd)] ++
                  okv i (bool_decide (sort_by eEnt (map snd (map_to_list (v_ents v))) = map fst (d_ents dd))) 102 [zn (snd pc); zn (d_sid dd)] ++
                  okv i (bool_decide (sort_by eComp (omap (λ kv : (N*N) * N, if bool_decide (fst (fst kv) ∈ v_synced v)
                             then Some {| cp_tid := fst (fst kv); cp_eid := snd (fst kv); cp_data := snd kv |} else None) (map_to_list (v_comps v)))
                           = List.filter (λ x, bool_decide (cp_tid x ∈ v_synced v)) (d_comps dd))) 103 [zn (snd pc); zn (d_sid dd)] ++
                  (if cfg_vikja cfg then okv i (bool_decide (sort_by eAction (map snd (map_to_list (v_acts v))) = d_actions dd)) 104 [zn (snd pc); zn (d_sid dd)] else []) ++
                  (if cfg_odal cfg then okv i (bool_decide (sort_by eAsset (map snd (map_to_list (v_assets v))) = d_assets dd)) 107 [zn (snd pc); zn (d_sid dd)] else [])
              end) (sp_members sp (d_sid dd))) ss
        | _ => [] end) outs
    | _ => []
    end in
  let viol5 :=
    match stepped e with
    | Some (c, RJoin _ _ _) =>
        match join_resp c outs with
        | Some (_, sid, _, _) => join_snapshot_check cfg sel_all 100 i sp' c sid outs
        | None => [] end
    | _ => []
    end in
  viol4 ++ viol5 ++
  snap_check cfg {| k_parts := true; k_ents := true; k_comps := true; k_acts := true; k_assets := true;
                    k_types := false; k_subs := false; k_reg := false |} 100 i sp e ++ bad_msgs i 100 e.

Definition P_C01_event' (cfg : config) (i : nat) (sp sp' : spec) (vs : gmap N view) (e : event) : gmap N view * list violation :=
  let '(vs1, viol1) := recv_fold (actor e) i (ev_outs e) (vs, []) in
  let vs2 := own_step sp sp' e vs1 in
  let '(vs3, viol3) := dirty_step i sp e vs2 in
  (vs3, viol1 ++ viol3 ++ rest_viols cfg i sp sp' e vs3).

Lemma P_C01_event_eq cfg i sp sp' vs e : P_C01_event cfg i sp sp' vs e = P_C01_event' cfg i sp sp' vs e.
Proof. reflexivity. Qed.

(* ================= 2. per-connection reading of the delivery phase ================= *)
Lemma msgs_to_app q a b : msgs_to q (a ++ b) = msgs_to q a ++ msgs_to q b.
Proof. unfold msgs_to. by rewrite List.filter_app, map_app. Qed.
Lemma msgs_to_cons_eq q m l : msgs_to q ((q, m) :: l) = m :: msgs_to q l.
Proof. unfold msgs_to. simpl. by rewrite N.eqb_refl. Qed.
Lemma msgs_to_cons_ne q c m l : c ≠ q → msgs_to q ((c, m) :: l) = msgs_to q l.
Proof. intros Hne. unfold msgs_to. simpl. apply N.eqb_neq in Hne. by rewrite Hne. Qed.
Lemma msgs_to_none q l : q ∉ map fst l → msgs_to q l = [].
Proof.
  induction l as [|[c m] l IH]; [done|]. simpl. intros Hn. rewrite msgs_to_cons_ne.
  - apply IH. intros H. apply Hn. by right.
  - intros ->. apply Hn. by left.
Qed.
Lemma msgs_to_once q m l : NoDup (map fst l) → (q, m) ∈ l → msgs_to q l = [m].
Proof.
  induction l as [|[c m'] l IH]; [by inversion 2|]. simpl. intros [Hn Hnd]%NoDup_cons Hin.
  apply elem_of_cons in Hin as [[= <- <-]|Hin].
  - rewrite msgs_to_cons_eq. by rewrite msgs_to_none.
  - rewrite msgs_to_cons_ne; [by apply IH|]. intros ->. apply Hn. apply elem_of_list_fmap. by exists (q, m).
Qed.
Lemma msgs_to_elem q m l : m ∈ msgs_to q l ↔ (q, m) ∈ l.
Proof.
  unfold msgs_to. rewrite elem_of_list_fmap. split.
  - intros ([c m']&->&H). apply elem_of_list_In, filter_In in H as [H1 H2]. simpl in *.
    apply N.eqb_eq in H2 as ->. by apply elem_of_list_In.
  - intros H. exists (q, m). split; [done|]. apply elem_of_list_In, filter_In. split; [by apply elem_of_list_In|]. simpl. apply N.eqb_refl.
Qed.

Definition recv_all (v : view) (ms : list msg) : view := fold_left (λ v m, (view_recv v m).2) ms v.
Fixpoint recv_oks (v : view) (ms : list msg) : bool :=
  match ms with [] => true | m :: ms' => (view_recv v m).1 && recv_oks (view_recv v m).2 ms' end.
Lemma recv_all_app v a b : recv_all v (a ++ b) = recv_all (recv_all v a) b.
Proof. unfold recv_all. by rewrite fold_left_app. Qed.
Lemma recv_oks_app v a b : recv_oks v (a ++ b) = recv_oks v a && recv_oks (recv_all v a) b.
Proof. revert v. induction a as [|m a IH]; intros v; simpl; [done|]. by rewrite IH, andb_assoc. Qed.

Lemma recv_fold_lookup act i outs vs l q :
  (recv_fold act i outs (vs, l)).1 !! q =
    if bool_decide (Some q = act) then vs !! q else (λ v, recv_all v (msgs_to q outs)) <$> vs !! q.
Proof.
  revert vs l. induction outs as [|[c m] outs IH]; intros vs l.
  - simpl. destruct (bool_decide (Some q = act)); [done|]. by destruct (vs !! q).
  - unfold recv_fold. cbn [fold_left]. fold (recv_fold act i outs (recv_one act i (vs, l) (c, m))).
    unfold recv_one. cbn [fst snd].
    destruct (bool_decide (Some c = act)) eqn:Ea.
    { apply bool_decide_eq_true in Ea. rewrite IH.
      destruct (bool_decide (Some q = act)) eqn:Hq; [done|]. apply bool_decide_eq_false in Hq.
      rewrite msgs_to_cons_ne; [done|]. intros ->. done. }
    apply bool_decide_eq_false in Ea.
    destruct (vs !! c) as [v|] eqn:Ec.
    + destruct (view_recv v m) as [ok v'] eqn:Er. rewrite IH.
      destruct (bool_decide (Some q = act)) eqn:Hq.
      * apply bool_decide_eq_true in Hq. rewrite lookup_insert_ne; [done|]. intros ->. done.
      * destruct (decide (c = q)) as [->|Hne].
        -- rewrite lookup_insert, Ec, msgs_to_cons_eq. simpl. unfold recv_all at 2. simpl. by rewrite Er.
        -- rewrite lookup_insert_ne by done. by rewrite msgs_to_cons_ne.
    + rewrite IH. destruct (bool_decide (Some q = act)) eqn:Hq; [done|].
      destruct (decide (c = q)) as [->|Hne]; [by rewrite Ec|]. by rewrite msgs_to_cons_ne.
Qed.

Lemma recv_fold_viols act i outs vs l :
  (∀ q v, Some q ≠ act → vs !! q = Some v → recv_oks v (msgs_to q outs) = true) →
  (recv_fold act i outs (vs, l)).2 = l.
Proof.
  revert vs l. induction outs as [|[c m] outs IH]; intros vs l Hok; [done|].
  unfold recv_fold. cbn [fold_left]. fold (recv_fold act i outs (recv_one act i (vs, l) (c, m))).
  unfold recv_one. cbn [fst snd].
  destruct (bool_decide (Some c = act)) eqn:Ea.
  { apply IH. intros q v Hq Hv. specialize (Hok q v Hq Hv). apply bool_decide_eq_true in Ea.
    rewrite msgs_to_cons_ne in Hok; [done|]. intros ->. done. }
  apply bool_decide_eq_false in Ea.
  destruct (vs !! c) as [v|] eqn:Ec.
  - destruct (view_recv v m) as [ok v'] eqn:Er.
    pose proof (Hok c v Ea Ec) as H0. rewrite msgs_to_cons_eq in H0. simpl in H0. rewrite Er in H0. simpl in H0.
    apply andb_true_iff in H0 as [-> H0]. simpl. rewrite app_nil_r. apply IH.
    intros q w Hq. destruct (decide (c = q)) as [->|Hne].
    + rewrite lookup_insert. by intros [= <-].
    + rewrite lookup_insert_ne by done. intros Hw. specialize (Hok q w Hq Hw). by rewrite msgs_to_cons_ne in Hok.
  - apply IH. intros q w Hq Hw. specialize (Hok q w Hq Hw).
    destruct (decide (c = q)) as [->|Hne]; [congruence|]. by rewrite msgs_to_cons_ne in Hok.
Qed.

(* ---------- the actor's own view ---------- *)
Definition own_view (sp sp' : spec) (e : event) (c : N) (vc : option view) : option view :=
  let mine := msgs_to c (ev_outs e) in
  match sp_mem sp' !! c with
  | None => None
  | Some (sid, p) =>
      if mem_changed sp sp' e c then Some (view_init sid p mine)
      else match ev_req e, vc with
           | Some (RJoin _ _ _), Some v => Some (rejoin_view mine v)
           | Some r, Some v => Some (view_own v r mine)
           | _, _ => vc
           end
  end.

Lemma own_step_lookup sp sp' e (vs1 : gmap N view) q :
  own_step sp sp' e vs1 !! q =
    match actor e with
    | Some c => if decide (q = c) then own_view sp sp' e c (vs1 !! c) else vs1 !! q
    | None => vs1 !! q
    end.
Proof.
  unfold own_step, own_view. fold (msgs_to). destruct (actor e) as [c|]; [|done].
  change (map snd (List.filter (λ d : delivery, d.1 =? c) (ev_outs e))) with (msgs_to c (ev_outs e)).
  destruct (decide (q = c)) as [->|Hne].
  - repeat case_match; simplify_eq; rewrite ?lookup_insert, ?lookup_delete; done.
  - repeat case_match; simplify_eq; rewrite ?lookup_insert_ne, ?lookup_delete_ne by done; done.
Qed.

(* ---------- the bookkeeping phase touches nothing but the dirty marks ---------- *)
Definition dirty_only (v v' : view) : Prop := v' = vset_sync (v_subd v) (v_synced v) (v_dirty v') v.
Lemma dirty_only_refl v : dirty_only v v.
Proof. unfold dirty_only. by destruct v. Qed.
Lemma dirty_only_trans a b c : dirty_only a b → dirty_only b c → dirty_only a c.
Proof. unfold dirty_only. intros -> ->. by destruct a. Qed.

Definition opt_rel {A} (R : A → A → Prop) (a b : option A) : Prop :=
  match a, b with Some x, Some y => R x y | None, None => True | _, _ => False end.

Lemma dirty_fold_lookup i outs tid eid l (vs : gmap N view) acc q :
  opt_rel dirty_only (vs !! q) ((fold_left (dirty_one i outs tid eid) l (vs, acc)).1 !! q).
Proof.
  revert vs acc. induction l as [|pc l IH]; intros vs acc.
  - simpl. destruct (vs !! q); simpl; [apply dirty_only_refl|done].
  - cbn [fold_left]. unfold dirty_one at 2.
    destruct (has_msg pc.2 outs (notif_about tid eid)); [apply IH|].
    destruct (vs !! pc.2) as [v|] eqn:Ev; [|apply IH].
    destruct (bool_decide (tid ∈ v_synced v)); [apply IH|].
    specialize (IH (<[pc.2 := vset_sync (v_subd v) (v_synced v) (v_dirty v ∪ {[tid]}) v]> vs) acc).
    destruct (decide (pc.2 = q)) as [Hq|Hne].
    + rewrite Hq in *. rewrite lookup_insert in IH. rewrite Ev. unfold opt_rel in *.
      destruct (_ !! q) as [w|]; [|done]. eapply dirty_only_trans; [|exact IH]. unfold dirty_only. by destruct v.
    + by rewrite lookup_insert_ne in IH.
Qed.

Lemma dirty_step_lookup i sp e (vs2 : gmap N view) q :
  opt_rel dirty_only (vs2 !! q) ((dirty_step i sp e vs2).1 !! q).
Proof.
  assert (Hr : opt_rel dirty_only (vs2 !! q) (vs2 !! q)) by (destruct (vs2 !! q); simpl; [apply dirty_only_refl|done]).
  unfold dirty_step. repeat case_match; try exact Hr. apply dirty_fold_lookup.
Qed.

(* ================= 3. the trace-determined spec knows who is where ================= *)
Lemma remove_entities_mem sid l sp : sp_mem (fold_right (sp_remove_entity sid) sp l) = sp_mem sp.
Proof. induction l as [|x l IH]; simpl; [done|]. exact IH. Qed.
Lemma depart_mem sp c c' : sp_mem (depart sp c) !! c' = if decide (c' = c) then None else sp_mem sp !! c'.
Proof.
  unfold depart. destruct (sp_mem sp !! c) as [[sid p]|] eqn:E.
  - destruct (sp_live _ sid); simpl; rewrite remove_entities_mem.
    all: case_decide as Hd; [subst; by rewrite lookup_delete|by rewrite lookup_delete_ne].
  - case_decide as Hd; [by subst|done].
Qed.
Lemma spec_request_mem sp c sid p r outs : sp_mem (spec_request sp c sid p r outs) = sp_mem sp.
Proof. destruct r; simpl; repeat case_match; done. Qed.
Lemma enter_spec_mem sp c sid uuid pid c' :
  sp_mem (enter_spec sp c sid uuid pid) !! c' = if decide (c' = c) then Some (sid, pid) else sp_mem sp !! c'.
Proof. simpl. case_decide as Hd; [subst; by rewrite lookup_insert|by rewrite lookup_insert_ne]. Qed.

Lemma first_to_msgs {A} c outs (f : msg → option A) : first_to c outs f = head (omap f (msgs_to c outs)).
Proof.
  unfold first_to, msgs_to. f_equal. induction outs as [|[c' m] outs IH]; [done|]. simpl.
  destruct (c' =? c); simpl; [destruct (f m); [f_equal|]; exact IH|exact IH].
Qed.
Lemma has_error_msgs c code outs :
  has_error c code outs = existsb (λ m, match m with MError _ k => k =? code | _ => false end) (msgs_to c outs).
Proof.
  unfold has_error, msgs_to. induction outs as [|[c' m] outs IH]; [done|]. simpl.
  destruct (c' =? c) eqn:E; simpl.
  - rewrite IH. destruct m; simpl; try done.
  - rewrite IH. destruct m; simpl; try done.
Qed.

(* ================= 4. one view against one session ================= *)
(* participants, entities (with owner, flag, latest pose), entity actions, asset instances *)
Definition vrel (v : view) (sid p : N) (SS : session) : Prop :=
  v_sid v = sid ∧ v_pid v = p ∧ view_matches v SS ∧ v_acts v = s_actions SS ∧ v_assets v = s_assets SS.

Lemma vrel_dirty_only v v' sid p SS : dirty_only v v' → vrel v sid p SS → vrel v' sid p SS.
Proof. unfold dirty_only. intros -> (?&?&[? ?]&?&?). by repeat split. Qed.

Lemma vrel_same v sid p SS S1 :
  vrel v sid p SS → s_parts S1 = s_parts SS → s_ents S1 = s_ents SS → s_actions S1 = s_actions SS →
  s_assets S1 = s_assets SS → vrel v sid p S1.
Proof. intros (?&?&[? ?]&?&?) E1 E2 E3 E4. repeat split; congruence. Qed.

Lemma recv_single (P : view → Prop) v m :
  (view_recv v m).1 = true → P (view_recv v m).2 → recv_oks v [m] = true ∧ P (recv_all v [m]).
Proof. intros H1 H2. simpl. by rewrite H1. Qed.
Lemma recv_nil (P : view → Prop) v : P v → recv_oks v [] = true ∧ P (recv_all v []).
Proof. done. Qed.

Definition neutral (m : msg) : Prop := ∀ v, view_recv v m = (true, v).
Lemma recv_neutral v ms : (∀ m, m ∈ ms → neutral m) → recv_oks v ms = true ∧ recv_all v ms = v.
Proof.
  induction ms as [|m ms IH]; intros H; [done|]. simpl.
  assert (Hm : neutral m) by (apply H; by left). unfold recv_all. simpl. rewrite Hm. simpl.
  apply IH. intros m' Hm'. apply H. by right.
Qed.

Lemma recv_entity_add v sid p SS S1 ots eid e :
  vrel v sid p SS → s_ents SS !! eid = None → s_ents S1 = <[eid := e]> (s_ents SS) → s_parts S1 = s_parts SS →
  s_actions S1 = s_actions SS → s_assets S1 = s_assets SS →
  (view_recv v (MEntityAddB ots (ent_to_pb eid e))).1 = true ∧
  vrel (view_recv v (MEntityAddB ots (ent_to_pb eid e))).2 sid p S1.
Proof.
  intros (V1&V2&M&V3&V4) Hn E1 E2 E3 E4.
  destruct (view_entity_add v SS S1 ots eid e M Hn E1 E2) as (v'&Hr&M'). rewrite Hr. split; [done|].
  injection Hr as _ <-. repeat split; simpl; try done; try apply M'; congruence.
Qed.
Lemma recv_pose v sid p SS S1 ots eid e ps :
  vrel v sid p SS → s_ents SS !! eid = Some e →
  s_ents S1 = <[eid := {| e_owner := e_owner e; e_persist := e_persist e; e_flag := e_flag e; e_pose := ps |}]> (s_ents SS) →
  s_parts S1 = s_parts SS → s_actions S1 = s_actions SS → s_assets S1 = s_assets SS →
  (view_recv v (MPoseB ots eid ps)).1 = true ∧ vrel (view_recv v (MPoseB ots eid ps)).2 sid p S1.
Proof.
  intros (V1&V2&M&V3&V4) He E1 E2 E3 E4.
  destruct (view_pose v SS S1 ots eid e ps M He E1 E2) as (v'&Hr&M'). rewrite Hr. split; [done|].
  simpl in Hr. destruct M as [M1 M2]. rewrite M2, imap_lookup, He in Hr. simpl in Hr.
  injection Hr as <-. repeat split; simpl; try done; try apply M'; congruence.
Qed.
Lemma recv_join v sid p SS c ots :
  vrel v sid p SS → s_parts SS !! u32_succ (s_pgen SS) = None →
  (view_recv v (MJoinB ots (u32_succ (s_pgen SS)))).1 = true ∧
  vrel (view_recv v (MJoinB ots (u32_succ (s_pgen SS)))).2 sid p (entered SS c).
Proof.
  intros (V1&V2&M&V3&V4) Hn.
  destruct (view_join v SS c ots M Hn) as (v'&Hr&M'). rewrite Hr. split; [done|].
  injection Hr as _ <-. repeat split; simpl; try done; apply M'.
Qed.

(* removing an entity with everything attached to it *)
Lemma filter_acts_eq (m : gmap (N * N) action) eid :
  filter (λ kv : (N*N) * action, negb (fst (fst kv) =? eid)) m = filter (λ kv, fst (fst kv) ≠ eid) m.
Proof.
  apply map_filter_ext. intros [e n] a _. simpl. destruct (e =? eid) eqn:E; simpl.
  - apply N.eqb_eq in E. split; [done|]. intros H. by destruct H.
  - apply N.eqb_neq in E. done.
Qed.
Lemma recv_entity_delete v sid p SS S1 ots eid :
  vrel v sid p SS → is_Some (s_ents SS !! eid) → s_ents S1 = delete eid (s_ents SS) → s_parts S1 = s_parts SS →
  s_actions S1 = filter (λ kv, fst (fst kv) ≠ eid) (s_actions SS) → s_assets S1 = delete eid (s_assets SS) →
  (view_recv v (MEntityDeleteB ots eid)).1 = true ∧ vrel (view_recv v (MEntityDeleteB ots eid)).2 sid p S1.
Proof.
  intros (V1&V2&[M1 M2]&V3&V4) [e He] E1 E2 E3 E4. simpl. rewrite M2, imap_lookup, He. split; [done|].
  repeat split; simpl; try done.
  - by rewrite E2.
  - by rewrite M2, E1, imap_delete.
  - by rewrite V3, E3, filter_acts_eq.
  - by rewrite V4, E4.
Qed.
Lemma vrel_remove_entity v sid p SS S1 eid :
  vrel v sid p SS → s_ents S1 = delete eid (s_ents SS) → s_parts S1 = s_parts SS →
  s_actions S1 = filter (λ kv, fst (fst kv) ≠ eid) (s_actions SS) → s_assets S1 = delete eid (s_assets SS) →
  vrel (v_remove_entity eid v) sid p S1.
Proof.
  intros (V1&V2&[M1 M2]&V3&V4) E1 E2 E3 E4. repeat split; simpl; try done.
  - by rewrite E2.
  - by rewrite M2, E1, imap_delete.
  - by rewrite V3, E3, filter_acts_eq.
  - by rewrite V4, E4.
Qed.
Lemma recv_action v sid p SS S1 ots a :
  vrel v sid p SS → is_Some (s_ents SS !! a_eid a) → s_ents S1 = s_ents SS → s_parts S1 = s_parts SS →
  s_actions S1 = <[(a_eid a, a_name a) := a]> (s_actions SS) → s_assets S1 = s_assets SS →
  (view_recv v (MActionB ots a)).1 = true ∧ vrel (view_recv v (MActionB ots a)).2 sid p S1.
Proof.
  intros (V1&V2&[M1 M2]&V3&V4) [e He] E1 E2 E3 E4. simpl. rewrite M2, imap_lookup, He. split; [done|].
  repeat split; simpl; try done; congruence.
Qed.
Lemma recv_asset v sid p SS S1 ots a :
  vrel v sid p SS → is_Some (s_ents SS !! as_eid a) → s_ents S1 = s_ents SS → s_parts S1 = s_parts SS →
  s_actions S1 = s_actions SS → s_assets S1 = <[as_eid a := a]> (s_assets SS) →
  (view_recv v (MAssetAddB ots a)).1 = true ∧ vrel (view_recv v (MAssetAddB ots a)).2 sid p S1.
Proof.
  intros (V1&V2&[M1 M2]&V3&V4) [e He] E1 E2 E3 E4. simpl. rewrite M2, imap_lookup, He. split; [done|].
  repeat split; simpl; try done; congruence.
Qed.

(* applicability, restricted to the message kinds [K] selects *)
Fixpoint recv_oksK (K : msg → bool) (v : view) (ms : list msg) : bool :=
  match ms with
  | [] => true
  | m :: ms' => (negb (K m) || (view_recv v m).1) && recv_oksK K (view_recv v m).2 ms'
  end.
Lemma recv_oksK_app K v a b : recv_oksK K v (a ++ b) = recv_oksK K v a && recv_oksK K (recv_all v a) b.
Proof. revert v. induction a as [|m a IH]; intros v; simpl; [done|]. by rewrite IH, andb_assoc. Qed.
Lemma recv_oksK_all v ms : recv_oksK (λ _, true) v ms = recv_oks v ms.
Proof. revert v. induction ms as [|m ms IH]; intros v; simpl; [done|]. by rewrite IH. Qed.
Lemma recv_oksK_split K1 K2 v ms :
  (∀ m, K1 m || K2 m = true) → recv_oksK K1 v ms = true → recv_oksK K2 v ms = true → recv_oks v ms = true.
Proof.
  intros HK. revert v. induction ms as [|m ms IH]; intros v; simpl; [done|].
  intros [H1 H1']%andb_true_iff [H2 H2']%andb_true_iff. rewrite IH by done. rewrite andb_true_r.
  specialize (HK m). destruct (K1 m), (K2 m); simpl in *; try done.
Qed.

Lemma recvK_single K (P : view → Prop) v m :
  (view_recv v m).1 = true → P (view_recv v m).2 → recv_oksK K v [m] = true ∧ P (recv_all v [m]).
Proof. intros H1 H2. simpl. rewrite H1, orb_true_r. done. Qed.
Lemma recvK_skip K (P : view → Prop) v m :
  K m = false → P (view_recv v m).2 → recv_oksK K v [m] = true ∧ P (recv_all v [m]).
Proof. intros H1 H2. simpl. rewrite H1. done. Qed.
Lemma recvK_nil K (P : view → Prop) v : P v → recv_oksK K v [] = true ∧ P (recv_all v []).
Proof. done. Qed.
Lemma recvK_neutral K v ms : (∀ m, m ∈ ms → neutral m) → recv_oksK K v ms = true ∧ recv_all v ms = v.
Proof.
  induction ms as [|m ms IH]; intros H; [done|]. simpl.
  assert (Hm : neutral m) by (apply H; by left). unfold recv_all. simpl. rewrite Hm. simpl. rewrite orb_true_r.
  apply IH. intros m' Hm'. apply H. by right.
Qed.

Definition comp_msg (m : msg) : bool :=
  match m with MCompAddB _ _ | MCompDeleteB _ _ _ | MCompUpdateB _ _ => true | _ => false end.
Definition core_msg (m : msg) : bool := negb (comp_msg m).

(* component notifications change nothing of the participant / entity / action / asset part *)
Lemma recv_comp_vrel v sid p SS m : comp_msg m = true → vrel v sid p SS → vrel (view_recv v m).2 sid p SS.
Proof. intros Hm (V1&V2&[M1 M2]&V3&V4). destruct m; try discriminate Hm; simpl; by repeat split. Qed.

(* ---------- who a broadcast reaches, per connection ---------- *)
Lemma msgs_to_broadcast_member SS p m q pq :
  parts_injective SS → s_parts SS !! pq = Some q → pq ≠ p → msgs_to q (broadcast SS p m) = [m].
Proof.
  intros Hi Hq Hne. apply msgs_to_once; [by apply broadcast_recipients_NoDup|].
  apply broadcast_spec. split; [done|]. by exists pq.
Qed.
Lemma msgs_to_broadcast_other SS p m q :
  (∀ pq, s_parts SS !! pq = Some q → pq = p) → msgs_to q (broadcast SS p m) = [].
Proof.
  intros H. apply msgs_to_none. intros Hin. apply elem_of_list_fmap in Hin as ([c' m']&->&Hin). simpl in *.
  apply broadcast_spec in Hin as (_&pq&Hq&Hne). apply Hne. by apply H.
Qed.
Lemma msgs_to_broadcast_to SS p ids m q m' : m' ∈ msgs_to q (broadcast_to SS p ids m) → m' = m.
Proof. intros H. apply msgs_to_elem in H. by apply broadcast_to_spec in H as [-> _]. Qed.

Lemma noflags cfg : cfg_flags cfg = [] → ∀ f, flag_on cfg f = false.
Proof. intros H f. unfold flag_on. by rewrite H. Qed.

Global Arguments recv_oksK : simpl never.
Global Arguments recv_all : simpl never.
Global Arguments msgs_to : simpl never.

Lemma neutral_custom ots p body : neutral (MCustomB ots p body).
Proof. by intros v. Qed.

Lemma wf_fresh_ent cfg k SS : wf cfg k SS → k + 1 < two32 → s_ents SS !! u32_succ (s_egen SS) = None.
Proof.
  intros W Hk. destruct (s_ents SS !! u32_succ (s_egen SS)) as [e|] eqn:E; [|done]. exfalso.
  destruct (wf_ents _ _ _ W _ _ E) as [[_ H] _]. destruct (wf_cnt _ _ _ W) as (_&He&_).
  rewrite u32_succ_small in H by lia. lia.
Qed.


Lemma recvK_one K v m sid p S1 :
  (view_recv v m).1 = true ∧ vrel (view_recv v m).2 sid p S1 →
  recv_oksK K v [m] = true ∧ vrel (recv_all v [m]) sid p S1.
Proof. intros [H1 H2]. unfold recv_oksK, recv_all. simpl. rewrite H1, orb_true_r. done. Qed.
Lemma recvK_comp v m sid p SS S1 :
  comp_msg m = true → vrel v sid p SS → s_parts S1 = s_parts SS → s_ents S1 = s_ents SS →
  s_actions S1 = s_actions SS → s_assets S1 = s_assets SS →
  recv_oksK core_msg v [m] = true ∧ vrel (recv_all v [m]) sid p S1.
Proof.
  intros Hm V E1 E2 E3 E4. unfold recv_oksK, recv_all, core_msg. simpl. rewrite Hm. simpl. split; [done|].
  eapply vrel_same; [by apply recv_comp_vrel|done..].
Qed.
Lemma recvK_none K v sid p SS S1 :
  vrel v sid p SS → s_parts S1 = s_parts SS → s_ents S1 = s_ents SS → s_actions S1 = s_actions SS →
  s_assets S1 = s_assets SS → recv_oksK K v [] = true ∧ vrel (recv_all v []) sid p S1.
Proof. intros V E1 E2 E3 E4. split; [done|]. by eapply vrel_same. Qed.
Lemma recvK_comps v ms sid p SS S1 :
  (∀ m, m ∈ ms → comp_msg m = true) → vrel v sid p SS → s_parts S1 = s_parts SS → s_ents S1 = s_ents SS →
  s_actions S1 = s_actions SS → s_assets S1 = s_assets SS →
  recv_oksK core_msg v ms = true ∧ vrel (recv_all v ms) sid p S1.
Proof.
  intros Hm V E1 E2 E3 E4. revert v V. induction ms as [|m ms IH]; intros v V.
  - by eapply recvK_none.
  - assert (Hc : comp_msg m = true) by (apply Hm; by left).
    unfold recv_oksK, recv_all, core_msg. simpl. rewrite Hc. simpl.
    apply IH; [intros m' Hm'; apply Hm; by right|]. by apply recv_comp_vrel.
Qed.
Lemma cleanup_deleted cfg k SS eid :
  wf cfg k SS →
  let S1 := cleanup_modules cfg eid (set_ents (delete eid) (set_store (store_delete_entity eid) SS)) in
  s_parts S1 = s_parts SS ∧ s_ents S1 = delete eid (s_ents SS) ∧
  s_actions S1 = filter (λ kv, fst (fst kv) ≠ eid) (s_actions SS) ∧ s_assets S1 = delete eid (s_assets SS).
Proof.
  intros W. unfold cleanup_modules. simpl. rewrite lookup_delete.
  destruct (cfg_vikja cfg) eqn:Ev, (cfg_odal cfg) eqn:Eo; simpl; repeat split; try done.
  all: try (rewrite (wf_noodal _ _ _ W Eo); by rewrite delete_empty).
  all: try (rewrite (wf_novikja _ _ _ W Ev); by rewrite map_filter_empty).
Qed.
Lemma msgs_to_nil q : msgs_to q [] = [].
Proof. done. Qed.

Ltac triv_leaf V := eapply (recvK_none core_msg); [exact V|reflexivity..].

(* ---------- a session-local request, seen by another member of the session ---------- *)
Lemma sstep_member cfg k c p own SS r sid q pq v :
  wf cfg k SS → k + 1 < two32 → parts_injective SS → s_parts SS !! p = Some c → (∀ f, flag_on cfg f = false) →
  session_local r = true →
  s_parts SS !! pq = Some q → q ≠ c → vrel v sid pq SS →
  recv_oksK core_msg v (msgs_to q (sstep cfg c p own SS r).2) = true ∧
  vrel (recv_all v (msgs_to q (sstep cfg c p own SS r).2)) sid pq (sstep cfg c p own SS r).1.1.
Proof.
  intros W Hk Hi Hp Hnf Hl Hq Hqc V.
  assert (Hpq : pq ≠ p). { intros ->. congruence. }
  assert (Hcq : c ≠ q) by done.
  destruct r; try discriminate Hl; simpl; rewrite ?Hnf; repeat case_match; simpl.
  all: rewrite ?msgs_to_app, ?(msgs_to_cons_ne q c) by done.
  all: rewrite ?(msgs_to_broadcast_member _ p _ q pq) by done.
  all: rewrite ?msgs_to_nil, ?app_nil_r, ?app_nil_l.
  all: try (triv_leaf V).
  all: lazymatch goal with
       | |- context [MEntityAddB] =>
           apply recvK_one; eapply recv_entity_add; try exact V; try reflexivity; by eapply wf_fresh_ent
       | |- context [MEntityDeleteB] =>
           apply recvK_one; eapply recv_entity_delete; try exact V; try eapply cleanup_deleted; try exact W; eauto
       | |- context [cleanup_modules] =>
           erewrite cleanup_modules_id by eassumption; triv_leaf V
       | |- context [MPoseB] => apply recvK_one; eapply recv_pose; try exact V; try reflexivity; eassumption
       | |- context [broadcast_to _ _ _ (MCustomB ?o ?p ?b)] =>
           destruct (recvK_neutral core_msg v (msgs_to q (broadcast_to SS p (n :: l) (MCustomB o p b)))) as [R1 R2];
             [intros m' Hm'; apply msgs_to_broadcast_to in Hm' as ->; apply neutral_custom|];
           rewrite R1, R2; split; [done|exact V]
       | |- context [broadcast_to] =>
           eapply recvK_comps; [|exact V|reflexivity..]; intros m' Hm'; by apply msgs_to_broadcast_to in Hm' as ->
       | |- context [MCompAddB] => by eapply recvK_comp
       | |- context [MCompDeleteB] => by eapply recvK_comp
       | |- context [MActionB] => apply recvK_one; eapply recv_action; try exact V; try reflexivity; eauto
       | |- context [MAssetAddB] => apply recvK_one; eapply recv_asset; try exact V; try reflexivity; simpl; eauto
       | |- _ => idtac
       end.
Qed.

Lemma sstep_nonmember cfg c p own SS r q :
  q ≠ c → (∀ pq, s_parts SS !! pq ≠ Some q) → msgs_to q (sstep cfg c p own SS r).2 = [].
Proof.
  intros Hqc Hn. apply msgs_to_none. intros Hin. apply elem_of_list_fmap in Hin as (d&->&Hin).
  apply sstep_recipients in Hin as [H|(pq&H&_)]; [done|]. by apply (Hn pq).
Qed.

Lemma msgs_to_broadcast_self SS p m c :
  parts_injective SS → s_parts SS !! p = Some c → msgs_to c (broadcast SS p m) = [].
Proof. intros Hi Hp. apply msgs_to_broadcast_other. intros pq Hq. by eapply Hi. Qed.
Lemma msgs_to_broadcast_to_self SS p ids m c :
  parts_injective SS → s_parts SS !! p = Some c → msgs_to c (broadcast_to SS p ids m) = [].
Proof. intros Hi Hp. apply msgs_to_none. by apply broadcast_to_not_sender. Qed.

(* ---------- a session-local request, seen by the requester itself ---------- *)
Local Arguments view_own : simpl never.
Lemma sstep_own cfg k c p own SS r sid v :
  wf cfg k SS → k + 1 < two32 → parts_injective SS → s_parts SS !! p = Some c → (∀ f, flag_on cfg f = false) →
  session_local r = true → vrel v sid p SS →
  vrel (view_own v r (msgs_to c (sstep cfg c p own SS r).2)) sid p (sstep cfg c p own SS r).1.1.
Proof.
  intros W Hk Hi Hp Hnf Hl V.
  destruct r; try discriminate Hl; simpl; rewrite ?Hnf; repeat case_match; simpl.
  all: rewrite ?msgs_to_app, ?msgs_to_cons_eq.
  all: rewrite ?(msgs_to_broadcast_self _ p _ c), ?(msgs_to_broadcast_to_self _ p _ _ c) by done.
  all: rewrite ?msgs_to_nil, ?app_nil_r, ?app_nil_l; unfold view_own; simpl.
  all: try (eapply vrel_same; [exact V|reflexivity..]).
  all: lazymatch goal with
       | |- context [cleanup_modules _ _ (set_ents _ _)] =>
           eapply vrel_remove_entity; try exact V; eapply cleanup_deleted; exact W
       | |- context [cleanup_modules] => erewrite cleanup_modules_id by eassumption; exact V
       | |- context [vset_comps] => destruct (_ && _); (eapply vrel_same; [exact V|reflexivity..])
       | |- context [match ?a with Some _ => ?x | None => ?x end] => destruct a; exact V
       | |- _ => idtac
       end.
  all: destruct V as (V1&V2&[M1 M2]&V3&V4).
  all: try match goal with H : s_ents _ !! _ = _ |- context [v_ents _ !! _] => rewrite M2, imap_lookup, H; simpl; rewrite ?V2 end.
  all: repeat match goal with
       | H : negb (_ =? _) = true |- _ => apply negb_true_iff in H; rewrite ?H
       | H : negb (_ =? _) = false |- _ => apply negb_false_iff in H; rewrite ?H
       end.
  all: try (destruct p0; by repeat split).
  all: repeat split; simpl; try done.
  all: rewrite ?M2, ?imap_insert, ?V2, ?V3, ?V4; try done.
Qed.

(* ================= 5. departures ================= *)
Lemma msgs_to_flat_map_member SS p (f : N → msg) l q pq :
  parts_injective SS → s_parts SS !! pq = Some q → pq ≠ p →
  msgs_to q (flat_map (λ x, broadcast SS p (f x)) l) = map f l.
Proof.
  intros Hi Hq Hne. induction l as [|x l IH]; [done|]. simpl.
  rewrite msgs_to_app, (msgs_to_broadcast_member _ _ _ _ pq) by done. by rewrite IH.
Qed.
Lemma msgs_to_flat_map_other SS p (f : N → msg) l q :
  (∀ pq, s_parts SS !! pq = Some q → pq = p) → msgs_to q (flat_map (λ x, broadcast SS p (f x)) l) = [].
Proof.
  intros H. induction l as [|x l IH]; [done|]. simpl. by rewrite msgs_to_app, msgs_to_broadcast_other, IH.
Qed.

(* a run of entity deletions applied to a view *)
Lemma recv_deletes l v :
  NoDup l → (∀ e, e ∈ l → is_Some (v_ents v !! e)) →
  let v' := recv_all v (map (MEntityDeleteB 0) l) in
  recv_oks v (map (MEntityDeleteB 0) l) = true ∧
  v_sid v' = v_sid v ∧ v_pid v' = v_pid v ∧ v_parts v' = v_parts v ∧
  (∀ e, v_ents v' !! e = if bool_decide (e ∈ l) then None else v_ents v !! e) ∧
  (∀ e n, v_acts v' !! (e, n) = if bool_decide (e ∈ l) then None else v_acts v !! (e, n)) ∧
  (∀ e, v_assets v' !! e = if bool_decide (e ∈ l) then None else v_assets v !! e) ∧
  (∀ t e, v_comps v' !! (t, e) = if bool_decide (e ∈ l) then None else v_comps v !! (t, e)) ∧
  v_subd v' = v_subd v ∧ v_synced v' = v_synced v ∧ v_dirty v' = v_dirty v.
Proof.
  revert v. induction l as [|x l IH]; intros v Hnd Hin.
  - simpl. repeat split; intros; by rewrite bool_decide_eq_false_2 by (inversion 1).
  - apply NoDup_cons in Hnd as [Hx Hnd]. cbn [map]. unfold recv_all. cbn [fold_left recv_oks].
    fold (recv_all (view_recv v (MEntityDeleteB 0 x)).2 (map (MEntityDeleteB 0) l)).
    destruct (Hin x) as [ex Hex]; [by left|]. cbn [view_recv fst snd]. rewrite Hex. cbn [is_Some_b andb].
    destruct (IH (v_remove_entity x v) Hnd) as (I0&I1&I2&I3&I4&I5&I6&I7&I8&I9&I10).
    { intros e He. simpl. rewrite lookup_delete_ne; [apply Hin; by right|]. intros <-. done. }
    split; [exact I0|]. rewrite I1, I2, I3, I8, I9, I10.
    assert (Hb : ∀ e, bool_decide (e ∈ x :: l) = (e =? x) || bool_decide (e ∈ l)).
    { intros e. destruct (e =? x) eqn:E; simpl.
      - apply N.eqb_eq in E as ->. apply bool_decide_eq_true_2. by left.
      - apply N.eqb_neq in E. apply bool_decide_ext. rewrite elem_of_cons. tauto. }
    repeat split; try done.
    + intros e. rewrite I4, Hb. simpl. destruct (e =? x) eqn:E; simpl.
      * apply N.eqb_eq in E as ->. rewrite lookup_delete. by destruct (bool_decide _).
      * apply N.eqb_neq in E. by rewrite lookup_delete_ne.
    + intros e n. rewrite I5, Hb. simpl. destruct (e =? x) eqn:E; simpl.
      * destruct (bool_decide _); [done|]. apply map_filter_lookup_None. right. intros a _. simpl. rewrite E. simpl. tauto.
      * destruct (bool_decide _); [done|]. destruct (v_acts v !! (e, n)) as [a|] eqn:Ea.
        -- apply map_filter_lookup_Some. split; [done|]. simpl. rewrite E. simpl. tauto.
        -- apply map_filter_lookup_None. by left.
    + intros e. rewrite I6, Hb. simpl. destruct (e =? x) eqn:E; simpl.
      * apply N.eqb_eq in E as ->. rewrite lookup_delete. by destruct (bool_decide _).
      * apply N.eqb_neq in E. by rewrite lookup_delete_ne.
    + intros t e. rewrite I7, Hb. simpl. destruct (e =? x) eqn:E; simpl.
      * destruct (bool_decide _); [done|]. apply map_filter_lookup_None. right. intros a _. simpl. rewrite E. simpl. tauto.
      * destruct (bool_decide _); [done|]. destruct (v_comps v !! (t, e)) as [a|] eqn:Ea.
        -- apply map_filter_lookup_Some. split; [done|]. simpl. rewrite E. simpl. tauto.
        -- apply map_filter_lookup_None. by left.
Qed.

(* what a departure does to the entity actions and asset instances *)
Lemma left_modules cfg k c p own SS :
  wf cfg k SS →
  let L := left_session cfg c p own SS in
  (∀ e n, s_actions L !! (e, n) = if bool_decide (removed own SS e) then None else s_actions SS !! (e, n)) ∧
  (∀ e, s_assets L !! e = if bool_decide (removed own SS e) then None else s_assets SS !! e).
Proof.
  intros W L. unfold L, left_session. cbv zeta.
  set (S1 := module_disconnect cfg own SS).
  set (S2 := set_store (store_set_subs (fmap (λ s : gset N, s ∖ {[p]}))) S1).
  pose proof (remove_doomed_spec cfg p (doomed S2 own) S2) as (_&_&_&_&_&_&R7&R8&_).
  simpl. rewrite R7, R8.
  set (gone := List.filter (λ eid, negb (keep_entity SS eid)) (elements own)).
  assert (Hg : ∀ e ent, s_ents SS !! e = Some ent → memN e gone = bool_decide (removed own SS e)).
  { intros e ent He. destruct (bool_decide (removed own SS e)) eqn:Eb.
    - apply bool_decide_eq_true in Eb as (Ho&ent'&He'&Hp). apply memN_elem. unfold gone.
      rewrite elem_of_list_In, filter_In, <- elem_of_list_In, elem_of_elements. split; [done|].
      unfold keep_entity. rewrite He'. by rewrite Hp.
    - apply bool_decide_eq_false in Eb. apply memN_false. unfold gone.
      rewrite elem_of_list_In, filter_In, <- elem_of_list_In, elem_of_elements. intros [Ho Hk]. apply Eb.
      split; [done|]. exists ent. split; [done|]. unfold keep_entity in Hk. rewrite He in Hk. by destruct (e_persist ent). }
  assert (EA : s_actions S2 = if cfg_vikja cfg then filter (λ kv : N * N * action, negb (memN kv.1.1 gone)) (s_actions SS)
                               else s_actions SS).
  { unfold S2, S1, module_disconnect. fold gone. by repeat case_match. }
  assert (EB : s_assets S2 = if cfg_odal cfg then filter (λ kv : N * asset, negb (memN kv.1 gone)) (s_assets SS)
                              else s_assets SS).
  { unfold S2, S1, module_disconnect. fold gone. by repeat case_match. }
  split.
  - intros e n. rewrite EA. destruct (cfg_vikja cfg) eqn:Ev.
    + destruct (s_actions SS !! (e, n)) as [a|] eqn:Ea.
      * destruct (wf_acts _ _ _ W _ _ _ Ea) as (_&_&_&_&[ent He]). rewrite <- (Hg e ent He).
        destruct (memN e gone) eqn:Em.
        -- apply map_filter_lookup_None. right. intros a' _. simpl. rewrite Em. simpl. tauto.
        -- apply map_filter_lookup_Some. split; [done|]. simpl. rewrite Em. simpl. tauto.
      * rewrite (proj2 (map_filter_lookup_None _ _ _)) by (by left). by destruct (bool_decide _).
    + rewrite (wf_novikja _ _ _ W Ev), lookup_empty. by destruct (bool_decide _).
  - intros e. rewrite EB. destruct (cfg_odal cfg) eqn:Eo.
    + destruct (s_assets SS !! e) as [a|] eqn:Ea.
      * destruct (wf_assets _ _ _ W _ _ Ea) as (_&_&ent&He&_). rewrite <- (Hg e ent He).
        destruct (memN e gone) eqn:Em.
        -- apply map_filter_lookup_None. right. intros a' _. simpl. rewrite Em. simpl. tauto.
        -- apply map_filter_lookup_Some. split; [done|]. simpl. rewrite Em. simpl. tauto.
      * rewrite (proj2 (map_filter_lookup_None _ _ _)) by (by left). by destruct (bool_decide _).
    + rewrite (wf_noodal _ _ _ W Eo), lookup_empty. by destruct (bool_decide _).
Qed.

Definition leave_outs (cfg : config) (c p : N) (own : gset N) (SS : session) : list delivery :=
  flat_map (λ eid, broadcast SS p (MEntityDeleteB 0 eid))
    (doomed (set_store (store_set_subs (fmap (λ s : gset N, s ∖ {[p]}))) (module_disconnect cfg own SS)) own) ++
  broadcast (left_session cfg c p own SS) p (MLeaveB p).

Lemma left_injective cfg c p own SS : parts_injective SS → parts_injective (left_session cfg c p own SS).
Proof.
  intros Hi q1 q2 c0. destruct (left_session_parts cfg c p own SS) as [EL _]. rewrite EL.
  intros [_ H1]%lookup_delete_Some [_ H2]%lookup_delete_Some. by eapply Hi.
Qed.

(* a departure, seen by a member that stays *)
Lemma leave_member cfg k c p own SS sid q pq v :
  wf cfg k SS → parts_injective SS → s_parts SS !! p = Some c → s_parts SS !! pq = Some q → q ≠ c →
  vrel v sid pq SS →
  recv_oks v (msgs_to q (leave_outs cfg c p own SS)) = true ∧
  vrel (recv_all v (msgs_to q (leave_outs cfg c p own SS))) sid pq (left_session cfg c p own SS).
Proof.
  intros W Hi Hp Hq Hqc (V1&V2&[M1 M2]&V3&V4).
  assert (Hpq : pq ≠ p). { intros ->. congruence. }
  unfold leave_outs.
  set (dl := doomed (set_store (store_set_subs (fmap (λ s : gset N, s ∖ {[p]}))) (module_disconnect cfg own SS)) own).
  set (L := left_session cfg c p own SS).
  destruct (left_fields cfg c p own SS) as (F1&_&_&_&_&F6&_). fold L in F1, F6.
  destruct (left_modules cfg k c p own SS W) as [A1 A2]. fold L in A1, A2.
  assert (Hb : ∀ e, bool_decide (e ∈ dl) = bool_decide (removed own SS e)).
  { intros e. apply bool_decide_ext. symmetry. apply removed_doomed. }
  rewrite msgs_to_app, (msgs_to_flat_map_member SS p (MEntityDeleteB 0) dl q pq) by done.
  rewrite (msgs_to_broadcast_member L p _ q pq); [|by apply left_injective|by rewrite F6, lookup_delete_ne|done].
  assert (Hnd : NoDup dl) by apply doomed_NoDup.
  assert (Hex : ∀ e, e ∈ dl → is_Some (v_ents v !! e)).
  { intros e He. apply removed_doomed in He as (_&ent&He&_). rewrite M2, imap_lookup, He. by eexists. }
  clearbody L dl.
  destruct (recv_deletes dl v Hnd Hex) as (I0&I1&I2&I3&I4&I5&I6&_).
  rewrite recv_oks_app, recv_all_app, I0.
  set (v' := recv_all v (map (MEntityDeleteB 0) dl)) in *. clearbody v'.
  unfold recv_all. cbn [recv_oks fold_left view_recv fst snd andb]. split.
  - rewrite andb_true_r. apply bool_decide_eq_true_2. rewrite I3, M1. apply elem_of_dom. by eexists.
  - repeat split; cbn [v_sid v_pid v_parts v_ents v_acts v_assets vset_parts].
    + by rewrite I1.
    + by rewrite I2.
    + rewrite I3, M1, F6, dom_delete_L. done.
    + apply map_eq. intros e. rewrite I4, imap_lookup, F1, Hb, M2, imap_lookup. by destruct (bool_decide _).
    + apply map_eq. intros [e n]. rewrite I5, A1, Hb, V3. done.
    + apply map_eq. intros e. rewrite I6, A2, Hb, V4. done.
Qed.

(* ... and by everybody else: nothing *)
Lemma leave_nonmember cfg c p own SS q :
  parts_injective SS → s_parts SS !! p = Some c → (∀ pq, s_parts SS !! pq = Some q → pq = p) →
  msgs_to q (leave_outs cfg c p own SS) = [].
Proof.
  intros Hi Hp Hn. unfold leave_outs. rewrite msgs_to_app, msgs_to_flat_map_other by done.
  rewrite msgs_to_broadcast_other; [done|]. intros pq. destruct (left_session_parts cfg c p own SS) as [EL _].
  rewrite EL. intros [_ H]%lookup_delete_Some. by apply Hn.
Qed.

(* ================= 6. joins ================= *)
Lemma list_to_map_keyed `{Countable K} {A} (key : A → K) (m : gmap K A) :
  (∀ k x, m !! k = Some x → key x = k) →
  list_to_map (map (λ x, (key x, x)) (map snd (map_to_list m))) = m.
Proof.
  intros Hk. rewrite <- (list_to_map_to_list m) at 2. f_equal.
  rewrite <- list_fmap_compose. rewrite <- (list_fmap_id (map_to_list m)) at 2.
  apply list_fmap_ext. intros i [k x] Hi. simpl. f_equal.
  apply Hk. apply elem_of_map_to_list. by eapply elem_of_list_lookup_2.
Qed.
Lemma list_to_map_ents (m : gmap N entity) :
  list_to_map (map (λ x : ent_pb, (ep_id x, x)) (map (λ kv : N * entity, ent_to_pb kv.1 kv.2) (map_to_list m))) =
  map_imap (λ e ent, Some (ent_to_pb e ent)) m.
Proof.
  apply map_eq. intros k. rewrite imap_lookup. rewrite <- list_fmap_compose.
  destruct (m !! k) as [x|] eqn:E; simpl.
  - apply elem_of_list_to_map_1.
    + rewrite <- list_fmap_compose.
      replace (map (fst ∘ ((λ x0 : ent_pb, (ep_id x0, x0)) ∘ (λ kv : N * entity, ent_to_pb kv.1 kv.2))) (map_to_list m))
        with (map fst (map_to_list m)); [apply NoDup_fst_map_to_list|].
      apply list_fmap_ext. by intros ? [? ?].
    + apply elem_of_list_fmap. exists (k, x). split; [done|]. by apply elem_of_map_to_list.
  - apply not_elem_of_list_to_map_1. rewrite <- list_fmap_compose. intros Hin.
    apply elem_of_list_fmap in Hin as ([k' x']&Hk&Hin). simpl in Hk. subst k'.
    apply elem_of_map_to_list in Hin. congruence.
Qed.
Lemma list_to_set_keys (m : gmap N N) : list_to_set (map fst (map_to_list m)) = (dom m : gset N).
Proof. apply leibniz_equiv. symmetry. apply dom_alt. Qed.

Definition enter_outs (cfg : config) (c rid n ots : N) (SS : session) : list delivery :=
  let S1 := entered SS c in
  let p := u32_succ (s_pgen SS) in
  [(c, MJoinResp rid n (s_uuid SS) p); (c, session_state_msg S1)] ++ broadcast S1 p (MJoinB ots p) ++ module_join_msgs cfg c S1.

Lemma entered_injective SS c :
  parts_injective SS → s_parts SS !! u32_succ (s_pgen SS) = None → (∀ q, s_parts SS !! q ≠ Some c) →
  parts_injective (entered SS c).
Proof.
  intros Hi Hn Hc q1 q2 c0. unfold entered. simpl.
  intros [[<- <-]|[Hne1 H1]]%lookup_insert_Some [[<- Heq]|[Hne2 H2]]%lookup_insert_Some; try done.
  - subst. by destruct (Hc q2).
  - subst. by destruct (Hc q1).
  - by eapply Hi.
Qed.

Lemma msgs_to_module_self cfg c SS :
  msgs_to c (module_join_msgs cfg c SS) =
    (if cfg_vikja cfg then [MVikjaState (map snd (map_to_list (s_actions SS)))] else []) ++
    (if cfg_odal cfg then [MOdalState (map snd (map_to_list (s_assets SS)))] else []).
Proof.
  unfold module_join_msgs. rewrite msgs_to_app.
  destruct (cfg_vikja cfg), (cfg_odal cfg); rewrite ?msgs_to_cons_eq, ?msgs_to_nil; done.
Qed.
Lemma msgs_to_module_other cfg c SS q : q ≠ c → msgs_to q (module_join_msgs cfg c SS) = [].
Proof.
  intros Hne. unfold module_join_msgs. rewrite msgs_to_app.
  destruct (cfg_vikja cfg), (cfg_odal cfg); rewrite ?(msgs_to_cons_ne q c) by done; done.
Qed.

(* a join, seen by a member of the session joined *)
Lemma enter_member cfg c rid n ots SS sid q pq v :
  parts_injective (entered SS c) → s_parts SS !! u32_succ (s_pgen SS) = None →
  s_parts SS !! pq = Some q → q ≠ c → vrel v sid pq SS →
  recv_oks v (msgs_to q (enter_outs cfg c rid n ots SS)) = true ∧
  vrel (recv_all v (msgs_to q (enter_outs cfg c rid n ots SS))) sid pq (entered SS c).
Proof.
  intros Hi Hn Hq Hqc V. unfold enter_outs. cbv zeta.
  assert (Hpq : pq ≠ u32_succ (s_pgen SS)). { intros ->. congruence. }
  rewrite !msgs_to_app. simpl. rewrite !(msgs_to_cons_ne q c) by done. rewrite msgs_to_nil, msgs_to_module_other by done.
  rewrite (msgs_to_broadcast_member _ _ _ q pq); [|done|unfold entered; simpl; by rewrite lookup_insert_ne|done].
  cbn [app]. destruct (recv_join v sid pq SS c ots V Hn) as [H1 H2]. unfold recv_all. cbn [recv_oks fold_left]. by rewrite H1.
Qed.
Lemma enter_nonmember cfg c rid n ots SS q :
  q ≠ c → (∀ pq, s_parts SS !! pq ≠ Some q) → msgs_to q (enter_outs cfg c rid n ots SS) = [].
Proof.
  intros Hqc Hn. unfold enter_outs. cbv zeta. rewrite !msgs_to_app. simpl.
  rewrite !(msgs_to_cons_ne q c) by done. rewrite msgs_to_nil, msgs_to_module_other by done.
  rewrite msgs_to_broadcast_other; [done|]. intros pq. unfold entered. simpl.
  intros [[<- ?]|[_ H]]%lookup_insert_Some; [done|]. by destruct (Hn pq).
Qed.

(* ... and by the newcomer: the view it is handed is the session *)
Lemma enter_own cfg k c rid n ots SS :
  wf cfg k SS → parts_injective (entered SS c) →
  vrel (view_init n (u32_succ (s_pgen SS)) (msgs_to c (enter_outs cfg c rid n ots SS))) n (u32_succ (s_pgen SS)) (entered SS c).
Proof.
  intros W Hi. unfold enter_outs. cbv zeta. rewrite !msgs_to_app. simpl. rewrite !msgs_to_cons_eq, msgs_to_nil.
  rewrite msgs_to_broadcast_self; [|done|unfold entered; simpl; by rewrite lookup_insert].
  rewrite msgs_to_module_self. unfold session_state_msg. simpl.
  set (S1 := entered SS c).
  assert (EA : s_actions S1 = s_actions SS) by done. assert (EB : s_assets S1 = s_assets SS) by done.
  unfold view_init. cbn [omap list_omap head default app].
  repeat split; cbn [v_sid v_pid v_parts v_ents v_acts v_assets].
  - apply list_to_set_keys.
  - unfold ents_pb. apply list_to_map_ents.
  - destruct (cfg_vikja cfg) eqn:Ev, (cfg_odal cfg) eqn:Eo; simpl.
    all: try (apply list_to_map_keyed; intros [e nm] a Ha; rewrite ?EA in Ha;
              destruct (wf_acts _ _ _ W _ _ _ Ha) as (->&->&_); done).
    all: rewrite ?EA, (wf_novikja _ _ _ W Ev); done.
  - destruct (cfg_vikja cfg) eqn:Ev, (cfg_odal cfg) eqn:Eo; simpl.
    all: try (apply list_to_map_keyed; intros e a Ha; rewrite ?EB in Ha;
              destruct (wf_assets _ _ _ W _ _ Ha) as (->&_); done).
    all: rewrite ?EB, (wf_noodal _ _ _ W Eo); done.
Qed.

(* ================= 7. the global state: what an event does to everybody but its actor ================= *)
Definition views_ok (vs : gmap N view) (st : state) : Prop :=
  ∀ c, match cur_of st c with
       | Some (sid, p) => ∃ v SS, vs !! c = Some v ∧ sessions st !! sid = Some SS ∧ vrel v sid p SS
       | None => vs !! c = None
       end.
Definition spec_ok (sp : spec) (st : state) : Prop := ∀ c, sp_mem sp !! c = cur_of st c.
Definition swf (cfg : config) (k : N) (st : state) : Prop :=
  ∀ sid SS, sessions st !! sid = Some SS → wf cfg k SS.

Definition others_step (K : msg → bool) (c : N) (outs : list delivery) (st st' : state) : Prop :=
  ∀ q, q ≠ c → cur_of st' q = cur_of st q ∧
    match cur_of st q with
    | Some (sid, pq) => ∀ SS v, sessions st !! sid = Some SS → vrel v sid pq SS →
        ∃ SS', sessions st' !! sid = Some SS' ∧ recv_oksK K v (msgs_to q outs) = true ∧
               vrel (recv_all v (msgs_to q outs)) sid pq SS'
    | None => True
    end.

Lemma recv_oks_K K v ms : recv_oks v ms = true → recv_oksK K v ms = true.
Proof.
  revert v. induction ms as [|m ms IH]; intros v; [done|]. unfold recv_oksK. simpl.
  intros [-> H]%andb_true_iff. rewrite orb_true_r. by apply IH.
Qed.

Lemma others_step_trans K c o1 o2 st st1 st2 :
  others_step K c o1 st st1 → others_step K c o2 st1 st2 → others_step K c (o1 ++ o2) st st2.
Proof.
  intros H1 H2 q Hq. destruct (H1 q Hq) as [E1 G1]. destruct (H2 q Hq) as [E2 G2].
  split; [congruence|]. rewrite E1 in G2. destruct (cur_of st q) as [[sid pq]|]; [|done].
  intros SS v HS V. destruct (G1 SS v HS V) as (S1&HS1&O1&V1). destruct (G2 S1 _ HS1 V1) as (S2&HS2&O2&V2).
  exists S2. split; [done|]. rewrite msgs_to_app, recv_oksK_app, recv_all_app, O1, O2. done.
Qed.

Lemma others_step_quiet K c outs st st' :
  sessions st' = sessions st → (∀ q, q ≠ c → cur_of st' q = cur_of st q) → (∀ d, d ∈ outs → fst d = c) →
  others_step K c outs st st'.
Proof.
  intros ES EC Ho q Hq. split; [by apply EC|]. destruct (cur_of st q) as [[sid pq]|]; [|done].
  intros SS v HS V. exists SS. rewrite ES. split; [done|].
  rewrite msgs_to_none; [done|]. intros Hin. apply elem_of_list_fmap in Hin as (d&->&Hd). apply Hq. by apply Ho.
Qed.
Lemma others_step_upd_conn K c f st : others_step K c [] st (upd_conn c f st).
Proof.
  apply others_step_quiet; [done| |by inversion 1]. intros q Hq. unfold cur_of, upd_conn. simpl.
  destruct (conns st !! c); [|done]. by rewrite lookup_insert_ne.
Qed.
Lemma others_step_refl K c st : others_step K c [] st st.
Proof. apply others_step_quiet; [done|done|by inversion 1]. Qed.

(* a member's participant id, from the membership invariant *)
Lemma member_parts st q sid pq SS :
  inv st → cur_of st q = Some (sid, pq) → sessions st !! sid = Some SS → s_parts SS !! pq = Some q.
Proof.
  intros I Hc HS. apply (inv_parts _ I sid (s_parts SS) pq q); [|done]. unfold parts_of. by rewrite HS.
Qed.
Lemma member_inj st sid SS : inv st → sessions st !! sid = Some SS → parts_injective SS.
Proof.
  intros I HS q1 q2 c0 H1 H2.
  assert (Hps : parts_of st sid = Some (s_parts SS)) by (unfold parts_of; by rewrite HS).
  apply (inv_parts _ I sid _ _ _ Hps) in H1, H2. congruence.
Qed.
Lemma nonmember_parts st q sid SS pq :
  inv st → sessions st !! sid = Some SS → (∀ p, cur_of st q ≠ Some (sid, p)) → s_parts SS !! pq ≠ Some q.
Proof.
  intros I HS Hn H. apply (Hn pq). apply (inv_parts _ I sid (s_parts SS) pq q); [|done]. unfold parts_of. by rewrite HS.
Qed.

(* ---------- a departure ---------- *)
Lemma leave_others cfg k st c :
  inv st → swf cfg k st → (∀ f, flag_on cfg f = false) →
  others_step (λ _, true) c (leave cfg st c).2 st (leave cfg st c).1.
Proof.
  intros I W Hnf.
  destruct (leave_sessions cfg st c I) as [(cn&sid&p&SS&Hc&Hcur&HS&Hp&E)|[Hcur E]].
  2:{ rewrite E, (proj2 (leave_not_joined _ _ _ Hcur)). apply others_step_refl. }
  assert (Hcur0 : cur_of st c = Some (sid, p)) by (unfold cur_of; by rewrite Hc).
  rewrite (leave_outputs cfg st c cn sid p SS Hc Hcur HS (Hnf _) (Hnf _)). cbv zeta.
  fold (leave_outs cfg c p (c_own cn) SS).
  pose proof (leave_projections cfg st c sid p I Hcur0) as [L1 _ _ _ _].
  pose proof (member_inj _ _ _ I HS) as Hi.
  intros q Hq. split; [rewrite L1; by rewrite decide_False|].
  destruct (cur_of st q) as [[sidq pq]|] eqn:Hcq; [|done]. intros SSq v HSq V. rewrite E.
  destruct (decide (sidq = sid)) as [->|Hne].
  - assert (SSq = SS) as -> by congruence.
    pose proof (member_parts _ _ _ _ _ I Hcq HS) as Hpq.
    destruct (leave_member cfg k c p (c_own cn) SS sid q pq v (W _ _ HS) Hi Hp Hpq Hq V) as [O1 V1].
    exists (left_session cfg c p (c_own cn) SS). split; [|by rewrite recv_oksK_all].
    rewrite decide_False; [by rewrite lookup_insert|].
    destruct (left_session_parts cfg c p (c_own cn) SS) as [EL _]. rewrite EL. intros He.
    assert (Hx : delete p (s_parts SS) !! pq = Some q).
    { rewrite lookup_delete_ne; [done|]. intros ->. congruence. }
    rewrite He in Hx. by rewrite lookup_empty in Hx.
  - exists SSq. split.
    { case_decide; [by rewrite lookup_delete_ne|by rewrite lookup_insert_ne]. }
    rewrite leave_nonmember; [done|done|done|].
    intros pq' Hpq'. exfalso. apply Hne.
    assert (cur_of st q = Some (sid, pq')).
    { apply (inv_parts _ I sid (s_parts SS) pq' q); [unfold parts_of; by rewrite HS|done]. }
    congruence.
Qed.

(* ---------- entering a registered session ---------- *)
Lemma enter_state cfg st c rid n ots SS :
  sessions st !! n = Some SS →
  sessions (enter cfg st c rid n ots).1.1 = <[n := entered SS c]> (sessions st) ∧
  (∀ q, q ≠ c → cur_of (enter cfg st c rid n ots).1.1 q = cur_of st q) ∧
  (is_Some (conns st !! c) → cur_of (enter cfg st c rid n ots).1.1 c = Some (n, u32_succ (s_pgen SS))) ∧
  (enter cfg st c rid n ots).2 = VOk.
Proof.
  intros HS. unfold enter. rewrite HS. simpl. split; [done|]. split; [|split; [|done]].
  - intros q Hq. unfold cur_of, upd_conn. simpl. destruct (conns st !! c); [|done]. by rewrite lookup_insert_ne.
  - intros [cn Hc]. unfold cur_of, upd_conn. simpl. rewrite Hc. by rewrite lookup_insert.
Qed.

Lemma enter_others cfg st c rid n ots SS :
  inv st → (∀ f, flag_on cfg f = false) → cur_of st c = None → sessions st !! n = Some SS →
  s_parts SS !! u32_succ (s_pgen SS) = None →
  others_step (λ _, true) c (enter cfg st c rid n ots).1.2 st (enter cfg st c rid n ots).1.1.
Proof.
  intros I Hnf Hcur HS Hfresh.
  rewrite (enter_outputs cfg st c rid n ots SS HS (Hnf _) (Hnf _)). cbv zeta. fold (enter_outs cfg c rid n ots SS).
  destruct (enter_state cfg st c rid n ots SS HS) as (ES&EC&_&_).
  assert (Hi : parts_injective (entered SS c)).
  { apply entered_injective; [by eapply member_inj|done|]. intros q. eapply nonmember_parts; [done|done|]. intros p. congruence. }
  intros q Hq. split; [by apply EC|].
  destruct (cur_of st q) as [[sidq pq]|] eqn:Hcq; [|done]. intros SSq v HSq V. rewrite ES.
  destruct (decide (sidq = n)) as [->|Hne].
  - assert (SSq = SS) as -> by congruence.
    pose proof (member_parts _ _ _ _ _ I Hcq HS) as Hpq.
    destruct (enter_member cfg c rid n ots SS n q pq v Hi Hfresh Hpq Hq V) as [O1 V1].
    exists (entered SS c). rewrite lookup_insert. split; [done|]. by rewrite recv_oksK_all.
  - exists SSq. rewrite lookup_insert_ne by done. split; [done|].
    rewrite enter_nonmember; [done|done|]. intros pq'. eapply nonmember_parts; [done|done|]. intros p. congruence.
Qed.

(* ---------- creating a session and entering it ---------- *)
Lemma enter_new_others cfg st c rid ots hint n st2 :
  inv st → nowrap st → (∀ f, flag_on cfg f = false) → create_session hint st = (n, st2) →
  others_step (λ _, true) c (enter cfg st2 c rid n ots).1.2 st (enter cfg st2 c rid n ots).1.1.
Proof.
  intros I Wn Hnf Hcr.
  destruct (create_session_proj _ _ _ _ I Wn Hcr) as (Hfresh&C1&_).
  destruct (create_sessions _ _ _ _ Hcr) as [E2 _].
  set (S0 := session0 (next_uuid st + 1)) in *.
  assert (HS2 : sessions st2 !! n = Some S0) by (rewrite E2; by rewrite lookup_insert).
  rewrite (enter_outputs cfg st2 c rid n ots S0 HS2 (Hnf _) (Hnf _)). cbv zeta. fold (enter_outs cfg c rid n ots S0).
  destruct (enter_state cfg st2 c rid n ots S0 HS2) as (ES&EC&_&_).
  intros q Hq. split; [rewrite EC by done; apply C1|].
  destruct (cur_of st q) as [[sidq pq]|] eqn:Hcq; [|done]. intros SSq v HSq V. rewrite ES, E2.
  assert (Hne : sidq ≠ n).
  { intros ->. unfold parts_of in Hfresh. by rewrite HSq in Hfresh. }
  exists SSq. rewrite !lookup_insert_ne by done. split; [done|].
  rewrite enter_nonmember; [done|done|]. intros pq'. unfold S0. simpl. by rewrite lookup_empty.
Qed.

(* ---------- a session-local request ---------- *)
Lemma sstep_others cfg k st c cn sid p SS r :
  inv st → swf cfg k st → k + 1 < two32 → (∀ f, flag_on cfg f = false) →
  conns st !! c = Some cn → c_cur cn = Some (sid, p) → sessions st !! sid = Some SS → session_local r = true →
  let res := apply_sstep st c sid (sstep cfg c p (c_own cn) SS r) in
  others_step core_msg c res.1.2 st res.1.1.
Proof.
  intros I W Hk Hnf Hc Hcur HS Hl res. unfold res, apply_sstep. cbn [fst snd].
  destruct (inv_member st c cn sid p SS I Hc Hcur HS) as [Hp Hi].
  intros q Hq. split.
  { unfold cur_of, upd_conn. simpl. rewrite Hc. by rewrite lookup_insert_ne. }
  destruct (cur_of st q) as [[sidq pq]|] eqn:Hcq; [|done]. intros SSq v HSq V. simpl.
  destruct (decide (sidq = sid)) as [->|Hne].
  - assert (SSq = SS) as -> by congruence.
    pose proof (member_parts _ _ _ _ _ I Hcq HS) as Hpq.
    destruct (sstep_member cfg k c p (c_own cn) SS r sid q pq v (W _ _ HS) Hk Hi Hp Hnf Hl Hpq Hq V) as [O1 V1].
    eexists. rewrite lookup_insert. split; [done|]. done.
  - exists SSq. rewrite lookup_insert_ne by done. split; [done|].
    rewrite sstep_nonmember; [done|done|]. intros pq'. eapply nonmember_parts; [done|done|]. intros p'. congruence.
Qed.

(* ================= 8. one event of the predicate against one step of the model ================= *)
Lemma spec_step_mem_other sp e q : Some q ≠ actor e → sp_mem (spec_step sp e) !! q = sp_mem sp !! q.
Proof.
  unfold spec_step, actor. intros Hq.
  assert (Hd : ∀ c, Some q ≠ Some c → sp_mem (depart sp c) !! q = sp_mem sp !! q).
  { intros c Hc. rewrite depart_mem. rewrite decide_False; [done|]. intros ->. done. }
  destruct (ev_op e) as [c|c r|c h|s|c|]; try done.
  - destruct (ev_verdict e); try done; by apply Hd.
  - destruct (ev_verdict e); try (by apply Hd).
    all: destruct (ev_req e) as [r|]; [|done].
    all: destruct r; try (destruct (sp_mem sp !! c) as [[sid0 pid0]|]; [by rewrite spec_request_mem|done]).
    all: destruct (join_resp c (ev_outs e)) as [[[[? ?] ?] ?]|];
      [rewrite enter_spec_mem, decide_False by (intros ->; done); by apply Hd|].
    all: destruct (has_error c E_NOT_FOUND (ev_outs e)); [by apply Hd|done].
  - by apply Hd.
Qed.

(* violations of the delivery phase that concern message kinds outside [K] *)
Definition outside (K : msg → bool) (i : nat) (x : violation) : Prop :=
  ∃ q m, K m = false ∧ x = viol i 106 [zn q; hd 0%Z (enc_msg m)].

Lemma recv_fold_violsK K act i outs (vs : gmap N view) l :
  (∀ q v, Some q ≠ act → vs !! q = Some v → recv_oksK K v (msgs_to q outs) = true) →
  ∃ extra, (recv_fold act i outs (vs, l)).2 = l ++ extra ∧ Forall (outside K i) extra.
Proof.
  revert vs l. induction outs as [|[c m] outs IH]; intros vs l Hok.
  { exists []. by rewrite app_nil_r. }
  unfold recv_fold. cbn [fold_left]. fold (recv_fold act i outs (recv_one act i (vs, l) (c, m))).
  unfold recv_one. cbn [fst snd].
  destruct (bool_decide (Some c = act)) eqn:Ea.
  { apply IH. intros q v Hq Hv. specialize (Hok q v Hq Hv). apply bool_decide_eq_true in Ea.
    rewrite msgs_to_cons_ne in Hok; [done|]. intros ->. done. }
  apply bool_decide_eq_false in Ea.
  destruct (vs !! c) as [v|] eqn:Ec.
  - destruct (view_recv v m) as [ok v'] eqn:Er.
    pose proof (Hok c v Ea Ec) as H0. rewrite msgs_to_cons_eq in H0. unfold recv_oksK in H0. fold recv_oksK in H0.
    rewrite Er in H0. cbn [fst snd] in H0. apply andb_true_iff in H0 as [H0 H1].
    destruct (IH (<[c := v']> vs) (l ++ okv i ok 106 [zn c; hd 0%Z (enc_msg m)])) as (extra&E&F).
    { intros q w Hq. destruct (decide (c = q)) as [->|Hne].
      + rewrite lookup_insert. by intros [= <-].
      + rewrite lookup_insert_ne by done. intros Hw. specialize (Hok q w Hq Hw). by rewrite msgs_to_cons_ne in Hok. }
    exists (okv i ok 106 [zn c; hd 0%Z (enc_msg m)] ++ extra). rewrite E, app_assoc. split; [done|].
    apply Forall_app. split; [|done]. destruct ok; [constructor|]. simpl in H0. rewrite orb_false_r in H0.
    apply negb_true_iff in H0. constructor; [|constructor]. by exists c, m.
  - apply IH. intros q w Hq Hw. specialize (Hok q w Hq Hw).
    destruct (decide (c = q)) as [->|Hne]; [congruence|]. by rewrite msgs_to_cons_ne in Hok.
Qed.

Lemma event_views cfg K i sp vs e st st1 :
  let sp' := spec_step sp e in
  spec_ok sp st → views_ok vs st →
  (∀ q, Some q ≠ actor e → cur_of st1 q = cur_of st q ∧
     match cur_of st q with
     | Some (sid, pq) => ∀ SS v, sessions st !! sid = Some SS → vrel v sid pq SS →
         ∃ SS', sessions st1 !! sid = Some SS' ∧ recv_oksK K v (msgs_to q (ev_outs e)) = true ∧
                vrel (recv_all v (msgs_to q (ev_outs e))) sid pq SS'
     | None => True
     end) →
  (∀ c, actor e = Some c → sp_mem sp' !! c = cur_of st1 c ∧
     match cur_of st1 c with
     | Some (sid, p) => ∃ v SS, own_view sp sp' e c (vs !! c) = Some v ∧ sessions st1 !! sid = Some SS ∧ vrel v sid p SS
     | None => True
     end) →
  spec_ok sp' st1 ∧ views_ok (P_C01_event cfg i sp sp' vs e).1 st1 ∧
  ∃ extra, (recv_fold (actor e) i (ev_outs e) (vs, [])).2 = extra ∧ Forall (outside K i) extra.
Proof.
  intros sp' Hsp Hvs Hoth Hown. split; [|split].
  - intros c. destruct (decide (Some c = actor e)) as [Ha|Ha].
    + by apply Hown.
    + unfold sp'. rewrite spec_step_mem_other by done. rewrite Hsp. symmetry. by apply Hoth.
  - intros c. rewrite P_C01_event_eq. unfold P_C01_event'.
    destruct (recv_fold (actor e) i (ev_outs e) (vs, [])) as [vs1 viol1] eqn:E1.
    set (vs2 := own_step sp sp' e vs1).
    pose proof (dirty_step_lookup i sp e vs2 c) as Hd.
    destruct (dirty_step i sp e vs2) as [vs3 viol3]. cbn [fst] in *.
    assert (H1 : vs1 !! c = if bool_decide (Some c = actor e) then vs !! c
                           else (λ v, recv_all v (msgs_to c (ev_outs e))) <$> vs !! c).
    { pose proof (recv_fold_lookup (actor e) i (ev_outs e) vs [] c) as H. by rewrite E1 in H. }
    assert (H2 : vs2 !! c = match actor e with
                            | Some a => if decide (c = a) then own_view sp sp' e a (vs1 !! a) else vs1 !! c
                            | None => vs1 !! c end) by apply own_step_lookup.
    destruct (decide (Some c = actor e)) as [Ha|Ha].
    + (* the actor *)
      destruct (Hown c (eq_sym Ha)) as [Hm Ho]. rewrite <- Ha in H2. rewrite decide_True in H2 by done.
      rewrite H1, bool_decide_eq_true_2 in H2 by done.
      destruct (cur_of st1 c) as [[sid p]|] eqn:Hc.
      * destruct Ho as (v&SS&Hv&HS&V). rewrite Hv in H2. rewrite H2 in Hd. unfold opt_rel in Hd.
        destruct (vs3 !! c) as [w|]; [|done]. exists w, SS. split; [done|]. split; [done|]. by eapply vrel_dirty_only.
      * assert (Hn : own_view sp sp' e c (vs !! c) = None) by (unfold own_view; by rewrite Hm).
        rewrite Hn in H2. rewrite H2 in Hd. unfold opt_rel in Hd. by destruct (vs3 !! c).
    + (* everybody else *)
      destruct (Hoth c Ha) as [Ec Ho]. rewrite Ec. rewrite bool_decide_eq_false_2 in H1 by done.
      assert (H2' : vs2 !! c = vs1 !! c).
      { rewrite H2. destruct (actor e) as [a|]; [|done]. rewrite decide_False; [done|]. intros ->. done. }
      rewrite H2', H1 in Hd. specialize (Hvs c).
      destruct (cur_of st c) as [[sid pq]|].
      * destruct Hvs as (v&SS&Hv&HS&V). destruct (Ho SS v HS V) as (SS'&HS'&_&V').
        rewrite Hv in Hd. simpl in Hd. unfold opt_rel in Hd. destruct (vs3 !! c) as [w|]; [|done].
        exists w, SS'. split; [done|]. split; [done|]. by eapply vrel_dirty_only.
      * rewrite Hvs in Hd. simpl in Hd. unfold opt_rel in Hd. by destruct (vs3 !! c).
  - destruct (recv_fold_violsK K (actor e) i (ev_outs e) vs []) as (extra&E&F).
    + intros q v Hq Hv. destruct (Hoth q Hq) as [_ Ho]. specialize (Hvs q).
      destruct (cur_of st q) as [[sid pq]|]; [|congruence].
      destruct Hvs as (v'&SS&Hv'&HS&V). assert (v' = v) as -> by congruence.
      by destruct (Ho SS v HS V) as (_&_&O&_).
    + exists extra. by rewrite E.
Qed.

Lemma others_step_weaken K c outs st st' : others_step (λ _, true) c outs st st' → others_step K c outs st st'.
Proof.
  intros H q Hq. destruct (H q Hq) as [E G]. split; [done|]. destruct (cur_of st q) as [[sid pq]|]; [|done].
  intros SS v HS V. destruct (G SS v HS V) as (SS'&HS'&O&V'). exists SS'. split; [done|]. split; [|done].
  apply recv_oks_K. by rewrite <- recv_oksK_all.
Qed.

Lemma fresh_pid st n SS :
  inv st → nowrap st → sessions st !! n = Some SS → s_parts SS !! u32_succ (s_pgen SS) = None.
Proof.
  intros I [_ Wn] HS. destruct (s_parts SS !! u32_succ (s_pgen SS)) as [c0|] eqn:E; [|done]. exfalso.
  assert (Hp : parts_of st n = Some (s_parts SS)) by (unfold parts_of; by rewrite HS).
  assert (Hg : pgen_of st n = Some (s_pgen SS)) by (unfold pgen_of; by rewrite HS).
  pose proof (inv_pgen _ I n _ _ (u32_succ (s_pgen SS)) Hp Hg (ex_intro _ _ E)) as Hle.
  rewrite u32_succ_small in Hle by (by eapply Wn). lia.
Qed.

Lemma module_msgs_self cfg c SS d : d ∈ module_join_msgs cfg c SS → fst d = c.
Proof.
  unfold module_join_msgs. intros [H|H]%elem_of_app.
  - destruct (cfg_vikja cfg); [|by inversion H]. by apply elem_of_list_singleton in H as ->.
  - destruct (cfg_odal cfg); [|by inversion H]. by apply elem_of_list_singleton in H as ->.
Qed.

(* ---------- a join request ---------- *)
Lemma join_others cfg k st c rid s ots hint :
  inv st → nowrap st → swf cfg k st → (∀ f, flag_on cfg f = false) →
  others_step (λ _, true) c (Model.join cfg st c rid s ots hint).1.2 st (Model.join cfg st c rid s ots hint).1.1.
Proof.
  intros I Wn W Hnf. unfold Model.join. destruct (conns st !! c) as [cn|] eqn:Hc; [|apply others_step_refl].
  destruct (already_joined cn s) eqn:Ha.
  { simpl. apply others_step_quiet; [done|done|]. intros d [->|Hd]%elem_of_cons; [done|].
    destruct (c_cur cn) as [[cur pc]|]; [|by inversion Hd]. destruct (sessions st !! cur); [|by inversion Hd].
    by eapply module_msgs_self. }
  pose proof (leave_others cfg k st c I W Hnf) as HL.
  pose proof (inv_leave cfg st c I) as I1. pose proof (leave_cur cfg st c I) as Hcur1.
  pose proof (leave_nowrap cfg st c I Wn) as Wn1.
  destruct (leave cfg st c) as [st1 o1]. cbn [fst snd] in *.
  assert (Herr : ∀ code, others_step (λ _, true) c (o1 ++ [(c, MError rid code)]) st st1).
  { intros code. eapply others_step_trans; [exact HL|]. apply others_step_quiet; [done|done|].
    intros d Hd. by apply elem_of_list_singleton in Hd as ->. }
  destruct s as [|n|j]; [| |apply Herr].
  - destruct (create_session hint st1) as [n st2] eqn:Hcr.
    pose proof (enter_new_others cfg st1 c rid ots hint n st2 I1 Wn1 Hnf Hcr) as HE.
    destruct (enter cfg st2 c rid n ots) as [[st3 o2] v]. cbn [fst snd] in *.
    by eapply others_step_trans.
  - destruct (sessions st1 !! n) as [SS|] eqn:HS; [|apply Herr].
    pose proof (enter_others cfg st1 c rid n ots SS I1 Hnf Hcur1 HS (fresh_pid _ _ _ I1 Wn1 HS)) as HE.
    destruct (enter cfg st1 c rid n ots) as [[st2 o2] v]. cbn [fst snd] in *.
    by eapply others_step_trans.
Qed.

(* ---------- requests that touch no session ---------- *)
Lemma on_ping_outs st c cn rid d : d ∈ (on_ping st c cn rid).1.2 → fst d = c.
Proof.
  unfold on_ping, send_ping. repeat case_match; simplify_eq; simpl; intros Hd;
    repeat (apply elem_of_cons in Hd as [->|Hd]; [done|]); by inversion Hd.
Qed.
Lemma handle_joined_other_outs cfg st c cn sid p SS r hint d :
  session_local r = false → is_join r = false → d ∈ (handle_joined cfg st c cn sid p SS r hint).1.2 → fst d = c.
Proof.
  intros Hl Hj. destruct r; try discriminate Hl; try discriminate Hj; simpl.
  all: try (by apply on_ping_outs).
  all: unfold send_ping; repeat case_match; simplify_eq; simpl; intros Hd;
    repeat (apply elem_of_cons in Hd as [->|Hd]; [done|]); by inversion Hd.
Qed.
Lemma handle_unjoined_outs cfg st c cn r hint d :
  is_join r = false → d ∈ (handle_unjoined cfg st c cn r hint).1.2 → fst d = c.
Proof.
  intros Hj. destruct r; try discriminate Hj; simpl.
  all: repeat case_match; simplify_eq; simpl; intros Hd;
    repeat (apply elem_of_cons in Hd as [->|Hd]; [done|]); by inversion Hd.
Qed.

Lemma handle_others cfg k st c r hint :
  inv st → nowrap st → swf cfg k st → k + 1 < two32 → (∀ f, flag_on cfg f = false) →
  others_step core_msg c (handle cfg st c r hint).1.2 st (handle cfg st c r hint).1.1.
Proof.
  intros I Wn W Hk Hnf. unfold handle. destruct (conns st !! c) as [cn|] eqn:Hc; [|apply others_step_refl].
  destruct (c_cur cn) as [[sid p]|] eqn:Hcur.
  - destruct (sessions st !! sid) as [SS|] eqn:HS; [|apply others_step_refl].
    destruct (is_join r) eqn:Hj.
    { destruct r; try discriminate Hj. simpl. apply others_step_weaken. by eapply join_others. }
    destruct (session_local r) eqn:Hl.
    + rewrite (handle_joined_sstep cfg st c cn sid p SS r hint Hl Hc HS). by eapply sstep_others.
    + pose proof (handle_joined_other cfg st c cn sid p SS r hint Hl Hj) as ES.
      destruct (handle_joined cfg st c cn sid p SS r hint) as [[st' o] v] eqn:E.
      pose proof (handle_joined_same cfg st c cn sid p SS r hint st' o v Hj HS E) as (EC&_).
      apply others_step_quiet; [done|by intros q _|]. intros d Hd.
      apply (handle_joined_other_outs cfg st c cn sid p SS r hint d Hl Hj). by rewrite E.
  - destruct (is_join r) eqn:Hj.
    { destruct r; try discriminate Hj. simpl. apply others_step_weaken. by eapply join_others. }
    pose proof (handle_unjoined_other cfg st c cn r hint Hj) as ES.
    destruct (handle_unjoined cfg st c cn r hint) as [[st' o] v] eqn:E.
    pose proof (handle_unjoined_same cfg st c cn r hint st' o v Hj E) as (EC&_).
    apply others_step_quiet; [done|by intros q _|]. intros d Hd.
    apply (handle_unjoined_outs cfg st c cn r hint d Hj). by rewrite E.
Qed.

Lemma disconnect_others cfg k st c :
  inv st → swf cfg k st → (∀ f, flag_on cfg f = false) →
  others_step (λ _, true) c (disconnect cfg st c).2 st (disconnect cfg st c).1.
Proof.
  intros I W Hnf. unfold disconnect. pose proof (leave_others cfg k st c I W Hnf) as HL.
  destruct (leave cfg st c) as [st1 o]. cbn [fst snd] in *.
  rewrite <- (app_nil_r o). eapply others_step_trans; [exact HL|]. apply others_step_upd_conn.
Qed.

(* ================= 9. the actor's own view ================= *)
Lemma view_own_other v r ms : session_local r = false → is_join r = false → view_own v r ms = v.
Proof. intros Hl Hj. by destruct r. Qed.

Lemma own_view_keep sp sp' e c h r v sid p :
  sp_mem sp' !! c = Some (sid, p) → sp_mem sp !! c = Some (sid, p) →
  ev_op e = OStep c h → ev_req e = Some r → is_join r = false →
  own_view sp sp' e c (Some v) = Some (view_own v r (msgs_to c (ev_outs e))).
Proof.
  intros H1 H2 Ho Hr Hj. unfold own_view. rewrite H1.
  assert (Hm : mem_changed sp sp' e c = false).
  { unfold mem_changed, rejoined. rewrite H1, H2, Ho, Hr. rewrite bool_decide_eq_true_2 by done. by destruct r. }
  rewrite Hm, Hr. by destruct r.
Qed.
Lemma own_view_idle sp e c vc :
  ev_req e = None → (∀ h, ev_op e ≠ OStep c h) ∨ True → own_view sp sp e c vc = match sp_mem sp !! c with Some _ => vc | None => None end.
Proof.
  intros Hr _. unfold own_view. destruct (sp_mem sp !! c) as [[sid p]|] eqn:E; [|done].
  assert (Hm : mem_changed sp sp e c = false).
  { unfold mem_changed, rejoined. rewrite Hr. rewrite bool_decide_eq_true_2 by done. by destruct (ev_op e). }
  by rewrite Hm, Hr.
Qed.

Lemma spec_step_nonjoin sp e c h r :
  ev_op e = OStep c h → ev_req e = Some r → is_join r = false → ev_verdict e ≠ VErr → ev_verdict e ≠ VPanic →
  sp_mem (spec_step sp e) = sp_mem sp.
Proof.
  intros Ho Hr Hj Hv1 Hv2. unfold spec_step. rewrite Ho, Hr.
  destruct (ev_verdict e); try done.
  all: destruct r; try discriminate Hj; destruct (sp_mem sp !! c) as [[sid0 pid0]|]; try done; by rewrite spec_request_mem.
Qed.

(* the state messages the modules send again after an ALREADY_JOINED refusal *)
Lemma rejoin_own cfg k c rid SS v n p :
  wf cfg k SS → vrel v n p SS →
  vrel (rejoin_view (MError rid E_ALREADY_JOINED :: msgs_to c (module_join_msgs cfg c SS)) v) n p SS.
Proof.
  intros W (V1&V2&[M1 M2]&V3&V4). rewrite msgs_to_module_self. unfold rejoin_view.
  destruct (cfg_vikja cfg) eqn:Ev, (cfg_odal cfg) eqn:Eo; cbn [app omap list_omap head]; repeat split; simpl; try done.
  all: try (apply list_to_map_keyed; intros [e nm] a Ha; destruct (wf_acts _ _ _ W _ _ _ Ha) as (->&->&_); done).
  all: try (apply list_to_map_keyed; intros e a Ha; destruct (wf_assets _ _ _ W _ _ Ha) as (->&_); done).
Qed.

(* nothing a departure causes is delivered to the leaver *)
Lemma leave_outs_self cfg st c : inv st → msgs_to c (leave cfg st c).2 = [].
Proof.
  intros I. apply msgs_to_none. intros Hin. apply elem_of_list_fmap in Hin as (d&Hd&Hin).
  apply leave_recipients in Hin as (cn&sid&p&SS&q&Hc&Hcur&HS&Hq&Hne).
  destruct (inv_member st c cn sid p SS I Hc Hcur HS) as [Hp Hi]. apply Hne. eapply Hi; [done|]. by rewrite <- Hd.
Qed.

Lemma swf_leave cfg k st c : inv st → swf cfg k st → swf cfg k (leave cfg st c).1.
Proof.
  intros I W. destruct (leave_sessions cfg st c I) as [(cn&sid&p&SS&Hc&Hcur&HS&Hp&E)|[_ E]]; [|by rewrite E].
  intros s S'. rewrite E. case_decide as Hd.
  - intros [_ Hx]%lookup_delete_Some. by eapply W.
  - intros [[<- <-]|[_ Hx]]%lookup_insert_Some; [apply wf_left; by eapply W|by eapply W].
Qed.

Definition own_goal (sp sp' : spec) (e : event) (c : N) (vs : gmap N view) (st1 : state) : Prop :=
  sp_mem sp' !! c = cur_of st1 c ∧
  match cur_of st1 c with
  | Some (sid, p) => ∃ v SS, own_view sp sp' e c (vs !! c) = Some v ∧ sessions st1 !! sid = Some SS ∧ vrel v sid p SS
  | None => True
  end.

Lemma spec_step_join sp e c h rid s ots :
  ev_op e = OStep c h → ev_req e = Some (RJoin rid s ots) → ev_verdict e = VOk →
  spec_step sp e =
    match join_resp c (ev_outs e) with
    | Some (_, sid, uuid, pid) => enter_spec (depart sp c) c sid uuid pid
    | None => if has_error c E_NOT_FOUND (ev_outs e) then depart sp c else sp
    end.
Proof. intros Ho Hr Hv. unfold spec_step. by rewrite Ho, Hr, Hv. Qed.

Lemma join_resp_entered cfg c rid n ots SS o1 :
  msgs_to c o1 = [] →
  join_resp c (o1 ++ enter_outs cfg c rid n ots SS) = Some (rid, n, s_uuid SS, u32_succ (s_pgen SS)).
Proof.
  intros H1. unfold join_resp. rewrite first_to_msgs, msgs_to_app, H1. unfold enter_outs. cbv zeta.
  rewrite msgs_to_app. simpl. by rewrite msgs_to_cons_eq.
Qed.

Lemma own_view_entered sp sp' e c h rid s ots vc n p :
  sp_mem sp' !! c = Some (n, p) → ev_op e = OStep c h → ev_req e = Some (RJoin rid s ots) →
  is_Some (join_resp c (ev_outs e)) →
  own_view sp sp' e c vc = Some (view_init n p (msgs_to c (ev_outs e))).
Proof.
  intros H1 Ho Hr [x Hx]. unfold own_view. rewrite H1.
  assert (Hm : mem_changed sp sp' e c = true).
  { unfold mem_changed, rejoined. rewrite Ho, Hr, Hx, N.eqb_refl. simpl. apply orb_true_r. }
  by rewrite Hm.
Qed.

Lemma join_own cfg k sp vs st c rid s ots hint h e :
  (∀ f, flag_on cfg f = false) → inv st → nowrap st → swf cfg k st → is_Some (conns st !! c) →
  spec_ok sp st → views_ok vs st →
  ev_op e = OStep c h → ev_req e = Some (RJoin rid s ots) →
  ev_outs e = (Model.join cfg st c rid s ots hint).1.2 → ev_verdict e = VOk →
  own_goal sp (spec_step sp e) e c vs (Model.join cfg st c rid s ots hint).1.1.
Proof.
  intros Hnf I Wn W [cn Hc] Hsp Hvs Ho Hr Hout Hv.
  rewrite (spec_step_join sp e c h rid s ots Ho Hr Hv). revert Hout. unfold Model.join. rewrite Hc.
  destruct (already_joined cn s) eqn:Ha.
  { (* refused: still in the session *)
    unfold already_joined in Ha. destruct (c_cur cn) as [[n p]|] eqn:Hcur; [|done].
    destruct s as [|n'|j]; try done. apply bool_decide_eq_true in Ha as <-.
    assert (Hcur0 : cur_of st c = Some (n, p)) by (unfold cur_of; by rewrite Hc).
    destruct (live_session _ _ (inv_live _ I _ _ _ Hcur0)) as [SS HS]. rewrite HS. cbn [fst snd]. intros Hout.
    assert (Hmine : msgs_to c (ev_outs e) = MError rid E_ALREADY_JOINED :: msgs_to c (module_join_msgs cfg c SS)).
    { by rewrite Hout, msgs_to_cons_eq. }
    assert (Hjr : join_resp c (ev_outs e) = None).
    { unfold join_resp. rewrite first_to_msgs, Hmine, msgs_to_module_self.
      by destruct (cfg_vikja cfg), (cfg_odal cfg). }
    assert (Hhe : has_error c E_NOT_FOUND (ev_outs e) = false).
    { rewrite has_error_msgs, Hmine, msgs_to_module_self. by destruct (cfg_vikja cfg), (cfg_odal cfg). }
    rewrite Hjr, Hhe. split; [apply Hsp|]. rewrite Hcur0.
    specialize (Hvs c). rewrite Hcur0 in Hvs. destruct Hvs as (v&SS'&Hv'&HS'&V). assert (SS' = SS) as -> by congruence.
    exists (rejoin_view (msgs_to c (ev_outs e)) v), SS. split; [|split; [done|]].
    - unfold own_view. rewrite (Hsp c), Hcur0.
      assert (Hm : mem_changed sp sp e c = false).
      { unfold mem_changed, rejoined. rewrite Ho, Hr, Hjr. rewrite bool_decide_eq_true_2 by done. simpl. apply andb_false_r. }
      by rewrite Hm, Hr, Hv'.
    - rewrite Hmine. eapply rejoin_own; [by eapply W|done]. }
  pose proof (inv_leave cfg st c I) as I1. pose proof (leave_cur cfg st c I) as Hcur1.
  pose proof (leave_nowrap cfg st c I Wn) as Wn1. pose proof (swf_leave cfg k st c I W) as W1.
  pose proof (leave_outs_self cfg st c I) as Ho1.
  pose proof (leave_open cfg st c c) as Hop1.
  destruct (leave cfg st c) as [st1 o1]. cbn [fst snd] in *.
  assert (Hc1 : is_Some (conns st1 !! c)).
  { unfold open_of in Hop1. rewrite Hc in Hop1. simpl in Hop1. destruct (conns st1 !! c); [eauto|done]. }
  assert (Herr : ev_outs e = o1 ++ [(c, MError rid E_NOT_FOUND)] →
                 own_goal sp (match join_resp c (ev_outs e) with
                              | Some (_, sid, uuid, pid) => enter_spec (depart sp c) c sid uuid pid
                              | None => if has_error c E_NOT_FOUND (ev_outs e) then depart sp c else sp end) e c vs st1).
  { intros Hout. assert (Hmine : msgs_to c (ev_outs e) = [MError rid E_NOT_FOUND]).
    { by rewrite Hout, msgs_to_app, Ho1, msgs_to_cons_eq. }
    assert (Hjr : join_resp c (ev_outs e) = None) by (unfold join_resp; by rewrite first_to_msgs, Hmine).
    assert (Hhe : has_error c E_NOT_FOUND (ev_outs e) = true) by (by rewrite has_error_msgs, Hmine).
    rewrite Hjr, Hhe. split; [|by rewrite Hcur1]. by rewrite depart_mem, decide_True, Hcur1. }
  assert (Hent : ∀ st2 n SS, sessions st2 !! n = Some SS → is_Some (conns st2 !! c) → wf cfg k SS →
            parts_injective (entered SS c) →
            ev_outs e = o1 ++ (enter cfg st2 c rid n ots).1.2 →
            own_goal sp (match join_resp c (ev_outs e) with
                         | Some (_, sid, uuid, pid) => enter_spec (depart sp c) c sid uuid pid
                         | None => if has_error c E_NOT_FOUND (ev_outs e) then depart sp c else sp end) e c vs
                     (enter cfg st2 c rid n ots).1.1).
  { intros st2 n SS HS2 Hc2 WS Hi Hout.
    rewrite (enter_outputs cfg st2 c rid n ots SS HS2 (Hnf _) (Hnf _)) in Hout. cbv zeta in Hout.
    fold (enter_outs cfg c rid n ots SS) in Hout.
    destruct (enter_state cfg st2 c rid n ots SS HS2) as (ES&_&EC&_). specialize (EC Hc2).
    pose proof (join_resp_entered cfg c rid n ots SS o1 Ho1) as Hjr. rewrite <- Hout in Hjr. rewrite Hjr.
    split; [by rewrite enter_spec_mem, decide_True, EC|]. rewrite EC.
    exists (view_init n (u32_succ (s_pgen SS)) (msgs_to c (ev_outs e))), (entered SS c).
    split; [|split].
    - eapply own_view_entered; [by rewrite enter_spec_mem, decide_True|done|done|by rewrite Hjr].
    - by rewrite ES, lookup_insert.
    - rewrite Hout, msgs_to_app, Ho1. simpl. by eapply enter_own. }
  destruct s as [|n|j]; [| |exact Herr].
  - destruct (create_session hint st1) as [n st2] eqn:Hcr.
    destruct (create_sessions _ _ _ _ Hcr) as [E2 EC2].
    assert (HS2 : sessions st2 !! n = Some (session0 (next_uuid st1 + 1))) by (rewrite E2; by rewrite lookup_insert).
    specialize (Hent st2 n _ HS2).
    destruct (enter cfg st2 c rid n ots) as [[st3 o2] v]. cbn [fst snd] in *. apply Hent.
    + by rewrite EC2.
    + eapply wf_mono; [|apply wf_session0]. lia.
    + apply entered_injective; [intros q1 q2 c0 Hx; simpl in Hx; by rewrite lookup_empty in Hx|simpl; apply lookup_empty|intros q; simpl; by rewrite lookup_empty].
  - destruct (sessions st1 !! n) as [SS|] eqn:HS; [|exact Herr].
    specialize (Hent st1 n SS HS Hc1 (W1 _ _ HS)).
    destruct (enter cfg st1 c rid n ots) as [[st2 o2] v]. cbn [fst snd] in *. apply Hent.
    apply entered_injective; [by eapply member_inj|by eapply fresh_pid|].
    intros q. eapply nonmember_parts; [done|done|]. intros p. congruence.
Qed.

Lemma join_verdict cfg st c rid s ots hint :
  is_Some (conns st !! c) → (Model.join cfg st c rid s ots hint).2 = VOk.
Proof.
  intros [cn Hc]. unfold Model.join. rewrite Hc. destruct (already_joined cn s); [done|].
  destruct (leave cfg st c) as [st1 o1].
  destruct s as [|n|j]; [| |done].
  - destruct (create_session hint st1) as [n st2] eqn:Hcr.
    destruct (create_sessions _ _ _ _ Hcr) as [E2 _].
    assert (HS2 : sessions st2 !! n = Some (session0 (next_uuid st1 + 1))) by (rewrite E2; by rewrite lookup_insert).
    destruct (enter_state cfg st2 c rid n ots _ HS2) as (_&_&_&Hv).
    destruct (enter cfg st2 c rid n ots) as [[st3 o2] v]. by simpl in *.
  - destruct (sessions st1 !! n) as [SS|] eqn:HS; [|done].
    destruct (enter_state cfg st1 c rid n ots _ HS) as (_&_&_&Hv).
    destruct (enter cfg st1 c rid n ots) as [[st3 o2] v]. by simpl in *.
Qed.
Lemma on_ping_verdict st c cn rid : (on_ping st c cn rid).2 = VOk.
Proof. unfold on_ping, send_ping. by repeat case_match. Qed.
Lemma handle_joined_other_verdict cfg st c cn sid p SS r hint :
  session_local r = false → is_join r = false →
  (handle_joined cfg st c cn sid p SS r hint).2 = VOk ∨ (handle_joined cfg st c cn sid p SS r hint).2 = VErr.
Proof.
  intros Hl Hj. destruct r; try discriminate Hl; try discriminate Hj; simpl.
  all: try (left; apply on_ping_verdict).
  all: unfold send_ping; repeat case_match; simplify_eq; simpl; auto.
Qed.
Lemma handle_unjoined_verdict cfg st c cn r hint :
  is_join r = false →
  (handle_unjoined cfg st c cn r hint).2 = VOk ∨ (handle_unjoined cfg st c cn r hint).2 = VErr.
Proof. intros Hj. destruct r; try discriminate Hj; simpl; repeat case_match; auto. Qed.

Lemma handle_own cfg k sp vs st c r hint h e :
  (∀ f, flag_on cfg f = false) → inv st → nowrap st → swf cfg k st → k + 1 < two32 → is_Some (conns st !! c) →
  spec_ok sp st → views_ok vs st →
  ev_op e = OStep c h → ev_req e = Some r →
  ev_outs e = (handle cfg st c r hint).1.2 → ev_verdict e = (handle cfg st c r hint).2 →
  (handle cfg st c r hint).2 ≠ VErr →
  own_goal sp (spec_step sp e) e c vs (handle cfg st c r hint).1.1.
Proof.
  intros Hnf I Wn W Hk [cn Hc] Hsp Hvs Ho Hr. unfold handle. rewrite Hc.
  assert (Hjoin : ∀ rid s ots, r = RJoin rid s ots →
            ev_outs e = (Model.join cfg st c rid s ots hint).1.2 → ev_verdict e = (Model.join cfg st c rid s ots hint).2 →
            own_goal sp (spec_step sp e) e c vs (Model.join cfg st c rid s ots hint).1.1).
  { intros rid s ots -> Hout Hv. rewrite join_verdict in Hv by eauto. eapply join_own; eauto. }
  destruct (c_cur cn) as [[sid p]|] eqn:Hcur.
  - assert (Hcur0 : cur_of st c = Some (sid, p)) by (unfold cur_of; by rewrite Hc).
    destruct (live_session _ _ (inv_live _ I _ _ _ Hcur0)) as [SS HS]. rewrite HS.
    destruct (is_join r) eqn:Hj.
    { destruct r; try discriminate Hj. simpl. intros Hout Hv _. by eapply Hjoin. }
    pose proof (Hvs c) as Hvc. rewrite Hcur0 in Hvc. destruct Hvc as (v&SS'&Hv'&HS'&V). assert (SS' = SS) as -> by congruence.
    destruct (inv_member st c cn sid p SS I Hc Hcur HS) as [Hp Hi].
    destruct (session_local r) eqn:Hl.
    + rewrite (handle_joined_sstep cfg st c cn sid p SS r hint Hl Hc HS). unfold apply_sstep. cbn [fst snd].
      intros Hout Hv _.
      assert (Hm : sp_mem (spec_step sp e) = sp_mem sp) by (eapply spec_step_nonjoin; eauto; by rewrite Hv).
      assert (Hc1 : cur_of (upd_conn c (set_own (λ _, (sstep cfg c p (c_own cn) SS r).1.2))
                              (put_session st sid (sstep cfg c p (c_own cn) SS r).1.1)) c = Some (sid, p)).
      { rewrite cur_of_upd_conn by (by intros []). unfold cur_of. simpl. by rewrite Hc. }
      split; [by rewrite Hm, Hc1, (Hsp c)|]. rewrite Hc1.
      eexists _, _. split; [|split].
      * rewrite Hv'. eapply own_view_keep; [by rewrite Hm, (Hsp c)|by rewrite (Hsp c)|done|done|done].
      * simpl. by rewrite lookup_insert.
      * rewrite Hout. by eapply sstep_own; [by eapply W|..].
    + pose proof (handle_joined_other cfg st c cn sid p SS r hint Hl Hj) as ES.
      pose proof (handle_joined_other_verdict cfg st c cn sid p SS r hint Hl Hj) as Hvd.
      destruct (handle_joined cfg st c cn sid p SS r hint) as [[st' o] vd] eqn:E. cbn [fst snd] in *.
      pose proof (handle_joined_same cfg st c cn sid p SS r hint st' o vd Hj HS E) as (EC&_).
      intros Hout Hv Hne. destruct Hvd as [->| ->]; [|done].
      assert (Hm : sp_mem (spec_step sp e) = sp_mem sp) by (eapply spec_step_nonjoin; eauto; by rewrite Hv).
      split; [by rewrite Hm, EC, (Hsp c)|]. rewrite EC, Hcur0.
      exists v, SS. split; [|split; [by rewrite ES|done]].
      rewrite Hv'. erewrite own_view_keep; [|by rewrite Hm, (Hsp c)|by rewrite (Hsp c)|done|done|done].
      by rewrite view_own_other.
  - assert (Hcur0 : cur_of st c = None) by (unfold cur_of; by rewrite Hc).
    destruct (is_join r) eqn:Hj.
    { destruct r; try discriminate Hj. simpl. intros Hout Hv _. by eapply Hjoin. }
    pose proof (handle_unjoined_verdict cfg st c cn r hint Hj) as Hvd.
    destruct (handle_unjoined cfg st c cn r hint) as [[st' o] vd] eqn:E. cbn [fst snd] in *.
    pose proof (handle_unjoined_same cfg st c cn r hint st' o vd Hj E) as (EC&_).
    intros Hout Hv Hne. destruct Hvd as [->| ->]; [|done].
    assert (Hm : sp_mem (spec_step sp e) = sp_mem sp) by (eapply spec_step_nonjoin; eauto; by rewrite Hv).
    split; [by rewrite Hm, EC, (Hsp c)|]. by rewrite EC, Hcur0.
Qed.

(* ================= 10. every step of the model ================= *)
Definition ginv (cfg : config) (k : N) (st : state) : Prop := inv st ∧ bounded k st ∧ swf cfg (4 * k) st.

Lemma chain_wf cfg n a b j :
  sess_chain cfg n a b → (∀ SS, a = Some SS → wf cfg j SS) → j + N.of_nat n < two32 →
  ∀ SS, b = Some SS → wf cfg (j + N.of_nat n) SS.
Proof.
  intros (m&Hm&Hc) Ha Hj.
  assert (G : ∀ SS, b = Some SS → wf cfg (j + N.of_nat m) SS).
  { assert (Hjm : j + N.of_nat m < two32) by lia. clear Hm Hj. revert j Ha Hjm.
    induction Hc as [x|m x y z Hxy Hyz IH]; intros j Ha Hj.
    - intros SS E. rewrite N.add_0_r. by apply Ha.
    - rewrite Nat2N.inj_succ in *. replace (j + N.succ (N.of_nat m)) with (j + 1 + N.of_nat m) by lia.
      apply IH; [|lia]. intros SS' ->.
      inversion Hxy; subst; try (eapply wf_trans; [reflexivity|reflexivity|exact Hxy|lia|apply Ha; reflexivity]).
      eapply wf_mono; [|apply wf_session0]. lia. }
  intros SS E. eapply wf_mono; [|by apply G]. lia.
Qed.

Lemma ginv_state0 cfg : ginv cfg 0 state0.
Proof. split; [apply inv_state0|]. split; [apply bounded_state0|]. intros sid SS. simpl. by rewrite lookup_empty. Qed.

Lemma ginv_step cfg k st o : ginv cfg k st → 4 * (k + 1) < two32 → ginv cfg (k + 1) (step cfg st o).1.1.
Proof.
  intros (I&B&W) Hk. destruct (step_inv cfg st o k I B) as [I1 B1]; [lia|]. split; [done|]. split; [done|].
  intros sid SS HS. replace (4 * (k + 1)) with (4 * k + N.of_nat 4) by lia.
  eapply (chain_wf cfg 4 (sessions st !! sid)); [apply (step_chain cfg st o k sid I B); lia| |lia|exact HS].
  intros S0 H0. by eapply W.
Qed.

Lemma views_ok_ext vs st st' :
  (∀ c, cur_of st' c = cur_of st c) → sessions st' = sessions st → views_ok vs st → views_ok vs st'.
Proof. intros EC ES H c. rewrite EC, ES. apply H. Qed.
Lemma spec_ok_ext sp st st' : (∀ c, cur_of st' c = cur_of st c) → spec_ok sp st → spec_ok sp st'.
Proof. intros EC H c. rewrite EC. apply H. Qed.

(* the hypotheses of [event_views] in the common cases *)
Definition others_goal (K : msg → bool) (e : event) (st st1 : state) : Prop :=
  ∀ q, Some q ≠ actor e → cur_of st1 q = cur_of st q ∧
     match cur_of st q with
     | Some (sid, pq) => ∀ SS v, sessions st !! sid = Some SS → vrel v sid pq SS →
         ∃ SS', sessions st1 !! sid = Some SS' ∧ recv_oksK K v (msgs_to q (ev_outs e)) = true ∧
                vrel (recv_all v (msgs_to q (ev_outs e))) sid pq SS'
     | None => True
     end.
Lemma others_goal_actor K e c st st1 :
  actor e = Some c → others_step K c (ev_outs e) st st1 → others_goal K e st st1.
Proof. intros Ha H q Hq. rewrite Ha in Hq. apply H. intros ->. done. Qed.
Lemma others_goal_quiet K e st st1 :
  sessions st1 = sessions st → (∀ q, cur_of st1 q = cur_of st q) → (∀ d, d ∈ ev_outs e → neutral (snd d)) →
  others_goal K e st st1.
Proof.
  intros ES EC Hn q _. split; [apply EC|]. destruct (cur_of st q) as [[sid pq]|]; [|done].
  intros SS v HS V. exists SS. rewrite ES. split; [done|].
  destruct (recvK_neutral K v (msgs_to q (ev_outs e))) as [R1 R2].
  { intros m Hm. apply msgs_to_elem in Hm. by apply (Hn (q, m)). }
  by rewrite R1, R2.
Qed.

Lemma idle_own sp vs e c st st1 :
  ev_req e = None → spec_step sp e = sp → cur_of st1 c = cur_of st c → sessions st1 = sessions st →
  spec_ok sp st → views_ok vs st → own_goal sp (spec_step sp e) e c vs st1.
Proof.
  intros Hr Hs EC ES Hsp Hvs. rewrite Hs. split; [by rewrite EC|]. rewrite EC. specialize (Hvs c).
  destruct (cur_of st c) as [[sid p]|] eqn:Hc; [|done]. destruct Hvs as (v&SS&Hv&HS&V).
  exists v, SS. split; [|by rewrite ES]. rewrite own_view_idle by auto. by rewrite (Hsp c), Hc.
Qed.
Lemma gone_own sp vs e c st1 :
  sp_mem (spec_step sp e) !! c = None → cur_of st1 c = None → own_goal sp (spec_step sp e) e c vs st1.
Proof. intros H1 H2. split; [congruence|]. by rewrite H2. Qed.

Lemma disconnect_cur cfg st c : inv st → cur_of (disconnect cfg st c).1 c = None.
Proof.
  intros I. unfold disconnect. pose proof (leave_cur cfg st c I) as H. destruct (leave cfg st c) as [st1 o].
  simpl in *. rewrite cur_of_upd_conn by (by intros []). done.
Qed.

Definition event_of (cfg : config) (st : state) (o : op) : event :=
  {| ev_op := o; ev_req := consumed st o; ev_outs := (step cfg st o).1.2; ev_verdict := (step cfg st o).2 |}.

Lemma neutral_snap ss g q : neutral (MSnap ss g q).
Proof. by intros v. Qed.

Lemma step_goals cfg k sp vs st o :
  (∀ f, flag_on cfg f = false) → ginv cfg k st → 4 * (k + 1) < two32 → spec_ok sp st → views_ok vs st →
  let e := event_of cfg st o in
  others_goal core_msg e st (step cfg st o).1.1 ∧
  ∀ c, actor e = Some c → own_goal sp (spec_step sp e) e c vs (step cfg st o).1.1.
Proof.
  intros Hnf (I&B&W) Hk Hsp Hvs e.
  assert (Wn : nowrap st) by (eapply bounded_nowrap; [exact B|lia]).
  assert (Hk4 : 4 * k + 1 < two32) by lia.
  (* an event that changes no session, tells nobody anything that matters, and keeps everybody where it is *)
  assert (Hidle : ∀ e st1, ev_req e = None → spec_step sp e = sp → sessions st1 = sessions st →
            (∀ q, cur_of st1 q = cur_of st q) → (∀ d, d ∈ ev_outs e → neutral (snd d)) →
            others_goal core_msg e st st1 ∧ ∀ c, actor e = Some c → own_goal sp (spec_step sp e) e c vs st1).
  { intros e0 st1 Hr Hs ES EC Hn. split; [by apply others_goal_quiet|]. intros c _. by apply (idle_own sp vs e0 c st st1). }
  (* an event that ends with the actor's departure *)
  assert (Hgone : ∀ e c st1, actor e = Some c → others_step core_msg c (ev_outs e) st st1 →
            sp_mem (spec_step sp e) !! c = None → cur_of st1 c = None →
            others_goal core_msg e st st1 ∧ ∀ c', actor e = Some c' → own_goal sp (spec_step sp e) e c' vs st1).
  { intros e0 c st1 Ha Ho Hm Hc. split; [by eapply others_goal_actor|]. intros c' Ha'. assert (c' = c) as -> by congruence.
    by apply gone_own. }
  subst e. unfold event_of. destruct o as [c|c r|c hint|sid|c|].
  - (* connect *)
    simpl. destruct (conns st !! c) as [cn|] eqn:Hc; simpl.
    + apply Hidle; try done. by inversion 1.
    + apply Hidle; try done; [|by inversion 1]. intros q. unfold cur_of. simpl.
      destruct (decide (c = q)) as [->|Hne]; [by rewrite lookup_insert, Hc|by rewrite lookup_insert_ne].
  - (* send *)
    cbn [step consumed]. unfold dispatch. destruct (conns st !! c) as [cn|] eqn:Hc.
    2:{ simpl. apply Hidle; try done. by inversion 1. }
    destruct (c_open cn) eqn:Hop; simpl.
    2:{ apply Hidle; try done. by inversion 1. }
    assert (Hq : ∀ f, (∀ cn, c_cur (f cn) = c_cur cn) →
              others_goal core_msg {| ev_op := OSend c r; ev_req := None; ev_outs := []; ev_verdict := VOk |} st (upd_conn c f st) ∧
              ∀ c', actor {| ev_op := OSend c r; ev_req := None; ev_outs := []; ev_verdict := VOk |} = Some c' →
                own_goal sp (spec_step sp {| ev_op := OSend c r; ev_req := None; ev_outs := []; ev_verdict := VOk |})
                  {| ev_op := OSend c r; ev_req := None; ev_outs := []; ev_verdict := VOk |} c' vs (upd_conn c f st)).
    { intros f Hf. split.
      - eapply others_goal_quiet; [done| |by inversion 1]. intros q. by apply cur_of_upd_conn.
      - intros c' _. apply (idle_own sp vs _ c' st); try done. by apply cur_of_upd_conn. }
    destruct r; try (apply Hq; by intros []).
    destruct (ty =? 14) eqn:Ety; [|apply Hq; by intros []].
    pose proof (disconnect_others cfg _ st c I W Hnf) as HD. pose proof (disconnect_cur cfg st c I) as HC.
    destruct (disconnect cfg st c) as [st1 o1]. cbn [fst snd] in *.
    eapply (Hgone _ c); [done|by apply others_step_weaken|change (sp_mem (depart sp c) !! c = None); by rewrite depart_mem, decide_True|done].
  - (* step *)
    cbn [step consumed]. destruct (conns st !! c) as [cn|] eqn:Hc.
    2:{ simpl. apply Hidle; try done. by inversion 1. }
    destruct (c_open cn) eqn:Hop; simpl.
    2:{ apply Hidle; try done. by inversion 1. }
    destruct (c_queue cn) as [|r q] eqn:Hq; simpl.
    { apply Hidle; try done. by inversion 1. }
    set (st0 := upd_conn c (set_queue q) st).
    assert (Hs0 : same_mem st st0) by (apply same_mem_upd_conn; by intros []).
    assert (I0 : inv st0) by by eapply inv_same_mem.
    assert (B0 : bounded k st0) by by eapply bounded_same_mem.
    assert (Wn0 : nowrap st0) by (eapply bounded_nowrap; [exact B0|lia]).
    assert (W0 : swf cfg (4 * k) st0) by exact W.
    assert (EC0 : ∀ q, cur_of st0 q = cur_of st q) by apply Hs0.
    assert (Hc0 : is_Some (conns st0 !! c)).
    { unfold st0, upd_conn. simpl. rewrite Hc. rewrite lookup_insert. eauto. }
    assert (Ho0 : open_of st0 c = Some true).
    { destruct Hs0 as (_&H2&_). rewrite H2. unfold open_of. by rewrite Hc; simpl; rewrite Hop. }
    pose proof (others_step_upd_conn core_msg c (set_queue q) st) as HU. fold st0 in HU.
    pose proof (handle_others cfg _ st0 c r hint I0 Wn0 W0 Hk4 Hnf) as HH.
    pose proof (λ h e, handle_own cfg _ sp vs st0 c r hint h e Hnf I0 Wn0 W0 Hk4 Hc0
                          (spec_ok_ext _ _ _ EC0 Hsp) (views_ok_ext _ _ _ EC0 eq_refl Hvs)) as HO.
    destruct (handle_inv cfg st0 c r hint k I0 B0 ltac:(lia) Ho0) as [I1 _].
    assert (W1 : swf cfg (4 * k + N.of_nat 3) (handle cfg st0 c r hint).1.1).
    { intros s SS HS. eapply (chain_wf cfg 3 (sessions st0 !! s)); [by apply handle_chain| |lia|exact HS].
      intros S0 H0. by eapply W0. }
    destruct (handle cfg st0 c r hint) as [[st1 o1] v] eqn:Hh. cbn [fst snd] in *.
    assert (Hnv : v ≠ VErr → 
       others_goal core_msg {| ev_op := OStep c hint; ev_req := Some r; ev_outs := o1; ev_verdict := v |} st st1 ∧
       ∀ c', actor {| ev_op := OStep c hint; ev_req := Some r; ev_outs := o1; ev_verdict := v |} = Some c' →
         own_goal sp (spec_step sp {| ev_op := OStep c hint; ev_req := Some r; ev_outs := o1; ev_verdict := v |})
           {| ev_op := OStep c hint; ev_req := Some r; ev_outs := o1; ev_verdict := v |} c' vs st1).
    { intros Hv. split.
      - eapply others_goal_actor; [done|]. simpl. change o1 with ([] ++ o1). by eapply others_step_trans.
      - intros c' [= <-]. by eapply (HO hint). }
    destruct v; try (apply Hnv; done).
    pose proof (disconnect_others cfg _ st1 c I1 W1 Hnf) as HD. pose proof (disconnect_cur cfg st1 c I1) as HC.
    destruct (disconnect cfg st1 c) as [st2 o2]. cbn [fst snd] in *.
    eapply (Hgone _ c); [done| |change (sp_mem (depart sp c) !! c = None); by rewrite depart_mem, decide_True|done]. simpl.
    change (o1 ++ o2) with (([] ++ o1) ++ o2).
    eapply others_step_trans; [by eapply others_step_trans|by apply others_step_weaken].
  - (* tick *)
    simpl. apply Hidle; try done; [apply tick_sessions|apply tick_same|by inversion 1].
  - (* disconnect *)
    cbn [step consumed]. destruct (conns st !! c) as [cn|] eqn:Hc.
    2:{ simpl. eapply (Hgone _ c); [done|apply others_step_refl|change (sp_mem (depart sp c) !! c = None); by rewrite depart_mem, decide_True|].
        unfold cur_of. by rewrite Hc. }
    destruct (c_open cn) eqn:Hop; simpl.
    2:{ eapply (Hgone _ c); [done|apply others_step_refl|change (sp_mem (depart sp c) !! c = None); by rewrite depart_mem, decide_True|].
        apply (inv_open _ I). unfold open_of. by rewrite Hc; simpl; rewrite Hop. }
    pose proof (disconnect_others cfg _ st c I W Hnf) as HD. pose proof (disconnect_cur cfg st c I) as HC.
    destruct (disconnect cfg st c) as [st1 o1]. cbn [fst snd] in *.
    eapply (Hgone _ c); [done|by apply others_step_weaken|change (sp_mem (depart sp c) !! c = None); by rewrite depart_mem, decide_True|done].
  - (* snapshot *)
    simpl. apply Hidle; try done. intros d Hd. apply elem_of_list_singleton in Hd as ->. apply neutral_snap.
Qed.

(* ================= 11. code 106 is reported by the delivery phase only ================= *)
Definition nocode (l : list violation) : Prop := ∀ x, x ∈ l → v_code x ≠ 106%Z.
Lemma nocode_nil : nocode [].
Proof. by inversion 1. Qed.
Lemma nocode_app a b : nocode a → nocode b → nocode (a ++ b).
Proof. intros Ha Hb x [H|H]%elem_of_app; [by apply Ha|by apply Hb]. Qed.
Lemma nocode_viol i code info : code ≠ 106%Z → nocode [viol i code info].
Proof. intros Hc x Hx. by apply elem_of_list_singleton in Hx as ->. Qed.
Lemma nocode_okv i b code info : code ≠ 106%Z → nocode (okv i b code info).
Proof. intros Hc. unfold okv. destruct b; [apply nocode_nil|by apply nocode_viol]. Qed.
Lemma nocode_flat_map {A} (f : A → list violation) l : (∀ a, nocode (f a)) → nocode (flat_map f l).
Proof.
  intros Hf x Hx. apply elem_of_list_In, in_flat_map in Hx as (a&_&Hx). apply elem_of_list_In in Hx. by apply (Hf a).
Qed.

Ltac nocode_tac :=
  repeat first
    [ apply nocode_nil
    | apply nocode_app
    | apply nocode_okv; [done]
    | apply nocode_viol; [done]
    | apply nocode_flat_map; intros ?
    | progress case_match ].

Lemma nocode_dump_check cfg k i sp d : nocode (dump_check cfg k 100 i sp d).
Proof. unfold dump_check. nocode_tac. Qed.
Lemma nocode_snap_check cfg k i sp e : nocode (snap_check cfg k 100 i sp e).
Proof. unfold snap_check. nocode_tac. all: try apply nocode_dump_check. Qed.
Lemma nocode_join_check cfg k i sp' c sid outs : nocode (join_snapshot_check cfg k 100 i sp' c sid outs).
Proof. unfold join_snapshot_check. nocode_tac. Qed.
Lemma nocode_bad_msgs i e : nocode (bad_msgs i 100 e).
Proof. unfold bad_msgs. nocode_tac. Qed.
Lemma nocode_rest cfg i sp sp' e vs3 : nocode (rest_viols cfg i sp sp' e vs3).
Proof.
  unfold rest_viols. cbv zeta. nocode_tac.
  all: try apply nocode_join_check; try apply nocode_snap_check; try apply nocode_bad_msgs.
Qed.
Lemma nocode_dirty_fold i outs tid eid l (vs : gmap N view) acc :
  nocode acc → nocode (fold_left (dirty_one i outs tid eid) l (vs, acc)).2.
Proof.
  revert vs acc. induction l as [|pc l IH]; intros vs acc Ha; [done|]. cbn [fold_left]. unfold dirty_one at 2.
  repeat case_match; try (by apply IH). apply IH. apply nocode_app; [done|]. by apply nocode_viol.
Qed.
Lemma nocode_dirty i sp e vs2 : nocode (dirty_step i sp e vs2).2.
Proof. unfold dirty_step. repeat case_match; try apply nocode_nil. apply nocode_dirty_fold, nocode_nil. Qed.

Lemma event_106 cfg i sp sp' (vs : gmap N view) e x :
  x ∈ (P_C01_event cfg i sp sp' vs e).2 → v_code x = 106%Z → x ∈ (recv_fold (actor e) i (ev_outs e) (vs, [])).2.
Proof.
  rewrite P_C01_event_eq. unfold P_C01_event'.
  destruct (recv_fold (actor e) i (ev_outs e) (vs, [])) as [vs1 viol1].
  pose proof (nocode_dirty i sp e (own_step sp sp' e vs1)) as Hd.
  destruct (dirty_step i sp e (own_step sp sp' e vs1)) as [vs3 viol3]. cbn [fst snd] in *.
  intros [H|[H|H]%elem_of_app]%elem_of_app Hc; [done| |].
  - by destruct (Hd x H).
  - by destruct (nocode_rest cfg i sp sp' e vs3 x H).
Qed.

(* ================= 12. whole histories ================= *)
(* the views (and the spec) the predicate P_C01 has after a trace: exactly the state [xscan] threads *)
Fixpoint vscan (cfg : config) (i : nat) (sp : spec) (vs : gmap N view) (t : trace) : gmap N view * spec :=
  match t with
  | [] => (vs, sp)
  | e :: t' => let sp' := spec_step sp e in vscan cfg (S i) sp' (P_C01_event cfg i sp sp' vs e).1 t'
  end.
Definition views_after (cfg : config) (t : trace) : gmap N view := (vscan cfg 0 spec0 ∅ t).1.

Lemma xscan_cons cfg i sp (vs : gmap N view) e t :
  xscan (P_C01_event cfg) i sp vs (e :: t) =
    (P_C01_event cfg i sp (spec_step sp e) vs e).2 ++
    xscan (P_C01_event cfg) (S i) (spec_step sp e) (P_C01_event cfg i sp (spec_step sp e) vs e).1 t.
Proof. simpl. by destruct (P_C01_event cfg i sp (spec_step sp e) vs e). Qed.

Lemma run_from_cons cfg st o h :
  run_from cfg st (o :: h) =
    (event_of cfg st o :: (run_from cfg (step cfg st o).1.1 h).1, (run_from cfg (step cfg st o).1.1 h).2).
Proof.
  simpl. unfold event_of. destruct (step cfg st o) as [[st1 outs] v]. simpl. by destruct (run_from cfg st1 h).
Qed.

Theorem views_run cfg h : ∀ st k i sp (vs : gmap N view),
  (∀ f, flag_on cfg f = false) → ginv cfg k st → 4 * (k + N.of_nat (length h)) < two32 →
  spec_ok sp st → views_ok vs st →
  spec_ok (vscan cfg i sp vs (run_from cfg st h).1).2 (run_from cfg st h).2 ∧
  views_ok (vscan cfg i sp vs (run_from cfg st h).1).1 (run_from cfg st h).2 ∧
  ∀ x, x ∈ xscan (P_C01_event cfg) i sp vs (run_from cfg st h).1 → v_code x = 106%Z → ∃ j, outside core_msg j x.
Proof.
  induction h as [|o h IH]; intros st k i sp vs Hnf G Hk Hsp Hvs.
  - simpl. split; [done|]. split; [done|]. by inversion 1.
  - cbn [length] in Hk. rewrite Nat2N.inj_succ in Hk. rewrite run_from_cons. cbn [fst snd vscan].
    destruct (step_goals cfg k sp vs st o Hnf G ltac:(lia) Hsp Hvs) as [Ho Hw].
    destruct (event_views cfg core_msg i sp vs (event_of cfg st o) st (step cfg st o).1.1 Hsp Hvs Ho Hw) as (Hsp1&Hvs1&extra&Ee&Fe).
    pose proof (ginv_step cfg k st o G ltac:(lia)) as G1.
    destruct (IH (step cfg st o).1.1 (k + 1) (S i) _ _ Hnf G1 ltac:(lia) Hsp1 Hvs1) as (R1&R2&R3).
    split; [exact R1|]. split; [exact R2|].
    intros x. rewrite xscan_cons. intros [Hx|Hx]%elem_of_app Hc.
    + apply event_106 in Hx; [|done]. rewrite Ee in Hx. exists i. by apply (proj1 (Forall_forall _ _) Fe).
    + by apply R3.
Qed.

Lemma spec_ok_0 : spec_ok spec0 state0.
Proof. intros c. unfold cur_of. simpl. by rewrite !lookup_empty. Qed.
Lemma views_ok_0 : views_ok ∅ state0.
Proof. intros c. unfold cur_of. simpl. by rewrite !lookup_empty. Qed.

(* every member's view matches its session, after every history; who is no member has no view *)
Theorem views_simulation cfg h :
  cfg_flags cfg = [] → short h →
  ∀ c, match cur_of (final cfg h) c with
       | Some (sid, p) => ∃ v SS, views_after cfg (run cfg h) !! c = Some v ∧ sessions (final cfg h) !! sid = Some SS ∧
                                  v_sid v = sid ∧ v_pid v = p ∧ view_matches v SS ∧
                                  v_acts v = s_actions SS ∧ v_assets v = s_assets SS
       | None => views_after cfg (run cfg h) !! c = None
       end.
Proof.
  intros Hf Hs c. unfold short in Hs.
  destruct (views_run cfg h state0 0 0%nat spec0 ∅ (noflags cfg Hf) (ginv_state0 cfg) ltac:(lia) spec_ok_0 views_ok_0) as (_&H&_).
  specialize (H c). unfold final, run, views_after. destruct (cur_of _ c) as [[sid p]|]; [|done].
  destruct H as (v&SS&Hv&HS&V1&V2&M&V3&V4). exists v, SS. done.
Qed.

Theorem views_member cfg h c cn sid p SS :
  cfg_flags cfg = [] → short h → member_of cfg h c cn sid p SS →
  ∃ v, views_after cfg (run cfg h) !! c = Some v ∧ v_sid v = sid ∧ v_pid v = p ∧ view_matches v SS ∧
       v_acts v = s_actions SS ∧ v_assets v = s_assets SS.
Proof.
  intros Hf Hs [Hc Hcur HS]. pose proof (views_simulation cfg h Hf Hs c) as H.
  unfold cur_of in H. rewrite Hc in H. simpl in H. rewrite Hcur in H.
  destruct H as (v&SS'&Hv&HS'&H). assert (SS' = SS) as -> by congruence. by exists v.
Qed.

(* the spec the predicate computes from the trace knows exactly who is where *)
Theorem spec_membership cfg h :
  cfg_flags cfg = [] → short h → ∀ c, sp_mem (spec_after (run cfg h)) !! c = cur_of (final cfg h) c.
Proof.
  intros Hf Hs c. unfold short in Hs.
  destruct (views_run cfg h state0 0 0%nat spec0 ∅ (noflags cfg Hf) (ginv_state0 cfg) ltac:(lia) spec_ok_0 views_ok_0) as (H&_&_).
  specialize (H c). unfold final, run in *. rewrite <- H. f_equal. f_equal.
  unfold spec_after. generalize (run_from cfg state0 h).1. generalize spec0. generalize (∅ : gmap N view). generalize 0%nat.
  intros i vs sp t. revert i vs sp. induction t as [|e t IH]; intros i vs sp; [done|]. simpl. apply IH.
Qed.

(* every broadcast other than a component notification is applicable when it is delivered *)
Theorem deliveries_applicable_partial cfg h x :
  cfg_flags cfg = [] → short h → x ∈ P_C01 cfg (run cfg h) → v_code x = 106%Z →
  ∃ i q m, comp_msg m = true ∧ x = viol i 106 [zn q; hd 0%Z (enc_msg m)].
Proof.
  intros Hf Hs Hx Hc. unfold short in Hs.
  destruct (views_run cfg h state0 0 0%nat spec0 ∅ (noflags cfg Hf) (ginv_state0 cfg) ltac:(lia) spec_ok_0 views_ok_0) as (_&_&H).
  destruct (H x Hx Hc) as (i&q&m&Hm&->). exists i, q, m. split; [|done]. unfold core_msg in Hm. by apply negb_false_iff in Hm.
Qed.

(* ==================================================================================================== *)
(* ================= PART II: components, with the [synced] / [dirty] bookkeeping ===================== *)
(* ==================================================================================================== *)

(* the view knows type [tid] exactly *)
Definition agree (v : view) (SS : session) (tid : N) : Prop :=
  ∀ eid, v_comps v !! (tid, eid) = st_comps (s_store SS) !! (tid, eid).
(* subscriptions as the server has them; synced types are subscribed; every type that is synced, or that no
   un-notified change has touched since the view last covered it, is known exactly.  [X]: types exempted (between the
   delivery phase and the bookkeeping phase of an event) *)
Definition crelX (X : gset N) (v : view) (p : N) (SS : session) : Prop :=
  (∀ tid, tid ∈ v_subd v ↔ p ∈ subs_of (s_store SS) tid) ∧
  v_synced v ⊆ v_subd v ∧
  (∀ tid, tid ∉ X → (tid ∈ v_synced v ∨ tid ∉ v_dirty v) → agree v SS tid).
Definition crel : view → N → session → Prop := crelX ∅.

Lemma crelX_transfer X X' v v' p SS S1 :
  crelX X v p SS → X ⊆ X' →
  (∀ tid, p ∈ subs_of (s_store S1) tid ↔ p ∈ subs_of (s_store SS) tid) →
  v_subd v' = v_subd v → v_synced v' = v_synced v → v_dirty v' = v_dirty v →
  (∀ tid, tid ∉ X' → agree v SS tid → agree v' S1 tid) →
  crelX X' v' p S1.
Proof.
  intros (C1&C2&C3) HX Hs E1 E2 E3 Ha. split; [|split].
  - intros tid. rewrite E1, Hs. apply C1.
  - by rewrite E1, E2.
  - intros tid Ht Hc. rewrite E2, E3 in Hc. apply Ha; [done|]. apply C3; [set_solver|done].
Qed.
Lemma crelX_same X v p SS S1 :
  crelX X v p SS → st_comps (s_store S1) = st_comps (s_store SS) → st_subs (s_store S1) = st_subs (s_store SS) →
  crelX X v p S1.
Proof.
  intros C E1 E2. eapply crelX_transfer; [exact C|done| |done|done|done|].
  - intros tid. unfold subs_of. by rewrite E2.
  - intros tid _ Ha eid. rewrite E1. apply Ha.
Qed.

(* the three component notifications, applied to a view that knows the type or does not claim to *)
Lemma crel_comp_add v p SS S1 ots tid eid data :
  crel v p SS → st_comps (s_store SS) !! (tid, eid) = None →
  st_comps (s_store S1) = <[(tid, eid) := data]> (st_comps (s_store SS)) → st_subs (s_store S1) = st_subs (s_store SS) →
  (view_recv v (MCompAddB ots {| cp_tid := tid; cp_eid := eid; cp_data := data |})).1 = true ∧
  crel (view_recv v (MCompAddB ots {| cp_tid := tid; cp_eid := eid; cp_data := data |})).2 p S1.
Proof.
  intros C Hn E1 E2. split.
  - simpl. destruct (bool_decide (tid ∈ v_synced v)) eqn:Es; [|done]. apply bool_decide_eq_true in Es.
    destruct C as (_&_&C3). rewrite (C3 tid) by (set_solver || auto). by rewrite Hn.
  - eapply crelX_transfer; [exact C|done| |done|done|done|].
    + intros t. unfold subs_of. by rewrite E2.
    + intros t _ Ha e. simpl. rewrite E1. destruct (decide ((t, e) = (tid, eid))) as [[= -> ->]|Hne].
      * by rewrite !lookup_insert.
      * rewrite !lookup_insert_ne by done. apply Ha.
Qed.
Lemma crel_comp_delete v p SS S1 ots tid eid :
  crel v p SS → is_Some (st_comps (s_store SS) !! (tid, eid)) →
  st_comps (s_store S1) = delete (tid, eid) (st_comps (s_store SS)) → st_subs (s_store S1) = st_subs (s_store SS) →
  (view_recv v (MCompDeleteB ots tid eid)).1 = true ∧ crel (view_recv v (MCompDeleteB ots tid eid)).2 p S1.
Proof.
  intros C [d Hd] E1 E2. split.
  - simpl. destruct (bool_decide (tid ∈ v_synced v)) eqn:Es; [|done]. apply bool_decide_eq_true in Es.
    destruct C as (_&_&C3). rewrite (C3 tid) by (set_solver || auto). by rewrite Hd.
  - eapply crelX_transfer; [exact C|done| |done|done|done|].
    + intros t. unfold subs_of. by rewrite E2.
    + intros t _ Ha e. simpl. rewrite E1. destruct (decide ((t, e) = (tid, eid))) as [[= -> ->]|Hne].
      * by rewrite !lookup_delete.
      * rewrite !lookup_delete_ne by done. apply Ha.
Qed.
Lemma crel_comp_update v p SS S1 ots tid eid data :
  crel v p SS → is_Some (st_comps (s_store SS) !! (tid, eid)) →
  st_comps (s_store S1) = <[(tid, eid) := data]> (st_comps (s_store SS)) → st_subs (s_store S1) = st_subs (s_store SS) →
  (view_recv v (MCompUpdateB ots {| cp_tid := tid; cp_eid := eid; cp_data := data |})).1 = true ∧
  crel (view_recv v (MCompUpdateB ots {| cp_tid := tid; cp_eid := eid; cp_data := data |})).2 p S1.
Proof.
  intros C [d Hd] E1 E2. split.
  - simpl. destruct (bool_decide (tid ∈ v_synced v)) eqn:Es; [|done]. apply bool_decide_eq_true in Es.
    destruct C as (_&_&C3). rewrite (C3 tid) by (set_solver || auto). by rewrite Hd.
  - eapply crelX_transfer; [exact C|done| |done|done|done|].
    + intros t. unfold subs_of. by rewrite E2.
    + intros t _ Ha e. simpl. rewrite E1. destruct (decide ((t, e) = (tid, eid))) as [[= -> ->]|Hne].
      * by rewrite !lookup_insert.
      * rewrite !lookup_insert_ne by done. apply Ha.
Qed.
(* a change of one component the member is not told about: nothing is claimed about that type any more *)
Lemma crel_untold v p SS S1 tid eid :
  crel v p SS → p ∉ subs_of (s_store SS) tid →
  (∀ t e, (t, e) ≠ (tid, eid) → st_comps (s_store S1) !! (t, e) = st_comps (s_store SS) !! (t, e)) →
  st_subs (s_store S1) = st_subs (s_store SS) →
  crelX {[tid]} v p S1 ∧ tid ∉ v_synced v.
Proof.
  intros C Hp E1 E2. split.
  - eapply crelX_transfer; [exact C|set_solver| |done|done|done|].
    + intros t. unfold subs_of. by rewrite E2.
    + intros t Ht Ha e. rewrite E1; [apply Ha|]. intros [= -> _]. set_solver.
  - destruct C as (C1&C2&_). intros Hs. apply Hp, C1, C2, Hs.
Qed.
(* an entity goes, with its components *)
Lemma crel_remove_entity v p SS S1 eid :
  crel v p SS →
  (∀ t e, st_comps (s_store S1) !! (t, e) = if decide (e = eid) then None else st_comps (s_store SS) !! (t, e)) →
  st_subs (s_store S1) = st_subs (s_store SS) →
  crel (v_remove_entity eid v) p S1.
Proof.
  intros C E1 E2. eapply crelX_transfer; [exact C|done| |done|done|done|].
  - intros t. unfold subs_of. by rewrite E2.
  - intros t _ Ha e. simpl. rewrite E1. case_decide as Hd.
    + subst. apply map_filter_lookup_None. right. intros d _. simpl. rewrite N.eqb_refl. simpl. tauto.
    + rewrite <- Ha. destruct (v_comps v !! (t, e)) as [d|] eqn:Ed.
      * apply map_filter_lookup_Some. split; [done|]. simpl. apply N.eqb_neq in Hd. rewrite Hd. simpl. tauto.
      * apply map_filter_lookup_None. by left.
Qed.

Lemma has_msg_msgs q outs f : has_msg q outs f = existsb f (msgs_to q outs).
Proof.
  unfold has_msg, msgs_to. induction outs as [|[c m] outs IH]; [done|]. simpl.
  destruct (c =? q); simpl; by rewrite IH.
Qed.
Lemma msgs_to_broadcast_to_member SS p ids m q pq :
  parts_injective SS → s_parts SS !! pq = Some q → pq ≠ p →
  msgs_to q (broadcast_to SS p ids m) = if bool_decide (pq ∈ ids) then [m] else [].
Proof.
  intros Hi Hq Hne. case_bool_decide as Hin.
  - apply msgs_to_once; [by apply broadcast_to_recipients_NoDup|]. apply broadcast_to_spec. split; [done|]. by exists pq.
  - apply msgs_to_none. intros H. apply elem_of_list_fmap in H as ([c' m']&->&H). simpl in *.
    apply broadcast_to_spec in H as (_&pq'&Hin'&_&Hq'). assert (pq' = pq) as -> by (by eapply Hi). done.
Qed.

(* the component change a session-local request makes, if any *)
Definition changed (SS : session) (r : req) : option (N * N) :=
  match r with
  | RCompAdd _ tid eid _ _ =>
      if (tid =? 0) || (eid =? 0) then None
      else match s_ents SS !! eid with
           | None => None
           | Some _ => match st_names (s_store SS) !! tid with
                       | None => None
                       | Some _ => match st_comps (s_store SS) !! (tid, eid) with
                                   | Some _ => None | None => Some (tid, eid) end end end
  | RCompDelete _ tid eid _ =>
      if (tid =? 0) || (eid =? 0) then None
      else match s_ents SS !! eid with
           | None => None
           | Some _ => match st_comps (s_store SS) !! (tid, eid) with
                       | None => None | Some _ => Some (tid, eid) end end
  | RCompUpdate tid eid _ _ =>
      if (tid =? 0) || (eid =? 0) then None
      else match s_ents SS !! eid, st_comps (s_store SS) !! (tid, eid) with
           | Some _, Some _ => Some (tid, eid) | _, _ => None end
  | _ => None
  end.

(* a member's view between the delivery phase and the bookkeeping phase *)
Definition crel_mid (chg : option (N * N)) (outs : list delivery) (q : N) (v : view) (pq : N) (SS : session) : Prop :=
  match chg with
  | Some (tid, eid) => if has_msg q outs (notif_about tid eid) then crel v pq SS
                       else crelX {[tid]} v pq SS ∧ tid ∉ v_synced v
  | None => crel v pq SS
  end.

Lemma recvK2_none v p SS S1 :
  crel v p SS → st_comps (s_store S1) = st_comps (s_store SS) →
  (∀ tid, p ∈ subs_of (s_store S1) tid ↔ p ∈ subs_of (s_store SS) tid) →
  recv_oksK comp_msg v [] = true ∧ crel (recv_all v []) p S1.
Proof.
  intros C E1 E2. split; [done|]. eapply crelX_transfer; [exact C|done|done|done|done|done|].
  intros t _ Ha e. rewrite E1. apply Ha.
Qed.
(* a message that is no component notification and leaves the component part of the view alone *)
Definition comp_inert (m : msg) : Prop :=
  comp_msg m = false ∧ ∀ v, let v' := (view_recv v m).2 in
    v_comps v' = v_comps v ∧ v_subd v' = v_subd v ∧ v_synced v' = v_synced v ∧ v_dirty v' = v_dirty v.
Lemma recvK2_inert v m p SS S1 :
  comp_inert m → crel v p SS → st_comps (s_store S1) = st_comps (s_store SS) →
  (∀ tid, p ∈ subs_of (s_store S1) tid ↔ p ∈ subs_of (s_store SS) tid) →
  recv_oksK comp_msg v [m] = true ∧ crel (recv_all v [m]) p S1.
Proof.
  intros [Hm Hi] C E1 E2. unfold recv_oksK, recv_all. simpl. rewrite Hm. simpl. split; [done|].
  destruct (Hi v) as (I1&I2&I3&I4). eapply crelX_transfer; [exact C|done|done|done|done|done|].
  intros t _ Ha e. rewrite I1, E1. apply Ha.
Qed.
Lemma recvK2_inerts v ms p SS :
  (∀ m, m ∈ ms → comp_inert m) → crel v p SS → recv_oksK comp_msg v ms = true ∧ crel (recv_all v ms) p SS.
Proof.
  revert v. induction ms as [|m ms IH]; intros v Hm C; [done|].
  assert (Hi : comp_inert m) by (apply Hm; by left).
  destruct (recvK2_inert v m p SS SS Hi C eq_refl) as [_ C1]; [done|].
  unfold recv_oksK, recv_all. simpl. rewrite (proj1 Hi). simpl. apply IH; [|exact C1]. intros m' Hm'. apply Hm. by right.
Qed.
Lemma inert_entity_add ots e : comp_inert (MEntityAddB ots e). Proof. by split. Qed.
Lemma inert_pose ots eid ps : comp_inert (MPoseB ots eid ps).
Proof. split; [done|]. intros v. simpl. by destruct (v_ents v !! eid). Qed.
Lemma inert_custom ots p b : comp_inert (MCustomB ots p b). Proof. by split. Qed.
Lemma inert_action ots a : comp_inert (MActionB ots a). Proof. by split. Qed.
Lemma inert_asset ots a : comp_inert (MAssetAddB ots a). Proof. by split. Qed.
Lemma inert_join ots p : comp_inert (MJoinB ots p). Proof. by split. Qed.
Lemma inert_leave p : comp_inert (MLeaveB p). Proof. by split. Qed.

Lemma store_add_type_fields name s0 :
  st_comps (store_add_type name s0).2 = st_comps s0 ∧ st_subs (store_add_type name s0).2 = st_subs s0.
Proof. unfold store_add_type. by destruct (st_ids s0 !! name). Qed.
Lemma recvK2_entity_delete cfg k v p SS ots eid :
  wf cfg k SS → crel v p SS →
  recv_oksK comp_msg v [MEntityDeleteB ots eid] = true ∧
  crel (recv_all v [MEntityDeleteB ots eid]) p
       (cleanup_modules cfg eid (set_ents (delete eid) (set_store (store_delete_entity eid) SS))).
Proof.
  intros W C. split; [done|]. unfold recv_all. simpl.
  pose proof (cleanup_modules_fields cfg eid (set_ents (delete eid) (set_store (store_delete_entity eid) SS))) as (_&_&_&_&F5&_).
  apply (crel_remove_entity v p SS); [exact C| |by rewrite F5].
  intros t e. rewrite F5. simpl. apply store_delete_entity_lookup.
Qed.
Lemma subs_of_insert_other s0 tid X t (pq : N) :
  pq ∉ X → (pq ∈ subs_of (store_set_subs (λ m, <[tid := subs_of s0 tid ∪ X]> m) s0) t ↔ pq ∈ subs_of s0 t).
Proof.
  intros Hn. unfold subs_of at 1. simpl. destruct (decide (t = tid)) as [->|Hne].
  - rewrite lookup_insert. simpl. set_solver.
  - by rewrite lookup_insert_ne.
Qed.
Lemma subs_of_remove_other s0 tid (p pq : N) t :
  pq ≠ p →
  (pq ∈ subs_of (store_set_subs (λ m, match m !! tid with Some s => <[tid := s ∖ {[p]}]> m | None => m end) s0) t
   ↔ pq ∈ subs_of s0 t).
Proof.
  intros Hn. unfold subs_of. simpl. destruct (st_subs s0 !! tid) as [s|] eqn:E; [|done].
  destruct (decide (t = tid)) as [->|Hne].
  - rewrite lookup_insert, E. simpl. set_solver.
  - by rewrite lookup_insert_ne.
Qed.

Lemma recvK2_one v m p S1 :
  (view_recv v m).1 = true ∧ crel (view_recv v m).2 p S1 → recv_oksK comp_msg v [m] = true ∧ crel (recv_all v [m]) p S1.
Proof. intros [H1 H2]. unfold recv_oksK, recv_all. simpl. by rewrite H1, orb_true_r. Qed.

Local Arguments crel_mid : simpl never.
Lemma sstep_member2 cfg k c p own SS r q pq v :
  wf cfg k SS → k + 1 < two32 → parts_injective SS → s_parts SS !! p = Some c → (∀ f, flag_on cfg f = false) →
  session_local r = true → s_parts SS !! pq = Some q → q ≠ c → crel v pq SS →
  recv_oksK comp_msg v (msgs_to q (sstep cfg c p own SS r).2) = true ∧
  crel_mid (changed SS r) (sstep cfg c p own SS r).2 q (recv_all v (msgs_to q (sstep cfg c p own SS r).2)) pq
           (sstep cfg c p own SS r).1.1.
Proof.
  intros W Hk Hi Hp Hnf Hl Hq Hqc C.
  assert (Hpq : pq ≠ p). { intros ->. congruence. }
  assert (Hcq : c ≠ q) by done.
  destruct r; try discriminate Hl; simpl; rewrite ?Hnf; repeat case_match; simpl.
  all: unfold crel_mid; rewrite ?has_msg_msgs.
  all: rewrite ?msgs_to_app, ?(msgs_to_cons_ne q c) by done.
  all: rewrite ?(msgs_to_broadcast_member _ p _ q pq) by done.
  all: rewrite ?msgs_to_nil, ?app_nil_r, ?app_nil_l; simpl; rewrite ?N.eqb_refl; simpl.
  all: try (eapply recvK2_none; [exact C|reflexivity|intros ?; reflexivity]).
  all: try (eapply recvK2_inert; [first [apply inert_entity_add|apply inert_pose|apply inert_custom|apply inert_action|apply inert_asset]
                                |exact C|reflexivity|intros ?; reflexivity]).
  all: lazymatch goal with
       | |- context [MEntityDeleteB] => by eapply recvK2_entity_delete
       | |- context [cleanup_modules] =>
           erewrite cleanup_modules_id by eassumption; eapply recvK2_none; [exact C|reflexivity|intros ?; reflexivity]
       | |- context [broadcast_to _ _ _ (MCustomB _ _ _)] =>
           eapply recvK2_inerts; [|exact C]; intros m' Hm'; apply msgs_to_broadcast_to in Hm' as ->; apply inert_custom
       | |- context [MCompAddB] => apply recvK2_one; eapply crel_comp_add; [exact C|eassumption|reflexivity|reflexivity]
       | |- context [MCompDeleteB] => apply recvK2_one; eapply crel_comp_delete; [exact C|eauto|reflexivity|reflexivity]
       | |- context [MCompUpdateB] => idtac
       | |- context [crelX] =>
           split; [done|]; eapply crel_untold; [exact C| | |reflexivity];
           [match goal with H : subs_of _ _ = ∅ |- _ => rewrite H; set_solver end
           |intros t9 e9 Hne; simpl; first [by rewrite lookup_insert_ne|by rewrite lookup_delete_ne]]
       | H : store_add_type ?name ?s0 = _ |- _ =>
           pose proof (store_add_type_fields name s0) as [F1 F2]; rewrite H in F1, F2; simpl in F1, F2;
           eapply recvK2_none; [exact C|exact F1|intros ?; unfold subs_of; simpl; by rewrite F2]
       | |- context [subs_of _ _ ∪ {[_]}] =>
           eapply recvK2_none; [exact C|reflexivity|intros t; apply subs_of_insert_other; set_solver]
       | |- _ => eapply recvK2_none; [exact C|reflexivity|intros t; by apply subs_of_remove_other]
       end.
  (* an update: told to the subscribers only *)
  rewrite (msgs_to_broadcast_to_member _ p _ _ q pq) by done.
  case_bool_decide as Hsub; simpl; rewrite ?N.eqb_refl; simpl.
  - apply recvK2_one. eapply crel_comp_update; [exact C|eauto|reflexivity|reflexivity].
  - split; [done|]. eapply crel_untold; [exact C| | |reflexivity].
    + intros Hin. apply Hsub. by apply elem_of_set_to_sorted.
    + intros t9 e9 Hne. simpl. by rewrite lookup_insert_ne.
Qed.

(* ---------- a session-local request, seen by the requester itself: the component part ---------- *)
Lemma crel_own_insert v p SS S1 k d :
  crel v p SS → st_comps (s_store S1) = <[k := d]> (st_comps (s_store SS)) → st_subs (s_store S1) = st_subs (s_store SS) →
  crel (vset_comps <[k := d]> v) p S1.
Proof.
  intros C E1 E2. eapply crelX_transfer; [exact C|done| |done|done|done|].
  - intros t. unfold subs_of. by rewrite E2.
  - intros t _ Ha e. simpl. rewrite E1. destruct (decide ((t, e) = k)) as [<-|Hne].
    + by rewrite !lookup_insert.
    + rewrite !lookup_insert_ne by done. apply Ha.
Qed.
Lemma crel_own_delete v p SS S1 k :
  crel v p SS → st_comps (s_store S1) = delete k (st_comps (s_store SS)) → st_subs (s_store S1) = st_subs (s_store SS) →
  crel (vset_comps (delete k) v) p S1.
Proof.
  intros C E1 E2. eapply crelX_transfer; [exact C|done| |done|done|done|].
  - intros t. unfold subs_of. by rewrite E2.
  - intros t _ Ha e. simpl. rewrite E1. destruct (decide ((t, e) = k)) as [<-|Hne].
    + by rewrite !lookup_delete.
    + rewrite !lookup_delete_ne by done. apply Ha.
Qed.
(* the own fire-and-forget update, guarded by what the view knows *)
Lemma crel_own_update_accepted v sid p SS S1 tid eid data :
  vrel v sid p SS → crel v p SS → (tid =? 0) || (eid =? 0) = false → is_Some (s_ents SS !! eid) →
  is_Some (st_comps (s_store SS) !! (tid, eid)) →
  st_comps (s_store S1) = <[(tid, eid) := data]> (st_comps (s_store SS)) → st_subs (s_store S1) = st_subs (s_store SS) →
  crel (if negb (tid =? 0) && negb (eid =? 0) && is_Some_b (v_ents v !! eid) && is_Some_b (v_comps v !! (tid, eid))
        then vset_comps <[(tid, eid) := data]> v else v) p S1.
Proof.
  intros (_&_&[_ M2]&_) C Hz [en He] [d Hd] E1 E2. apply orb_false_iff in Hz as [-> ->]. simpl.
  rewrite M2, imap_lookup, He. simpl.
  eapply crelX_transfer; [exact C|done| |by destruct (is_Some_b _)|by destruct (is_Some_b _)|by destruct (is_Some_b _)|].
  - intros t. unfold subs_of. by rewrite E2.
  - intros t _ Ha e. rewrite E1. destruct (decide ((t, e) = (tid, eid))) as [[= -> ->]|Hne].
    + rewrite (Ha eid), Hd. simpl. by rewrite !lookup_insert.
    + rewrite lookup_insert_ne by done. rewrite <- Ha. destruct (is_Some_b _); simpl; [by rewrite lookup_insert_ne|done].
Qed.
Lemma crel_own_update_refused v sid p SS tid eid data :
  vrel v sid p SS → crel v p SS →
  ((tid =? 0) || (eid =? 0) = true ∨ s_ents SS !! eid = None ∨ st_comps (s_store SS) !! (tid, eid) = None) →
  crel (if negb (tid =? 0) && negb (eid =? 0) && is_Some_b (v_ents v !! eid) && is_Some_b (v_comps v !! (tid, eid))
        then vset_comps <[(tid, eid) := data]> v else v) p SS.
Proof.
  intros (_&_&[_ M2]&_) C Hr.
  eapply crelX_transfer; [exact C|done|done|by destruct (_ && _)|by destruct (_ && _)|by destruct (_ && _)|].
  intros t _ Ha e. destruct (decide ((t, e) = (tid, eid))) as [[= -> ->]|Hne].
  - rewrite M2, imap_lookup, (Ha eid). destruct Hr as [Hz|[He|Hc]].
    + apply orb_true_iff in Hz as [-> | ->]; simpl; rewrite ?andb_false_r; apply Ha.
    + rewrite He. simpl. rewrite ?andb_false_r. simpl. apply Ha.
    + rewrite Hc. simpl. rewrite ?andb_false_r. by rewrite (Ha eid).
  - rewrite <- Ha. destruct (_ && _); simpl; [by rewrite lookup_insert_ne|done].
Qed.
(* a list response: the type is known exactly from now on *)
Lemma foldr_insert_comps (l : list ((N * N) * N)) (m0 : gmap (N * N) N) k :
  NoDup (map fst l) →
  foldr (λ (x : comp_pb) m, <[(cp_tid x, cp_eid x) := cp_data x]> m) m0 (comp_list l) !! k =
    match (list_to_map l : gmap (N * N) N) !! k with Some d => Some d | None => m0 !! k end.
Proof.
  induction l as [|[[t e] d] l IH]; intros Hnd; simpl; [by rewrite lookup_empty|].
  apply NoDup_cons in Hnd as [Hn Hnd]. destruct (decide ((t, e) = k)) as [<-|Hne].
  - by rewrite !lookup_insert.
  - rewrite !lookup_insert_ne by done. by apply IH.
Qed.
Lemma crel_own_list v p SS tid :
  crel v p SS →
  crel (vset_sync (v_subd v) (if bool_decide (tid ∈ v_subd v) then v_synced v ∪ {[tid]} else v_synced v) (v_dirty v ∖ {[tid]})
         (vset_comps (λ m, foldr (λ (x : comp_pb) m0, <[(cp_tid x, cp_eid x) := cp_data x]> m0)
                              (filter (λ kv : (N*N) * N, negb (fst (fst kv) =? tid)) m) (store_list tid (s_store SS))) v)) p SS.
Proof.
  intros (C1&C2&C3).
  assert (Hl : ∀ t e, foldr (λ (x : comp_pb) m0, <[(cp_tid x, cp_eid x) := cp_data x]> m0)
                        (filter (λ kv : (N*N) * N, negb (fst (fst kv) =? tid)) (v_comps v)) (store_list tid (s_store SS)) !! (t, e) =
                      if decide (t = tid) then st_comps (s_store SS) !! (t, e) else v_comps v !! (t, e)).
  { intros t e. unfold store_list. rewrite foldr_insert_comps by apply NoDup_fst_map_to_list.
    rewrite list_to_map_to_list. case_decide as Ht.
    - subst t. destruct (st_comps (s_store SS) !! (tid, e)) as [d|] eqn:Ed.
      + assert (Hf : filter (λ kv : (N*N) * N, fst (fst kv) = tid) (st_comps (s_store SS)) !! (tid, e) = Some d)
          by (by apply map_filter_lookup_Some). by rewrite Hf.
      + assert (Hf : filter (λ kv : (N*N) * N, fst (fst kv) = tid) (st_comps (s_store SS)) !! (tid, e) = None)
          by (apply map_filter_lookup_None; by left). rewrite Hf.
        apply map_filter_lookup_None. right. intros d' _. simpl. rewrite N.eqb_refl. simpl. tauto.
    - assert (Hf : filter (λ kv : (N*N) * N, fst (fst kv) = tid) (st_comps (s_store SS)) !! (t, e) = None).
      { apply map_filter_lookup_None. right. intros d' _ Hx. simpl in Hx. congruence. }
      rewrite Hf. destruct (v_comps v !! (t, e)) as [d|] eqn:Ed.
      + apply map_filter_lookup_Some. split; [done|]. simpl. apply N.eqb_neq in Ht. rewrite Ht. simpl. tauto.
      + apply map_filter_lookup_None. by left. }
  split; [|split]; simpl.
  - exact C1.
  - case_bool_decide; set_solver.
  - intros t _ Hc e. simpl. rewrite Hl. destruct (decide (t = tid)) as [->|Ht]; [done|]. apply C3; [set_solver|].
    destruct Hc as [Hc|Hc]; [|right; set_solver]. left. case_bool_decide; set_solver.
Qed.
Lemma crel_own_subscribe v p SS tid :
  crel v p SS →
  crel (vset_sync (v_subd v ∪ {[tid]}) (if bool_decide (tid ∈ v_dirty v) then v_synced v else v_synced v ∪ {[tid]}) (v_dirty v) v) p
       (set_store (store_set_subs (λ m, <[tid := subs_of (s_store SS) tid ∪ {[p]}]> m)) SS).
Proof.
  intros (C1&C2&C3). split; [|split]; simpl.
  - intros t. unfold subs_of at 1. simpl. destruct (decide (t = tid)) as [->|Hne].
    + rewrite lookup_insert. simpl. set_solver.
    + rewrite lookup_insert_ne by done. rewrite elem_of_union, elem_of_singleton, (C1 t). unfold subs_of. naive_solver.
  - case_bool_decide; set_solver.
  - intros t _ Hc. apply C3; [set_solver|]. destruct Hc as [Hc|Hc]; [|by right].
    case_bool_decide as Hd; [by left|]. apply elem_of_union in Hc as [Hc|Hc]; [by left|]. apply elem_of_singleton in Hc as ->. by right.
Qed.
Lemma crel_own_unsubscribe v p SS tid :
  crel v p SS →
  crel (vset_sync (v_subd v ∖ {[tid]}) (v_synced v ∖ {[tid]}) (v_dirty v) v) p
       (set_store (store_set_subs (λ m, match m !! tid with Some s => <[tid := s ∖ {[p]}]> m | None => m end)) SS).
Proof.
  intros (C1&C2&C3). split; [|split]; simpl.
  - intros t. unfold subs_of at 1. simpl. destruct (st_subs (s_store SS) !! tid) as [s|] eqn:E.
    + destruct (decide (t = tid)) as [->|Hne].
      * rewrite lookup_insert. simpl. set_solver.
      * rewrite lookup_insert_ne by done. rewrite elem_of_difference, elem_of_singleton, C1. unfold subs_of. naive_solver.
    + rewrite elem_of_difference, elem_of_singleton, C1. unfold subs_of. destruct (decide (t = tid)) as [->|Hne].
      * rewrite E. simpl. set_solver.
      * naive_solver.
  - set_solver.
  - intros t _ Hc. apply C3; [set_solver|]. destruct Hc as [Hc|Hc]; [left; set_solver|by right].
Qed.

Lemma sstep_own2 cfg k c p own SS r sid v :
  wf cfg k SS → k + 1 < two32 → parts_injective SS → s_parts SS !! p = Some c → (∀ f, flag_on cfg f = false) →
  session_local r = true → vrel v sid p SS → crel v p SS →
  crel (view_own v r (msgs_to c (sstep cfg c p own SS r).2)) p (sstep cfg c p own SS r).1.1.
Proof.
  intros W Hk Hi Hp Hnf Hl V C.
  destruct r; try discriminate Hl; simpl; rewrite ?Hnf; repeat case_match; simpl.
  all: rewrite ?msgs_to_app, ?msgs_to_cons_eq.
  all: rewrite ?(msgs_to_broadcast_self _ p _ c), ?(msgs_to_broadcast_to_self _ p _ _ c) by done.
  all: rewrite ?msgs_to_nil, ?app_nil_r, ?app_nil_l; unfold view_own; simpl.
  all: try (eapply crelX_same; [exact C|reflexivity|reflexivity]).
  all: lazymatch goal with
       | |- context [cleanup_modules _ _ (set_ents _ _)] =>
           pose proof (cleanup_modules_fields cfg eid (set_ents (delete eid) (set_store (store_delete_entity eid) SS))) as (_&_&_&_&F5&_);
           apply (crel_remove_entity v p SS); [exact C|intros t9 e9; rewrite F5; simpl; apply store_delete_entity_lookup|by rewrite F5]
       | |- context [cleanup_modules] => erewrite cleanup_modules_id by eassumption; exact C
       | |- context [vset_ents] => repeat case_match; (eapply crelX_same; [exact C|reflexivity|reflexivity])
       | H : store_add_type ?name ?s0 = _ |- _ =>
           pose proof (store_add_type_fields name s0) as [F1 F2]; rewrite H in F1, F2; simpl in F1, F2;
           eapply crelX_same; [exact C|exact F1|exact F2]
       | |- context [store_list] => by apply crel_own_list
       | |- context [is_Some_b (v_comps _ !! _)] =>
           first [eapply crel_own_update_accepted; [exact V|exact C|eauto..]; reflexivity
                 |eapply crel_own_update_refused; [exact V|exact C|eauto]]
       | |- context [vset_comps <[_ := _]>] => by eapply crel_own_insert
       | |- context [vset_comps (delete _)] => by eapply crel_own_delete
       | |- context [v_subd _ ∪ _] => by apply crel_own_subscribe
       | |- context [v_subd _ ∖ _] => by apply crel_own_unsubscribe
       | |- context [match ?a with Some _ => ?x | None => ?x end] => destruct a; exact C
       | |- _ => idtac
       end.
Qed.

(* ---------- departures and joins: the component part ---------- *)
Lemma leave_member2 cfg c p own SS q pq v :
  parts_injective SS → s_parts SS !! p = Some c → s_parts SS !! pq = Some q → q ≠ c →
  (∀ e, removed own SS e → is_Some (v_ents v !! e)) → crel v pq SS →
  crel (recv_all v (msgs_to q (leave_outs cfg c p own SS))) pq (left_session cfg c p own SS).
Proof.
  intros Hi Hp Hq Hqc Hex (C1&C2&C3).
  assert (Hpq : pq ≠ p). { intros ->. congruence. }
  unfold leave_outs.
  set (dl := doomed (set_store (store_set_subs (fmap (λ s : gset N, s ∖ {[p]}))) (module_disconnect cfg own SS)) own).
  set (L := left_session cfg c p own SS).
  destruct (left_fields cfg c p own SS) as (_&F2&_&_&F5&F6&_). fold L in F2, F5, F6.
  assert (Hb : ∀ e, bool_decide (e ∈ dl) = bool_decide (removed own SS e)).
  { intros e. apply bool_decide_ext. symmetry. apply removed_doomed. }
  rewrite msgs_to_app, (msgs_to_flat_map_member SS p (MEntityDeleteB 0) dl q pq) by done.
  rewrite (msgs_to_broadcast_member L p _ q pq); [|by apply left_injective|by rewrite F6, lookup_delete_ne|done].
  assert (Hnd : NoDup dl) by apply doomed_NoDup.
  assert (Hex' : ∀ e, e ∈ dl → is_Some (v_ents v !! e)).
  { intros e He. apply Hex. by apply (removed_doomed cfg p own SS e). }
  clearbody L dl.
  destruct (recv_deletes dl v Hnd Hex') as (_&_&_&_&_&_&_&I7&I8&I9&I10).
  rewrite recv_all_app. set (v' := recv_all v (map (MEntityDeleteB 0) dl)) in *. clearbody v'.
  unfold recv_all. cbn [fold_left view_recv fst snd].
  assert (Hs : ∀ t, subs_of (s_store L) t = subs_of (s_store SS) t ∖ {[p]}).
  { intros t. unfold subs_of. rewrite F5, lookup_fmap. destruct (st_subs (s_store SS) !! t); simpl; set_solver. }
  split; [|split]; cbn [v_subd v_synced v_dirty v_comps vset_parts].
  - intros t. rewrite I8, Hs, C1. set_solver.
  - by rewrite I8, I9.
  - intros t _ Hc e. rewrite I9, I10 in Hc. cbn [v_comps vset_parts]. rewrite I7, F2, Hb.
    destruct (bool_decide _); [done|]. by apply C3.
Qed.

Lemma enter_member2 cfg c rid n ots SS q pq v :
  parts_injective (entered SS c) → s_parts SS !! u32_succ (s_pgen SS) = None →
  s_parts SS !! pq = Some q → q ≠ c → crel v pq SS →
  crel (recv_all v (msgs_to q (enter_outs cfg c rid n ots SS))) pq (entered SS c).
Proof.
  intros Hi Hn Hq Hqc C. unfold enter_outs. cbv zeta.
  assert (Hpq : pq ≠ u32_succ (s_pgen SS)). { intros ->. congruence. }
  rewrite !msgs_to_app. simpl. rewrite !(msgs_to_cons_ne q c) by done. rewrite msgs_to_nil, msgs_to_module_other by done.
  rewrite (msgs_to_broadcast_member _ _ _ q pq); [|done|unfold entered; simpl; by rewrite lookup_insert_ne|done].
  cbn [app]. by eapply recvK2_inert; [apply inert_join|exact C|reflexivity|intros ?; reflexivity].
Qed.

Lemma list_to_map_comps (m : gmap (N * N) N) :
  list_to_map (map (λ x : comp_pb, ((cp_tid x, cp_eid x), cp_data x)) (comp_list (map_to_list m))) = m.
Proof.
  rewrite <- (list_to_map_to_list m) at 2. f_equal. unfold comp_list. rewrite <- list_fmap_compose.
  rewrite <- (list_fmap_id (map_to_list m)) at 2. apply list_fmap_ext. by intros i [[t e] d] _.
Qed.
Lemma enter_own2 cfg k c rid n ots SS :
  wf cfg k SS → parts_injective (entered SS c) → s_parts SS !! u32_succ (s_pgen SS) = None →
  crel (view_init n (u32_succ (s_pgen SS)) (msgs_to c (enter_outs cfg c rid n ots SS))) (u32_succ (s_pgen SS)) (entered SS c).
Proof.
  intros W Hi Hn. unfold enter_outs. cbv zeta. rewrite !msgs_to_app. simpl. rewrite !msgs_to_cons_eq, msgs_to_nil.
  rewrite msgs_to_broadcast_self; [|done|unfold entered; simpl; by rewrite lookup_insert].
  rewrite msgs_to_module_self. unfold session_state_msg. simpl.
  unfold view_init. cbn [omap list_omap head default app].
  split; [|split]; cbn [v_subd v_synced v_dirty v_comps].
  - intros t. split; [set_solver|]. intros Hp. exfalso. unfold subs_of in Hp. simpl in Hp.
    destruct (st_subs (s_store SS) !! t) as [S0|] eqn:E; simpl in Hp; [|by apply elem_of_empty in Hp].
    destruct (wf_subs _ _ _ W _ _ _ E Hp) as [[c0 Hc0] _]. congruence.
  - done.
  - intros t _ _ e. simpl. unfold store_list_all. by rewrite list_to_map_comps.
Qed.
Lemma rejoin_own2 mine v p SS : crel v p SS → crel (rejoin_view mine v) p SS.
Proof. intros C. unfold rejoin_view. by repeat case_match. Qed.

(* ================= II.2 the spec's entities and components are the model's ================= *)
Definition ents_of (st : state) (sid eid : N) : option entity := sessions st !! sid ≫= λ SS, s_ents SS !! eid.
Definition comps_of (st : state) (sid tid eid : N) : option N :=
  sessions st !! sid ≫= λ SS, st_comps (s_store SS) !! (tid, eid).
Definition pbp (eid : N) (e : entity) : ent_pb * bool := (ent_to_pb eid e, e_persist e).
Definition spec_ok2 (sp : spec) (st : state) : Prop :=
  (∀ sid eid, sp_ents sp !! (sid, eid) = pbp eid <$> ents_of st sid eid) ∧
  (∀ sid tid eid, sp_comps sp !! (sid, tid, eid) = comps_of st sid tid eid).

Lemma spec_ok2_0 : spec_ok2 spec0 state0.
Proof. split; intros; unfold ents_of, comps_of; simpl; by rewrite !lookup_empty. Qed.

Lemma spec_ok2_ext sp st st' : sessions st' = sessions st → spec_ok2 sp st → spec_ok2 sp st'.
Proof. intros E [H1 H2]. split; intros; unfold ents_of, comps_of; rewrite E; [apply H1|apply H2]. Qed.

(* the session [sid] is replaced; the spec changes at keys of [sid] only *)
Lemma spec_ok2_update sp sp' st c f sid S1 :
  spec_ok2 sp st →
  (∀ eid, sp_ents sp' !! (sid, eid) = pbp eid <$> s_ents S1 !! eid) →
  (∀ s e, s ≠ sid → sp_ents sp' !! (s, e) = sp_ents sp !! (s, e)) →
  (∀ tid eid, sp_comps sp' !! (sid, tid, eid) = st_comps (s_store S1) !! (tid, eid)) →
  (∀ s t e, s ≠ sid → sp_comps sp' !! (s, t, e) = sp_comps sp !! (s, t, e)) →
  spec_ok2 sp' (upd_conn c f (put_session st sid S1)).
Proof.
  intros [H1 H2] E1 E2 E3 E4. split.
  - intros s e. unfold ents_of. simpl. destruct (decide (s = sid)) as [->|Hne].
    + rewrite lookup_insert. simpl. apply E1.
    + rewrite lookup_insert_ne by done. rewrite E2 by done. apply H1.
  - intros s t e. unfold comps_of. simpl. destruct (decide (s = sid)) as [->|Hne].
    + rewrite lookup_insert. simpl. apply E3.
    + rewrite lookup_insert_ne by done. rewrite E4 by done. apply H2.
Qed.
Lemma spec_ok2_keep sp st c f sid SS S1 :
  spec_ok2 sp st → sessions st !! sid = Some SS → s_ents S1 = s_ents SS →
  st_comps (s_store S1) = st_comps (s_store SS) →
  spec_ok2 sp (upd_conn c f (put_session st sid S1)).
Proof.
  intros [H1 H2] HS E1 E2. apply (spec_ok2_update sp sp st c f sid S1); [done| |done| |done].
  - intros e. rewrite H1. unfold ents_of. rewrite HS. simpl. by rewrite E1.
  - intros t e. rewrite H2. unfold comps_of. rewrite HS. simpl. by rewrite E2.
Qed.

(* the spec side of removing an entity *)
Lemma sp_remove_entity_ents sid eid sp s e :
  sp_ents (sp_remove_entity sid eid sp) !! (s, e) = if decide (s = sid ∧ e = eid) then None else sp_ents sp !! (s, e).
Proof.
  simpl. case_decide as Hd.
  - destruct Hd as [-> ->]. by rewrite lookup_delete.
  - rewrite lookup_delete_ne; [done|]. intros [= -> ->]. by apply Hd.
Qed.
Lemma sp_remove_entity_comps sid eid sp s t e :
  sp_comps (sp_remove_entity sid eid sp) !! (s, t, e) = if decide (s = sid ∧ e = eid) then None else sp_comps sp !! (s, t, e).
Proof.
  simpl. case_decide as Hd.
  - destruct Hd as [-> ->]. apply map_filter_lookup_None. right. intros d _. simpl. rewrite !N.eqb_refl. simpl. tauto.
  - destruct (sp_comps sp !! (s, t, e)) as [d|] eqn:Ed.
    + apply map_filter_lookup_Some. split; [done|]. simpl.
      destruct (s =? sid) eqn:E1; simpl; [|tauto]. destruct (e =? eid) eqn:E2; simpl; [|tauto].
      apply N.eqb_eq in E1, E2. subst. by destruct Hd.
    + apply map_filter_lookup_None. by left.
Qed.

Section ok2.
  Context (sp sp' : spec) (st : state) (c : N) (f : conn → conn) (sid : N) (SS S1 : session).
  Context (Hok : spec_ok2 sp st) (HS : sessions st !! sid = Some SS).
  Let E1 : ∀ e, sp_ents sp !! (sid, e) = pbp e <$> s_ents SS !! e.
  Proof. intros e. rewrite (proj1 Hok). unfold ents_of. by rewrite HS. Qed.
  Let E2 : ∀ t e, sp_comps sp !! (sid, t, e) = st_comps (s_store SS) !! (t, e).
  Proof. intros t e. rewrite (proj2 Hok). unfold comps_of. by rewrite HS. Qed.

  Lemma ok2_ents_insert eid e :
    sp_ents sp' = <[(sid, eid) := pbp eid e]> (sp_ents sp) → sp_comps sp' = sp_comps sp →
    s_ents S1 = <[eid := e]> (s_ents SS) → st_comps (s_store S1) = st_comps (s_store SS) →
    spec_ok2 sp' (upd_conn c f (put_session st sid S1)).
  Proof.
    intros A1 A2 B1 B2. apply (spec_ok2_update sp sp' st c f sid S1 Hok).
    - intros e'. rewrite A1, B1. destruct (decide (e' = eid)) as [->|Hne].
      + by rewrite !lookup_insert.
      + rewrite !lookup_insert_ne by congruence. apply E1.
    - intros s e' Hne. rewrite A1. by rewrite lookup_insert_ne by congruence.
    - intros t e'. rewrite A2, B2. apply E2.
    - intros s t e' Hne. by rewrite A2.
  Qed.
  Lemma ok2_remove eid :
    sp' = sp_remove_entity sid eid sp → s_ents S1 = delete eid (s_ents SS) →
    (∀ t e, st_comps (s_store S1) !! (t, e) = if decide (e = eid) then None else st_comps (s_store SS) !! (t, e)) →
    spec_ok2 sp' (upd_conn c f (put_session st sid S1)).
  Proof.
    intros -> B1 B2. apply (spec_ok2_update sp _ st c f sid S1 Hok).
    - intros e'. rewrite sp_remove_entity_ents, B1. case_decide as Hd.
      + destruct Hd as [_ ->]. by rewrite lookup_delete.
      + rewrite lookup_delete_ne by (intros <-; by apply Hd). apply E1.
    - intros s e' Hne. rewrite sp_remove_entity_ents. rewrite decide_False; [done|]. by intros [? _].
    - intros t e'. rewrite sp_remove_entity_comps, B2. case_decide as Hd.
      + destruct Hd as [_ ->]. by rewrite decide_True.
      + rewrite decide_False by (intros ->; by apply Hd). apply E2.
    - intros s t e' Hne. rewrite sp_remove_entity_comps. rewrite decide_False; [done|]. by intros [? _].
  Qed.
  Lemma ok2_comps_insert tid eid d :
    sp_ents sp' = sp_ents sp → sp_comps sp' = <[(sid, tid, eid) := d]> (sp_comps sp) →
    s_ents S1 = s_ents SS → st_comps (s_store S1) = <[(tid, eid) := d]> (st_comps (s_store SS)) →
    spec_ok2 sp' (upd_conn c f (put_session st sid S1)).
  Proof.
    intros A1 A2 B1 B2. apply (spec_ok2_update sp sp' st c f sid S1 Hok).
    - intros e'. rewrite A1, B1. apply E1.
    - intros s e' Hne. by rewrite A1.
    - intros t e'. rewrite A2, B2. destruct (decide ((t, e') = (tid, eid))) as [[= -> ->]|Hne].
      + by rewrite !lookup_insert.
      + rewrite !lookup_insert_ne by congruence. apply E2.
    - intros s t e' Hne. rewrite A2. by rewrite lookup_insert_ne by congruence.
  Qed.
  Lemma ok2_comps_delete tid eid :
    sp_ents sp' = sp_ents sp → sp_comps sp' = delete (sid, tid, eid) (sp_comps sp) →
    s_ents S1 = s_ents SS → st_comps (s_store S1) = delete (tid, eid) (st_comps (s_store SS)) →
    spec_ok2 sp' (upd_conn c f (put_session st sid S1)).
  Proof.
    intros A1 A2 B1 B2. apply (spec_ok2_update sp sp' st c f sid S1 Hok).
    - intros e'. rewrite A1, B1. apply E1.
    - intros s e' Hne. by rewrite A1.
    - intros t e'. rewrite A2, B2. destruct (decide ((t, e') = (tid, eid))) as [[= -> ->]|Hne].
      + by rewrite !lookup_delete.
      + rewrite !lookup_delete_ne by congruence. apply E2.
    - intros s t e' Hne. rewrite A2. by rewrite lookup_delete_ne by congruence.
  Qed.
End ok2.

Local Arguments spec_request : simpl never.
Local Arguments comp_change : simpl never.
Ltac rewrite_known :=
  repeat match goal with
         | H : ?x = Some _ |- context [?x] => rewrite H
         | H : ?x = None |- context [?x] => rewrite H
         | H : ?x = true |- context [?x] => rewrite H
         | H : ?x = false |- context [?x] => rewrite H
         end.
Lemma sstep_spec2 cfg k st sp c f sid p own SS r :
  wf cfg k SS → parts_injective SS → s_parts SS !! p = Some c → (∀ f, flag_on cfg f = false) →
  session_local r = true → sessions st !! sid = Some SS → spec_ok2 sp st →
  spec_ok2 (spec_request sp c sid p r (sstep cfg c p own SS r).2) (upd_conn c f (put_session st sid (sstep cfg c p own SS r).1.1)) ∧
  comp_change sp c sid p r (sstep cfg c p own SS r).2 = changed SS r.
Proof.
  intros W Hi Hp Hnf Hl HS Hok. pose proof Hok as [H1 H2].
  assert (E1 : ∀ e, sp_ents sp !! (sid, e) = pbp e <$> s_ents SS !! e).
  { intros e. rewrite H1. unfold ents_of. by rewrite HS. }
  assert (E2 : ∀ t e, sp_comps sp !! (sid, t, e) = st_comps (s_store SS) !! (t, e)).
  { intros t e. rewrite H2. unfold comps_of. by rewrite HS. }
  clear H1 H2.
  destruct r; try discriminate Hl; simpl; rewrite ?Hnf; repeat case_match; simpl.
  all: unfold comp_change, spec_request, comp_update_accepted, pose_accepted.
  all: rewrite ?first_to_msgs, ?has_msg_msgs.
  all: rewrite ?msgs_to_app, ?msgs_to_cons_eq.
  all: rewrite ?(msgs_to_broadcast_self _ p _ c), ?(msgs_to_broadcast_to_self _ p _ _ c) by done.
  all: rewrite ?msgs_to_nil, ?app_nil_r, ?app_nil_l; simpl; rewrite ?N.eqb_refl, ?E1, ?E2; simpl.
  all: rewrite_known; simpl; rewrite_known; simpl.
  all: try (split; [|reflexivity]).
  all: try (eapply spec_ok2_keep; [exact Hok|exact HS|reflexivity|reflexivity]).
  all: repeat match goal with
       | H : negb _ = true |- _ => apply negb_true_iff in H
       | H : negb _ = false |- _ => apply negb_false_iff in H
       end; rewrite_known; simpl.
  all: try (eapply spec_ok2_keep; [exact Hok|exact HS|reflexivity|reflexivity]).
  all: lazymatch goal with
       | |- context [set_ents <[?eid9 := ?e9]>] =>
           eapply (ok2_ents_insert sp _ st c f sid SS _ Hok HS eid9 e9); reflexivity
       | |- context [cleanup_modules _ _ (set_ents _ _)] =>
           pose proof (cleanup_modules_fields cfg eid (set_ents (delete eid) (set_store (store_delete_entity eid) SS))) as (_&_&_&_&F5&F6&_);
           eapply (ok2_remove sp _ st c f sid SS _ Hok HS eid); [reflexivity|by rewrite F6|intros t9 e9; rewrite F5; simpl; apply store_delete_entity_lookup]
       | |- context [cleanup_modules] =>
           erewrite cleanup_modules_id by eassumption; eapply spec_ok2_keep; [exact Hok|exact HS|reflexivity|reflexivity]
       | H : store_add_type ?name ?s0 = _ |- _ =>
           pose proof (store_add_type_fields name s0) as [F1 F2]; rewrite H in F1, F2; simpl in F1, F2;
           eapply spec_ok2_keep; [exact Hok|exact HS|reflexivity|exact F1]
       | |- context [match ?a with Some _ => ?x | None => ?x end] =>
           destruct a; (eapply spec_ok2_keep; [exact Hok|exact HS|reflexivity|reflexivity])
       | |- _ => idtac
       end.
  all: rewrite <- ?negb_orb; rewrite_known; simpl; rewrite ?andb_false_r.
  all: try (split; [|reflexivity]).
  all: try (eapply spec_ok2_keep; [exact Hok|exact HS|reflexivity|reflexivity]).
  all: lazymatch goal with
       | |- context [set_scomps <[_ := _]>] => eapply (ok2_comps_insert sp _ st c f sid SS _ Hok HS); reflexivity
       | |- context [set_scomps (delete _)] => eapply (ok2_comps_delete sp _ st c f sid SS _ Hok HS); reflexivity
       end.
Qed.

(* ---------- departures: the spec removes what the model removes ---------- *)
Lemma if_or {A} (P Q R : Prop) `{Decision P, Decision Q, Decision R} (x : option A) :
  (R ↔ P ∨ Q) → (if decide P then None else if decide Q then None else x) = (if decide R then None else x).
Proof. intros HR. destruct (decide P), (decide Q), (decide R); try done; exfalso; tauto. Qed.
Lemma remove_entities_ents sid l sp s e :
  sp_ents (fold_right (sp_remove_entity sid) sp l) !! (s, e) =
    if decide (s = sid ∧ e ∈ l) then None else sp_ents sp !! (s, e).
Proof.
  induction l as [|x l IH]; cbn [fold_right].
  - rewrite decide_False; [done|]. intros [_ H]. inversion H.
  - rewrite sp_remove_entity_ents, IH. apply if_or. rewrite elem_of_cons. tauto.
Qed.
Lemma remove_entities_comps sid l sp s t e :
  sp_comps (fold_right (sp_remove_entity sid) sp l) !! (s, t, e) =
    if decide (s = sid ∧ e ∈ l) then None else sp_comps sp !! (s, t, e).
Proof.
  induction l as [|x l IH]; cbn [fold_right].
  - rewrite decide_False; [done|]. intros [_ H]. inversion H.
  - rewrite sp_remove_entity_comps, IH. apply if_or. rewrite elem_of_cons. tauto.
Qed.
Lemma sp_gone_spec sp sid p e :
  e ∈ sp_gone sp sid p ↔ ∃ ent, sp_ents sp !! (sid, e) = Some (ent, false) ∧ ep_owner ent = p.
Proof.
  unfold sp_gone. rewrite elem_of_sortN, elem_of_list_omap. split.
  - intros ([[s e'] [ent pe]]&Hin&Hx). apply elem_of_map_to_list in Hin. simpl in Hx.
    destruct (s =? sid) eqn:E1; simpl in Hx; [|done]. destruct (ep_owner ent =? p) eqn:E2; simpl in Hx; [|done].
    destruct pe; simpl in Hx; [done|]. injection Hx as ->. apply N.eqb_eq in E1, E2. subst. by exists ent.
  - intros (ent&He&Ho). exists ((sid, e), (ent, false)). split; [by apply elem_of_map_to_list|].
    simpl. apply N.eqb_eq in Ho. by rewrite N.eqb_refl, Ho.
Qed.
Lemma sp_members_spec sp sid pq q : (pq, q) ∈ sp_members sp sid ↔ sp_mem sp !! q = Some (sid, pq).
Proof.
  unfold sp_members. rewrite elem_of_sort_by, elem_of_list_omap. split.
  - intros ([q' [s p']]&Hin&Hx). apply elem_of_map_to_list in Hin. simpl in Hx.
    destruct (s =? sid) eqn:E; [|done]. apply N.eqb_eq in E. by simplify_eq.
  - intros H. exists (q, (sid, pq)). split; [by apply elem_of_map_to_list|]. simpl. by rewrite N.eqb_refl.
Qed.
Lemma sp_live_spec sp sid : sp_live sp sid = true ↔ ∃ q pq, sp_mem sp !! q = Some (sid, pq).
Proof.
  unfold sp_live. destruct (sp_members sp sid) as [|[pq q] l] eqn:E.
  - split; [done|]. intros (q&pq&H). apply sp_members_spec in H. rewrite E in H. inversion H.
  - split; [|done]. intros _. exists q, pq. apply sp_members_spec. rewrite E. by left.
Qed.
Lemma sp_others_spec sp sid p pq q : (pq, q) ∈ sp_others sp sid p ↔ sp_mem sp !! q = Some (sid, pq) ∧ pq ≠ p.
Proof.
  unfold sp_others. rewrite elem_of_list_In, filter_In, <- elem_of_list_In, sp_members_spec. simpl.
  rewrite negb_true_iff, N.eqb_neq. done.
Qed.
Lemma sp_purge_ents sid sp s e :
  sp_ents (sp_purge sid sp) !! (s, e) = if decide (s = sid) then None else sp_ents sp !! (s, e).
Proof.
  simpl. case_decide as Hd.
  - subst. apply map_filter_lookup_None. right. intros x _. simpl. rewrite N.eqb_refl. simpl. tauto.
  - destruct (sp_ents sp !! (s, e)) as [x|] eqn:E.
    + apply map_filter_lookup_Some. split; [done|]. simpl. apply N.eqb_neq in Hd. rewrite Hd. simpl. tauto.
    + apply map_filter_lookup_None. by left.
Qed.
Lemma sp_purge_comps sid sp s t e :
  sp_comps (sp_purge sid sp) !! (s, t, e) = if decide (s = sid) then None else sp_comps sp !! (s, t, e).
Proof.
  simpl. case_decide as Hd.
  - subst. apply map_filter_lookup_None. right. intros x _. simpl. rewrite N.eqb_refl. simpl. tauto.
  - destruct (sp_comps sp !! (s, t, e)) as [x|] eqn:E.
    + apply map_filter_lookup_Some. split; [done|]. simpl. apply N.eqb_neq in Hd. rewrite Hd. simpl. tauto.
    + apply map_filter_lookup_None. by left.
Qed.

Lemma depart_ok2 cfg sp st c :
  inv st → Own.own_inv st → spec_ok sp st → spec_ok2 sp st → spec_ok2 (depart sp c) (leave cfg st c).1.
Proof.
  intros I HO Hsp [H1 H2].
  destruct (leave_sessions cfg st c I) as [(cn&sid&p&SS&Hc&Hcur&HS&Hp&E)|[Hcur E]].
  2:{ rewrite E. unfold depart. rewrite (Hsp c), Hcur. by split. }
  assert (Hcur0 : cur_of st c = Some (sid, p)) by (unfold cur_of; by rewrite Hc).
  unfold depart. rewrite (Hsp c), Hcur0.
  set (L := left_session cfg c p (c_own cn) SS) in *.
  destruct (left_fields cfg c p (c_own cn) SS) as (F1&F2&_&_&_&F6&_). fold L in F1, F2, F6. clearbody L.
  pose proof (member_inj _ _ _ I HS) as Hi.
  (* what the spec removes is what the model removes *)
  assert (Hg : ∀ e, e ∈ sp_gone sp sid p ↔ removed (c_own cn) SS e).
  { intros e. rewrite sp_gone_spec. rewrite H1. unfold ents_of. rewrite HS. simpl. unfold removed.
    rewrite (HO c cn sid p SS Hc Hcur HS e). split.
    - intros (ent&He&Ho). destruct (s_ents SS !! e) as [en|] eqn:Ee; [|done]. simpl in He. injection He as <- Hpe.
      split; [by exists en|]. by exists en.
    - intros [(en&He&Ho) (en'&He'&Hpe)]. assert (en' = en) as -> by congruence.
      exists (ent_to_pb e en). rewrite He. simpl. unfold pbp. rewrite Hpe. done. }
  set (sp1 := fold_right (sp_remove_entity sid) sp (sp_gone sp sid p)).
  assert (G1 : ∀ s e, sp_ents sp1 !! (s, e) = if decide (s = sid ∧ removed (c_own cn) SS e) then None else sp_ents sp !! (s, e)).
  { intros s e. unfold sp1. rewrite remove_entities_ents. apply decide_ext. by rewrite Hg. }
  assert (G2 : ∀ s t e, sp_comps sp1 !! (s, t, e) = if decide (s = sid ∧ removed (c_own cn) SS e) then None else sp_comps sp !! (s, t, e)).
  { intros s t e. unfold sp1. rewrite remove_entities_comps. apply decide_ext. by rewrite Hg. }
  (* is the session still live? *)
  set (sp3 := set_mem (delete c) (set_ssubs (map_imap (λ k s, Some (if fst k =? sid then s ∖ {[p]} else s))) sp1)).
  assert (Hlive : sp_live sp3 sid = true ↔ s_parts L ≠ ∅).
  { rewrite sp_live_spec. unfold sp3. simpl. unfold sp1. rewrite remove_entities_mem, F6. split.
    - intros (q&pq&Hq). apply lookup_delete_Some in Hq as [Hne Hq]. rewrite (Hsp q) in Hq.
      pose proof (member_parts _ _ _ _ _ I Hq HS) as Hpq. intros He.
      assert (Hx : delete p (s_parts SS) !! pq = Some q).
      { rewrite lookup_delete_ne; [done|]. intros ->. congruence. }
      rewrite He in Hx. by rewrite lookup_empty in Hx.
    - intros Hne. destruct (map_choose _ Hne) as (pq&q&Hq). apply lookup_delete_Some in Hq as [Hnp Hq].
      exists q, pq. rewrite lookup_delete_ne; [|intros <-; apply Hnp; by eapply Hi].
      rewrite (Hsp q). apply (inv_parts _ I sid (s_parts SS) pq q); [unfold parts_of; by rewrite HS|done]. }
  destruct (sp_live sp3 sid) eqn:El.
  - assert (Hne : s_parts L ≠ ∅) by (by apply Hlive). rewrite decide_False in E by done. split.
    + intros s e. change (sp_ents sp3) with (sp_ents sp1). rewrite G1. unfold ents_of. rewrite E.
      destruct (decide (s = sid)) as [->|Hs].
      * rewrite lookup_insert. simpl. rewrite F1. rewrite H1. unfold ents_of. rewrite HS. simpl.
        destruct (bool_decide (removed (c_own cn) SS e)) eqn:Eb.
        -- apply bool_decide_eq_true in Eb. by rewrite decide_True.
        -- apply bool_decide_eq_false in Eb. rewrite decide_False; [done|]. by intros [_ ?].
      * rewrite lookup_insert_ne by done. rewrite decide_False by (by intros [? _]). apply H1.
    + intros s t e. change (sp_comps sp3) with (sp_comps sp1). rewrite G2. unfold comps_of. rewrite E.
      destruct (decide (s = sid)) as [->|Hs].
      * rewrite lookup_insert. simpl. rewrite F2. rewrite H2. unfold comps_of. rewrite HS. simpl.
        destruct (bool_decide (removed (c_own cn) SS e)) eqn:Eb.
        -- apply bool_decide_eq_true in Eb. by rewrite decide_True.
        -- apply bool_decide_eq_false in Eb. rewrite decide_False; [done|]. by intros [_ ?].
      * rewrite lookup_insert_ne by done. rewrite decide_False by (by intros [? _]). apply H2.
  - assert (He : s_parts L = ∅).
    { destruct (decide (s_parts L = ∅)) as [He|Hne]; [done|]. apply Hlive in Hne. congruence. }
    rewrite decide_True in E by done. split.
    + intros s e. rewrite sp_purge_ents. change (sp_ents sp3) with (sp_ents sp1). unfold ents_of. rewrite E.
      destruct (decide (s = sid)) as [->|Hs].
      * by rewrite lookup_delete.
      * rewrite lookup_delete_ne by done. rewrite G1, decide_False by (by intros [? _]). apply H1.
    + intros s t e. rewrite sp_purge_comps. change (sp_comps sp3) with (sp_comps sp1). unfold comps_of. rewrite E.
      destruct (decide (s = sid)) as [->|Hs].
      * by rewrite lookup_delete.
      * rewrite lookup_delete_ne by done. rewrite G2, decide_False by (by intros [? _]). apply H2.
Qed.

(* ---------- joins: entering changes no entity and no component ---------- *)
Lemma enter_spec_ok2 cfg sp st c rid n ots SS uuid pid :
  sessions st !! n = Some SS → spec_ok2 sp st → spec_ok2 (enter_spec sp c n uuid pid) (enter cfg st c rid n ots).1.1.
Proof.
  intros HS [H1 H2]. destruct (enter_state cfg st c rid n ots SS HS) as (ES&_). split.
  - intros s e. change (sp_ents (enter_spec sp c n uuid pid)) with (sp_ents sp). rewrite H1. unfold ents_of. rewrite ES.
    destruct (decide (s = n)) as [->|Hne]; [by rewrite lookup_insert, HS|by rewrite lookup_insert_ne].
  - intros s t e. change (sp_comps (enter_spec sp c n uuid pid)) with (sp_comps sp). rewrite H2. unfold comps_of. rewrite ES.
    destruct (decide (s = n)) as [->|Hne]; [by rewrite lookup_insert, HS|by rewrite lookup_insert_ne].
Qed.
Lemma create_spec_ok2 hint sp st n st2 :
  inv st → nowrap st → create_session hint st = (n, st2) → spec_ok2 sp st → spec_ok2 sp st2.
Proof.
  intros I Wn Hcr [H1 H2]. destruct (create_session_proj _ _ _ _ I Wn Hcr) as (Hfresh&_).
  destruct (create_sessions _ _ _ _ Hcr) as [E2 _].
  assert (Hn : sessions st !! n = None). { unfold parts_of in Hfresh. by destruct (sessions st !! n). }
  split.
  - intros s e. rewrite H1. unfold ents_of. rewrite E2. destruct (decide (s = n)) as [->|Hne].
    + rewrite lookup_insert, Hn. simpl. by rewrite lookup_empty.
    + by rewrite lookup_insert_ne.
  - intros s t e. rewrite H2. unfold comps_of. rewrite E2. destruct (decide (s = n)) as [->|Hne].
    + rewrite lookup_insert, Hn. simpl. by rewrite lookup_empty.
    + by rewrite lookup_insert_ne.
Qed.

Lemma join_spec2 cfg sp st c rid s ots hint h e :
  (∀ f, flag_on cfg f = false) → inv st → nowrap st → Own.own_inv st → is_Some (conns st !! c) →
  spec_ok sp st → spec_ok2 sp st →
  ev_op e = OStep c h → ev_req e = Some (RJoin rid s ots) →
  ev_outs e = (Model.join cfg st c rid s ots hint).1.2 → ev_verdict e = VOk →
  spec_ok2 (spec_step sp e) (Model.join cfg st c rid s ots hint).1.1.
Proof.
  intros Hnf I Wn HO [cn Hc] Hsp Hok Ho Hr Hout Hv.
  rewrite (spec_step_join sp e c h rid s ots Ho Hr Hv). revert Hout. unfold Model.join. rewrite Hc.
  destruct (already_joined cn s) eqn:Ha.
  { unfold already_joined in Ha. destruct (c_cur cn) as [[n p]|] eqn:Hcur; [|done].
    destruct s as [|n'|j]; try done. apply bool_decide_eq_true in Ha as <-.
    assert (Hcur0 : cur_of st c = Some (n, p)) by (unfold cur_of; by rewrite Hc).
    destruct (live_session _ _ (inv_live _ I _ _ _ Hcur0)) as [SS HS]. rewrite HS. cbn [fst snd]. intros Hout.
    assert (Hmine : msgs_to c (ev_outs e) = MError rid E_ALREADY_JOINED :: msgs_to c (module_join_msgs cfg c SS)).
    { by rewrite Hout, msgs_to_cons_eq. }
    assert (Hjr : join_resp c (ev_outs e) = None).
    { unfold join_resp. rewrite first_to_msgs, Hmine, msgs_to_module_self. by destruct (cfg_vikja cfg), (cfg_odal cfg). }
    assert (Hhe : has_error c E_NOT_FOUND (ev_outs e) = false).
    { rewrite has_error_msgs, Hmine, msgs_to_module_self. by destruct (cfg_vikja cfg), (cfg_odal cfg). }
    by rewrite Hjr, Hhe. }
  pose proof (inv_leave cfg st c I) as I1. pose proof (leave_nowrap cfg st c I Wn) as Wn1.
  pose proof (leave_outs_self cfg st c I) as Ho1.
  pose proof (depart_ok2 cfg sp st c I HO Hsp Hok) as Hd.
  destruct (leave cfg st c) as [st1 o1]. cbn [fst snd] in *.
  assert (Herr : ev_outs e = o1 ++ [(c, MError rid E_NOT_FOUND)] →
                 spec_ok2 (match join_resp c (ev_outs e) with
                           | Some (_, sid, uuid, pid) => enter_spec (depart sp c) c sid uuid pid
                           | None => if has_error c E_NOT_FOUND (ev_outs e) then depart sp c else sp end) st1).
  { intros Hout. assert (Hmine : msgs_to c (ev_outs e) = [MError rid E_NOT_FOUND]).
    { by rewrite Hout, msgs_to_app, Ho1, msgs_to_cons_eq. }
    assert (Hjr : join_resp c (ev_outs e) = None) by (unfold join_resp; by rewrite first_to_msgs, Hmine).
    assert (Hhe : has_error c E_NOT_FOUND (ev_outs e) = true) by (by rewrite has_error_msgs, Hmine).
    by rewrite Hjr, Hhe. }
  assert (Hent : ∀ st2 n SS, sessions st2 !! n = Some SS → spec_ok2 (depart sp c) st2 →
            ev_outs e = o1 ++ (enter cfg st2 c rid n ots).1.2 →
            spec_ok2 (match join_resp c (ev_outs e) with
                      | Some (_, sid, uuid, pid) => enter_spec (depart sp c) c sid uuid pid
                      | None => if has_error c E_NOT_FOUND (ev_outs e) then depart sp c else sp end)
                     (enter cfg st2 c rid n ots).1.1).
  { intros st2 n SS HS2 Hd2 Hout.
    rewrite (enter_outputs cfg st2 c rid n ots SS HS2 (Hnf _) (Hnf _)) in Hout. cbv zeta in Hout.
    fold (enter_outs cfg c rid n ots SS) in Hout.
    pose proof (join_resp_entered cfg c rid n ots SS o1 Ho1) as Hjr. rewrite <- Hout in Hjr. rewrite Hjr.
    by eapply enter_spec_ok2. }
  destruct s as [|n|j]; [| |exact Herr].
  - destruct (create_session hint st1) as [n st2] eqn:Hcr.
    destruct (create_sessions _ _ _ _ Hcr) as [E2 EC2].
    assert (HS2 : sessions st2 !! n = Some (session0 (next_uuid st1 + 1))) by (rewrite E2; by rewrite lookup_insert).
    specialize (Hent st2 n _ HS2 (create_spec_ok2 _ _ _ _ _ I1 Wn1 Hcr Hd)).
    destruct (enter cfg st2 c rid n ots) as [[st3 o2] v]. cbn [fst snd] in *. by apply Hent.
  - destruct (sessions st1 !! n) as [SS|] eqn:HS; [|exact Herr].
    specialize (Hent st1 n SS HS Hd).
    destruct (enter cfg st1 c rid n ots) as [[st2 o2] v]. cbn [fst snd] in *. by apply Hent.
Qed.

Lemma spec_request_other sp c sid p r outs :
  session_local r = false → is_join r = false → spec_request sp c sid p r outs = sp.
Proof. intros Hl Hj. by destruct r. Qed.
Lemma comp_change_other sp c sid p r outs : session_local r = false → comp_change sp c sid p r outs = None.
Proof. intros Hl. by destruct r. Qed.

Lemma handle_spec2 cfg k sp st c r hint h e :
  (∀ f, flag_on cfg f = false) → inv st → nowrap st → swf cfg k st → Own.own_inv st → is_Some (conns st !! c) →
  spec_ok sp st → spec_ok2 sp st →
  ev_op e = OStep c h → ev_req e = Some r →
  ev_outs e = (handle cfg st c r hint).1.2 → ev_verdict e = (handle cfg st c r hint).2 →
  (handle cfg st c r hint).2 ≠ VErr →
  spec_ok2 (spec_step sp e) (handle cfg st c r hint).1.1.
Proof.
  intros Hnf I Wn W HO [cn Hc] Hsp Hok Ho Hr. unfold handle. rewrite Hc.
  assert (Hjoin : ∀ rid s ots, r = RJoin rid s ots →
            ev_outs e = (Model.join cfg st c rid s ots hint).1.2 → ev_verdict e = (Model.join cfg st c rid s ots hint).2 →
            spec_ok2 (spec_step sp e) (Model.join cfg st c rid s ots hint).1.1).
  { intros rid s ots -> Hout Hv. rewrite join_verdict in Hv by eauto. eapply join_spec2; eauto. }
  assert (Hsame : ∀ vd, ev_verdict e = vd → vd = VOk → is_join r = false →
            spec_step sp e = match sp_mem sp !! c with Some (sid, p) => spec_request sp c sid p r (ev_outs e) | None => sp end).
  { intros vd Hv -> Hj. unfold spec_step. rewrite Ho, Hr, Hv. by destruct r. }
  destruct (c_cur cn) as [[sid p]|] eqn:Hcur.
  - assert (Hcur0 : cur_of st c = Some (sid, p)) by (unfold cur_of; by rewrite Hc).
    destruct (live_session _ _ (inv_live _ I _ _ _ Hcur0)) as [SS HS]. rewrite HS.
    destruct (is_join r) eqn:Hj.
    { destruct r; try discriminate Hj. simpl. intros Hout Hv _. by eapply Hjoin. }
    destruct (inv_member st c cn sid p SS I Hc Hcur HS) as [Hp Hi].
    destruct (session_local r) eqn:Hl.
    + rewrite (handle_joined_sstep cfg st c cn sid p SS r hint Hl Hc HS). unfold apply_sstep. cbn [fst snd].
      intros Hout Hv _. rewrite (Hsame VOk Hv eq_refl eq_refl), (Hsp c), Hcur0, Hout.
      by eapply sstep_spec2; [by eapply W|..].
    + pose proof (handle_joined_other cfg st c cn sid p SS r hint Hl Hj) as ES.
      pose proof (handle_joined_other_verdict cfg st c cn sid p SS r hint Hl Hj) as Hvd.
      destruct (handle_joined cfg st c cn sid p SS r hint) as [[st' o] vd] eqn:E. cbn [fst snd] in *.
      intros Hout Hv Hne. destruct Hvd as [->| ->]; [|done].
      rewrite (Hsame VOk Hv eq_refl eq_refl), (Hsp c), Hcur0, spec_request_other by done. by eapply spec_ok2_ext.
  - assert (Hcur0 : cur_of st c = None) by (unfold cur_of; by rewrite Hc).
    destruct (is_join r) eqn:Hj.
    { destruct r; try discriminate Hj. simpl. intros Hout Hv _. by eapply Hjoin. }
    pose proof (handle_unjoined_other cfg st c cn r hint Hj) as ES.
    pose proof (handle_unjoined_verdict cfg st c cn r hint Hj) as Hvd.
    destruct (handle_unjoined cfg st c cn r hint) as [[st' o] vd] eqn:E. cbn [fst snd] in *.
    intros Hout Hv Hne. destruct Hvd as [->| ->]; [|done].
    rewrite (Hsame VOk Hv eq_refl eq_refl), (Hsp c), Hcur0. by eapply spec_ok2_ext.
Qed.

(* ================= II.3 the bookkeeping phase, exactly ================= *)
Lemma dirty_fold_untouched i outs tid eid l (vs : gmap N view) acc q :
  q ∉ map snd l ∨ has_msg q outs (notif_about tid eid) = true →
  (fold_left (dirty_one i outs tid eid) l (vs, acc)).1 !! q = vs !! q.
Proof.
  revert vs acc. induction l as [|pc l IH]; intros vs acc Hq; [done|]. cbn [fold_left]. unfold dirty_one at 2.
  assert (Hq' : q ∉ map snd l ∨ has_msg q outs (notif_about tid eid) = true).
  { destruct Hq as [Hq|Hq]; [left|by right]. intros H. apply Hq. simpl. by right. }
  destruct (has_msg pc.2 outs (notif_about tid eid)) eqn:En; [by apply IH|].
  destruct (vs !! pc.2) as [v|] eqn:Ev; [|by apply IH].
  destruct (bool_decide (tid ∈ v_synced v)); [by apply IH|].
  rewrite IH by done. rewrite lookup_insert_ne; [done|]. intros <-. destruct Hq as [Hq|Hq]; [|congruence].
  apply Hq. simpl. by left.
Qed.
Lemma dirty_fold_grow i outs tid eid l (vs : gmap N view) acc q v :
  vs !! q = Some v →
  ∃ v', (fold_left (dirty_one i outs tid eid) l (vs, acc)).1 !! q = Some v' ∧ dirty_only v v' ∧ v_dirty v ⊆ v_dirty v'.
Proof.
  revert vs acc v. induction l as [|pc l IH]; intros vs acc v Hv.
  { exists v. split; [done|]. split; [apply dirty_only_refl|done]. }
  cbn [fold_left]. unfold dirty_one at 2.
  destruct (has_msg pc.2 outs (notif_about tid eid)) eqn:En; [by apply IH|].
  destruct (vs !! pc.2) as [w|] eqn:Ew; [|by apply IH].
  destruct (bool_decide (tid ∈ v_synced w)); [by apply IH|].
  destruct (decide (pc.2 = q)) as [Hq|Hne].
  - rewrite Hq in *. assert (w = v) as -> by congruence.
    destruct (IH (<[q := vset_sync (v_subd v) (v_synced v) (v_dirty v ∪ {[tid]}) v]> vs) acc _ (lookup_insert _ _ _)) as (v'&H1&H2&H3).
    exists v'. split; [done|]. split.
    + eapply dirty_only_trans; [|exact H2]. unfold dirty_only. by destruct v.
    + simpl in H3. set_solver.
  - apply IH. by rewrite lookup_insert_ne.
Qed.
Lemma dirty_fold_marked i outs tid eid l (vs : gmap N view) acc q v :
  q ∈ map snd l → has_msg q outs (notif_about tid eid) = false → vs !! q = Some v → tid ∉ v_synced v →
  ∃ v', (fold_left (dirty_one i outs tid eid) l (vs, acc)).1 !! q = Some v' ∧ dirty_only v v' ∧
        v_dirty v ⊆ v_dirty v' ∧ tid ∈ v_dirty v'.
Proof.
  revert vs acc v. induction l as [|pc l IH]; intros vs acc v Hin Hn Hv Hs; [by inversion Hin|].
  cbn [fold_left]. unfold dirty_one at 2. simpl in Hin. apply elem_of_cons in Hin as [Hq|Hin].
  - rewrite <- Hq, Hn, Hv. rewrite bool_decide_eq_false_2 by done.
    destruct (dirty_fold_grow i outs tid eid l (<[q := vset_sync (v_subd v) (v_synced v) (v_dirty v ∪ {[tid]}) v]> vs) acc q _
                (lookup_insert _ _ _)) as (v'&H1&H2&H3).
    exists v'. split; [done|]. split; [|simpl in H3; set_solver].
    eapply dirty_only_trans; [|exact H2]. unfold dirty_only. by destruct v.
  - destruct (has_msg pc.2 outs (notif_about tid eid)) eqn:En; [by apply IH|].
    destruct (vs !! pc.2) as [w|] eqn:Ew; [|by apply IH].
    destruct (bool_decide (tid ∈ v_synced w)) eqn:Eb; [by apply IH|].
    destruct (decide (pc.2 = q)) as [Hq|Hne].
    + rewrite Hq in *. assert (w = v) as -> by congruence.
      destruct (IH (<[q := vset_sync (v_subd v) (v_synced v) (v_dirty v ∪ {[tid]}) v]> vs) acc _ Hin Hn (lookup_insert _ _ _) Hs)
        as (v'&H1&H2&H3&H4).
      exists v'. split; [done|]. split; [|simpl in H3; set_solver].
      eapply dirty_only_trans; [|exact H2]. unfold dirty_only. by destruct v.
    + apply IH; try done. by rewrite lookup_insert_ne.
Qed.
Lemma dirty_fold_viols i outs tid eid l (vs : gmap N view) acc :
  (∀ pc v, pc ∈ l → has_msg pc.2 outs (notif_about tid eid) = false → vs !! pc.2 = Some v → tid ∉ v_synced v) →
  (fold_left (dirty_one i outs tid eid) l (vs, acc)).2 = acc.
Proof.
  revert vs acc. induction l as [|pc l IH]; intros vs acc H; [done|]. cbn [fold_left]. unfold dirty_one at 2.
  assert (H' : ∀ pc' v, pc' ∈ l → has_msg pc'.2 outs (notif_about tid eid) = false → vs !! pc'.2 = Some v → tid ∉ v_synced v).
  { intros pc' v Hin. apply H. by right. }
  destruct (has_msg pc.2 outs (notif_about tid eid)) eqn:En; [by apply IH|].
  destruct (vs !! pc.2) as [w|] eqn:Ew; [|by apply IH].
  assert (Hw : tid ∉ v_synced w) by (eapply (H pc); [by left|done|done]).
  rewrite bool_decide_eq_false_2 by done. apply IH.
  intros pc' v Hin Hn'. destruct (decide (pc.2 = pc'.2)) as [Heq|Hne].
  - rewrite <- Heq, lookup_insert. intros [= <-]. done.
  - rewrite lookup_insert_ne by done. by apply H'.
Qed.

(* once marked, nothing is claimed about the type: the exemption is discharged *)
Lemma crel_marked v v' p SS tid :
  crelX {[tid]} v p SS → tid ∉ v_synced v → dirty_only v v' → v_dirty v ⊆ v_dirty v' → tid ∈ v_dirty v' → crel v' p SS.
Proof.
  intros (C1&C2&C3) Hs Hd Hsub Hin. unfold dirty_only in Hd. rewrite Hd. split; [|split]; simpl; [done|done|].
  intros t _ [Ht|Ht].
  - assert (t ≠ tid) by (intros ->; done). intros e. simpl. apply C3; [set_solver|by left].
  - assert (t ≠ tid) by (intros ->; done). intros e. simpl. apply C3; [set_solver|]. right. set_solver.
Qed.

(* ================= II.4 one event, with components ================= *)
Definition ev_change (sp : spec) (e : event) : option (N * N * N * N) :=
  match stepped e with
  | Some (c, r) =>
      match sp_mem sp !! c with
      | Some (sid, p) => match comp_change sp c sid p r (ev_outs e) with
                         | Some (tid, eid) => Some (sid, p, tid, eid) | None => None end
      | None => None
      end
  | None => None
  end.
Lemma dirty_step_change i sp e (vs2 : gmap N view) :
  dirty_step i sp e vs2 =
    match ev_change sp e with
    | Some (sid, p, tid, eid) => fold_left (dirty_one i (ev_outs e) tid eid) (sp_others sp sid p) (vs2, [])
    | None => (vs2, [])
    end.
Proof. unfold dirty_step, ev_change. by repeat case_match; simplify_eq. Qed.
Lemma ev_change_actor sp e sid p tid eid :
  ev_change sp e = Some (sid, p, tid, eid) → ∃ c, actor e = Some c ∧ sp_mem sp !! c = Some (sid, p).
Proof.
  unfold ev_change, stepped, actor. intros H. repeat case_match; simplify_eq; (eexists; split; [reflexivity|done]).
Qed.

(* the change a member other than the actor has to be told about, if any *)
Definition chg_for (sp : spec) (e : event) (q : N) : option (N * N) :=
  match ev_change sp e with
  | Some (sid, p, tid, eid) =>
      match sp_mem sp !! q with
      | Some (sid', pq) => if decide (sid' = sid ∧ pq ≠ p) then Some (tid, eid) else None
      | None => None
      end
  | None => None
  end.

Definition views_ok2 (vs : gmap N view) (st : state) : Prop :=
  ∀ c, match cur_of st c with
       | Some (sid, p) => ∃ v SS, vs !! c = Some v ∧ sessions st !! sid = Some SS ∧ vrel v sid p SS ∧ crel v p SS
       | None => vs !! c = None
       end.
Lemma views_ok2_ok vs st : views_ok2 vs st → views_ok vs st.
Proof.
  intros H c. specialize (H c). destruct (cur_of st c) as [[sid p]|]; [|done].
  destruct H as (v&SS&?&?&?&?). by exists v, SS.
Qed.

Definition others_goal2 (sp : spec) (e : event) (st st1 : state) : Prop :=
  ∀ q, Some q ≠ actor e → cur_of st1 q = cur_of st q ∧
     match cur_of st q with
     | Some (sid, pq) => ∀ SS v, sessions st !! sid = Some SS → vrel v sid pq SS → crel v pq SS →
         ∃ SS', sessions st1 !! sid = Some SS' ∧ recv_oksK comp_msg v (msgs_to q (ev_outs e)) = true ∧
                vrel (recv_all v (msgs_to q (ev_outs e))) sid pq SS' ∧
                crel_mid (chg_for sp e q) (ev_outs e) q (recv_all v (msgs_to q (ev_outs e))) pq SS'
     | None => True
     end.
Definition own_goal2 (sp sp' : spec) (e : event) (c : N) (vs : gmap N view) (st1 : state) : Prop :=
  sp_mem sp' !! c = cur_of st1 c ∧
  match cur_of st1 c with
  | Some (sid, p) => ∃ v SS, own_view sp sp' e c (vs !! c) = Some v ∧ sessions st1 !! sid = Some SS ∧
                            vrel v sid p SS ∧ crel v p SS
  | None => True
  end.

Lemma P_C01_event_fst cfg i sp sp' (vs : gmap N view) e :
  (P_C01_event cfg i sp sp' vs e).1 =
    (dirty_step i sp e (own_step sp sp' e (recv_fold (actor e) i (ev_outs e) (vs, [])).1)).1.
Proof.
  rewrite P_C01_event_eq. unfold P_C01_event'. destruct (recv_fold (actor e) i (ev_outs e) (vs, [])) as [a b]. cbn [fst].
  by destruct (dirty_step i sp e (own_step sp sp' e a)).
Qed.

Lemma event_views2 cfg i sp vs e st st1 :
  let sp' := spec_step sp e in
  spec_ok sp st → views_ok2 vs st → others_goal2 sp e st st1 →
  (∀ c, actor e = Some c → own_goal2 sp sp' e c vs st1) →
  views_ok2 (P_C01_event cfg i sp sp' vs e).1 st1 ∧
  Forall (outside comp_msg i) (recv_fold (actor e) i (ev_outs e) (vs, [])).2 ∧
  (dirty_step i sp e (own_step sp sp' e (recv_fold (actor e) i (ev_outs e) (vs, [])).1)).2 = [].
Proof.
  intros sp' Hsp Hvs Hoth Hown.
  (* the views after the first two phases *)
  set (vs1 := (recv_fold (actor e) i (ev_outs e) (vs, [])).1).
  set (vs2 := own_step sp sp' e vs1).
  assert (H1 : ∀ c, vs1 !! c = if bool_decide (Some c = actor e) then vs !! c
                              else (λ v, recv_all v (msgs_to c (ev_outs e))) <$> vs !! c).
  { intros c. apply recv_fold_lookup. }
  assert (H2 : ∀ c, vs2 !! c = match actor e with
                               | Some a => if decide (c = a) then own_view sp sp' e a (vs1 !! a) else vs1 !! c
                               | None => vs1 !! c end) by (intros c; apply own_step_lookup).
  assert (H2o : ∀ q, Some q ≠ actor e → vs2 !! q = (λ v, recv_all v (msgs_to q (ev_outs e))) <$> vs !! q).
  { intros q Hq. rewrite H2.
    assert (Hq1 : vs1 !! q = (λ v, recv_all v (msgs_to q (ev_outs e))) <$> vs !! q).
    { rewrite H1. by rewrite bool_decide_eq_false_2. }
    destruct (actor e) as [a|]; [|done]. rewrite decide_False; [done|]. intros ->. done. }
  (* who the bookkeeping phase may mark *)
  assert (Hlist : ∀ chg sid p tid eid pq q, chg = ev_change sp e → chg = Some (sid, p, tid, eid) →
            (pq, q) ∈ sp_others sp sid p →
            Some q ≠ actor e ∧ cur_of st q = Some (sid, pq) ∧ chg_for sp e q = Some (tid, eid)).
  { intros chg sid p tid eid pq q -> Hc Hin. apply sp_others_spec in Hin as [Hm Hne].
    destruct (ev_change_actor _ _ _ _ _ _ Hc) as (a&Ha&Hma). split; [|split].
    - rewrite Ha. intros [= ->]. congruence.
    - by rewrite <- (Hsp q).
    - unfold chg_for. rewrite Hc, Hm. by rewrite decide_True. }
  assert (Hmid : ∀ q sid pq v SS, Some q ≠ actor e → cur_of st q = Some (sid, pq) → vs !! q = Some v →
            sessions st !! sid = Some SS → vrel v sid pq SS → crel v pq SS →
            ∃ SS', sessions st1 !! sid = Some SS' ∧ vrel (recv_all v (msgs_to q (ev_outs e))) sid pq SS' ∧
                   crel_mid (chg_for sp e q) (ev_outs e) q (recv_all v (msgs_to q (ev_outs e))) pq SS' ∧
                   recv_oksK comp_msg v (msgs_to q (ev_outs e)) = true).
  { intros q sid pq v SS Hq Hc Hv HS V C. destruct (Hoth q Hq) as [_ Ho]. rewrite Hc in Ho.
    destruct (Ho SS v HS V C) as (SS'&HS'&O&V'&C'). by exists SS'. }
  remember (ev_change sp e) as chg eqn:Echg.
  split; [|split].
  - (* the views *)
    intros c. rewrite P_C01_event_fst. fold vs1 vs2.
    pose proof (dirty_step_lookup i sp e vs2 c) as Hd.
    rewrite dirty_step_change in *. rewrite <- Echg in *.
    destruct (decide (Some c = actor e)) as [Ha|Ha].
    + (* the actor: never in the list *)
      destruct (Hown c (eq_sym Ha)) as [Hm Ho].
      assert (Hv2 : vs2 !! c = own_view sp sp' e c (vs !! c)).
      { rewrite H2, <- Ha, decide_True by done. by rewrite H1, bool_decide_eq_true_2. }
      assert (Hun : (match chg with
                     | Some (sid, p, tid, eid) => fold_left (dirty_one i (ev_outs e) tid eid) (sp_others sp sid p) (vs2, [])
                     | None => (vs2, []) end).1 !! c = vs2 !! c).
      { destruct chg as [[[[sid p] tid] eid]|]; [|done].
        apply dirty_fold_untouched. left. intros Hin. apply elem_of_list_fmap in Hin as ([pq q]&Hq&Hin). simpl in Hq. subst q.
        by destruct (Hlist _ _ _ _ _ _ _ eq_refl eq_refl Hin) as [? _]. }
      rewrite Hun, Hv2. destruct (cur_of st1 c) as [[sid p]|].
      * destruct Ho as (v&SS&Hv&HS&V&C). rewrite Hv. by exists v, SS.
      * unfold own_view. by rewrite Hm.
    + (* everybody else *)
      destruct (Hoth c Ha) as [Ec _]. rewrite Ec. specialize (Hvs c). rewrite (H2o c Ha) in Hd.
      destruct (cur_of st c) as [[sid pq]|] eqn:Hcc.
      * destruct Hvs as (v&SS&Hv&HS&V&C).
        destruct (Hmid c sid pq v SS Ha Hcc Hv HS V C) as (SS'&HS'&V'&C'&_).
        set (v1 := recv_all v (msgs_to c (ev_outs e))) in *.
        assert (Hv2 : vs2 !! c = Some v1) by (rewrite (H2o c Ha), Hv; done).
        unfold crel_mid, chg_for in C'. rewrite <- Echg in C'.
        destruct chg as [[[[sid0 p0] tid] eid]|].
        -- rewrite (Hsp c), Hcc in C'. case_decide as Hdd.
           ++ destruct Hdd as [-> Hne].
              assert (Hin : c ∈ map snd (sp_others sp sid0 p0)).
              { apply elem_of_list_fmap. exists (pq, c). split; [done|]. apply sp_others_spec. by rewrite (Hsp c). }
              destruct (has_msg c (ev_outs e) (notif_about tid eid)) eqn:En.
              ** rewrite (dirty_fold_untouched i (ev_outs e) tid eid _ vs2 [] c) by (by right). exists v1, SS'. by rewrite Hv2.
              ** destruct C' as [C' Hs'].
                 destruct (dirty_fold_marked i (ev_outs e) tid eid _ vs2 [] c v1 Hin En Hv2 Hs') as (v'&Hl&Hdo&Hsub&Hm).
                 exists v', SS'. split; [done|]. split; [done|]. split; [by eapply vrel_dirty_only|by eapply crel_marked].
           ++ rewrite (dirty_fold_untouched i (ev_outs e) tid eid _ vs2 [] c).
              { exists v1, SS'. by rewrite Hv2. }
              left. intros Hin. apply elem_of_list_fmap in Hin as ([pq' q]&Hq&Hin). simpl in Hq. subst q.
              destruct (Hlist _ _ _ _ _ _ _ eq_refl eq_refl Hin) as (_&Hc2&_). apply Hdd. rewrite Hcc in Hc2. injection Hc2 as -> ->.
              apply sp_others_spec in Hin as [_ ?]. done.
        -- cbn [fst]. exists v1, SS'. by rewrite Hv2.
      * rewrite Hvs in Hd. simpl in Hd. unfold opt_rel in Hd. match goal with |- ?X = None => by destruct X end.
  - (* component notifications are applicable *)
    destruct (recv_fold_violsK comp_msg (actor e) i (ev_outs e) vs []) as (extra&E&F).
    + intros q v Hq Hv. specialize (Hvs q). destruct (cur_of st q) as [[sid pq]|] eqn:Hc; [|congruence].
      destruct Hvs as (v'&SS&Hv'&HS&V&C). assert (v' = v) as -> by congruence.
      by destruct (Hmid q sid pq v SS Hq Hc Hv HS V C) as (_&_&_&_&O).
    + by rewrite E.
  - (* nobody synced is left untold *)
    rewrite dirty_step_change. rewrite <- Echg. destruct chg as [[[[sid p] tid] eid]|]; [|done].
    apply dirty_fold_viols. intros [pq q] w Hin Hn Hw. simpl in *.
    destruct (Hlist _ _ _ _ _ _ _ eq_refl eq_refl Hin) as (Hq&Hc&Hchg).
    pose proof (Hvs q) as Hvq. rewrite Hc in Hvq. destruct Hvq as (v&SS&Hv&HS&V&C).
    destruct (Hmid q sid pq v SS Hq Hc Hv HS V C) as (SS'&HS'&V'&C'&_).
    fold vs1 vs2 in Hw. rewrite (H2o q Hq), Hv in Hw. simpl in Hw. injection Hw as <-.
    unfold crel_mid in C'. rewrite Hchg, Hn in C'. by destruct C'.
Qed.

(* ================= II.5 the global state, with components ================= *)
Definition R2 (v : view) (sid pq : N) (SS : session) : Prop := vrel v sid pq SS ∧ crel v pq SS.
Definition ostep2 (c : N) (outs : list delivery) (st st' : state) : Prop :=
  ∀ q, q ≠ c → cur_of st' q = cur_of st q ∧
    match cur_of st q with
    | Some (sid, pq) => ∀ SS v, sessions st !! sid = Some SS → R2 v sid pq SS →
        ∃ SS', sessions st' !! sid = Some SS' ∧ recv_oksK comp_msg v (msgs_to q outs) = true ∧
               R2 (recv_all v (msgs_to q outs)) sid pq SS'
    | None => True
    end.

Lemma ostep2_trans c o1 o2 st st1 st2 : ostep2 c o1 st st1 → ostep2 c o2 st1 st2 → ostep2 c (o1 ++ o2) st st2.
Proof.
  intros H1 H2 q Hq. destruct (H1 q Hq) as [E1 G1]. destruct (H2 q Hq) as [E2 G2].
  split; [congruence|]. rewrite E1 in G2. destruct (cur_of st q) as [[sid pq]|]; [|done].
  intros SS v HS V. destruct (G1 SS v HS V) as (S1&HS1&O1&V1). destruct (G2 S1 _ HS1 V1) as (S2&HS2&O2&V2).
  exists S2. split; [done|]. rewrite msgs_to_app, recv_oksK_app, recv_all_app, O1, O2. done.
Qed.
Lemma ostep2_quiet c outs st st' :
  sessions st' = sessions st → (∀ q, q ≠ c → cur_of st' q = cur_of st q) → (∀ d, d ∈ outs → fst d = c) →
  ostep2 c outs st st'.
Proof.
  intros ES EC Ho q Hq. split; [by apply EC|]. destruct (cur_of st q) as [[sid pq]|]; [|done].
  intros SS v HS V. exists SS. rewrite ES. split; [done|].
  rewrite msgs_to_none; [done|]. intros Hin. apply elem_of_list_fmap in Hin as (d&->&Hd). apply Hq. by apply Ho.
Qed.
Lemma ostep2_upd_conn c f st : ostep2 c [] st (upd_conn c f st).
Proof.
  apply ostep2_quiet; [done| |by inversion 1]. intros q Hq. unfold cur_of, upd_conn. simpl.
  destruct (conns st !! c); [|done]. by rewrite lookup_insert_ne.
Qed.
Lemma ostep2_refl c st : ostep2 c [] st st.
Proof. apply ostep2_quiet; [done|done|by inversion 1]. Qed.

Lemma leave_ostep2 cfg k st c :
  inv st → swf cfg k st → (∀ f, flag_on cfg f = false) → ostep2 c (leave cfg st c).2 st (leave cfg st c).1.
Proof.
  intros I W Hnf.
  destruct (leave_sessions cfg st c I) as [(cn&sid&p&SS&Hc&Hcur&HS&Hp&E)|[Hcur E]].
  2:{ rewrite E, (proj2 (leave_not_joined _ _ _ Hcur)). apply ostep2_refl. }
  assert (Hcur0 : cur_of st c = Some (sid, p)) by (unfold cur_of; by rewrite Hc).
  rewrite (leave_outputs cfg st c cn sid p SS Hc Hcur HS (Hnf _) (Hnf _)). cbv zeta.
  fold (leave_outs cfg c p (c_own cn) SS).
  pose proof (leave_projections cfg st c sid p I Hcur0) as [L1 _ _ _ _].
  pose proof (member_inj _ _ _ I HS) as Hi.
  intros q Hq. split; [rewrite L1; by rewrite decide_False|].
  destruct (cur_of st q) as [[sidq pq]|] eqn:Hcq; [|done]. intros SSq v HSq [V C]. rewrite E.
  destruct (decide (sidq = sid)) as [->|Hne].
  - assert (SSq = SS) as -> by congruence.
    pose proof (member_parts _ _ _ _ _ I Hcq HS) as Hpq.
    destruct (leave_member cfg k c p (c_own cn) SS sid q pq v (W _ _ HS) Hi Hp Hpq Hq V) as [O1 V1].
    assert (C1 : crel (recv_all v (msgs_to q (leave_outs cfg c p (c_own cn) SS))) pq (left_session cfg c p (c_own cn) SS)).
    { apply leave_member2; try done. intros e (_&ent&He&_). destruct V as (_&_&[_ M2]&_). rewrite M2, imap_lookup, He. by eexists. }
    exists (left_session cfg c p (c_own cn) SS). split; [|split; [by apply recv_oks_K|done]].
    rewrite decide_False; [by rewrite lookup_insert|].
    destruct (left_session_parts cfg c p (c_own cn) SS) as [EL _]. rewrite EL. intros He.
    assert (Hx : delete p (s_parts SS) !! pq = Some q).
    { rewrite lookup_delete_ne; [done|]. intros ->. congruence. }
    rewrite He in Hx. by rewrite lookup_empty in Hx.
  - exists SSq. split.
    { case_decide; [by rewrite lookup_delete_ne|by rewrite lookup_insert_ne]. }
    rewrite leave_nonmember; [done|done|done|].
    intros pq' Hpq'. exfalso. apply Hne.
    assert (cur_of st q = Some (sid, pq')).
    { apply (inv_parts _ I sid (s_parts SS) pq' q); [unfold parts_of; by rewrite HS|done]. }
    congruence.
Qed.

Lemma enter_ostep2 cfg st c rid n ots SS :
  inv st → (∀ f, flag_on cfg f = false) → cur_of st c = None → sessions st !! n = Some SS →
  s_parts SS !! u32_succ (s_pgen SS) = None →
  ostep2 c (enter cfg st c rid n ots).1.2 st (enter cfg st c rid n ots).1.1.
Proof.
  intros I Hnf Hcur HS Hfresh.
  rewrite (enter_outputs cfg st c rid n ots SS HS (Hnf _) (Hnf _)). cbv zeta. fold (enter_outs cfg c rid n ots SS).
  destruct (enter_state cfg st c rid n ots SS HS) as (ES&EC&_&_).
  assert (Hi : parts_injective (entered SS c)).
  { apply entered_injective; [by eapply member_inj|done|]. intros q. eapply nonmember_parts; [done|done|]. intros p. congruence. }
  intros q Hq. split; [by apply EC|].
  destruct (cur_of st q) as [[sidq pq]|] eqn:Hcq; [|done]. intros SSq v HSq [V C]. rewrite ES.
  destruct (decide (sidq = n)) as [->|Hne].
  - assert (SSq = SS) as -> by congruence.
    pose proof (member_parts _ _ _ _ _ I Hcq HS) as Hpq.
    destruct (enter_member cfg c rid n ots SS n q pq v Hi Hfresh Hpq Hq V) as [O1 V1].
    exists (entered SS c). rewrite lookup_insert. split; [done|]. split; [by apply recv_oks_K|]. split; [done|].
    by apply enter_member2.
  - exists SSq. rewrite lookup_insert_ne by done. split; [done|].
    rewrite enter_nonmember; [done|done|]. intros pq'. eapply nonmember_parts; [done|done|]. intros p. congruence.
Qed.

Lemma enter_new_ostep2 cfg st c rid ots hint n st2 :
  inv st → nowrap st → (∀ f, flag_on cfg f = false) → create_session hint st = (n, st2) →
  ostep2 c (enter cfg st2 c rid n ots).1.2 st (enter cfg st2 c rid n ots).1.1.
Proof.
  intros I Wn Hnf Hcr.
  destruct (create_session_proj _ _ _ _ I Wn Hcr) as (Hfresh&C1&_).
  destruct (create_sessions _ _ _ _ Hcr) as [E2 _].
  set (S0 := session0 (next_uuid st + 1)) in *.
  assert (HS2 : sessions st2 !! n = Some S0) by (rewrite E2; by rewrite lookup_insert).
  rewrite (enter_outputs cfg st2 c rid n ots S0 HS2 (Hnf _) (Hnf _)). cbv zeta. fold (enter_outs cfg c rid n ots S0).
  destruct (enter_state cfg st2 c rid n ots S0 HS2) as (ES&EC&_&_).
  intros q Hq. split; [rewrite EC by done; apply C1|].
  destruct (cur_of st q) as [[sidq pq]|] eqn:Hcq; [|done]. intros SSq v HSq V. rewrite ES, E2.
  assert (Hne : sidq ≠ n).
  { intros ->. unfold parts_of in Hfresh. by rewrite HSq in Hfresh. }
  exists SSq. rewrite !lookup_insert_ne by done. split; [done|].
  rewrite enter_nonmember; [done|done|]. intros pq'. unfold S0. simpl. by rewrite lookup_empty.
Qed.

Lemma join_ostep2 cfg k st c rid s ots hint :
  inv st → nowrap st → swf cfg k st → (∀ f, flag_on cfg f = false) →
  ostep2 c (Model.join cfg st c rid s ots hint).1.2 st (Model.join cfg st c rid s ots hint).1.1.
Proof.
  intros I Wn W Hnf. unfold Model.join. destruct (conns st !! c) as [cn|] eqn:Hc; [|apply ostep2_refl].
  destruct (already_joined cn s) eqn:Ha.
  { simpl. apply ostep2_quiet; [done|done|]. intros d [->|Hd]%elem_of_cons; [done|].
    destruct (c_cur cn) as [[cur pc]|]; [|by inversion Hd]. destruct (sessions st !! cur); [|by inversion Hd].
    by eapply module_msgs_self. }
  pose proof (leave_ostep2 cfg k st c I W Hnf) as HL.
  pose proof (inv_leave cfg st c I) as I1. pose proof (leave_cur cfg st c I) as Hcur1.
  pose proof (leave_nowrap cfg st c I Wn) as Wn1.
  destruct (leave cfg st c) as [st1 o1]. cbn [fst snd] in *.
  assert (Herr : ∀ code, ostep2 c (o1 ++ [(c, MError rid code)]) st st1).
  { intros code. eapply ostep2_trans; [exact HL|]. apply ostep2_quiet; [done|done|].
    intros d Hd. by apply elem_of_list_singleton in Hd as ->. }
  destruct s as [|n|j]; [| |apply Herr].
  - destruct (create_session hint st1) as [n st2] eqn:Hcr.
    pose proof (enter_new_ostep2 cfg st1 c rid ots hint n st2 I1 Wn1 Hnf Hcr) as HE.
    destruct (enter cfg st2 c rid n ots) as [[st3 o2] v]. cbn [fst snd] in *.
    by eapply ostep2_trans.
  - destruct (sessions st1 !! n) as [SS|] eqn:HS; [|apply Herr].
    pose proof (enter_ostep2 cfg st1 c rid n ots SS I1 Hnf Hcur1 HS (fresh_pid _ _ _ I1 Wn1 HS)) as HE.
    destruct (enter cfg st1 c rid n ots) as [[st2 o2] v]. cbn [fst snd] in *.
    by eapply ostep2_trans.
Qed.

Lemma disconnect_ostep2 cfg k st c :
  inv st → swf cfg k st → (∀ f, flag_on cfg f = false) → ostep2 c (disconnect cfg st c).2 st (disconnect cfg st c).1.
Proof.
  intros I W Hnf. unfold disconnect. pose proof (leave_ostep2 cfg k st c I W Hnf) as HL.
  destruct (leave cfg st c) as [st1 o]. cbn [fst snd] in *.
  rewrite <- (app_nil_r o). eapply ostep2_trans; [exact HL|]. apply ostep2_upd_conn.
Qed.

(* ---------- the actor's own view, with components ---------- *)
Lemma join_own2 cfg k sp vs st c rid s ots hint h e :
  (∀ f, flag_on cfg f = false) → inv st → nowrap st → swf cfg k st → is_Some (conns st !! c) →
  spec_ok sp st → views_ok2 vs st →
  ev_op e = OStep c h → ev_req e = Some (RJoin rid s ots) →
  ev_outs e = (Model.join cfg st c rid s ots hint).1.2 → ev_verdict e = VOk →
  own_goal2 sp (spec_step sp e) e c vs (Model.join cfg st c rid s ots hint).1.1.
Proof.
  intros Hnf I Wn W [cn Hc] Hsp Hvs Ho Hr Hout Hv.
  rewrite (spec_step_join sp e c h rid s ots Ho Hr Hv). revert Hout. unfold Model.join. rewrite Hc.
  destruct (already_joined cn s) eqn:Ha.
  { (* refused: still in the session *)
    unfold already_joined in Ha. destruct (c_cur cn) as [[n p]|] eqn:Hcur; [|done].
    destruct s as [|n'|j]; try done. apply bool_decide_eq_true in Ha as <-.
    assert (Hcur0 : cur_of st c = Some (n, p)) by (unfold cur_of; by rewrite Hc).
    destruct (live_session _ _ (inv_live _ I _ _ _ Hcur0)) as [SS HS]. rewrite HS. cbn [fst snd]. intros Hout.
    assert (Hmine : msgs_to c (ev_outs e) = MError rid E_ALREADY_JOINED :: msgs_to c (module_join_msgs cfg c SS)).
    { by rewrite Hout, msgs_to_cons_eq. }
    assert (Hjr : join_resp c (ev_outs e) = None).
    { unfold join_resp. rewrite first_to_msgs, Hmine, msgs_to_module_self.
      by destruct (cfg_vikja cfg), (cfg_odal cfg). }
    assert (Hhe : has_error c E_NOT_FOUND (ev_outs e) = false).
    { rewrite has_error_msgs, Hmine, msgs_to_module_self. by destruct (cfg_vikja cfg), (cfg_odal cfg). }
    rewrite Hjr, Hhe. split; [apply Hsp|]. rewrite Hcur0.
    specialize (Hvs c). rewrite Hcur0 in Hvs. destruct Hvs as (v&SS'&Hv'&HS'&V&C). assert (SS' = SS) as -> by congruence.
    exists (rejoin_view (msgs_to c (ev_outs e)) v), SS. split; [|split; [done|split]].
    - unfold own_view. rewrite (Hsp c), Hcur0.
      assert (Hm : mem_changed sp sp e c = false).
      { unfold mem_changed, rejoined. rewrite Ho, Hr, Hjr. rewrite bool_decide_eq_true_2 by done. simpl. apply andb_false_r. }
      by rewrite Hm, Hr, Hv'.
    - rewrite Hmine. eapply rejoin_own; [by eapply W|done].
    - by apply rejoin_own2. }
  pose proof (inv_leave cfg st c I) as I1. pose proof (leave_cur cfg st c I) as Hcur1.
  pose proof (leave_nowrap cfg st c I Wn) as Wn1. pose proof (swf_leave cfg k st c I W) as W1.
  pose proof (leave_outs_self cfg st c I) as Ho1.
  pose proof (leave_open cfg st c c) as Hop1.
  destruct (leave cfg st c) as [st1 o1]. cbn [fst snd] in *.
  assert (Hc1 : is_Some (conns st1 !! c)).
  { unfold open_of in Hop1. rewrite Hc in Hop1. simpl in Hop1. destruct (conns st1 !! c); [eauto|done]. }
  assert (Herr : ev_outs e = o1 ++ [(c, MError rid E_NOT_FOUND)] →
                 own_goal2 sp (match join_resp c (ev_outs e) with
                              | Some (_, sid, uuid, pid) => enter_spec (depart sp c) c sid uuid pid
                              | None => if has_error c E_NOT_FOUND (ev_outs e) then depart sp c else sp end) e c vs st1).
  { intros Hout. assert (Hmine : msgs_to c (ev_outs e) = [MError rid E_NOT_FOUND]).
    { by rewrite Hout, msgs_to_app, Ho1, msgs_to_cons_eq. }
    assert (Hjr : join_resp c (ev_outs e) = None) by (unfold join_resp; by rewrite first_to_msgs, Hmine).
    assert (Hhe : has_error c E_NOT_FOUND (ev_outs e) = true) by (by rewrite has_error_msgs, Hmine).
    rewrite Hjr, Hhe. split; [|by rewrite Hcur1]. by rewrite depart_mem, decide_True, Hcur1. }
  assert (Hent : ∀ st2 n SS, sessions st2 !! n = Some SS → is_Some (conns st2 !! c) → wf cfg k SS →
            parts_injective (entered SS c) → s_parts SS !! u32_succ (s_pgen SS) = None →
            ev_outs e = o1 ++ (enter cfg st2 c rid n ots).1.2 →
            own_goal2 sp (match join_resp c (ev_outs e) with
                         | Some (_, sid, uuid, pid) => enter_spec (depart sp c) c sid uuid pid
                         | None => if has_error c E_NOT_FOUND (ev_outs e) then depart sp c else sp end) e c vs
                     (enter cfg st2 c rid n ots).1.1).
  { intros st2 n SS HS2 Hc2 WS Hi Hfr Hout.
    rewrite (enter_outputs cfg st2 c rid n ots SS HS2 (Hnf _) (Hnf _)) in Hout. cbv zeta in Hout.
    fold (enter_outs cfg c rid n ots SS) in Hout.
    destruct (enter_state cfg st2 c rid n ots SS HS2) as (ES&_&EC&_). specialize (EC Hc2).
    pose proof (join_resp_entered cfg c rid n ots SS o1 Ho1) as Hjr. rewrite <- Hout in Hjr. rewrite Hjr.
    split; [by rewrite enter_spec_mem, decide_True, EC|]. rewrite EC.
    exists (view_init n (u32_succ (s_pgen SS)) (msgs_to c (ev_outs e))), (entered SS c).
    split; [|split; [|split]].
    - eapply own_view_entered; [by rewrite enter_spec_mem, decide_True|done|done|by rewrite Hjr].
    - by rewrite ES, lookup_insert.
    - rewrite Hout, msgs_to_app, Ho1. simpl. by eapply enter_own.
    - rewrite Hout, msgs_to_app, Ho1. simpl. by eapply enter_own2. }
  destruct s as [|n|j]; [| |exact Herr].
  - destruct (create_session hint st1) as [n st2] eqn:Hcr.
    destruct (create_sessions _ _ _ _ Hcr) as [E2 EC2].
    assert (HS2 : sessions st2 !! n = Some (session0 (next_uuid st1 + 1))) by (rewrite E2; by rewrite lookup_insert).
    specialize (Hent st2 n _ HS2).
    destruct (enter cfg st2 c rid n ots) as [[st3 o2] v]. cbn [fst snd] in *. apply Hent.
    + by rewrite EC2.
    + eapply wf_mono; [|apply wf_session0]. lia.
    + apply entered_injective; [intros q1 q2 c0 Hx; simpl in Hx; by rewrite lookup_empty in Hx|simpl; apply lookup_empty|intros q; simpl; by rewrite lookup_empty].
    + simpl. apply lookup_empty.
  - destruct (sessions st1 !! n) as [SS|] eqn:HS; [|exact Herr].
    specialize (Hent st1 n SS HS Hc1 (W1 _ _ HS)).
    destruct (enter cfg st1 c rid n ots) as [[st2 o2] v]. cbn [fst snd] in *. apply Hent.
    { apply entered_injective; [by eapply member_inj|by eapply fresh_pid|].
      intros q. eapply nonmember_parts; [done|done|]. intros p. congruence. }
    by eapply fresh_pid.
Qed.

Lemma handle_own2 cfg k sp vs st c r hint h e :
  (∀ f, flag_on cfg f = false) → inv st → nowrap st → swf cfg k st → k + 1 < two32 → is_Some (conns st !! c) →
  spec_ok sp st → views_ok2 vs st →
  ev_op e = OStep c h → ev_req e = Some r →
  ev_outs e = (handle cfg st c r hint).1.2 → ev_verdict e = (handle cfg st c r hint).2 →
  (handle cfg st c r hint).2 ≠ VErr →
  own_goal2 sp (spec_step sp e) e c vs (handle cfg st c r hint).1.1.
Proof.
  intros Hnf I Wn W Hk [cn Hc] Hsp Hvs Ho Hr. unfold handle. rewrite Hc.
  assert (Hjoin : ∀ rid s ots, r = RJoin rid s ots →
            ev_outs e = (Model.join cfg st c rid s ots hint).1.2 → ev_verdict e = (Model.join cfg st c rid s ots hint).2 →
            own_goal2 sp (spec_step sp e) e c vs (Model.join cfg st c rid s ots hint).1.1).
  { intros rid s ots -> Hout Hv. rewrite join_verdict in Hv by eauto. eapply join_own2; eauto. }
  destruct (c_cur cn) as [[sid p]|] eqn:Hcur.
  - assert (Hcur0 : cur_of st c = Some (sid, p)) by (unfold cur_of; by rewrite Hc).
    destruct (live_session _ _ (inv_live _ I _ _ _ Hcur0)) as [SS HS]. rewrite HS.
    destruct (is_join r) eqn:Hj.
    { destruct r; try discriminate Hj. simpl. intros Hout Hv _. by eapply Hjoin. }
    pose proof (Hvs c) as Hvc. rewrite Hcur0 in Hvc. destruct Hvc as (v&SS'&Hv'&HS'&V&C). assert (SS' = SS) as -> by congruence.
    destruct (inv_member st c cn sid p SS I Hc Hcur HS) as [Hp Hi].
    destruct (session_local r) eqn:Hl.
    + rewrite (handle_joined_sstep cfg st c cn sid p SS r hint Hl Hc HS). unfold apply_sstep. cbn [fst snd].
      intros Hout Hv _.
      assert (Hm : sp_mem (spec_step sp e) = sp_mem sp) by (eapply spec_step_nonjoin; eauto; by rewrite Hv).
      assert (Hc1 : cur_of (upd_conn c (set_own (λ _, (sstep cfg c p (c_own cn) SS r).1.2))
                              (put_session st sid (sstep cfg c p (c_own cn) SS r).1.1)) c = Some (sid, p)).
      { rewrite cur_of_upd_conn by (by intros []). unfold cur_of. simpl. by rewrite Hc. }
      split; [by rewrite Hm, Hc1, (Hsp c)|]. rewrite Hc1.
      eexists _, _. split; [|split; [|split]].
      * rewrite Hv'. eapply own_view_keep; [by rewrite Hm, (Hsp c)|by rewrite (Hsp c)|done|done|done].
      * simpl. by rewrite lookup_insert.
      * rewrite Hout. by eapply sstep_own; [by eapply W|..].
      * rewrite Hout. by eapply sstep_own2; [by eapply W|..].
    + pose proof (handle_joined_other cfg st c cn sid p SS r hint Hl Hj) as ES.
      pose proof (handle_joined_other_verdict cfg st c cn sid p SS r hint Hl Hj) as Hvd.
      destruct (handle_joined cfg st c cn sid p SS r hint) as [[st' o] vd] eqn:E. cbn [fst snd] in *.
      pose proof (handle_joined_same cfg st c cn sid p SS r hint st' o vd Hj HS E) as (EC&_).
      intros Hout Hv Hne. destruct Hvd as [->| ->]; [|done].
      assert (Hm : sp_mem (spec_step sp e) = sp_mem sp) by (eapply spec_step_nonjoin; eauto; by rewrite Hv).
      split; [by rewrite Hm, EC, (Hsp c)|]. rewrite EC, Hcur0.
      exists v, SS. split; [|split; [by rewrite ES|split; done]].
      rewrite Hv'. erewrite own_view_keep; [|by rewrite Hm, (Hsp c)|by rewrite (Hsp c)|done|done|done].
      by rewrite view_own_other.
  - assert (Hcur0 : cur_of st c = None) by (unfold cur_of; by rewrite Hc).
    destruct (is_join r) eqn:Hj.
    { destruct r; try discriminate Hj. simpl. intros Hout Hv _. by eapply Hjoin. }
    pose proof (handle_unjoined_verdict cfg st c cn r hint Hj) as Hvd.
    destruct (handle_unjoined cfg st c cn r hint) as [[st' o] vd] eqn:E. cbn [fst snd] in *.
    pose proof (handle_unjoined_same cfg st c cn r hint st' o vd Hj E) as (EC&_).
    intros Hout Hv Hne. destruct Hvd as [->| ->]; [|done].
    assert (Hm : sp_mem (spec_step sp e) = sp_mem sp) by (eapply spec_step_nonjoin; eauto; by rewrite Hv).
    split; [by rewrite Hm, EC, (Hsp c)|]. by rewrite EC, Hcur0.
Qed.

(* ---------- the hypotheses of [event_views2], case by case ---------- *)
Lemma handle_ostep2 cfg k st c r hint :
  inv st → nowrap st → swf cfg k st → (∀ f, flag_on cfg f = false) →
  session_local r = false ∨ cur_of st c = None →
  ostep2 c (handle cfg st c r hint).1.2 st (handle cfg st c r hint).1.1.
Proof.
  intros I Wn W Hnf Hnl. unfold handle. destruct (conns st !! c) as [cn|] eqn:Hc; [|apply ostep2_refl].
  destruct (c_cur cn) as [[sid p]|] eqn:Hcur.
  - destruct (sessions st !! sid) as [SS|] eqn:HS; [|apply ostep2_refl].
    destruct (is_join r) eqn:Hj.
    { destruct r; try discriminate Hj. simpl. by eapply join_ostep2. }
    assert (Hl : session_local r = false).
    { destruct Hnl as [?|Hn]; [done|]. unfold cur_of in Hn. rewrite Hc in Hn. simpl in Hn. congruence. }
    pose proof (handle_joined_other cfg st c cn sid p SS r hint Hl Hj) as ES.
    destruct (handle_joined cfg st c cn sid p SS r hint) as [[st' o] v] eqn:E.
    pose proof (handle_joined_same cfg st c cn sid p SS r hint st' o v Hj HS E) as (EC&_).
    apply ostep2_quiet; [done|by intros q _|]. intros d Hd.
    apply (handle_joined_other_outs cfg st c cn sid p SS r hint d Hl Hj). by rewrite E.
  - destruct (is_join r) eqn:Hj.
    { destruct r; try discriminate Hj. simpl. by eapply join_ostep2. }
    pose proof (handle_unjoined_other cfg st c cn r hint Hj) as ES.
    destruct (handle_unjoined cfg st c cn r hint) as [[st' o] v] eqn:E.
    pose proof (handle_unjoined_same cfg st c cn r hint st' o v Hj E) as (EC&_).
    apply ostep2_quiet; [done|by intros q _|]. intros d Hd.
    apply (handle_unjoined_outs cfg st c cn r hint d Hj). by rewrite E.
Qed.

Lemma chg_for_none sp e q : ev_change sp e = None → chg_for sp e q = None.
Proof. unfold chg_for. by intros ->. Qed.
Lemma others_goal2_actor sp e c st st1 :
  actor e = Some c → ev_change sp e = None → ostep2 c (ev_outs e) st st1 → others_goal2 sp e st st1.
Proof.
  intros Ha Hn H q Hq. rewrite Ha in Hq. destruct (H q) as [E G]; [by intros ->|]. split; [done|].
  destruct (cur_of st q) as [[sid pq]|]; [|done]. intros SS v HS V C.
  destruct (G SS v HS (conj V C)) as (SS'&HS'&O&V'&C'). exists SS'. rewrite chg_for_none by done. done.
Qed.
Lemma others_goal2_quiet sp e st st1 :
  ev_change sp e = None → sessions st1 = sessions st → (∀ q, cur_of st1 q = cur_of st q) →
  (∀ d, d ∈ ev_outs e → neutral (snd d)) → others_goal2 sp e st st1.
Proof.
  intros Hn ES EC Hneu q _. split; [apply EC|]. destruct (cur_of st q) as [[sid pq]|]; [|done].
  intros SS v HS V C. exists SS. rewrite ES. split; [done|].
  destruct (recvK_neutral comp_msg v (msgs_to q (ev_outs e))) as [R1 R2].
  { intros m Hm. apply msgs_to_elem in Hm. by apply (Hneu (q, m)). }
  rewrite R1, R2, chg_for_none by done. done.
Qed.

(* a session-local request of a member: the one kind of event with a bookkeeping phase *)
Lemma local_goal2 cfg k sp st st0 c cn sid p SS r h e :
  inv st0 → swf cfg k st0 → k + 1 < two32 → (∀ f, flag_on cfg f = false) →
  (∀ q, cur_of st0 q = cur_of st q) → sessions st0 = sessions st →
  conns st0 !! c = Some cn → c_cur cn = Some (sid, p) → sessions st0 !! sid = Some SS → session_local r = true →
  spec_ok sp st → spec_ok2 sp st →
  ev_op e = OStep c h → ev_req e = Some r → ev_verdict e = VOk → ev_outs e = (sstep cfg c p (c_own cn) SS r).2 →
  others_goal2 sp e st (apply_sstep st0 c sid (sstep cfg c p (c_own cn) SS r)).1.1.
Proof.
  intros I W Hk Hnf EC ES Hc Hcur HS Hl Hsp Hok Ho Hr Hv Hout.
  destruct (inv_member st0 c cn sid p SS I Hc Hcur HS) as [Hp Hi].
  assert (Hcur0 : cur_of st c = Some (sid, p)) by (rewrite <- EC; unfold cur_of; by rewrite Hc).
  assert (HSs : sessions st !! sid = Some SS) by (by rewrite <- ES).
  destruct (sstep_spec2 cfg k st sp c (set_own (λ _, (sstep cfg c p (c_own cn) SS r).1.2)) sid p (c_own cn) SS r
              (W _ _ HS) Hi Hp Hnf Hl HSs Hok) as [_ Hcc].
  assert (Hchg : ev_change sp e = match changed SS r with Some (tid, eid) => Some (sid, p, tid, eid) | None => None end).
  { unfold ev_change, stepped. rewrite Ho, Hr, Hv, (Hsp c), Hcur0, Hout, Hcc. done. }
  unfold apply_sstep. cbn [fst snd].
  intros q Hq. unfold actor in Hq. rewrite Ho in Hq. assert (Hqc : q ≠ c) by (intros ->; done).
  split.
  { rewrite <- EC. unfold cur_of, upd_conn. simpl. rewrite Hc. by rewrite lookup_insert_ne. }
  destruct (cur_of st q) as [[sidq pq]|] eqn:Hcq; [|done]. intros SSq v HSq V C. simpl. rewrite Hout.
  assert (Hcq0 : cur_of st0 q = Some (sidq, pq)) by (by rewrite EC).
  destruct (decide (sidq = sid)) as [->|Hne].
  - assert (SSq = SS) as -> by congruence.
    pose proof (member_parts _ _ _ _ _ I Hcq0 HS) as Hpq.
    assert (Hpqp : pq ≠ p). { intros ->. congruence. }
    destruct (sstep_member cfg k c p (c_own cn) SS r sid q pq v (W _ _ HS) Hk Hi Hp Hnf Hl Hpq Hqc V) as [_ V1].
    destruct (sstep_member2 cfg k c p (c_own cn) SS r q pq v (W _ _ HS) Hk Hi Hp Hnf Hl Hpq Hqc C) as [O1 C1].
    eexists. rewrite lookup_insert. split; [done|]. split; [done|]. split; [done|].
    assert (Hcf : chg_for sp e q = changed SS r).
    { unfold chg_for. rewrite Hchg, (Hsp q), Hcq. destruct (changed SS r) as [[tid eid]|]; [|done]. by rewrite decide_True. }
    by rewrite Hcf.
  - exists SSq. rewrite lookup_insert_ne by done. rewrite <- ES in HSq. split; [done|].
    rewrite sstep_nonmember; [|done|intros pq'; eapply nonmember_parts; [done|done|]; intros p'; congruence].
    assert (Hcf : chg_for sp e q = None).
    { unfold chg_for. rewrite Hchg, (Hsp q), Hcq. destruct (changed SS r) as [[tid eid]|]; [|done].
      rewrite decide_False; [done|]. by intros [? _]. }
    rewrite Hcf. done.
Qed.

(* ================= II.6 every step of the model, with components ================= *)
Lemma idle_own2 sp vs e c st st1 :
  ev_req e = None → spec_step sp e = sp → cur_of st1 c = cur_of st c → sessions st1 = sessions st →
  spec_ok sp st → views_ok2 vs st → own_goal2 sp (spec_step sp e) e c vs st1.
Proof.
  intros Hr Hs EC ES Hsp Hvs. rewrite Hs. split; [by rewrite EC|]. rewrite EC. specialize (Hvs c).
  destruct (cur_of st c) as [[sid p]|] eqn:Hc; [|done]. destruct Hvs as (v&SS&Hv&HS&V&C).
  exists v, SS. split; [|by rewrite ES]. rewrite own_view_idle by auto. by rewrite (Hsp c), Hc.
Qed.
Lemma gone_own2 sp vs e c st1 :
  sp_mem (spec_step sp e) !! c = None → cur_of st1 c = None → own_goal2 sp (spec_step sp e) e c vs st1.
Proof. intros H1 H2. split; [congruence|]. by rewrite H2. Qed.

Lemma handle_verr cfg st c r hint :
  inv st → is_Some (conns st !! c) → (handle cfg st c r hint).2 = VErr →
  sessions (handle cfg st c r hint).1.1 = sessions st ∧ same_mem st (handle cfg st c r hint).1.1.
Proof.
  intros I [cn Hc]. unfold handle. rewrite Hc.
  assert (Hjoin : ∀ rid s ots, (Model.join cfg st c rid s ots hint).2 ≠ VErr).
  { intros rid s ots. rewrite join_verdict; [done|eauto]. }
  destruct (c_cur cn) as [[sid p]|] eqn:Hcur.
  - assert (Hcur0 : cur_of st c = Some (sid, p)) by (unfold cur_of; by rewrite Hc).
    destruct (live_session _ _ (inv_live _ I _ _ _ Hcur0)) as [SS HS]. rewrite HS.
    destruct (is_join r) eqn:Hj.
    { destruct r; try discriminate Hj. simpl. intros Hv. by destruct (Hjoin _ _ _ Hv). }
    destruct (session_local r) eqn:Hl.
    { rewrite (handle_joined_sstep cfg st c cn sid p SS r hint Hl Hc HS). by unfold apply_sstep. }
    pose proof (handle_joined_other cfg st c cn sid p SS r hint Hl Hj) as ES.
    destruct (handle_joined cfg st c cn sid p SS r hint) as [[st' o] vd] eqn:E. cbn [fst snd] in *.
    pose proof (handle_joined_same cfg st c cn sid p SS r hint st' o vd Hj HS E) as HM. done.
  - destruct (is_join r) eqn:Hj.
    { destruct r; try discriminate Hj. simpl. intros Hv. by destruct (Hjoin _ _ _ Hv). }
    pose proof (handle_unjoined_other cfg st c cn r hint Hj) as ES.
    destruct (handle_unjoined cfg st c cn r hint) as [[st' o] vd] eqn:E. cbn [fst snd] in *.
    pose proof (handle_unjoined_same cfg st c cn r hint st' o vd Hj E) as HM. done.
Qed.

Lemma disconnect_ok2 cfg sp st c :
  inv st → Own.own_inv st → spec_ok sp st → spec_ok2 sp st → spec_ok2 (depart sp c) (disconnect cfg st c).1.
Proof.
  intros I HO Hsp Hok. eapply spec_ok2_ext; [apply (proj2 (disconnect_is_leave cfg st c))|]. by apply depart_ok2.
Qed.

Lemma step_goals2 cfg k sp vs st o :
  (∀ f, flag_on cfg f = false) → ginv cfg k st → Own.own_inv st → 4 * (k + 1) < two32 →
  spec_ok sp st → spec_ok2 sp st → views_ok2 vs st →
  let e := event_of cfg st o in
  others_goal2 sp e st (step cfg st o).1.1 ∧
  (∀ c, actor e = Some c → own_goal2 sp (spec_step sp e) e c vs (step cfg st o).1.1) ∧
  spec_ok2 (spec_step sp e) (step cfg st o).1.1.
Proof.
  intros Hnf (I&B&W) HO Hk Hsp Hok Hvs e.
  assert (Wn : nowrap st) by (eapply bounded_nowrap; [exact B|lia]).
  assert (Hk4 : 4 * k + 1 < two32) by lia.
  assert (Hidle : ∀ e st1, ev_req e = None → spec_step sp e = sp → sessions st1 = sessions st →
            (∀ q, cur_of st1 q = cur_of st q) → (∀ d, d ∈ ev_outs e → neutral (snd d)) →
            others_goal2 sp e st st1 ∧ (∀ c, actor e = Some c → own_goal2 sp (spec_step sp e) e c vs st1) ∧
            spec_ok2 (spec_step sp e) st1).
  { intros e0 st1 Hr Hs ES EC Hn.
    assert (Hc : ev_change sp e0 = None) by (unfold ev_change, stepped; rewrite Hr; by destruct (ev_op e0)).
    split; [by apply others_goal2_quiet|]. split.
    - intros c _. by apply (idle_own2 sp vs e0 c st st1).
    - rewrite Hs. by eapply spec_ok2_ext. }
  assert (Hgone : ∀ e c st1, actor e = Some c → ev_change sp e = None → ostep2 c (ev_outs e) st st1 →
            spec_step sp e = depart sp c → cur_of st1 c = None → spec_ok2 (depart sp c) st1 →
            others_goal2 sp e st st1 ∧ (∀ c', actor e = Some c' → own_goal2 sp (spec_step sp e) e c' vs st1) ∧
            spec_ok2 (spec_step sp e) st1).
  { intros e0 c st1 Ha Hc Ho Hs Hcur Hd. split; [by eapply others_goal2_actor|]. split.
    - intros c' Ha'. assert (c' = c) as -> by congruence. apply gone_own2; [|done]. by rewrite Hs, depart_mem, decide_True.
    - by rewrite Hs. }
  subst e. unfold event_of. destruct o as [c|c r|c hint|sid|c|].
  - (* connect *)
    simpl. destruct (conns st !! c) as [cn|] eqn:Hc; simpl.
    + apply Hidle; try done. by inversion 1.
    + apply Hidle; try done; [|by inversion 1]. intros q. unfold cur_of. simpl.
      destruct (decide (c = q)) as [->|Hne]; [by rewrite lookup_insert, Hc|by rewrite lookup_insert_ne].
  - (* send *)
    cbn [step consumed]. unfold dispatch. destruct (conns st !! c) as [cn|] eqn:Hc.
    2:{ simpl. apply Hidle; try done. by inversion 1. }
    destruct (c_open cn) eqn:Hop; simpl.
    2:{ apply Hidle; try done. by inversion 1. }
    assert (Hq : ∀ f, (∀ cn, c_cur (f cn) = c_cur cn) →
              let e0 := {| ev_op := OSend c r; ev_req := None; ev_outs := []; ev_verdict := VOk |} in
              others_goal2 sp e0 st (upd_conn c f st) ∧
              (∀ c', actor e0 = Some c' → own_goal2 sp (spec_step sp e0) e0 c' vs (upd_conn c f st)) ∧
              spec_ok2 (spec_step sp e0) (upd_conn c f st)).
    { intros f Hf e0. apply Hidle; try done; [|by inversion 1]. intros q. by apply cur_of_upd_conn. }
    destruct r; try (apply Hq; by intros []).
    destruct (ty =? 14) eqn:Ety; [|apply Hq; by intros []].
    pose proof (disconnect_ostep2 cfg _ st c I W Hnf) as HD. pose proof (disconnect_cur cfg st c I) as HC.
    pose proof (disconnect_ok2 cfg sp st c I HO Hsp Hok) as HK.
    destruct (disconnect cfg st c) as [st1 o1]. cbn [fst snd] in *.
    by eapply (Hgone _ c).
  - (* step *)
    cbn [step consumed]. destruct (conns st !! c) as [cn|] eqn:Hc.
    2:{ simpl. apply Hidle; try done. by inversion 1. }
    destruct (c_open cn) eqn:Hop; simpl.
    2:{ apply Hidle; try done. by inversion 1. }
    destruct (c_queue cn) as [|r q] eqn:Hq; simpl.
    { apply Hidle; try done. by inversion 1. }
    set (st0 := upd_conn c (set_queue q) st).
    assert (Hs0 : same_mem st st0) by (apply same_mem_upd_conn; by intros []).
    assert (I0 : inv st0) by by eapply inv_same_mem.
    assert (B0 : bounded k st0) by by eapply bounded_same_mem.
    assert (Wn0 : nowrap st0) by (eapply bounded_nowrap; [exact B0|lia]).
    assert (W0 : swf cfg (4 * k) st0) by exact W.
    assert (EC0 : ∀ q, cur_of st0 q = cur_of st q) by apply Hs0.
    assert (HO0 : Own.own_inv st0).
    { eapply Own.own_inv_ext; [|intros c'; apply Own.mem_of_upd_conn; by intros []|exact HO]. done. }
    assert (Hc0 : is_Some (conns st0 !! c)).
    { unfold st0, upd_conn. simpl. rewrite Hc. rewrite lookup_insert. eauto. }
    assert (Ho0 : open_of st0 c = Some true).
    { destruct Hs0 as (_&H2&_). rewrite H2. unfold open_of. by rewrite Hc; simpl; rewrite Hop. }
    assert (Hsp0 : spec_ok sp st0) by (by eapply spec_ok_ext).
    assert (Hok0 : spec_ok2 sp st0) by (by eapply spec_ok2_ext).
    assert (Hvs0 : views_ok2 vs st0).
    { intros c'. rewrite EC0. apply Hvs. }
    pose proof (ostep2_upd_conn c (set_queue q) st) as HU. fold st0 in HU.
    pose proof (λ h e, handle_own2 cfg _ sp vs st0 c r hint h e Hnf I0 Wn0 W0 Hk4 Hc0 Hsp0 Hvs0) as HOwn.
    pose proof (λ h e, handle_spec2 cfg _ sp st0 c r hint h e Hnf I0 Wn0 W0 HO0 Hc0 Hsp0 Hok0) as HSpec.
    pose proof (handle_verr cfg st0 c r hint I0 Hc0) as HVerr.
    pose proof (Own.own_handle cfg st0 c r hint _ I0 Wn0 W0 Hk4 HO0) as HO1.
    destruct (handle_inv cfg st0 c r hint k I0 B0 ltac:(lia) Ho0) as [I1 _].
    assert (W1 : swf cfg (4 * k + N.of_nat 3) (handle cfg st0 c r hint).1.1).
    { intros s SS HS. eapply (chain_wf cfg 3 (sessions st0 !! s)); [by apply handle_chain| |lia|exact HS].
      intros S0 H0. by eapply W0. }
    (* is it a session-local request of a member? *)
    destruct (cur_of st0 c) as [[sid p]|] eqn:Hcur0; [destruct (session_local r) eqn:Hl|].
    + (* yes *)
      assert (Hcn : ∃ cn0, conns st0 !! c = Some cn0 ∧ c_cur cn0 = Some (sid, p)).
      { unfold cur_of in Hcur0. destruct (conns st0 !! c) as [cn0|]; [|done]. by exists cn0. }
      destruct Hcn as (cn0&Hcn0&Hcc0).
      destruct (live_session _ _ (inv_live _ I0 _ _ _ Hcur0)) as [SS HS].
      pose proof (handle_local cfg st0 c cn0 sid p SS r hint Hcn0 Hcc0 HS Hl) as Hh.
      pose proof (local_goal2 cfg (4 * k) sp st st0 c cn0 sid p SS r hint) as HL.
      rewrite Hh in *. unfold apply_sstep in HOwn, HSpec. cbn [fst snd] in HOwn, HSpec.
      split; [|split].
      * unfold apply_sstep. eapply HL; try done.
      * intros c' [= <-]. by eapply (HOwn hint).
      * by eapply (HSpec hint).
    + (* no: not session-local *)
      pose proof (handle_ostep2 cfg _ st0 c r hint I0 Wn0 W0 Hnf (or_introl Hl)) as HH.
      destruct (handle cfg st0 c r hint) as [[st1 o1] v] eqn:Hh. cbn [fst snd] in *.
      assert (Hnv : v ≠ VErr →
         let e0 := {| ev_op := OStep c hint; ev_req := Some r; ev_outs := o1; ev_verdict := v |} in
         others_goal2 sp e0 st st1 ∧ (∀ c', actor e0 = Some c' → own_goal2 sp (spec_step sp e0) e0 c' vs st1) ∧
         spec_ok2 (spec_step sp e0) st1).
      { intros Hv e0. split; [|split].
        - eapply others_goal2_actor; [done| |].
          + unfold ev_change, stepped. simpl. destruct v; try done; rewrite (Hsp c), <- EC0, Hcur0; by rewrite comp_change_other.
          + simpl. change o1 with ([] ++ o1). by eapply ostep2_trans.
        - intros c' [= <-]. by eapply (HOwn hint).
        - by eapply (HSpec hint). }
      destruct v; try (apply Hnv; done).
      destruct (HVerr eq_refl) as [ES1 HM1].
      pose proof (disconnect_ostep2 cfg _ st1 c I1 W1 Hnf) as HD. pose proof (disconnect_cur cfg st1 c I1) as HC.
      assert (HK : spec_ok2 (depart sp c) (disconnect cfg st1 c).1).
      { apply disconnect_ok2; [done|done| |].
        - intros q0. rewrite (proj1 HM1). apply Hsp0.
        - by eapply spec_ok2_ext. }
      destruct (disconnect cfg st1 c) as [st2 o2]. cbn [fst snd] in *.
      eapply (Hgone _ c); try done. simpl. change (o1 ++ o2) with (([] ++ o1) ++ o2).
      eapply ostep2_trans; [by eapply ostep2_trans|done].
    + (* no: in no session *)
      pose proof (handle_ostep2 cfg _ st0 c r hint I0 Wn0 W0 Hnf (or_intror Hcur0)) as HH.
      destruct (handle cfg st0 c r hint) as [[st1 o1] v] eqn:Hh. cbn [fst snd] in *.
      assert (Hnv : v ≠ VErr →
         let e0 := {| ev_op := OStep c hint; ev_req := Some r; ev_outs := o1; ev_verdict := v |} in
         others_goal2 sp e0 st st1 ∧ (∀ c', actor e0 = Some c' → own_goal2 sp (spec_step sp e0) e0 c' vs st1) ∧
         spec_ok2 (spec_step sp e0) st1).
      { intros Hv e0. split; [|split].
        - eapply others_goal2_actor; [done| |].
          + unfold ev_change, stepped. simpl. destruct v; try done; by rewrite (Hsp c), <- EC0, Hcur0.
          + simpl. change o1 with ([] ++ o1). by eapply ostep2_trans.
        - intros c' [= <-]. by eapply (HOwn hint).
        - by eapply (HSpec hint). }
      destruct v; try (apply Hnv; done).
      destruct (HVerr eq_refl) as [ES1 HM1].
      pose proof (disconnect_ostep2 cfg _ st1 c I1 W1 Hnf) as HD. pose proof (disconnect_cur cfg st1 c I1) as HC.
      assert (HK : spec_ok2 (depart sp c) (disconnect cfg st1 c).1).
      { apply disconnect_ok2; [done|done| |].
        - intros q0. rewrite (proj1 HM1). apply Hsp0.
        - by eapply spec_ok2_ext. }
      destruct (disconnect cfg st1 c) as [st2 o2]. cbn [fst snd] in *.
      eapply (Hgone _ c); try done. simpl. change (o1 ++ o2) with (([] ++ o1) ++ o2).
      eapply ostep2_trans; [by eapply ostep2_trans|done].
  - (* tick *)
    simpl. apply Hidle; try done; [apply tick_sessions|apply tick_same|by inversion 1].
  - (* disconnect *)
    cbn [step consumed]. destruct (conns st !! c) as [cn|] eqn:Hc.
    2:{ simpl. assert (Hcu : cur_of st c = None) by (unfold cur_of; by rewrite Hc).
        eapply (Hgone _ c); try done; [apply ostep2_refl|]. unfold depart. rewrite (Hsp c), Hcu. done. }
    destruct (c_open cn) eqn:Hop; simpl.
    2:{ assert (Hcu : cur_of st c = None).
        { apply (inv_open _ I). unfold open_of. by rewrite Hc; simpl; rewrite Hop. }
        eapply (Hgone _ c); try done; [apply ostep2_refl|]. unfold depart. rewrite (Hsp c), Hcu. done. }
    pose proof (disconnect_ostep2 cfg _ st c I W Hnf) as HD. pose proof (disconnect_cur cfg st c I) as HC.
    pose proof (disconnect_ok2 cfg sp st c I HO Hsp Hok) as HK.
    destruct (disconnect cfg st c) as [st1 o1]. cbn [fst snd] in *.
    by eapply (Hgone _ c).
  - (* snapshot *)
    simpl. apply Hidle; try done. intros d Hd. apply elem_of_list_singleton in Hd as ->. apply neutral_snap.
Qed.

(* ================= II.7 whole histories, with components ================= *)
Definition nocodeC (c : Z) (l : list violation) : Prop := ∀ x, x ∈ l → v_code x ≠ c.
Lemma nocodeC_nil c : nocodeC c [].
Proof. by inversion 1. Qed.
Lemma nocodeC_app c a b : nocodeC c a → nocodeC c b → nocodeC c (a ++ b).
Proof. intros Ha Hb x [H|H]%elem_of_app; [by apply Ha|by apply Hb]. Qed.
Lemma nocodeC_viol c i code info : code ≠ c → nocodeC c [viol i code info].
Proof. intros Hc x Hx. by apply elem_of_list_singleton in Hx as ->. Qed.
Lemma nocodeC_okv c i b code info : code ≠ c → nocodeC c (okv i b code info).
Proof. intros Hc. unfold okv. destruct b; [apply nocodeC_nil|by apply nocodeC_viol]. Qed.
Lemma nocodeC_flat_map c {A} (f : A → list violation) l : (∀ a, nocodeC c (f a)) → nocodeC c (flat_map f l).
Proof.
  intros Hf x Hx. apply elem_of_list_In, in_flat_map in Hx as (a&_&Hx). apply elem_of_list_In in Hx. by apply (Hf a).
Qed.
Ltac nocodeC_tac :=
  repeat first
    [ apply nocodeC_nil
    | apply nocodeC_app
    | apply nocodeC_okv; [done]
    | apply nocodeC_viol; [done]
    | apply nocodeC_flat_map; intros ?
    | progress case_match ].
Lemma nocode105_dump_check cfg k i sp d : nocodeC 105 (dump_check cfg k 100 i sp d).
Proof. unfold dump_check. nocodeC_tac. Qed.
Lemma nocode105_snap_check cfg k i sp e : nocodeC 105 (snap_check cfg k 100 i sp e).
Proof. unfold snap_check. nocodeC_tac. all: try apply nocode105_dump_check. Qed.
Lemma nocode105_join_check cfg k i sp' c sid outs : nocodeC 105 (join_snapshot_check cfg k 100 i sp' c sid outs).
Proof. unfold join_snapshot_check. nocodeC_tac. Qed.
Lemma nocode105_bad_msgs i e : nocodeC 105 (bad_msgs i 100 e).
Proof. unfold bad_msgs. nocodeC_tac. Qed.
Lemma nocode105_rest cfg i sp sp' e vs3 : nocodeC 105 (rest_viols cfg i sp sp' e vs3).
Proof.
  unfold rest_viols. cbv zeta. nocodeC_tac.
  all: try apply nocode105_join_check; try apply nocode105_snap_check; try apply nocode105_bad_msgs.
Qed.

Lemma event_viols cfg i sp sp' (vs : gmap N view) e x :
  (recv_fold (actor e) i (ev_outs e) (vs, [])).2 = [] →
  (dirty_step i sp e (own_step sp sp' e (recv_fold (actor e) i (ev_outs e) (vs, [])).1)).2 = [] →
  x ∈ (P_C01_event cfg i sp sp' vs e).2 → v_code x ≠ 106%Z ∧ v_code x ≠ 105%Z.
Proof.
  rewrite P_C01_event_eq. unfold P_C01_event'.
  destruct (recv_fold (actor e) i (ev_outs e) (vs, [])) as [vs1 viol1]. cbn [fst snd]. intros ->.
  destruct (dirty_step i sp e (own_step sp sp' e vs1)) as [vs3 viol3]. cbn [fst snd]. intros ->. simpl.
  intros Hx. split; [by apply (nocode_rest cfg i sp sp' e vs3 x)|by apply (nocode105_rest cfg i sp sp' e vs3 x)].
Qed.

Lemma recv_no_viols i sp vs e st st1 :
  views_ok2 vs st → others_goal core_msg e st st1 → others_goal2 sp e st st1 →
  (recv_fold (actor e) i (ev_outs e) (vs, [])).2 = [].
Proof.
  intros Hvs H1 H2. apply recv_fold_viols. intros q v Hq Hv. specialize (Hvs q).
  destruct (H1 q Hq) as [_ G1]. destruct (H2 q Hq) as [_ G2].
  destruct (cur_of st q) as [[sid pq]|]; [|congruence].
  destruct Hvs as (v'&SS&Hv'&HS&V&C). assert (v' = v) as -> by congruence.
  destruct (G1 SS v HS V) as (_&_&O1&_). destruct (G2 SS v HS V C) as (_&_&O2&_).
  eapply (recv_oksK_split core_msg comp_msg); [|done|done]. intros m. unfold core_msg. by destruct (comp_msg m).
Qed.

Theorem views_run2 cfg h : ∀ st k i sp (vs : gmap N view),
  (∀ f, flag_on cfg f = false) → ginv cfg k st → Own.own_inv st → 4 * (k + N.of_nat (length h)) < two32 →
  spec_ok sp st → spec_ok2 sp st → views_ok2 vs st →
  spec_ok (vscan cfg i sp vs (run_from cfg st h).1).2 (run_from cfg st h).2 ∧
  spec_ok2 (vscan cfg i sp vs (run_from cfg st h).1).2 (run_from cfg st h).2 ∧
  views_ok2 (vscan cfg i sp vs (run_from cfg st h).1).1 (run_from cfg st h).2 ∧
  ∀ x, x ∈ xscan (P_C01_event cfg) i sp vs (run_from cfg st h).1 → v_code x ≠ 106%Z ∧ v_code x ≠ 105%Z.
Proof.
  induction h as [|o h IH]; intros st k i sp vs Hnf G HO Hk Hsp Hok Hvs.
  - simpl. split; [done|]. split; [done|]. split; [done|]. intros x Hx. by inversion Hx.
  - cbn [length] in Hk. rewrite Nat2N.inj_succ in Hk. rewrite run_from_cons. cbn [fst snd vscan].
    pose proof (views_ok2_ok _ _ Hvs) as Hvs1.
    destruct (step_goals cfg k sp vs st o Hnf G ltac:(lia) Hsp Hvs1) as [Ho1 Hw1].
    destruct (event_views cfg core_msg i sp vs (event_of cfg st o) st (step cfg st o).1.1 Hsp Hvs1 Ho1 Hw1) as (Hsp1&_&_).
    destruct (step_goals2 cfg k sp vs st o Hnf G HO ltac:(lia) Hsp Hok Hvs) as (Ho2&Hw2&Hok1).
    destruct (event_views2 cfg i sp vs (event_of cfg st o) st (step cfg st o).1.1 Hsp Hvs Ho2 Hw2) as (Hvs2&_&Hd).
    pose proof (recv_no_viols i sp vs (event_of cfg st o) st _ Hvs Ho1 Ho2) as Hr.
    pose proof (ginv_step cfg k st o G ltac:(lia)) as G1.
    assert (HO1 : Own.own_inv (step cfg st o).1.1).
    { destruct G as (I&B&W). eapply (Own.own_step cfg st o k (4 * k)); try done; lia. }
    destruct (IH (step cfg st o).1.1 (k + 1) (S i) _ _ Hnf G1 HO1 ltac:(lia) Hsp1 Hok1 Hvs2) as (R1&R2&R3&R4).
    split; [exact R1|]. split; [exact R2|]. split; [exact R3|].
    intros x. rewrite xscan_cons. intros [Hx|Hx]%elem_of_app.
    + by eapply event_viols.
    + by apply R4.
Qed.

Lemma views_ok2_0 : views_ok2 ∅ state0.
Proof. intros c. unfold cur_of. simpl. by rewrite !lookup_empty. Qed.

(* every member's view matches its session after every history: participants, entities, entity actions, asset
   instances, the subscriptions, and the components of every type the view is synced on (or that no un-notified
   change has touched since the view last covered it) *)
Theorem views_simulation_full cfg h :
  cfg_flags cfg = [] → short h →
  ∀ c, match cur_of (final cfg h) c with
       | Some (sid, p) => ∃ v SS, views_after cfg (run cfg h) !! c = Some v ∧ sessions (final cfg h) !! sid = Some SS ∧
                                  vrel v sid p SS ∧ crel v p SS
       | None => views_after cfg (run cfg h) !! c = None
       end.
Proof.
  intros Hf Hs c. unfold short in Hs.
  destruct (views_run2 cfg h state0 0 0%nat spec0 ∅ (noflags cfg Hf) (ginv_state0 cfg) Own.own_inv_state0 ltac:(lia)
              spec_ok_0 spec_ok2_0 views_ok2_0) as (_&_&H&_).
  exact (H c).
Qed.

(* on a model history the predicate never reports a broadcast that cannot be applied (106), nor a synced participant
   left untold about a component change (105) *)
Theorem deliveries_applicable cfg h x :
  cfg_flags cfg = [] → short h → x ∈ P_C01 cfg (run cfg h) → v_code x ≠ 106%Z ∧ v_code x ≠ 105%Z.
Proof.
  intros Hf Hs Hx. unfold short in Hs.
  destruct (views_run2 cfg h state0 0 0%nat spec0 ∅ (noflags cfg Hf) (ginv_state0 cfg) Own.own_inv_state0 ltac:(lia)
              spec_ok_0 spec_ok2_0 views_ok2_0) as (_&_&_&H).
  by apply H.
Qed.

(* the same, spelled out *)
Theorem views_simulation_expanded cfg h :
  cfg_flags cfg = [] → short h →
  ∀ c, match cur_of (final cfg h) c with
       | Some (sid, p) =>
           ∃ v SS, views_after cfg (run cfg h) !! c = Some v ∧ sessions (final cfg h) !! sid = Some SS ∧
             v_sid v = sid ∧ v_pid v = p ∧ view_matches v SS ∧ v_acts v = s_actions SS ∧ v_assets v = s_assets SS ∧
             (∀ tid, tid ∈ v_subd v ↔ p ∈ subs_of (s_store SS) tid) ∧ v_synced v ⊆ v_subd v ∧
             (∀ tid, tid ∈ v_synced v ∨ tid ∉ v_dirty v →
                ∀ eid, v_comps v !! (tid, eid) = st_comps (s_store SS) !! (tid, eid))
       | None => views_after cfg (run cfg h) !! c = None
       end.
Proof.
  intros Hf Hs c. pose proof (views_simulation_full cfg h Hf Hs c) as H.
  destruct (cur_of (final cfg h) c) as [[sid p]|]; [|done].
  destruct H as (v&SS&Hv&HS&(V1&V2&M&V3&V4)&(C1&C2&C3)). exists v, SS. repeat split; try done; try apply M; try apply C1.
  intros tid Ht eid. apply C3; [set_solver|done].
Qed.

Theorem views_member_full cfg h c cn sid p SS :
  cfg_flags cfg = [] → short h → member_of cfg h c cn sid p SS →
  ∃ v, views_after cfg (run cfg h) !! c = Some v ∧
       v_sid v = sid ∧ v_pid v = p ∧ view_matches v SS ∧ v_acts v = s_actions SS ∧ v_assets v = s_assets SS ∧
       (∀ tid, tid ∈ v_subd v ↔ p ∈ subs_of (s_store SS) tid) ∧ v_synced v ⊆ v_subd v ∧
       (∀ tid, tid ∈ v_synced v ∨ tid ∉ v_dirty v →
          ∀ eid, v_comps v !! (tid, eid) = st_comps (s_store SS) !! (tid, eid)).
Proof.
  intros Hf Hs [Hc Hcur HS]. pose proof (views_simulation_expanded cfg h Hf Hs c) as H.
  unfold cur_of in H. rewrite Hc in H. simpl in H. rewrite Hcur in H.
  destruct H as (v&SS'&Hv&HS'&H). assert (SS' = SS) as -> by congruence. by exists v.
Qed.

(* the spec the predicate consults agrees with the model on entities and components, too *)
Theorem spec_entities_components cfg h :
  cfg_flags cfg = [] → short h →
  (∀ sid eid, sp_ents (spec_after (run cfg h)) !! (sid, eid) =
              (λ e, (ent_to_pb eid e, e_persist e)) <$> (sessions (final cfg h) !! sid ≫= λ SS, s_ents SS !! eid)) ∧
  (∀ sid tid eid, sp_comps (spec_after (run cfg h)) !! (sid, tid, eid) =
                  sessions (final cfg h) !! sid ≫= λ SS, st_comps (s_store SS) !! (tid, eid)).
Proof.
  intros Hf Hs. unfold short in Hs.
  destruct (views_run2 cfg h state0 0 0%nat spec0 ∅ (noflags cfg Hf) (ginv_state0 cfg) Own.own_inv_state0 ltac:(lia)
              spec_ok_0 spec_ok2_0 views_ok2_0) as (_&H&_&_).
  assert (E : (vscan cfg 0 spec0 ∅ (run_from cfg state0 h).1).2 = spec_after (run cfg h)).
  { unfold spec_after, run. generalize (run_from cfg state0 h).1. generalize spec0. generalize (∅ : gmap N view). generalize 0%nat.
    intros i vs sp t. revert i vs sp. induction t as [|e t IH]; intros i vs sp; [done|]. simpl. apply IH. }
  rewrite E in H. exact H.
Qed.

(* proofs/Views.v — the simulation of replicated views over whole histories (C01).
   The views threaded by the executable predicate P_C01 (Preds2.v) are related to the model state after
   every event: every member's view matches its session; every broadcast is applicable when delivered. *)
From stdpp Require Import relations.
From hagall Require Import Model Preds2.
From hagall.proofs Require Import BaseLemmas Relay Inv Session Local Trans WF Mono Reach PC02 PC03 PC04 PC06 PC01.
From Coq Require Import Lia.

(* ================= 1. P_C01_event, cut into its three view-updating phases ================= *)
Definition msgs_to (q : N) (outs : list delivery) : list msg :=
  map snd (List.filter (λ d : delivery, fst d =? q) outs).

Definition recv_one (act : option N) (i : nat) (acc : gmap N view * list violation) (d : delivery) : gmap N view * list violation :=
  let '(vs, l) := acc in
  if bool_decide (Some (fst d) = act) then acc else
  match vs !! fst d with
  | None => acc
  | Some v => let '(ok, v') := view_recv v (snd d) in
              (<[fst d := v']> vs, l ++ okv i ok 106 [zn (fst d); hd 0%Z (enc_msg (snd d))])
  end.
Definition recv_fold (act : option N) (i : nat) (outs : list delivery) (acc : gmap N view * list violation) :=
  fold_left (recv_one act i) outs acc.

Definition rejoin_view (mine : list msg) (v : view) : view :=
  let v1 := match head (omap (λ m, match m with MVikjaState a => Some a | _ => None end) mine) with
            | Some a => vset_acts (λ _, list_to_map (map (λ a : action, ((a_eid a, a_name a), a)) a)) v | None => v end in
  match head (omap (λ m, match m with MOdalState a => Some a | _ => None end) mine) with
  | Some a => vset_assets (λ _, list_to_map (map (λ a : asset, (as_eid a, a)) a)) v1 | None => v1 end.

Definition own_step (sp sp' : spec) (e : event) (vs1 : gmap N view) : gmap N view :=
  match actor e with
  | None => vs1
  | Some c =>
    let mine := map snd (List.filter (λ d : delivery, fst d =? c) (ev_outs e)) in
    let left := mem_changed sp sp' e c in
    match sp_mem sp' !! c with
    | None => delete c vs1
    | Some (sid, p) =>
        if left then <[c := view_init sid p mine]> vs1
        else match ev_req e, vs1 !! c with
             | Some (RJoin _ _ _), Some v => <[c := rejoin_view mine v]> vs1
             | Some r, Some v => <[c := view_own v r mine]> vs1
             | _, _ => vs1
             end
    end
  end.

Definition dirty_one (i : nat) (outs : list delivery) (tid eid : N) (acc : gmap N view * list violation) (pc : N * N) :=
  let '(vs, l) := acc in
  if has_msg (snd pc) outs (notif_about tid eid) then acc else
  match vs !! snd pc with
  | None => acc
  | Some v => if bool_decide (tid ∈ v_synced v) then (vs, l ++ [viol i 105 [zn (snd pc); zn tid; zn eid]])
              else (<[snd pc := vset_sync (v_subd v) (v_synced v) (v_dirty v ∪ {[tid]}) v]> vs, l)
  end.
Definition dirty_step (i : nat) (sp : spec) (e : event) (vs2 : gmap N view) : gmap N view * list violation :=
  match stepped e with
  | Some (c, r) =>
      match sp_mem sp !! c with
      | Some (sid, p) =>
          match comp_change sp c sid p r (ev_outs e) with
          | Some (tid, eid) => fold_left (dirty_one i (ev_outs e) tid eid) (sp_others sp sid p) (vs2, [])
          | None => (vs2, [])
          end
      | None => (vs2, [])
      end
  | None => (vs2, [])
  end.

Definition rest_viols (cfg : config) (i : nat) (sp sp' : spec) (e : event) (vs3 : gmap N view) : list violation :=
  let outs := ev_outs e in
  let viol4 :=
    match ev_op e with
    | OSnap =>
      flat_map (λ d : delivery, match snd d with
        | MSnap ss g q =>
          flat_map (λ d0 : sdump,
            let dd := canon_dump d0 in
            flat_map (λ pc : N * N,
              match vs3 !! snd pc with
              | None => [viol i 100 [zn (snd pc)]]
              | Some v =>
                  okv i (bool_decide (sortN (elements (v_parts v)) = d_parts dd)) 101 [zn (snd pc); zn (d_sid dd)] ++
                  okv i (bool_decide (sort_by eEnt (map snd (map_to_list (v_ents v))) = map fst (d_ents dd))) 102 [zn (snd pc); zn (d_sid dd)] ++
                  okv i (bool_decide (sort_by eComp (omap (λ kv : (N*N) * N, if bool_decide (fst (fst kv) ∈ v_synced v)
                             then Some {| cp_tid := fst (fst kv); cp_eid := snd (fst kv); cp_data := snd kv |} else None) (map_to_list (v_comps v)))
                           = List.filter (λ x, bool_decide (cp_tid x ∈ v_synced v)) (d_comps dd))) 103 [zn (snd pc); zn (d_sid dd)] ++
                  (if cfg_vikja cfg then okv i (bool_decide (sort_by eAction (map snd (map_to_list (v_acts v))) = d_actions dd)) 104 [zn (snd pc); zn (d_sid dd)] else []) ++
                  (if cfg_odal cfg then okv i (bool_decide (sort_by eAsset (map snd (map_to_list (v_assets v))) = d_assets dd)) 107 [zn (snd pc); zn (d_sid dd)] else [])
              end) (sp_members sp (d_sid dd))) ss
        | _ => [] end) outs
    | _ => []
    end in
  let viol5 :=
    match stepped e with
    | Some (c, RJoin _ _ _) =>
        match join_resp c outs with
        | Some (_, sid, _, _) => join_snapshot_check cfg sel_all 100 i sp' c sid outs
        | None => [] end
    | _ => []
    end in
  viol4 ++ viol5 ++
  snap_check cfg {| k_parts := true; k_ents := true; k_comps := true; k_acts := true; k_assets := true;
                    k_types := false; k_subs := false; k_reg := false |} 100 i sp e ++ bad_msgs i 100 e.

Definition P_C01_event' (cfg : config) (i : nat) (sp sp' : spec) (vs : gmap N view) (e : event) : gmap N view * list violation :=
  let '(vs1, viol1) := recv_fold (actor e) i (ev_outs e) (vs, []) in
  let vs2 := own_step sp sp' e vs1 in
  let '(vs3, viol3) := dirty_step i sp e vs2 in
  (vs3, viol1 ++ viol3 ++ rest_viols cfg i sp sp' e vs3).

Lemma P_C01_event_eq cfg i sp sp' vs e : P_C01_event cfg i sp sp' vs e = P_C01_event' cfg i sp sp' vs e.
Proof. reflexivity. Qed.

(* ================= 2. per-connection reading of the delivery phase ================= *)
Lemma msgs_to_app q a b : msgs_to q (a ++ b) = msgs_to q a ++ msgs_to q b.
Proof. unfold msgs_to. by rewrite List.filter_app, map_app. Qed.
Lemma msgs_to_cons_eq q m l : msgs_to q ((q, m) :: l) = m :: msgs_to q l.
Proof. unfold msgs_to. simpl. by rewrite N.eqb_refl. Qed.
Lemma msgs_to_cons_ne q c m l : c ≠ q → msgs_to q ((c, m) :: l) = msgs_to q l.
Proof. intros Hne. unfold msgs_to. simpl. apply N.eqb_neq in Hne. by rewrite Hne. Qed.
Lemma msgs_to_none q l : q ∉ map fst l → msgs_to q l = [].
Proof.
  induction l as [|[c m] l IH]; [done|]. simpl. intros Hn. rewrite msgs_to_cons_ne.
  - apply IH. intros H. apply Hn. by right.
  - intros ->. apply Hn. by left.
Qed.
Lemma msgs_to_once q m l : NoDup (map fst l) → (q, m) ∈ l → msgs_to q l = [m].
Proof.
  induction l as [|[c m'] l IH]; [by inversion 2|]. simpl. intros [Hn Hnd]%NoDup_cons Hin.
  apply elem_of_cons in Hin as [[= <- <-]|Hin].
  - rewrite msgs_to_cons_eq. by rewrite msgs_to_none.
  - rewrite msgs_to_cons_ne; [by apply IH|]. intros ->. apply Hn. apply elem_of_list_fmap. by exists (q, m).
Qed.
Lemma msgs_to_elem q m l : m ∈ msgs_to q l ↔ (q, m) ∈ l.
Proof.
  unfold msgs_to. rewrite elem_of_list_fmap. split.
  - intros ([c m']&->&H). apply elem_of_list_In, filter_In in H as [H1 H2]. simpl in *.
    apply N.eqb_eq in H2 as ->. by apply elem_of_list_In.
  - intros H. exists (q, m). split; [done|]. apply elem_of_list_In, filter_In. split; [by apply elem_of_list_In|]. simpl. apply N.eqb_refl.
Qed.

Definition recv_all (v : view) (ms : list msg) : view := fold_left (λ v m, (view_recv v m).2) ms v.
Fixpoint recv_oks (v : view) (ms : list msg) : bool :=
  match ms with [] => true | m :: ms' => (view_recv v m).1 && recv_oks (view_recv v m).2 ms' end.
Lemma recv_all_app v a b : recv_all v (a ++ b) = recv_all (recv_all v a) b.
Proof. unfold recv_all. by rewrite fold_left_app. Qed.
Lemma recv_oks_app v a b : recv_oks v (a ++ b) = recv_oks v a && recv_oks (recv_all v a) b.
Proof. revert v. induction a as [|m a IH]; intros v; simpl; [done|]. by rewrite IH, andb_assoc. Qed.

Lemma recv_fold_lookup act i outs vs l q :
  (recv_fold act i outs (vs, l)).1 !! q =
    if bool_decide (Some q = act) then vs !! q else (λ v, recv_all v (msgs_to q outs)) <$> vs !! q.
Proof.
  revert vs l. induction outs as [|[c m] outs IH]; intros vs l.
  - simpl. destruct (bool_decide (Some q = act)); [done|]. by destruct (vs !! q).
  - unfold recv_fold. cbn [fold_left]. fold (recv_fold act i outs (recv_one act i (vs, l) (c, m))).
    unfold recv_one. cbn [fst snd].
    destruct (bool_decide (Some c = act)) eqn:Ea.
    { apply bool_decide_eq_true in Ea. rewrite IH.
      destruct (bool_decide (Some q = act)) eqn:Hq; [done|]. apply bool_decide_eq_false in Hq.
      rewrite msgs_to_cons_ne; [done|]. intros ->. done. }
    apply bool_decide_eq_false in Ea.
    destruct (vs !! c) as [v|] eqn:Ec.
    + destruct (view_recv v m) as [ok v'] eqn:Er. rewrite IH.
      destruct (bool_decide (Some q = act)) eqn:Hq.
      * apply bool_decide_eq_true in Hq. rewrite lookup_insert_ne; [done|]. intros ->. done.
      * destruct (decide (c = q)) as [->|Hne].
        -- rewrite lookup_insert, Ec, msgs_to_cons_eq. simpl. unfold recv_all at 2. simpl. by rewrite Er.
        -- rewrite lookup_insert_ne by done. by rewrite msgs_to_cons_ne.
    + rewrite IH. destruct (bool_decide (Some q = act)) eqn:Hq; [done|].
      destruct (decide (c = q)) as [->|Hne]; [by rewrite Ec|]. by rewrite msgs_to_cons_ne.
Qed.

Lemma recv_fold_viols act i outs vs l :
  (∀ q v, Some q ≠ act → vs !! q = Some v → recv_oks v (msgs_to q outs) = true) →
  (recv_fold act i outs (vs, l)).2 = l.
Proof.
  revert vs l. induction outs as [|[c m] outs IH]; intros vs l Hok; [done|].
  unfold recv_fold. cbn [fold_left]. fold (recv_fold act i outs (recv_one act i (vs, l) (c, m))).
  unfold recv_one. cbn [fst snd].
  destruct (bool_decide (Some c = act)) eqn:Ea.
  { apply IH. intros q v Hq Hv. specialize (Hok q v Hq Hv). apply bool_decide_eq_true in Ea.
    rewrite msgs_to_cons_ne in Hok; [done|]. intros ->. done. }
  apply bool_decide_eq_false in Ea.
  destruct (vs !! c) as [v|] eqn:Ec.
  - destruct (view_recv v m) as [ok v'] eqn:Er.
    pose proof (Hok c v Ea Ec) as H0. rewrite msgs_to_cons_eq in H0. simpl in H0. rewrite Er in H0. simpl in H0.
    apply andb_true_iff in H0 as [-> H0]. simpl. rewrite app_nil_r. apply IH.
    intros q w Hq. destruct (decide (c = q)) as [->|Hne].
    + rewrite lookup_insert. by intros [= <-].
    + rewrite lookup_insert_ne by done. intros Hw. specialize (Hok q w Hq Hw). by rewrite msgs_to_cons_ne in Hok.
  - apply IH. intros q w Hq Hw. specialize (Hok q w Hq Hw).
    destruct (decide (c = q)) as [->|Hne]; [congruence|]. by rewrite msgs_to_cons_ne in Hok.
Qed.

(* ---------- the actor's own view ---------- *)
Definition own_view (sp sp' : spec) (e : event) (c : N) (vc : option view) : option view :=
  let mine := msgs_to c (ev_outs e) in
  match sp_mem sp' !! c with
  | None => None
  | Some (sid, p) =>
      if mem_changed sp sp' e c then Some (view_init sid p mine)
      else match ev_req e, vc with
           | Some (RJoin _ _ _), Some v => Some (rejoin_view mine v)
           | Some r, Some v => Some (view_own v r mine)
           | _, _ => vc
           end
  end.

Lemma own_step_lookup sp sp' e (vs1 : gmap N view) q :
  own_step sp sp' e vs1 !! q =
    match actor e with
    | Some c => if decide (q = c) then own_view sp sp' e c (vs1 !! c) else vs1 !! q
    | None => vs1 !! q
    end.
Proof.
  unfold own_step, own_view. fold (msgs_to). destruct (actor e) as [c|]; [|done].
  change (map snd (List.filter (λ d : delivery, d.1 =? c) (ev_outs e))) with (msgs_to c (ev_outs e)).
  destruct (decide (q = c)) as [->|Hne].
  - repeat case_match; simplify_eq; rewrite ?lookup_insert, ?lookup_delete; done.
  - repeat case_match; simplify_eq; rewrite ?lookup_insert_ne, ?lookup_delete_ne by done; done.
Qed.

(* ---------- the bookkeeping phase touches nothing but the dirty marks ---------- *)
Definition dirty_only (v v' : view) : Prop := v' = vset_sync (v_subd v) (v_synced v) (v_dirty v') v.
Lemma dirty_only_refl v : dirty_only v v.
Proof. unfold dirty_only. by destruct v. Qed.
Lemma dirty_only_trans a b c : dirty_only a b → dirty_only b c → dirty_only a c.
Proof. unfold dirty_only. intros -> ->. by destruct a. Qed.

Definition opt_rel {A} (R : A → A → Prop) (a b : option A) : Prop :=
  match a, b with Some x, Some y => R x y | None, None => True | _, _ => False end.

Lemma dirty_fold_lookup i outs tid eid l (vs : gmap N view) acc q :
  opt_rel dirty_only (vs !! q) ((fold_left (dirty_one i outs tid eid) l (vs, acc)).1 !! q).
Proof.
  revert vs acc. induction l as [|pc l IH]; intros vs acc.
  - simpl. destruct (vs !! q); simpl; [apply dirty_only_refl|done].
  - cbn [fold_left]. unfold dirty_one at 2.
    destruct (has_msg pc.2 outs (notif_about tid eid)); [apply IH|].
    destruct (vs !! pc.2) as [v|] eqn:Ev; [|apply IH].
    destruct (bool_decide (tid ∈ v_synced v)); [apply IH|].
    specialize (IH (<[pc.2 := vset_sync (v_subd v) (v_synced v) (v_dirty v ∪ {[tid]}) v]> vs) acc).
    destruct (decide (pc.2 = q)) as [Hq|Hne].
    + rewrite Hq in *. rewrite lookup_insert in IH. rewrite Ev. unfold opt_rel in *.
      destruct (_ !! q) as [w|]; [|done]. eapply dirty_only_trans; [|exact IH]. unfold dirty_only. by destruct v.
    + by rewrite lookup_insert_ne in IH.
Qed.

Lemma dirty_step_lookup i sp e (vs2 : gmap N view) q :
  opt_rel dirty_only (vs2 !! q) ((dirty_step i sp e vs2).1 !! q).
Proof.
  assert (Hr : opt_rel dirty_only (vs2 !! q) (vs2 !! q)) by (destruct (vs2 !! q); simpl; [apply dirty_only_refl|done]).
  unfold dirty_step. repeat case_match; try exact Hr. apply dirty_fold_lookup.
Qed.

(* ================= 3. the trace-determined spec knows who is where ================= *)
Lemma remove_entities_mem sid l sp : sp_mem (fold_right (sp_remove_entity sid) sp l) = sp_mem sp.
Proof. induction l as [|x l IH]; simpl; [done|]. exact IH. Qed.
Lemma depart_mem sp c c' : sp_mem (depart sp c) !! c' = if decide (c' = c) then None else sp_mem sp !! c'.
Proof.
  unfold depart. destruct (sp_mem sp !! c) as [[sid p]|] eqn:E.
  - destruct (sp_live _ sid); simpl; rewrite remove_entities_mem.
    all: case_decide as Hd; [subst; by rewrite lookup_delete|by rewrite lookup_delete_ne].
  - case_decide as Hd; [by subst|done].
Qed.
Lemma spec_request_mem sp c sid p r outs : sp_mem (spec_request sp c sid p r outs) = sp_mem sp.
Proof. destruct r; simpl; repeat case_match; done. Qed.
Lemma enter_spec_mem sp c sid uuid pid c' :
  sp_mem (enter_spec sp c sid uuid pid) !! c' = if decide (c' = c) then Some (sid, pid) else sp_mem sp !! c'.
Proof. simpl. case_decide as Hd; [subst; by rewrite lookup_insert|by rewrite lookup_insert_ne]. Qed.

Lemma first_to_msgs {A} c outs (f : msg → option A) : first_to c outs f = head (omap f (msgs_to c outs)).
Proof.
  unfold first_to, msgs_to. f_equal. induction outs as [|[c' m] outs IH]; [done|]. simpl.
  destruct (c' =? c); simpl; [destruct (f m); [f_equal|]; exact IH|exact IH].
Qed.
Lemma has_error_msgs c code outs :
  has_error c code outs = existsb (λ m, match m with MError _ k => k =? code | _ => false end) (msgs_to c outs).
Proof.
  unfold has_error, msgs_to. induction outs as [|[c' m] outs IH]; [done|]. simpl.
  destruct (c' =? c) eqn:E; simpl.
  - rewrite IH. destruct m; simpl; try done.
  - rewrite IH. destruct m; simpl; try done.
Qed.

(* ================= 4. one view against one session ================= *)
(* participants, entities (with owner, flag, latest pose), entity actions, asset instances *)
Definition vrel (v : view) (sid p : N) (SS : session) : Prop :=
  v_sid v = sid ∧ v_pid v = p ∧ view_matches v SS ∧ v_acts v = s_actions SS ∧ v_assets v = s_assets SS.

Lemma vrel_dirty_only v v' sid p SS : dirty_only v v' → vrel v sid p SS → vrel v' sid p SS.
Proof. unfold dirty_only. intros -> (?&?&[? ?]&?&?). by repeat split. Qed.

Lemma vrel_same v sid p SS S1 :
  vrel v sid p SS → s_parts S1 = s_parts SS → s_ents S1 = s_ents SS → s_actions S1 = s_actions SS →
  s_assets S1 = s_assets SS → vrel v sid p S1.
Proof. intros (?&?&[? ?]&?&?) E1 E2 E3 E4. repeat split; congruence. Qed.

Lemma recv_single (P : view → Prop) v m :
  (view_recv v m).1 = true → P (view_recv v m).2 → recv_oks v [m] = true ∧ P (recv_all v [m]).
Proof. intros H1 H2. simpl. by rewrite H1. Qed.
Lemma recv_nil (P : view → Prop) v : P v → recv_oks v [] = true ∧ P (recv_all v []).
Proof. done. Qed.

Definition neutral (m : msg) : Prop := ∀ v, view_recv v m = (true, v).
Lemma recv_neutral v ms : (∀ m, m ∈ ms → neutral m) → recv_oks v ms = true ∧ recv_all v ms = v.
Proof.
  induction ms as [|m ms IH]; intros H; [done|]. simpl.
  assert (Hm : neutral m) by (apply H; by left). unfold recv_all. simpl. rewrite Hm. simpl.
  apply IH. intros m' Hm'. apply H. by right.
Qed.

Lemma recv_entity_add v sid p SS S1 ots eid e :
  vrel v sid p SS → s_ents SS !! eid = None → s_ents S1 = <[eid := e]> (s_ents SS) → s_parts S1 = s_parts SS →
  s_actions S1 = s_actions SS → s_assets S1 = s_assets SS →
  (view_recv v (MEntityAddB ots (ent_to_pb eid e))).1 = true ∧
  vrel (view_recv v (MEntityAddB ots (ent_to_pb eid e))).2 sid p S1.
Proof.
  intros (V1&V2&M&V3&V4) Hn E1 E2 E3 E4.
  destruct (view_entity_add v SS S1 ots eid e M Hn E1 E2) as (v'&Hr&M'). rewrite Hr. split; [done|].
  injection Hr as _ <-. repeat split; simpl; try done; try apply M'; congruence.
Qed.
Lemma recv_pose v sid p SS S1 ots eid e ps :
  vrel v sid p SS → s_ents SS !! eid = Some e →
  s_ents S1 = <[eid := {| e_owner := e_owner e; e_persist := e_persist e; e_flag := e_flag e; e_pose := ps |}]> (s_ents SS) →
  s_parts S1 = s_parts SS → s_actions S1 = s_actions SS → s_assets S1 = s_assets SS →
  (view_recv v (MPoseB ots eid ps)).1 = true ∧ vrel (view_recv v (MPoseB ots eid ps)).2 sid p S1.
Proof.
  intros (V1&V2&M&V3&V4) He E1 E2 E3 E4.
  destruct (view_pose v SS S1 ots eid e ps M He E1 E2) as (v'&Hr&M'). rewrite Hr. split; [done|].
  simpl in Hr. destruct M as [M1 M2]. rewrite M2, imap_lookup, He in Hr. simpl in Hr.
  injection Hr as <-. repeat split; simpl; try done; try apply M'; congruence.
Qed.
Lemma recv_join v sid p SS c ots :
  vrel v sid p SS → s_parts SS !! u32_succ (s_pgen SS) = None →
  (view_recv v (MJoinB ots (u32_succ (s_pgen SS)))).1 = true ∧
  vrel (view_recv v (MJoinB ots (u32_succ (s_pgen SS)))).2 sid p (entered SS c).
Proof.
  intros (V1&V2&M&V3&V4) Hn.
  destruct (view_join v SS c ots M Hn) as (v'&Hr&M'). rewrite Hr. split; [done|].
  injection Hr as _ <-. repeat split; simpl; try done; apply M'.
Qed.

(* removing an entity with everything attached to it *)
Lemma filter_acts_eq (m : gmap (N * N) action) eid :
  filter (λ kv : (N*N) * action, negb (fst (fst kv) =? eid)) m = filter (λ kv, fst (fst kv) ≠ eid) m.
Proof.
  apply map_filter_ext. intros [e n] a _. simpl. destruct (e =? eid) eqn:E; simpl.
  - apply N.eqb_eq in E. split; [done|]. intros H. by destruct H.
  - apply N.eqb_neq in E. done.
Qed.
Lemma recv_entity_delete v sid p SS S1 ots eid :
  vrel v sid p SS → is_Some (s_ents SS !! eid) → s_ents S1 = delete eid (s_ents SS) → s_parts S1 = s_parts SS →
  s_actions S1 = filter (λ kv, fst (fst kv) ≠ eid) (s_actions SS) → s_assets S1 = delete eid (s_assets SS) →
  (view_recv v (MEntityDeleteB ots eid)).1 = true ∧ vrel (view_recv v (MEntityDeleteB ots eid)).2 sid p S1.
Proof.
  intros (V1&V2&[M1 M2]&V3&V4) [e He] E1 E2 E3 E4. simpl. rewrite M2, imap_lookup, He. split; [done|].
  repeat split; simpl; try done.
  - by rewrite E2.
  - by rewrite M2, E1, imap_delete.
  - by rewrite V3, E3, filter_acts_eq.
  - by rewrite V4, E4.
Qed.
Lemma vrel_remove_entity v sid p SS S1 eid :
  vrel v sid p SS → s_ents S1 = delete eid (s_ents SS) → s_parts S1 = s_parts SS →
  s_actions S1 = filter (λ kv, fst (fst kv) ≠ eid) (s_actions SS) → s_assets S1 = delete eid (s_assets SS) →
  vrel (v_remove_entity eid v) sid p S1.
Proof.
  intros (V1&V2&[M1 M2]&V3&V4) E1 E2 E3 E4. repeat split; simpl; try done.
  - by rewrite E2.
  - by rewrite M2, E1, imap_delete.
  - by rewrite V3, E3, filter_acts_eq.
  - by rewrite V4, E4.
Qed.
Lemma recv_action v sid p SS S1 ots a :
  vrel v sid p SS → is_Some (s_ents SS !! a_eid a) → s_ents S1 = s_ents SS → s_parts S1 = s_parts SS →
  s_actions S1 = <[(a_eid a, a_name a) := a]> (s_actions SS) → s_assets S1 = s_assets SS →
  (view_recv v (MActionB ots a)).1 = true ∧ vrel (view_recv v (MActionB ots a)).2 sid p S1.
Proof.
  intros (V1&V2&[M1 M2]&V3&V4) [e He] E1 E2 E3 E4. simpl. rewrite M2, imap_lookup, He. split; [done|].
  repeat split; simpl; try done; congruence.
Qed.
Lemma recv_asset v sid p SS S1 ots a :
  vrel v sid p SS → is_Some (s_ents SS !! as_eid a) → s_ents S1 = s_ents SS → s_parts S1 = s_parts SS →
  s_actions S1 = s_actions SS → s_assets S1 = <[as_eid a := a]> (s_assets SS) →
  (view_recv v (MAssetAddB ots a)).1 = true ∧ vrel (view_recv v (MAssetAddB ots a)).2 sid p S1.
Proof.
  intros (V1&V2&[M1 M2]&V3&V4) [e He] E1 E2 E3 E4. simpl. rewrite M2, imap_lookup, He. split; [done|].
  repeat split; simpl; try done; congruence.
Qed.

(* applicability, restricted to the message kinds [K] selects *)
Fixpoint recv_oksK (K : msg → bool) (v : view) (ms : list msg) : bool :=
  match ms with
  | [] => true
  | m :: ms' => (negb (K m) || (view_recv v m).1) && recv_oksK K (view_recv v m).2 ms'
  end.
Lemma recv_oksK_app K v a b : recv_oksK K v (a ++ b) = recv_oksK K v a && recv_oksK K (recv_all v a) b.
Proof. revert v. induction a as [|m a IH]; intros v; simpl; [done|]. by rewrite IH, andb_assoc. Qed.
Lemma recv_oksK_all v ms : recv_oksK (λ _, true) v ms = recv_oks v ms.
Proof. revert v. induction ms as [|m ms IH]; intros v; simpl; [done|]. by rewrite IH. Qed.
Lemma recv_oksK_split K1 K2 v ms :
  (∀ m, K1 m || K2 m = true) → recv_oksK K1 v ms = true → recv_oksK K2 v ms = true → recv_oks v ms = true.
Proof.
  intros HK. revert v. induction ms as [|m ms IH]; intros v; simpl; [done|].
  intros [H1 H1']%andb_true_iff [H2 H2']%andb_true_iff. rewrite IH by done. rewrite andb_true_r.
  specialize (HK m). destruct (K1 m), (K2 m); simpl in *; try done.
Qed.

Lemma recvK_single K (P : view → Prop) v m :
  (view_recv v m).1 = true → P (view_recv v m).2 → recv_oksK K v [m] = true ∧ P (recv_all v [m]).
Proof. intros H1 H2. simpl. rewrite H1, orb_true_r. done. Qed.
Lemma recvK_skip K (P : view → Prop) v m :
  K m = false → P (view_recv v m).2 → recv_oksK K v [m] = true ∧ P (recv_all v [m]).
Proof. intros H1 H2. simpl. rewrite H1. done. Qed.
Lemma recvK_nil K (P : view → Prop) v : P v → recv_oksK K v [] = true ∧ P (recv_all v []).
Proof. done. Qed.
Lemma recvK_neutral K v ms : (∀ m, m ∈ ms → neutral m) → recv_oksK K v ms = true ∧ recv_all v ms = v.
Proof.
  induction ms as [|m ms IH]; intros H; [done|]. simpl.
  assert (Hm : neutral m) by (apply H; by left). unfold recv_all. simpl. rewrite Hm. simpl. rewrite orb_true_r.
  apply IH. intros m' Hm'. apply H. by right.
Qed.

Definition comp_msg (m : msg) : bool :=
  match m with MCompAddB _ _ | MCompDeleteB _ _ _ | MCompUpdateB _ _ => true | _ => false end.
Definition core_msg (m : msg) : bool := negb (comp_msg m).

(* component notifications change nothing of the participant / entity / action / asset part *)
Lemma recv_comp_vrel v sid p SS m : comp_msg m = true → vrel v sid p SS → vrel (view_recv v m).2 sid p SS.
Proof. intros Hm (V1&V2&[M1 M2]&V3&V4). destruct m; try discriminate Hm; simpl; by repeat split. Qed.

(* ---------- who a broadcast reaches, per connection ---------- *)
Lemma msgs_to_broadcast_member SS p m q pq :
  parts_injective SS → s_parts SS !! pq = Some q → pq ≠ p → msgs_to q (broadcast SS p m) = [m].
Proof.
  intros Hi Hq Hne. apply msgs_to_once; [by apply broadcast_recipients_NoDup|].
  apply broadcast_spec. split; [done|]. by exists pq.
Qed.
Lemma msgs_to_broadcast_other SS p m q :
  (∀ pq, s_parts SS !! pq = Some q → pq = p) → msgs_to q (broadcast SS p m) = [].
Proof.
  intros H. apply msgs_to_none. intros Hin. apply elem_of_list_fmap in Hin as ([c' m']&->&Hin). simpl in *.
  apply broadcast_spec in Hin as (_&pq&Hq&Hne). apply Hne. by apply H.
Qed.
Lemma msgs_to_broadcast_to SS p ids m q m' : m' ∈ msgs_to q (broadcast_to SS p ids m) → m' = m.
Proof. intros H. apply msgs_to_elem in H. by apply broadcast_to_spec in H as [-> _]. Qed.

Lemma noflags cfg : cfg_flags cfg = [] → ∀ f, flag_on cfg f = false.
Proof. intros H f. unfold flag_on. by rewrite H. Qed.

Global Arguments recv_oksK : simpl never.
Global Arguments recv_all : simpl never.
Global Arguments msgs_to : simpl never.

Lemma neutral_custom ots p body : neutral (MCustomB ots p body).
Proof. by intros v. Qed.

Lemma wf_fresh_ent cfg k SS : wf cfg k SS → k + 1 < two32 → s_ents SS !! u32_succ (s_egen SS) = None.
Proof.
  intros W Hk. destruct (s_ents SS !! u32_succ (s_egen SS)) as [e|] eqn:E; [|done]. exfalso.
  destruct (wf_ents _ _ _ W _ _ E) as [[_ H] _]. destruct (wf_cnt _ _ _ W) as (_&He&_).
  rewrite u32_succ_small in H by lia. lia.
Qed.


Lemma recvK_one K v m sid p S1 :
  (view_recv v m).1 = true ∧ vrel (view_recv v m).2 sid p S1 →
  recv_oksK K v [m] = true ∧ vrel (recv_all v [m]) sid p S1.
Proof. intros [H1 H2]. unfold recv_oksK, recv_all. simpl. rewrite H1, orb_true_r. done. Qed.
Lemma recvK_comp v m sid p SS S1 :
  comp_msg m = true → vrel v sid p SS → s_parts S1 = s_parts SS → s_ents S1 = s_ents SS →
  s_actions S1 = s_actions SS → s_assets S1 = s_assets SS →
  recv_oksK core_msg v [m] = true ∧ vrel (recv_all v [m]) sid p S1.
Proof.
  intros Hm V E1 E2 E3 E4. unfold recv_oksK, recv_all, core_msg. simpl. rewrite Hm. simpl. split; [done|].
  eapply vrel_same; [by apply recv_comp_vrel|done..].
Qed.
Lemma recvK_none K v sid p SS S1 :
  vrel v sid p SS → s_parts S1 = s_parts SS → s_ents S1 = s_ents SS → s_actions S1 = s_actions SS →
  s_assets S1 = s_assets SS → recv_oksK K v [] = true ∧ vrel (recv_all v []) sid p S1.
Proof. intros V E1 E2 E3 E4. split; [done|]. by eapply vrel_same. Qed.
Lemma recvK_comps v ms sid p SS S1 :
  (∀ m, m ∈ ms → comp_msg m = true) → vrel v sid p SS → s_parts S1 = s_parts SS → s_ents S1 = s_ents SS →
  s_actions S1 = s_actions SS → s_assets S1 = s_assets SS →
  recv_oksK core_msg v ms = true ∧ vrel (recv_all v ms) sid p S1.
Proof.
  intros Hm V E1 E2 E3 E4. revert v V. induction ms as [|m ms IH]; intros v V.
  - by eapply recvK_none.
  - assert (Hc : comp_msg m = true) by (apply Hm; by left).
    unfold recv_oksK, recv_all, core_msg. simpl. rewrite Hc. simpl.
    apply IH; [intros m' Hm'; apply Hm; by right|]. by apply recv_comp_vrel.
Qed.
Lemma cleanup_deleted cfg k SS eid :
  wf cfg k SS →
  let S1 := cleanup_modules cfg eid (set_ents (delete eid) (set_store (store_delete_entity eid) SS)) in
  s_parts S1 = s_parts SS ∧ s_ents S1 = delete eid (s_ents SS) ∧
  s_actions S1 = filter (λ kv, fst (fst kv) ≠ eid) (s_actions SS) ∧ s_assets S1 = delete eid (s_assets SS).
Proof.
  intros W. unfold cleanup_modules. simpl. rewrite lookup_delete.
  destruct (cfg_vikja cfg) eqn:Ev, (cfg_odal cfg) eqn:Eo; simpl; repeat split; try done.
  all: try (rewrite (wf_noodal _ _ _ W Eo); by rewrite delete_empty).
  all: try (rewrite (wf_novikja _ _ _ W Ev); by rewrite map_filter_empty).
Qed.
Lemma msgs_to_nil q : msgs_to q [] = [].
Proof. done. Qed.

Ltac triv_leaf V := eapply (recvK_none core_msg); [exact V|reflexivity..].

(* ---------- a session-local request, seen by another member of the session ---------- *)
Lemma sstep_member cfg k c p own SS r sid q pq v :
  wf cfg k SS → k + 1 < two32 → parts_injective SS → s_parts SS !! p = Some c → (∀ f, flag_on cfg f = false) →
  session_local r = true →
  s_parts SS !! pq = Some q → q ≠ c → vrel v sid pq SS →
  recv_oksK core_msg v (msgs_to q (sstep cfg c p own SS r).2) = true ∧
  vrel (recv_all v (msgs_to q (sstep cfg c p own SS r).2)) sid pq (sstep cfg c p own SS r).1.1.
Proof.
  intros W Hk Hi Hp Hnf Hl Hq Hqc V.
  assert (Hpq : pq ≠ p). { intros ->. congruence. }
  assert (Hcq : c ≠ q) by done.
  destruct r; try discriminate Hl; simpl; rewrite ?Hnf; repeat case_match; simpl.
  all: rewrite ?msgs_to_app, ?(msgs_to_cons_ne q c) by done.
  all: rewrite ?(msgs_to_broadcast_member _ p _ q pq) by done.
  all: rewrite ?msgs_to_nil, ?app_nil_r, ?app_nil_l.
  all: try (triv_leaf V).
  all: lazymatch goal with
       | |- context [MEntityAddB] =>
           apply recvK_one; eapply recv_entity_add; try exact V; try reflexivity; by eapply wf_fresh_ent
       | |- context [MEntityDeleteB] =>
           apply recvK_one; eapply recv_entity_delete; try exact V; try eapply cleanup_deleted; try exact W; eauto
       | |- context [cleanup_modules] =>
           erewrite cleanup_modules_id by eassumption; triv_leaf V
       | |- context [MPoseB] => apply recvK_one; eapply recv_pose; try exact V; try reflexivity; eassumption
       | |- context [broadcast_to _ _ _ (MCustomB ?o ?p ?b)] =>
           destruct (recvK_neutral core_msg v (msgs_to q (broadcast_to SS p (n :: l) (MCustomB o p b)))) as [R1 R2];
             [intros m' Hm'; apply msgs_to_broadcast_to in Hm' as ->; apply neutral_custom|];
           rewrite R1, R2; split; [done|exact V]
       | |- context [broadcast_to] =>
           eapply recvK_comps; [|exact V|reflexivity..]; intros m' Hm'; by apply msgs_to_broadcast_to in Hm' as ->
       | |- context [MCompAddB] => by eapply recvK_comp
       | |- context [MCompDeleteB] => by eapply recvK_comp
       | |- context [MActionB] => apply recvK_one; eapply recv_action; try exact V; try reflexivity; eauto
       | |- context [MAssetAddB] => apply recvK_one; eapply recv_asset; try exact V; try reflexivity; simpl; eauto
       | |- _ => idtac
       end.
Qed.

Lemma sstep_nonmember cfg c p own SS r q :
  q ≠ c → (∀ pq, s_parts SS !! pq ≠ Some q) → msgs_to q (sstep cfg c p own SS r).2 = [].
Proof.
  intros Hqc Hn. apply msgs_to_none. intros Hin. apply elem_of_list_fmap in Hin as (d&->&Hin).
  apply sstep_recipients in Hin as [H|(pq&H&_)]; [done|]. by apply (Hn pq).
Qed.

Lemma msgs_to_broadcast_self SS p m c :
  parts_injective SS → s_parts SS !! p = Some c → msgs_to c (broadcast SS p m) = [].
Proof. intros Hi Hp. apply msgs_to_broadcast_other. intros pq Hq. by eapply Hi. Qed.
Lemma msgs_to_broadcast_to_self SS p ids m c :
  parts_injective SS → s_parts SS !! p = Some c → msgs_to c (broadcast_to SS p ids m) = [].
Proof. intros Hi Hp. apply msgs_to_none. by apply broadcast_to_not_sender. Qed.

(* ---------- a session-local request, seen by the requester itself ---------- *)
Local Arguments view_own : simpl never.
Lemma sstep_own cfg k c p own SS r sid v :
  wf cfg k SS → k + 1 < two32 → parts_injective SS → s_parts SS !! p = Some c → (∀ f, flag_on cfg f = false) →
  session_local r = true → vrel v sid p SS →
  vrel (view_own v r (msgs_to c (sstep cfg c p own SS r).2)) sid p (sstep cfg c p own SS r).1.1.
Proof.
  intros W Hk Hi Hp Hnf Hl V.
  destruct r; try discriminate Hl; simpl; rewrite ?Hnf; repeat case_match; simpl.
  all: rewrite ?msgs_to_app, ?msgs_to_cons_eq.
  all: rewrite ?(msgs_to_broadcast_self _ p _ c), ?(msgs_to_broadcast_to_self _ p _ _ c) by done.
  all: rewrite ?msgs_to_nil, ?app_nil_r, ?app_nil_l; unfold view_own; simpl.
  all: try (eapply vrel_same; [exact V|reflexivity..]).
  all: lazymatch goal with
       | |- context [cleanup_modules _ _ (set_ents _ _)] =>
           eapply vrel_remove_entity; try exact V; eapply cleanup_deleted; exact W
       | |- context [cleanup_modules] => erewrite cleanup_modules_id by eassumption; exact V
       | |- context [vset_comps] => destruct (_ && _); (eapply vrel_same; [exact V|reflexivity..])
       | |- context [match ?a with Some _ => ?x | None => ?x end] => destruct a; exact V
       | |- _ => idtac
       end.
  all: destruct V as (V1&V2&[M1 M2]&V3&V4).
  all: try match goal with H : s_ents _ !! _ = _ |- context [v_ents _ !! _] => rewrite M2, imap_lookup, H; simpl; rewrite ?V2 end.
  all: repeat match goal with
       | H : negb (_ =? _) = true |- _ => apply negb_true_iff in H; rewrite ?H
       | H : negb (_ =? _) = false |- _ => apply negb_false_iff in H; rewrite ?H
       end.
  all: try (destruct p0; by repeat split).
  all: repeat split; simpl; try done.
  all: rewrite ?M2, ?imap_insert, ?V2, ?V3, ?V4; try done.
Qed.

(* ================= 5. departures ================= *)
Lemma msgs_to_flat_map_member SS p (f : N → msg) l q pq :
  parts_injective SS → s_parts SS !! pq = Some q → pq ≠ p →
  msgs_to q (flat_map (λ x, broadcast SS p (f x)) l) = map f l.
Proof.
  intros Hi Hq Hne. induction l as [|x l IH]; [done|]. simpl.
  rewrite msgs_to_app, (msgs_to_broadcast_member _ _ _ _ pq) by done. by rewrite IH.
Qed.
Lemma msgs_to_flat_map_other SS p (f : N → msg) l q :
  (∀ pq, s_parts SS !! pq = Some q → pq = p) → msgs_to q (flat_map (λ x, broadcast SS p (f x)) l) = [].
Proof.
  intros H. induction l as [|x l IH]; [done|]. simpl. by rewrite msgs_to_app, msgs_to_broadcast_other, IH.
Qed.

(* a run of entity deletions applied to a view *)
Lemma recv_deletes l v :
  NoDup l → (∀ e, e ∈ l → is_Some (v_ents v !! e)) →
  let v' := recv_all v (map (MEntityDeleteB 0) l) in
  recv_oks v (map (MEntityDeleteB 0) l) = true ∧
  v_sid v' = v_sid v ∧ v_pid v' = v_pid v ∧ v_parts v' = v_parts v ∧
  (∀ e, v_ents v' !! e = if bool_decide (e ∈ l) then None else v_ents v !! e) ∧
  (∀ e n, v_acts v' !! (e, n) = if bool_decide (e ∈ l) then None else v_acts v !! (e, n)) ∧
  (∀ e, v_assets v' !! e = if bool_decide (e ∈ l) then None else v_assets v !! e) ∧
  (∀ t e, v_comps v' !! (t, e) = if bool_decide (e ∈ l) then None else v_comps v !! (t, e)) ∧
  v_subd v' = v_subd v ∧ v_synced v' = v_synced v ∧ v_dirty v' = v_dirty v.
Proof.
  revert v. induction l as [|x l IH]; intros v Hnd Hin.
  - simpl. repeat split; intros; by rewrite bool_decide_eq_false_2 by (inversion 1).
  - apply NoDup_cons in Hnd as [Hx Hnd]. cbn [map]. unfold recv_all. cbn [fold_left recv_oks].
    fold (recv_all (view_recv v (MEntityDeleteB 0 x)).2 (map (MEntityDeleteB 0) l)).
    destruct (Hin x) as [ex Hex]; [by left|]. cbn [view_recv fst snd]. rewrite Hex. cbn [is_Some_b andb].
    destruct (IH (v_remove_entity x v) Hnd) as (I0&I1&I2&I3&I4&I5&I6&I7&I8&I9&I10).
    { intros e He. simpl. rewrite lookup_delete_ne; [apply Hin; by right|]. intros <-. done. }
    split; [exact I0|]. rewrite I1, I2, I3, I8, I9, I10.
    assert (Hb : ∀ e, bool_decide (e ∈ x :: l) = (e =? x) || bool_decide (e ∈ l)).
    { intros e. destruct (e =? x) eqn:E; simpl.
      - apply N.eqb_eq in E as ->. apply bool_decide_eq_true_2. by left.
      - apply N.eqb_neq in E. apply bool_decide_ext. rewrite elem_of_cons. tauto. }
    repeat split; try done.
    + intros e. rewrite I4, Hb. simpl. destruct (e =? x) eqn:E; simpl.
      * apply N.eqb_eq in E as ->. rewrite lookup_delete. by destruct (bool_decide _).
      * apply N.eqb_neq in E. by rewrite lookup_delete_ne.
    + intros e n. rewrite I5, Hb. simpl. destruct (e =? x) eqn:E; simpl.
      * destruct (bool_decide _); [done|]. apply map_filter_lookup_None. right. intros a _. simpl. rewrite E. simpl. tauto.
      * destruct (bool_decide _); [done|]. destruct (v_acts v !! (e, n)) as [a|] eqn:Ea.
        -- apply map_filter_lookup_Some. split; [done|]. simpl. rewrite E. simpl. tauto.
        -- apply map_filter_lookup_None. by left.
    + intros e. rewrite I6, Hb. simpl. destruct (e =? x) eqn:E; simpl.
      * apply N.eqb_eq in E as ->. rewrite lookup_delete. by destruct (bool_decide _).
      * apply N.eqb_neq in E. by rewrite lookup_delete_ne.
    + intros t e. rewrite I7, Hb. simpl. destruct (e =? x) eqn:E; simpl.
      * destruct (bool_decide _); [done|]. apply map_filter_lookup_None. right. intros a _. simpl. rewrite E. simpl. tauto.
      * destruct (bool_decide _); [done|]. destruct (v_comps v !! (t, e)) as [a|] eqn:Ea.
        -- apply map_filter_lookup_Some. split; [done|]. simpl. rewrite E. simpl. tauto.
        -- apply map_filter_lookup_None. by left.
Qed.

(* what a departure does to the entity actions and asset instances *)
Lemma left_modules cfg k c p own SS :
  wf cfg k SS →
  let L := left_session cfg c p own SS in
  (∀ e n, s_actions L !! (e, n) = if bool_decide (removed own SS e) then None else s_actions SS !! (e, n)) ∧
  (∀ e, s_assets L !! e = if bool_decide (removed own SS e) then None else s_assets SS !! e).
Proof.
  intros W L. unfold L, left_session. cbv zeta.
  set (S1 := module_disconnect cfg own SS).
  set (S2 := set_store (store_set_subs (fmap (λ s : gset N, s ∖ {[p]}))) S1).
  pose proof (remove_doomed_spec cfg p (doomed S2 own) S2) as (_&_&_&_&_&_&R7&R8&_).
  simpl. rewrite R7, R8.
  set (gone := List.filter (λ eid, negb (keep_entity SS eid)) (elements own)).
  assert (Hg : ∀ e ent, s_ents SS !! e = Some ent → memN e gone = bool_decide (removed own SS e)).
  { intros e ent He. destruct (bool_decide (removed own SS e)) eqn:Eb.
    - apply bool_decide_eq_true in Eb as (Ho&ent'&He'&Hp). apply memN_elem. unfold gone.
      rewrite elem_of_list_In, filter_In, <- elem_of_list_In, elem_of_elements. split; [done|].
      unfold keep_entity. rewrite He'. by rewrite Hp.
    - apply bool_decide_eq_false in Eb. apply memN_false. unfold gone.
      rewrite elem_of_list_In, filter_In, <- elem_of_list_In, elem_of_elements. intros [Ho Hk]. apply Eb.
      split; [done|]. exists ent. split; [done|]. unfold keep_entity in Hk. rewrite He in Hk. by destruct (e_persist ent). }
  assert (EA : s_actions S2 = if cfg_vikja cfg then filter (λ kv : N * N * action, negb (memN kv.1.1 gone)) (s_actions SS)
                               else s_actions SS).
  { unfold S2, S1, module_disconnect. fold gone. by repeat case_match. }
  assert (EB : s_assets S2 = if cfg_odal cfg then filter (λ kv : N * asset, negb (memN kv.1 gone)) (s_assets SS)
                              else s_assets SS).
  { unfold S2, S1, module_disconnect. fold gone. by repeat case_match. }
  split.
  - intros e n. rewrite EA. destruct (cfg_vikja cfg) eqn:Ev.
    + destruct (s_actions SS !! (e, n)) as [a|] eqn:Ea.
      * destruct (wf_acts _ _ _ W _ _ _ Ea) as (_&_&_&_&[ent He]). rewrite <- (Hg e ent He).
        destruct (memN e gone) eqn:Em.
        -- apply map_filter_lookup_None. right. intros a' _. simpl. rewrite Em. simpl. tauto.
        -- apply map_filter_lookup_Some. split; [done|]. simpl. rewrite Em. simpl. tauto.
      * rewrite (proj2 (map_filter_lookup_None _ _ _)) by (by left). by destruct (bool_decide _).
    + rewrite (wf_novikja _ _ _ W Ev), lookup_empty. by destruct (bool_decide _).
  - intros e. rewrite EB. destruct (cfg_odal cfg) eqn:Eo.
    + destruct (s_assets SS !! e) as [a|] eqn:Ea.
      * destruct (wf_assets _ _ _ W _ _ Ea) as (_&_&ent&He&_). rewrite <- (Hg e ent He).
        destruct (memN e gone) eqn:Em.
        -- apply map_filter_lookup_None. right. intros a' _. simpl. rewrite Em. simpl. tauto.
        -- apply map_filter_lookup_Some. split; [done|]. simpl. rewrite Em. simpl. tauto.
      * rewrite (proj2 (map_filter_lookup_None _ _ _)) by (by left). by destruct (bool_decide _).
    + rewrite (wf_noodal _ _ _ W Eo), lookup_empty. by destruct (bool_decide _).
Qed.

Definition leave_outs (cfg : config) (c p : N) (own : gset N) (SS : session) : list delivery :=
  flat_map (λ eid, broadcast SS p (MEntityDeleteB 0 eid))
    (doomed (set_store (store_set_subs (fmap (λ s : gset N, s ∖ {[p]}))) (module_disconnect cfg own SS)) own) ++
  broadcast (left_session cfg c p own SS) p (MLeaveB p).

Lemma left_injective cfg c p own SS : parts_injective SS → parts_injective (left_session cfg c p own SS).
Proof.
  intros Hi q1 q2 c0. destruct (left_session_parts cfg c p own SS) as [EL _]. rewrite EL.
  intros [_ H1]%lookup_delete_Some [_ H2]%lookup_delete_Some. by eapply Hi.
Qed.

(* a departure, seen by a member that stays *)
Lemma leave_member cfg k c p own SS sid q pq v :
  wf cfg k SS → parts_injective SS → s_parts SS !! p = Some c → s_parts SS !! pq = Some q → q ≠ c →
  vrel v sid pq SS →
  recv_oks v (msgs_to q (leave_outs cfg c p own SS)) = true ∧
  vrel (recv_all v (msgs_to q (leave_outs cfg c p own SS))) sid pq (left_session cfg c p own SS).
Proof.
  intros W Hi Hp Hq Hqc (V1&V2&[M1 M2]&V3&V4).
  assert (Hpq : pq ≠ p). { intros ->. congruence. }
  unfold leave_outs.
  set (dl := doomed (set_store (store_set_subs (fmap (λ s : gset N, s ∖ {[p]}))) (module_disconnect cfg own SS)) own).
  set (L := left_session cfg c p own SS).
  destruct (left_fields cfg c p own SS) as (F1&_&_&_&_&F6&_). fold L in F1, F6.
  destruct (left_modules cfg k c p own SS W) as [A1 A2]. fold L in A1, A2.
  assert (Hb : ∀ e, bool_decide (e ∈ dl) = bool_decide (removed own SS e)).
  { intros e. apply bool_decide_ext. symmetry. apply removed_doomed. }
  rewrite msgs_to_app, (msgs_to_flat_map_member SS p (MEntityDeleteB 0) dl q pq) by done.
  rewrite (msgs_to_broadcast_member L p _ q pq); [|by apply left_injective|by rewrite F6, lookup_delete_ne|done].
  assert (Hnd : NoDup dl) by apply doomed_NoDup.
  assert (Hex : ∀ e, e ∈ dl → is_Some (v_ents v !! e)).
  { intros e He. apply removed_doomed in He as (_&ent&He&_). rewrite M2, imap_lookup, He. by eexists. }
  clearbody L dl.
  destruct (recv_deletes dl v Hnd Hex) as (I0&I1&I2&I3&I4&I5&I6&_).
  rewrite recv_oks_app, recv_all_app, I0.
  set (v' := recv_all v (map (MEntityDeleteB 0) dl)) in *. clearbody v'.
  unfold recv_all. cbn [recv_oks fold_left view_recv fst snd andb]. split.
  - rewrite andb_true_r. apply bool_decide_eq_true_2. rewrite I3, M1. apply elem_of_dom. by eexists.
  - repeat split; cbn [v_sid v_pid v_parts v_ents v_acts v_assets vset_parts].
    + by rewrite I1.
    + by rewrite I2.
    + rewrite I3, M1, F6, dom_delete_L. done.
    + apply map_eq. intros e. rewrite I4, imap_lookup, F1, Hb, M2, imap_lookup. by destruct (bool_decide _).
    + apply map_eq. intros [e n]. rewrite I5, A1, Hb, V3. done.
    + apply map_eq. intros e. rewrite I6, A2, Hb, V4. done.
Qed.

(* ... and by everybody else: nothing *)
Lemma leave_nonmember cfg c p own SS q :
  parts_injective SS → s_parts SS !! p = Some c → (∀ pq, s_parts SS !! pq = Some q → pq = p) →
  msgs_to q (leave_outs cfg c p own SS) = [].
Proof.
  intros Hi Hp Hn. unfold leave_outs. rewrite msgs_to_app, msgs_to_flat_map_other by done.
  rewrite msgs_to_broadcast_other; [done|]. intros pq. destruct (left_session_parts cfg c p own SS) as [EL _].
  rewrite EL. intros [_ H]%lookup_delete_Some. by apply Hn.
Qed.

(* ================= 6. joins ================= *)
Lemma list_to_map_keyed `{Countable K} {A} (key : A → K) (m : gmap K A) :
  (∀ k x, m !! k = Some x → key x = k) →
  list_to_map (map (λ x, (key x, x)) (map snd (map_to_list m))) = m.
Proof.
  intros Hk. rewrite <- (list_to_map_to_list m) at 2. f_equal.
  rewrite <- list_fmap_compose. rewrite <- (list_fmap_id (map_to_list m)) at 2.
  apply list_fmap_ext. intros i [k x] Hi. simpl. f_equal.
  apply Hk. apply elem_of_map_to_list. by eapply elem_of_list_lookup_2.
Qed.
Lemma list_to_map_ents (m : gmap N entity) :
  list_to_map (map (λ x : ent_pb, (ep_id x, x)) (map (λ kv : N * entity, ent_to_pb kv.1 kv.2) (map_to_list m))) =
  map_imap (λ e ent, Some (ent_to_pb e ent)) m.
Proof.
  apply map_eq. intros k. rewrite imap_lookup. rewrite <- list_fmap_compose.
  destruct (m !! k) as [x|] eqn:E; simpl.
  - apply elem_of_list_to_map_1.
    + rewrite <- list_fmap_compose.
      replace (map (fst ∘ ((λ x0 : ent_pb, (ep_id x0, x0)) ∘ (λ kv : N * entity, ent_to_pb kv.1 kv.2))) (map_to_list m))
        with (map fst (map_to_list m)); [apply NoDup_fst_map_to_list|].
      apply list_fmap_ext. by intros ? [? ?].
    + apply elem_of_list_fmap. exists (k, x). split; [done|]. by apply elem_of_map_to_list.
  - apply not_elem_of_list_to_map_1. rewrite <- list_fmap_compose. intros Hin.
    apply elem_of_list_fmap in Hin as ([k' x']&Hk&Hin). simpl in Hk. subst k'.
    apply elem_of_map_to_list in Hin. congruence.
Qed.
Lemma list_to_set_keys (m : gmap N N) : list_to_set (map fst (map_to_list m)) = (dom m : gset N).
Proof. apply leibniz_equiv. symmetry. apply dom_alt. Qed.

Definition enter_outs (cfg : config) (c rid n ots : N) (SS : session) : list delivery :=
  let S1 := entered SS c in
  let p := u32_succ (s_pgen SS) in
  [(c, MJoinResp rid n (s_uuid SS) p); (c, session_state_msg S1)] ++ broadcast S1 p (MJoinB ots p) ++ module_join_msgs cfg c S1.

Lemma entered_injective SS c :
  parts_injective SS → s_parts SS !! u32_succ (s_pgen SS) = None → (∀ q, s_parts SS !! q ≠ Some c) →
  parts_injective (entered SS c).
Proof.
  intros Hi Hn Hc q1 q2 c0. unfold entered. simpl.
  intros [[<- <-]|[Hne1 H1]]%lookup_insert_Some [[<- Heq]|[Hne2 H2]]%lookup_insert_Some; try done.
  - subst. by destruct (Hc q2).
  - subst. by destruct (Hc q1).
  - by eapply Hi.
Qed.

Lemma msgs_to_module_self cfg c SS :
  msgs_to c (module_join_msgs cfg c SS) =
    (if cfg_vikja cfg then [MVikjaState (map snd (map_to_list (s_actions SS)))] else []) ++
    (if cfg_odal cfg then [MOdalState (map snd (map_to_list (s_assets SS)))] else []).
Proof.
  unfold module_join_msgs. rewrite msgs_to_app.
  destruct (cfg_vikja cfg), (cfg_odal cfg); rewrite ?msgs_to_cons_eq, ?msgs_to_nil; done.
Qed.
Lemma msgs_to_module_other cfg c SS q : q ≠ c → msgs_to q (module_join_msgs cfg c SS) = [].
Proof.
  intros Hne. unfold module_join_msgs. rewrite msgs_to_app.
  destruct (cfg_vikja cfg), (cfg_odal cfg); rewrite ?(msgs_to_cons_ne q c) by done; done.
Qed.

(* a join, seen by a member of the session joined *)
Lemma enter_member cfg c rid n ots SS sid q pq v :
  parts_injective (entered SS c) → s_parts SS !! u32_succ (s_pgen SS) = None →
  s_parts SS !! pq = Some q → q ≠ c → vrel v sid pq SS →
  recv_oks v (msgs_to q (enter_outs cfg c rid n ots SS)) = true ∧
  vrel (recv_all v (msgs_to q (enter_outs cfg c rid n ots SS))) sid pq (entered SS c).
Proof.
  intros Hi Hn Hq Hqc V. unfold enter_outs. cbv zeta.
  assert (Hpq : pq ≠ u32_succ (s_pgen SS)). { intros ->. congruence. }
  rewrite !msgs_to_app. simpl. rewrite !(msgs_to_cons_ne q c) by done. rewrite msgs_to_nil, msgs_to_module_other by done.
  rewrite (msgs_to_broadcast_member _ _ _ q pq); [|done|unfold entered; simpl; by rewrite lookup_insert_ne|done].
  cbn [app]. destruct (recv_join v sid pq SS c ots V Hn) as [H1 H2]. unfold recv_all. cbn [recv_oks fold_left]. by rewrite H1.
Qed.
Lemma enter_nonmember cfg c rid n ots SS q :
  q ≠ c → (∀ pq, s_parts SS !! pq ≠ Some q) → msgs_to q (enter_outs cfg c rid n ots SS) = [].
Proof.
  intros Hqc Hn. unfold enter_outs. cbv zeta. rewrite !msgs_to_app. simpl.
  rewrite !(msgs_to_cons_ne q c) by done. rewrite msgs_to_nil, msgs_to_module_other by done.
  rewrite msgs_to_broadcast_other; [done|]. intros pq. unfold entered. simpl.
  intros [[<- ?]|[_ H]]%lookup_insert_Some; [done|]. by destruct (Hn pq).
Qed.

(* ... and by the newcomer: the view it is handed is the session *)
Lemma enter_own cfg k c rid n ots SS :
  wf cfg k SS → parts_injective (entered SS c) →
  vrel (view_init n (u32_succ (s_pgen SS)) (msgs_to c (enter_outs cfg c rid n ots SS))) n (u32_succ (s_pgen SS)) (entered SS c).
Proof.
  intros W Hi. unfold enter_outs. cbv zeta. rewrite !msgs_to_app. simpl. rewrite !msgs_to_cons_eq, msgs_to_nil.
  rewrite msgs_to_broadcast_self; [|done|unfold entered; simpl; by rewrite lookup_insert].
  rewrite msgs_to_module_self. unfold session_state_msg. simpl.
  set (S1 := entered SS c).
  assert (EA : s_actions S1 = s_actions SS) by done. assert (EB : s_assets S1 = s_assets SS) by done.
  unfold view_init. cbn [omap list_omap head default app].
  repeat split; cbn [v_sid v_pid v_parts v_ents v_acts v_assets].
  - apply list_to_set_keys.
  - unfold ents_pb. apply list_to_map_ents.
  - destruct (cfg_vikja cfg) eqn:Ev, (cfg_odal cfg) eqn:Eo; simpl.
    all: try (apply list_to_map_keyed; intros [e nm] a Ha; rewrite ?EA in Ha;
              destruct (wf_acts _ _ _ W _ _ _ Ha) as (->&->&_); done).
    all: rewrite ?EA, (wf_novikja _ _ _ W Ev); done.
  - destruct (cfg_vikja cfg) eqn:Ev, (cfg_odal cfg) eqn:Eo; simpl.
    all: try (apply list_to_map_keyed; intros e a Ha; rewrite ?EB in Ha;
              destruct (wf_assets _ _ _ W _ _ Ha) as (->&_); done).
    all: rewrite ?EB, (wf_noodal _ _ _ W Eo); done.
Qed.

(* ================= 7. the global state: what an event does to everybody but its actor ================= *)
Definition views_ok (vs : gmap N view) (st : state) : Prop :=
  ∀ c, match cur_of st c with
       | Some (sid, p) => ∃ v SS, vs !! c = Some v ∧ sessions st !! sid = Some SS ∧ vrel v sid p SS
       | None => vs !! c = None
       end.
Definition spec_ok (sp : spec) (st : state) : Prop := ∀ c, sp_mem sp !! c = cur_of st c.
Definition swf (cfg : config) (k : N) (st : state) : Prop :=
  ∀ sid SS, sessions st !! sid = Some SS → wf cfg k SS.

Definition others_step (K : msg → bool) (c : N) (outs : list delivery) (st st' : state) : Prop :=
  ∀ q, q ≠ c → cur_of st' q = cur_of st q ∧
    match cur_of st q with
    | Some (sid, pq) => ∀ SS v, sessions st !! sid = Some SS → vrel v sid pq SS →
        ∃ SS', sessions st' !! sid = Some SS' ∧ recv_oksK K v (msgs_to q outs) = true ∧
               vrel (recv_all v (msgs_to q outs)) sid pq SS'
    | None => True
    end.

Lemma recv_oks_K K v ms : recv_oks v ms = true → recv_oksK K v ms = true.
Proof.
  revert v. induction ms as [|m ms IH]; intros v; [done|]. unfold recv_oksK. simpl.
  intros [-> H]%andb_true_iff. rewrite orb_true_r. by apply IH.
Qed.

Lemma others_step_trans K c o1 o2 st st1 st2 :
  others_step K c o1 st st1 → others_step K c o2 st1 st2 → others_step K c (o1 ++ o2) st st2.
Proof.
  intros H1 H2 q Hq. destruct (H1 q Hq) as [E1 G1]. destruct (H2 q Hq) as [E2 G2].
  split; [congruence|]. rewrite E1 in G2. destruct (cur_of st q) as [[sid pq]|]; [|done].
  intros SS v HS V. destruct (G1 SS v HS V) as (S1&HS1&O1&V1). destruct (G2 S1 _ HS1 V1) as (S2&HS2&O2&V2).
  exists S2. split; [done|]. rewrite msgs_to_app, recv_oksK_app, recv_all_app, O1, O2. done.
Qed.

Lemma others_step_quiet K c outs st st' :
  sessions st' = sessions st → (∀ q, q ≠ c → cur_of st' q = cur_of st q) → (∀ d, d ∈ outs → fst d = c) →
  others_step K c outs st st'.
Proof.
  intros ES EC Ho q Hq. split; [by apply EC|]. destruct (cur_of st q) as [[sid pq]|]; [|done].
  intros SS v HS V. exists SS. rewrite ES. split; [done|].
  rewrite msgs_to_none; [done|]. intros Hin. apply elem_of_list_fmap in Hin as (d&->&Hd). apply Hq. by apply Ho.
Qed.
Lemma others_step_upd_conn K c f st : others_step K c [] st (upd_conn c f st).
Proof.
  apply others_step_quiet; [done| |by inversion 1]. intros q Hq. unfold cur_of, upd_conn. simpl.
  destruct (conns st !! c); [|done]. by rewrite lookup_insert_ne.
Qed.
Lemma others_step_refl K c st : others_step K c [] st st.
Proof. apply others_step_quiet; [done|done|by inversion 1]. Qed.

(* a member's participant id, from the membership invariant *)
Lemma member_parts st q sid pq SS :
  inv st → cur_of st q = Some (sid, pq) → sessions st !! sid = Some SS → s_parts SS !! pq = Some q.
Proof.
  intros I Hc HS. apply (inv_parts _ I sid (s_parts SS) pq q); [|done]. unfold parts_of. by rewrite HS.
Qed.
Lemma member_inj st sid SS : inv st → sessions st !! sid = Some SS → parts_injective SS.
Proof.
  intros I HS q1 q2 c0 H1 H2.
  assert (Hps : parts_of st sid = Some (s_parts SS)) by (unfold parts_of; by rewrite HS).
  apply (inv_parts _ I sid _ _ _ Hps) in H1, H2. congruence.
Qed.
Lemma nonmember_parts st q sid SS pq :
  inv st → sessions st !! sid = Some SS → (∀ p, cur_of st q ≠ Some (sid, p)) → s_parts SS !! pq ≠ Some q.
Proof.
  intros I HS Hn H. apply (Hn pq). apply (inv_parts _ I sid (s_parts SS) pq q); [|done]. unfold parts_of. by rewrite HS.
Qed.

(* ---------- a departure ---------- *)
Lemma leave_others cfg k st c :
  inv st → swf cfg k st → (∀ f, flag_on cfg f = false) →
  others_step (λ _, true) c (leave cfg st c).2 st (leave cfg st c).1.
Proof.
  intros I W Hnf.
  destruct (leave_sessions cfg st c I) as [(cn&sid&p&SS&Hc&Hcur&HS&Hp&E)|[Hcur E]].
  2:{ rewrite E, (proj2 (leave_not_joined _ _ _ Hcur)). apply others_step_refl. }
  assert (Hcur0 : cur_of st c = Some (sid, p)) by (unfold cur_of; by rewrite Hc).
  rewrite (leave_outputs cfg st c cn sid p SS Hc Hcur HS (Hnf _) (Hnf _)). cbv zeta.
  fold (leave_outs cfg c p (c_own cn) SS).
  pose proof (leave_projections cfg st c sid p I Hcur0) as [L1 _ _ _ _].
  pose proof (member_inj _ _ _ I HS) as Hi.
  intros q Hq. split; [rewrite L1; by rewrite decide_False|].
  destruct (cur_of st q) as [[sidq pq]|] eqn:Hcq; [|done]. intros SSq v HSq V. rewrite E.
  destruct (decide (sidq = sid)) as [->|Hne].
  - assert (SSq = SS) as -> by congruence.
    pose proof (member_parts _ _ _ _ _ I Hcq HS) as Hpq.
    destruct (leave_member cfg k c p (c_own cn) SS sid q pq v (W _ _ HS) Hi Hp Hpq Hq V) as [O1 V1].
    exists (left_session cfg c p (c_own cn) SS). split; [|by rewrite recv_oksK_all].
    rewrite decide_False; [by rewrite lookup_insert|].
    destruct (left_session_parts cfg c p (c_own cn) SS) as [EL _]. rewrite EL. intros He.
    assert (Hx : delete p (s_parts SS) !! pq = Some q).
    { rewrite lookup_delete_ne; [done|]. intros ->. congruence. }
    rewrite He in Hx. by rewrite lookup_empty in Hx.
  - exists SSq. split.
    { case_decide; [by rewrite lookup_delete_ne|by rewrite lookup_insert_ne]. }
    rewrite leave_nonmember; [done|done|done|].
    intros pq' Hpq'. exfalso. apply Hne.
    assert (cur_of st q = Some (sid, pq')).
    { apply (inv_parts _ I sid (s_parts SS) pq' q); [unfold parts_of; by rewrite HS|done]. }
    congruence.
Qed.

(* ---------- entering a registered session ---------- *)
Lemma enter_state cfg st c rid n ots SS :
  sessions st !! n = Some SS →
  sessions (enter cfg st c rid n ots).1.1 = <[n := entered SS c]> (sessions st) ∧
  (∀ q, q ≠ c → cur_of (enter cfg st c rid n ots).1.1 q = cur_of st q) ∧
  (is_Some (conns st !! c) → cur_of (enter cfg st c rid n ots).1.1 c = Some (n, u32_succ (s_pgen SS))) ∧
  (enter cfg st c rid n ots).2 = VOk.
Proof.
  intros HS. unfold enter. rewrite HS. simpl. split; [done|]. split; [|split; [|done]].
  - intros q Hq. unfold cur_of, upd_conn. simpl. destruct (conns st !! c); [|done]. by rewrite lookup_insert_ne.
  - intros [cn Hc]. unfold cur_of, upd_conn. simpl. rewrite Hc. by rewrite lookup_insert.
Qed.

Lemma enter_others cfg st c rid n ots SS :
  inv st → (∀ f, flag_on cfg f = false) → cur_of st c = None → sessions st !! n = Some SS →
  s_parts SS !! u32_succ (s_pgen SS) = None →
  others_step (λ _, true) c (enter cfg st c rid n ots).1.2 st (enter cfg st c rid n ots).1.1.
Proof.
  intros I Hnf Hcur HS Hfresh.
  rewrite (enter_outputs cfg st c rid n ots SS HS (Hnf _) (Hnf _)). cbv zeta. fold (enter_outs cfg c rid n ots SS).
  destruct (enter_state cfg st c rid n ots SS HS) as (ES&EC&_&_).
  assert (Hi : parts_injective (entered SS c)).
  { apply entered_injective; [by eapply member_inj|done|]. intros q. eapply nonmember_parts; [done|done|]. intros p. congruence. }
  intros q Hq. split; [by apply EC|].
  destruct (cur_of st q) as [[sidq pq]|] eqn:Hcq; [|done]. intros SSq v HSq V. rewrite ES.
  destruct (decide (sidq = n)) as [->|Hne].
  - assert (SSq = SS) as -> by congruence.
    pose proof (member_parts _ _ _ _ _ I Hcq HS) as Hpq.
    destruct (enter_member cfg c rid n ots SS n q pq v Hi Hfresh Hpq Hq V) as [O1 V1].
    exists (entered SS c). rewrite lookup_insert. split; [done|]. by rewrite recv_oksK_all.
  - exists SSq. rewrite lookup_insert_ne by done. split; [done|].
    rewrite enter_nonmember; [done|done|]. intros pq'. eapply nonmember_parts; [done|done|]. intros p. congruence.
Qed.

(* ---------- creating a session and entering it ---------- *)
Lemma enter_new_others cfg st c rid ots hint n st2 :
  inv st → nowrap st → (∀ f, flag_on cfg f = false) → create_session hint st = (n, st2) →
  others_step (λ _, true) c (enter cfg st2 c rid n ots).1.2 st (enter cfg st2 c rid n ots).1.1.
Proof.
  intros I Wn Hnf Hcr.
  destruct (create_session_proj _ _ _ _ I Wn Hcr) as (Hfresh&C1&_).
  destruct (create_sessions _ _ _ _ Hcr) as [E2 _].
  set (S0 := session0 (next_uuid st + 1)) in *.
  assert (HS2 : sessions st2 !! n = Some S0) by (rewrite E2; by rewrite lookup_insert).
  rewrite (enter_outputs cfg st2 c rid n ots S0 HS2 (Hnf _) (Hnf _)). cbv zeta. fold (enter_outs cfg c rid n ots S0).
  destruct (enter_state cfg st2 c rid n ots S0 HS2) as (ES&EC&_&_).
  intros q Hq. split; [rewrite EC by done; apply C1|].
  destruct (cur_of st q) as [[sidq pq]|] eqn:Hcq; [|done]. intros SSq v HSq V. rewrite ES, E2.
  assert (Hne : sidq ≠ n).
  { intros ->. unfold parts_of in Hfresh. by rewrite HSq in Hfresh. }
  exists SSq. rewrite !lookup_insert_ne by done. split; [done|].
  rewrite enter_nonmember; [done|done|]. intros pq'. unfold S0. simpl. by rewrite lookup_empty.
Qed.

(* ---------- a session-local request ---------- *)
Lemma sstep_others cfg k st c cn sid p SS r :
  inv st → swf cfg k st → k + 1 < two32 → (∀ f, flag_on cfg f = false) →
  conns st !! c = Some cn → c_cur cn = Some (sid, p) → sessions st !! sid = Some SS → session_local r = true →
  let res := apply_sstep st c sid (sstep cfg c p (c_own cn) SS r) in
  others_step core_msg c res.1.2 st res.1.1.
Proof.
  intros I W Hk Hnf Hc Hcur HS Hl res. unfold res, apply_sstep. cbn [fst snd].
  destruct (inv_member st c cn sid p SS I Hc Hcur HS) as [Hp Hi].
  intros q Hq. split.
  { unfold cur_of, upd_conn. simpl. rewrite Hc. by rewrite lookup_insert_ne. }
  destruct (cur_of st q) as [[sidq pq]|] eqn:Hcq; [|done]. intros SSq v HSq V. simpl.
  destruct (decide (sidq = sid)) as [->|Hne].
  - assert (SSq = SS) as -> by congruence.
    pose proof (member_parts _ _ _ _ _ I Hcq HS) as Hpq.
    destruct (sstep_member cfg k c p (c_own cn) SS r sid q pq v (W _ _ HS) Hk Hi Hp Hnf Hl Hpq Hq V) as [O1 V1].
    eexists. rewrite lookup_insert. split; [done|]. done.
  - exists SSq. rewrite lookup_insert_ne by done. split; [done|].
    rewrite sstep_nonmember; [done|done|]. intros pq'. eapply nonmember_parts; [done|done|]. intros p'. congruence.
Qed.

(* ================= 8. one event of the predicate against one step of the model ================= *)
Lemma spec_step_mem_other sp e q : Some q ≠ actor e → sp_mem (spec_step sp e) !! q = sp_mem sp !! q.
Proof.
  unfold spec_step, actor. intros Hq.
  assert (Hd : ∀ c, Some q ≠ Some c → sp_mem (depart sp c) !! q = sp_mem sp !! q).
  { intros c Hc. rewrite depart_mem. rewrite decide_False; [done|]. intros ->. done. }
  destruct (ev_op e) as [c|c r|c h|s|c|]; try done.
  - destruct (ev_verdict e); try done; by apply Hd.
  - destruct (ev_verdict e); try (by apply Hd).
    all: destruct (ev_req e) as [r|]; [|done].
    all: destruct r; try (destruct (sp_mem sp !! c) as [[sid p]|]; [by rewrite spec_request_mem|done]).
    all: destruct (join_resp c (ev_outs e)) as [[[[? ?] ?] ?]|];
      [cbv beta iota; rewrite enter_spec_mem, decide_False by (intros ->; done); by apply Hd|].
    all: destruct (has_error c E_NOT_FOUND (ev_outs e)); [by apply Hd|done].
  - by apply Hd.
Qed.

(* violations of the delivery phase that concern message kinds outside [K] *)
Definition outside (K : msg → bool) (i : nat) (x : violation) : Prop :=
  ∃ q m, K m = false ∧ x = viol i 106 [zn q; hd 0%Z (enc_msg m)].

Lemma recv_fold_violsK K act i outs (vs : gmap N view) l :
  (∀ q v, Some q ≠ act → vs !! q = Some v → recv_oksK K v (msgs_to q outs) = true) →
  ∃ extra, (recv_fold act i outs (vs, l)).2 = l ++ extra ∧ Forall (outside K i) extra.
Proof.
  revert vs l. induction outs as [|[c m] outs IH]; intros vs l Hok.
  { exists []. by rewrite app_nil_r. }
  unfold recv_fold. cbn [fold_left]. fold (recv_fold act i outs (recv_one act i (vs, l) (c, m))).
  unfold recv_one. cbn [fst snd].
  destruct (bool_decide (Some c = act)) eqn:Ea.
  { apply IH. intros q v Hq Hv. specialize (Hok q v Hq Hv). apply bool_decide_eq_true in Ea.
    rewrite msgs_to_cons_ne in Hok; [done|]. intros ->. done. }
  apply bool_decide_eq_false in Ea.
  destruct (vs !! c) as [v|] eqn:Ec.
  - destruct (view_recv v m) as [ok v'] eqn:Er.
    pose proof (Hok c v Ea Ec) as H0. rewrite msgs_to_cons_eq in H0. unfold recv_oksK in H0. fold recv_oksK in H0.
    rewrite Er in H0. cbn [fst snd] in H0. apply andb_true_iff in H0 as [H0 H1].
    destruct (IH (<[c := v']> vs) (l ++ okv i ok 106 [zn c; hd 0%Z (enc_msg m)])) as (extra&E&F).
    { intros q w Hq. destruct (decide (c = q)) as [->|Hne].
      + rewrite lookup_insert. by intros [= <-].
      + rewrite lookup_insert_ne by done. intros Hw. specialize (Hok q w Hq Hw). by rewrite msgs_to_cons_ne in Hok. }
    exists (okv i ok 106 [zn c; hd 0%Z (enc_msg m)] ++ extra). rewrite E, app_assoc. split; [done|].
    apply Forall_app. split; [|done]. destruct ok; [constructor|]. simpl in H0. rewrite orb_false_r in H0.
    apply negb_true_iff in H0. constructor; [|constructor]. by exists c, m.
  - apply IH. intros q w Hq Hw. specialize (Hok q w Hq Hw).
    destruct (decide (c = q)) as [->|Hne]; [congruence|]. by rewrite msgs_to_cons_ne in Hok.
Qed.

Lemma event_views cfg K i sp vs e st st1 :
  let sp' := spec_step sp e in
  spec_ok sp st → views_ok vs st →
  (∀ q, Some q ≠ actor e → cur_of st1 q = cur_of st q ∧
     match cur_of st q with
     | Some (sid, pq) => ∀ SS v, sessions st !! sid = Some SS → vrel v sid pq SS →
         ∃ SS', sessions st1 !! sid = Some SS' ∧ recv_oksK K v (msgs_to q (ev_outs e)) = true ∧
                vrel (recv_all v (msgs_to q (ev_outs e))) sid pq SS'
     | None => True
     end) →
  (∀ c, actor e = Some c → sp_mem sp' !! c = cur_of st1 c ∧
     match cur_of st1 c with
     | Some (sid, p) => ∃ v SS, own_view sp sp' e c (vs !! c) = Some v ∧ sessions st1 !! sid = Some SS ∧ vrel v sid p SS
     | None => True
     end) →
  spec_ok sp' st1 ∧ views_ok (P_C01_event cfg i sp sp' vs e).1 st1 ∧
  ∃ extra, (recv_fold (actor e) i (ev_outs e) (vs, [])).2 = extra ∧ Forall (outside K i) extra.
Proof.
  intros sp' Hsp Hvs Hoth Hown. split; [|split].
  - intros c. destruct (decide (Some c = actor e)) as [Ha|Ha].
    + by apply Hown.
    + unfold sp'. rewrite spec_step_mem_other by done. rewrite Hsp. symmetry. by apply Hoth.
  - intros c. rewrite P_C01_event_eq. unfold P_C01_event'.
    destruct (recv_fold (actor e) i (ev_outs e) (vs, [])) as [vs1 viol1] eqn:E1.
    set (vs2 := own_step sp sp' e vs1).
    pose proof (dirty_step_lookup i sp e vs2 c) as Hd.
    destruct (dirty_step i sp e vs2) as [vs3 viol3]. cbn [fst] in *.
    assert (H1 : vs1 !! c = if bool_decide (Some c = actor e) then vs !! c
                           else (λ v, recv_all v (msgs_to c (ev_outs e))) <$> vs !! c).
    { pose proof (recv_fold_lookup (actor e) i (ev_outs e) vs [] c) as H. by rewrite E1 in H. }
    assert (H2 : vs2 !! c = match actor e with
                            | Some a => if decide (c = a) then own_view sp sp' e a (vs1 !! a) else vs1 !! c
                            | None => vs1 !! c end) by apply own_step_lookup.
    destruct (decide (Some c = actor e)) as [Ha|Ha].
    + (* the actor *)
      destruct (Hown c (eq_sym Ha)) as [Hm Ho]. rewrite <- Ha in H2. rewrite decide_True in H2 by done.
      rewrite H1, bool_decide_eq_true_2 in H2 by done.
      destruct (cur_of st1 c) as [[sid p]|] eqn:Hc.
      * destruct Ho as (v&SS&Hv&HS&V). rewrite Hv in H2. rewrite H2 in Hd. unfold opt_rel in Hd.
        destruct (vs3 !! c) as [w|]; [|done]. exists w, SS. split; [done|]. split; [done|]. by eapply vrel_dirty_only.
      * assert (Hn : own_view sp sp' e c (vs !! c) = None) by (unfold own_view; by rewrite Hm).
        rewrite Hn in H2. rewrite H2 in Hd. unfold opt_rel in Hd. by destruct (vs3 !! c).
    + (* everybody else *)
      destruct (Hoth c Ha) as [Ec Ho]. rewrite Ec. rewrite bool_decide_eq_false_2 in H1 by done.
      assert (H2' : vs2 !! c = vs1 !! c).
      { rewrite H2. destruct (actor e) as [a|]; [|done]. rewrite decide_False; [done|]. intros ->. done. }
      rewrite H2', H1 in Hd. specialize (Hvs c).
      destruct (cur_of st c) as [[sid pq]|].
      * destruct Hvs as (v&SS&Hv&HS&V). destruct (Ho SS v HS V) as (SS'&HS'&_&V').
        rewrite Hv in Hd. simpl in Hd. unfold opt_rel in Hd. destruct (vs3 !! c) as [w|]; [|done].
        exists w, SS'. split; [done|]. split; [done|]. by eapply vrel_dirty_only.
      * rewrite Hvs in Hd. simpl in Hd. unfold opt_rel in Hd. by destruct (vs3 !! c).
  - destruct (recv_fold_violsK K (actor e) i (ev_outs e) vs []) as (extra&E&F).
    + intros q v Hq Hv. destruct (Hoth q Hq) as [_ Ho]. specialize (Hvs q).
      destruct (cur_of st q) as [[sid pq]|]; [|congruence].
      destruct Hvs as (v'&SS&Hv'&HS&V). assert (v' = v) as -> by congruence.
      by destruct (Ho SS v HS V) as (_&_&O&_).
    + exists extra. by rewrite E.
Qed.

(* AuthProofs.v — proofs about the acceptance decision of coq/Auth.v (property C15).
   Every theorem of the section [Spec] quantifies over the four trusted functions
   (base64url decoding, header reader, claims reader, HMAC), over every secret, every pair of clock
   readings and every request. *)
From Coq Require Import String Ascii ZArith List Bool Lia.
From hagall Require Import Auth.
Import ListNotations.
Open Scope string_scope.

(* ------------------------------------------------------------------ strings *)

Lemma is_empty_true : forall s, is_empty s = true <-> s = "".
Proof. destruct s; simpl; split; congruence. Qed.

Lemma is_empty_false : forall s, is_empty s = false <-> s <> "".
Proof. destruct s; simpl; split; congruence. Qed.

Lemma strip_prefix_spec : forall p s t, strip_prefix p s = Some t <-> s = p ++ t.
Proof.
  induction p as [|a p IH]; intros s t; simpl.
  - split; congruence.
  - destruct s as [|b s]; [split; congruence|].
    destruct (Ascii.eqb a b) eqn:E.
    + apply Ascii.eqb_eq in E; subst b. rewrite IH. split; intros H; [subst; reflexivity|congruence].
    + apply Ascii.eqb_neq in E. split; [congruence|intros H; inversion H; congruence].
Qed.

Lemma cut_dot_some : forall s a b, cut_dot s = Some (a, b) -> s = a ++ "." ++ b /\ has_dot a = false.
Proof.
  induction s as [|c s IH]; intros a b H; simpl in H; [discriminate|].
  destruct (Ascii.eqb c dot) eqn:E.
  - inversion H; subst. apply Ascii.eqb_eq in E; subst c. split; reflexivity.
  - destruct (cut_dot s) as [[a' b']|] eqn:C; [|discriminate].
    inversion H; subst. destruct (IH a' b eq_refl) as [-> Hd]. split; [reflexivity|].
    simpl. rewrite E. exact Hd.
Qed.

Lemma cut_dot_none : forall s, cut_dot s = None <-> has_dot s = false.
Proof.
  induction s as [|c s IH]; simpl; [split; reflexivity|].
  destruct (Ascii.eqb c dot); [split; discriminate|].
  destruct (cut_dot s) as [[a b]|]; split; intros H; try discriminate; try reflexivity.
  - apply IH in H. discriminate.
  - apply IH. reflexivity.
Qed.

(* three segments: exactly two dots *)
Lemma split3_spec : forall tok h p s,
  split3 tok = Some (h, p, s) ->
  tok = h ++ "." ++ p ++ "." ++ s /\ has_dot h = false /\ has_dot p = false /\ has_dot s = false.
Proof.
  intros tok h p s H. unfold split3 in H.
  destruct (cut_dot tok) as [[h' r]|] eqn:C1; [|discriminate].
  destruct (cut_dot r) as [[p' r2]|] eqn:C2; [|discriminate].
  destruct (cut_dot r2) as [[x y]|] eqn:C3; [discriminate|].
  inversion H; subst.
  apply cut_dot_some in C1. apply cut_dot_some in C2. apply cut_dot_none in C3.
  destruct C1 as [-> H1], C2 as [-> H2]. auto.
Qed.

Lemma signing_method_hmac : forall alg hh,
  signing_method alg = Some (MHmac hh) ->
  (alg = "HS256" /\ hh = SHA256) \/ (alg = "HS384" /\ hh = SHA384) \/ (alg = "HS512" /\ hh = SHA512).
Proof.
  intros alg hh. unfold signing_method.
  repeat match goal with
  | |- context [String.eqb alg ?k] =>
      let E := fresh "E" in destruct (String.eqb alg k) eqn:E;
      [apply String.eqb_eq in E; subst alg; intros H; inversion H; subst; auto 6; fail|]
  end.
  discriminate.
Qed.

(* ------------------------------------------------------------------ token choice *)

Lemma token_of_header : forall r, token_from_header r <> "" -> token_of r = token_from_header r.
Proof.
  intros r H. unfold token_of. apply is_empty_false in H. rewrite H. reflexivity.
Qed.

Lemma token_of_query : forall r,
  token_from_header r = "" -> val (query_token r) <> "" -> token_of r = val (query_token r).
Proof.
  intros r H Q. unfold token_of. rewrite H. simpl. apply is_empty_false in Q. rewrite Q. reflexivity.
Qed.

Lemma token_of_cookie : forall r,
  token_from_header r = "" -> val (query_token r) = "" -> token_of r = val (cookie_token r).
Proof.
  intros r H Q. unfold token_of. rewrite H, Q. reflexivity.
Qed.

(* the header counts only with the exact prefix "Bearer " *)
Lemma token_from_header_spec : forall r t,
  t <> "" -> (token_from_header r = t <-> val (authorization r) = "Bearer " ++ t).
Proof.
  intros r t Ht. unfold token_from_header.
  destruct (strip_prefix bearer (val (authorization r))) as [u|] eqn:E.
  - apply strip_prefix_spec in E. rewrite E. unfold bearer. split; intros H.
    + subst; reflexivity.
    + apply (f_equal (strip_prefix "Bearer ")) in H.
      assert (A : forall x, strip_prefix "Bearer " ("Bearer " ++ x) = Some x) by (intros; apply strip_prefix_spec; reflexivity).
      rewrite !A in H. congruence.
  - split; intros H; [congruence|].
    assert (A : strip_prefix bearer (val (authorization r)) = Some t) by (apply strip_prefix_spec; exact H).
    congruence.
Qed.

(* ------------------------------------------------------------------ the decision *)

Section Spec.
  Variable b64dec : string -> option string.
  Variable header_alg : string -> option (option string).
  Variable claims_of : string -> option claims.
  Variable mac : hash -> string -> string -> string.

  Notation parse := (parse_with_claims b64dec header_alg claims_of mac).
  Notation vtoken := (verify_access_token b64dec header_alg claims_of mac).
  Notation vauth := (verify_user_auth b64dec header_alg claims_of mac).
  Notation accept2 := (accept2 b64dec header_alg claims_of mac).
  Notation accept1 := (accept1 b64dec header_alg claims_of mac).

  (* not expired, not before its time, and issued at most [leeway] seconds in the future *)
  Definition time_ok (now1 now2 : Z) (c : claims) : Prop :=
    (forall e, c_exp c = Some e -> now1 < e)%Z /\
    (forall n, c_nbf c = Some n -> n <= now1)%Z /\
    (forall i, c_iat c = Some i -> i <= now1 \/ i - now2 < 10)%Z.

  (* what a token must be to pass under [secret] *)
  Definition valid_token (secret : string) (now1 now2 : Z) (tok : string) : Prop :=
    exists h p s hb alg hh pb c sg,
      split3 tok = Some (h, p, s) /\
      b64dec h = Some hb /\ header_alg hb = Some (Some alg) /\
      signing_method alg = Some (MHmac hh) /\
      b64dec s = Some sg /\ sg = mac hh secret (h ++ "." ++ p) /\
      b64dec p = Some pb /\ claims_of pb = Some c /\
      time_ok now1 now2 c.

  Lemma claim_flags_time_ok : forall now1 now2 c,
    time_ok now1 now2 c <->
    (no_flag (claim_flags now1 c) = true \/
     (only_iat (claim_flags now1 c) = true /\ exists i, c_iat c = Some i /\ (i - now2 <? leeway)%Z = true)).
  Proof.
    intros now1 now2 [e n i]. unfold time_ok, no_flag, only_iat, claim_flags, leeway. simpl.
    split.
    - intros (He & Hn & Hi).
      assert (Ee : match e with Some e0 => negb (now1 <? e0)%Z | None => false end = false).
      { destruct e as [e0|]; [|reflexivity]. specialize (He _ eq_refl). apply negb_false_iff, Z.ltb_lt. exact He. }
      assert (En : match n with Some n0 => negb (n0 <=? now1)%Z | None => false end = false).
      { destruct n as [n0|]; [|reflexivity]. specialize (Hn _ eq_refl). apply negb_false_iff, Z.leb_le. exact Hn. }
      rewrite Ee, En. simpl.
      destruct i as [i0|]; [|left; reflexivity].
      destruct (i0 <=? now1)%Z eqn:L; simpl; [left; reflexivity|].
      right. split; [reflexivity|]. exists i0. split; [reflexivity|].
      apply Z.ltb_lt. apply Z.leb_gt in L. destruct (Hi _ eq_refl); lia.
    - intros H.
      assert (Ee : match e with Some e0 => negb (now1 <? e0)%Z | None => false end = false).
      { destruct H as [H|[H _]]; destruct (match e with Some e0 => negb (now1 <? e0)%Z | None => false end); simpl in H; congruence. }
      assert (En : match n with Some n0 => negb (n0 <=? now1)%Z | None => false end = false).
      { destruct H as [H|[H _]];
        destruct (match e with Some e0 => negb (now1 <? e0)%Z | None => false end);
        destruct (match i with Some i0 => negb (i0 <=? now1)%Z | None => false end);
        destruct (match n with Some n0 => negb (n0 <=? now1)%Z | None => false end); simpl in H; congruence. }
      split; [|split].
      + intros e0 ->. apply negb_false_iff, Z.ltb_lt in Ee. exact Ee.
      + intros n0 ->. apply negb_false_iff, Z.leb_le in En. exact En.
      + intros i0 ->. rewrite Ee, En in H. simpl in H.
        destruct (i0 <=? now1)%Z eqn:L; [left; apply Z.leb_le; exact L|].
        right. destruct H as [H|[_ (i1 & Hi & Hl)]]; [simpl in H; discriminate|].
        inversion Hi; subst. apply Z.ltb_lt in Hl. exact Hl.
  Qed.

  (* the verification of one token string, fully characterised *)
  Theorem verify_access_token_iff : forall secret now1 now2 tok,
    vtoken secret now1 now2 tok = true <-> valid_token secret now1 now2 tok.
  Proof.
    intros secret now1 now2 tok. unfold verify_access_token, parse_with_claims, valid_token.
    split.
    - destruct (split3 tok) as [[[h p] s]|] eqn:S3; [|discriminate].
      destruct (b64dec h) as [hb|] eqn:Bh; [|discriminate].
      destruct (header_alg hb) as [[alg|]|] eqn:Ha; try discriminate.
      2:{ destruct (b64dec p) as [pb|]; [|discriminate]. destruct (claims_of pb); discriminate. }
      destruct (b64dec p) as [pb|] eqn:Bp; [|discriminate].
      destruct (claims_of pb) as [c|] eqn:Cc; [|discriminate].
      destruct (signing_method alg) as [m|] eqn:Sm; [|discriminate].
      destruct (verify_sig b64dec mac m secret h p s) eqn:Vs; [|discriminate].
      unfold verify_sig in Vs. destruct m as [hh| |]; try discriminate.
      destruct (b64dec s) as [sg|] eqn:Bs; [|discriminate].
      apply String.eqb_eq in Vs. unfold signing_input in Vs.
      intros H.
      exists h, p, s, hb, alg, hh, pb, c, sg. repeat split; auto.
      all: assert (T : time_ok now1 now2 c);
        [ apply claim_flags_time_ok;
          destruct (no_flag (claim_flags now1 c)) eqn:NF; [left; reflexivity|];
          right; destruct (only_iat (claim_flags now1 c)); [|discriminate];
          split; [reflexivity|]; destruct (c_iat c) as [i|]; [|discriminate]; exists i; auto
        | destruct T as (T1 & T2 & T3); auto ].
    - intros (h & p & s & hb & alg & hh & pb & c & sg & S3 & Bh & Ha & Sm & Bs & Hsg & Bp & Cc & T).
      rewrite S3, Bh, Ha, Bp, Cc, Sm. unfold verify_sig, signing_input. rewrite Bs.
      subst sg. rewrite String.eqb_refl.
      apply claim_flags_time_ok in T. destruct T as [T|[T (i & Hi & Hl)]].
      + rewrite T. reflexivity.
      + assert (NF : no_flag (claim_flags now1 c) = false).
        { unfold no_flag, only_iat in *. destruct (f_expired _), (f_iat _), (f_nbf _); simpl in *; congruence. }
        rewrite NF, T, Hi. exact Hl.
  Qed.

  (* ---- C15: acceptance, sound and complete *)

  Theorem accept2_iff : forall secret now1 now2 req,
    accept2 secret now1 now2 req = true <->
    secret <> "" /\ valid_token secret now1 now2 (token_of req).
  Proof.
    intros. unfold Auth.accept2, verify_user_auth.
    destruct (is_empty secret) eqn:E.
    - apply is_empty_true in E. split; [discriminate|intros [H _]; contradiction].
    - apply is_empty_false in E. rewrite verify_access_token_iff. tauto.
  Qed.

  Theorem accept_sound : forall secret now1 now2 req,
    accept2 secret now1 now2 req = true ->
    secret <> "" /\ valid_token secret now1 now2 (token_of req).
  Proof. intros. apply accept2_iff. assumption. Qed.

  Theorem empty_secret_rejects_all : forall now1 now2 req, accept2 "" now1 now2 req = false.
  Proof. reflexivity. Qed.

  (* the empty token (no carrier at all) is never accepted *)
  Theorem no_token_rejected : forall secret now1 now2 req,
    token_of req = "" -> accept2 secret now1 now2 req = false.
  Proof.
    intros. unfold Auth.accept2, verify_user_auth, verify_access_token, parse_with_claims.
    rewrite H. simpl. destruct (is_empty secret); reflexivity.
  Qed.

  (* rotation: a request accepted under two secrets carries ONE signature that is the MAC under both *)
  Theorem rotation : forall s1 s2 n1 n2 n1' n2' req,
    accept2 s1 n1 n2 req = true -> accept2 s2 n1' n2' req = true ->
    exists h p s hh sg,
      split3 (token_of req) = Some (h, p, s) /\ b64dec s = Some sg /\
      sg = mac hh s1 (h ++ "." ++ p) /\ sg = mac hh s2 (h ++ "." ++ p).
  Proof.
    intros s1 s2 n1 n2 n1' n2' req A1 A2.
    apply accept2_iff in A1. apply accept2_iff in A2.
    destruct A1 as [_ (h & p & s & hb & alg & hh & pb & c & sg & S3 & Bh & Ha & Sm & Bs & Hsg & _)].
    destruct A2 as [_ (h' & p' & s' & hb' & alg' & hh' & pb' & c' & sg' & S3' & Bh' & Ha' & Sm' & Bs' & Hsg' & _)].
    rewrite S3 in S3'. inversion S3'; subst h' p' s'.
    rewrite Bh in Bh'. inversion Bh'; subst hb'. rewrite Ha in Ha'. inversion Ha'; subst alg'.
    rewrite Sm in Sm'. inversion Sm'; subst hh'. rewrite Bs in Bs'. inversion Bs'; subst sg'.
    exists h, p, s, hh, sg. auto.
  Qed.

  (* hence, if the MAC separates the two keys on every message, nothing survives the rotation *)
  Corollary rotation_separates : forall s1 s2 n1 n2 n1' n2' req,
    (forall hh m, mac hh s1 m <> mac hh s2 m) ->
    accept2 s1 n1 n2 req = true -> accept2 s2 n1' n2' req = false.
  Proof.
    intros s1 s2 n1 n2 n1' n2' req Sep A1.
    destruct (Auth.accept2 b64dec header_alg claims_of mac s2 n1' n2' req) eqn:A2; [|reflexivity].
    destruct (rotation _ _ _ _ _ _ _ A1 A2) as (h & p & s & hh & sg & _ & _ & E1 & E2).
    exfalso. apply (Sep hh (h ++ "." ++ p)). congruence.
  Qed.

  (* precedence: a non-empty header token decides alone; query and cookie are not consulted *)
  Theorem precedence_header : forall secret now1 now2 r q c,
    token_from_header r <> "" ->
    accept2 secret now1 now2 r = accept2 secret now1 now2 (mkRequest (authorization r) q c).
  Proof.
    intros. unfold Auth.accept2.
    rewrite (token_of_header r H).
    rewrite (token_of_header (mkRequest (authorization r) q c)); [reflexivity|exact H].
  Qed.

  Theorem precedence_query : forall secret now1 now2 r c,
    token_from_header r = "" -> val (query_token r) <> "" ->
    accept2 secret now1 now2 r = accept2 secret now1 now2 (mkRequest (authorization r) (query_token r) c).
  Proof.
    intros. unfold Auth.accept2.
    rewrite (token_of_query r H H0).
    rewrite (token_of_query (mkRequest (authorization r) (query_token r) c)); auto.
  Qed.

  (* in particular: an invalid token in the header is not rescued by whatever travels elsewhere *)
  Corollary bad_header_not_rescued : forall secret now1 now2 a q c,
    token_from_header (mkRequest a None None) <> "" ->
    accept2 secret now1 now2 (mkRequest a None None) = false ->
    accept2 secret now1 now2 (mkRequest a q c) = false.
  Proof.
    intros secret now1 now2 a q c H R.
    rewrite <- R. symmetry. apply (precedence_header secret now1 now2 (mkRequest a None None) q c H).
  Qed.

  (* one clock reading *)
  Corollary accept_iff : forall secret now req,
    accept1 secret now req = true <-> secret <> "" /\ valid_token secret now now (token_of req).
  Proof. intros. apply accept2_iff. Qed.

End Spec.

(* ------------------------------------------------------------------ the wrappers *)

Definition status_eqb (a b : status) : bool :=
  match a, b with
  | St101, St101 | St2xx, St2xx | St401, St401 | St403, St403 | StOther, StOther => true
  | _, _ => false
  end.

Lemma status_eqb_eq : forall a b, status_eqb a b = true -> a = b.
Proof. destruct a, b; simpl; congruence. Qed.

Definition res_eqb (a : option (status * bool)) (b : status * bool) : bool :=
  match a with
  | Some (s, e) => status_eqb s (fst b) && Bool.eqb e (snd b)
  | None => false
  end.

Lemma res_eqb_eq : forall a b, res_eqb a b = true -> a = Some b.
Proof.
  intros [[s e]|] [s' e']; simpl; [|discriminate].
  intros H. apply andb_true_iff in H. destruct H as [H1 H2].
  apply status_eqb_eq in H1. apply Bool.eqb_prop in H2. congruence.
Qed.

(* the endpoint as served: handshake callback + x/net/websocket, resp. the middleware alone *)
Definition ws_endpoint (body : list stmt) (ok : bool) : option (status * bool) :=
  option_map ws_serve (run_handshake_body ok body).
Definition mw_endpoint (body : list stmt) (ok : bool) : option (status * bool) :=
  run_middleware_body ok body.

(* reflection: the two runs of the interpreter decide the shape for every verification result *)
Lemma ws_shape_by_check : forall body,
  res_eqb (ws_endpoint body true) (ws_model true) = true ->
  res_eqb (ws_endpoint body false) (ws_model false) = true ->
  forall ok, ws_endpoint body ok = Some (ws_model ok).
Proof. intros body H1 H2 ok. destruct ok; apply res_eqb_eq; assumption. Qed.

Lemma mw_shape_by_check : forall body,
  res_eqb (mw_endpoint body true) (mw_model true) = true ->
  res_eqb (mw_endpoint body false) (mw_model false) = true ->
  forall ok, mw_endpoint body ok = Some (mw_model ok).
Proof. intros body H1 H2 ok. destruct ok; apply res_eqb_eq; assumption. Qed.

Section Wrappers.
  Variable b64dec : string -> option string.
  Variable header_alg : string -> option (option string).
  Variable claims_of : string -> option claims.
  Variable mac : hash -> string -> string -> string.
  Notation accept2 := (accept2 b64dec header_alg claims_of mac).

  Variables wsb mwb : list stmt.
  Hypothesis ws_shape : forall ok, ws_endpoint wsb ok = Some (ws_model ok).
  Hypothesis mw_shape : forall ok, mw_endpoint mwb ok = Some (mw_model ok).

  (* the protected handler is entered exactly when the request is accepted, behind both wrappers *)
  Theorem handler_iff : forall secret now1 now2 req,
    exists st1 e1 st2 e2,
      ws_endpoint wsb (accept2 secret now1 now2 req) = Some (st1, e1) /\
      mw_endpoint mwb (accept2 secret now1 now2 req) = Some (st2, e2) /\
      (e1 = true <-> accept2 secret now1 now2 req = true) /\
      (e2 = true <-> accept2 secret now1 now2 req = true).
  Proof.
    intros. rewrite ws_shape, mw_shape.
    destruct (accept2 secret now1 now2 req); simpl;
      do 4 eexists; repeat split; auto.
  Qed.

  (* a rejected request: 403 resp. 401, the handler is not entered; the decision itself is a
     function of (secret, clock, request) and writes nothing *)
  Theorem rejected_no_side_effect : forall secret now1 now2 req,
    accept2 secret now1 now2 req = false ->
    ws_endpoint wsb (accept2 secret now1 now2 req) = Some (St403, false) /\
    mw_endpoint mwb (accept2 secret now1 now2 req) = Some (St401, false).
  Proof.
    intros. rewrite ws_shape, mw_shape, H. split; reflexivity.
  Qed.

  Theorem accepted_enters : forall secret now1 now2 req,
    accept2 secret now1 now2 req = true ->
    ws_endpoint wsb (accept2 secret now1 now2 req) = Some (St101, true) /\
    mw_endpoint mwb (accept2 secret now1 now2 req) = Some (St2xx, true).
  Proof.
    intros. rewrite ws_shape, mw_shape, H. split; reflexivity.
  Qed.
End Wrappers.

(* ------------------------------------------------------------------ mounts *)

Lemma mounts_ok_spec : forall reg ms, mounts_ok reg ms = true ->
  reg <> "" /\
  (exists m, In m ms /\ m_relay m = true) /\ (exists m, In m ms /\ m_smoke m = true) /\
  forall m, In m ms ->
    (m_relay m = true -> m_kind m = MountWsAuth /\ m_client m = reg) /\
    (m_smoke m = true -> m_kind m = MountMwAuth /\ m_client m = reg).
Proof.
  intros reg ms H. unfold mounts_ok in H.
  apply andb_true_iff in H. destruct H as [H Hs].
  apply andb_true_iff in H. destruct H as [Hall Hr].
  apply existsb_exists in Hr. apply existsb_exists in Hs.
  rewrite forallb_forall in Hall.
  assert (P : forall m, In m ms ->
    (m_relay m = true -> m_kind m = MountWsAuth /\ m_client m = reg /\ reg <> "") /\
    (m_smoke m = true -> m_kind m = MountMwAuth /\ m_client m = reg /\ reg <> "")).
  { intros m Hm. specialize (Hall m Hm).
    apply andb_true_iff in Hall. destruct Hall as [Hall H3].
    apply andb_true_iff in Hall. destruct Hall as [H1 H2].
    unfold auth_wrapped in H3.
    split; intros R.
    - rewrite R in H1. simpl in H1. destruct (m_kind m); try discriminate.
      simpl in H3. apply andb_true_iff in H3. destruct H3 as [Hc He].
      apply String.eqb_eq in Hc. apply negb_true_iff, is_empty_false in He. auto.
    - rewrite R in H2. simpl in H2. destruct (m_kind m); try discriminate.
      simpl in H3. apply andb_true_iff in H3. destruct H3 as [Hc He].
      apply String.eqb_eq in Hc. apply negb_true_iff, is_empty_false in He. auto. }
  destruct Hr as (mr & Hmr & Rr).
  split; [destruct (P mr Hmr) as [A _]; destruct (A Rr) as (_ & _ & N); exact N|].
  split; [exists mr; auto|]. split; [destruct Hs as (m & Hm & S); exists m; auto|].
  intros m Hm. destruct (P m Hm) as [A B]. split; intros R; [destruct (A R) as (? & ? & _)|destruct (B R) as (? & ? & _)]; auto.
Qed.

(* ------------------------------------------------------------------ a toy instance for the Examples *)

(* identity "decoding", header bytes = the alg name, payload "e<d>" = exp digit seconds, MAC = bits:key|msg with dots replaced *)
Definition toy_b64 (s : string) : option string := Some s.
Definition toy_header (s : string) : option (option string) :=
  if String.eqb s "noalg" then Some None else if String.eqb s "{" then None else Some (Some s).
Definition toy_claims (s : string) : option claims :=
  if String.eqb s "exp5" then Some (mkClaims (Some 5%Z) None None)
  else if String.eqb s "iat20" then Some (mkClaims None None (Some 20%Z))
  else if String.eqb s "{" then None
  else Some (mkClaims None None None).
Fixpoint undot (s : string) : string :=
  match s with
  | EmptyString => EmptyString
  | String c s' => String (if Ascii.eqb c dot then "_"%char else c) (undot s')
  end.
Definition toy_mac (h : hash) (k m : string) : string :=
  (match h with SHA256 => "256:" | SHA384 => "384:" | SHA512 => "512:" end) ++ k ++ "|" ++ undot m.
Definition toy_accept2 := Auth.accept2 toy_b64 toy_header toy_claims toy_mac.

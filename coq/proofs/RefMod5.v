(* proofs/RefMod5.v — snapshots and newcomer states against the spec in general (every selection of Preds.snapsel),
   and two more consumers:
   P_C05 completely (the snapshot clauses 510-531 that proofs/Refine4.v left open), and
   P_C06 ("a departure removes exactly ..."): refuted as stated (clause 601 reads a client's EntityDelete relay
   with origin timestamp 0 as a departure's), proved silent on every trace without such a request. *)
From stdpp Require Import relations sorting.
From hagall Require Import Model Spec Obs Preds.
From hagall.proofs Require Import BaseLemmas Relay Inv Session Local Trans WF Mono Reach PC02 PC06 PC07 Own
  Refine Refine2 Refine3 Refine4 Refine5 RefComp RefComp2 RefComp3 RefMod RefMod2 RefMod3 RefMod4.
From Coq Require Import Lia.

(* ================= sorting by a key that is injective on the elements present ================= *)
Section sort_on.
  Context {A : Type} (key : A → list Z).
  Lemma sorted_perm_eq_on l1 l2 :
    (∀ x y, x ∈ l1 → y ∈ l1 → key x = key y → x = y) →
    Sorted (kle key) l1 → Sorted (kle key) l2 → l1 ≡ₚ l2 → l1 = l2.
  Proof.
    intros Hinj H1 H2. apply Sorted_StronglySorted in H1; [|apply kle_trans]. apply Sorted_StronglySorted in H2; [|apply kle_trans].
    revert l2 H2. induction H1 as [|x l1 Hl1 IH Hx]; intros l2 H2 Hp.
    - by apply Permutation_nil in Hp.
    - destruct H2 as [|y l2 Hl2 Hy]; [symmetry in Hp; by apply Permutation_nil_cons in Hp|].
      assert (x = y) as <-.
      { assert (Hx2 : x ∈ y :: l2) by (rewrite <- Hp; by left).
        assert (Hy1 : y ∈ x :: l1) by (rewrite Hp; by left).
        apply elem_of_cons in Hx2 as [->|Hx2]; [done|]. apply elem_of_cons in Hy1 as [->|Hy1]; [done|].
        apply Hinj; [by left|by right|]. rewrite Forall_forall in Hx, Hy.
        apply (lle_antisym (key x) (key y)); [by apply Hx|by apply Hy]. }
      f_equal. apply IH; [|done|by apply Permutation_cons_inv in Hp].
      intros a b Ha Hb. apply Hinj; by right.
  Qed.
End sort_on.

Lemma sort_by_perm_eq_on {A} (key : A → list Z) l1 l2 :
  (∀ x y, x ∈ l1 → y ∈ l1 → key x = key y → x = y) → l1 ≡ₚ l2 → sort_by key l1 = sort_by key l2.
Proof.
  intros Hinj Hp. apply (sorted_perm_eq_on key); [|apply sort_by_Sorted|apply sort_by_Sorted|by rewrite !sort_by_perm].
  intros x y. rewrite !elem_of_sort_by. apply Hinj.
Qed.

(* sorting commutes with a map the key factors through *)
Lemma map_sort_by {A B} (f : A → B) (key : B → list Z) l :
  map f (sort_by (λ x, key (f x)) l) = sort_by key (map f l).
Proof.
  unfold sort_by. induction l as [|x l IH]; simpl; [done|]. rewrite <- IH. clear IH.
  induction (isort (λ x0 y : A, lex_leb (key (f x0)) (key (f y))) l) as [|y k IH]; simpl; [done|].
  destruct (lex_leb (key (f x)) (key (f y))); simpl; [done|]. by rewrite IH.
Qed.

Lemma eEnt_inj x y : eEnt x = eEnt y → x = y.
Proof.
  destruct x as [i o p f], y as [i' o' p' f']. unfold eEnt. simpl. intros [= H1%zn_inj H2%zn_inj H3]. subst.
  assert (Hlen : length (ePose p) = length (ePose p')).
  { apply (f_equal length) in H3. rewrite !app_length in H3. simpl in H3. lia. }
  apply app_inj_1 in H3 as [H3 H4]; [|done]. apply ePose_inj in H3. injection H4 as H4%zn_inj. by subst.
Qed.

(* ================= the canonical entity list ================= *)
Definition ent_items (sp : spec) (sid : N) : list (ent_pb * bool) :=
  omap (λ kv : (N*N) * (ent_pb*bool), if fst (fst kv) =? sid then Some (snd kv) else None) (map_to_list (sp_ents sp)).
Definition ent_list (SS : session) : list (ent_pb * bool) :=
  map (λ kv : N * entity, (ent_to_pb (fst kv) (snd kv), e_persist (snd kv))) (map_to_list (s_ents SS)).

Lemma spec_ents_items sp sid : spec_ents sp sid = sort_by (λ eb, eEnt (fst eb)) (ent_items sp sid).
Proof. reflexivity. Qed.
Lemma elem_of_ent_items sp sid x : x ∈ ent_items sp sid ↔ ∃ e, sp_ents sp !! (sid, e) = Some x.
Proof.
  unfold ent_items. rewrite elem_of_list_omap. split.
  - intros ([[s e] x']&Hin&Hf). simpl in Hf. apply elem_of_map_to_list in Hin.
    destruct (N.eqb_spec s sid) as [->|]; [|done]. simplify_eq. eauto.
  - intros (e&H). exists ((sid, e), x). split; [by apply elem_of_map_to_list|]. simpl. by rewrite N.eqb_refl.
Qed.
Lemma elem_of_ent_list SS x : x ∈ ent_list SS ↔ ∃ e ent, s_ents SS !! e = Some ent ∧ x = ent_abs e ent.
Proof.
  unfold ent_list. rewrite elem_of_list_fmap. split.
  - intros ([e ent]&->&Hin). apply elem_of_map_to_list in Hin. eauto.
  - intros (e&ent&H&->). exists (e, ent). split; [done|]. by apply elem_of_map_to_list.
Qed.

Section ents.
  Context (sp : spec) (sid : N) (SS : session).
  Hypothesis Ee : ∀ e, sp_ents sp !! (sid, e) = ent_abs e <$> s_ents SS !! e.

  Lemma NoDup_ent_items : NoDup (ent_items sp sid).
  Proof.
    unfold ent_items. apply NoDup_omap_inj; [apply NoDup_map_to_list|].
    intros [[s1 e1] x1] [[s2 e2] x2] b H1%elem_of_map_to_list H2%elem_of_map_to_list. simpl.
    destruct (N.eqb_spec s1 sid) as [->|]; [|done]. destruct (N.eqb_spec s2 sid) as [->|]; [|done].
    intros [= ->] [= ->]. rewrite Ee in H1, H2.
    destruct (s_ents SS !! e1) as [n1|]; [|done]. destruct (s_ents SS !! e2) as [n2|]; [|done].
    simpl in H1, H2. injection H1 as H1. injection H2 as H2.
    assert (e1 = e2) as -> by (apply (f_equal (λ x : ent_pb * bool, ep_id (fst x))) in H1, H2; simpl in *; congruence).
    done.
  Qed.
  Lemma NoDup_ent_list : NoDup (ent_list SS).
  Proof.
    unfold ent_list. apply NoDup_fmap_2_strong; [|apply NoDup_map_to_list].
    intros [e1 n1] [e2 n2] H1%elem_of_map_to_list H2%elem_of_map_to_list. simpl. intros [= -> _ _ _ _]. congruence.
  Qed.
  Lemma ent_list_key_inj x y : x ∈ ent_list SS → y ∈ ent_list SS → eEnt (fst x) = eEnt (fst y) → x = y.
  Proof.
    intros (e1&n1&H1&->)%elem_of_ent_list (e2&n2&H2&->)%elem_of_ent_list. simpl. intros H%eEnt_inj.
    injection H as -> _ _ _. congruence.
  Qed.
  Lemma ent_items_perm : ent_items sp sid ≡ₚ ent_list SS.
  Proof.
    apply NoDup_Permutation; [apply NoDup_ent_items|apply NoDup_ent_list|].
    intros x. rewrite elem_of_ent_items, elem_of_ent_list. split.
    - intros (e&H). rewrite Ee in H. destruct (s_ents SS !! e) as [ent|] eqn:He; [|done]. simpl in H. exists e, ent. by simplify_eq.
    - intros (e&ent&H&->). exists e. by rewrite Ee, H.
  Qed.
  Lemma spec_ents_session : spec_ents sp sid = sort_by (λ eb, eEnt (fst eb)) (ent_list SS).
  Proof.
    rewrite spec_ents_items. symmetry. apply sort_by_perm_eq_on; [apply ent_list_key_inj|]. symmetry. apply ent_items_perm.
  Qed.
  Lemma spec_ents_fst : map fst (spec_ents sp sid) = sort_by eEnt (ents_pb SS).
  Proof.
    rewrite spec_ents_session, (map_sort_by fst eEnt). f_equal. unfold ent_list, ents_pb. rewrite map_map. done.
  Qed.
End ents.

Lemma refines_ents_at sp st sid SS :
  refines_ents sp st → sessions st !! sid = Some SS → ∀ e, sp_ents sp !! (sid, e) = ent_abs e <$> s_ents SS !! e.
Proof. intros E HS e. rewrite (E sid e). unfold ents_at. by rewrite HS. Qed.

(* ================= every invariant of a state / spec pair, together ================= *)
Record allref (cfg : config) (k : N) (sp : spec) (st : state) : Prop := {
  a_good : good cfg k sp st;
  a_comps : refines_comps sp st
}.
Lemma reachable_allref cfg h : short h → allref cfg (4 * N.of_nat (length h)) (spec_after (run cfg h)) (final cfg h).
Proof. intros Hs. split; [by apply reachable_good|by apply refinement_comps]. Qed.

(* ================= a hook snapshot against the spec, for every selection ================= *)
Lemma dump_check_ok cfg kw k base i sp st sid SS :
  allref cfg kw sp st → sessions st !! sid = Some SS → dump_check cfg k base i sp (dump_session sid SS) = [].
Proof.
  intros [[I G O Wf R E D] RC] HS. unfold dump_check. cbn [canon_dump dump_session d_sid d_parts d_ents d_comps d_types d_subs d_actions d_assets d_uuid].
  rewrite <- (members_eq sp st sid SS I (rm_mem _ _ R) HS).
  change (map (λ kv : N * entity, (ent_to_pb kv.1 kv.2, e_persist kv.2)) (map_to_list (s_ents SS))) with (ent_list SS).
  rewrite <- (spec_ents_session sp sid SS (refines_ents_at sp st sid SS E HS)).
  rewrite <- (spec_comps_eq sp st sid SS RC HS), <- (spec_types_eq cfg kw sp st sid SS RC HS (Wf sid SS HS)).
  rewrite <- (spec_subs_eq sp st sid SS RC HS).
  rewrite <- (spec_acts_eq cfg kw sp st sid SS D HS (Wf sid SS HS)), <- (spec_assets_eq cfg kw sp st sid SS D HS (Wf sid SS HS)).
  rewrite (rm_uuid _ _ R sid). unfold uuid_at. rewrite HS. cbn [fmap option_fmap option_map].
  rewrite !bool_decide_eq_true_2 by done. rewrite !orb_true_r. done.
Qed.

Lemma snap_check_ok cfg kw k base i sp st :
  allref cfg kw sp st →
  snap_check cfg k base i sp {| ev_op := OSnap; ev_req := None; ev_outs := [(0, snapshot st)]; ev_verdict := VOk |} = [].
Proof.
  intros A. pose proof A as [[I G O Wf R E D] RC]. pose proof (rm_mem _ _ R) as Hm.
  unfold snap_check. cbn [ev_op ev_outs flat_map snd snapshot]. rewrite !app_nil_r.
  set (ss := map (λ kv : N * session, dump_session kv.1 kv.2) (map_to_list (sessions st))).
  assert (Hsid : map d_sid ss = map fst (map_to_list (sessions st))).
  { unfold ss. rewrite map_map. by apply map_ext. }
  assert (H1 : flat_map (dump_check cfg k base i sp) ss = []).
  { apply flat_map_nil_all. intros d0 Hd. unfold ss in Hd. apply elem_of_list_fmap in Hd as ([sid SS]&->&Hin).
    apply elem_of_map_to_list in Hin. by apply (dump_check_ok cfg kw k base i sp st). }
  rewrite H1. destruct (k_reg k); [|done]. rewrite Hsid, <- (live_sids_eq sp st I Hm).
  rewrite bool_decide_eq_true_2 by done.
  rewrite bool_decide_eq_true_2 by apply NoDup_fst_map_to_list.
  rewrite bool_decide_eq_true_2; [done|].
  rewrite (live_sids_eq sp st I Hm), sortN_length, map_length. apply (reg_gauge _ G).
Qed.

(* ================= the state handed to a joiner against the spec, for every selection ================= *)
Lemma join_snapshot_ok cfg kw k base i sp' st' c sid outs S1 :
  allref cfg kw sp' st' → sessions st' !! sid = Some S1 →
  (flag_on cfg F_SESSION_STATE = false →
   first_to c outs state_of = Some (map fst (map_to_list (s_parts S1)), ents_pb S1, store_list_all (s_store S1))) →
  (cfg_vikja cfg = true → first_to c outs vikja_of = Some (map snd (map_to_list (s_actions S1)))) →
  (cfg_odal cfg = true → first_to c outs odal_of = Some (map snd (map_to_list (s_assets S1)))) →
  join_snapshot_check cfg k base i sp' c sid outs = [].
Proof.
  intros [[I G O Wf R E D] RC] HS HF HV HO. unfold join_snapshot_check.
  change (λ m : msg, match m with MSessionState ps0 es0 cs0 => Some (ps0, es0, cs0) | _ => None end) with state_of.
  change (λ m : msg, match m with MVikjaState a => Some a | _ => None end) with vikja_of.
  change (λ m : msg, match m with MOdalState a => Some a | _ => None end) with odal_of.
  assert (H1 : (if flag_on cfg F_SESSION_STATE then [] else
     match first_to c outs state_of with
     | Some (ps, es, cs) =>
         okv i (negb (k_parts k) || bool_decide (sortN ps = map fst (sp_members sp' sid))) (base + 11) [zn c; zn sid] ++
         okv i (negb (k_ents k) || bool_decide (sort_by eEnt es = map fst (spec_ents sp' sid))) (base + 12) [zn c; zn sid] ++
         okv i (negb (k_comps k) || bool_decide (sort_by eComp cs = spec_comps sp' sid)) (base + 13) [zn c; zn sid]
     | None => if k_parts k || k_ents k || k_comps k then [viol i (base + 10) [zn c; zn sid]] else []
     end) = []).
  { destruct (flag_on cfg F_SESSION_STATE) eqn:Hf; [done|]. rewrite (HF eq_refl).
    rewrite (members_eq sp' st' sid S1 I (rm_mem _ _ R) HS).
    rewrite (spec_ents_fst sp' sid S1 (refines_ents_at sp' st' sid S1 E HS)).
    rewrite (spec_comps_eq sp' st' sid S1 RC HS).
    rewrite !bool_decide_eq_true_2 by done. by rewrite !orb_true_r. }
  rewrite H1. cbn [app].
  assert (H2 : (if cfg_vikja cfg && k_acts k then
     match first_to c outs vikja_of with
     | Some a => okv i (bool_decide (sort_by eAction a = spec_acts sp' sid)) (base + 15) [zn c; zn sid]
     | None => [viol i (base + 14) [zn c; zn sid]]
     end else []) = []).
  { destruct (cfg_vikja cfg) eqn:Ev; [|done]. destruct (k_acts k); [|done]. simpl. rewrite (HV eq_refl).
    rewrite (spec_acts_eq cfg kw sp' st' sid S1 D HS (Wf sid S1 HS)). by rewrite bool_decide_eq_true_2. }
  rewrite H2. cbn [app].
  destruct (cfg_odal cfg) eqn:Eo; [|done]. destruct (k_assets k); [|done]. simpl. rewrite (HO eq_refl).
  rewrite (spec_assets_eq cfg kw sp' st' sid S1 D HS (Wf sid S1 HS)).
  rewrite !bool_decide_eq_true_2; [done|apply (NoDup_asset_eids cfg kw), (Wf sid S1 HS)|done].
Qed.

(* the invariants after one step *)
Lemma step_allref cfg st o k kw kw' sp :
  inv st → bounded k st → k + 1 < two32 → kw + 1 < two32 → allref cfg kw sp st → swf cfg kw' (step cfg st o).1.1 →
  own_inv (step cfg st o).1.1 →
  allref cfg kw' (spec_step sp (ev_of st o (step cfg st o))) (step cfg st o).1.1.
Proof.
  intros I B Hk Hkw [[_ G O Wf R E D] RC] Wf' O'.
  destruct (step_inv cfg st o k I B Hk) as [I' _].
  destruct (step_sim cfg st o k sp 0%nat I B Hk G R) as [R' _].
  split; [split|]; try done.
  - by apply (step_reg cfg st o k).
  - by apply (step_sim_ents cfg st o k).
  - by apply (step_sim_mod cfg st o k kw).
  - by apply (step_sim_comps cfg st o k).
Qed.

(* what a successful join hands out, all three state messages *)
Lemma join_snapshot_step cfg st o k kw kw' sp i kk base c rid s ots :
  inv st → bounded k st → k + 1 < two32 → kw + 1 < two32 → allref cfg kw sp st →
  swf cfg kw' (step cfg st o).1.1 → own_inv (step cfg st o).1.1 →
  let e := ev_of st o (step cfg st o) in
  stepped e = Some (c, RJoin rid s ots) →
  match join_resp c (ev_outs e) with
  | Some (_, sid, _, _) => join_snapshot_check cfg kk base i (spec_step sp e) c sid (ev_outs e)
  | None => [] end = [].
Proof.
  intros I B Hk Hkw A Wf' O' e Hst. pose proof (bounded_nowrap _ _ B Hk) as W.
  pose proof (step_allref cfg st o k kw kw' sp I B Hk Hkw A Wf' O') as A'. fold e in A'.
  destruct (step_stepped_join cfg st o c rid s ots I Hst) as (hint&cn&q&st1&o1&v&->&Hc&Hc0&Ej&Es).
  set (st0 := upd_conn c (set_queue q) st) in *.
  assert (Hs0 : same_mem st st0) by (apply same_mem_upd_conn; by intros []).
  assert (I0 : inv st0) by by eapply inv_same_mem.
  assert (W0 : nowrap st0) by (eapply bounded_nowrap; [by eapply bounded_same_mem|done]).
  revert A'. generalize (spec_step sp e). intros sp' A'. unfold e, ev_of in *. rewrite Es in *. cbn [ev_outs fst snd] in *.
  destruct (join_resp c o1) as [[[[r' n] u] p']|] eqn:Hjr; [|done].
  destruct (join_shape cfg st0 c _ rid s ots hint _ _ _ I0 W0 Hc0 Ej _ _ _ _ Hjr) as (S1&HS1&HF).
  destruct (join_shape_mod cfg st0 c _ rid s ots hint _ _ _ I0 W0 Hc0 Ej _ _ _ _ Hjr) as (S1'&HS1'&HV&HO).
  assert (S1' = S1) as -> by congruence.
  by eapply (join_snapshot_ok cfg kw').
Qed.

(* ================= P_C05, completely ================= *)
Definition k05 : snapsel := {| k_parts := false; k_ents := true; k_comps := false; k_acts := false; k_assets := true;
                               k_types := false; k_subs := false; k_reg := false |}.

Lemma snap_check_step cfg st o kw kk base i sp :
  allref cfg kw sp st → snap_check cfg kk base i sp (ev_of st o (step cfg st o)) = [].
Proof.
  intros A. destruct o as [c|c r|c hint|sid|c|]; try (by apply snap_check_not_snap).
  unfold ev_of. cbn [step consumed fst snd]. by eapply snap_check_ok.
Qed.

Lemma c05_step_full cfg st o k kw kw' sp i :
  inv st → bounded k st → k + 1 < two32 → kw + 1 < two32 → allref cfg kw sp st →
  swf cfg kw' (step cfg st o).1.1 → own_inv (step cfg st o).1.1 →
  let e := ev_of st o (step cfg st o) in
  P_C05_event cfg i sp (spec_step sp e) e = [].
Proof.
  intros I B Hk Hkw A Wf' O' e. pose proof A as [[_ G O Wf R E D] RC]. pose proof (bounded_nowrap _ _ B Hk) as W.
  rewrite P_C05_event_unfold.
  pose proof (step_bad_msgs cfg st o k sp i 500 I B Hk G R) as Hbad. fold e in Hbad. rewrite Hbad, app_nil_r.
  pose proof (snap_check_step cfg st o kw k05 500 i sp A) as Hsn. fold e in Hsn. fold k05. rewrite Hsn, app_nil_r.
  (* the participant id of a join is new, and the state handed out is the spec's *)
  assert (Hjoin : ∀ c rid s ots, stepped e = Some (c, RJoin rid s ots) →
    match join_resp c (ev_outs e) with
    | Some (_, sid', uuid, pid) =>
        okv i (bool_decide (pid ∉ issued (sp_pids (depart sp c)) uuid)) 508 [zn c; zn sid'; zn pid] ++
        join_snapshot_check cfg k05 500 i (spec_step sp e) c sid' (ev_outs e)
    | None => [] end = []).
  { intros c rid s ots Hst.
    pose proof (join_snapshot_step cfg st o k kw kw' sp i k05 500 c rid s ots I B Hk Hkw A Wf' O' Hst) as HJ. fold e in HJ.
    destruct (step_stepped_join cfg st o c rid s ots I Hst) as (hint&cn&q&st1&o1&v&->&Hc&Hc0&Ej&Es).
    set (st0 := upd_conn c (set_queue q) st) in *.
    assert (Hs0 : same_mem st st0) by (apply same_mem_upd_conn; by intros []).
    assert (I0 : inv st0) by by eapply inv_same_mem.
    assert (W0 : nowrap st0) by (eapply bounded_nowrap; [by eapply bounded_same_mem|done]).
    assert (R0 : refines_mem sp st0) by (eapply refines_same; [apply same_all_upd_conn; by intros []|exact R]).
    assert (Ho1 : ev_outs e = o1) by (unfold e, ev_of; by rewrite Es). rewrite Ho1 in HJ |- *.
    destruct (join_resp c o1) as [[[[r' n] u] p']|] eqn:Hjr; [|done].
    rewrite bool_decide_eq_true_2 by (by eapply (join_pid_fresh cfg st0 c _ rid s ots hint sp I0 W0 R0 Hc0 _ _ _ Ej)).
    exact HJ. }
  apply app_nil. split.
  - destruct (stepped e) as [[c r]|] eqn:Hst; [|done].
    destruct (sp_mem sp !! c) as [[sid p]|] eqn:Hmem; [|done].
    destruct (is_join r) eqn:Hj.
    + destruct r; try discriminate Hj. unfold c05_req_clauses. fold k05. by eapply Hjoin.
    + destruct (step_member cfg st o sp c r sid p I R Hst Hmem) as (hint&cn&q&SS&st1&o1&v&->&Hc&Hcur&HS&Hp&Hinj&Hc0&_&Eh&Es).
      unfold e, ev_of. rewrite Es. cbn [ev_outs fst snd].
      eapply c05_request_ok; [exact Hj| |exact Eh]. by apply (refines_ents_at sp st sid SS E HS).
  - destruct (stepped e) as [[c r]|] eqn:Hst; [|done]. destruct r; try done.
    destruct (sp_mem sp !! c) as [[sid0 p]|] eqn:Hmem; [done|].
    pose proof (Hjoin c rid sid ots eq_refl) as HJ. rewrite (depart_none sp c Hmem) in HJ. exact HJ.
Qed.

Theorem model_passes_C05 cfg h : short h → P_C05 cfg (run cfg h) = [].
Proof.
  induction h as [|o h IH] using rev_ind; intros Hs; [done|].
  pose proof (reachable_swf cfg _ Hs) as Wf'. rewrite final_snoc in Wf'.
  pose proof (reachable_own cfg _ Hs) as O'. rewrite final_snoc in O'.
  apply short_snoc in Hs as [Hs Hb]. unfold P_C05 in *. rewrite run_snoc, sscan_snoc, IH by done. simpl.
  assert (Hlen : N.of_nat (length h) < two32) by (unfold short in Hs; lia).
  destruct (reachable_inv cfg h state0 0 inv_state0 bounded_state0) as [I B]; [lia|].
  apply (c05_step_full cfg (final cfg h) o (0 + N.of_nat (length h)) (4 * N.of_nat (length h)) (4 * N.of_nat (length (h ++ [o]))));
    [exact I|exact B|lia|lia|by apply reachable_allref|exact Wf'|exact O'].
Qed.

(* ================= P_C06 ================= *)
(* ---------- refuted as stated ---------- *)
Definition c06_witness : list op :=
  [OConnect 1; OConnect 2; OSend 1 (RJoin 1 SNew 1); OStep 1 0; OSend 2 (RJoin 2 (SId 1) 2); OStep 2 0;
   OSend 1 (REntityAdd 3 true 7 None 3); OStep 1 0; OSend 1 (REntityDelete 4 1 0); OStep 1 0].
Lemma C06_refuted : ∃ cfg h, short h ∧ P_C06 cfg (run cfg h) ≠ [].
Proof.
  exists {| cfg_flags := []; cfg_vikja := true; cfg_odal := true; cfg_dagaz := false |}, c06_witness.
  split; [by vm_compute|]. vm_compute. discriminate.
Qed.

(* ---------- the hypothesis under which it holds: no consumed EntityDelete request has origin timestamp 0 ---------- *)
Definition ok_req (r : req) : bool := match r with REntityDelete _ _ ots => negb (ots =? 0) | _ => true end.
Definition ok_ev (e : event) : bool := match ev_req e with Some r => ok_req r | None => true end.
Definition no_zero_delete (t : trace) : Prop := forallb ok_ev t = true.
Global Instance no_zero_delete_dec t : Decision (no_zero_delete t).
Proof. unfold no_zero_delete. apply _. Defined.

(* ---------- messages that are not departure relays ---------- *)
Definition noleave (l : list delivery) : Prop := Forall (λ d : delivery, is_leave_class (snd d) = false) l.
Lemma sel_noleave l : noleave l → sel is_leave_class l = [].
Proof. apply sel_none. Qed.

Ltac nl := unfold noleave; repeat first
  [ apply Forall_nil_2
  | apply Forall_cons_2; [reflexivity|]
  | apply Forall_app_2
  | apply (Forall_broadcast (λ m, is_leave_class m = false)); reflexivity
  | apply (Forall_broadcast_to (λ m, is_leave_class m = false)); reflexivity ].

Lemma on_ping_noleave st c cn rid st' o v : on_ping st c cn rid = (st', o, v) → noleave o.
Proof. unfold on_ping, send_ping. intros H. repeat case_match; simplify_eq; nl. Qed.

Lemma handle_joined_noleave cfg st c cn sid p SS r hint st' o v :
  is_join r = false → ok_req r = true → handle_joined cfg st c cn sid p SS r hint = (st', o, v) → noleave o.
Proof.
  intros Hj Hok H. destruct r; try discriminate Hj; simpl in H.
  all: try (unfold send_ping in H; repeat case_match; simplify_eq; nl; fail).
  - by apply on_ping_noleave in H.
  - (* entity delete: the relay carries the client's origin timestamp, which is not 0 *)
    simpl in Hok. destruct ots as [|pos]; [discriminate Hok|].
    repeat case_match; simplify_eq; nl.
Qed.
Lemma handle_unjoined_noleave cfg st c cn r hint st' o v :
  is_join r = false → handle_unjoined cfg st c cn r hint = (st', o, v) → noleave o.
Proof.
  intros Hj H. destruct r; try discriminate Hj; simpl in H.
  all: repeat case_match; simplify_eq; nl.
Qed.
Lemma handle_noleave cfg st c r hint st' o v :
  is_join r = false → ok_req r = true → handle cfg st c r hint = (st', o, v) → noleave o.
Proof.
  intros Hj Hok. unfold handle. destruct (conns st !! c) as [cn|]; [|intros [= _ <- _]; constructor].
  destruct (c_cur cn) as [[sid p]|].
  - destruct (sessions st !! sid) as [SS|]; [|intros [= _ <- _]; constructor]. by apply handle_joined_noleave.
  - by apply handle_unjoined_noleave.
Qed.

Lemma leave_all_leave cfg st c : sel is_leave_class (leave cfg st c).2 = (leave cfg st c).2.
Proof. apply sel_all. by apply (Forall_leave0 (λ m, is_leave_class m = true)). Qed.
Lemma noleave_module_join cfg c SS : noleave (module_join_msgs cfg c SS).
Proof. unfold module_join_msgs. destruct (cfg_vikja cfg), (cfg_odal cfg); nl. Qed.

(* ---------- the departure relays inside the outputs of a join ---------- *)
Lemma join_leave_shape cfg st c cn rid s ots hint st' outs v :
  conns st !! c = Some cn → Model.join cfg st c rid s ots hint = (st', outs, v) →
  (sel is_leave_class outs = [] ∧ join_resp c outs = None ∧ has_error c E_NOT_FOUND outs = false) ∨
  (join_resp c outs = None ∧ has_error c E_NOT_FOUND outs = true ∧ sel is_leave_class outs = (leave cfg st c).2) ∨
  (∃ r' n u p', join_resp c outs = Some (r', n, u, p') ∧ sel is_leave_class outs = (leave cfg st c).2).
Proof.
  intros Hc. unfold Model.join. rewrite Hc.
  destruct (already_joined cn s) eqn:Haj.
  - intros [= <- <- <-]. left.
    set (mo := match c_cur cn with Some (cur, _) => match sessions st !! cur with Some SS => module_join_msgs cfg c SS | None => [] end | None => [] end).
    assert (Hmo : plains mo ∧ noleave mo).
    { unfold mo. destruct (c_cur cn) as [[cur p0]|]; [|split; constructor].
      destruct (sessions st !! cur); [split; [apply plains_module_join|apply noleave_module_join]|split; constructor]. }
    destruct Hmo as [Hm1 Hm2]. split; [|split].
    + rewrite sel_cons_false by done. by apply sel_noleave.
    + rewrite join_resp_cons_other by done. by apply join_resp_plain.
    + unfold has_error. simpl. rewrite N.eqb_refl. simpl. by apply has_error_plain.
  - pose proof (plains_leave cfg st c) as P1. pose proof (leave_all_leave cfg st c) as L1.
    destruct (leave cfg st c) as [st1 o1]. simpl in *.
    assert (Hnotfound : ∀ outs, outs = o1 ++ [(c, MError rid E_NOT_FOUND)] →
      join_resp c outs = None ∧ has_error c E_NOT_FOUND outs = true ∧ sel is_leave_class outs = o1).
    { intros ? ->. split. { rewrite join_resp_app_plain by done. by rewrite join_resp_cons_other. }
      split. { rewrite has_error_app. unfold has_error at 2. simpl. rewrite N.eqb_refl. simpl. apply orb_true_r. }
      rewrite sel_app, L1. rewrite sel_cons_false by done. apply app_nil_r. }
    assert (Henter : ∀ st2 n SS, sessions st2 !! n = Some SS →
      ∃ r' n' u p', join_resp c (o1 ++ (enter cfg st2 c rid n ots).1.2) = Some (r', n', u, p') ∧
        sel is_leave_class (o1 ++ (enter cfg st2 c rid n ots).1.2) = o1).
    { intros st2 n SS HS. exists rid, n, (s_uuid SS), (u32_succ (s_pgen SS)).
      rewrite (enter_eq cfg st2 c rid n ots SS HS). cbv zeta. cbn [fst snd].
      split. { rewrite join_resp_app_plain by done. unfold join_resp. by apply first_to_hit. }
      rewrite sel_app, L1. rewrite sel_cons_false by done.
      rewrite sel_app. replace (sel is_leave_class (if flag_on cfg F_SESSION_STATE then [] else _)) with (@nil delivery)
        by (by destruct (flag_on cfg F_SESSION_STATE)).
      rewrite sel_app, (sel_noleave _ (noleave_module_join cfg c _)), app_nil_r. cbn [app].
      replace (sel is_leave_class (if flag_on cfg F_JOIN_B then [] else _)) with (@nil delivery); [apply app_nil_r|].
      destruct (flag_on cfg F_JOIN_B); [done|]. symmetry. by apply sel_broadcast_false. }
    destruct s as [|n|k].
    + destruct (create_session hint st1) as [n st2] eqn:Hcr.
      destruct (c07_created_fresh _ _ _ _ Hcr) as [HS2 _]. specialize (Henter st2 n _ HS2).
      destruct (enter cfg st2 c rid n ots) as [[st3 o2] v2]. intros [= <- <- <-]. right; right. exact Henter.
    + destruct (sessions st1 !! n) as [SS|] eqn:HS.
      * specialize (Henter st1 n _ HS). destruct (enter cfg st1 c rid n ots) as [[st3 o2] v2]. intros [= <- <- <-].
        right; right. exact Henter.
      * intros [= <- <- <-]. right; left. by apply Hnotfound.
    + intros [= <- <- <-]. right; left. by apply Hnotfound.
Qed.

(* ---------- what one remaining member is told at a departure ---------- *)
Lemma filter_none_fst (l : list delivery) cq : cq ∉ map fst l → List.filter (λ d : delivery, fst d =? cq) l = [].
Proof.
  induction l as [|[c' m'] l IH]; simpl; [done|]. intros Hn. destruct (N.eqb_spec c' cq) as [->|Hne].
  - exfalso. apply Hn. by left.
  - apply IH. intros H. apply Hn. by right.
Qed.
Lemma filter_to_one (l : list delivery) cq m :
  NoDup (map fst l) → (cq, m) ∈ l → List.filter (λ d : delivery, fst d =? cq) l = [(cq, m)].
Proof.
  induction l as [|[c' m'] l IH]; simpl; intros Hnd Hin; [by apply elem_of_nil in Hin|].
  apply NoDup_cons in Hnd as [Hc' Hnd]. destruct (N.eqb_spec c' cq) as [->|Hne].
  - apply elem_of_cons in Hin as [[= ->]|Hin].
    + by rewrite filter_none_fst.
    + exfalso. apply Hc'. apply elem_of_list_fmap. by exists (cq, m).
  - apply elem_of_cons in Hin as [[= <- _]|Hin]; [done|]. by apply IH.
Qed.
Lemma filter_broadcast_one S p m q cq :
  parts_injective S → s_parts S !! q = Some cq → q ≠ p →
  List.filter (λ d : delivery, fst d =? cq) (broadcast S p m) = [(cq, m)].
Proof.
  intros Hi Hq Hne. apply filter_to_one; [by apply broadcast_recipients_NoDup|]. apply broadcast_spec. eauto.
Qed.
Lemma List_filter_flat_map {A B} (f : B → bool) (g : A → list B) l :
  List.filter f (flat_map g l) = flat_map (λ x, List.filter f (g x)) l.
Proof. induction l as [|x l IH]; simpl; [done|]. by rewrite List.filter_app, IH. Qed.
Lemma flat_map_singleton {A B} (h : A → B) l : flat_map (λ x, [h x]) l = map h l.
Proof. induction l as [|x l IH]; simpl; [done|]. by rewrite IH. Qed.

Lemma leave_outs_shape cfg st c cn sid p SS :
  conns st !! c = Some cn → c_cur cn = Some (sid, p) → sessions st !! sid = Some SS →
  ∃ S2 L, s_parts S2 = s_parts SS ∧ s_parts L = delete p (s_parts SS) ∧
    (∀ e, e ∈ doomed S2 (c_own cn) ↔ removed (c_own cn) SS e) ∧
    (leave cfg st c).2 =
      (if flag_on cfg F_ENTITY_DELETE_B then [] else flat_map (λ eid, broadcast S2 p (MEntityDeleteB 0 eid)) (doomed S2 (c_own cn))) ++
      (if flag_on cfg F_LEAVE_B then [] else broadcast L p (MLeaveB p)).
Proof.
  intros Hc Hcur HS. unfold leave. rewrite Hc, Hcur, HS.
  set (S2 := set_store (store_set_subs (fmap (λ s : gset N, s ∖ {[p]}))) (module_disconnect cfg (c_own cn) SS)).
  pose proof (remove_doomed_parts cfg p (doomed S2 (c_own cn)) S2) as (P1&_).
  assert (Ho1 : (remove_doomed cfg p (doomed S2 (c_own cn)) S2).2 =
    if flag_on cfg F_ENTITY_DELETE_B then [] else flat_map (λ eid, broadcast S2 p (MEntityDeleteB 0 eid)) (doomed S2 (c_own cn))).
  { destruct (flag_on cfg F_ENTITY_DELETE_B) eqn:Hf; [by apply remove_doomed_outs_flag|by apply remove_doomed_outs]. }
  destruct (remove_doomed cfg p (doomed S2 (c_own cn)) S2) as [S3 o1]. simpl in *. subst o1.
  exists S2, (set_parts (delete p) (set_frames (λ f : gset N, f ∖ {[c]}) S3)).
  split; [apply module_disconnect_parts|]. split; [simpl; rewrite P1; f_equal; apply module_disconnect_parts|].
  split; [|done]. intros e. symmetry. apply removed_doomed.
Qed.

Definition del_of (m : msg) : option N := match m with MEntityDeleteB 0 x => Some x | _ => None end.
Definition leave_of (m : msg) : option N := match m with MLeaveB x => Some x | _ => None end.

Lemma dels_of_deletes cq (l : list N) :
  omap del_of (map snd (map (λ eid : N, ((cq, MEntityDeleteB 0 eid) : delivery)) l)) = l ∧
  omap leave_of (map snd (map (λ eid : N, ((cq, MEntityDeleteB 0 eid) : delivery)) l)) = [].
Proof.
  induction l as [|x l [IH1 IH2]]; [done|]. split.
  - simpl. f_equal. exact IH1.
  - simpl. exact IH2.
Qed.

Lemma sortN_idem l : sortN (sortN l) = sortN l.
Proof. apply sortN_perm_eq, sortN_perm. Qed.

Definition c06_member_clauses (cfg : config) (i : nat) (p : N) (got : list delivery) (gone : list N) (pc : N * N) : list violation :=
  let mine := map snd (List.filter (λ d : delivery, fst d =? snd pc) got) in
  let dels := omap (λ m, match m with MEntityDeleteB 0 x => Some x | _ => None end) mine in
  let leaves := omap (λ m, match m with MLeaveB x => Some x | _ => None end) mine in
  okv i (bool_decide (sortN dels = gone)) 603 [zn (snd pc); zn p; Z.of_nat (length dels); Z.of_nat (length gone)] ++
  (if flag_on cfg F_LEAVE_B then okv i (bool_decide (leaves = [])) 604 [zn (snd pc); zn p]
   else okv i (bool_decide (leaves = [p])) 604 [zn (snd pc); zn p; Z.of_nat (length leaves)] ++
        okv i (match last mine with Some (MLeaveB _) => true | _ => false end) 605 [zn (snd pc); zn p]).

Lemma c06_departure_ok cfg i sp st c cn sid p SS :
  inv st → own_inv st → refines_mem sp st → refines_ents sp st →
  conns st !! c = Some cn → c_cur cn = Some (sid, p) → sessions st !! sid = Some SS →
  let got := (leave cfg st c).2 in
  let rest := sp_others sp sid p in
  let gone := if flag_on cfg F_ENTITY_DELETE_B then [] else sp_gone sp sid p in
  okv i (forallb (λ d : delivery, existsb (λ pc : N*N, snd pc =? fst d) rest) got) 602 [zn c; zn sid; zn p] ++
  flat_map (c06_member_clauses cfg i p got gone) rest = [].
Proof.
  intros I O R E Hc Hcur HS got rest gone.
  destruct (inv_member st c cn sid p SS I Hc Hcur HS) as [Hp Hinj].
  assert (Hps : parts_of st sid = Some (s_parts SS)) by (unfold parts_of; by rewrite HS).
  pose proof (leave_relays cfg sp st c cn sid p SS I O R E Hc Hcur HS) as Hperm. fold got in Hperm.
  apply app_nil. split.
  - (* nobody but the remaining members is told *)
    replace (forallb _ got) with true; [done|]. symmetry. apply forallb_forall. intros [cq m] Hin%elem_of_list_In.
    rewrite Hperm in Hin. unfold departure_expected in Hin. fold rest in Hin.
    assert (Hpc : ∃ pc : N * N, pc ∈ rest ∧ snd pc = cq).
    { apply elem_of_app in Hin as [Hin|Hin].
      - destruct (flag_on cfg F_ENTITY_DELETE_B); [by apply elem_of_nil in Hin|].
        apply elem_of_flat_map in Hin as (eid&_&Hin). unfold to_all in Hin. apply elem_of_list_fmap in Hin as (pc&[= -> _]&Hpc). eauto.
      - destruct (flag_on cfg F_LEAVE_B); [by apply elem_of_nil in Hin|].
        unfold to_all in Hin. apply elem_of_list_fmap in Hin as (pc&[= -> _]&Hpc). eauto. }
    destruct Hpc as (pc&Hpc&<-). apply existsb_exists. exists pc. split; [by apply elem_of_list_In|]. simpl. apply N.eqb_refl.
  - apply flat_map_nil_all. intros [q cq] Hin. apply elem_of_sp_others in Hin as [Hm Hne].
    rewrite (rm_mem _ _ R) in Hm. apply (inv_parts _ I sid _ q cq Hps) in Hm.
    destruct (leave_outs_shape cfg st c cn sid p SS Hc Hcur HS) as (S2&L&Hp2&HpL&Hdm&Hgot). fold got in Hgot.
    assert (Hi2 : parts_injective S2) by (by eapply parts_injective_same).
    assert (HiL : parts_injective L).
    { intros q1 q2 c0. rewrite HpL. intros [_ H1]%lookup_delete_Some [_ H2]%lookup_delete_Some. by eapply Hinj. }
    assert (Hq2 : s_parts S2 !! q = Some cq) by (by rewrite Hp2).
    assert (HqL : s_parts L !! q = Some cq) by (rewrite HpL; by apply lookup_delete_Some).
    set (dm := doomed S2 (c_own cn)) in *.
    assert (Hgone : sortN dm = sp_gone sp sid p).
    { transitivity (sortN (sp_gone sp sid p)); [|unfold sp_gone; apply sortN_idem]. apply sortN_perm_eq.
      apply NoDup_Permutation; [apply doomed_NoDup|apply NoDup_sp_gone|]. intros e.
      rewrite (gone_removed sp st c cn sid p SS O E Hc Hcur HS e). apply Hdm. }
    unfold c06_member_clauses. cbn [snd].
    change (λ m : msg, match m with MEntityDeleteB 0 x => Some x | _ => None end) with del_of.
    change (λ m : msg, match m with MLeaveB x => Some x | _ => None end) with leave_of.
    assert (Hmine : map snd (List.filter (λ d : delivery, fst d =? cq) got) =
      map snd (map (λ eid : N, ((cq, MEntityDeleteB 0 eid) : delivery)) (if flag_on cfg F_ENTITY_DELETE_B then [] else dm)) ++
      (if flag_on cfg F_LEAVE_B then [] else [MLeaveB p])).
    { rewrite Hgot, List.filter_app, map_app. f_equal.
      - destruct (flag_on cfg F_ENTITY_DELETE_B); [done|]. rewrite List_filter_flat_map. f_equal.
        rewrite <- flat_map_singleton. apply flat_map_ext. intros eid. by apply (filter_broadcast_one S2 p _ q cq).
      - destruct (flag_on cfg F_LEAVE_B); [done|]. by rewrite (filter_broadcast_one L p _ q cq). }
    rewrite Hmine, !omap_app.
    destruct (dels_of_deletes cq (if flag_on cfg F_ENTITY_DELETE_B then [] else dm)) as [-> ->].
    unfold gone. destruct (flag_on cfg F_ENTITY_DELETE_B) eqn:HfD, (flag_on cfg F_LEAVE_B) eqn:HfL; simpl.
    all: rewrite ?app_nil_r, ?Hgone, ?last_snoc; rewrite ?bool_decide_eq_true_2 by done; done.
Qed.

(* ---------- P_C06, clause by clause ---------- *)
Definition k06s : snapsel := {| k_parts := true; k_ents := true; k_comps := true; k_acts := true; k_assets := true;
                                k_types := false; k_subs := true; k_reg := false |}.
Definition k06j : snapsel := {| k_parts := true; k_ents := true; k_comps := true; k_acts := true; k_assets := true;
                                k_types := false; k_subs := false; k_reg := false |}.

Definition c06_dep_clauses (cfg : config) (i : nat) (sp sp' : spec) (e : event) : list violation :=
  let got := sel is_leave_class (ev_outs e) in
  match departure sp sp' e with
  | None => okv i (bool_decide (got = [])) 601 [Z.of_nat (length got)]
  | Some (c, sid, p) =>
      let rest := sp_others sp sid p in
      let gone := if flag_on cfg F_ENTITY_DELETE_B then [] else sp_gone sp sid p in
      okv i (forallb (λ d : delivery, existsb (λ pc : N*N, snd pc =? fst d) rest) got) 602 [zn c; zn sid; zn p] ++
      flat_map (c06_member_clauses cfg i p got gone) rest
  end.

Lemma P_C06_event_unfold cfg i sp sp' e :
  P_C06_event cfg i sp sp' e =
  c06_dep_clauses cfg i sp sp' e ++
  snap_check cfg k06s 600 i sp e ++
  match stepped e with
  | Some (c, RJoin _ _ _) =>
      match join_resp c (ev_outs e) with
      | Some (_, sid, _, _) => join_snapshot_check cfg k06j 600 i sp' c sid (ev_outs e)
      | None => []
      end
  | _ => []
  end ++ bad_msgs i 600 e.
Proof. reflexivity. Qed.

Lemma c06_quiet_case cfg i sp sp' e :
  departure sp sp' e = None → sel is_leave_class (ev_outs e) = [] → c06_dep_clauses cfg i sp sp' e = [].
Proof. intros Hd Hs. unfold c06_dep_clauses. by rewrite Hd, Hs. Qed.

Lemma c06_leave_case cfg i sp sp' e stX c :
  inv stX → own_inv stX → refines_mem sp stX → refines_ents sp stX → actor e = Some c →
  (∀ sid p, sp_mem sp !! c = Some (sid, p) → departure sp sp' e = Some (c, sid, p)) →
  sel is_leave_class (ev_outs e) = (leave cfg stX c).2 → c06_dep_clauses cfg i sp sp' e = [].
Proof.
  intros I O R E Ha Hdep Hs. destruct (sp_mem sp !! c) as [[sid p]|] eqn:Hm.
  - unfold c06_dep_clauses. rewrite (Hdep sid p eq_refl), Hs.
    pose proof Hm as Hcur0. rewrite (rm_mem _ _ R) in Hcur0. unfold cur_of in Hcur0.
    destruct (conns stX !! c) as [cn|] eqn:Hc; [|done]. simpl in Hcur0.
    assert (Hcur1 : cur_of stX c = Some (sid, p)) by (unfold cur_of; by rewrite Hc).
    destruct (live_session _ _ (inv_live _ I _ _ _ Hcur1)) as [SS HS].
    by apply (c06_departure_ok cfg i sp stX c cn sid p SS).
  - apply c06_quiet_case; [by apply (departure_nonmember sp sp' e c)|]. rewrite Hs. by apply (leave_relays_none cfg sp stX c).
Qed.

Lemma c06_dep_ok cfg st o k kw sp i :
  inv st → bounded k st → k + 1 < two32 → kw + 1 < two32 → good cfg kw sp st →
  let e := ev_of st o (step cfg st o) in
  ok_ev e = true → c06_dep_clauses cfg i sp (spec_step sp e) e = [].
Proof.
  intros I B Hk Hkw [_ G O Wf R E D]. pose proof (bounded_nowrap _ _ B Hk) as W. unfold ev_of.
  assert (Hskip : ∀ o' c', actor {| ev_op := o'; ev_req := None; ev_outs := []; ev_verdict := VSkip |} = Some c' →
    (match o' with ODisconnect _ => False | _ => True end) →
    let e := {| ev_op := o'; ev_req := None; ev_outs := []; ev_verdict := VSkip |} in
    c06_dep_clauses cfg i sp (spec_step sp e) e = []).
  { intros o' c' Ha Ho'. cbv zeta. rewrite spec_step_skip by done. apply c06_quiet_case; [|done].
    apply (departure_same sp sp _ c' Ha eq_refl). by destruct o'. }
  assert (Hdis : ∀ stX c e, inv stX → own_inv stX → refines_mem sp stX → refines_ents sp stX → actor e = Some c →
    sel is_leave_class (ev_outs e) = (leave cfg stX c).2 → c06_dep_clauses cfg i sp (depart sp c) e = []).
  { intros stX c e IX OX RX EX Ha Hs. apply (c06_leave_case cfg i sp _ e stX c IX OX RX EX Ha); [|done].
    intros sid p Hm. apply (departure_left sp _ e c sid p Ha Hm). left. apply depart_mem_c. }
  destruct o as [c|c r|c hint|sid|c|]; cbn [step consumed].
  - (* connect *) destruct (conns st !! c); intros _; reflexivity.
  - (* send *)
    unfold dispatch. destruct (conns st !! c) as [cn|] eqn:Hc; [|intros _; by apply (Hskip (OSend c r) c)].
    destruct (c_open cn) eqn:Ho; [|intros _; by apply (Hskip (OSend c r) c)]. cbn [negb].
    assert (Hq : ∀ st' : state, let e := {| ev_op := OSend c r; ev_req := None; ev_outs := (st', @nil delivery, VOk).1.2; ev_verdict := (st', @nil delivery, VOk).2 |} in
      c06_dep_clauses cfg i sp (spec_step sp e) e = []).
    { intros st'. cbv zeta. cbn [fst snd]. change (spec_step sp _) with sp. apply c06_quiet_case; [|done].
      by apply (departure_same sp sp _ c). }
    destruct r; try (intros _; apply Hq).
    cbn match. destruct (ty =? 14); [|intros _; apply Hq].
    pose proof (disconnect_outs cfg st c) as Hd.
    destruct (disconnect cfg st c) as [st1 o1]. intros _. cbn [fst snd] in *.
    change (spec_step sp _) with (depart sp c). apply (Hdis st c); try done. cbn [ev_outs]. rewrite Hd. apply leave_all_leave.
  - (* step *)
    destruct (conns st !! c) as [cn|] eqn:Hc; [|intros _; by apply (Hskip (OStep c hint) c)].
    destruct (c_open cn) eqn:Ho; [|intros _; by apply (Hskip (OStep c hint) c)]. cbn [negb].
    destruct (c_queue cn) as [|r q] eqn:Hq; [intros _; by apply (Hskip (OStep c hint) c)|]. cbn [head].
    set (st0 := upd_conn c (set_queue q) st).
    assert (Hs0 : same_mem st st0) by (apply same_mem_upd_conn; by intros []).
    assert (I0 : inv st0) by by eapply inv_same_mem.
    assert (B0 : bounded k st0) by by eapply bounded_same_mem.
    assert (R0 : refines_mem sp st0) by (eapply refines_same; [apply same_all_upd_conn; by intros []|exact R]).
    assert (E0 : refines_ents sp st0) by exact E.
    assert (O0 : own_inv st0).
    { eapply own_inv_ext; [| |exact O]; [done|]. intros c'. apply mem_of_upd_conn; by intros []. }
    assert (Hc0 : conns st0 !! c = Some (set_queue q cn)).
    { unfold st0, upd_conn. simpl. rewrite Hc. by rewrite lookup_insert. }
    assert (Ho0 : open_of st0 c = Some true) by (unfold open_of; rewrite Hc0; simpl; by rewrite Ho).
    destruct (is_join r) eqn:Hj.
    + (* a join *)
      destruct r; try discriminate Hj.
      assert (Hh : handle cfg st0 c (RJoin rid sid ots) hint = Model.join cfg st0 c rid sid ots hint).
      { unfold handle. rewrite Hc0. destruct (c_cur (set_queue q cn)) as [[s p]|] eqn:Hcur; [|done].
        assert (Hcur0 : cur_of st0 c = Some (s, p)) by (unfold cur_of; by rewrite Hc0).
        destruct (live_session _ _ (inv_live _ I0 _ _ _ Hcur0)) as [SS HS]. by rewrite HS. }
      rewrite Hh. destruct (Model.join cfg st0 c rid sid ots hint) as [[st1 o1] v] eqn:Ej.
      pose proof (join_verdict cfg st0 c _ rid sid ots hint Hc0) as Hv. rewrite Ej in Hv. simpl in Hv. subst v.
      cbn [fst snd]. rewrite spec_step_join. intros _.
      set (e := {| ev_op := OStep c hint; ev_req := Some (RJoin rid sid ots); ev_outs := o1; ev_verdict := VOk |}).
      assert (Ha : actor e = Some c) by done.
      destruct (join_leave_shape cfg st0 c _ rid sid ots hint _ _ _ Hc0 Ej) as
        [(J1&J2&J3)|[(J2&J3&J1)|(r'&n&u&p'&J2&J1)]].
      * rewrite J2, J3. apply c06_quiet_case; [|exact J1].
        apply (departure_same sp sp e c Ha eq_refl). unfold rejoined, e. simpl. rewrite J2. by rewrite andb_false_r.
      * rewrite J2, J3. by apply (Hdis st0 c e).
      * rewrite J2. apply (c06_leave_case cfg i sp _ e st0 c I0 O0 R0 E0 Ha); [|exact J1].
        intros s0 p0 Hm. apply (departure_left sp _ e c s0 p0 Ha Hm). right. unfold rejoined, e. simpl. by rewrite J2, N.eqb_refl.
    + (* any other request *)
      destruct (handle cfg st0 c r hint) as [[st1 o1] v] eqn:Eh.
      destruct (handle_nonjoin cfg st0 c _ r hint _ _ _ I0 Hc0 Hj Eh) as (S1&N1&V1&V2).
      assert (R1 : refines_mem sp st1) by (by eapply refines_same).
      assert (I1 : inv st1).
      { pose proof (handle_inv cfg st0 c r hint k I0 B0 Hk Ho0) as [I1 _]. by rewrite Eh in I1. }
      destruct v; try done.
      * (* answered *)
        cbn [fst snd]. intros Hok. unfold ok_ev in Hok. cbn [ev_req] in Hok.
        set (e := {| ev_op := OStep c hint; ev_req := Some r; ev_outs := o1; ev_verdict := VOk |}).
        assert (Ha : actor e = Some c) by done.
        assert (Hrj : rejoined e c = false) by (unfold rejoined, e; simpl; by destruct r).
        assert (Hsp : spec_step sp e = match sp_mem sp !! c with Some (s, p) => spec_request sp c s p r o1 | None => sp end).
        { unfold spec_step, e. cbn [ev_op ev_verdict ev_req ev_outs]. destruct r; try reflexivity. discriminate Hj. }
        apply c06_quiet_case.
        -- apply (departure_same sp _ e c Ha); [|done]. rewrite Hsp. destruct (sp_mem sp !! c) as [[s p]|] eqn:Hm; [|exact Hm].
           by rewrite sp_mem_spec_request.
        -- cbn [ev_outs e]. apply sel_noleave. by eapply handle_noleave.
      * (* handler error: the connection is ended *)
        destruct (handle_err_same cfg st0 c r hint _ _ Hj Eh) as [Hs1 Hc1].
        assert (E1 : refines_ents sp st1) by (eapply refines_ents_same; [reflexivity|by apply ents_at_sessions|exact E0]).
        assert (O1 : own_inv st1) by (by eapply own_inv_conns).
        pose proof (disconnect_outs cfg st1 c) as Hd.
        destruct (disconnect cfg st1 c) as [st2 o2]. cbn [fst snd] in *. intros Hok. unfold ok_ev in Hok. cbn [ev_req] in Hok.
        set (e := {| ev_op := OStep c hint; ev_req := Some r; ev_outs := o1 ++ o2; ev_verdict := VErr |}).
        change (spec_step sp e) with (depart sp c). apply (Hdis st1 c e); try done. cbn [ev_outs e].
        rewrite sel_app, (sel_noleave _ (handle_noleave cfg st0 c r hint _ _ _ Hj Hok Eh)), Hd. apply leave_all_leave.
  - (* tick *) intros _. reflexivity.
  - (* disconnect *)
    assert (Hnone : cur_of st c = None →
      let e := {| ev_op := ODisconnect c; ev_req := None; ev_outs := []; ev_verdict := VSkip |} in
      c06_dep_clauses cfg i sp (spec_step sp e) e = []).
    { intros Hcur. cbv zeta. change (spec_step sp _) with (depart sp c). apply c06_quiet_case; [|done].
      apply (departure_nonmember sp _ _ c); [done|]. by rewrite (rm_mem _ _ R). }
    destruct (conns st !! c) as [cn|] eqn:Hc; [|intros _; apply Hnone; unfold cur_of; by rewrite Hc].
    destruct (c_open cn) eqn:Ho; cbn [negb].
    2:{ intros _. apply Hnone. apply (inv_open _ I). unfold open_of. rewrite Hc. simpl. by rewrite Ho. }
    pose proof (disconnect_outs cfg st c) as Hd.
    destruct (disconnect cfg st c) as [st1 o1]. intros _. cbn [fst snd] in *.
    change (spec_step sp _) with (depart sp c). apply (Hdis st c); try done. cbn [ev_outs]. rewrite Hd. apply leave_all_leave.
  - (* snapshot *) intros _. reflexivity.
Qed.

(* ---------- one step ---------- *)
Lemma c06_step_ok cfg st o k kw kw' sp i :
  inv st → bounded k st → k + 1 < two32 → kw + 1 < two32 → allref cfg kw sp st →
  swf cfg kw' (step cfg st o).1.1 → own_inv (step cfg st o).1.1 →
  let e := ev_of st o (step cfg st o) in
  ok_ev e = true → P_C06_event cfg i sp (spec_step sp e) e = [].
Proof.
  intros I B Hk Hkw A Wf' O' e Hok. pose proof A as [Gd RC].
  rewrite P_C06_event_unfold.
  pose proof (step_bad_msgs cfg st o k sp i 600 I B Hk (g_reg _ _ _ _ Gd) (g_mem _ _ _ _ Gd)) as Hbad. fold e in Hbad.
  rewrite Hbad, app_nil_r.
  pose proof (snap_check_step cfg st o kw k06s 600 i sp A) as Hsn. fold e in Hsn. rewrite Hsn. cbn [app].
  pose proof (c06_dep_ok cfg st o k kw sp i I B Hk Hkw Gd Hok) as Hdep. fold e in Hdep. rewrite Hdep. cbn [app].
  destruct (stepped e) as [[c r]|] eqn:Hst; [|done]. destruct r; try done.
  pose proof (join_snapshot_step cfg st o k kw kw' sp i k06j 600 c rid sid ots I B Hk Hkw A Wf' O') as HJ. fold e in HJ.
  by apply HJ.
Qed.

(* ---------- every history ---------- *)
Lemma no_zero_delete_snoc t e : no_zero_delete (t ++ [e]) → no_zero_delete t ∧ ok_ev e = true.
Proof. unfold no_zero_delete. rewrite forallb_app. simpl. rewrite andb_true_r. apply andb_true_iff. Qed.

(* Deliverable 2d: on every history in which no consumed EntityDelete request has origin timestamp 0 the model's
   own trace is never flagged by P_C06 (all clauses) *)
Theorem model_passes_C06 cfg h : short h → no_zero_delete (run cfg h) → P_C06 cfg (run cfg h) = [].
Proof.
  induction h as [|o h IH] using rev_ind; intros Hs Hz; [done|].
  pose proof (reachable_swf cfg _ Hs) as Wf'. rewrite final_snoc in Wf'.
  pose proof (reachable_own cfg _ Hs) as O'. rewrite final_snoc in O'.
  apply short_snoc in Hs as [Hs Hb]. rewrite run_snoc in Hz. apply no_zero_delete_snoc in Hz as [Hz Hok].
  unfold P_C06 in *. rewrite run_snoc, sscan_snoc, IH by done. simpl.
  assert (Hlen : N.of_nat (length h) < two32) by (unfold short in Hs; lia).
  destruct (reachable_inv cfg h state0 0 inv_state0 bounded_state0) as [I B]; [lia|].
  apply (c06_step_ok cfg (final cfg h) o (0 + N.of_nat (length h)) (4 * N.of_nat (length h)) (4 * N.of_nat (length (h ++ [o]))));
    [exact I|exact B|lia|lia|by apply reachable_allref|exact Wf'|exact O'|exact Hok].
Qed.

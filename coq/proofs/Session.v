(* proofs/Session.v — the session-local part of request handling as a function of one
   session record ([sstep]), proved equal to what [handle_joined] does, and the
   per-request lemmas the property theorems are built from. *)
From hagall Require Import Model.
From hagall.proofs Require Import BaseLemmas Relay Inv.
From Coq Require Import Lia.

(* requests that touch only the sender's own session (and its own-entity set) *)
Definition session_local (r : req) : bool :=
  match r with
  | REntityAdd _ _ _ _ _ | REntityDelete _ _ _ | RPose _ _ _ | RCustom _ _ _ | RTypeAdd _ _ | RGetName _ _ | RGetId _ _
  | RCompAdd _ _ _ _ _ | RCompDelete _ _ _ _ | RCompUpdate _ _ _ _ | RCompList _ _ | RSubscribe _ _ | RUnsubscribe _ _
  | RAction _ _ _ | RAssetAdd _ _ _ _ => true
  | _ => false
  end.

Definition sstep (cfg : config) (c p : N) (own : gset N) (SS : session) (r : req) : session * gset N * list delivery :=
  match r with
  | REntityAdd rid persist flag po ots =>
      let eid := u32_succ (s_egen SS) in
      let e := {| e_owner := p; e_persist := persist; e_flag := flag; e_pose := default zero_pose po |} in
      let S1 := set_ents (<[eid := e]>) (set_egen eid SS) in
      (S1, own ∪ {[eid]},
       (c, MEntityAddResp rid eid) ::
       (if flag_on cfg F_ENTITY_ADD_B then [] else broadcast S1 p (MEntityAddB ots (ent_to_pb eid e))))
  | REntityDelete rid eid ots =>
      match s_ents SS !! eid with
      | None => (cleanup_modules cfg eid SS, own, [(c, MError rid E_NOT_FOUND)])
      | Some e =>
          if negb (e_owner e =? p) then (SS, own, [(c, MError rid E_UNAUTHORIZED)])
          else
            let S1 := set_ents (delete eid) (set_store (store_delete_entity eid) SS) in
            (cleanup_modules cfg eid S1, own ∖ {[eid]},
             (c, MEntityDeleteResp rid) ::
             (if flag_on cfg F_ENTITY_DELETE_B then [] else broadcast S1 p (MEntityDeleteB ots eid)))
      end
  | RPose eid po ots =>
      match s_ents SS !! eid, po with
      | Some e, Some ps =>
          if negb (e_owner e =? p) then (SS, own, [])
          else
            let e1 := {| e_owner := e_owner e; e_persist := e_persist e; e_flag := e_flag e; e_pose := ps |} in
            let S1 := set_ents (<[eid := e1]>) SS in
            (S1, own, if flag_on cfg F_POSE_B then [] else broadcast S1 p (MPoseB ots eid ps))
      | _, _ => (SS, own, [])
      end
  | RCustom rcpts body ots =>
      if custom_max <? N.of_nat (length body) then (SS, own, [(c, MError 0 E_TOO_LARGE)])
      else if flag_on cfg F_CUSTOM_B then (SS, own, [])
      else (SS, own, match rcpts with
                     | [] => broadcast SS p (MCustomB ots p body)
                     | _ => broadcast_to SS p rcpts (MCustomB ots p body) end)
  | RTypeAdd rid name =>
      if name =? 0 then (SS, own, [(c, MError rid E_BAD_REQUEST)])
      else let '(tid, s1) := store_add_type name (s_store SS) in
           (set_store (λ _, s1) SS, own, [(c, MTypeAddResp rid tid)])
  | RGetName rid tid =>
      if tid =? 0 then (SS, own, [(c, MError rid E_BAD_REQUEST)])
      else match st_names (s_store SS) !! tid with
           | Some name => (SS, own, [(c, MGetNameResp rid name)])
           | None => (SS, own, [(c, MError rid E_NOT_FOUND)]) end
  | RGetId rid name =>
      if name =? 0 then (SS, own, [(c, MError rid E_BAD_REQUEST)])
      else match st_ids (s_store SS) !! name with
           | Some tid => (SS, own, [(c, MGetIdResp rid tid)])
           | None => (SS, own, [(c, MError rid E_NOT_FOUND)]) end
  | RCompAdd rid tid eid data ots =>
      if (tid =? 0) || (eid =? 0) then (SS, own, [(c, MError rid E_BAD_REQUEST)])
      else match s_ents SS !! eid with
      | None => (SS, own, [(c, MError rid E_NOT_FOUND)])
      | Some _ =>
        match st_names (s_store SS) !! tid with
        | None => (SS, own, [(c, MError rid E_NOT_FOUND)])
        | Some _ =>
          match st_comps (s_store SS) !! (tid, eid) with
          | Some _ => (SS, own, [(c, MError rid E_CONFLICT)])
          | None =>
            let S1 := set_store (store_set_comps (<[(tid, eid) := data]>)) SS in
            (S1, own,
             (c, MCompAddResp rid) ::
             (if flag_on cfg F_COMP_ADD_B then []
              else if decide (subs_of (s_store SS) tid = ∅) then []
              else broadcast S1 p (MCompAddB ots {| cp_tid := tid; cp_eid := eid; cp_data := data |})))
          end
        end
      end
  | RCompDelete rid tid eid ots =>
      if (tid =? 0) || (eid =? 0) then (SS, own, [(c, MError rid E_BAD_REQUEST)])
      else match s_ents SS !! eid with
      | None => (SS, own, [(c, MError rid E_NOT_FOUND)])
      | Some _ =>
        match st_comps (s_store SS) !! (tid, eid) with
        | None => (SS, own, [(c, MError rid E_NOT_FOUND)])
        | Some _ =>
          let S1 := set_store (store_set_comps (delete (tid, eid))) SS in
          (S1, own,
           (if flag_on cfg F_COMP_DELETE_B then []
            else if decide (subs_of (s_store SS) tid = ∅) then []
            else broadcast S1 p (MCompDeleteB ots tid eid)) ++ [(c, MCompDeleteResp rid)])
        end
      end
  | RCompUpdate tid eid data ots =>
      if (tid =? 0) || (eid =? 0) then (SS, own, [])
      else match s_ents SS !! eid, st_comps (s_store SS) !! (tid, eid) with
      | Some _, Some _ =>
          let S1 := set_store (store_set_comps (<[(tid, eid) := data]>)) SS in
          (S1, own,
           if flag_on cfg F_COMP_UPDATE_B then []
           else if decide (subs_of (s_store SS) tid = ∅) then []
           else broadcast_to S1 p (set_to_sorted (subs_of (s_store SS) tid))
                  (MCompUpdateB ots {| cp_tid := tid; cp_eid := eid; cp_data := data |}))
      | _, _ => (SS, own, [])
      end
  | RCompList rid tid =>
      if tid =? 0 then (SS, own, [(c, MError rid E_BAD_REQUEST)])
      else (SS, own, [(c, MCompListResp rid (store_list tid (s_store SS)))])
  | RSubscribe rid tid =>
      if tid =? 0 then (SS, own, [(c, MError rid E_BAD_REQUEST)])
      else match st_names (s_store SS) !! tid with
      | None => (SS, own, [(c, MError rid E_NOT_FOUND)])
      | Some _ => (set_store (store_set_subs (λ m, <[tid := subs_of (s_store SS) tid ∪ {[p]}]> m)) SS, own, [(c, MSubResp rid)])
      end
  | RUnsubscribe rid tid =>
      if tid =? 0 then (SS, own, [(c, MError rid E_BAD_REQUEST)])
      else (set_store (store_set_subs (λ m, match m !! tid with Some s => <[tid := s ∖ {[p]}]> m | None => m end)) SS,
            own, [(c, MUnsubResp rid)])
  | RAction rid ao ots =>
      if negb (cfg_vikja cfg) then (SS, own, [])
      else match ao with
      | None => (SS, own, [(c, MError rid E_BAD_REQUEST)])
      | Some a =>
        if (a_name a =? 0) || negb (is_Some_b (a_ts a)) then (SS, own, [(c, MError rid E_BAD_REQUEST)])
        else match s_ents SS !! a_eid a with
        | None => (SS, own, [(c, MError rid E_BAD_REQUEST)])
        | Some _ =>
          if match s_actions SS !! (a_eid a, a_name a) with Some o => ts_before (a_ts a) (a_ts o) | None => false end
          then (SS, own, [(c, MError rid E_BAD_REQUEST)])
          else
            let S1 := set_actions (<[(a_eid a, a_name a) := a]>) SS in
            (S1, own, (c, MActionResp rid) :: broadcast S1 p (MActionB ots a))
        end
      end
  | RAssetAdd rid eid asset_id ots =>
      if negb (cfg_odal cfg) then (SS, own, [])
      else if asset_id =? 0 then (SS, own, [(c, MError rid E_BAD_REQUEST)])
      else match s_ents SS !! eid with
      | None => (SS, own, [(c, MError rid E_NOT_FOUND)])
      | Some e =>
        if negb (e_owner e =? p) then (SS, own, [(c, MError rid E_UNAUTHORIZED)])
        else
          let iid := u32_succ (s_agen SS) in
          let a := {| as_id := iid; as_asset := asset_id; as_pid := p; as_eid := eid |} in
          let S1 := set_assets (<[eid := a]>) (set_agen iid SS) in
          (S1, own, (c, MAssetAddResp rid iid) :: broadcast S1 p (MAssetAddB ots a))
      end
  | _ => (SS, own, [])
  end.

(* writing back what is already there changes nothing *)
Lemma put_session_id st sid SS : sessions st !! sid = Some SS → put_session st sid SS = st.
Proof.
  intros H. unfold put_session, set_sessions. rewrite (insert_id _ _ _ H). by destruct st.
Qed.
Lemma upd_conn_own_id st c cn : conns st !! c = Some cn → upd_conn c (set_own (λ _, c_own cn)) st = st.
Proof.
  intros H. unfold upd_conn, set_conns. rewrite H.
  replace (set_own (λ _, c_own cn) cn) with cn by (by destruct cn).
  rewrite (insert_id _ _ _ H). by destruct st.
Qed.
Lemma conns_put_session' st sid SS : conns (put_session st sid SS) = conns st.
Proof. done. Qed.

(* the global effect of a session-local request *)
Definition apply_sstep (st : state) (c sid : N) (res : session * gset N * list delivery) : hres :=
  (upd_conn c (set_own (λ _, snd (fst res))) (put_session st sid (fst (fst res))), snd res, VOk).

Theorem handle_joined_sstep cfg st c cn sid p SS r hint :
  session_local r = true → conns st !! c = Some cn → sessions st !! sid = Some SS →
  handle_joined cfg st c cn sid p SS r hint = apply_sstep st c sid (sstep cfg c p (c_own cn) SS r).
Proof.
  intros Hl Hc HS. unfold apply_sstep.
  assert (Hid : (upd_conn c (set_own (λ _, c_own cn)) (put_session st sid SS)) = st).
  { rewrite put_session_id by done. by apply upd_conn_own_id. }
  assert (Hown : ∀ SS', upd_conn c (set_own (λ _, c_own cn)) (put_session st sid SS') = put_session st sid SS').
  { intros SS'. by apply upd_conn_own_id. }
  assert (Hset : ∀ st' f, conns st' !! c = Some cn →
            upd_conn c (set_own f) st' = upd_conn c (set_own (λ _, f (c_own cn))) st').
  { intros st' f H. unfold upd_conn, set_conns. rewrite H. by destruct cn. }
  destruct r; try discriminate Hl; simpl.
  all: repeat case_match; simplify_eq; simpl; rewrite ?Hid, ?Hown; try reflexivity.
  all: try (erewrite Hset by exact Hc; reflexivity).
Qed.

(* ---------- facts about one sstep ---------- *)
Lemma sstep_uuid cfg c p own SS r : s_uuid (sstep cfg c p own SS r).1.1 = s_uuid SS.
Proof.
  destruct r; simpl; repeat case_match; simpl; try done.
  all: unfold cleanup_modules; repeat case_match; done.
Qed.
Lemma sstep_parts cfg c p own SS r : s_parts (sstep cfg c p own SS r).1.1 = s_parts SS.
Proof.
  destruct r; simpl; repeat case_match; simpl; try done.
  all: unfold cleanup_modules; repeat case_match; done.
Qed.
Lemma sstep_pgen cfg c p own SS r : s_pgen (sstep cfg c p own SS r).1.1 = s_pgen SS.
Proof.
  destruct r; simpl; repeat case_match; simpl; try done.
  all: unfold cleanup_modules; repeat case_match; done.
Qed.
Lemma sstep_frames cfg c p own SS r : s_frames (sstep cfg c p own SS r).1.1 = s_frames SS.
Proof.
  destruct r; simpl; repeat case_match; simpl; try done.
  all: unfold cleanup_modules; repeat case_match; done.
Qed.

(* ---------- from the global state to one session ---------- *)
Theorem handle_local cfg st c cn sid p SS r hint :
  conns st !! c = Some cn → c_cur cn = Some (sid, p) → sessions st !! sid = Some SS → session_local r = true →
  handle cfg st c r hint = apply_sstep st c sid (sstep cfg c p (c_own cn) SS r).
Proof.
  intros Hc Hcur HS Hl. unfold handle. rewrite Hc, Hcur, HS. by apply handle_joined_sstep.
Qed.

Lemma inv_member st c cn sid p SS :
  inv st → conns st !! c = Some cn → c_cur cn = Some (sid, p) → sessions st !! sid = Some SS →
  s_parts SS !! p = Some c ∧ parts_injective SS.
Proof.
  intros I Hc Hcur HS.
  assert (Hps : parts_of st sid = Some (s_parts SS)) by (unfold parts_of; by rewrite HS).
  split.
  - apply (inv_parts _ I sid _ p c Hps). unfold cur_of. by rewrite Hc.
  - intros q1 q2 c0 H1 H2. apply (inv_parts _ I sid _ _ _ Hps) in H1, H2. congruence.
Qed.

(* every reachable state satisfies the membership invariant *)
Lemma final_inv cfg h : N.of_nat (length h) < two32 → inv (final cfg h).
Proof.
  intros Hb. unfold final.
  destruct (reachable_inv cfg h state0 0 inv_state0 bounded_state0) as [I _]; [lia|done].
Qed.

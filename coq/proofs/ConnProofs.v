(* ConnProofs.v — proofs about the connection shell model Conn.v (property C08). *)

From Coq Require Import List Bool Arith Lia.
From hagall Require Import Conn.
Import ListNotations.

(* ------------------------------------------------------------------ reachability *)

Inductive reach (p : params) (ok : label -> bool) : state -> Prop :=
| reach_init : reach p ok init
| reach_step : forall s l s', reach p ok s -> ok l = true -> step p l s = Some s' -> reach p ok s'.

(* every behaviour of the model, panics and shutdown included *)
Definition reachable (p : params) := reach p (fun _ => true).
(* what a client can cause when the handlers are total and the server is not shutting down *)
Definition creachable (p : params) := reach p client_label.

Lemma creachable_reachable p s : creachable p s -> reachable p s.
Proof. induction 1; [constructor | econstructor; eauto]. Qed.

Lemma run_reach p ok ls : forall s s', reach p ok s -> forallb ok ls = true -> run p ls s = Some s' -> reach p ok s'.
Proof.
  induction ls as [|l ls IH]; simpl; intros s s' Hr Hok Hrun.
  - inversion Hrun; subst; auto.
  - apply andb_true_iff in Hok as [Hl Hls].
    destruct (step p l s) as [s1|] eqn:E; [|discriminate].
    eapply (IH s1 s'); auto. econstructor; eauto.
Qed.

(* ------------------------------------------------------------------ tactics *)

(* split a hypothesis `step p l s = Some s'` into its cases *)
Ltac break_match_hyp H :=
  match type of H with
  | context [match ?x with _ => _ end] =>
      match x with
      | context [match _ with _ => _ end] => fail 1
      | _ => destruct x eqn:?
      end
  end.

Ltac step_inv H :=
  cbv [step main_disc main_send disc client_gone client_stalled is_bad is_deferred
       main recv snd cli net_in queue pend sendq dchan tcp_out conn_open cancelled sched_closed discarding
       frame_blocked joined in_session idle idle_fired disconnect_calls gauge fired main_disc_calls consumed crashed
       set_main set_recv set_snd set_cli set_net set_queue set_pend set_sendq set_dchan set_tcp set_open
       set_cancelled set_sched_closed set_discarding set_frame_blocked set_joined set_in_session set_idle
       set_idle_fired set_dcalls set_gauge set_fired set_mdc set_consumed set_crashed] in H;
  repeat (break_match_hyp H; try discriminate H);
  try discriminate H;
  try (injection H as H; subst).

(* ------------------------------------------------------------------ C08_disconnect_at_most_once *)

(* where the main loop is determines how often HandleDisconnect has run *)
Definition dc_ok (m : mainpc) (dc : nat) : Prop :=
  match m with
  | MCancel => dc = 1
  | MWait | MReturned => dc <= 1
  | _ => dc = 0
  end.

Lemma dc_invariant p s : reachable p s -> dc_ok (main s) (disconnect_calls s).
Proof.
  induction 1 as [|s l s' Hr IH _ Hs].
  - simpl. reflexivity.
  - destruct s; simpl in *.
    destruct l; step_inv Hs; simpl in *; try assumption;
      repeat match goal with
             | |- context [if ?b then _ else _] => destruct b
             end; simpl in *; try assumption; try lia.
Qed.

Theorem disconnect_at_most_once : forall p s, reachable p s -> disconnect_calls s <= 1.
Proof.
  intros p s H. apply dc_invariant in H. destruct (main s); simpl in H; lia.
Qed.

(* ------------------------------------------------------------------ C08_main_never_self_blocks *)

Ltac crush_ifs :=
  repeat match goal with
         | |- context [if ?b then _ else _] => destruct b eqn:?
         | H : context [if ?b then _ else _] |- _ => destruct b eqn:?
         end.

Lemma nonblocking_never_blocked p s :
  disc_blocking p = false -> reachable p s -> main s <> MBlockDisc.
Proof.
  intros Hnb. induction 1 as [|s l s' Hr IH _ Hs].
  - simpl. discriminate.
  - destruct s; simpl in *.
    destruct l; step_inv Hs; simpl in *; try assumption; try discriminate; try congruence.
Qed.

(* the goroutines other than the main loop call disconnect() at most once each, and are then done *)
Definition others (s : state) : nat :=
  (match recv s with RDone => 1 | _ => 0 end) + (match snd s with SDone | SSink => 1 | _ => 0 end).

Definition blocked_flag (s : state) : nat := match main s with MBlockDisc => 1 | _ => 0 end.

Definition block_inv (p : params) (s : state) : Prop :=
  dchan s + blocked_flag s <= main_disc_calls s + others s
  /\ (main s = MBlockDisc -> cap_disc p <= dchan s).

Lemma block_invariant p s : reachable p s -> block_inv p s.
Proof.
  induction 1 as [|s l s' Hr IH _ Hs].
  - unfold block_inv, others, blocked_flag; simpl. split; [lia | discriminate].
  - destruct s; unfold block_inv, others, blocked_flag in *; simpl in *.
    destruct IH as [IH1 IH2].
    destruct l; step_inv Hs; simpl in *;
      (split; [ try lia | try (intro; discriminate); try assumption ]);
      try (intros _; apply Nat.ltb_ge; assumption);
      try (match goal with H : _ -> _ <= _ |- _ => specialize (H eq_refl) end; apply Nat.ltb_lt in Heqb0; lia);
      try (intro Hm; specialize (IH2 Hm); lia).
Qed.

(* the exact bound: the main loop blocks on its own disconnect() only when the channel is full, and
   the channel holds nothing but the main loop's own earlier calls and at most one entry from each
   of the two goroutines *)
Theorem main_self_block_bound :
  forall p s, reachable p s -> main s = MBlockDisc -> cap_disc p <= main_disc_calls s + 1.
Proof.
  intros p s Hr Hm. destruct (block_invariant p s Hr) as [H1 H2].
  specialize (H2 Hm). unfold blocked_flag, others in H1. rewrite Hm in H1.
  destruct (recv s), (snd s); simpl in H1; lia.
Qed.

(* once blocked there, blocked for ever: nobody else receives from disconnectChan *)
Lemma self_block_is_permanent p s l s' :
  main s = MBlockDisc -> cap_disc p <= dchan s -> step p l s = Some s' ->
  main s' = MBlockDisc /\ cap_disc p <= dchan s'.
Proof.
  intros Hm Hc Hs. destruct s; simpl in *. subst.
  destruct l; step_inv Hs; simpl in *; try (split; [reflexivity | assumption]); try discriminate;
    try (apply Nat.ltb_lt in Heqb0; lia); try (apply Nat.ltb_lt in Heqb1; lia); try (split; [reflexivity | lia]).
Qed.

(* ------------------------------------------------------------------ the invariant behind C08_clean_end *)

Definition no_panic_kind (k : kind) : bool := match k with KPanic => false | _ => true end.

Definition ending_pc (m : mainpc) : bool :=
  match m with MHD | MLeave | MCancel | MWait | MReturned => true | _ => false end.

Lemma forallb_snoc {A} (f : A -> bool) l x : forallb f (l ++ [x]) = forallb f l && f x.
Proof. rewrite forallb_app. simpl. rewrite andb_true_r. reflexivity. Qed.

Record ginv (p : params) (s : state) : Prop := mkGinv {
  g_np_net : forallb no_panic_kind (net_in s) = true;
  g_np_queue : forallb no_panic_kind (queue s) = true;
  g_np_recv : match recv s with RHave k => no_panic_kind k = true | _ => True end;
  g_main : match main s with MBlockDisc | MPanicking | MPanicked => False | _ => True end;
  g_cancel : cancelled s = ending_pc (main s) && negb (match main s with MHD | MLeave | MCancel => true | _ => false end);
  g_fired : fired s = true -> 1 <= dchan s \/ ending_pc (main s) = true;
  g_discarding : match main s with MHD | MLeave | MCancel | MWait => discarding s = true | _ => True end;
  g_open : match main s with MLeave | MCancel | MWait | MReturned => conn_open s = false | _ => True end;
  g_closed : sched_closed s = match main s with MReturned => true | _ => false end;
  g_returned : match main s with MReturned => recv s = RDone /\ snd s = SDone | _ => True end;
  g_sdone : snd s = SDone -> cancelled s = true;
  g_gauge : gauge s + disconnect_calls s = 1;
  g_dc : disconnect_calls s = match main s with MCancel | MWait | MReturned => 1 | _ => 0 end;
  g_sess : match main s with MCancel | MWait | MReturned => in_session s = false | _ => True end;
  g_frame : frame_blocked s = true -> in_session s = true /\ 1 <= pend s;
  g_crashed : crashed s = false
}.

Lemma ginv_init p : ginv p init.
Proof. constructor; simpl; auto; try discriminate; try lia. Qed.

Ltac arith_hyps :=
  repeat match goal with
         | H : _ && _ = true |- _ => apply andb_true_iff in H as [? ?]
         | H : negb _ = true |- _ => apply negb_true_iff in H
         | H : negb _ = false |- _ => apply negb_false_iff in H
         | H : (_ <? _) = true |- _ => apply Nat.ltb_lt in H
         | H : (_ <? _) = false |- _ => apply Nat.ltb_ge in H
         | H : (_ =? _) = true |- _ => apply Nat.eqb_eq in H
         | H : (_ =? _) = false |- _ => apply Nat.eqb_neq in H
         | H : (_ <=? _) = true |- _ => apply Nat.leb_le in H
         | H : (_ <=? _) = false |- _ => apply Nat.leb_gt in H
         end.

Lemma ginv_step p s l s' :
  good p = true -> ginv p s -> client_label l = true -> step p l s = Some s' -> ginv p s'.
Proof.
  intros Hg [A1 A2 A3 A4 A5 A6 A7 A8 A9 A10 A11 A12 A13 A14 A15 A16] Hl Hs.
  unfold good in Hg. repeat (apply andb_true_iff in Hg as [Hg ?]).
  apply negb_true_iff in Hg. arith_hyps.
  destruct s; simpl in *.
  destruct l; try discriminate Hl; step_inv Hs; arith_hyps; simpl in *; subst; simpl in *;
    try contradiction; try discriminate;
    (constructor; simpl in *;
     repeat rewrite forallb_snoc;
     arith_hyps;
     rewrite ?A1, ?A2; simpl;
     try assumption; try reflexivity; try tauto; try discriminate; try lia; try congruence;
     try (intros; discriminate); try (intros; lia); try (split; congruence);
     try (destruct main; simpl in *; try contradiction; try discriminate;
          intuition (try discriminate; try congruence; try lia));
     try (destruct in_session; destruct frame_blocked; simpl in *;
          intuition (try discriminate; try congruence; try lia));
     try exact init).
Qed.

Lemma ginv_creachable p s : good p = true -> creachable p s -> ginv p s.
Proof.
  intros Hg. induction 1 as [|s l s' Hr IH Hl Hs].
  - apply ginv_init.
  - eapply ginv_step; eauto.
Qed.

(* ------------------------------------------------------------------ the measure *)

Lemma measure_decreases p l s s' :
  quiet l = true -> step p l s = Some s' -> measure s' < measure s.
Proof.
  intros Hq Hs. destruct s; simpl in *.
  destruct l; try discriminate Hq; step_inv Hs; unfold measure; simpl;
    rewrite ?app_length; simpl; try lia.
  arith_hyps. destruct pend; [simpl in *; congruence|]. destruct frame_blocked; simpl; lia.
Qed.

(* a sequence of quiet steps is no longer than the measure of the state it starts from *)
Lemma quiet_run_bounded p ls : forall s s',
  forallb quiet ls = true -> run p ls s = Some s' -> length ls + measure s' <= measure s.
Proof.
  induction ls as [|l ls IH]; simpl; intros s s' Hq Hr.
  - inversion Hr; subst. lia.
  - apply andb_true_iff in Hq as [Hl Hls].
    destruct (step p l s) as [s1|] eqn:E; [|discriminate].
    pose proof (measure_decreases p l s s1 Hl E).
    pose proof (IH s1 s' Hls Hr). lia.
Qed.

(* ------------------------------------------------------------------ no stuck state after a failure *)

Ltac en :=
  unfold enabled;
  cbv [step main_disc main_send disc client_gone client_stalled is_bad is_deferred
       main recv snd cli net_in queue pend sendq dchan tcp_out conn_open cancelled sched_closed discarding
       frame_blocked joined in_session idle idle_fired disconnect_calls gauge fired main_disc_calls consumed crashed
       set_main set_recv set_snd set_cli set_net set_queue set_pend set_sendq set_dchan set_tcp set_open
       set_cancelled set_sched_closed set_discarding set_frame_blocked set_joined set_in_session set_idle
       set_idle_fired set_dcalls set_gauge set_fired set_mdc set_consumed set_crashed];
  simpl.

Lemma no_stuck_after_failure p s :
  good p = true -> ginv p s -> fired s = true -> returned s = false ->
  exists l, quiet l = true /\ enabled p l s = true.
Proof.
  intros Hg [A1 A2 A3 A4 A5 A6 A7 A8 A9 A10 A11 A12 A13 A14 A15 A16] Hf Hret.
  unfold good in Hg. repeat (apply andb_true_iff in Hg as [Hg ?]).
  apply negb_true_iff in Hg. arith_hyps.
  destruct s; simpl in *. subst.
  destruct main; simpl in *; try contradiction; try discriminate.
  - (* MSelect *)
    destruct (A6 eq_refl) as [Hd|Hd]; [|discriminate].
    exists LMainDisc. split; [reflexivity|]. en. destruct dchan; [lia|reflexivity].
  - (* MLoop *)
    exists LMainLoop. split; [reflexivity|]. en. reflexivity.
  - (* MBlockSend *)
    destruct (sendq <? cap_send p) eqn:E.
    + exists LMainSendDone. split; [reflexivity|]. en. rewrite E. reflexivity.
    + arith_hyps. destruct sendq as [|n]; [lia|].
      destruct snd.
      * exists LSendTake. split; [reflexivity|]. en. reflexivity.
      * destruct conn_open eqn:Eo.
        -- destruct cli.
           ++ exists LSendWrite. split; [reflexivity|]. en. reflexivity.
           ++ destruct (tcp_out <? cap_tcp p) eqn:Et.
              ** exists LSendWrite. split; [reflexivity|]. en. rewrite Et. reflexivity.
              ** exists LSendTimeout. split; [reflexivity|]. en. rewrite Et, H2. reflexivity.
           ++ exists LSendWriteFail. split; [reflexivity|]. en. reflexivity.
        -- exists LSendWriteFail. split; [reflexivity|]. en. reflexivity.
      * exists LSendDisc. split; [reflexivity|]. en. rewrite Hg. destruct (dchan <? cap_disc p); reflexivity.
      * exists LSendTake. split; [reflexivity|]. en. reflexivity.
      * specialize (A11 eq_refl). discriminate.
  - (* MHD *)
    exists LMainHDClose. split; [reflexivity|]. en. reflexivity.
  - (* MLeave *)
    destruct (in_session && frame_blocked) eqn:E.
    + apply andb_true_iff in E as [E1 E2]. subst. destruct (A15 eq_refl) as [_ Hp].
      destruct (length queue <? cap_queue p) eqn:Eq.
      * exists LFrame. split; [reflexivity|]. en. destruct pend; [lia|]. simpl. rewrite Eq. reflexivity.
      * arith_hyps. exists LDiscard. split; [reflexivity|]. en. rewrite ?A7.
        destruct queue; [simpl in *; lia | reflexivity].
    + exists LMainHDLeave. split; [reflexivity|]. en. rewrite E. reflexivity.
  - (* MCancel *)
    exists LMainCancel. split; [reflexivity|]. en. reflexivity.
  - (* MWait *)
    destruct recv.
    + exists LRecvExit. split; [reflexivity|]. en. reflexivity.
    + exists LRecvErr. split; [reflexivity|]. en. rewrite ?A8. reflexivity.
    + destruct (is_deferred k) eqn:Ek.
      * exists LRecvDispatch. split; [reflexivity|]. en. unfold is_deferred in Ek. rewrite Ek. reflexivity.
      * destruct (length queue <? cap_queue p) eqn:Eq.
        -- exists LRecvDispatch. split; [reflexivity|]. en. unfold is_deferred in Ek. rewrite Ek, Eq. reflexivity.
        -- arith_hyps. exists LDiscard. split; [reflexivity|]. en. rewrite ?A7.
           destruct queue; [simpl in *; lia | reflexivity].
    + exists LRecvDisc. split; [reflexivity|]. en. rewrite Hg. destruct (dchan <? cap_disc p); reflexivity.
    + destruct snd.
      * exists LSendExit. split; [reflexivity|]. en. reflexivity.
      * exists LSendWriteFail. split; [reflexivity|]. en. rewrite ?A8. reflexivity.
      * exists LSendDisc. split; [reflexivity|]. en. rewrite Hg. destruct (dchan <? cap_disc p); reflexivity.
      * exists LSendExit. split; [reflexivity|]. en. reflexivity.
      * exists LMainWaitDone. split; [reflexivity|]. en. reflexivity.
Qed.

(* the final states are the clean ones *)
Lemma returned_is_clean p s : ginv p s -> returned s = true -> clean_final s = true.
Proof.
  intros [A1 A2 A3 A4 A5 A6 A7 A8 A9 A10 A11 A12 A13 A14 A15 A16] Hr.
  destruct s; simpl in *. destruct main; try discriminate. simpl in *.
  destruct A10 as [? ?]. subst. unfold clean_final; simpl.
  assert (gauge = 0) by lia. subst. reflexivity.
Qed.

(* ------------------------------------------------------------------ C08_clean_end *)

Lemma quiet_client l : quiet l = true -> client_label l = true.
Proof. destruct l; try reflexivity; try discriminate. Qed.

Lemma fired_monotone p l s s' : step p l s = Some s' -> fired s = true -> fired s' = true.
Proof.
  intros Hs Hf. destruct s; simpl in *. subst.
  destruct l; step_inv Hs; reflexivity.
Qed.

Lemma run_fired p ls : forall s s', run p ls s = Some s' -> fired s = true -> fired s' = true.
Proof.
  induction ls as [|l ls IH]; simpl; intros s s' Hr Hf.
  - inversion Hr; subst; auto.
  - destruct (step p l s) as [s1|] eqn:E; [|discriminate].
    eapply IH; eauto. eapply fired_monotone; eauto.
Qed.

Lemma forallb_quiet_client ls : forallb quiet ls = true -> forallb client_label ls = true.
Proof.
  induction ls; simpl; auto. intros H. apply andb_true_iff in H as [H1 H2].
  rewrite (quiet_client _ H1). auto.
Qed.

(* From any state a client can bring about in which a failure has fired (somebody has called
   disconnect), with the fixes in place:
   (1) as long as Handle has not returned, some step of the server's own goroutines that is not a
       choice of `select` among other ready cases is possible — nothing is stuck, and no help from
       the client is needed;
   (2) every sequence of such steps is finite, bounded by the explicit measure;
   (3) when no such step is possible any more, Handle has returned, HandleDisconnect has run
       exactly once, receiver and sender are done, the gauge is back and the participant is out of
       its session.
   Not covered (named in the evidence): that a fair scheduler eventually takes those steps — Go's
   select picks the ready disconnect case with probability >= 1/4 at each iteration, goroutines are
   not starved — is a property of the runtime, observed at L2. *)
Theorem clean_end :
  forall p, good p = true -> forall s, creachable p s -> fired s = true ->
    (returned s = false -> exists l, quiet l = true /\ enabled p l s = true)
    /\ (forall ls s', forallb quiet ls = true -> run p ls s = Some s' -> length ls <= measure s)
    /\ (forall ls s', forallb quiet ls = true -> run p ls s = Some s' ->
          (forall l, quiet l = true -> enabled p l s' = false) -> clean_final s' = true).
Proof.
  intros p Hg s Hr Hf. split; [|split].
  - intros Hret. apply no_stuck_after_failure; auto. apply ginv_creachable; auto.
  - intros ls s' Hq Hrun. pose proof (quiet_run_bounded p ls s s' Hq Hrun). lia.
  - intros ls s' Hq Hrun Hno.
    assert (Hr' : creachable p s') by (eapply run_reach; eauto using forallb_quiet_client).
    assert (Hf' : fired s' = true) by (eapply run_fired; eauto).
    pose proof (ginv_creachable p s' Hg Hr') as Gi.
    destruct (returned s') eqn:Eret.
    + apply (returned_is_clean p); auto.
    + destruct (no_stuck_after_failure p s' Hg Gi Hf' Eret) as [l [Hl He]].
      rewrite (Hno l Hl) in He. discriminate.
Qed.

(* ------------------------------------------------------------------ C08_idle *)

Lemma run_ticks p n : forall s, crashed s = false ->
  exists s', run p (repeat LTick n) s = Some s' /\ idle s' = idle s + n /\ main s' = main s
             /\ idle_fired s' = idle_fired s /\ crashed s' = false /\ dchan s' = dchan s /\ queue s' = queue s.
Proof.
  induction n as [|n IH]; intros s Hc; simpl.
  - exists s. repeat split; auto.
  - unfold step at 1. rewrite Hc.
    destruct (IH (set_idle (S (idle s)) s)) as [s' [H1 [H2 [H3 [H4 [H5 [H6 H7]]]]]]]; [destruct s; simpl in *; auto|].
    exists s'. destruct s; simpl in *. repeat split; auto. lia.
Qed.

(* silence for the idle timeout makes the idle case of the select ready *)
Theorem idle_fires :
  forall p s n, main s = MSelect -> idle_fired s = false -> crashed s = false -> idle_timeout p <= idle s + n ->
    exists s', run p (repeat LTick n) s = Some s' /\ enabled p LMainIdle s' = true.
Proof.
  intros p s n Hm Hf Hc Hn.
  destruct (run_ticks p n s Hc) as [s' [H1 [H2 [H3 [H4 [H5 _]]]]]].
  exists s'. split; auto. destruct s'; simpl in *. en. subst.
  rewrite Hm, Hf. simpl.
  assert (E : (idle_timeout p <=? Conn.idle s + n) = true) by (apply Nat.leb_le; lia).
  rewrite E. reflexivity.
Qed.

(* the idle case is ready only after a full timeout without a consumed message *)
Theorem idle_not_early : forall p s, enabled p LMainIdle s = true -> idle_timeout p <= idle s /\ idle_fired s = false.
Proof.
  intros p s H. unfold enabled in H. destruct (step p LMainIdle s) eqn:E; [|discriminate].
  destruct s; simpl in *. step_inv E; arith_hyps; auto.
Qed.

(* every message the main loop consumes re-arms the timer *)
Theorem idle_rearmed : forall p s s', rearm p = true -> step p LMainMsg s = Some s' -> idle s' = 0 /\ idle_fired s' = false.
Proof.
  intros p s s' Hre Hs. destruct s; simpl in *. step_inv Hs; simpl; auto; congruence.
Qed.

(* only the passing of time ages the timer *)
Theorem idle_only_time : forall p l s s', step p l s = Some s' -> l <> LTick -> idle s' <= idle s.
Proof.
  intros p l s s' Hs Hl. destruct s; simpl in *.
  destruct l; try congruence; step_inv Hs; simpl; lia.
Qed.

(* ------------------------------------------------------------------ witnesses (by computation) *)

Definition recv_one : list label := [LRecvPass; LRecvRead; LRecvDispatch].

(* F6: nine failing requests consumed before the disconnect case is selected *)
Definition burst_witness : list label :=
  repeat (LClientSend KFail) 9 ++ concat (repeat recv_one 9) ++ concat (repeat [LMainMsg; LMainLoop] 8) ++ [LMainMsg; LRecvPass].

Theorem burst_refuted :
  exists s, forallb client_label burst_witness = true
            /\ run params_before burst_witness init = Some s
            /\ main_blocked_on_disconnect s = true /\ stuck params_before s = true
            /\ disconnect_calls s = 0 /\ gauge s = 1 /\ main_disc_calls s = 9 /\ cap_disc params_before <= dchan s.
Proof.
  eexists. split; [vm_compute; reflexivity|]. split; [vm_compute; reflexivity|].
  vm_compute. repeat split; auto.
Qed.

(* the same client behaviour against the fixed shell ends cleanly *)
Example burst_fixed_clean :
  exists s, run params_fixed (burst_witness ++ [LMainLoop; LMainDisc; LMainHDClose; LMainHDLeave; LMainCancel; LRecvErr; LRecvDisc; LSendExit; LMainWaitDone]) init = Some s
            /\ clean_final s = true.
Proof. eexists. split; vm_compute; reflexivity. Qed.

(* eight are enough when a goroutine reports a failure of its own after the main loop has left:
   a member with one answer still in sendChan sends eight failing requests *)
Definition wait_wedge_witness : list label :=
  [LClientSend KJoin] ++ recv_one ++ [LMainMsg; LMainLoop]                       (* joined, the answer waits in sendChan *)
  ++ repeat (LClientSend KFail) 8 ++ concat (repeat recv_one 8) ++ [LRecvPass]
  ++ concat (repeat [LMainMsg; LMainLoop] 8)                                      (* disconnectChan is full *)
  ++ [LMainDisc; LMainHDClose; LMainHDLeave; LMainCancel]                         (* 7 left; socket closed; left the session *)
  ++ [LRecvErr; LRecvDisc]                                                        (* the receiver reports its failure: 8 *)
  ++ [LSendTake; LSendWriteFail].                                                 (* the sender's report does not fit *)

Theorem wait_wedge :
  exists s, forallb client_label wait_wedge_witness = true
            /\ run params_before wait_wedge_witness init = Some s
            /\ main s = MWait /\ snd s = SFailed /\ stuck params_before s = true /\ disconnect_calls s = 1.
Proof.
  eexists. split; [vm_compute; reflexivity|]. split; [vm_compute; reflexivity|].
  vm_compute. repeat split; auto.
Qed.

(* the receiver blocked on the full scheduler queue after the main loop has left (bursts of 300) *)
Definition queue_wedge_witness : list label :=
  [LClientSend KFail] ++ recv_one ++ [LMainMsg; LMainLoop]
  ++ repeat (LClientSend KValid) 257 ++ concat (repeat recv_one 256) ++ [LRecvPass; LRecvRead]
  ++ [LMainDisc; LMainHDClose; LMainHDLeave; LMainCancel; LSendExit].

Theorem queue_wedge :
  exists s, forallb client_label queue_wedge_witness = true
            /\ run params_before queue_wedge_witness init = Some s
            /\ main s = MWait /\ recv s = RHave KValid /\ stuck params_before s = true /\ disconnect_calls s = 1.
Proof.
  eexists. split; [vm_compute; reflexivity|]. split; [vm_compute; reflexivity|].
  vm_compute. repeat split; auto.
Qed.

(* the frame worker blocked on the full queue while the main loop leaves the session *)
Definition frame_wedge_witness : list label :=
  [LClientSend KJoin] ++ recv_one ++ [LMainMsg; LMainLoop; LSendTake; LSendWrite]
  ++ [LClientSend KDeferred] ++ recv_one
  ++ [LClientSend KFail] ++ recv_one ++ [LMainMsg; LMainLoop]
  ++ repeat (LClientSend KValid) 256 ++ concat (repeat recv_one 256)
  ++ [LFrame; LMainDisc; LMainHDClose; LRecvPass; LRecvErr; LRecvDisc].

Theorem frame_wedge :
  exists s, forallb client_label frame_wedge_witness = true
            /\ run params_before frame_wedge_witness init = Some s
            /\ main s = MLeave /\ frame_blocked s = true /\ stuck params_before s = true /\ disconnect_calls s = 0.
Proof.
  eexists. split; [vm_compute; reflexivity|]. split; [vm_compute; reflexivity|].
  vm_compute. repeat split; auto.
Qed.

(* a client that does not read: the main loop ends up blocked on its own sendChan, where the idle
   timeout cannot fire *)
Definition stall_wedge_witness : list label :=
  [LClientStall]
  ++ concat (repeat [LMainSync; LMainLoop; LSendTake; LSendWrite] 64)
  ++ [LMainSync; LMainLoop; LSendTake]
  ++ concat (repeat [LMainSync; LMainLoop] 512)
  ++ [LMainSync; LRecvPass] ++ repeat LTick 1000.

Theorem stall_wedge :
  exists s, forallb client_label stall_wedge_witness = true
            /\ run params_before stall_wedge_witness init = Some s
            /\ main s = MBlockSend /\ stuck params_before s = true /\ fired s = false
            /\ (idle_timeout params_before <=? idle s) = true /\ enabled params_before LMainIdle s = false.
Proof.
  eexists. split; [vm_compute; reflexivity|]. split; [vm_compute; reflexivity|].
  vm_compute. repeat split; auto.
Qed.

(* with the write deadline the same client is ended *)
Example stall_fixed_clean :
  exists s, run params_fixed (stall_wedge_witness ++ [LSendTimeout; LSendDisc; LSendTake; LMainSendDone; LMainLoop; LMainDisc; LMainHDClose; LMainHDLeave; LMainCancel] ) init = Some s /\ fired s = true /\ main s = MWait.
Proof. eexists. split; [vm_compute; reflexivity|]. vm_compute. split; reflexivity. Qed.

(* a handler panic: net/http recovers, HandleDisconnect is skipped (ghost member, gauge stuck), and
   the next message the receiver hands over hits the closed scheduler queue: the process dies.
   Holds whatever the shell's parameters: this is why the handlers must be total. *)
Definition panic_witness : list label :=
  [LClientSend KJoin] ++ recv_one ++ [LMainMsg; LMainLoop]
  ++ [LClientSend KPanic; LClientSend KValid] ++ recv_one ++ [LRecvPass; LRecvRead]
  ++ [LMainMsg; LHttpRecover].

Theorem panic_skips_disconnect :
  forall p, p = params_before \/ p = params_fixed ->
  exists s s', run p panic_witness init = Some s
            /\ main s = MPanicked /\ disconnect_calls s = 0 /\ gauge s = 1 /\ in_session s = true
            /\ step p LRecvDispatch s = Some s' /\ crashed s' = true.
Proof.
  intros p [-> | ->]; eexists; eexists; (split; [vm_compute; reflexivity|]); vm_compute; repeat split; auto.
Qed.

(* server shutdown (not a client behaviour): the loop is left without HandleDisconnect *)
Theorem shutdown_skips_disconnect :
  exists s, run params_fixed [LShutdown; LMainCtx; LMainLoop; LRecvExit; LSendExit; LMainWaitDone] init = Some s
            /\ returned s = true /\ disconnect_calls s = 0.
Proof. eexists. split; [vm_compute; reflexivity|]. vm_compute. split; reflexivity. Qed.

(* ------------------------------------------------------------------ packaged for Properties/C08.v *)

Lemma run_reachable p ls s : run p ls init = Some s -> reachable p s.
Proof.
  intros H. eapply (run_reach p (fun _ => true) ls init s); auto.
  - constructor.
  - clear H. induction ls; simpl; auto.
Qed.

Theorem never_self_blocked :
  forall p, disc_blocking p = false -> forall s, reachable p s -> main_blocked_on_disconnect s = false.
Proof.
  intros p Hp s H. pose proof (nonblocking_never_blocked p s Hp H).
  unfold main_blocked_on_disconnect. destruct (main s); auto; congruence.
Qed.

Theorem idle_clauses :
  forall pg, rearm pg = true ->
  (forall p s n, main s = MSelect -> idle_fired s = false -> crashed s = false -> idle_timeout p <= idle s + n ->
     exists s', run p (repeat LTick n) s = Some s' /\ enabled p LMainIdle s' = true)
  /\ (forall p s, enabled p LMainIdle s = true -> idle_timeout p <= idle s /\ idle_fired s = false)
  /\ (forall s s', step pg LMainMsg s = Some s' -> idle s' = 0 /\ idle_fired s' = false)
  /\ (forall p l s s', step p l s = Some s' -> l <> LTick -> idle s' <= idle s).
Proof.
  intros pg Hre.
  split; [exact idle_fires|]. split; [exact idle_not_early|]. split; [|exact idle_only_time].
  intros s s'. apply idle_rearmed. exact Hre.
Qed.

(* the bound of main_self_block_bound is attained: the receiver and the sender each contribute one
   entry, the main loop blocks on its seventh call (capacity 8) *)
Definition bound_tight_witness : list label :=
  [LClientSend KJoin] ++ recv_one ++ [LMainMsg; LMainLoop]
  ++ repeat (LClientSend KFail) 7 ++ [LClientSend KBad] ++ concat (repeat recv_one 7) ++ [LRecvPass; LRecvRead; LRecvDisc]
  ++ [LClientClose; LSendTake; LSendWriteFail; LSendDisc]
  ++ concat (repeat [LMainMsg; LMainLoop] 6) ++ [LMainMsg].

Theorem self_block_bound_tight :
  exists s, run params_before bound_tight_witness init = Some s
            /\ main s = MBlockDisc /\ main_disc_calls s + 1 = cap_disc params_before.
Proof. eexists. split; [vm_compute; reflexivity|]. vm_compute. split; reflexivity. Qed.

Theorem once_example :
  exists s, reachable params_fixed s /\ disconnect_calls s = 1 /\ clean_final s = true.
Proof.
  destruct burst_fixed_clean as [s [Hr Hc]].
  exists s. split; [eapply run_reachable; eauto|]. split; auto.
  unfold clean_final in Hc. repeat (apply andb_true_iff in Hc as [Hc ?]).
  apply Nat.eqb_eq. assumption.
Qed.

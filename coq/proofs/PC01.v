(* proofs/PC01.v — replicated views (C01): what a newcomer is handed is exactly the session state; a replica
   that applies the relayed message performs the same change as the server (participants and entities). *)
From stdpp Require Import relations.
From hagall Require Import Model Preds2.
From hagall.proofs Require Import BaseLemmas Relay Inv Session Local Trans WF Mono Reach PC02.
From Coq Require Import Lia.

(* ---------- the newcomer's snapshot ---------- *)
Lemma session_state_exact SS :
  ∃ ps es cs, session_state_msg SS = MSessionState ps es cs ∧
    (∀ q, q ∈ ps ↔ is_Some (s_parts SS !! q)) ∧ NoDup ps ∧
    (∀ x, x ∈ es ↔ ∃ e ent, s_ents SS !! e = Some ent ∧ x = ent_to_pb e ent) ∧ NoDup (map ep_id es) ∧
    (∀ x, x ∈ cs ↔ st_comps (s_store SS) !! (cp_tid x, cp_eid x) = Some (cp_data x)).
Proof.
  eexists _, _, _. split; [reflexivity|]. split; [|split; [|split; [|split]]].
  - intros q. rewrite elem_of_list_fmap. split.
    + intros ([q' c]&->&H). apply elem_of_map_to_list in H. eauto.
    + intros [c H]. exists (q, c). split; [done|]. by apply elem_of_map_to_list.
  - apply NoDup_fst_map_to_list.
  - intros x. unfold ents_pb. rewrite elem_of_list_fmap. split.
    + intros ([e ent]&->&H). apply elem_of_map_to_list in H. eauto.
    + intros (e&ent&H&->). exists (e, ent). split; [done|]. by apply elem_of_map_to_list.
  - unfold ents_pb. rewrite <- list_fmap_compose.
    replace (map (ep_id ∘ (λ kv : N * entity, ent_to_pb kv.1 kv.2)) (map_to_list (s_ents SS))) with (map fst (map_to_list (s_ents SS)));
      [apply NoDup_fst_map_to_list|]. apply list_fmap_ext. by intros ? [? ?].
  - intros x. unfold store_list_all, comp_list. rewrite elem_of_list_fmap. split.
    + intros ([[t e] d]&->&H). simpl. by apply elem_of_map_to_list in H.
    + intros H. exists ((cp_tid x, cp_eid x), cp_data x). split; [by destruct x|]. by apply elem_of_map_to_list.
Qed.
Lemma module_state_exact cfg c SS :
  module_join_msgs cfg c SS =
    (if cfg_vikja cfg then [(c, MVikjaState (map snd (map_to_list (s_actions SS))))] else []) ++
    (if cfg_odal cfg then [(c, MOdalState (map snd (map_to_list (s_assets SS))))] else []).
Proof. done. Qed.
Lemma map_snd_map_to_list_elem `{Countable K} {A} (m : gmap K A) x : x ∈ map snd (map_to_list m) ↔ ∃ k, m !! k = Some x.
Proof.
  rewrite elem_of_list_fmap. split.
  - intros ([k y]&->&Hk). apply elem_of_map_to_list in Hk. eauto.
  - intros [k Hk]. exists (k, x). split; [done|]. by apply elem_of_map_to_list.
Qed.

(* ---------- the participant / entity part of a view ---------- *)
Definition view_matches (v : view) (SS : session) : Prop :=
  v_parts v = dom (s_parts SS) ∧ v_ents v = map_imap (λ e ent, Some (ent_to_pb e ent)) (s_ents SS).

Lemma imap_insert (m : gmap N entity) e ent :
  map_imap (λ e ent, Some (ent_to_pb e ent)) (<[e := ent]> m) = <[e := ent_to_pb e ent]> (map_imap (λ e ent, Some (ent_to_pb e ent)) m).
Proof.
  apply map_eq. intros k. rewrite map_lookup_imap. destruct (decide (k = e)) as [->|Hne].
  - by rewrite !lookup_insert.
  - by rewrite !lookup_insert_ne, map_lookup_imap by done.
Qed.
Lemma imap_delete (m : gmap N entity) e :
  map_imap (λ e ent, Some (ent_to_pb e ent)) (delete e m) = delete e (map_imap (λ e ent, Some (ent_to_pb e ent)) m).
Proof.
  apply map_eq. intros k. rewrite map_lookup_imap. destruct (decide (k = e)) as [->|Hne].
  - by rewrite !lookup_delete.
  - by rewrite !lookup_delete_ne, map_lookup_imap by done.
Qed.
Lemma imap_lookup (m : gmap N entity) e :
  map_imap (λ e ent, Some (ent_to_pb e ent)) m !! e = ent_to_pb e <$> m !! e.
Proof. rewrite map_lookup_imap. by destruct (m !! e). Qed.

(* an entity-add broadcast is applicable to a matching replica and leads to a replica matching the new state *)
Lemma view_entity_add v SS S1 ots eid e :
  view_matches v SS → s_ents SS !! eid = None → s_ents S1 = <[eid := e]> (s_ents SS) → s_parts S1 = s_parts SS →
  ∃ v', view_recv v (MEntityAddB ots (ent_to_pb eid e)) = (true, v') ∧ view_matches v' S1.
Proof.
  intros [M1 M2] Hn E1 E2. eexists. split.
  - simpl. rewrite M2, imap_lookup, Hn. reflexivity.
  - split; simpl; [by rewrite E2|]. by rewrite M2, E1, imap_insert.
Qed.
Lemma view_pose v SS S1 ots eid e ps :
  view_matches v SS → s_ents SS !! eid = Some e →
  s_ents S1 = <[eid := {| e_owner := e_owner e; e_persist := e_persist e; e_flag := e_flag e; e_pose := ps |}]> (s_ents SS) →
  s_parts S1 = s_parts SS →
  ∃ v', view_recv v (MPoseB ots eid ps) = (true, v') ∧ view_matches v' S1.
Proof.
  intros [M1 M2] He E1 E2. eexists. split.
  - simpl. rewrite M2, imap_lookup, He. simpl. reflexivity.
  - split; simpl; [by rewrite E2|]. rewrite M2, E1, imap_insert. done.
Qed.
Lemma view_join v SS c ots :
  view_matches v SS → s_parts SS !! u32_succ (s_pgen SS) = None →
  ∃ v', view_recv v (MJoinB ots (u32_succ (s_pgen SS))) = (true, v') ∧ view_matches v' (entered SS c).
Proof.
  intros [M1 M2] Hn. eexists. split.
  - simpl. rewrite bool_decide_eq_true_2; [reflexivity|]. rewrite M1. by apply not_elem_of_dom.
  - split; simpl; [|done]. rewrite M1, dom_insert_L. set_solver.
Qed.
Lemma view_leave v SS cfg c p own :
  view_matches v SS → is_Some (s_parts SS !! p) →
  ∃ v', view_recv v (MLeaveB p) = (true, v') ∧ v_parts v' = dom (s_parts (left_session cfg c p own SS)).
Proof.
  intros [M1 M2] Hp. eexists. split.
  - simpl. rewrite bool_decide_eq_true_2; [reflexivity|]. rewrite M1. by apply elem_of_dom.
  - destruct (left_session_parts cfg c p own SS) as [EL _]. rewrite EL. simpl. rewrite M1, dom_delete_L. done.
Qed.

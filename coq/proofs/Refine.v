(* proofs/Refine.v — the model refines the trace-determined specification (membership part).

   The predicates of Preds.v judge a trace against the spec state [spec_after] that Spec.v computes
   from the answers alone.  Here: after every prefix of every history the membership part of that
   spec state is the abstraction of the model state ([refines_mem]); consequently the model's own
   trace is never flagged by P_C07 (proofs/Refine2.v). *)
From stdpp Require Import relations sorting.
From hagall Require Import Model Spec Obs Preds.
From hagall.proofs Require Import BaseLemmas Relay Inv Session Local Trans WF Mono Reach PC07.
From Coq Require Import Lia.

(* ================= sorting: canonical lists are determined by their elements ================= *)
Lemma insert_sorted_Sorted x l : Sorted N.le l → Sorted N.le (insert_sorted N.leb x l).
Proof.
  induction l as [|y l IH]; intros Hl; simpl; [by repeat constructor|].
  destruct (N.leb x y) eqn:E.
  - apply N.leb_le in E. constructor; [done|by constructor].
  - apply N.leb_gt in E. inversion Hl as [|? ? Hl' Hhd]; subst. constructor; [by apply IH|].
    destruct l as [|z l]; simpl; [constructor; lia|].
    destruct (N.leb x z); constructor; [lia|]. inversion Hhd; subst. done.
Qed.
Lemma sortN_Sorted l : Sorted N.le (sortN l).
Proof. induction l as [|x l IH]; simpl; [constructor|]. by apply insert_sorted_Sorted. Qed.
Lemma sortN_perm_eq l1 l2 : l1 ≡ₚ l2 → sortN l1 = sortN l2.
Proof.
  intros H. apply (Sorted_unique N.le); [apply sortN_Sorted|apply sortN_Sorted|].
  by rewrite !sortN_perm.
Qed.
Lemma sortN_length l : length (sortN l) = length l.
Proof. apply isort_length. Qed.

Lemma isort_ext {A} (leb1 leb2 : A → A → bool) l :
  (∀ x y, leb1 x y = leb2 x y) → isort leb1 l = isort leb2 l.
Proof.
  intros H. induction l as [|x l IH]; simpl; [done|]. rewrite IH. clear IH.
  induction (isort leb2 l) as [|y k IH]; simpl; [done|]. rewrite H. by rewrite IH.
Qed.
Lemma map_isort_key {A} (f : A → N) l : map f (isort (λ x y, f x <=? f y) l) = sortN (map f l).
Proof.
  induction l as [|x l IH]; simpl; [done|]. unfold sortN in *. simpl. rewrite <- IH. clear IH.
  induction (isort (λ x0 y : A, f x0 <=? f y) l) as [|y k IH]; simpl; [done|].
  destruct (f x <=? f y); simpl; [done|]. by rewrite IH.
Qed.
Lemma lex_leb_1 a b : lex_leb [zn a] [zn b] = (a <=? b).
Proof.
  unfold zn. simpl. destruct (Z.ltb_spec (Z.of_N a) (Z.of_N b)) as [H|H].
  - symmetry. apply N.leb_le. lia.
  - destruct (Z.ltb_spec (Z.of_N b) (Z.of_N a)) as [H'|H'].
    + symmetry. apply N.leb_gt. lia.
    + symmetry. apply N.leb_le. lia.
Qed.
Lemma map_fst_sort_by (l : list (N * N)) : map fst (sort_by (λ pc, [zn (fst pc)]) l) = sortN (map fst l).
Proof.
  unfold sort_by. rewrite (isort_ext _ (λ x y : N * N, fst x <=? fst y)) by (intros; apply lex_leb_1).
  apply map_isort_key.
Qed.

(* ================= the spec: who is where ================= *)
Definition mem_pairs (m : gmap N (N * N)) (sid : N) : list (N * N) :=
  omap (λ kv : N * (N * N), if fst (snd kv) =? sid then Some (snd (snd kv), fst kv) else None) (map_to_list m).

Lemma elem_of_mem_pairs m sid p c : (p, c) ∈ mem_pairs m sid ↔ m !! c = Some (sid, p).
Proof.
  unfold mem_pairs. rewrite elem_of_list_omap. split.
  - intros ([c' [s q]]&Hin&Hf). simpl in Hf. apply elem_of_map_to_list in Hin.
    destruct (N.eqb_spec s sid) as [->|]; [|done]. by simplify_eq.
  - intros H. exists (c, (sid, p)). split; [by apply elem_of_map_to_list|]. simpl. by rewrite N.eqb_refl.
Qed.
Lemma NoDup_mem_pairs m sid : NoDup (mem_pairs m sid).
Proof.
  unfold mem_pairs. pose proof (NoDup_fst_map_to_list m) as Hnd.
  induction (map_to_list m) as [|[c [s q]] l IH]; simpl; [constructor|].
  inversion Hnd as [|? ? Hc Hl]; subst. destruct (N.eqb_spec s sid) as [->|]; [|by apply IH].
  constructor; [|by apply IH]. rewrite elem_of_list_omap. intros ([c' [s' q']]&Hin&Hf). simpl in Hf.
  destruct (s' =? sid); [|done]. simplify_eq. apply Hc. apply elem_of_list_fmap. by exists (c, (s', q)).
Qed.
Lemma sp_members_eq sp sid : sp_members sp sid = sort_by (λ pc, [zn (fst pc)]) (mem_pairs (sp_mem sp) sid).
Proof. done. Qed.
Lemma elem_of_sp_members sp sid p c : (p, c) ∈ sp_members sp sid ↔ sp_mem sp !! c = Some (sid, p).
Proof. rewrite sp_members_eq, elem_of_sort_by. apply elem_of_mem_pairs. Qed.
Lemma sp_live_true sp sid : sp_live sp sid = true ↔ ∃ c p, sp_mem sp !! c = Some (sid, p).
Proof.
  unfold sp_live. destruct (sp_members sp sid) as [|[p c] l] eqn:E.
  - split; [done|]. intros (c&p&H). apply elem_of_sp_members in H. rewrite E in H. by apply elem_of_nil in H.
  - split; [|done]. intros _. exists c, p. apply elem_of_sp_members. rewrite E. by left.
Qed.
Lemma sp_live_mem sp sp' sid : sp_mem sp = sp_mem sp' → sp_live sp sid = sp_live sp' sid.
Proof. unfold sp_live, sp_members. by intros ->. Qed.

(* the four membership components of the spec *)
Definition mproj (sp : spec) : gmap N (N * N) * gmap N N * gset N * gmap N (gset N) :=
  (sp_mem sp, sp_uuid sp, sp_seen sp, sp_pids sp).

Lemma mproj_remove_entities sid l sp : mproj (fold_right (sp_remove_entity sid) sp l) = mproj sp.
Proof. induction l as [|e l IH]; simpl; [done|]. rewrite <- IH. done. Qed.

Lemma depart_mproj sp c :
  sp_mem (depart sp c) = delete c (sp_mem sp) ∧ sp_seen (depart sp c) = sp_seen sp ∧
  sp_pids (depart sp c) = sp_pids sp ∧
  sp_uuid (depart sp c) =
    match sp_mem sp !! c with
    | Some (sid, _) => if sp_live (set_mem (delete c) sp) sid then sp_uuid sp else delete sid (sp_uuid sp)
    | None => sp_uuid sp
    end.
Proof.
  unfold depart. destruct (sp_mem sp !! c) as [[sid p]|] eqn:E.
  - pose proof (mproj_remove_entities sid (sp_gone sp sid p) sp) as Hm.
    remember (fold_right (sp_remove_entity sid) sp (sp_gone sp sid p)) as sp1 eqn:E1. clear E1.
    unfold mproj in Hm. injection Hm as H1 H2 H3 H4.
    match goal with |- context [sp_live ?x sid] => rewrite (sp_live_mem x (set_mem (delete c) sp) sid) by (simpl; by rewrite H1) end.
    destruct (sp_live (set_mem (delete c) sp) sid); simpl; rewrite ?H1, ?H2, ?H3, ?H4; done.
  - rewrite delete_notin by done. done.
Qed.

(* ================= the abstraction relation (membership part) ================= *)
Definition uuid_at (st : state) (sid : N) : option N := s_uuid <$> sessions st !! sid.

Record refines_mem (sp : spec) (st : state) : Prop := {
  (* who is where, under which participant id *)
  rm_mem : ∀ c, sp_mem sp !! c = cur_of st c;
  (* which numeric session ids are live, under which incarnation *)
  rm_uuid : ∀ sid, sp_uuid sp !! sid = uuid_at st sid;
  (* the incarnations handed out so far are exactly 1 .. next_uuid *)
  rm_seen : ∀ u, u ∈ sp_seen sp ↔ 1 ≤ u ≤ next_uuid st;
  (* the participant ids issued under a live incarnation are exactly 1 .. its counter *)
  rm_pids : ∀ sid u g, uuid_at st sid = Some u → pgen_of st sid = Some g →
      ∀ p, p ∈ issued (sp_pids sp) u ↔ 1 ≤ p ≤ g;
  (* nothing was issued under an incarnation that does not exist yet *)
  rm_fresh : ∀ u, next_uuid st < u → issued (sp_pids sp) u = ∅;
  (* the participants of a live session were all issued under its incarnation *)
  rm_parts : ∀ sid u ps p, uuid_at st sid = Some u → parts_of st sid = Some ps → is_Some (ps !! p) →
      p ∈ issued (sp_pids sp) u
}.

Lemma refines_state0 : refines_mem spec0 state0.
Proof.
  split; unfold cur_of, uuid_at, pgen_of, parts_of; simpl; intros *; rewrite ?lookup_empty; simpl; try done.
  - split; [set_solver|lia].
Qed.

(* the relation looks at these projections only *)
Definition same_all (st st' : state) : Prop :=
  (∀ c, cur_of st' c = cur_of st c) ∧ (∀ sid, parts_of st' sid = parts_of st sid) ∧
  (∀ sid, pgen_of st' sid = pgen_of st sid) ∧ (∀ sid, uuid_at st' sid = uuid_at st sid) ∧
  next_uuid st' = next_uuid st.
Lemma same_all_refl st : same_all st st.
Proof. by repeat split. Qed.
Lemma same_all_trans a b c : same_all a b → same_all b c → same_all a c.
Proof.
  intros (A1&A2&A3&A4&A5) (B1&B2&B3&B4&B5). repeat split; intros; congruence.
Qed.
Lemma same_all_of_mem st st' :
  same_mem st st' → (∀ sid, uuid_at st' sid = uuid_at st sid) → next_uuid st' = next_uuid st → same_all st st'.
Proof. intros (H1&H2&H3&H4&H5) H6 H7. by repeat split. Qed.
Lemma same_all_sessions st st' :
  (∀ c, cur_of st' c = cur_of st c) → sessions st' = sessions st → next_uuid st' = next_uuid st → same_all st st'.
Proof. intros H1 H2 H3. unfold same_all, parts_of, pgen_of, uuid_at. rewrite H2. by repeat split. Qed.
Lemma refines_same sp st st' : same_all st st' → refines_mem sp st → refines_mem sp st'.
Proof.
  intros (H1&H3&H4&H6&H7) [R1 R2 R3 R4 R5 R6]. split.
  - intros c. by rewrite H1.
  - intros sid. by rewrite H6.
  - intros u. by rewrite H7.
  - intros sid u g. rewrite H6, H4. apply R4.
  - intros u. rewrite H7. apply R5.
  - intros sid u ps p. rewrite H6, H3. apply R6.
Qed.
Lemma refines_mproj sp sp' st : mproj sp' = mproj sp → refines_mem sp st → refines_mem sp' st.
Proof.
  unfold mproj. intros [= H1 H2 H3 H4] [R1 R2 R3 R4 R5 R6]. split; rewrite ?H1, ?H2, ?H3, ?H4; done.
Qed.

Lemma same_all_upd_conn st c f : (∀ cn, c_cur (f cn) = c_cur cn) → same_all st (upd_conn c f st).
Proof. intros H1. apply same_all_sessions; [|done|done]. intros c'. by apply cur_of_upd_conn. Qed.

(* ================= live in the spec = registered in the model ================= *)
Lemma live_iff sp st sid :
  inv st → (∀ c, sp_mem sp !! c = cur_of st c) → sp_live sp sid = true ↔ is_Some (sessions st !! sid).
Proof.
  intros I Hm. rewrite sp_live_true. split.
  - intros (c&p&H). rewrite Hm in H. by eapply live_session, inv_live.
  - intros [SS HS]. assert (Hps : parts_of st sid = Some (s_parts SS)) by (unfold parts_of; by rewrite HS).
    destruct (map_choose (s_parts SS)) as (p&c&Hp); [by eapply inv_nonempty|].
    exists c, p. rewrite Hm. by apply (inv_parts _ I sid (s_parts SS)).
Qed.
Lemma live_false sp st sid :
  inv st → (∀ c, sp_mem sp !! c = cur_of st c) → sp_live sp sid = false ↔ sessions st !! sid = None.
Proof.
  intros I Hm. pose proof (live_iff sp st sid I Hm) as H. destruct (sp_live sp sid).
  - split; [done|]. intros E. destruct (proj1 H eq_refl) as [? ?]. congruence.
  - split; [|done]. intros _. destruct (sessions st !! sid) eqn:E; [|done]. discriminate (proj2 H (mk_is_Some _ _ eq_refl)).
Qed.

(* ================= departure ================= *)
Lemma leave_next_uuid cfg st c : next_uuid (leave cfg st c).1 = next_uuid st.
Proof.
  unfold leave. destruct (conns st !! c) as [cn|]; [|done]. destruct (c_cur cn) as [[sid p]|]; [|done].
  destruct (sessions st !! sid); [|done]. destruct (remove_doomed _ _ _ _). simpl. by case_decide.
Qed.

Lemma depart_none sp c : sp_mem sp !! c = None → depart sp c = sp.
Proof. unfold depart. by intros ->. Qed.

Lemma leave_refines cfg sp st c :
  inv st → refines_mem sp st → refines_mem (depart sp c) (leave cfg st c).1.
Proof.
  intros I R. pose proof (inv_leave cfg st c I) as I1. pose proof (leave_next_uuid cfg st c) as Hn.
  destruct (leave_sessions cfg st c I) as [(cn&sid&p&SS&Hc&Hcur&HS&Hp&E)|[Hnone E]].
  2:{ rewrite E. rewrite depart_none; [done|]. by rewrite (rm_mem _ _ R). }
  assert (Hcur0 : cur_of st c = Some (sid, p)) by (unfold cur_of; by rewrite Hc).
  destruct (leave_projections cfg st c sid p I Hcur0) as [L1 L2 L3 L4 L5].
  destruct (depart_mproj sp c) as (D1&D2&D3&D4).
  rewrite (rm_mem _ _ R), Hcur0 in D4.
  remember (leave cfg st c).1 as st1 eqn:Est1. clear Est1.
  destruct R as [R1 R2 R3 R4 R5 R6].
  assert (Hm1 : ∀ c', sp_mem (set_mem (delete c) sp) !! c' = cur_of st1 c').
  { intros c'. simpl. rewrite L1. destruct (decide (c' = c)) as [->|Hne]; [by rewrite lookup_delete|by rewrite lookup_delete_ne, R1]. }
  pose proof (live_iff _ _ sid I1 Hm1) as Hlive.
  destruct (left_session_parts cfg c p (c_own cn) SS) as [LP LG].
  pose proof (left_session_uuid cfg c p (c_own cn) SS) as LU.
  (* the registered sessions afterwards *)
  assert (Hother : ∀ s, s ≠ sid → sessions st1 !! s = sessions st !! s).
  { intros s Hs. rewrite E. case_decide; [by rewrite lookup_delete_ne|by rewrite lookup_insert_ne]. }
  assert (Hsid : sessions st1 !! sid = None ∧ sp_live (set_mem (delete c) sp) sid = false ∨
                 sessions st1 !! sid = Some (left_session cfg c p (c_own cn) SS) ∧
                 sp_live (set_mem (delete c) sp) sid = true).
  { rewrite E. case_decide.
    - left. rewrite lookup_delete. split; [done|]. apply (live_false _ _ sid I1 Hm1). rewrite E.
      by rewrite lookup_delete.
    - right. rewrite lookup_insert. split; [done|]. apply Hlive. rewrite E.
      rewrite lookup_insert. eauto. }
  assert (Hu : ∀ s u, uuid_at st1 s = Some u → uuid_at st s = Some u).
  { intros s u. unfold uuid_at. destruct (decide (s = sid)) as [->|Hs]; [|by rewrite Hother].
    destruct Hsid as [[-> _]|[-> _]]; [done|]. rewrite HS. cbn [fmap option_fmap option_map]. by rewrite LU. }
  assert (Hg : ∀ s g, pgen_of st1 s = Some g → pgen_of st s = Some g).
  { intros s g. unfold pgen_of. destruct (decide (s = sid)) as [->|Hs]; [|by rewrite Hother].
    destruct Hsid as [[-> _]|[-> _]]; [done|]. rewrite HS. cbn [fmap option_fmap option_map]. by rewrite LG. }
  split.
  - intros c'. rewrite D1, L1. destruct (decide (c' = c)) as [->|Hne]; [by rewrite lookup_delete|by rewrite lookup_delete_ne, R1].
  - intros s. rewrite D4. unfold uuid_at. destruct Hsid as [[Hs ->]|[Hs ->]].
    + destruct (decide (s = sid)) as [->|Hne]; [by rewrite lookup_delete, Hs|].
      rewrite lookup_delete_ne by done. rewrite Hother by done. apply R2.
    + destruct (decide (s = sid)) as [->|Hne]; [|rewrite Hother by done; apply R2].
      rewrite Hs, R2. unfold uuid_at. rewrite HS. cbn [fmap option_fmap option_map]. by rewrite LU.
  - intros u. rewrite D2, Hn. apply R3.
  - intros s u g H1 H2. rewrite D3. eapply R4; eauto.
  - intros u. rewrite D3, Hn. apply R5.
  - intros s u ps q H1 H2 H3. rewrite D3. apply Hu in H1.
    rewrite L3 in H2. case_decide as Hs.
    + subst s. unfold parts_of in H2 at 1. rewrite HS in H2. simpl in H2. case_decide; [done|]. simplify_eq.
      destruct H3 as [c' [_ H3]%lookup_delete_Some]. eapply (R6 sid); [done|unfold parts_of; by rewrite HS|eauto].
    + eapply R6; eauto.
Qed.

(* ================= entering a registered session ================= *)
Lemma issued_issue u id m u' :
  issued (issue u id m) u' = if decide (u' = u) then issued m u ∪ {[id]} else issued m u'.
Proof.
  unfold issue. unfold issued at 1. case_decide as H; [subst; by rewrite lookup_insert|by rewrite lookup_insert_ne].
Qed.

Lemma enter_next_uuid cfg st c rid n ots : next_uuid (enter cfg st c rid n ots).1.1 = next_uuid st.
Proof. unfold enter. by destruct (sessions st !! n). Qed.

(* [sp] describes [st] except possibly for session [n], which the model has registered (possibly just now,
   still empty) and whose incarnation the spec learns from the join response *)
Lemma enter_refines cfg sp st c rid n ots SS :
  sessions st !! n = Some SS → is_Some (conns st !! c) → s_pgen SS + 1 < two32 →
  1 ≤ s_uuid SS ≤ next_uuid st →
  (∀ s S', s ≠ n → sessions st !! s = Some S' → s_uuid S' ≠ s_uuid SS) →
  (∀ c', sp_mem sp !! c' = cur_of st c') →
  (∀ s, s ≠ n → sp_uuid sp !! s = uuid_at st s) →
  (∀ u, u ∈ sp_seen sp ∨ u = s_uuid SS ↔ 1 ≤ u ≤ next_uuid st) →
  (∀ s u g, uuid_at st s = Some u → pgen_of st s = Some g → ∀ p, p ∈ issued (sp_pids sp) u ↔ 1 ≤ p ≤ g) →
  (∀ u, next_uuid st < u → issued (sp_pids sp) u = ∅) →
  (∀ s u ps p, uuid_at st s = Some u → parts_of st s = Some ps → is_Some (ps !! p) → p ∈ issued (sp_pids sp) u) →
  refines_mem (enter_spec sp c n (s_uuid SS) (u32_succ (s_pgen SS))) (enter cfg st c rid n ots).1.1.
Proof.
  intros HS Hc Hw Hu Hinj R1 R2 R3 R4 R5 R6.
  assert (Hps : parts_of st n = Some (s_parts SS)) by (unfold parts_of; by rewrite HS).
  assert (Hg : pgen_of st n = Some (s_pgen SS)) by (unfold pgen_of; by rewrite HS).
  assert (Hun : uuid_at st n = Some (s_uuid SS)) by (unfold uuid_at; by rewrite HS).
  pose proof (enter_sessions cfg st c rid n ots SS HS) as ES.
  pose proof (enter_next_uuid cfg st c rid n ots) as EN.
  destruct (enter cfg st c rid n ots) as [[st' o] v] eqn:He.
  destruct (enter_proj _ _ _ _ _ _ _ _ _ _ _ He Hc Hps Hg) as (_&E1&E2&E3&E4&E5).
  simpl in *. rewrite (u32_succ_small (s_pgen SS)) in * by done.
  assert (EU : ∀ s, uuid_at st' s = if decide (s = n) then Some (s_uuid SS) else uuid_at st s).
  { intros s. unfold uuid_at. rewrite ES. case_decide as H; [subst; by rewrite lookup_insert|by rewrite lookup_insert_ne]. }
  assert (Hother : ∀ s u, s ≠ n → uuid_at st s = Some u → u ≠ s_uuid SS).
  { intros s u Hs. unfold uuid_at. destruct (sessions st !! s) as [S'|] eqn:E; [|done]. intros [= <-]. by eapply Hinj. }
  split; simpl.
  - intros c'. rewrite E1. case_decide as H; [subst; by rewrite lookup_insert|by rewrite lookup_insert_ne, R1].
  - intros s. rewrite EU. case_decide as H; [subst; by rewrite lookup_insert|by rewrite lookup_insert_ne, R2].
  - intros u. rewrite EN, <- R3. set_solver.
  - intros s u g. rewrite EU, E4. intros H1 H2 q. rewrite issued_issue. case_decide as H.
    + subst s. simplify_eq. rewrite decide_True by done. rewrite elem_of_union, elem_of_singleton.
      rewrite (R4 n (s_uuid SS) (s_pgen SS) Hun Hg q). lia.
    + rewrite decide_False by (by eapply Hother). by eapply R4.
  - intros u. rewrite EN. intros Hlt. rewrite issued_issue. rewrite decide_False by lia. by apply R5.
  - intros s u ps q. rewrite EU, E3. intros H1 H2 H3. rewrite issued_issue. case_decide as H.
    + subst s. simplify_eq. rewrite decide_True by done. rewrite elem_of_union, elem_of_singleton.
      destruct (decide (q = s_pgen SS + 1)) as [->|Hq]; [by right|]. left. rewrite lookup_insert_ne in H3 by done.
      by eapply (R6 n).
    + rewrite decide_False by (by eapply Hother). by eapply R6.
Qed.

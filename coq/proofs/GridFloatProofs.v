(* GridFloatProofs.v — error bounds of the float32 primitives of GridFloat.v (the bit-exact model
   of math.go's Dot / Cross) against the exact references, for ALL inputs.
   The real-number theorems depend on the axioms of Coq's standard library of real numbers
   (and on classical logic as used by Flocq); nothing else. *)
From Coq Require Import ZArith Reals Psatz QArith Qreals Qabs Bool.
From Flocq Require Import Core Relative Plus_error IEEE754.BinarySingleNaN IEEE754.Binary IEEE754.Bits.
From hagall Require Import Grid GridObs GridFloat.
Local Open Scope R_scope.

(* ------------------------------------------------------------------ constants *)
Definition u32 : R := bpow radix2 (-24).        (* unit roundoff of binary32 *)
Definition eta32 : R := bpow radix2 (-150).     (* half the smallest subnormal *)
Definition omega32 : R := bpow radix2 128.      (* overflow threshold *)

Definition gamma_dot : R := (1 + u32) ^ 3 - 1.
Definition eta_dot : R := 3 * (1 + u32) ^ 2 * eta32.
Definition gamma_cross : R := (1 + u32) ^ 2 - 1.
Definition eta_cross : R := 2 * (1 + u32) * eta32.

Definition R32 (x : binary32) : R := B2R 24 128 x.
Notation fexp32 := (FLT_exp (-149) 24).
Definition rnd32 (x : R) : R := round radix2 fexp32 ZnearestE x.
Definition fmt32 (x : R) : Prop := generic_format radix2 fexp32 x.

Lemma prec_gt_0_24 : Prec_gt_0 24.
Proof. unfold Prec_gt_0. lia. Qed.
Local Existing Instance prec_gt_0_24.

Lemma u32_val : u32 = / 16777216.
Proof. unfold u32. simpl. lra. Qed.
Lemma eta32_val : eta32 = / 1427247692705959881058285969449495136382746624.
Proof. unfold eta32. simpl. lra. Qed.
Lemma omega32_val : omega32 = 340282366920938463463374607431768211456.
Proof. unfold omega32. simpl. lra. Qed.

(* ------------------------------------------------------------------ one rounding *)
Lemma rnd32_err : forall x, Rabs (rnd32 x - x) <= u32 * Rabs x + eta32.
Proof.
  intros x.
  destruct (error_N_FLT radix2 (-149) 24 ltac:(lia) (fun z => negb (Z.even z)) x)
    as (eps & eta & Heps & Heta & _ & Hr).
  unfold rnd32. rewrite Hr.
  replace (x * (1 + eps) + eta - x) with (x * eps + eta) by ring.
  eapply Rle_trans; [apply Rabs_triang|].
  rewrite Rabs_mult.
  assert (Heps' : Rabs eps <= u32) by (eapply Rle_trans; [exact Heps|]; unfold u32; simpl; lra).
  assert (Heta' : Rabs eta <= eta32) by (eapply Rle_trans; [exact Heta|]; unfold eta32; simpl; lra).
  assert (0 <= Rabs x) by apply Rabs_pos.
  assert (Rabs x * Rabs eps <= Rabs x * u32) by (apply Rmult_le_compat_l; assumption).
  lra.
Qed.

(* an addition of two float32 values never has an absolute error term: a subnormal sum is exact *)
Lemma rnd32_plus_err : forall x y, fmt32 x -> fmt32 y -> Rabs (rnd32 (x + y) - (x + y)) <= u32 * Rabs (x + y).
Proof.
  intros x y Fx Fy.
  destruct (FLT_plus_error_N_ex radix2 (-149) 24 (fun z => negb (Z.even z)) x y Fx Fy) as (eps & Heps & Hr).
  unfold rnd32. rewrite Hr.
  replace ((x + y) * (1 + eps) - (x + y)) with ((x + y) * eps) by ring.
  rewrite Rabs_mult.
  assert (Hu : u_ro radix2 24 = u32) by (unfold u_ro, u32; simpl; lra).
  rewrite Hu in Heps.
  assert (Hle : u32 / (1 + u32) <= u32).
  { rewrite <- Hu. apply u_rod1pu_ro_le_u_ro. }
  assert (0 <= Rabs (x + y)) by apply Rabs_pos.
  assert (Rabs (x + y) * Rabs eps <= Rabs (x + y) * u32).
  { apply Rmult_le_compat_l; [assumption|lra]. }
  lra.
Qed.

Lemma rnd32_minus_err : forall x y, fmt32 x -> fmt32 y -> Rabs (rnd32 (x - y) - (x - y)) <= u32 * Rabs (x - y).
Proof.
  intros x y Fx Fy. unfold Rminus at 1 3 4.
  apply rnd32_plus_err; [exact Fx|]. apply generic_format_opp. exact Fy.
Qed.

(* ------------------------------------------------------------------ the three operations
   a finite result means: finite operands, no overflow, and the result is the rounding of the
   exact result *)
Lemma overflow_not_finite : forall s (x : binary32),
  B2FF 24 128 x = Binary.binary_overflow 24 128 mode_NE s -> is_finite 24 128 x = false.
Proof.
  intros s x H. destruct x as [sx|sx|sx pl Hpl|sx m e He]; try reflexivity.
  - destruct s; discriminate H.
  - destruct s; discriminate H.
Qed.

Lemma fmt32_R32 : forall x, fmt32 (R32 x).
Proof. intros x. apply (generic_format_B2R 24 128). Qed.

Definition Hp24 : (0 < 24)%Z := eq_refl.
Definition Hpe128 : (24 < 128)%Z := eq_refl.
Lemma fmul_eq : forall x y, fmul x y = Bmult 24 128 Hp24 Hpe128 binop_nan_pl32 mode_NE x y.
Proof. reflexivity. Qed.
Lemma fadd_eq : forall x y, fadd x y = Bplus 24 128 Hp24 Hpe128 binop_nan_pl32 mode_NE x y.
Proof. reflexivity. Qed.
Lemma fsub_eq : forall x y, fsub x y = Bminus 24 128 Hp24 Hpe128 binop_nan_pl32 mode_NE x y.
Proof. reflexivity. Qed.

Lemma fmul_finite : forall x y, is_finite32 (fmul x y) = true ->
  is_finite32 x = true /\ is_finite32 y = true /\ R32 (fmul x y) = rnd32 (R32 x * R32 y).
Proof.
  intros x y Hf. rewrite fmul_eq in *. unfold is_finite32, R32, rnd32 in *.
  generalize (Bmult_correct 24 128 Hp24 Hpe128 binop_nan_pl32 mode_NE x y).
  destruct Rlt_bool.
  - intros (Hr & Hfin & _). rewrite Hfin in Hf. apply andb_true_iff in Hf. destruct Hf as [Hx Hy].
    split; [exact Hx|]. split; [exact Hy|]. exact Hr.
  - intros Hov. apply overflow_not_finite in Hov. rewrite Hov in Hf. discriminate Hf.
Qed.

Lemma fadd_finite_args : forall x y, is_finite32 (fadd x y) = true ->
  is_finite32 x = true /\ is_finite32 y = true.
Proof.
  intros x y Hf.
  destruct x as [sx|sx|sx plx Hplx|sx mx ex Hx]; destruct y as [sy|sy|sy ply Hply|sy my ey Hy];
    try (split; reflexivity); exfalso; revert Hf;
    try (destruct sx; destruct sy; discriminate); discriminate.
Qed.

Lemma fsub_finite_args : forall x y, is_finite32 (fsub x y) = true ->
  is_finite32 x = true /\ is_finite32 y = true.
Proof.
  intros x y Hf.
  destruct x as [sx|sx|sx plx Hplx|sx mx ex Hx]; destruct y as [sy|sy|sy ply Hply|sy my ey Hy];
    try (split; reflexivity); exfalso; revert Hf;
    try (destruct sx; destruct sy; discriminate); discriminate.
Qed.

Lemma fadd_finite : forall x y, is_finite32 (fadd x y) = true ->
  is_finite32 x = true /\ is_finite32 y = true /\ R32 (fadd x y) = rnd32 (R32 x + R32 y).
Proof.
  intros x y Hf. destruct (fadd_finite_args x y Hf) as [Hx Hy].
  split; [exact Hx|]. split; [exact Hy|].
  rewrite fadd_eq in *. unfold is_finite32, R32, rnd32 in *.
  generalize (Bplus_correct 24 128 Hp24 Hpe128 binop_nan_pl32 mode_NE x y Hx Hy).
  destruct Rlt_bool.
  - intros (Hr & _). exact Hr.
  - intros (Hov & _). apply overflow_not_finite in Hov. rewrite Hov in Hf. discriminate Hf.
Qed.

Lemma fsub_finite : forall x y, is_finite32 (fsub x y) = true ->
  is_finite32 x = true /\ is_finite32 y = true /\ R32 (fsub x y) = rnd32 (R32 x - R32 y).
Proof.
  intros x y Hf. destruct (fsub_finite_args x y Hf) as [Hx Hy].
  split; [exact Hx|]. split; [exact Hy|].
  rewrite fsub_eq in *. unfold is_finite32, R32, rnd32 in *.
  generalize (Bminus_correct 24 128 Hp24 Hpe128 binop_nan_pl32 mode_NE x y Hx Hy).
  destruct Rlt_bool.
  - intros (Hr & _). exact Hr.
  - intros (Hov & _). apply overflow_not_finite in Hov. rewrite Hov in Hf. discriminate Hf.
Qed.

(* conversely: finite operands and a rounded result below 2^128 give a finite result *)
Lemma fmul_no_overflow : forall x y, is_finite32 x = true -> is_finite32 y = true ->
  Rabs (rnd32 (R32 x * R32 y)) < omega32 -> is_finite32 (fmul x y) = true.
Proof.
  intros x y Hx Hy Hb. rewrite fmul_eq. unfold is_finite32, R32, rnd32, omega32 in *.
  generalize (Bmult_correct 24 128 Hp24 Hpe128 binop_nan_pl32 mode_NE x y).
  rewrite Rlt_bool_true by exact Hb.
  intros (_ & Hfin & _). rewrite Hfin, Hx, Hy. reflexivity.
Qed.

Lemma fadd_no_overflow : forall x y, is_finite32 x = true -> is_finite32 y = true ->
  Rabs (rnd32 (R32 x + R32 y)) < omega32 -> is_finite32 (fadd x y) = true.
Proof.
  intros x y Hx Hy Hb. rewrite fadd_eq. unfold is_finite32, R32, rnd32, omega32 in *.
  generalize (Bplus_correct 24 128 Hp24 Hpe128 binop_nan_pl32 mode_NE x y Hx Hy).
  rewrite Rlt_bool_true by exact Hb.
  intros (_ & Hfin & _). exact Hfin.
Qed.

Lemma fsub_no_overflow : forall x y, is_finite32 x = true -> is_finite32 y = true ->
  Rabs (rnd32 (R32 x - R32 y)) < omega32 -> is_finite32 (fsub x y) = true.
Proof.
  intros x y Hx Hy Hb. rewrite fsub_eq. unfold is_finite32, R32, rnd32, omega32 in *.
  generalize (Bminus_correct 24 128 Hp24 Hpe128 binop_nan_pl32 mode_NE x y Hx Hy).
  rewrite Rlt_bool_true by exact Hb.
  intros (_ & Hfin & _). exact Hfin.
Qed.

(* ------------------------------------------------------------------ real-number error analysis
   (all constants are numerals after rewriting u32 / eta32, so every step is linear arithmetic) *)
Ltac abs_facts t := generalize (Rabs_le_inv t (Rabs t) (Rle_refl _)) (Rabs_pos t).

Lemma dot_real_bound : forall x1 x2 x3 p1 p2 p3 s1 s2,
  Rabs (p1 - x1) <= u32 * Rabs x1 + eta32 ->
  Rabs (p2 - x2) <= u32 * Rabs x2 + eta32 ->
  Rabs (p3 - x3) <= u32 * Rabs x3 + eta32 ->
  Rabs (s1 - (p1 + p2)) <= u32 * Rabs (p1 + p2) ->
  Rabs (s2 - (s1 + p3)) <= u32 * Rabs (s1 + p3) ->
  Rabs (s2 - (x1 + x2 + x3)) <= gamma_dot * (Rabs x1 + Rabs x2 + Rabs x3) + eta_dot.
Proof.
  intros x1 x2 x3 p1 p2 p3 s1 s2 H1 H2 H3 H4 H5.
  unfold gamma_dot, eta_dot. rewrite u32_val, eta32_val in *.
  apply Rabs_le_inv in H1, H2, H3.
  abs_facts x1; abs_facts x2; abs_facts x3; intros.
  set (X1 := Rabs x1) in *; set (X2 := Rabs x2) in *; set (X3 := Rabs x3) in *.
  assert (T1 : Rabs (p1 + p2) <= (1 + / 16777216) * (X1 + X2) + 2 * / 1427247692705959881058285969449495136382746624).
  { apply Rabs_le. lra. }
  apply Rabs_le_inv in H4.
  assert (T2 : Rabs (s1 + p3) <= (1 + / 16777216) * ((1 + / 16777216) * (X1 + X2) + 2 * / 1427247692705959881058285969449495136382746624)
                                + (1 + / 16777216) * X3 + / 1427247692705959881058285969449495136382746624).
  { apply Rabs_le. lra. }
  apply Rabs_le_inv in H5.
  apply Rabs_le. lra.
Qed.

Lemma cross_real_bound : forall x1 x2 p1 p2 s,
  Rabs (p1 - x1) <= u32 * Rabs x1 + eta32 ->
  Rabs (p2 - x2) <= u32 * Rabs x2 + eta32 ->
  Rabs (s - (p1 - p2)) <= u32 * Rabs (p1 - p2) ->
  Rabs (s - (x1 - x2)) <= gamma_cross * (Rabs x1 + Rabs x2) + eta_cross.
Proof.
  intros x1 x2 p1 p2 s H1 H2 H3.
  unfold gamma_cross, eta_cross. rewrite u32_val, eta32_val in *.
  apply Rabs_le_inv in H1, H2.
  abs_facts x1; abs_facts x2; intros.
  set (X1 := Rabs x1) in *; set (X2 := Rabs x2) in *.
  assert (T1 : Rabs (p1 - p2) <= (1 + / 16777216) * (X1 + X2) + 2 * / 1427247692705959881058285969449495136382746624).
  { apply Rabs_le. lra. }
  apply Rabs_le_inv in H3.
  apply Rabs_le. lra.
Qed.

(* the bounds are below the tolerances of the sampled test (GridObs.rel_tol = 2^-22, abs_tol = 2^-140) *)
Lemma gamma_dot_le_rel_tol : gamma_dot <= bpow radix2 (-22).
Proof. unfold gamma_dot. rewrite u32_val. simpl. lra. Qed.
Lemma eta_dot_le_abs_tol : eta_dot <= bpow radix2 (-140).
Proof. unfold eta_dot. rewrite u32_val, eta32_val. simpl. lra. Qed.
Lemma gamma_cross_le_gamma_dot : gamma_cross <= gamma_dot.
Proof. unfold gamma_cross, gamma_dot. rewrite u32_val. lra. Qed.
Lemma eta_cross_le_eta_dot : eta_cross <= eta_dot.
Proof. unfold eta_cross, eta_dot. rewrite u32_val, eta32_val. lra. Qed.
Lemma gamma_dot_pos : 0 <= gamma_dot.
Proof. unfold gamma_dot. rewrite u32_val. lra. Qed.
Lemma gamma_cross_pos : 0 <= gamma_cross.
Proof. unfold gamma_cross. rewrite u32_val. lra. Qed.
(* the classical forms: gamma_dot <= 3u/(1-3u), gamma_cross <= 2u/(1-2u) *)
Lemma gamma_dot_le_classical : gamma_dot <= 3 * u32 / (1 - 3 * u32).
Proof. unfold gamma_dot. rewrite u32_val. lra. Qed.
Lemma gamma_cross_le_classical : gamma_cross <= 2 * u32 / (1 - 2 * u32).
Proof. unfold gamma_cross. rewrite u32_val. lra. Qed.

(* ------------------------------------------------------------------ Dot *)
Definition dot_exact (a b : vec32) : R :=
  R32 (fx a) * R32 (fx b) + R32 (fy a) * R32 (fy b) + R32 (fz a) * R32 (fz b).
Definition dot_mag (a b : vec32) : R :=
  Rabs (R32 (fx a) * R32 (fx b)) + Rabs (R32 (fy a) * R32 (fy b)) + Rabs (R32 (fz a) * R32 (fz b)).

Lemma finite_vec32_iff : forall a, finite_vec32 a = true <->
  is_finite32 (fx a) = true /\ is_finite32 (fy a) = true /\ is_finite32 (fz a) = true.
Proof.
  intros a. unfold finite_vec32. rewrite !andb_true_iff. tauto.
Qed.

(* a finite result means finite inputs: nothing non-finite is ever absorbed *)
Lemma dot32_finite_inputs : forall a b, is_finite32 (dot32 a b) = true ->
  finite_vec32 a = true /\ finite_vec32 b = true.
Proof.
  intros a b Hf. unfold dot32 in Hf.
  destruct (fadd_finite _ _ Hf) as (Hs1 & Hp3 & _).
  destruct (fadd_finite _ _ Hs1) as (Hp1 & Hp2 & _).
  destruct (fmul_finite _ _ Hp1) as (? & ? & _).
  destruct (fmul_finite _ _ Hp2) as (? & ? & _).
  destruct (fmul_finite _ _ Hp3) as (? & ? & _).
  rewrite !finite_vec32_iff. tauto.
Qed.

Lemma mul_err : forall x y, is_finite32 (fmul x y) = true ->
  Rabs (R32 (fmul x y) - R32 x * R32 y) <= u32 * Rabs (R32 x * R32 y) + eta32.
Proof.
  intros x y Hf. destruct (fmul_finite _ _ Hf) as (_ & _ & ->). apply rnd32_err.
Qed.

Lemma add_err : forall x y, is_finite32 (fadd x y) = true ->
  Rabs (R32 (fadd x y) - (R32 x + R32 y)) <= u32 * Rabs (R32 x + R32 y).
Proof.
  intros x y Hf. destruct (fadd_finite _ _ Hf) as (_ & _ & ->). apply rnd32_plus_err; apply fmt32_R32.
Qed.

Lemma sub_err : forall x y, is_finite32 (fsub x y) = true ->
  Rabs (R32 (fsub x y) - (R32 x - R32 y)) <= u32 * Rabs (R32 x - R32 y).
Proof.
  intros x y Hf. destruct (fsub_finite _ _ Hf) as (_ & _ & ->). apply rnd32_minus_err; apply fmt32_R32.
Qed.

(* MAIN (dot): whenever the float32 result is finite -- i.e. for all finite inputs such that none of
   the five operations overflows -- it is within gamma_dot * sum |a_i b_i| + eta_dot of the exact
   dot product.  The absolute term eta_dot accounts for gradual underflow of the three products. *)
Theorem dot32_error : forall a b, is_finite32 (dot32 a b) = true ->
  Rabs (R32 (dot32 a b) - dot_exact a b) <= gamma_dot * dot_mag a b + eta_dot.
Proof.
  intros a b Hf. unfold dot32 in *.
  destruct (fadd_finite _ _ Hf) as (Hs1 & Hp3 & _).
  destruct (fadd_finite _ _ Hs1) as (Hp1 & Hp2 & _).
  unfold dot_exact, dot_mag.
  eapply dot_real_bound.
  - apply mul_err; exact Hp1.
  - apply mul_err; exact Hp2.
  - apply mul_err; exact Hp3.
  - apply add_err; exact Hs1.
  - apply add_err; exact Hf.
Qed.

(* an explicit sufficient condition for "no operation overflows", on the exact values only *)
Definition safe_mag : R := bpow radix2 128 - bpow radix2 106.      (* (1 - 2^-22) * 2^128 *)
Lemma safe_mag_val : safe_mag = 340282285791300048856692911642763067392.
Proof. unfold safe_mag. simpl. lra. Qed.

Lemma rnd32_abs_le : forall x, Rabs (rnd32 x) <= (1 + u32) * Rabs x + eta32.
Proof.
  intros x. generalize (rnd32_err x). intros H.
  apply Rabs_le_inv in H. abs_facts x. intros. apply Rabs_le. lra.
Qed.

Lemma rnd32_plus_abs_le : forall x y, fmt32 x -> fmt32 y -> Rabs (rnd32 (x + y)) <= (1 + u32) * Rabs (x + y).
Proof.
  intros x y Fx Fy. generalize (rnd32_plus_err x y Fx Fy). intros H.
  apply Rabs_le_inv in H. abs_facts (x + y). intros. apply Rabs_le. lra.
Qed.

Theorem dot32_no_overflow : forall a b, finite_vec32 a = true -> finite_vec32 b = true ->
  dot_mag a b <= safe_mag -> is_finite32 (dot32 a b) = true.
Proof.
  intros a b Ha Hb Hm. apply finite_vec32_iff in Ha, Hb.
  destruct Ha as (Hax & Hay & Haz). destruct Hb as (Hbx & Hby & Hbz).
  unfold dot_mag in Hm. rewrite safe_mag_val in Hm. unfold dot32.
  set (x1 := R32 (fx a) * R32 (fx b)) in *.
  set (x2 := R32 (fy a) * R32 (fy b)) in *.
  set (x3 := R32 (fz a) * R32 (fz b)) in *.
  generalize (Rabs_pos x1) (Rabs_pos x2) (Rabs_pos x3). intros P1 P2 P3.
  generalize (rnd32_abs_le x1) (rnd32_abs_le x2) (rnd32_abs_le x3). intros B1 B2 B3.
  rewrite u32_val, eta32_val in B1, B2, B3.
  assert (F1 : is_finite32 (fmul (fx a) (fx b)) = true).
  { apply fmul_no_overflow; [exact Hax|exact Hbx|]. fold x1. rewrite omega32_val. lra. }
  assert (F2 : is_finite32 (fmul (fy a) (fy b)) = true).
  { apply fmul_no_overflow; [exact Hay|exact Hby|]. fold x2. rewrite omega32_val. lra. }
  assert (F3 : is_finite32 (fmul (fz a) (fz b)) = true).
  { apply fmul_no_overflow; [exact Haz|exact Hbz|]. fold x3. rewrite omega32_val. lra. }
  destruct (fmul_finite _ _ F1) as (_ & _ & E1). fold x1 in E1.
  destruct (fmul_finite _ _ F2) as (_ & _ & E2). fold x2 in E2.
  destruct (fmul_finite _ _ F3) as (_ & _ & E3). fold x3 in E3.
  set (p1 := fmul (fx a) (fx b)) in *. set (p2 := fmul (fy a) (fy b)) in *. set (p3 := fmul (fz a) (fz b)) in *.
  generalize (rnd32_plus_abs_le (R32 p1) (R32 p2) (fmt32_R32 _) (fmt32_R32 _)). intros B4.
  rewrite u32_val in B4.
  assert (T1 : Rabs (R32 p1 + R32 p2) <= Rabs (rnd32 x1) + Rabs (rnd32 x2)).
  { rewrite E1, E2. apply Rabs_triang. }
  assert (F4 : is_finite32 (fadd p1 p2) = true).
  { apply fadd_no_overflow; [exact F1|exact F2|]. rewrite omega32_val. lra. }
  destruct (fadd_finite _ _ F4) as (_ & _ & E4).
  set (s1 := fadd p1 p2) in *.
  generalize (rnd32_plus_abs_le (R32 s1) (R32 p3) (fmt32_R32 _) (fmt32_R32 _)). intros B5.
  rewrite u32_val in B5.
  assert (T2 : Rabs (R32 s1 + R32 p3) <= Rabs (rnd32 (R32 p1 + R32 p2)) + Rabs (rnd32 x3)).
  { rewrite E4, E3. apply Rabs_triang. }
  apply fadd_no_overflow; [exact F4|exact F3|]. rewrite omega32_val. lra.
Qed.

Corollary dot32_no_overflow_127 : forall a b, finite_vec32 a = true -> finite_vec32 b = true ->
  dot_mag a b < bpow radix2 127 -> is_finite32 (dot32 a b) = true.
Proof.
  intros a b Ha Hb Hm. apply dot32_no_overflow; [exact Ha|exact Hb|].
  rewrite safe_mag_val. simpl in Hm. lra.
Qed.

(* ------------------------------------------------------------------ Cross: every component is
   fsub (fmul p q) (fmul r s) *)
Definition dp32 (p q r s : binary32) : binary32 := fsub (fmul p q) (fmul r s).
Definition dp_exact (p q r s : binary32) : R := R32 p * R32 q - R32 r * R32 s.
Definition dp_mag (p q r s : binary32) : R := Rabs (R32 p * R32 q) + Rabs (R32 r * R32 s).

Lemma dp32_finite_inputs : forall p q r s, is_finite32 (dp32 p q r s) = true ->
  is_finite32 p = true /\ is_finite32 q = true /\ is_finite32 r = true /\ is_finite32 s = true.
Proof.
  intros p q r s Hf. unfold dp32 in Hf.
  destruct (fsub_finite _ _ Hf) as (H1 & H2 & _).
  destruct (fmul_finite _ _ H1) as (? & ? & _).
  destruct (fmul_finite _ _ H2) as (? & ? & _). tauto.
Qed.

Lemma dp32_error : forall p q r s, is_finite32 (dp32 p q r s) = true ->
  Rabs (R32 (dp32 p q r s) - dp_exact p q r s) <= gamma_cross * dp_mag p q r s + eta_cross.
Proof.
  intros p q r s Hf. unfold dp32 in *.
  destruct (fsub_finite _ _ Hf) as (H1 & H2 & _).
  unfold dp_exact, dp_mag. eapply cross_real_bound.
  - apply mul_err; exact H1.
  - apply mul_err; exact H2.
  - apply sub_err; exact Hf.
Qed.

Lemma rnd32_minus_abs_le : forall x y, fmt32 x -> fmt32 y -> Rabs (rnd32 (x - y)) <= (1 + u32) * Rabs (x - y).
Proof.
  intros x y Fx Fy. generalize (rnd32_minus_err x y Fx Fy). intros H.
  apply Rabs_le_inv in H. abs_facts (x - y). intros. apply Rabs_le. lra.
Qed.

Lemma dp32_no_overflow : forall p q r s,
  is_finite32 p = true -> is_finite32 q = true -> is_finite32 r = true -> is_finite32 s = true ->
  dp_mag p q r s <= safe_mag -> is_finite32 (dp32 p q r s) = true.
Proof.
  intros p q r s Hp Hq Hr Hs Hm. unfold dp_mag in Hm. rewrite safe_mag_val in Hm. unfold dp32.
  set (x1 := R32 p * R32 q) in *. set (x2 := R32 r * R32 s) in *.
  generalize (Rabs_pos x1) (Rabs_pos x2). intros P1 P2.
  generalize (rnd32_abs_le x1) (rnd32_abs_le x2). intros B1 B2.
  rewrite u32_val, eta32_val in B1, B2.
  assert (F1 : is_finite32 (fmul p q) = true).
  { apply fmul_no_overflow; [exact Hp|exact Hq|]. fold x1. rewrite omega32_val. lra. }
  assert (F2 : is_finite32 (fmul r s) = true).
  { apply fmul_no_overflow; [exact Hr|exact Hs|]. fold x2. rewrite omega32_val. lra. }
  destruct (fmul_finite _ _ F1) as (_ & _ & E1). fold x1 in E1.
  destruct (fmul_finite _ _ F2) as (_ & _ & E2). fold x2 in E2.
  set (p1 := fmul p q) in *. set (p2 := fmul r s) in *.
  generalize (rnd32_minus_abs_le (R32 p1) (R32 p2) (fmt32_R32 _) (fmt32_R32 _)). intros B4.
  rewrite u32_val in B4.
  assert (T1 : Rabs (R32 p1 - R32 p2) <= Rabs (rnd32 x1) + Rabs (rnd32 x2)).
  { rewrite E1, E2. unfold Rminus. eapply Rle_trans; [apply Rabs_triang|]. rewrite Rabs_Ropp. lra. }
  apply fsub_no_overflow; [exact F1|exact F2|]. rewrite omega32_val. lra.
Qed.

Lemma cross32_components : forall a b,
  fx (cross32 a b) = dp32 (fy a) (fz b) (fz a) (fy b) /\
  fy (cross32 a b) = dp32 (fz a) (fx b) (fx a) (fz b) /\
  fz (cross32 a b) = dp32 (fx a) (fy b) (fy a) (fx b).
Proof. intros a b. repeat split; reflexivity. Qed.

(* MAIN (cross): every finite component is within gamma_cross * (|p|+|q|) + eta_cross of the exact
   difference of products p - q it approximates *)
Theorem cross32_error : forall a b,
  (is_finite32 (fx (cross32 a b)) = true ->
   Rabs (R32 (fx (cross32 a b)) - (R32 (fy a) * R32 (fz b) - R32 (fz a) * R32 (fy b)))
   <= gamma_cross * (Rabs (R32 (fy a) * R32 (fz b)) + Rabs (R32 (fz a) * R32 (fy b))) + eta_cross) /\
  (is_finite32 (fy (cross32 a b)) = true ->
   Rabs (R32 (fy (cross32 a b)) - (R32 (fz a) * R32 (fx b) - R32 (fx a) * R32 (fz b)))
   <= gamma_cross * (Rabs (R32 (fz a) * R32 (fx b)) + Rabs (R32 (fx a) * R32 (fz b))) + eta_cross) /\
  (is_finite32 (fz (cross32 a b)) = true ->
   Rabs (R32 (fz (cross32 a b)) - (R32 (fx a) * R32 (fy b) - R32 (fy a) * R32 (fx b)))
   <= gamma_cross * (Rabs (R32 (fx a) * R32 (fy b)) + Rabs (R32 (fy a) * R32 (fx b))) + eta_cross).
Proof.
  intros a b. repeat split; intros Hf; apply (dp32_error _ _ _ _ Hf).
Qed.

Theorem cross32_no_overflow : forall a b, finite_vec32 a = true -> finite_vec32 b = true ->
  (Rabs (R32 (fy a) * R32 (fz b)) + Rabs (R32 (fz a) * R32 (fy b)) <= safe_mag -> is_finite32 (fx (cross32 a b)) = true) /\
  (Rabs (R32 (fz a) * R32 (fx b)) + Rabs (R32 (fx a) * R32 (fz b)) <= safe_mag -> is_finite32 (fy (cross32 a b)) = true) /\
  (Rabs (R32 (fx a) * R32 (fy b)) + Rabs (R32 (fy a) * R32 (fx b)) <= safe_mag -> is_finite32 (fz (cross32 a b)) = true).
Proof.
  intros a b Ha Hb. apply finite_vec32_iff in Ha, Hb.
  destruct Ha as (Hax & Hay & Haz). destruct Hb as (Hbx & Hby & Hbz).
  repeat split; intros Hm; apply dp32_no_overflow; assumption.
Qed.

(* ------------------------------------------------------------------ link to the exact-rational
   references of Grid.v (dot, cross) and to the sampled tolerance tests of GridObs.v *)
Lemma Q2R_Qabs : forall q : Q, Q2R (Qabs q) = Rabs (Q2R q).
Proof.
  intros q. pattern (Qabs q). apply Qabs_case; intros H; apply Qle_Rle in H; rewrite RMicromega.Q2R_0 in H.
  - rewrite Rabs_pos_eq; [reflexivity|exact H].
  - rewrite Q2R_opp. rewrite Rabs_left1; [reflexivity|exact H].
Qed.

Lemma Q2R_inject_Z : forall z, Q2R (inject_Z z) = IZR z.
Proof. intros z. unfold Q2R. simpl. lra. Qed.

(* the rational [Qval x] is exactly the real number the float denotes *)
Lemma Qval_R32 : forall x, Q2R (Qval x) = R32 x.
Proof.
  intros x. destruct x as [sx|sx|sx pl Hpl|sx m e He]; unfold R32;
    try (simpl; apply RMicromega.Q2R_0).
  unfold Qval, B2R, F2R. cbv [Fnum Fexp].
  assert (Hmag : Q2R match e with
                     | Z0 => inject_Z (Zpos m)
                     | Zpos p => inject_Z (Zpos m * Z.pow 2 (Zpos p))
                     | Zneg p => Qred (Zpos m # Pos.pow 2 p)
                     end = IZR (Zpos m) * bpow radix2 e).
  { destruct e as [|p|p].
    - rewrite Q2R_inject_Z. simpl. lra.
    - rewrite Q2R_inject_Z. rewrite mult_IZR. reflexivity.
    - rewrite (Qeq_eqR _ _ (Qred_correct _)). unfold Q2R. simpl Qnum. simpl Qden. simpl bpow.
      rewrite Pos2Z.inj_pow. reflexivity. }
  destruct sx.
  - rewrite Q2R_opp, Hmag. simpl cond_Zopp. rewrite <- Pos2Z.opp_pos. rewrite opp_IZR. lra.
  - rewrite Hmag. reflexivity.
Qed.

Definition vecQ (a : vec32) : vec := mkVec (Qval (fx a)) (Qval (fy a)) (Qval (fz a)).

Lemma Q2R_dot : forall a b, Q2R (dot (vecQ a) (vecQ b)) = dot_exact a b.
Proof.
  intros a b. unfold dot, vecQ, dot_exact. cbv [vx vy vz].
  rewrite !Q2R_plus, !Q2R_mult, !Qval_R32. reflexivity.
Qed.

Lemma Q2R_sum_abs : forall a b, Q2R (sum_abs (vecQ a) (vecQ b)) = dot_mag a b.
Proof.
  intros a b. unfold sum_abs, vecQ, dot_mag. cbv [vx vy vz].
  rewrite !Q2R_plus, !Q2R_Qabs, !Q2R_mult, !Qval_R32. reflexivity.
Qed.

Lemma Q2R_rel_tol : Q2R rel_tol = bpow radix2 (-22).
Proof. change rel_tol with (1 # 4194304)%Q. unfold Q2R. simpl. lra. Qed.
Lemma Q2R_abs_tol : Q2R abs_tol = bpow radix2 (-140).
Proof. change abs_tol with (1 # 1393796574908163946345982392040522594123776)%Q. unfold Q2R. simpl. lra. Qed.
Lemma Q2R_huge : Q2R huge = bpow radix2 127.
Proof. unfold huge, two_pow. rewrite Q2R_inject_Z. reflexivity. Qed.

(* the bound implies the tolerance the framework tests with *)
Theorem dot32_within_tolerance : forall a b, is_finite32 (dot32 a b) = true ->
  Rabs (R32 (dot32 a b) - dot_exact a b) <= Q2R rel_tol * dot_mag a b + Q2R abs_tol.
Proof.
  intros a b Hf. eapply Rle_trans; [apply dot32_error; exact Hf|].
  rewrite Q2R_rel_tol, Q2R_abs_tol.
  assert (0 <= dot_mag a b).
  { unfold dot_mag. generalize (Rabs_pos (R32 (fx a) * R32 (fx b))) (Rabs_pos (R32 (fy a) * R32 (fy b)))
      (Rabs_pos (R32 (fz a) * R32 (fz b))). lra. }
  generalize gamma_dot_le_rel_tol eta_dot_le_abs_tol. intros Hg He.
  assert (gamma_dot * dot_mag a b <= bpow radix2 (-22) * dot_mag a b) by (apply Rmult_le_compat_r; assumption).
  lra.
Qed.

(* GridObs.dot_ok can never fail on a correct float32 implementation: for all finite inputs, the
   sampled test applied to the bit-exact model's result returns true -- both when the result is
   finite (tolerance branch) and when it is not (overflow branch: the magnitudes reach 2^127) *)
Theorem dot_ok_float32 : forall a b, finite_vec32 a = true -> finite_vec32 b = true ->
  dot_ok (vecQ a) (vecQ b) (Qres (dot32 a b)) = true.
Proof.
  intros a b Ha Hb. unfold Qres. destruct (is_finite32 (dot32 a b)) eqn:Hf; unfold dot_ok.
  - apply Qle_bool_iff. apply Rle_Qle.
    rewrite Q2R_Qabs, Q2R_minus, Q2R_plus, Q2R_mult, Q2R_dot, Q2R_sum_abs, Qval_R32.
    apply dot32_within_tolerance. exact Hf.
  - apply Qle_bool_iff. apply Rle_Qle. rewrite Q2R_huge, Q2R_sum_abs.
    apply Rnot_lt_le. intros Hlt.
    rewrite (dot32_no_overflow_127 a b Ha Hb Hlt) in Hf. discriminate Hf.
Qed.

(* same for Cross, component by component *)
Lemma dp32_within_tolerance : forall p q r s, is_finite32 (dp32 p q r s) = true ->
  Rabs (R32 (dp32 p q r s) - dp_exact p q r s) <= Q2R rel_tol * dp_mag p q r s + Q2R abs_tol.
Proof.
  intros p q r s Hf. eapply Rle_trans; [apply dp32_error; exact Hf|].
  rewrite Q2R_rel_tol, Q2R_abs_tol.
  assert (0 <= dp_mag p q r s).
  { unfold dp_mag. generalize (Rabs_pos (R32 p * R32 q)) (Rabs_pos (R32 r * R32 s)). lra. }
  generalize gamma_dot_le_rel_tol eta_dot_le_abs_tol gamma_cross_le_gamma_dot eta_cross_le_eta_dot.
  intros Hg He Hg' He'.
  assert (gamma_cross * dp_mag p q r s <= bpow radix2 (-22) * dp_mag p q r s).
  { apply Rmult_le_compat_r; [assumption|lra]. }
  lra.
Qed.

Lemma comp_ok_float32 : forall p q r s,
  is_finite32 p = true -> is_finite32 q = true -> is_finite32 r = true -> is_finite32 s = true ->
  comp_ok (Qval p * Qval q) (Qval r * Qval s) (Qres (dp32 p q r s)) = true.
Proof.
  intros p q r s Hp Hq Hr Hs. unfold Qres. destruct (is_finite32 (dp32 p q r s)) eqn:Hf; unfold comp_ok.
  - apply Qle_bool_iff. apply Rle_Qle.
    rewrite Q2R_Qabs, Q2R_minus, Q2R_plus, Q2R_mult, Q2R_minus, Q2R_plus, !Q2R_Qabs, !Q2R_mult, !Qval_R32.
    apply dp32_within_tolerance. exact Hf.
  - apply Qle_bool_iff. apply Rle_Qle. rewrite Q2R_huge, Q2R_plus, !Q2R_Qabs, !Q2R_mult, !Qval_R32.
    apply Rnot_lt_le. intros Hlt.
    rewrite (dp32_no_overflow p q r s Hp Hq Hr Hs) in Hf; [discriminate Hf|].
    unfold dp_mag. rewrite safe_mag_val. simpl in Hlt. lra.
Qed.

Theorem cross_ok_float32 : forall a b, finite_vec32 a = true -> finite_vec32 b = true ->
  let c := cross32 a b in
  cross_ok (vecQ a) (vecQ b) (Qres (fx c)) (Qres (fy c)) (Qres (fz c)) = true.
Proof.
  intros a b Ha Hb c. apply finite_vec32_iff in Ha, Hb.
  destruct Ha as (Hax & Hay & Haz). destruct Hb as (Hbx & Hby & Hbz).
  unfold cross_ok, vecQ. cbv [vx vy vz].
  destruct (cross32_components a b) as (Ex & Ey & Ez). subst c. rewrite Ex, Ey, Ez.
  rewrite !comp_ok_float32 by assumption. reflexivity.
Qed.

(* ------------------------------------------------------------------ the framework's own decoder
   Grid.Q_of_f32bits (used by the C20 oracle on the bit patterns the Go harness dumps) computes,
   from the bit pattern of any float32, exactly [Qres] of that float (Leibniz equality) *)
Local Open Scope Z_scope.

Lemma sign_bit_test : forall b, 0 <= b < 4294967296 ->
  ((b / 2147483648) mod 2 =? 1) = Zle_bool 2147483648 b.
Proof.
  intros b Hb. destruct (Z_lt_le_dec b 2147483648) as [Hlt|Hge].
  - rewrite Z.div_small by lia. rewrite (Zle_bool_false _ _ Hlt). reflexivity.
  - assert (Hq : b / 2147483648 = 1).
    { symmetry. apply (Z.div_unique b 2147483648 1 (b - 2147483648)); lia. }
    rewrite Hq. rewrite (Zle_bool_true _ _ Hge). reflexivity.
Qed.

Definition Q_of_fields (s : bool) (m e : Z) : option Q :=
  if e =? 255 then None
  else
    let mant := if e =? 0 then m else m + 8388608 in
    let ex := if e =? 0 then -149 else e - 150 in
    let mag := match ex with
               | Z0 => inject_Z mant
               | Zpos p => inject_Z (mant * Z.pow 2 (Zpos p))
               | Zneg p => Qred (mant # (Pos.pow 2 p))
               end in
    Some (if s then Qopp mag else mag).

Lemma Q_of_f32bits_split : forall b, 0 <= b < 4294967296 ->
  Q_of_f32bits b = let '(s, m, e) := split_bits 23 8 b in Q_of_fields s m e.
Proof.
  intros b Hb. unfold split_bits, Q_of_f32bits, Q_of_fields.
  change (2 ^ 23) with 8388608. change (2 ^ 8) with 256. change (8388608 * 256) with 2147483648.
  cbv zeta. rewrite (sign_bit_test b Hb). reflexivity.
Qed.

Lemma bounded_facts : forall mx ex, SpecFloat.bounded 24 128 mx ex = true ->
  -149 <= ex <= 104 /\ Zpos mx < 16777216 /\ (Zpos mx < 8388608 -> ex = -149).
Proof.
  intros mx ex H. unfold SpecFloat.bounded in H. apply andb_true_iff in H. destruct H as [A B].
  apply Z.leb_le in B. unfold SpecFloat.canonical_mantissa in A. apply Zeq_bool_eq in A.
  rewrite Zpos_digits2_pos in A. unfold SpecFloat.fexp, SpecFloat.emin in A.
  set (d := Zdigits radix2 (Zpos mx)) in *.
  split; [lia|]. split.
  - assert (Hd : d <= 24) by lia.
    apply Z.lt_le_trans with (radix2 ^ d).
    + apply (Zpower_gt_Zdigits radix2 d (Zpos mx)). unfold d. lia.
    + change 16777216 with (radix2 ^ 24). apply Zpower_le. exact Hd.
  - intros Hlt. assert (Hd : d <= 23).
    { unfold d. apply Zdigits_le_Zpower. simpl. exact Hlt. }
    lia.
Qed.

Theorem Q_of_f32bits_bits : forall x : binary32, Q_of_f32bits (bits_of_f32 x) = Qres x.
Proof.
  intros x. unfold bits_of_f32, bits_of_b32.
  rewrite Q_of_f32bits_split by (apply (bits_of_binary_float_range 23 8); reflexivity).
  rewrite (split_bits_of_binary_float_correct 23 8) by reflexivity.
  destruct x as [sx|sx|sx pl Hpl|sx mx ex Hx]; unfold split_bits_of_binary_float, Qres.
  - destruct sx; reflexivity.
  - reflexivity.
  - reflexivity.
  - destruct (bounded_facts mx ex Hx) as (Hex & Hm & Hsub).
    change (2 ^ 23) with 8388608. cbv zeta.
    destruct (Zle_bool_spec 0 (Zpos mx - 8388608)) as [Hn|Hs]; unfold Q_of_fields.
    + change (SpecFloat.emin (23 + 1) (2 ^ (8 - 1))) with (-149).
      replace (ex - -149 + 1 =? 255) with false by (symmetry; apply Z.eqb_neq; lia).
      replace (ex - -149 + 1 =? 0) with false by (symmetry; apply Z.eqb_neq; lia).
      replace (Zpos mx - 8388608 + 8388608) with (Zpos mx) by lia.
      replace (ex - -149 + 1 - 150) with ex by lia.
      reflexivity.
    + assert (E : ex = -149) by (apply Hsub; lia).
      cbv beta iota delta [is_finite32 is_finite Qval]. rewrite E. reflexivity.
Qed.
Local Close Scope Z_scope.

Lemma decode_finite : forall x, is_finite32 x = true -> Q_of_f32bits (bits_of_f32 x) = Some (Qval x).
Proof. intros x Hx. rewrite Q_of_f32bits_bits. unfold Qres. rewrite Hx. reflexivity. Qed.

(* the sampled tests, on what the C20 oracle actually decodes from the dumped bit patterns *)
Theorem dot_ok_bits : forall a b, finite_vec32 a = true -> finite_vec32 b = true ->
  dot_ok (vecQ a) (vecQ b) (Q_of_f32bits (bits_of_f32 (dot32 a b))) = true.
Proof. intros a b Ha Hb. rewrite Q_of_f32bits_bits. apply dot_ok_float32; assumption. Qed.

Theorem cross_ok_bits : forall a b, finite_vec32 a = true -> finite_vec32 b = true ->
  let c := cross32 a b in
  cross_ok (vecQ a) (vecQ b) (Q_of_f32bits (bits_of_f32 (fx c))) (Q_of_f32bits (bits_of_f32 (fy c)))
           (Q_of_f32bits (bits_of_f32 (fz c))) = true.
Proof. intros a b Ha Hb c. rewrite !Q_of_f32bits_bits. apply cross_ok_float32; assumption. Qed.

(* ------------------------------------------------------------------ Add, Sub, Mul (one rounding per component) *)
Theorem add32_error : forall a b,
  (is_finite32 (fx (add32 a b)) = true ->
   Rabs (R32 (fx (add32 a b)) - (R32 (fx a) + R32 (fx b))) <= u32 * Rabs (R32 (fx a) + R32 (fx b))) /\
  (is_finite32 (fy (add32 a b)) = true ->
   Rabs (R32 (fy (add32 a b)) - (R32 (fy a) + R32 (fy b))) <= u32 * Rabs (R32 (fy a) + R32 (fy b))) /\
  (is_finite32 (fz (add32 a b)) = true ->
   Rabs (R32 (fz (add32 a b)) - (R32 (fz a) + R32 (fz b))) <= u32 * Rabs (R32 (fz a) + R32 (fz b))).
Proof. intros a b. repeat split; intros Hf; apply (add_err _ _ Hf). Qed.

Theorem sub32_error : forall a b,
  (is_finite32 (fx (sub32 a b)) = true ->
   Rabs (R32 (fx (sub32 a b)) - (R32 (fx a) - R32 (fx b))) <= u32 * Rabs (R32 (fx a) - R32 (fx b))) /\
  (is_finite32 (fy (sub32 a b)) = true ->
   Rabs (R32 (fy (sub32 a b)) - (R32 (fy a) - R32 (fy b))) <= u32 * Rabs (R32 (fy a) - R32 (fy b))) /\
  (is_finite32 (fz (sub32 a b)) = true ->
   Rabs (R32 (fz (sub32 a b)) - (R32 (fz a) - R32 (fz b))) <= u32 * Rabs (R32 (fz a) - R32 (fz b))).
Proof. intros a b. repeat split; intros Hf; apply (sub_err _ _ Hf). Qed.

Theorem mul32_error : forall a s,
  (is_finite32 (fx (mul32 a s)) = true ->
   Rabs (R32 (fx (mul32 a s)) - R32 (fx a) * R32 s) <= u32 * Rabs (R32 (fx a) * R32 s) + eta32) /\
  (is_finite32 (fy (mul32 a s)) = true ->
   Rabs (R32 (fy (mul32 a s)) - R32 (fy a) * R32 s) <= u32 * Rabs (R32 (fy a) * R32 s) + eta32) /\
  (is_finite32 (fz (mul32 a s)) = true ->
   Rabs (R32 (fz (mul32 a s)) - R32 (fz a) * R32 s) <= u32 * Rabs (R32 (fz a) * R32 s) + eta32).
Proof. intros a s. repeat split; intros Hf; apply (mul_err _ _ Hf). Qed.

(* ------------------------------------------------------------------ the no-overflow condition,
   explicitly: every rounded intermediate value is below 2^128 in magnitude.  It is EQUIVALENT
   (with finiteness of the inputs) to the finiteness of the float32 result, which is the
   hypothesis of the error theorems above. *)
Lemma R32_lt_omega : forall x, Rabs (R32 x) < omega32.
Proof. intros x. apply (abs_B2R_lt_emax 24 128). Qed.

Definition dot_no_overflow (a b : vec32) : Prop :=
  let p1 := rnd32 (R32 (fx a) * R32 (fx b)) in
  let p2 := rnd32 (R32 (fy a) * R32 (fy b)) in
  let p3 := rnd32 (R32 (fz a) * R32 (fz b)) in
  Rabs p1 < omega32 /\ Rabs p2 < omega32 /\ Rabs p3 < omega32 /\
  Rabs (rnd32 (p1 + p2)) < omega32 /\ Rabs (rnd32 (rnd32 (p1 + p2) + p3)) < omega32.

Theorem dot32_finite_iff : forall a b,
  is_finite32 (dot32 a b) = true <->
  finite_vec32 a = true /\ finite_vec32 b = true /\ dot_no_overflow a b.
Proof.
  intros a b. split.
  - intros Hf. destruct (dot32_finite_inputs a b Hf) as [Ha Hb].
    split; [exact Ha|]. split; [exact Hb|]. unfold dot32 in Hf.
    destruct (fadd_finite _ _ Hf) as (Hs1 & Hp3 & E5).
    destruct (fadd_finite _ _ Hs1) as (Hp1 & Hp2 & E4).
    destruct (fmul_finite _ _ Hp1) as (_ & _ & E1).
    destruct (fmul_finite _ _ Hp2) as (_ & _ & E2).
    destruct (fmul_finite _ _ Hp3) as (_ & _ & E3).
    unfold dot_no_overflow. cbv zeta.
    rewrite <- E1, <- E2, <- E3, <- E4, <- E5.
    repeat split; apply R32_lt_omega.
  - intros (Ha & Hb & H1 & H2 & H3 & H4 & H5).
    apply finite_vec32_iff in Ha, Hb.
    destruct Ha as (Hax & Hay & Haz). destruct Hb as (Hbx & Hby & Hbz).
    assert (F1 := fmul_no_overflow _ _ Hax Hbx H1).
    assert (F2 := fmul_no_overflow _ _ Hay Hby H2).
    assert (F3 := fmul_no_overflow _ _ Haz Hbz H3).
    destruct (fmul_finite _ _ F1) as (_ & _ & E1).
    destruct (fmul_finite _ _ F2) as (_ & _ & E2).
    destruct (fmul_finite _ _ F3) as (_ & _ & E3).
    rewrite <- E1, <- E2 in H4, H5. rewrite <- E3 in H5.
    assert (F4 := fadd_no_overflow _ _ F1 F2 H4).
    destruct (fadd_finite _ _ F4) as (_ & _ & E4).
    rewrite <- E4 in H5.
    exact (fadd_no_overflow _ _ F4 F3 H5).
Qed.

Definition dp_no_overflow (p q r s : binary32) : Prop :=
  let p1 := rnd32 (R32 p * R32 q) in
  let p2 := rnd32 (R32 r * R32 s) in
  Rabs p1 < omega32 /\ Rabs p2 < omega32 /\ Rabs (rnd32 (p1 - p2)) < omega32.

Theorem dp32_finite_iff : forall p q r s,
  is_finite32 (dp32 p q r s) = true <->
  is_finite32 p = true /\ is_finite32 q = true /\ is_finite32 r = true /\ is_finite32 s = true /\
  dp_no_overflow p q r s.
Proof.
  intros p q r s. split.
  - intros Hf. destruct (dp32_finite_inputs p q r s Hf) as (Hp & Hq & Hr & Hs).
    repeat (split; [assumption|]). unfold dp32 in Hf.
    destruct (fsub_finite _ _ Hf) as (H1 & H2 & E3).
    destruct (fmul_finite _ _ H1) as (_ & _ & E1).
    destruct (fmul_finite _ _ H2) as (_ & _ & E2).
    unfold dp_no_overflow. cbv zeta. rewrite <- E1, <- E2, <- E3.
    repeat split; apply R32_lt_omega.
  - intros (Hp & Hq & Hr & Hs & H1 & H2 & H3).
    assert (F1 := fmul_no_overflow _ _ Hp Hq H1).
    assert (F2 := fmul_no_overflow _ _ Hr Hs H2).
    destruct (fmul_finite _ _ F1) as (_ & _ & E1).
    destruct (fmul_finite _ _ F2) as (_ & _ & E2).
    rewrite <- E1, <- E2 in H3.
    exact (fsub_no_overflow _ _ F1 F2 H3).
Qed.

(* the target shape, with the no-overflow condition as an explicit hypothesis *)
Theorem dot32_error_explicit : forall a b,
  finite_vec32 a = true -> finite_vec32 b = true -> dot_no_overflow a b ->
  Rabs (R32 (dot32 a b) - dot_exact a b) <= gamma_dot * dot_mag a b + eta_dot.
Proof.
  intros a b Ha Hb Hn. apply dot32_error. apply dot32_finite_iff. tauto.
Qed.
